/-
Proofs for the creation-array rewrites (Model/Creation.lean): `Arange.num_rows`, `_layer`, `_accept_slice`, the midpoint
`stop`, and `BroadcastTrick._accept_slice` / `_accept_shuffle`.  Core Lean only.
-/
import DaskArrayModel.Model.Creation
import DaskArrayModel.Lemmas.Slice1dPos
import DaskArrayModel.Lemmas.Slice1dNegRange
import DaskArrayModel.Lemmas.SliceAlgebra
import DaskArrayModel.Lemmas.ExprMeta
namespace Dask.Lemmas.Creation
open Dask.Py Dask.Py.PySlice Dask.Slicing Dask.ND Dask.Creation
open Dask.Lemmas.SliceAlgebra

/-! ### arithmetic -/

theorem nat_eq_of_lt_iff {m n : Nat} (h : ∀ i : Nat, i < m ↔ i < n) : m = n := by
  have h1 := h m; have h2 := h n; omega

/-- `num_rows` is `len(range(start, stop, step))` -/
theorem arangeLen_eq_rangeLen (a b s : Int) (hs : s ≠ 0) : arangeLen a b s = rangeLen a b s := by
  unfold arangeLen
  rcases Int.lt_trichotomy s 0 with hc | hc | hc
  · by_cases h : b < a
    · rw [← Dask.Lemmas.Slice1dNeg.rangeLen_eq_ceilDiv a b s hc h]; omega
    · have h0 : rangeLen a b s = 0 := by
        rw [Dask.Lemmas.Slice1dNeg.rangeLen_neg a b s hc]; simp [h]
      have hle : ceilDiv (b - a) s ≤ 0 := by
        unfold ceilDiv pyDiv
        have h1 : ¬ s > 0 := by omega
        simp only [h1, hc, if_true, if_false]
        have : 0 ≤ (- -(b - a)) / (-s) := Int.ediv_nonneg (by omega) (by omega)
        omega
      rw [h0]; omega
  · exact absurd hc hs
  · by_cases h : -s < b - a
    · rw [Dask.Lemmas.Slice1dPos.ceilDiv_rangeLen hc h]; omega
    · have h0 : rangeLen a b s = 0 := by
        unfold rangeLen
        have : ¬ a < b := by omega
        simp [hc, this]
      have hle : ceilDiv (b - a) s ≤ 0 := by
        unfold ceilDiv pyDiv
        simp only [gt_iff_lt, hc, if_true]
        have : 0 ≤ (-(b - a)) / s := Int.ediv_nonneg (by omega) (by omega)
        omega
      rw [h0]; omega

/-- index characterisation of `rangeLen` for either sign of the step -/
theorem lt_rangeLen (a b c : Int) (hc : c ≠ 0) (i : Nat) :
    i < rangeLen a b c ↔ (if 0 < c then a + (i : Int) * c < b else b < a + (i : Int) * c) := by
  rcases Int.lt_trichotomy c 0 with h | h | h
  · have : ¬ 0 < c := by omega
    simp only [this, if_false]; exact lt_rangeLen_neg a b c h i
  · exact absurd h hc
  · simp only [h, if_true]; exact lt_rangeLen_pos a b c h i

/-- `range(x, x + n*c, c)` has exactly `n` elements -/
theorem rangeLen_exact (x c : Int) (hc : c ≠ 0) (n : Nat) : rangeLen x (x + (n : Int) * c) c = n := by
  apply nat_eq_of_lt_iff
  intro i
  rw [lt_rangeLen x _ c hc i]
  rcases Int.lt_trichotomy c 0 with h | h | h
  · have h1 : ¬ 0 < c := by omega
    simp only [h1, if_false]
    constructor
    · intro hh
      have : (n : Int) * c < (i : Int) * c := by omega
      have := (Int.mul_lt_mul_right_of_neg h).mp this
      omega
    · intro hh
      have : (n : Int) * c < (i : Int) * c := (Int.mul_lt_mul_right_of_neg h).mpr (by omega)
      omega
  · exact absurd h hc
  · simp only [h, if_true]
    constructor
    · intro hh
      have : (i : Int) * c < (n : Int) * c := by omega
      have := (Int.mul_lt_mul_right h).mp this
      omega
    · intro hh
      have : (i : Int) * c < (n : Int) * c := (Int.mul_lt_mul_right h).mpr (by omega)
      omega


/-! ### `_layer`: the blocks concatenate to the arange -/

theorem chunkArange_exact (x c : Int) (hc : c ≠ 0) (n : Nat) :
    chunkArange x (x + (n : Int) * c) c n = arangeVals x c n := by
  unfold chunkArange
  have hl : (rangeList x (x + (n : Int) * c) c).length = n := by
    rw [Dask.Lemmas.Slice1dPos.length_rangeList, rangeLen_exact x c hc n]
  simp only [hl, Nat.lt_irrefl, gt_iff_lt, if_false]
  unfold rangeList arangeVals
  rw [rangeLen_exact x c hc n]

theorem arangeBlocksFrom_flatten (start step : Int) (hs : step ≠ 0) : ∀ (cs : List Nat) (e : Int),
    (arangeBlocksFrom start step e cs).flatten
      = (List.range cs.sum).map (fun (p : Nat) => start + (e + (p : Int)) * step)
  | [], e => by simp [arangeBlocksFrom]
  | bs :: rest, e => by
    have ih := arangeBlocksFrom_flatten start step hs rest (e + (bs : Int))
    have e1 : start + (e + (bs : Int)) * step = (start + e * step) + (bs : Int) * step := by
      rw [Int.add_mul]; omega
    simp only [arangeBlocksFrom, List.flatten_cons, List.sum_cons]
    rw [ih, e1, chunkArange_exact _ _ hs, List.range_add, List.map_append, List.map_map]
    congr 1
    · unfold arangeVals
      apply List.map_congr_left
      intro p _
      rw [Int.add_mul]; omega
    · apply List.map_congr_left
      intro p _
      simp only [Function.comp]
      have : (e + ((bs + p : Nat) : Int)) = (e + (bs : Int) + (p : Int)) := by omega
      rw [this]

theorem arangeBlocks_flatten (start step : Int) (hs : step ≠ 0) (cs : List Nat) :
    (arangeBlocks start step cs).flatten = arangeVals start step cs.sum := by
  unfold arangeBlocks arangeVals
  rw [arangeBlocksFrom_flatten start step hs cs 0]
  apply List.map_congr_left
  intro p _
  simp

theorem arangeBlocksFrom_lengths (start step : Int) (hs : step ≠ 0) : ∀ (cs : List Nat) (e : Int),
    (arangeBlocksFrom start step e cs).map List.length = cs
  | [], e => by simp [arangeBlocksFrom]
  | bs :: rest, e => by
    have e1 : start + (e + (bs : Int)) * step = (start + e * step) + (bs : Int) * step := by
      rw [Int.add_mul]; omega
    simp only [arangeBlocksFrom, List.map_cons]
    rw [arangeBlocksFrom_lengths start step hs rest, e1, chunkArange_exact _ _ hs]
    simp [arangeVals]

/-! ### `_accept_slice` -/

theorem arangeVals_length (a s : Int) (n : Nat) : (arangeVals a s n).length = n := by simp [arangeVals]

theorem arangeVals_getD (a s : Int) (n : Nat) (p : Int) (h0 : 0 ≤ p) (h1 : p < n) :
    (arangeVals a s n).getD p.toNat 0 = a + p * s := by
  have hp : p.toNat < n := by omega
  unfold arangeVals
  rw [List.getD_eq_getElem?_getD, List.getElem?_map, List.getElem?_range hp]
  simp only [Option.map_some, Option.getD_some]
  rw [Int.toNat_of_nonneg h0]

/-- the affine fold shared by `Arange._accept_slice` and `Linspace._accept_slice`: on an affine sequence of length `n`,
the positions selected by `s` form the affine sequence `start + istart*step, step*k, len(range(...))` -/
theorem fold_vals (start step : Int) (n : Nat) (s : PySlice) (hk : s.stp ≠ 0) :
    arangeVals (start + s.istart n * step) (step * s.stp) (rangeLen (s.istart n) (s.istop n) s.stp)
      = sliceList (arangeVals start step n) s := by
  simp only [sliceList, arangeVals_length]
  unfold sel rangeList
  rw [List.map_map]
  unfold arangeVals
  apply List.map_congr_left
  intro i hi
  simp only [Function.comp]
  have hi' : i < rangeLen (s.istart n) (s.istop n) s.stp := List.mem_range.mp hi
  have hb := sel_bounds s (n : Int) (Int.natCast_nonneg _) hk
      (s.istart n + (i : Int) * s.stp)
      ((mem_rangeList _ _ _ _).mpr ⟨i, hi', rfl⟩)
  have := arangeVals_getD start step n _ hb.1 hb.2
  unfold arangeVals at this
  rw [this, Int.add_mul, Int.mul_comm step s.stp, Int.mul_assoc]
  omega

theorem fold_count (n : Nat) (s : PySlice) :
    rangeLen (s.istart n) (s.istop n) s.stp = (sel s n).length := by
  unfold sel
  rw [Dask.Lemmas.Slice1dPos.length_rangeList]

theorem acceptSlice_sound (a : Arange) (s : PySlice) (hk : s.stp ≠ 0) :
    ∃ f, acceptSlice a (.slc s) = some f ∧
      arangeVals f.start f.step f.count = sliceList (arangeVals a.start a.step a.numRows) s ∧
      f.count = (sel s a.numRows).length ∧
      f.step = a.step * s.stp ∧
      f.stop2 = (if a.integral then 2 * (f.start + (f.count : Int) * f.step)
                 else 2 * f.start + (2 * (f.count : Int) - 1) * f.step) := by
  cases hi : a.integral
  · exact ⟨_, by simp only [acceptSlice, hi]; rfl, fold_vals a.start a.step a.numRows s hk,
      fold_count a.numRows s, rfl, by simp⟩
  · exact ⟨_, by simp only [acceptSlice, hi]; rfl, fold_vals a.start a.step a.numRows s hk,
      fold_count a.numRows s, rfl, by simp⟩

/-- `num_rows` re-derived from the exact integer stop `start + n*step` is `n` -/
theorem arangeLen_exact (x c : Int) (hc : c ≠ 0) (n : Nat) : arangeLen x (x + (n : Int) * c) c = n := by
  rw [arangeLen_eq_rangeLen _ _ _ hc, rangeLen_exact x c hc n]

theorem acceptSliceLinspace_sound (start step : Int) (num : Nat) (s : PySlice) (hk : s.stp ≠ 0) :
    ∃ ns nstep cnt nstop, acceptSliceLinspace start step num (.slc s) = some (ns, nstep, cnt, nstop) ∧
      arangeVals ns nstep cnt = sliceList (arangeVals start step num) s ∧
      cnt = (sel s num).length ∧
      nstop - ns = ((cnt : Int) - 1) * nstep :=
  ⟨_, _, _, _, rfl, fold_vals start step num s hk, fold_count num s, by omega⟩

/-- the chunks the slice node advertises (`new_blockdim`) sum to the folded count -/
theorem pinned_sum (n : Nat) (cs : List Nat) (hne : cs ≠ []) (hn : n = cs.sum) (s : PySlice) (hk : s.stp ≠ 0) :
    (sliceChunks1 n cs s).sum = rangeLen (s.istart n) (s.istop n) s.stp := by
  rw [fold_count]
  exact (sliceChunks1_facts cs hne s hk n hn).1

theorem acceptSlice_int (a : Arange) (k : Int) : acceptSlice a (.int k) = none := rfl

/-! ### the midpoint `stop` -/

/-- with `stop` at the midpoint, `num_rows` of the folded arange (start, stop, step doubled to stay integral: the
length is homogeneous) is exactly `count`, for either sign of the step and for `count = 0` (ratio `-1/2`, ceiling 0). -/
theorem midLen (S s : Int) (hs : s ≠ 0) (c : Nat) :
    arangeLen (2 * S) (2 * S + (2 * (c : Int) - 1) * s) (2 * s) = c := by
  have h2 : 2 * s ≠ 0 := by omega
  rw [arangeLen_eq_rangeLen _ _ _ h2]
  apply nat_eq_of_lt_iff
  intro i
  rw [lt_rangeLen _ _ _ h2 i]
  have e1 : (i : Int) * (2 * s) = 2 * ((i : Int) * s) := Int.mul_left_comm _ _ _
  have e2 : (2 * (c : Int) - 1) * s = 2 * ((c : Int) * s) - s := by
    rw [Int.sub_mul, Int.mul_assoc, Int.one_mul]
  rw [e1, e2]
  rcases Int.lt_trichotomy s 0 with h | h | h
  · have h1 : ¬ 0 < 2 * s := by omega
    simp only [h1, if_false]
    constructor
    · intro hh
      apply Classical.byContradiction
      intro hn
      have : (i : Int) * s ≤ (c : Int) * s := Int.mul_le_mul_of_nonpos_right (by omega) (by omega)
      omega
    · intro hh
      have : (c : Int) * s ≤ ((i : Int) + 1) * s := Int.mul_le_mul_of_nonpos_right (by omega) (by omega)
      rw [Int.add_mul, Int.one_mul] at this
      omega
  · exact absurd h hs
  · have h1 : 0 < 2 * s := by omega
    simp only [h1, if_true]
    constructor
    · intro hh
      apply Classical.byContradiction
      intro hn
      have : (c : Int) * s ≤ (i : Int) * s := Int.mul_le_mul_of_nonneg_right (by omega) (by omega)
      omega
    · intro hh
      have : ((i : Int) + 1) * s ≤ (c : Int) * s := Int.mul_le_mul_of_nonneg_right (by omega) (by omega)
      rw [Int.add_mul, Int.one_mul] at this
      omega

/-- the length is homogeneous: scaling start, stop, step by `m > 0` (a common denominator) does not change it -/
theorem arangeLen_scale (m a b s : Int) (hm : 0 < m) (hs : s ≠ 0) :
    arangeLen (m * a) (m * b) (m * s) = arangeLen a b s := by
  have hms : m * s ≠ 0 := Int.mul_ne_zero (by omega) hs
  rw [arangeLen_eq_rangeLen _ _ _ hms, arangeLen_eq_rangeLen _ _ _ hs]
  apply nat_eq_of_lt_iff
  intro i
  rw [lt_rangeLen _ _ _ hms i, lt_rangeLen _ _ _ hs i]
  have e : m * a + (i : Int) * (m * s) = m * (a + (i : Int) * s) := by
    rw [Int.mul_add, Int.mul_left_comm]
  rw [e]
  have hpos : (0 < m * s) ↔ (0 < s) := by
    constructor
    · intro h
      apply Classical.byContradiction
      intro hn
      have : m * s ≤ m * 0 := Int.mul_le_mul_of_nonneg_left (by omega) (by omega)
      omega
    · intro h; exact Int.mul_pos hm h
  by_cases h : 0 < s
  · simp only [hpos.mpr h, h, if_true]
    exact Int.mul_lt_mul_left hm
  · have h' : ¬ 0 < m * s := fun x => h (hpos.mp x)
    simp only [h', h, if_false]
    exact Int.mul_lt_mul_left hm

/-! ### `BroadcastTrick` -/

theorem constSlice_den (c : Const) (idx : List Ix) : sliceArr c.den idx = (constSlice c idx).den := rfl

theorem constTake_den (c : Const) (ax : Nat) (ind : List Int) (oc : List Nat) :
    takeArr c.den ax ind = (constTake c ax ind oc).den := rfl

theorem constSlice_layout (c : Const) (idx : List Ix) (hsum : c.chunks.map List.sum = c.shape)
    (hne : NonEmptyAxes c.chunks) (hi : wfIx c.shape idx = true) :
    (constSlice c idx).chunks.map List.sum = (constSlice c idx).shape ∧ NonEmptyAxes (constSlice c idx).chunks :=
  sliceChunks_facts c.shape c.chunks idx hsum hne hi

theorem constSlice_compute (c : Const) (idx : List Ix) (hsum : c.chunks.map List.sum = c.shape)
    (hne : NonEmptyAxes c.chunks) (hi : wfIx c.shape idx = true) :
    (assemble (constSlice c idx).chunks (constSlice c idx).block).Equiv (sliceArr c.den idx) := by
  refine ⟨?_, fun _ _ => rfl⟩
  exact (constSlice_layout c idx hsum hne hi).1

theorem constTake_layout (c : Const) (ax : Nat) (ind : List Int) (oc : List Nat)
    (hsum : c.chunks.map List.sum = c.shape) (hoc : oc.sum = ind.length) :
    (constTake c ax ind oc).chunks.map List.sum = (constTake c ax ind oc).shape := by
  show (c.chunks.set ax oc).map List.sum = c.shape.set ax ind.length
  rw [List.map_set, hsum, hoc]

theorem constTake_compute (c : Const) (ax : Nat) (ind : List Int) (oc : List Nat)
    (hsum : c.chunks.map List.sum = c.shape) (hoc : oc.sum = ind.length) :
    (assemble (constTake c ax ind oc).chunks (constTake c ax ind oc).block).Equiv (takeArr c.den ax ind) := by
  refine ⟨?_, fun _ _ => rfl⟩
  exact constTake_layout c ax ind oc hsum hoc

end Dask.Lemmas.Creation
