/-
`Expr.cumsum` (sequential `CumReduction`): the per-block cumulative sum plus the running total
of the previous blocks equals NumPy's cumulative sum along the axis.
-/
import DaskArrayModel.Lemmas.ExprReduce
namespace Dask.ND
open Dask.Py Dask.Reduce Dask.Lemmas.Reduce

/-- a line through the blocks along `ax`: position `t` of block `j` is global position
`start_j + t` of the line through the global index -/
theorem line_get (env : Env) (e : Expr) (ax : Nat)
    (haxc : ax < (chunks e).length)
    (ih : ∀ b, validBid (chunks e) b →
      Arr.Equiv (blockDen env e b) (restrict (den env e) (extent (chunks e) b)))
    (bid : List Nat) (hb : validBid (chunks e) bid) (i : List Nat)
    (hi : InB i (blockShape (chunks e) bid))
    (j : Nat) (hj : j < ((chunks e).getD ax []).length) (t : Nat)
    (ht : t < ((chunks e).getD ax []).getD j 0) :
    (blockDen env e (bid.set ax j)).get (i.set ax t)
      = denGet env e ((vadd (origin (chunks e) bid) i).set ax
          ((((chunks e).getD ax []).take j).sum + t)) := by
  have hbl : bid.length = (chunks e).length := hb.length_eq
  have hil : i.length = (chunks e).length := by rw [hi.length_eq, blockShape_length hbl]
  have hol : (origin (chunks e) bid).length = (chunks e).length := origin_length hbl
  have hbjl : (bid.set ax j).length = (chunks e).length := by simpa using hbl
  have hv : validBid (chunks e) (bid.set ax j) := by
    apply validBid.of_getD hbjl
    intro a ha
    by_cases hx : ax = a
    · subst hx; rw [getD_set_eq _ _ _ _ (by omega)]; exact hj
    · rw [getD_set_ne _ _ _ _ _ hx]; exact hb.getD_lt a ha
  have hE := ih _ hv
  have hin : InB (i.set ax t) (blockShape (chunks e) (bid.set ax j)) := by
    apply InB.of_getD
    · rw [List.length_set, blockShape_length hbjl]; exact hil
    · intro a ha
      rw [blockShape_length hbjl] at ha
      rw [blockShape_getD hbjl a ha]
      by_cases hx : ax = a
      · subst hx
        rw [getD_set_eq _ _ _ _ (by omega), getD_set_eq _ _ _ _ (by omega)]; exact ht
      · rw [getD_set_ne _ _ _ _ _ hx, getD_set_ne _ _ _ _ _ hx]
        have := hi.getD_lt a (by rw [blockShape_length hbl]; exact ha)
        rwa [blockShape_getD hbl a ha] at this
  have hsh : (blockDen env e (bid.set ax j)).shape = blockShape (chunks e) (bid.set ax j) := hE.1
  rw [hE.2 _ (hsh ▸ hin)]
  simp only [restrict, extent, den]
  congr 1
  apply list_ext_getD
  · rw [vadd_length (by rw [origin_length hbjl, List.length_set, hil]), origin_length hbjl,
      List.length_set, vadd_length (by rw [hol, hil]), hol]
  · intro a ha
    rw [vadd_length (by rw [origin_length hbjl, List.length_set, hil]), origin_length hbjl] at ha
    rw [vadd_getD a (by rw [origin_length hbjl]; exact ha) (by rw [List.length_set, hil]; exact ha),
      origin_getD hbjl a ha]
    by_cases hx : ax = a
    · subst hx
      rw [getD_set_eq _ _ _ _ (by omega), getD_set_eq _ _ _ _ (by omega),
        getD_set_eq _ _ _ _ (by rw [vadd_length (by rw [hol, hil]), hol]; exact ha)]
    · rw [getD_set_ne _ _ _ _ _ hx, getD_set_ne _ _ _ _ _ hx, getD_set_ne _ _ _ _ _ hx,
        vadd_getD a (by rw [hol]; exact ha) (by rw [hil]; exact ha), origin_getD hbl a ha]

theorem getD_take_lt (cs : List Nat) (j j' : Nat) (h : j' < j) :
    (cs.take j).getD j' 0 = cs.getD j' 0 := by
  simp [List.getD_eq_getElem?_getD, List.getElem?_take, h]

/-- the total of the first `j` blocks is the sum of the first `start_j` positions -/
theorem prefix_blocks (cs : List Nat) (j : Nat) (hj : j ≤ cs.length) (F : Nat → Int) :
    Red.sum.list ((List.range j).map (fun j' =>
        Red.sum.list ((List.range (cs.getD j' 0)).map (fun t => F ((cs.take j').sum + t)))))
      = Red.sum.list ((List.range (cs.take j).sum).map F) := by
  rw [range_blocks (cs.take j) F, List.length_take, Nat.min_eq_left hj]
  have : (List.range j).map (fun j' =>
        Red.sum.list ((List.range (cs.getD j' 0)).map (fun t => F ((cs.take j').sum + t))))
      = ((List.range j).map (fun j' => (List.range ((cs.take j).getD j' 0)).map
          (fun t => F (((cs.take j).take j').sum + t)))).map (fold1 (· + ·) 0) := by
    rw [List.map_map]
    apply List.map_congr_left
    intro j' hj'
    have hlt := List.mem_range.mp hj'
    simp only [Function.comp]
    rw [getD_take_lt cs j j' hlt, List.take_take, Nat.min_eq_left (Nat.le_of_lt hlt)]
    rfl
  rw [this]
  exact fold1_add_flatten _

theorem cumsum_block (env : Env) (e : Expr) (ax : Nat)
    (i1 : (chunks e).map List.sum = shape e)
    (hax : ax < (shape e).length)
    (ih : ∀ b, validBid (chunks e) b →
      Arr.Equiv (blockDen env e b) (restrict (den env e) (extent (chunks e) b)))
    (bid : List Nat) (hb : validBid (chunks e) bid) :
    Arr.Equiv (blockDen env (.cumsum e ax) bid)
      (restrict (den env (.cumsum e ax)) (extent (chunks e) bid)) := by
  have hcl : (chunks e).length = (shape e).length := length_of_map_sum i1
  have haxc : ax < (chunks e).length := by omega
  have hbl : bid.length = (chunks e).length := hb.length_eq
  have hE := ih bid hb
  refine ⟨hE.1, ?_⟩
  intro i hi
  simp only [blockDen] at hi
  have hi' : InB i (blockShape (chunks e) bid) := by
    have := hi; rw [hE.1] at this; exact this
  have hil : i.length = (chunks e).length := by rw [hi'.length_eq, blockShape_length hbl]
  have hol : (origin (chunks e) bid).length = (chunks e).length := origin_length hbl
  have hjlt := hb.getD_lt ax haxc
  have hxlt : i.getD ax 0 < ((chunks e).getD ax []).getD (bid.getD ax 0) 0 := by
    have := hi'.getD_lt ax (by rw [blockShape_length hbl]; exact haxc)
    rwa [blockShape_getD hbl ax haxc] at this
  have hset : bid.set ax (bid.getD ax 0) = bid := by
    apply list_ext_getD (by simp)
    intro a ha
    by_cases hx : ax = a
    · subst hx; rw [getD_set_eq _ _ _ _ (by simpa using ha)]
    · rw [getD_set_ne _ _ _ _ _ hx]
  simp only [blockDen, restrict, extent, den, denGet]
  -- global axis coordinate
  have hgax : (vadd (origin (chunks e) bid) i).getD ax 0
      = (((chunks e).getD ax []).take (bid.getD ax 0)).sum + i.getD ax 0 := by
    rw [vadd_getD ax (by rw [hol]; exact haxc) (by rw [hil]; exact haxc), origin_getD hbl ax haxc]
  -- rewrite the block reads into reads of the global line
  have htails : (List.range (bid.getD ax 0)).map (fun j =>
        Red.sum.list ((List.range (((chunks e).getD ax []).getD j 0)).map (fun t =>
          (blockDen env e (bid.set ax j)).get (i.set ax t))))
      = (List.range (bid.getD ax 0)).map (fun j =>
        Red.sum.list ((List.range (((chunks e).getD ax []).getD j 0)).map (fun t =>
          (fun u => denGet env e ((vadd (origin (chunks e) bid) i).set ax u))
            ((((chunks e).getD ax []).take j).sum + t)))) := by
    apply List.map_congr_left
    intro j hj
    congr 1
    apply List.map_congr_left
    intro t ht
    exact line_get env e ax haxc ih bid hb i hi' j (by have := List.mem_range.mp hj; omega) t
      (List.mem_range.mp ht)
  have hlocal : (List.range (i.getD ax 0 + 1)).map (fun t => (blockDen env e bid).get (i.set ax t))
      = (List.range (i.getD ax 0 + 1)).map (fun t =>
          denGet env e ((vadd (origin (chunks e) bid) i).set ax
            ((((chunks e).getD ax []).take (bid.getD ax 0)).sum + t))) := by
    apply List.map_congr_left
    intro t ht
    have := line_get env e ax haxc ih bid hb i hi' (bid.getD ax 0) hjlt t
      (by have := List.mem_range.mp ht; omega)
    rw [hset] at this
    exact this
  rw [htails, hlocal, prefix_blocks _ _ (Nat.le_of_lt hjlt)
    (fun u => denGet env e ((vadd (origin (chunks e) bid) i).set ax u))]
  -- the spec side: set on the global index twice
  have hspec : (List.range ((vadd (origin (chunks e) bid) i).getD ax 0 + 1)).map (fun t =>
        denGet env e ((vadd (origin (chunks e) bid) i).set ax t))
      = (List.range ((((chunks e).getD ax []).take (bid.getD ax 0)).sum + (i.getD ax 0 + 1))).map
          (fun t => denGet env e ((vadd (origin (chunks e) bid) i).set ax t)) := by
    rw [hgax]; rfl
  have hR : ∀ (S x : Nat) (Fg : Nat → Int),
      Red.sum.list ((List.range (S + x)).map Fg)
        = Red.sum.list ((List.range S).map Fg)
          + Red.sum.list ((List.range x).map (fun t => Fg (S + t))) := by
    intro S x Fg
    rw [List.range_add, List.map_append, List.map_map]
    exact fold1_add_append _ _
  rw [hspec, hR (((chunks e).getD ax []).take (bid.getD ax 0)).sum (i.getD ax 0 + 1)
    (fun t => denGet env e ((vadd (origin (chunks e) bid) i).set ax t))]

end Dask.ND
