/-
Phase 3: the NumPy meaning `den` of a phase-1 expression depends on the data environment only through
the sources that occur in it, inside their declared shapes (`denGet_congr`).  Used for `Expr2.node`:
the tasks of a context read the COMPUTED blocks of the sub-expressions, the spec reads their meaning.
-/
import DaskArrayModel.Lemmas.RulesSound
import DaskArrayModel.Model.Expr2
namespace Dask.ND
open Dask.Py Dask.Py.PySlice Dask.Slicing

/-- two environments agree on the sources of `e` (inside their declared shapes) -/
def SrcAgree (e1 e2 : Env) (e : Expr) : Prop :=
  ∀ p ∈ srcsOf e, ∀ i, InB i p.2.1 → (e1.src p.1).get i = (e2.src p.1).get i

theorem SrcAgree.left {e1 e2 : Env} {a b : Expr} (h : ∀ p ∈ srcsOf a ++ srcsOf b, ∀ i, InB i p.2.1 →
    (e1.src p.1).get i = (e2.src p.1).get i) : SrcAgree e1 e2 a :=
  fun p hp => h p (List.mem_append_left _ hp)

theorem SrcAgree.right {e1 e2 : Env} {a b : Expr} (h : ∀ p ∈ srcsOf a ++ srcsOf b, ∀ i, InB i p.2.1 →
    (e1.src p.1).get i = (e2.src p.1).get i) : SrcAgree e1 e2 b :=
  fun p hp => h p (List.mem_append_right _ hp)

/-- the NumPy meaning only depends on the sources inside their declared shapes -/
theorem denGet_congr (e1 e2 : Env) (hun : e1.un = e2.un) (hbin : e1.bin = e2.bin) (hblk : e1.blk = e2.blk)
    (henv : EnvOK e1) : ∀ (e : Expr), WF e → SrcAgree e1 e2 e →
    ∀ i, InB i (shape e) → denGet e1 e i = denGet e2 e i
  | .src id sh ch, _, hs, i, hi => hs (id, sh, ch) (by simp [srcsOf]) i hi
  | .map f e, hw, hs, i, hi => by
    simp only [denGet, hun]
    rw [denGet_congr e1 e2 hun hbin hblk henv e (by simpa only [WF, wf] using hw) hs i hi]
  | .zip f a b, hw, hs, i, hi => by
    simp only [WF, wf, Bool.and_eq_true, decide_eq_true_eq] at hw
    simp only [denGet, hbin]
    rw [denGet_congr e1 e2 hun hbin hblk henv a hw.1.1.1 (SrcAgree.left hs) i hi,
      denGet_congr e1 e2 hun hbin hblk henv b hw.1.1.2 (SrcAgree.right hs) i (by rw [← hw.1.2]; exact hi)]
  | .slice e idx, hw, hs, i, hi => by
    simp only [WF, wf, Bool.and_eq_true] at hw
    simp only [denGet]
    exact denGet_congr e1 e2 hun hbin hblk henv e hw.1 hs _ (sliceIdx_inB _ _ _ hw.2 hi)
  | .transpose e perm, hw, hs, i, hi => by
    simp only [WF, wf, Bool.and_eq_true] at hw
    simp only [denGet]
    exact denGet_congr e1 e2 hun hbin hblk henv e hw.1 hs _ (unperm_inB (isPerm_ok hw.2) hi)
  | .rechunk e l, hw, hs, i, hi => by
    simp only [WF, wf, Bool.and_eq_true] at hw
    simp only [denGet]
    exact denGet_congr e1 e2 hun hbin hblk henv e hw.1 hs i hi
  | .concat a b ax, hw, hs, i, hi => by
    simp only [WF, wf, Bool.and_eq_true, decide_eq_true_eq] at hw
    obtain ⟨⟨⟨⟨ha, hb⟩, hax⟩, hshp⟩, _⟩ := hw
    simp only [denGet]
    split
    · rename_i hlt
      exact denGet_congr e1 e2 hun hbin hblk henv a ha (SrcAgree.left hs) i (InB_of_set hi hlt)
    · rename_i hge
      exact denGet_congr e1 e2 hun hbin hblk henv b hb (SrcAgree.right hs) _ (InB_concat_right hax hshp hi hge)
  | .expandDims e ax, hw, hs, i, hi => by
    simp only [WF, wf, Bool.and_eq_true, decide_eq_true_eq] at hw
    simp only [denGet]
    exact denGet_congr e1 e2 hun hbin hblk henv e hw.1 hs _ (InB_eraseIdx_insertIdx ax _ i 1 hw.2 hi)
  | .squeeze e ax, hw, hs, i, hi => by
    simp only [WF, wf, Bool.and_eq_true, decide_eq_true_eq] at hw
    simp only [denGet]
    obtain ⟨i1, _⟩ := meta_ok e hw.1.1
    have h1 : (shape e).getD ax 0 = 1 := by rw [← sum_getD_of_map_sum i1 ax, hw.2]; rfl
    exact denGet_congr e1 e2 hun hbin hblk henv e hw.1.1 hs _
      (InB_insertIdx_eraseIdx ax _ i hw.1.2 (by omega) hi)
  | .broadcastTo e sh l, hw, hs, i, hi => by
    simp only [WF, wf, Bool.and_eq_true, decide_eq_true_eq] at hw
    obtain ⟨⟨⟨hwe, hwl⟩, hle⟩, hbc⟩ := hw
    simp only [denGet]
    apply denGet_congr e1 e2 hun hbin hblk henv e hwe hs
    obtain ⟨i1, _⟩ := meta_ok e hwe
    obtain ⟨o1, _⟩ := wfLayout_iff.mp hwl
    have hlen := length_of_map_sum i1
    have hlen' := length_of_map_sum o1
    have hbc' : bcOK (chunks e) (l.drop (l.length - (chunks e).length)) = true := by
      rw [hlen, hlen']; exact hbc
    have hi' : InB i (l.map List.sum) := by rw [o1]; exact hi
    have := gGlob_inB (broadcastSpecs_ok (chunks e) l hbc') i hi'
    rw [gGlob_broadcastSpecs (chunks e) l i (by rw [hlen, hlen']; exact hle) hbc' hi', i1, hlen, hlen'] at this
    exact this
  | .reduce r e ax k, hw, hs, i, hi => by
    simp only [WF, wf, Bool.and_eq_true, decide_eq_true_eq] at hw
    simp only [denGet]
    congr 1
    apply List.map_congr_left
    intro t ht
    exact denGet_congr e1 e2 hun hbin hblk henv e hw.1.1.1 hs _ (InB_set_of hi (List.mem_range.mp ht))
  | .cumsum e ax, hw, hs, i, hi => by
    simp only [WF, wf, Bool.and_eq_true, decide_eq_true_eq] at hw
    simp only [denGet]
    congr 1
    apply List.map_congr_left
    intro t ht
    have hi' : InB i (shape e) := hi
    exact denGet_congr e1 e2 hun hbin hblk henv e hw.1 hs _
      (InB_set_le hi' (by have := List.mem_range.mp ht; omega))
  | .mapBlocks f e, hw, hs, i, hi => by
    simp only [WF, wf] at hw
    have hi' : InB i (shape e) := hi
    obtain ⟨i1, _⟩ := meta_ok e hw
    obtain ⟨r1, r2, _⟩ := locate_spec (l := chunks e) (g := i) (by rw [i1]; exact hi')
    simp only [denGet, ← hblk]
    have hE : Arr.Equiv
        (restrict ⟨shape e, denGet e1 e⟩ (extent (chunks e) (bidOf (chunks e) i)))
        (restrict ⟨shape e, denGet e2 e⟩ (extent (chunks e) (bidOf (chunks e) i))) :=
      restrict_congr _ _ _ _ _ i1 r1
        (fun g hg => denGet_congr e1 e2 hun hbin hblk henv e hw hs g hg)
    obtain ⟨hq, hsh⟩ := henv f _ _ hE
    apply hq.2
    rw [hsh]
    exact r2

theorem den_congr (e1 e2 : Env) (hun : e1.un = e2.un) (hbin : e1.bin = e2.bin) (hblk : e1.blk = e2.blk)
    (henv : EnvOK e1) (e : Expr) (hw : WF e) (hs : SrcAgree e1 e2 e) :
    Arr.Equiv (den e1 e) (den e2 e) :=
  ⟨rfl, fun i hi => denGet_congr e1 e2 hun hbin hblk henv e hw hs i hi⟩

end Dask.ND
