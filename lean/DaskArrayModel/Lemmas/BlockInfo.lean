/-
Proofs about the block_info model (Model/BlockInfo.lean).  Core Lean only.
-/
import DaskArrayModel.Model.BlockInfo
namespace Dask.Lemmas.BlockInfo
open Dask.BlockInfo

/-! ### prefix sums -/

theorem starts_length : ∀ c : List Nat, (starts c).length = c.length + 1
  | [] => rfl
  | x :: xs => by simp [starts, starts_length xs]

theorem starts_getD : ∀ (c : List Nat) (j : Nat), j ≤ c.length → (starts c).getD j 0 = nsum (c.take j)
  | [], 0, _ => rfl
  | [], j + 1, h => by simp at h
  | x :: xs, 0, _ => by simp [starts, nsum]
  | x :: xs, j + 1, h => by
    have hj : j ≤ xs.length := by simpa using h
    have ih := starts_getD xs j hj
    have hlt : j < (starts xs).length := by rw [starts_length]; omega
    simp only [starts, List.getD_eq_getElem?_getD, List.getElem?_cons_succ, List.getElem?_map,
      List.take_succ_cons, nsum] at ih ⊢
    rw [List.getElem?_eq_getElem hlt] at ih ⊢
    simp only [Option.map_some, Option.getD_some] at ih ⊢
    omega

theorem nsum_take_succ : ∀ (c : List Nat) (j : Nat), j < c.length →
    nsum (c.take (j + 1)) = nsum (c.take j) + c.getD j 0
  | [], j, h => by simp at h
  | x :: xs, 0, _ => by simp [nsum]
  | x :: xs, j + 1, h => by
    have ih := nsum_take_succ xs j (by simpa using h)
    simp only [List.take_succ_cons, nsum, List.getD_eq_getElem?_getD, List.getElem?_cons_succ] at ih ⊢
    omega

theorem nsum_take_length (c : List Nat) : nsum (c.take c.length) = nsum c := by simp

/-- the extent of block `j`: starts at the sum of the earlier blocks and has length `c[j]` -/
theorem extent_eq (c : List Nat) (j : Nat) (h : j < c.length) :
    extent c j = (nsum (c.take j), nsum (c.take j) + c.getD j 0) := by
  unfold extent
  rw [starts_getD c j (by omega), starts_getD c (j + 1) (by omega), nsum_take_succ c j h]

/-- the extents of one axis tile `[0, sum c)`: the first starts at 0, each next one starts where
the previous stops, the last stops at the axis length, and block `j` has length `c[j]`. -/
theorem extents_tile (c : List Nat) :
    (0 < c.length → (extent c 0).1 = 0) ∧
    (∀ j, j + 1 < c.length → (extent c j).2 = (extent c (j + 1)).1) ∧
    (0 < c.length → (extent c (c.length - 1)).2 = nsum c) ∧
    (∀ j, j < c.length → (extent c j).1 ≤ (extent c j).2 ∧ (extent c j).2 - (extent c j).1 = c.getD j 0) := by
  refine ⟨?_, ?_, ?_, ?_⟩
  · intro h; rw [extent_eq c 0 h]; simp [nsum]
  · intro j h
    rw [extent_eq c j (by omega), extent_eq c (j + 1) h]
    simp only
    rw [nsum_take_succ c j (by omega)]
  · intro h
    rw [extent_eq c (c.length - 1) (by omega)]
    simp only
    rw [← nsum_take_succ c (c.length - 1) (by omega)]
    have : c.length - 1 + 1 = c.length := by omega
    rw [this, nsum_take_length]
  · intro j h
    rw [extent_eq c j h]
    simp only
    omega

/-! ### block_info of a valid block id -/

theorem arrayLocation_spec : ∀ (L : Layout) (bid : List Nat), validBid L bid = true →
    (arrayLocation L bid).length = L.length ∧
    chunkShape L bid = (arrayLocation L bid).map (fun p => p.2 - p.1) ∧
    (∀ p ∈ arrayLocation L bid, p.1 ≤ p.2) ∧
    arrayLocation L bid = List.zipWith extent L bid
  | [], [], _ => by simp [arrayLocation, chunkShape]
  | [], _ :: _, h => by simp [validBid] at h
  | _ :: _, [], h => by simp [validBid] at h
  | c :: cs, j :: js, h => by
    simp only [validBid, Bool.and_eq_true, decide_eq_true_eq] at h
    obtain ⟨ih1, ih2, ih3, ih4⟩ := arrayLocation_spec cs js h.2
    have ht := (extents_tile c).2.2.2 j h.1
    refine ⟨by simp [arrayLocation, ih1], ?_, ?_, ?_⟩
    · simp only [chunkShape, arrayLocation, List.map_cons, ih2, ht.2]
    · intro p hp
      simp only [arrayLocation, List.mem_cons] at hp
      cases hp with
      | inl e => subst e; exact ht.1
      | inr e => exact ih3 p e
    · simp [arrayLocation, ih4]

theorem chunkShape_length : ∀ (L : Layout) (bid : List Nat), validBid L bid = true →
    (chunkShape L bid).length = L.length
  | [], [], _ => rfl
  | [], _ :: _, h => by simp [validBid] at h
  | _ :: _, [], h => by simp [validBid] at h
  | c :: cs, j :: js, h => by
    simp only [validBid, Bool.and_eq_true] at h
    simp [chunkShape, chunkShape_length cs js h.2]

/-! ### ChunksFreeze -/

theorem lowerFreeze_chunks (settled frozen : Layout) (h : shape settled = shape frozen) :
    ∃ n, lowerFreeze settled frozen = .ok n ∧ n.chunks = frozen := by
  unfold lowerFreeze
  by_cases e : settled = frozen
  · exact ⟨.child settled, by simp [e], by simp [Lowered.chunks, e]⟩
  · exact ⟨.rechunk settled frozen, by simp [e, h], rfl⟩

theorem lowerFreeze_ok_chunks (settled frozen : Layout) (n : Lowered)
    (h : lowerFreeze settled frozen = .ok n) : n.chunks = frozen := by
  unfold lowerFreeze at h
  by_cases e : settled = frozen
  · simp only [e, ↓reduceIte] at h
    injection h with h; subst h; rfl
  · simp only [e, ↓reduceIte] at h
    by_cases hs : shape settled = shape frozen
    · simp only [hs, ne_eq, not_true_eq_false, ↓reduceIte] at h
      injection h with h; subst h; rfl
    · simp only [ne_eq, hs, not_false_eq_true, ↓reduceIte] at h
      cases h

/-! ### the broadcast rule is well defined -/

def idsOf (outInd bid : List Nat) (ps : List (List Nat × Nat)) : List Nat :=
  ps.map (fun p => if p.1.length > 1 then ((outInd.zip bid).lookup p.2).getD 0 else 0)

theorem validBid_idsOf (outInd bid : List Nat) : ∀ ps : List (List Nat × Nat),
    (∀ p ∈ ps, 0 < p.1.length) →
    (∀ p ∈ ps, p.1.length > 1 → ∃ v, (outInd.zip bid).lookup p.2 = some v ∧ v < p.1.length) →
    validBid (ps.map (·.1)) (idsOf outInd bid ps) = true
  | [], _, _ => rfl
  | p :: ps, h0, h1 => by
    have ih := validBid_idsOf outInd bid ps (fun q hq => h0 q (List.mem_cons_of_mem _ hq))
      (fun q hq => h1 q (List.mem_cons_of_mem _ hq))
    simp only [idsOf, List.map_cons, validBid, Bool.and_eq_true, decide_eq_true_eq] at ih ⊢
    refine ⟨?_, ih⟩
    by_cases hl : p.1.length > 1
    · obtain ⟨v, hv, hlt⟩ := h1 p List.mem_cons_self hl
      simp [hl, hv, hlt]
    · simp only [hl, ↓reduceIte]
      exact h0 p List.mem_cons_self

theorem inputBlockId_valid (eff : Layout) (outInd bid : List Nat)
    (h0 : ∀ c ∈ eff, 0 < c.length)
    (h1 : ∀ p ∈ eff.zip (revRange eff.length), p.1.length > 1 →
      ∃ v, (outInd.zip bid).lookup p.2 = some v ∧ v < p.1.length) :
    validBid eff (inputBlockId eff outInd bid) = true := by
  have hlen : (revRange eff.length).length = eff.length := by simp [revRange]
  have hmap : (eff.zip (revRange eff.length)).map (·.1) = eff := by
    rw [List.map_fst_zip]; omega
  have := validBid_idsOf outInd bid (eff.zip (revRange eff.length))
    (fun p hp => h0 p.1 (List.of_mem_zip hp).1) h1
  rw [hmap] at this
  exact this

end Dask.Lemmas.BlockInfo
