/-
Lemmas for the tree reduction model (Model/Reduce.lean).  Core Lean only.
-/
import DaskArrayModel.Model.Reduce
namespace Dask.Lemmas.Reduce
open Dask.Py Dask.Reduce

/-! ### `partitionAll` -/

theorem partitionAll_nil {α} (k : Nat) : partitionAll k ([] : List α) = [] := by
  rw [partitionAll]; simp

theorem partitionAll_zero {α} (xs : List α) : partitionAll 0 xs = [] := by
  rw [partitionAll]; simp

theorem partitionAll_step {α} {k : Nat} {xs : List α} (hk : 0 < k) (hx : xs ≠ []) :
    partitionAll k xs = xs.take k :: partitionAll k (xs.drop k) := by
  rw [partitionAll]
  have : ¬ (k = 0 ∨ xs = []) := by
    intro h; cases h with
    | inl h => omega
    | inr h => exact hx h
  simp [this]

/-- strong induction principle following the recursion of `partitionAll`. -/
theorem partitionAll_induction {α} {k : Nat} (hk : 0 < k) (P : List α → Prop)
    (hnil : P [])
    (hstep : ∀ xs, xs ≠ [] → P (xs.drop k) → P xs) : ∀ xs, P xs := by
  intro xs
  generalize hn : xs.length = n
  induction n using Nat.strongRecOn generalizing xs with
  | _ n ih =>
    by_cases hx : xs = []
    · subst hx; exact hnil
    · apply hstep xs hx
      have hpos : 0 < xs.length := List.length_pos_iff.mpr hx
      apply ih (xs.drop k).length _ _ rfl
      simp [List.length_drop]; omega

theorem partitionAll_flatten {α} {k : Nat} (hk : 0 < k) (xs : List α) :
    (partitionAll k xs).flatten = xs := by
  induction xs using partitionAll_induction hk with
  | hnil => simp [partitionAll_nil]
  | hstep xs hx ih =>
    rw [partitionAll_step hk hx, List.flatten_cons, ih, List.take_append_drop]

theorem partitionAll_parts {α} {k : Nat} (hk : 0 < k) (xs : List α) :
    ∀ p ∈ partitionAll k xs, p ≠ [] ∧ p.length ≤ k := by
  induction xs using partitionAll_induction hk with
  | hnil => simp [partitionAll_nil]
  | hstep xs hx ih =>
    rw [partitionAll_step hk hx]
    intro p hp
    rcases List.mem_cons.mp hp with h | h
    · subst h
      constructor
      · intro e
        have hl : (xs.take k).length = 0 := by rw [e]; rfl
        have hpos : 0 < xs.length := List.length_pos_iff.mpr hx
        rw [List.length_take] at hl; omega
      · rw [List.length_take]; omega
    · exact ih p h

theorem partitionAll_length {α} {k : Nat} (hk : 0 < k) (xs : List α) :
    (partitionAll k xs).length = (xs.length + k - 1) / k := by
  induction xs using partitionAll_induction hk with
  | hnil =>
    simp only [partitionAll_nil, List.length_nil]
    have : (0 + k - 1) / k = 0 := Nat.div_eq_of_lt (by omega)
    omega
  | hstep xs hx ih =>
    rw [partitionAll_step hk hx, List.length_cons, ih, List.length_drop]
    have hpos : 0 < xs.length := List.length_pos_iff.mpr hx
    by_cases hle : xs.length ≤ k
    · have h1 : (xs.length - k + k - 1) / k = 0 := Nat.div_eq_of_lt (by omega)
      have h2 : (xs.length + k - 1) / k = 1 := by
        apply Nat.div_eq_of_lt_le <;> omega
      omega
    · have h3 : xs.length + k - 1 = (xs.length - k + k - 1) + k := by omega
      rw [h3, Nat.add_div_right _ hk]

theorem partitionAll_ne_nil {α} {k : Nat} (hk : 0 < k) {xs : List α} (hx : xs ≠ []) :
    partitionAll k xs ≠ [] := by
  rw [partitionAll_step hk hx]; simp

theorem partitionAll_short {α} {k : Nat} {xs : List α} (hx : xs ≠ []) (hl : xs.length ≤ k) :
    partitionAll k xs = [xs] := by
  have hpos : 0 < xs.length := List.length_pos_iff.mpr hx
  have hk : 0 < k := by omega
  rw [partitionAll_step hk hx, List.take_of_length_le hl, List.drop_of_length_le hl,
    partitionAll_nil]

theorem partitionAll_map {α β} {k : Nat} (hk : 0 < k) (f : α → β) (xs : List α) :
    partitionAll k (xs.map f) = (partitionAll k xs).map (List.map f) := by
  induction xs using partitionAll_induction hk with
  | hnil => simp [partitionAll_nil]
  | hstep xs hx ih =>
    have hx' : xs.map f ≠ [] := by simpa using hx
    rw [partitionAll_step hk hx', partitionAll_step hk hx, List.map_cons,
      ← List.map_drop, ih, List.map_take]

/-! ### arithmetic of tree depth -/

theorem ceilDiv_le_pow {n k d : Nat} (hk : 0 < k) (h : n ≤ k ^ (d + 1)) :
    (n + k - 1) / k ≤ k ^ d := by
  have h1 : n ≤ k ^ d * k := by rw [← Nat.pow_succ]; exact h
  have h2 : (n + k - 1) / k < k ^ d + 1 := by
    rw [Nat.div_lt_iff_lt_mul hk, Nat.succ_mul]
    omega
  omega

theorem lt_pow_self {n k : Nat} (hk : 2 ≤ k) : n < k ^ n :=
  Nat.lt_of_lt_of_le Nat.lt_two_pow_self (Nat.pow_le_pow_left hk n)

theorem depthGo_spec (n k : Nat) : ∀ fuel d, n ≤ k ^ (d + fuel) → n ≤ k ^ depthGo n k fuel d := by
  intro fuel
  induction fuel with
  | zero => intro d h; simpa [depthGo] using h
  | succ f ih =>
    intro d h
    unfold depthGo
    split
    · assumption
    · apply ih; rw [show d + 1 + f = d + (f + 1) by omega]; exact h

theorem depthGo_ge (n k : Nat) : ∀ fuel d, d ≤ depthGo n k fuel d := by
  intro fuel
  induction fuel with
  | zero => intro d; simp [depthGo]
  | succ f ih =>
    intro d; unfold depthGo; split
    · exact Nat.le_refl _
    · have := ih (d + 1); omega

theorem depthGo_min (n k : Nat) : ∀ fuel d d', d ≤ d' → n ≤ k ^ d' →
    (∀ e, d ≤ e → e < d' → ¬ n ≤ k ^ e) → depthGo n k fuel d ≤ d' := by
  intro fuel
  induction fuel with
  | zero => intro d d' h _ _; simpa [depthGo] using h
  | succ f ih =>
    intro d d' hle hd' hmin
    unfold depthGo
    split
    · exact hle
    · rename_i hnot
      have hne : d ≠ d' := by intro e; subst e; exact hnot hd'
      apply ih (d + 1) d' (by omega) hd'
      intro e he1 he2; exact hmin e (by omega) he2

/-- the depth the code computes (exactly) suffices: `n ≤ k ^ depthOf n k`. -/
theorem depthOf_spec {n k : Nat} (hk : 2 ≤ k) : n ≤ k ^ depthOf n k := by
  unfold depthOf
  apply depthGo_spec
  have := @lt_pow_self (1 + n) k hk
  omega

theorem depthOf_pos (n k : Nat) : 1 ≤ depthOf n k := depthGo_ge n k n 1

/-- minimality: no smaller positive depth has `n ≤ k ^ d`. -/
theorem depthOf_min {n k d : Nat} (hd : 1 ≤ d) (h : n ≤ k ^ d) (hk : 1 ≤ k) : depthOf n k ≤ d := by
  -- take the least d₀ ∈ [1, d] with n ≤ k ^ d₀
  have key : ∀ m, ∀ d, 1 ≤ d → d ≤ m → n ≤ k ^ d → depthOf n k ≤ d := by
    intro m
    induction m with
    | zero => intro d h1 h2; omega
    | succ m ih =>
      intro d h1 h2 h3
      by_cases hsmall : ∃ e, 1 ≤ e ∧ e < d ∧ n ≤ k ^ e
      · obtain ⟨e, he1, he2, he3⟩ := hsmall
        have := ih e he1 (by omega) he3
        omega
      · unfold depthOf
        apply depthGo_min n k n 1 d h1 h3
        intro e he1 he2 he3
        exact hsmall ⟨e, he1, he2, he3⟩
  exact key d d hd (Nat.le_refl _) h

/-! ### folds and list homomorphisms -/

theorem fold1_cons_cons {β} (op : β → β → β) (d x y : β) (r : List β) :
    fold1 op d (x :: y :: r) = op x (fold1 op d (y :: r)) := rfl

theorem fold1_singleton {β} (op : β → β → β) (d x : β) : fold1 op d [x] = x := rfl

theorem fold1_cons {β} (op : β → β → β) (d x : β) {r : List β} (hr : r ≠ []) :
    fold1 op d (x :: r) = op x (fold1 op d r) := by
  cases r with
  | nil => exact absurd rfl hr
  | cons y r => rfl

/-- `fold1 op` is a list homomorphism when `op` is associative. -/
theorem fold1_append {β} (op : β → β → β) (hassoc : ∀ a b c, op (op a b) c = op a (op b c)) (d : β)
    {xs ys : List β} (hx : xs ≠ []) (hy : ys ≠ []) :
    fold1 op d (xs ++ ys) = op (fold1 op d xs) (fold1 op d ys) := by
  induction xs with
  | nil => exact absurd rfl hx
  | cons x r ih =>
    by_cases hr : r = []
    · subst hr; simp only [List.cons_append, List.nil_append]
      rw [fold1_cons op d x hy]; rfl
    · have hne : r ++ ys ≠ [] := by simp [hr]
      rw [List.cons_append, fold1_cons op d x hne, ih hr, fold1_cons op d x hr, hassoc]

/-- the right-nested `fold1` is the usual left fold when `op` is associative. -/
theorem fold1_eq_foldl {β} (op : β → β → β) (hassoc : ∀ a b c, op (op a b) c = op a (op b c)) (d x : β)
    (r : List β) : fold1 op d (x :: r) = r.foldl op x := by
  induction r generalizing x with
  | nil => rfl
  | cons y r ih =>
    rw [List.foldl_cons, ← ih (op x y)]
    cases r with
    | nil => rfl
    | cons z r =>
      rw [fold1_cons_cons, fold1_cons_cons, fold1_cons_cons, hassoc]

/-- `h` is a list homomorphism into `(β, op)` on non-empty lists. -/
def IsHom {α β} (op : β → β → β) (h : List α → β) : Prop :=
  ∀ xs ys, xs ≠ [] → ys ≠ [] → h (xs ++ ys) = op (h xs) (h ys)

theorem flatten_ne_nil {α} {ps : List (List α)} (hps : ps ≠ []) (hne : ∀ p ∈ ps, p ≠ []) :
    ps.flatten ≠ [] := by
  cases ps with
  | nil => exact absurd rfl hps
  | cons p r =>
    have := hne p (List.mem_cons_self)
    simp [this]

/-- folding the images of the parts equals the image of the whole. -/
theorem fold1_map_hom {α β} (op : β → β → β) (d : β) (h : List α → β) (hh : IsHom op h) :
    ∀ ps : List (List α), ps ≠ [] → (∀ p ∈ ps, p ≠ []) → fold1 op d (ps.map h) = h ps.flatten := by
  intro ps
  induction ps with
  | nil => intro h0; exact absurd rfl h0
  | cons p r ih =>
    intro _ hne
    have hp : p ≠ [] := hne p List.mem_cons_self
    by_cases hr : r = []
    · subst hr; simp [fold1]
    · have hne' : ∀ q ∈ r, q ≠ [] := fun q hq => hne q (List.mem_cons_of_mem _ hq)
      have hm : r.map h ≠ [] := by simpa using hr
      rw [List.map_cons, fold1_cons op d _ hm, ih hr hne', List.flatten_cons,
        hh p r.flatten hp (flatten_ne_nil hr hne')]

/-! ### the tree theorem for an abstract `(chunk, combine, aggregate)` triple -/

/-- `(chunk, combine, aggregate)` computes `g` compositionally:
combining the chunk-partials of a regrouping gives the chunk-partial of the concatenation, and
aggregating them gives `g` of the concatenation. -/
structure Triple {α β γ} (chunk : List α → β) (combine : List β → β) (aggregate : List β → γ)
    (g : List α → γ) : Prop where
  combine_ok : ∀ ps : List (List α), ps ≠ [] → (∀ p ∈ ps, p ≠ []) →
    combine (ps.map chunk) = chunk ps.flatten
  aggregate_ok : ∀ ps : List (List α), ps ≠ [] → (∀ p ∈ ps, p ≠ []) →
    aggregate (ps.map chunk) = g ps.flatten

/-- a regrouping step: the groups of a non-empty list of non-empty parts, flattened. -/
theorem regroup_props {α} {k : Nat} (hk : 0 < k) {ps : List (List α)} (hps : ps ≠ [])
    (hne : ∀ p ∈ ps, p ≠ []) :
    let qs := (partitionAll k ps).map List.flatten
    qs ≠ [] ∧ (∀ q ∈ qs, q ≠ []) ∧ qs.flatten = ps.flatten ∧ qs.length = (ps.length + k - 1) / k := by
  refine ⟨?_, ?_, ?_, ?_⟩
  · simpa using partitionAll_ne_nil hk hps
  · intro q hq
    obtain ⟨grp, hg, rfl⟩ := List.mem_map.mp hq
    have hgp := partitionAll_parts hk ps grp hg
    apply flatten_ne_nil hgp.1
    intro p hp
    apply hne
    rw [← partitionAll_flatten hk ps]
    exact List.mem_flatten.mpr ⟨grp, hg, hp⟩
  · have : ∀ L : List (List (List α)), (L.map List.flatten).flatten = L.flatten.flatten := by
      intro L; induction L with
      | nil => rfl
      | cons a L ih => simp [ih]
    rw [this, partitionAll_flatten hk]
  · simp [partitionAll_length hk]

theorem partialReduce_chunk {α β} {k : Nat} (hk : 0 < k) (chunk : List α → β) (f : List β → β)
    (hf : ∀ ps : List (List α), ps ≠ [] → (∀ p ∈ ps, p ≠ []) → f (ps.map chunk) = chunk ps.flatten)
    {ps : List (List α)} (hne : ∀ p ∈ ps, p ≠ []) :
    partialReduce k f (ps.map chunk) = ((partitionAll k ps).map List.flatten).map chunk := by
  unfold partialReduce
  rw [partitionAll_map hk, List.map_map, List.map_map]
  apply List.map_congr_left
  intro grp hg
  have hgp := partitionAll_parts hk ps grp hg
  simp only [Function.comp]
  apply hf grp hgp.1
  intro p hp
  apply hne
  rw [← partitionAll_flatten hk ps]
  exact List.mem_flatten.mpr ⟨grp, hg, hp⟩

theorem combineRounds_chunk {α β} {k : Nat} (hk : 0 < k) (chunk : List α → β) (combine : List β → β)
    (hc : ∀ ps : List (List α), ps ≠ [] → (∀ p ∈ ps, p ≠ []) → combine (ps.map chunk) = chunk ps.flatten) :
    ∀ (r : Nat) (e : Nat) (ps : List (List α)), ps ≠ [] → (∀ p ∈ ps, p ≠ []) → ps.length ≤ k ^ (r + e) →
      ∃ qs : List (List α), qs ≠ [] ∧ (∀ q ∈ qs, q ≠ []) ∧ qs.flatten = ps.flatten ∧ qs.length ≤ k ^ e ∧
        combineRounds k combine r (ps.map chunk) = qs.map chunk := by
  intro r
  induction r with
  | zero =>
    intro e ps hps hne hl
    exact ⟨ps, hps, hne, rfl, by simpa using hl, rfl⟩
  | succ r ih =>
    intro e ps hps hne hl
    obtain ⟨h1, h2, h3, h4⟩ := regroup_props hk hps hne
    have hl' : ((partitionAll k ps).map List.flatten).length ≤ k ^ (r + e) := by
      rw [h4]; apply ceilDiv_le_pow hk
      rw [show r + e + 1 = r + 1 + e by omega]; exact hl
    obtain ⟨qs, q1, q2, q3, q4, q5⟩ := ih e _ h1 h2 hl'
    refine ⟨qs, q1, q2, by rw [q3, h3], q4, ?_⟩
    show combineRounds k combine r (partialReduce k combine (ps.map chunk)) = _
    rw [partialReduce_chunk hk chunk combine hc hne, q5]

/-- **Tree theorem.** For every chunking `ps` of a non-empty list (non-empty blocks), every fan-in
`k ≥ 1`… in fact `k ≥ 2` is only needed for a sufficient depth to exist, and every `depth ≥ 1` with
`#blocks ≤ k ^ depth`, the tree over the chunk partials yields exactly one block, `g` of the whole. -/
theorem treeReduce_triple {α β γ} {chunk : List α → β} {combine : List β → β}
    {aggregate : List β → γ} {g : List α → γ} (T : Triple chunk combine aggregate g)
    {k depth : Nat} (hk : 0 < k) (hd : 1 ≤ depth) {ps : List (List α)} (hps : ps ≠ [])
    (hne : ∀ p ∈ ps, p ≠ []) (hl : ps.length ≤ k ^ depth) :
    treeReduce k depth combine aggregate (ps.map chunk) = [g ps.flatten] := by
  unfold treeReduce
  have hl' : ps.length ≤ k ^ (depth - 1 + 1) := by
    rw [show depth - 1 + 1 = depth by omega]; exact hl
  obtain ⟨qs, q1, q2, q3, q4, q5⟩ := combineRounds_chunk hk chunk combine T.combine_ok (depth - 1) 1 ps hps hne hl'
  rw [q5]
  unfold partialReduce
  have hm : qs.map chunk ≠ [] := by simpa using q1
  have hlen : (qs.map chunk).length ≤ k := by simpa using q4
  rw [partitionAll_short hm hlen]
  simp only [List.map_cons, List.map_nil]
  rw [T.aggregate_ok qs q1 q2, q3]

/-- every list homomorphism gives a triple (`combine = fold1 op`, `aggregate = fin ∘ fold1 op`). -/
theorem triple_of_hom {α β γ} (op : β → β → β) (d : β) (h : List α → β) (hh : IsHom op h) (fin : β → γ) :
    Triple h (fold1 op d) (fun bs => fin (fold1 op d bs)) (fun xs => fin (h xs)) where
  combine_ok := fold1_map_hom op d h hh
  aggregate_ok := by
    intro ps h1 h2
    show fin (fold1 op d (ps.map h)) = fin (h ps.flatten)
    rw [fold1_map_hom op d h hh ps h1 h2]

theorem fold1_isHom {β} (op : β → β → β) (hassoc : ∀ a b c, op (op a b) c = op a (op b c)) (d : β) :
    IsHom op (fold1 op d) := fun _ _ hx hy => fold1_append op hassoc d hx hy

/-- list-homomorphism version: the result depends neither on the chunking `ps` nor on `k`, `depth`. -/
theorem treeReduce_hom {α β γ} (op : β → β → β) (d : β) (h : List α → β) (hh : IsHom op h) (fin : β → γ)
    {k depth : Nat} (hk : 0 < k) (hd : 1 ≤ depth) {ps : List (List α)} (hps : ps ≠ [])
    (hne : ∀ p ∈ ps, p ≠ []) (hl : ps.length ≤ k ^ depth) :
    treeReduce k depth (fold1 op d) (fun bs => fin (fold1 op d bs)) (ps.map h) = [fin (h ps.flatten)] :=
  treeReduce_triple (triple_of_hom op d h hh fin) hk hd hps hne hl

theorem map_singleton_flatten {α} (xs : List α) : (xs.map (fun x => [x])).flatten = xs := by
  induction xs with
  | nil => rfl
  | cons x r ih => simp [ih]

/-- fold version on block partials `bs`. -/
theorem treeReduce_eq_fold {β γ} (op : β → β → β) (hassoc : ∀ a b c, op (op a b) c = op a (op b c))
    (d : β) (fin : β → γ) {k depth : Nat} (hk : 0 < k) (hd : 1 ≤ depth) {bs : List β} (hbs : bs ≠ [])
    (hl : bs.length ≤ k ^ depth) :
    treeReduce k depth (fold1 op d) (fun l => fin (fold1 op d l)) bs = [fin (fold1 op d bs)] := by
  have h := treeReduce_hom op d (fold1 op d) (fold1_isHom op hassoc d) fin hk hd
    (ps := bs.map (fun x => [x])) (by simpa using hbs) (by simp) (by simpa using hl)
  rw [List.map_map, map_singleton_flatten] at h
  have he : (fold1 op d ∘ fun x => [x]) = id := by funext x; rfl
  rw [he, List.map_id] at h
  exact h

/-! ### instances -/

theorem add_assoc_int : ∀ a b c : Int, a + b + c = a + (b + c) := Int.add_assoc
theorem mul_assoc_int : ∀ a b c : Int, a * b * c = a * (b * c) := Int.mul_assoc
theorem min_assoc_int : ∀ a b c : Int, min (min a b) c = min a (min b c) := by intro a b c; omega
theorem max_assoc_int : ∀ a b c : Int, max (max a b) c = max a (max b c) := by intro a b c; omega
theorem or_assoc_bool : ∀ a b c : Bool, ((a || b) || c) = (a || (b || c)) := by decide
theorem and_assoc_bool : ∀ a b c : Bool, ((a && b) && c) = (a && (b && c)) := by decide

theorem meanOp_assoc : ∀ a b c, meanOp (meanOp a b) c = meanOp a (meanOp b c) := by
  intro a b c; simp only [meanOp, Prod.mk.injEq]; omega

theorem argminOp_assoc : ∀ a b c, argminOp (argminOp a b) c = argminOp a (argminOp b c) := by
  intro a b c
  unfold argminOp
  by_cases h1 : b.2 < a.2 <;> by_cases h2 : c.2 < b.2 <;> by_cases h3 : c.2 < a.2 <;>
    simp [h1, h2, h3] <;> omega

theorem argmaxOp_assoc : ∀ a b c, argmaxOp (argmaxOp a b) c = argmaxOp a (argmaxOp b c) := by
  intro a b c
  unfold argmaxOp
  by_cases h1 : a.2 < b.2 <;> by_cases h2 : b.2 < c.2 <;> by_cases h3 : a.2 < c.2 <;>
    simp [h1, h2, h3] <;> omega

theorem foldl_add_shift (xs : List Int) (a : Int) : xs.foldl (· + ·) a = a + xs.foldl (· + ·) 0 := by
  induction xs generalizing a with
  | nil => simp
  | cons x r ih => rw [List.foldl_cons, List.foldl_cons, ih (a + x), ih (0 + x)]; omega

theorem meanChunk_isHom : IsHom meanOp meanChunk := by
  intro xs ys _ _
  simp only [meanChunk, meanOp, List.length_append, List.foldl_append, Prod.mk.injEq, true_and]
  rw [foldl_add_shift ys]

/-- the argmin fold returns the FIRST minimal element. -/
theorem fold1_argmin_spec (d : Nat × Int) : ∀ xs : List (Nat × Int), xs ≠ [] →
    ∃ pre post, xs = pre ++ fold1 argminOp d xs :: post ∧
      (∀ q ∈ pre, (fold1 argminOp d xs).2 < q.2) ∧ (∀ q ∈ xs, (fold1 argminOp d xs).2 ≤ q.2) := by
  intro xs
  induction xs with
  | nil => intro h; exact absurd rfl h
  | cons x r ih =>
    intro _
    by_cases hr : r = []
    · subst hr
      refine ⟨[], [], rfl, by simp, ?_⟩
      intro q hq; simp at hq; subst hq; exact Int.le_refl _
    · obtain ⟨pre, post, e, hpre, hall⟩ := ih hr
      rw [fold1_cons argminOp d x hr]
      generalize fold1 argminOp d r = m at *
      unfold argminOp
      by_cases hlt : m.2 < x.2
      · simp only [hlt, if_true]
        refine ⟨x :: pre, post, by rw [e]; rfl, ?_, ?_⟩
        · intro q hq; rcases List.mem_cons.mp hq with h | h
          · subst h; exact hlt
          · exact hpre q h
        · intro q hq; rcases List.mem_cons.mp hq with h | h
          · subst h; omega
          · exact hall q h
      · simp only [hlt, if_false]
        refine ⟨[], r, rfl, by simp, ?_⟩
        intro q hq; rcases List.mem_cons.mp hq with h | h
        · subst h; exact Int.le_refl _
        · have := hall q h; omega

/-! ### number of blocks along a reduced axis, layer by layer -/

theorem numBlocksAfter_eq {k : Nat} (hk : 0 < k) (n : Nat) : numBlocksAfter k n = (n + k - 1) / k := by
  unfold numBlocksAfter; rw [partitionAll_length hk, List.length_range]

/-- `d` layers applied to `n` blocks. -/
def blocksAfterLayers (k : Nat) : Nat → Nat → Nat
  | 0, n => n
  | d + 1, n => blocksAfterLayers k d (numBlocksAfter k n)

theorem blocksAfterLayers_le_one {k : Nat} (hk : 0 < k) : ∀ d n, n ≤ k ^ d → blocksAfterLayers k d n ≤ 1 := by
  intro d
  induction d with
  | zero => intro n h; simpa [blocksAfterLayers] using h
  | succ d ih =>
    intro n h
    show blocksAfterLayers k d (numBlocksAfter k n) ≤ 1
    apply ih
    rw [numBlocksAfter_eq hk]
    exact ceilDiv_le_pow hk h

/-- one `PartialReduce.chunks` axis: all ones, one per group. -/
theorem partialReduceChunks_axis {k : Nat} (hk : 0 < k) (c : List Nat) :
    (partitionAll k c).map (fun _ => 1) = List.replicate ((c.length + k - 1) / k) 1 := by
  rw [← partitionAll_length hk c]
  generalize partitionAll k c = l
  induction l with
  | nil => rfl
  | cons a l ih => simp [List.replicate_succ, ih]

/-! ### n-D key wiring: the groups of one layer use exactly the input blocks -/

/-- `l` picks one element from each list of `ls` (position-wise). -/
def memEach {α} : List α → List (List α) → Prop
  | [], [] => True
  | x :: l, xs :: ls => x ∈ xs ∧ memEach l ls
  | _, _ => False

theorem mem_cart {α} : ∀ (ls : List (List α)) (l : List α), l ∈ cart ls ↔ memEach l ls := by
  intro ls
  induction ls with
  | nil => intro l; cases l <;> simp [cart, memEach]
  | cons xs rest ih =>
    intro l
    cases l with
    | nil => simp [cart, memEach]
    | cons x t =>
      simp only [cart, List.mem_flatMap, List.mem_map, memEach]
      constructor
      · rintro ⟨y, hy, t', ht', e⟩
        injection e with e1 e2
        subst e1; subst e2
        exact ⟨hy, (ih _).mp ht'⟩
      · rintro ⟨hx, ht⟩
        exact ⟨x, hx, t, (ih t).mpr ht, rfl⟩

theorem memEach_groups {α} : ∀ (pss : List (List (List α))) (k : List α),
    (∃ G, memEach G pss ∧ memEach k G) ↔ memEach k (pss.map List.flatten) := by
  intro pss
  induction pss with
  | nil =>
    intro k
    constructor
    · rintro ⟨G, hG, hk⟩
      cases G with
      | nil => cases k <;> simp_all [memEach]
      | cons g G => simp [memEach] at hG
    · intro h
      cases k with
      | nil => exact ⟨[], trivial, trivial⟩
      | cons x t => simp [memEach] at h
  | cons ps rest ih =>
    intro k
    cases k with
    | nil =>
      constructor
      · rintro ⟨G, hG, hk⟩
        cases G with
        | nil => simp [memEach] at hG
        | cons g G => simp [memEach] at hk
      · intro h; simp [memEach] at h
    | cons x t =>
      constructor
      · rintro ⟨G, hG, hk⟩
        cases G with
        | nil => simp [memEach] at hG
        | cons g G =>
          simp only [memEach] at hG hk
          simp only [List.map_cons, memEach]
          exact ⟨List.mem_flatten.mpr ⟨g, hG.1, hk.1⟩, (ih t).mp ⟨G, hG.2, hk.2⟩⟩
      · intro h
        simp only [List.map_cons, memEach] at h
        obtain ⟨g, hg, hx⟩ := List.mem_flatten.mp h.1
        obtain ⟨G, hG, hk⟩ := (ih t).mpr h.2
        exact ⟨g :: G, ⟨hg, hG⟩, ⟨hx, hk⟩⟩

theorem layerParts_flatten : ∀ (numblocks split : List Nat), numblocks.length = split.length →
    (layerParts numblocks split).map List.flatten = numblocks.map List.range := by
  intro nb
  induction nb with
  | nil => intro sp _; cases sp <;> rfl
  | cons n nb ih =>
    intro sp h
    cases sp with
    | nil => simp at h
    | cons s sp =>
      have h' : nb.length = sp.length := by simpa using h
      have hk : 0 < (if s = 0 then 1 else s) := by split <;> omega
      show (partitionAll _ (List.range n)).flatten :: (layerParts nb sp).map List.flatten = _
      rw [partitionAll_flatten hk, ih sp h']
      rfl

/-- **Layer coverage.** An input block index is fed to some output task of a `PartialReduce` layer
iff it is a block of the input grid (no block is dropped, no phantom block is referenced). -/
theorem layer_inputs_cover (numblocks split : List Nat) (h : numblocks.length = split.length)
    (k : List Nat) :
    (∃ G ∈ cart (layerParts numblocks split), k ∈ cart G) ↔ k ∈ cart (numblocks.map List.range) := by
  rw [mem_cart, ← layerParts_flatten numblocks split h, ← memEach_groups]
  constructor
  · rintro ⟨G, hG, hk⟩; exact ⟨G, (mem_cart _ _).mp hG, (mem_cart _ _).mp hk⟩
  · rintro ⟨G, hG, hk⟩; exact ⟨G, (mem_cart _ _).mpr hG, (mem_cart _ _).mpr hk⟩

/-! ### fan-in 1 never reduces (why `split_every[i] = 1` must be excluded) -/

theorem partitionAll_one {α} (xs : List α) : partitionAll 1 xs = xs.map (fun x => [x]) := by
  induction xs with
  | nil => simp [partitionAll_nil]
  | cons x r ih =>
    rw [partitionAll_step (by decide) (by simp)]
    simp [ih]

theorem partialReduce_one {β} (f : List β → β) (hf : ∀ x, f [x] = x) (bs : List β) :
    partialReduce 1 f bs = bs := by
  unfold partialReduce
  rw [partitionAll_one, List.map_map]
  have : (f ∘ fun x => [x]) = id := by funext x; exact hf x
  rw [this, List.map_id]

theorem treeReduce_one {β} (f : List β → β) (hf : ∀ x, f [x] = x) (depth : Nat) (bs : List β) :
    treeReduce 1 depth f f bs = bs := by
  unfold treeReduce
  have h : ∀ r bs, combineRounds 1 f r bs = bs := by
    intro r
    induction r with
    | zero => intro bs; rfl
    | succ r ih => intro bs; show combineRounds 1 f r (partialReduce 1 f bs) = bs; rw [partialReduce_one f hf, ih]
  rw [h, partialReduce_one f hf]

/-! ### slices through reductions -/

/-- positional selection of rows. -/
def selRows {α} (I : List Nat) (rows : List α) : List α := I.filterMap (fun i => rows[i]?)

/-- reduce every row then select rows `I` = select rows `I` then reduce every row. -/
theorem sel_map_comm {α β} (f : α → β) (I : List Nat) (rows : List α) :
    selRows I (rows.map f) = (selRows I rows).map f := by
  simp [selRows, List.map_filterMap]

theorem toSliceIdx_of_slice (s : PySlice) : toSliceIdx (.slice s) = .slice s := rfl

/-- number of kept (non-reduced) axes among `axes`. -/
def keptCount (reduced : List Nat) (axes : List Nat) : Nat :=
  (axes.filter (fun a => !reduced.contains a)).length

theorem keptCount_cons_red {reduced : List Nat} {ax : Nat} (axes : List Nat)
    (h : reduced.contains ax = true) : keptCount reduced (ax :: axes) = keptCount reduced axes := by
  have hm : ax ∈ reduced := by simpa using h
  simp [keptCount, List.filter_cons, hm]

theorem keptCount_cons_kept {reduced : List Nat} {ax : Nat} (axes : List Nat)
    (h : reduced.contains ax = false) : keptCount reduced (ax :: axes) = keptCount reduced axes + 1 := by
  have hm : ¬ ax ∈ reduced := by simpa using h
  simp [keptCount, List.filter_cons, hm]

theorem keptCount_nil (reduced : List Nat) : keptCount reduced [] = 0 := rfl

theorem inputIndexLoop_red {reduced : List Nat} {ax : Nat} (axes : List Nat) (sl : List Idx)
    (h : reduced.contains ax = true) :
    inputIndexLoop reduced (ax :: axes) sl = fullSlice :: inputIndexLoop reduced axes sl := by
  have hm : ax ∈ reduced := by simpa using h
  simp [inputIndexLoop, hm]

theorem inputIndexLoop_kept {reduced : List Nat} {ax : Nat} (axes : List Nat) (i : Idx) (rest : List Idx)
    (h : reduced.contains ax = false) :
    inputIndexLoop reduced (ax :: axes) (i :: rest) = i :: inputIndexLoop reduced axes rest := by
  have hm : ¬ ax ∈ reduced := by simpa using h
  simp [inputIndexLoop, hm]

theorem inputIndexLoop_length (reduced : List Nat) : ∀ (axes : List Nat) (sl : List Idx),
    keptCount reduced axes ≤ sl.length → (inputIndexLoop reduced axes sl).length = axes.length := by
  intro axes
  induction axes with
  | nil => intro sl _; rfl
  | cons ax axes ih =>
    intro sl h
    cases hr : reduced.contains ax with
    | true =>
      rw [inputIndexLoop_red axes sl hr, List.length_cons, ih sl (by rw [keptCount_cons_red axes hr] at h; exact h)]
      rfl
    | false =>
      rw [keptCount_cons_kept axes hr] at h
      cases sl with
      | nil => simp at h
      | cons i rest =>
        rw [inputIndexLoop_kept axes i rest hr, List.length_cons, ih rest (by simpa using h)]
        rfl

/-- every entry of `input_index` is described by its axis: reduced axes get `slice(None)`, the
`p`-th kept axis gets `slice_index[p]`. -/
theorem inputIndexLoop_get (reduced : List Nat) : ∀ (axes : List Nat) (sl : List Idx),
    keptCount reduced axes ≤ sl.length → ∀ j (hj : j < axes.length),
      (inputIndexLoop reduced axes sl)[j]? =
        if reduced.contains axes[j] = true then some fullSlice
        else sl[keptCount reduced (axes.take j)]? := by
  intro axes
  induction axes with
  | nil => intro sl _ j hj; simp at hj
  | cons ax axes ih =>
    intro sl h j hj
    cases hr : reduced.contains ax with
    | true =>
      rw [inputIndexLoop_red axes sl hr]
      have h' : keptCount reduced axes ≤ sl.length := by rw [keptCount_cons_red axes hr] at h; exact h
      cases j with
      | zero =>
        have hm : ax ∈ reduced := by simpa using hr
        simp [hm]
      | succ j =>
        have hj' : j < axes.length := by simpa using hj
        rw [List.getElem?_cons_succ, ih sl h' j hj', List.take_succ_cons, keptCount_cons_red _ hr]
        rfl
    | false =>
      rw [keptCount_cons_kept axes hr] at h
      cases sl with
      | nil => simp at h
      | cons i rest =>
        have h' : keptCount reduced axes ≤ rest.length := by simpa using h
        rw [inputIndexLoop_kept axes i rest hr]
        cases j with
        | zero =>
          have hm : ¬ ax ∈ reduced := by simpa using hr
          simp [hm, keptCount_nil]
        | succ j =>
          have hj' : j < axes.length := by simpa using hj
          rw [List.getElem?_cons_succ, ih rest h' j hj', List.take_succ_cons, keptCount_cons_kept _ hr,
            List.getElem?_cons_succ]
          rfl

/-- `_accept_slice_impl` without keepdims: `input_index` has one entry per input axis; reduced axes
get `slice(None)` (the index never reaches them); the `p`-th kept axis gets output position `p`. -/
theorem acceptSlice_nokeep (index : List Idx) (ndim : Nat) (reduced : List Nat)
    (hlen : index.length ≤ keptCount reduced (List.range ndim)) :
    (acceptSlice index ndim reduced false).inputIndex.length = ndim ∧
    ∀ j, j < ndim → (acceptSlice index ndim reduced false).inputIndex[j]? =
      if reduced.contains j = true then some fullSlice
      else ((acceptSlice index ndim reduced false).fullIndex.map toSliceIdx)[keptCount reduced (List.range j)]? := by
  have hfull : keptCount reduced (List.range ndim)
      ≤ ((index ++ List.replicate (keptCount reduced (List.range ndim) - index.length) fullSlice).map toSliceIdx).length := by
    simp only [List.length_map, List.length_append, List.length_replicate]; omega
  constructor
  · show (inputIndexLoop reduced (List.range ndim) _).length = ndim
    simp only [Bool.false_eq_true, if_false]
    rw [inputIndexLoop_length reduced, List.length_range]
    exact hfull
  · intro j hj
    show (inputIndexLoop reduced (List.range ndim) _)[j]? = _
    simp only [Bool.false_eq_true, if_false]
    have hj' : j < (List.range ndim).length := by simpa using hj
    rw [inputIndexLoop_get reduced _ _ (by exact hfull) j hj', List.getElem_range, List.take_range,
      Nat.min_eq_left (Nat.le_of_lt hj)]
    rfl

/-- with keepdims: positions coincide; reduced axes get `slice(None)`. -/
theorem acceptSlice_keep (index : List Idx) (ndim : Nat) (reduced : List Nat)
    (hlen : index.length ≤ ndim) :
    (acceptSlice index ndim reduced true).inputIndex.length = ndim ∧
    ∀ j, j < ndim → (acceptSlice index ndim reduced true).inputIndex[j]? =
      if reduced.contains j = true then some fullSlice
      else ((acceptSlice index ndim reduced true).fullIndex.map toSliceIdx)[j]? := by
  have hl : ((index ++ List.replicate (ndim - index.length) fullSlice).map toSliceIdx).length = ndim := by
    simp only [List.length_map, List.length_append, List.length_replicate]; omega
  constructor
  · show (List.zipWith _ (List.range _) _).length = ndim
    simp only [if_true, List.length_zipWith, List.length_range, hl, Nat.min_self]
  · intro j hj
    show (List.zipWith _ (List.range _) _)[j]? = _
    simp only [if_true]
    rw [List.getElem?_zipWith, hl, List.getElem?_range hj]
    have hj2 : j < ((index ++ List.replicate (ndim - index.length) fullSlice).map toSliceIdx).length := by
      rw [hl]; exact hj
    rw [List.getElem?_eq_getElem hj2]
    show some (if reduced.contains j = true then fullSlice else _) = _
    split
    · rfl
    · exact (List.getElem?_eq_getElem hj2).symm

/-- what stays on the OUTPUT with keepdims: the original index on reduced axes; `0` / `slice(None)`
on kept axes. -/
theorem acceptSlice_keep_final (index : List Idx) (ndim : Nat) (reduced : List Nat)
    (hlen : index.length ≤ ndim) :
    ∀ j, j < ndim → (acceptSlice index ndim reduced true).finalIndex[j]? =
      ((acceptSlice index ndim reduced true).fullIndex[j]?).map
        (fun idx => if reduced.contains j = true then idx else extractIdx idx) := by
  have hl : (index ++ List.replicate (ndim - index.length) fullSlice).length = ndim := by
    simp only [List.length_append, List.length_replicate]; omega
  intro j hj
  show (List.zipWith _ (List.range _) _)[j]? = _
  simp only [if_true]
  rw [List.getElem?_zipWith, hl, List.getElem?_range hj]
  have hj2 : j < (index ++ List.replicate (ndim - index.length) fullSlice).length := by rw [hl]; exact hj
  show _ = Option.map _ ((index ++ List.replicate (ndim - index.length) fullSlice)[j]?)
  rw [List.getElem?_eq_getElem hj2]
  rfl

end Dask.Lemmas.Reduce
