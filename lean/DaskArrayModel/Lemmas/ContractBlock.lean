/-
Refinement of the contraction plan (Model/Contract.lean): the block computed for every output
block index is the block of the NumPy contraction on the advertised extent.

  * `npShape_whole` / `npShape_block`: NumPy's broadcast shape of the operands (whole / one block
    tuple) is the label shape / the block shape of the `out_ind` grid;
  * `npTerm_block`: a product term read from the blocks is the term of the whole arrays at the
    global index (per-axis `_compute_block_id` modulo + size-1 broadcasting);
  * `regroup`: a sum over the contracted index ranges = the sum over the contracted BLOCK grid of
    the sums over each block's ranges;
  * `outBlock_correct`: the theorem (uses `tree_blocks` from Lemmas/ContractTree.lean).
-/
import DaskArrayModel.Lemmas.ContractTree
namespace Dask.Contract
open Dask.Py Dask.ND Dask.Reduce Dask.Lemmas.Reduce

/-! ### small list facts -/

theorem mem_zip_getD {α β} (l1 : List α) (l2 : List β) (d1 : α) (d2 : β) (q : α × β)
    (h : q ∈ l1.zip l2) :
    ∃ t, t < l1.length ∧ t < l2.length ∧ q = (l1.getD t d1, l2.getD t d2) := by
  obtain ⟨i, hi, e⟩ := List.mem_iff_getElem.mp h
  have h1 : i < l1.length := by simp at hi; omega
  have h2 : i < l2.length := by simp at hi; omega
  refine ⟨i, h1, h2, ?_⟩
  rw [← e, List.getElem_zip, getD_eq_getElem _ _ _ h1, getD_eq_getElem _ _ _ h2]

theorem getD_mem_zip {α β} (l1 : List α) (l2 : List β) (d1 : α) (d2 : β) (t : Nat)
    (h1 : t < l1.length) (h2 : t < l2.length) : (l1.getD t d1, l2.getD t d2) ∈ l1.zip l2 := by
  apply List.mem_iff_getElem.mpr
  refine ⟨t, by simp; omega, ?_⟩
  rw [List.getElem_zip, getD_eq_getElem _ _ _ h1, getD_eq_getElem _ _ _ h2]

theorem getD_map_range (n k : Nat) (f : Nat → Nat) (h : k < n) :
    ((List.range n).map f).getD k 0 = f k := by
  simp [List.getD_eq_getElem?_getD, h]

theorem blockShape_eq_map (l : Layout) (bid : List Nat) (h : bid.length = l.length) :
    blockShape l bid = (List.range l.length).map (fun p => (l.getD p []).getD (bid.getD p 0) 0) := by
  apply list_ext_getD
  · rw [blockShape_length h]; simp
  · intro k hk
    rw [blockShape_length h] at hk
    rw [blockShape_getD h k hk, getD_map_range _ _ _ hk]

theorem map_sum_eq_map (l : Layout) :
    l.map List.sum = (List.range l.length).map (fun p => (l.getD p []).sum) := by
  apply list_ext_getD
  · simp
  · intro k hk
    simp only [List.length_map] at hk
    rw [getD_map List.sum l k [] 0 hk, getD_map_range _ _ _ hk]

/-! ### NumPy shape of a contraction -/

theorem bdim_eq {lens : List Nat} {L : Nat} (h1 : ∀ n ∈ lens, n = L ∨ n = 1) (h2 : L ∈ lens) :
    bdim lens = L := by
  unfold bdim
  cases hf : lens.find? (fun n => n != 1) with
  | none =>
    have := List.find?_eq_none.mp hf L h2
    have e : L = 1 := by simpa using this
    simp [e]
  | some n =>
    have hn := List.find?_some hf
    have hm := List.mem_of_find?_eq_some hf
    rcases h1 n hm with e | e
    · simp [e]
    · simp [e] at hn

theorem npShape_eq (obs : List (List Nat × Arr Int)) (rank : Nat) (Lf : Nat → Nat)
    (h1 : ∀ ob ∈ obs, ∀ q ∈ ob.1.zip ob.2.shape, q.2 = Lf q.1 ∨ q.2 = 1)
    (h2 : ∀ p, p < rank → ∃ ob ∈ obs, ∃ q ∈ ob.1.zip ob.2.shape, q.1 = p ∧ q.2 = Lf p) :
    npShape obs rank = (List.range rank).map Lf := by
  unfold npShape
  apply List.map_congr_left
  intro p hp
  apply bdim_eq
  · intro n hn
    simp only [lensAt, List.mem_flatMap, List.mem_map, List.mem_filter] at hn
    obtain ⟨ob, hob, q, ⟨hq, hqp⟩, rfl⟩ := hn
    have := h1 ob hob q hq
    have e : q.1 = p := by simpa using hqp
    rw [e] at this; exact this
  · obtain ⟨ob, hob, q, hq, e1, e2⟩ := h2 p (List.mem_range.mp hp)
    simp only [lensAt, List.mem_flatMap, List.mem_map, List.mem_filter]
    exact ⟨ob, hob, q, ⟨hq, by simp [e1]⟩, e2⟩

/-! ### well-formedness, unfolded -/

structure OpdOK (full : Layout) (o : Opd) : Prop where
  len : o.pos.length = o.chunks.length
  sums : o.chunks.map List.sum = o.arr.shape
  ax : ∀ t, t < o.pos.length → o.pos.getD t 0 < full.length ∧
    (o.chunks.getD t [] = full.getD (o.pos.getD t 0) [] ∨ o.chunks.getD t [] = [1])

theorem OpdOK.of_wf {full : Layout} {o : Opd} (h : o.wf full = true) : OpdOK full o := by
  simp only [Opd.wf, Bool.and_eq_true, decide_eq_true_eq, List.all_eq_true, Bool.or_eq_true] at h
  obtain ⟨⟨h1, h2⟩, h3⟩ := h
  refine ⟨h1, h2, ?_⟩
  intro t ht
  exact h3 _ (getD_mem_zip o.pos o.chunks 0 [] t ht (by omega))

structure PlanOK (P : Plan) : Prop where
  slen : P.split.length = P.full.length
  ne : ∀ cs ∈ P.full, cs ≠ []
  ops : ∀ o ∈ P.ops, OpdOK P.full o
  cov : ∀ p, p < P.full.length → ∃ o ∈ P.ops, ∃ t, t < o.pos.length ∧ o.pos.getD t 0 = p ∧
    o.chunks.getD t [] = P.full.getD p []
  dok : depthOK P.split (numblocks P.full) P.depth
  direct : P.direct = true → maskedOne P.split (numblocks P.full)

theorem depthOK_of_all : ∀ (sp : List Nat) (full : Layout) (d : Nat), sp.length = full.length →
    (∀ cs ∈ full, cs ≠ []) →
    (sp.zip full).all (fun q => decide (q.1 = 0) || (decide (2 ≤ q.1) && decide (q.2.length ≤ q.1 ^ d))) = true →
    depthOK sp (numblocks full) d
  | [], [], _, _, _, _ => trivial
  | [], _ :: _, _, h, _, _ => by simp at h
  | _ :: _, [], _, h, _, _ => by simp at h
  | s :: sp, cs :: full, d, h, hne, hall => by
    simp only [List.zip_cons_cons, List.all_cons, Bool.and_eq_true] at hall
    have ih := depthOK_of_all sp full d (by simpa using h)
      (fun c hc => hne c (List.mem_cons_of_mem _ hc)) hall.2
    have hpos : 1 ≤ cs.length := List.length_pos_iff.mpr (hne cs List.mem_cons_self)
    cases s with
    | zero => simpa [numblocks, depthOK] using ih
    | succ s =>
      have h1 := hall.1
      simp only [Nat.add_eq_zero_iff, Nat.one_ne_zero, and_false, decide_false, Bool.false_or,
        Bool.and_eq_true, decide_eq_true_eq] at h1
      simp only [numblocks, List.map_cons, depthOK]
      exact ⟨by omega, hpos, h1.2, ih⟩

theorem maskedOne_of_all : ∀ (sp : List Nat) (full : Layout), sp.length = full.length →
    (sp.zip full).all (fun q => decide (q.1 = 0) || decide (q.2.length = 1)) = true →
    maskedOne sp (numblocks full)
  | [], [], _, _ => trivial
  | [], _ :: _, h, _ => by simp at h
  | _ :: _, [], h, _ => by simp at h
  | s :: sp, cs :: full, h, hall => by
    simp only [List.zip_cons_cons, List.all_cons, Bool.and_eq_true] at hall
    have ih := maskedOne_of_all sp full (by simpa using h) hall.2
    cases s with
    | zero => simpa [numblocks, maskedOne] using ih
    | succ s =>
      have h1 := hall.1
      simp only [Nat.add_eq_zero_iff, Nat.one_ne_zero, and_false, decide_false, Bool.false_or,
        decide_eq_true_eq] at h1
      simp only [numblocks, List.map_cons, maskedOne]
      exact ⟨h1, ih⟩

theorem PlanOK.of_wf {P : Plan} (h : P.WF) : PlanOK P := by
  unfold Plan.WF Plan.wf at h
  simp only [Bool.and_eq_true, decide_eq_true_eq] at h
  obtain ⟨⟨⟨⟨⟨⟨h1, h2⟩, h3⟩, h4⟩, _⟩, h6⟩, h7⟩ := h
  have hne : ∀ cs ∈ P.full, cs ≠ [] := by
    intro cs hcs e
    have := List.all_eq_true.mp h2 cs hcs
    simp [e] at this
  refine ⟨h1, hne, ?_, ?_, depthOK_of_all _ _ _ h1 hne h6, ?_⟩
  · intro o ho
    exact OpdOK.of_wf (List.all_eq_true.mp h3 o ho)
  · intro p hp
    have := List.all_eq_true.mp h4 p (List.mem_range.mpr hp)
    simp only [covered, List.any_eq_true, Bool.and_eq_true, beq_iff_eq, decide_eq_true_eq] at this
    obtain ⟨o, ho, q, hq, e1, e2⟩ := this
    obtain ⟨t, ht1, _, rfl⟩ := mem_zip_getD o.pos o.chunks 0 [] q hq
    exact ⟨o, ho, t, ht1, e1, e2⟩
  · intro hd
    rw [hd] at h7
    simp only [Bool.not_true, Bool.false_or] at h7
    exact maskedOne_of_all _ _ h1 h7

/-! ### operand blocks -/

theorem depBid_length (o : Opd) (bid : List Nat) (h : o.pos.length = o.chunks.length) :
    (depBid o bid).length = o.chunks.length := by
  simp [depBid, h]

theorem depBid_getD (o : Opd) (bid : List Nat) (h : o.pos.length = o.chunks.length) (t : Nat)
    (ht : t < o.pos.length) :
    (depBid o bid).getD t 0 = bid.getD (o.pos.getD t 0) 0 % (o.chunks.getD t []).length := by
  unfold depBid
  rw [getD_zipWith _ o.pos o.chunks t 0 [] 0 ht (by omega)]

theorem opBlock_shape_length (o : Opd) (bid : List Nat) (h : o.pos.length = o.chunks.length) :
    (opBlock o bid).shape.length = o.pos.length := by
  show (blockShape o.chunks (depBid o bid)).length = _
  rw [blockShape_length (depBid_length o bid h), h]

theorem opBlock_shape_getD (o : Opd) (bid : List Nat) (h : o.pos.length = o.chunks.length) (t : Nat)
    (ht : t < o.pos.length) :
    (opBlock o bid).shape.getD t 0
      = (o.chunks.getD t []).getD (bid.getD (o.pos.getD t 0) 0 % (o.chunks.getD t []).length) 0 := by
  show (blockShape o.chunks (depBid o bid)).getD t 0 = _
  rw [blockShape_getD (depBid_length o bid h) t (by omega), depBid_getD o bid h t ht]

/-- one axis: block start + local read = global read (both with size-1 broadcasting) -/
theorem axis_read (cs fp : List Nat) (b x : Nat) (hcase : cs = fp ∨ cs = [1]) (hb : b < fp.length)
    (hx : x < fp.getD b 0) :
    (cs.take (b % cs.length)).sum + bc (cs.getD (b % cs.length) 0) x
      = bc cs.sum ((fp.take b).sum + x) := by
  rcases hcase with e | e
  · subst e
    rw [Nat.mod_eq_of_lt hb]
    have hle := sum_take_add_getD_le cs b hb
    unfold bc
    by_cases h1 : cs.getD b 0 = 1
    · have hx0 : x = 0 := by omega
      subst hx0
      by_cases h2 : cs.sum = 1
      · simp only [h1, h2, if_true]; omega
      · simp only [h1, h2, if_true, if_false]
    · by_cases h2 : cs.sum = 1
      · simp only [h1, h2, if_true, if_false]; omega
      · simp only [h1, h2, if_false]
  · subst e
    simp [bc, Nat.mod_one]

/-- the operand index read through the block = the operand index read at the global full index -/
theorem rd_block (full : Layout) (o : Opd) (hok : OpdOK full o) (bid x : List Nat)
    (hb : validBid full bid) (hx : InB x (blockShape full bid)) :
    vadd (origin o.chunks (depBid o bid)) (rd o.pos (opBlock o bid).shape x)
      = rd o.pos o.arr.shape (vadd (origin full bid) x) := by
  have hbl : bid.length = full.length := hb.length_eq
  have hxl : x.length = full.length := by rw [hx.length_eq, blockShape_length hbl]
  have hdl := depBid_length o bid hok.len
  have hsl := opBlock_shape_length o bid hok.len
  have hal : o.arr.shape.length = o.pos.length := by rw [← hok.sums, List.length_map, hok.len]
  have hol : (origin o.chunks (depBid o bid)).length = o.pos.length := by
    rw [origin_length hdl, hok.len]
  have hrl : (rd o.pos (opBlock o bid).shape x).length = o.pos.length := by
    simp [rd, hsl]
  apply list_ext_getD
  · rw [vadd_length (by rw [hol, hrl]), hol]; simp [rd, hal]
  · intro t ht
    rw [vadd_length (by rw [hol, hrl]), hol] at ht
    obtain ⟨hp, hcase⟩ := hok.ax t ht
    have hbp := hb.getD_lt _ hp
    have hxp : x.getD (o.pos.getD t 0) 0 < (full.getD (o.pos.getD t 0) []).getD (bid.getD (o.pos.getD t 0) 0) 0 := by
      have := hx.getD_lt (o.pos.getD t 0) (by rw [blockShape_length hbl]; exact hp)
      rwa [blockShape_getD hbl _ hp] at this
    rw [vadd_getD t (by rw [hol]; exact ht) (by rw [hrl]; exact ht),
      origin_getD hdl t (by rw [← hok.len]; exact ht), depBid_getD o bid hok.len t ht]
    unfold rd
    rw [getD_zipWith _ o.pos (opBlock o bid).shape t 0 0 0 ht (by rw [hsl]; exact ht),
      getD_zipWith _ o.pos o.arr.shape t 0 0 0 ht (by rw [hal]; exact ht),
      opBlock_shape_getD o bid hok.len t ht,
      vadd_getD _ (by rw [origin_length hbl]; exact hp) (by rw [hxl]; exact hp),
      origin_getD hbl _ hp, ← hok.sums, getD_map List.sum o.chunks t [] 0 (by rw [← hok.len]; exact ht)]
    exact axis_read _ _ _ _ hcase hbp hxp

/-- operand lists -/
def wholeObs (P : Plan) : List (List Nat × Arr Int) := P.ops.map (fun o => (o.pos, o.arr))
def blockObs (P : Plan) (bid : List Nat) : List (List Nat × Arr Int) :=
  P.ops.map (fun o => (o.pos, opBlock o bid))

theorem npTerm_block (P : Plan) (hP : PlanOK P) (bid x : List Nat) (hb : validBid P.full bid)
    (hx : InB x (blockShape P.full bid)) :
    npTerm (blockObs P bid) x = npTerm (wholeObs P) (vadd (origin P.full bid) x) := by
  unfold npTerm blockObs wholeObs
  rw [List.map_map, List.map_map]
  congr 1
  apply List.map_congr_left
  intro o ho
  show o.arr.get (vadd (origin o.chunks (depBid o bid)) (rd o.pos (opBlock o bid).shape x)) = _
  rw [rd_block P.full o (hP.ops o ho) bid x hb hx]
  rfl

theorem mask_length (P : Plan) : P.mask.length = P.split.length := by simp [Plan.mask]

theorem npShape_whole (P : Plan) (hP : PlanOK P) :
    npShape (wholeObs P) P.mask.length = P.full.map List.sum := by
  rw [map_sum_eq_map, mask_length, hP.slen]
  apply npShape_eq
  · intro ob hob q hq
    simp only [wholeObs, List.mem_map] at hob
    obtain ⟨o, ho, rfl⟩ := hob
    have hok := hP.ops o ho
    obtain ⟨t, ht1, ht2, rfl⟩ := mem_zip_getD o.pos o.arr.shape 0 0 q hq
    obtain ⟨_, hcase⟩ := hok.ax t ht1
    show o.arr.shape.getD t 0 = _ ∨ o.arr.shape.getD t 0 = 1
    rw [← hok.sums, getD_map List.sum o.chunks t [] 0 (by rw [← hok.len]; exact ht1)]
    rcases hcase with e | e
    · left; rw [e]
    · right; rw [e]; rfl
  · intro p hp
    obtain ⟨o, ho, t, ht, e1, e2⟩ := hP.cov p hp
    have hok := hP.ops o ho
    have hal : o.arr.shape.length = o.pos.length := by rw [← hok.sums, List.length_map, hok.len]
    refine ⟨(o.pos, o.arr), List.mem_map.mpr ⟨o, ho, rfl⟩, (o.pos.getD t 0, o.arr.shape.getD t 0),
      getD_mem_zip _ _ _ _ t ht (by rw [hal]; exact ht), e1, ?_⟩
    show o.arr.shape.getD t 0 = _
    rw [← hok.sums, getD_map List.sum o.chunks t [] 0 (by rw [← hok.len]; exact ht), e2]

theorem npShape_block (P : Plan) (hP : PlanOK P) (bid : List Nat) (hb : validBid P.full bid) :
    npShape (blockObs P bid) P.mask.length = blockShape P.full bid := by
  have hbl : bid.length = P.full.length := hb.length_eq
  rw [blockShape_eq_map _ _ hbl, mask_length, hP.slen]
  apply npShape_eq
  · intro ob hob q hq
    simp only [blockObs, List.mem_map] at hob
    obtain ⟨o, ho, rfl⟩ := hob
    have hok := hP.ops o ho
    obtain ⟨t, ht1, ht2, rfl⟩ := mem_zip_getD o.pos (opBlock o bid).shape 0 0 q hq
    obtain ⟨hp, hcase⟩ := hok.ax t ht1
    show (opBlock o bid).shape.getD t 0 = _ ∨ (opBlock o bid).shape.getD t 0 = 1
    rw [opBlock_shape_getD o bid hok.len t ht1]
    rcases hcase with e | e
    · left
      rw [e, Nat.mod_eq_of_lt (hb.getD_lt _ hp)]
    · right; rw [e]; simp [Nat.mod_one]
  · intro p hp
    obtain ⟨o, ho, t, ht, e1, e2⟩ := hP.cov p hp
    have hok := hP.ops o ho
    refine ⟨(o.pos, opBlock o bid), List.mem_map.mpr ⟨o, ho, rfl⟩,
      (o.pos.getD t 0, (opBlock o bid).shape.getD t 0),
      getD_mem_zip _ _ _ _ t ht (by rw [opBlock_shape_length o bid hok.len]; exact ht), e1, ?_⟩
    show (opBlock o bid).shape.getD t 0 = _
    rw [opBlock_shape_getD o bid hok.len t ht, e1, e2, Nat.mod_eq_of_lt (hb.getD_lt _ hp)]

/-! ### regrouping a sum over index ranges by blocks -/

theorem regroup1 : ∀ (cs : List Nat) (H : Nat → Int),
    lsum (List.range cs.length) (fun k => lsum (List.range (cs.getD k 0)) (fun u => H ((cs.take k).sum + u)))
      = lsum (List.range cs.sum) H
  | [], H => rfl
  | c :: cs, H => by
    have ih := regroup1 cs (fun t => H (c + t))
    rw [List.length_cons, List.range_succ_eq_map, lsum_cons, lsum_map, List.sum_cons, List.range_add,
      lsum_append, lsum_map, ← ih]
    congr 1
    · apply lsum_congr
      intro u _
      simp
    · apply lsum_congr
      intro k _
      simp only [Nat.succ_eq_add_one, List.getD_cons_succ, List.take_succ_cons, List.sum_cons]
      apply lsum_congr
      intro u _
      congr 1
      omega

theorem regroup : ∀ (cl : Layout) (F : List Nat → Int),
    lsum (allIdx (numblocks cl)) (fun kb =>
        lsum (allIdx (blockShape cl kb)) (fun c => F (vadd (origin cl kb) c)))
      = lsum (allIdx (cl.map List.sum)) F
  | [], F => by
    simp only [numblocks, List.map_nil, lsum_allIdx_nil, blockShape, origin, vadd,
      List.zipWith_nil_left]
  | cs :: cl, F => by
    simp only [numblocks, List.map_cons]
    rw [lsum_allIdx_cons, lsum_allIdx_cons, ← regroup1 cs]
    apply lsum_congr
    intro k _
    have e : ∀ kb, lsum (allIdx (blockShape (cs :: cl) (k :: kb)))
          (fun c => F (vadd (origin (cs :: cl) (k :: kb)) c))
        = lsum (List.range (cs.getD k 0)) (fun u =>
            lsum (allIdx (blockShape cl kb)) (fun c => F (((cs.take k).sum + u) :: vadd (origin cl kb) c))) := by
      intro kb
      simp only [blockShape, origin, List.zipWith_cons_cons]
      rw [lsum_allIdx_cons]
      apply lsum_congr
      intro u _
      apply lsum_congr
      intro c _
      simp only [vadd, List.zipWith_cons_cons]
    rw [lsum_congr (fun kb _ => e kb), lsum_swap]
    apply lsum_congr
    intro u _
    have ih := regroup cl (fun r => F (((cs.take k).sum + u) :: r))
    simp only [numblocks] at ih
    exact ih

/-! ### the blocks of the product -/

theorem setMasked_idem (m : List Bool) (l : List Nat) (v : Nat) :
    setMasked m (setMasked m l v) v = setMasked m l v := by
  unfold setMasked
  induction m generalizing l with
  | nil => simp
  | cons b m ih =>
    cases l with
    | nil => simp
    | cons x l =>
      simp only [List.zipWith_cons_cons]
      rw [ih l]
      cases b <;> simp

theorem blockProd_shape (P : Plan) (hP : PlanOK P) (bid : List Nat) (hb : validBid P.full bid) :
    (blockProd P bid).shape = setMasked P.mask (blockShape P.full bid) 1 := by
  show setMasked P.mask (npShape (blockObs P bid) P.mask.length) 1 = _
  rw [npShape_block P hP bid hb]

theorem blockProd_get (P : Plan) (hP : PlanOK P) (bid : List Nat) (hb : validBid P.full bid)
    (i : List Nat) :
    (blockProd P bid).get i
      = lsum (allIdx (pick P.mask (blockShape P.full bid)))
          (fun c => npTerm (blockObs P bid) (merge P.mask (keep P.mask i) c)) := by
  show isum ((allIdx (pick P.mask (npShape (blockObs P bid) P.mask.length))).map _) = _
  rw [npShape_block P hP bid hb]
  rfl

theorem blockShape_len_mask (P : Plan) (hP : PlanOK P) (bid : List Nat) (hb : validBid P.full bid) :
    (blockShape P.full bid).length = P.mask.length := by
  rw [blockShape_length hb.length_eq, mask_length, hP.slen]

/-- the per-block `sum(keepdims=True)` does not change a product block (its contracted axes have
length 1 already) -/
theorem level0_get (P : Plan) (hP : PlanOK P) (bid : List Nat) (hb : validBid P.full bid)
    (i : List Nat) (hi : i.length = P.mask.length) :
    (level0 P bid).get i = (blockProd P bid).get i := by
  have hsl := blockShape_len_mask P hP bid hb
  show lsum (allIdx (pick P.mask (blockProd P bid).shape))
      (fun c => (blockProd P bid).get (merge P.mask (keep P.mask i) c)) = _
  rw [blockProd_shape P hP bid hb, setMasked_eq_merge _ _ _ hsl,
    pick_merge _ _ _ (keep_length _ _ hsl) (by rw [List.length_map]; exact pick_length _ _ hsl),
    allIdx_ones, lsum_singleton, blockProd_get P hP bid hb, blockProd_get P hP bid hb,
    keep_merge _ _ _ (keep_length _ _ hi) (by rw [List.length_map]; exact pick_length _ _ hsl)]

theorem level0_shape (P : Plan) (hP : PlanOK P) (bid : List Nat) (hb : validBid P.full bid) :
    (level0 P bid).shape = setMasked P.mask (blockShape P.full bid) 1 := by
  show setMasked P.mask (blockProd P bid).shape 1 = _
  rw [blockProd_shape P hP bid hb, setMasked_idem]

/-! ### block indices through the mask -/

theorem okOb_of_InB : ∀ (sp nb ob : List Nat), sp.length = nb.length →
    InB ob (keep (maskOf sp) nb) → okOb sp nb ob
  | [], [], ob, _, h => by
    cases ob with
    | nil => trivial
    | cons _ _ => simp [maskOf, keep, InB] at h
  | [], _ :: _, _, hl, _ => by simp at hl
  | _ :: _, [], _, hl, _ => by simp at hl
  | 0 :: sp, n :: nb, ob, hl, h => by
    rw [maskOf_zero] at h
    simp only [keep] at h
    cases ob with
    | nil => simp [InB] at h
    | cons o ob =>
      simp only [InB] at h
      simp only [okOb]
      exact ⟨h.1, okOb_of_InB sp nb ob (by simpa using hl) h.2⟩
  | (s + 1) :: sp, n :: nb, ob, hl, h => by
    rw [maskOf_succ] at h
    simp only [keep] at h
    simp only [okOb]
    exact okOb_of_InB sp nb ob (by simpa using hl) h

theorem numblocks_keep (m : List Bool) (l : Layout) : numblocks (keep m l) = keep m (numblocks l) := by
  unfold numblocks; rw [keep_map]

theorem numblocks_pick (m : List Bool) (l : Layout) : numblocks (pick m l) = pick m (numblocks l) := by
  unfold numblocks; rw [pick_map]

theorem blockShape_merge (m : List Bool) (l : Layout) (f c : List Nat) (h : l.length = m.length) :
    blockShape l (merge m f c) = merge m (blockShape (keep m l) f) (blockShape (pick m l) c) := by
  unfold blockShape
  conv => lhs; rw [← merge_keep_pick m l h]
  rw [zipWith_merge]

theorem origin_merge (m : List Bool) (l : Layout) (f c : List Nat) (h : l.length = m.length) :
    origin l (merge m f c) = merge m (origin (keep m l) f) (origin (pick m l) c) := by
  unfold origin
  conv => lhs; rw [← merge_keep_pick m l h]
  rw [zipWith_merge]

theorem vadd_merge (m : List Bool) (a b a' b' : List Nat) :
    vadd (merge m a b) (merge m a' b') = merge m (vadd a a') (vadd b b') := by
  unfold vadd; rw [zipWith_merge]

theorem validBid_merge (m : List Bool) (l : Layout) (f c : List Nat) (h : l.length = m.length)
    (hf : validBid (keep m l) f) (hc : validBid (pick m l) c) : validBid l (merge m f c) := by
  unfold validBid at *
  rw [numblocks_keep] at hf
  rw [numblocks_pick] at hc
  have hnl : (numblocks l).length = m.length := by simp [numblocks, h]
  conv => rhs; rw [← merge_keep_pick m (numblocks l) hnl]
  exact InB_merge m f c _ _ (keep_length _ _ hnl) (pick_length _ _ hnl) hf hc

theorem map_const_one (l : List Nat) : l.map (fun _ => 1) = List.replicate l.length 1 := by
  induction l with
  | nil => rfl
  | cons x l ih => simp [List.replicate_succ, ih]

/-! ### the theorem -/

/-- shape shared by all blocks of the contracted grid of `ob` -/
def lvlShape (P : Plan) (ob : List Nat) : List Nat :=
  merge P.mask (blockShape (outChunks P) ob) (List.replicate (nT P.mask) 1)

theorem lvl_shape_eq (P : Plan) (hP : PlanOK P) (ob kb : List Nat)
    (hob : validBid (outChunks P) ob) (hkb : validBid (pick P.mask P.full) kb) :
    setMasked P.mask (blockShape P.full (merge P.mask ob kb)) 1 = lvlShape P ob := by
  have hfl : P.full.length = P.mask.length := by rw [mask_length, hP.slen]
  have hb := validBid_merge P.mask P.full ob kb hfl hob hkb
  have hsl := blockShape_len_mask P hP _ hb
  have hob' : validBid (keep P.mask P.full) ob := hob
  have h1 : (blockShape (keep P.mask P.full) ob).length = nF P.mask := by
    rw [blockShape_length hob'.length_eq]; exact keep_length _ _ hfl
  have h2 : (blockShape (pick P.mask P.full) kb).length = nT P.mask := by
    rw [blockShape_length hkb.length_eq]; exact pick_length _ _ hfl
  rw [setMasked_eq_merge _ _ _ hsl, blockShape_merge _ _ _ _ hfl, keep_merge _ _ _ h1 h2,
    pick_merge _ _ _ h1 h2, map_const_one, h2]
  rfl

/-- the value of a product block of the contracted grid of `ob`, at a local index `merge j zeros` -/
theorem prod_term (P : Plan) (hP : PlanOK P) (ob kb j : List Nat)
    (hob : validBid (outChunks P) ob) (hkb : validBid (pick P.mask P.full) kb)
    (hj : InB j (blockShape (outChunks P) ob)) :
    (blockProd P (merge P.mask ob kb)).get (merge P.mask j (zerosOf P.mask))
      = lsum (allIdx (blockShape (pick P.mask P.full) kb)) (fun c =>
          npTerm (wholeObs P) (merge P.mask (vadd (origin (outChunks P) ob) j)
            (vadd (origin (pick P.mask P.full) kb) c))) := by
  have hfl : P.full.length = P.mask.length := by rw [mask_length, hP.slen]
  have hb := validBid_merge P.mask P.full ob kb hfl hob hkb
  have hob' : validBid (keep P.mask P.full) ob := hob
  have h1 : (blockShape (keep P.mask P.full) ob).length = nF P.mask := by
    rw [blockShape_length hob'.length_eq]; exact keep_length _ _ hfl
  have h2 : (blockShape (pick P.mask P.full) kb).length = nT P.mask := by
    rw [blockShape_length hkb.length_eq]; exact pick_length _ _ hfl
  have hjl : j.length = nF P.mask := by rw [hj.length_eq]; exact h1
  rw [blockProd_get P hP _ hb, blockShape_merge _ _ _ _ hfl, pick_merge _ _ _ h1 h2,
    keep_merge _ _ _ hjl (zerosOf_length _)]
  apply lsum_congr
  intro c hc
  have hc' : InB c (blockShape (pick P.mask P.full) kb) := (mem_allIdx _ _).mp hc
  have hx : InB (merge P.mask j c) (blockShape P.full (merge P.mask ob kb)) := by
    rw [blockShape_merge _ _ _ _ hfl]
    exact InB_merge _ _ _ _ _ h1 h2 hj hc'
  rw [npTerm_block P hP _ _ hb hx, origin_merge _ _ _ _ hfl, vadd_merge]
  rfl

/-- **Refinement.**  For every well-formed plan and every block index of the result, the block the
plan computes (blockwise product, per-block sum, `PartialReduce` cascade of any fan-in / sufficient
depth, or matmul's direct squeeze) is the block of the NumPy contraction on the extent advertised by
`outChunks`. -/
theorem outBlock_correct_ok (P : Plan) (hP : PlanOK P) (ob : List Nat) (hob : validBid (outChunks P) ob) :
    Arr.Equiv (outBlock P ob) (restrict (contractDen P) (extent (outChunks P) ob)) := by
  have hfl : P.full.length = P.mask.length := by rw [mask_length, hP.slen]
  have hnl : (numblocks P.full).length = P.mask.length := by simp [numblocks, hfl]
  have hmask : P.mask = maskOf P.split := rfl
  have hob' : validBid (keep P.mask P.full) ob := hob
  have h1 : (blockShape (keep P.mask P.full) ob).length = nF P.mask := by
    rw [blockShape_length hob'.length_eq]; exact keep_length _ _ hfl
  have h1o : (blockShape (outChunks P) ob).length = nF P.mask := h1
  have hok : okOb P.split (numblocks P.full) ob := by
    apply okOb_of_InB _ _ _ (by simp [numblocks, hP.slen])
    have := hob
    unfold validBid outChunks at this
    rwa [numblocks_keep] at this
  -- validity of the keys of the contracted grid
  have hkbv : ∀ kb, InB kb (pick P.mask (numblocks P.full)) → validBid (pick P.mask P.full) kb := by
    intro kb h
    unfold validBid; rw [numblocks_pick]; exact h
  -- the value of one block at `merge j zeros`
  have hterm : ∀ kb, InB kb (pick P.mask (numblocks P.full)) → ∀ j, InB j (blockShape (outChunks P) ob) →
      (blockProd P (merge P.mask ob kb)).get (merge P.mask j (zerosOf P.mask))
        = lsum (allIdx (blockShape (pick P.mask P.full) kb)) (fun c =>
            npTerm (wholeObs P) (merge P.mask (vadd (origin (outChunks P) ob) j)
              (vadd (origin (pick P.mask P.full) kb) c))) :=
    fun kb h j hj => prod_term P hP ob kb j hob (hkbv kb h) hj
  -- the regrouped sum is the NumPy value
  have hden : ∀ j, (restrict (contractDen P) (extent (outChunks P) ob)).get j
      = lsum (allIdx (numblocks (pick P.mask P.full))) (fun kb =>
          lsum (allIdx (blockShape (pick P.mask P.full) kb)) (fun c =>
            npTerm (wholeObs P) (merge P.mask (vadd (origin (outChunks P) ob) j)
              (vadd (origin (pick P.mask P.full) kb) c)))) := by
    intro j
    rw [regroup (pick P.mask P.full)
      (fun cg => npTerm (wholeObs P) (merge P.mask (vadd (origin (outChunks P) ob) j) cg))]
    show isum ((allIdx (pick P.mask (npShape (wholeObs P) P.mask.length))).map _) = _
    rw [npShape_whole P hP, pick_map]
    rfl
  have hshape : (restrict (contractDen P) (extent (outChunks P) ob)).shape
      = blockShape (outChunks P) ob := rfl
  have hzl : (zerosOf P.mask).length = nT P.mask := zerosOf_length _
  by_cases hdir : P.direct = true
  · -- matmul's squeeze: one block on every contracted axis
    have hone := hP.direct hdir
    have hall : allIdx (pick P.mask (numblocks P.full)) = [zerosOf P.mask] :=
      allIdx_pick_one P.split _ hone
    have hz0 : InB (zerosOf P.mask) (pick P.mask (numblocks P.full)) := by
      apply (mem_allIdx _ _).mp; rw [hall]; exact List.mem_singleton.mpr rfl
    have hkey := hkbv _ hz0
    have hbv := validBid_merge P.mask P.full ob (zerosOf P.mask) hfl hob hkey
    have hsh : (outBlock P ob).shape = blockShape (outChunks P) ob := by
      unfold outBlock
      simp only [hdir, if_true]
      show keep P.mask (blockProd P _).shape = _
      rw [blockProd_shape P hP _ hbv, lvl_shape_eq P hP ob _ hob hkey, lvlShape,
        keep_merge _ _ _ h1o (List.length_replicate ..)]
    refine ⟨hsh, ?_⟩
    intro j hj
    rw [hsh] at hj
    rw [hden j, numblocks_pick, hall, lsum_singleton]
    unfold outBlock
    simp only [hdir, if_true]
    exact hterm _ hz0 j hj
  · -- the cascade
    have hdir' : P.direct = false := by simpa using hdir
    have hG : ∀ kb, InB kb (pick (maskOf P.split) (numblocks P.full)) →
        (level0 P (merge (maskOf P.split) ob kb)).shape = lvlShape P ob := by
      intro kb hkb
      rw [← hmask] at hkb ⊢
      have hv := hkbv kb hkb
      rw [level0_shape P hP _ (validBid_merge P.mask P.full ob kb hfl hob hv)]
      exact lvl_shape_eq P hP ob kb hob hv
    obtain ⟨t1, t2⟩ := tree_blocks P.split (numblocks P.full) ob P.depth (level0 P) (lvlShape P ob)
      hok hP.dok hG
    rw [← hmask] at t1 t2
    have hsh : (outBlock P ob).shape = blockShape (outChunks P) ob := by
      unfold outBlock
      simp only [hdir', Bool.false_eq_true, if_false]
      show keep P.mask (levelBlocks P P.depth _).shape = _
      unfold levelBlocks
      rw [t1, lvlShape, keep_merge _ _ _ h1o (List.length_replicate ..)]
    refine ⟨hsh, ?_⟩
    intro j hj
    rw [hsh] at hj
    have hjl : j.length = nF P.mask := by rw [hj.length_eq]; exact h1
    rw [hden j, numblocks_pick]
    unfold outBlock
    simp only [hdir', Bool.false_eq_true, if_false]
    show (levelBlocks P P.depth (merge P.mask ob (zerosOf P.mask))).get (merge P.mask j (zerosOf P.mask)) = _
    unfold levelBlocks
    rw [t2]
    apply lsum_congr
    intro kb hkb
    have hkb' : InB kb (pick P.mask (numblocks P.full)) := (mem_allIdx _ _).mp hkb
    have hv := hkbv kb hkb'
    rw [level0_get P hP _ (validBid_merge P.mask P.full ob kb hfl hob hv) _
      (merge_length _ _ _ hjl hzl)]
    exact hterm kb hkb' j hj

theorem outBlock_correct (P : Plan) (hwf : P.WF) (ob : List Nat) (hob : validBid (outChunks P) ob) :
    Arr.Equiv (outBlock P ob) (restrict (contractDen P) (extent (outChunks P) ob)) :=
  outBlock_correct_ok P (PlanOK.of_wf hwf) ob hob

/-! ### corollaries: shapes, assembly, empty contractions -/

theorem contractDen_shape (P : Plan) (hP : PlanOK P) :
    (contractDen P).shape = (outChunks P).map List.sum := by
  show keep P.mask (npShape (wholeObs P) P.mask.length) = _
  rw [npShape_whole P hP, outChunks, keep_map]

theorem contractDen_get (P : Plan) (hP : PlanOK P) (j : List Nat) :
    (contractDen P).get j
      = lsum (allIdx (pick P.mask (P.full.map List.sum))) (fun c => npTerm (wholeObs P) (merge P.mask j c)) := by
  show isum ((allIdx (pick P.mask (npShape (wholeObs P) P.mask.length))).map _) = _
  rw [npShape_whole P hP]
  rfl

/-- `compute()`: the assembled blocks are the NumPy contraction -/
theorem computeOut_correct (P : Plan) (hP : PlanOK P) : Arr.Equiv (computeOut P) (contractDen P) :=
  assemble_of_blocks (contractDen P) (outChunks P) (outBlock P) (contractDen_shape P hP).symm
    (fun ob hob => outBlock_correct_ok P hP ob hob)

/-- `.chunks` of the blockwise product describe the product blocks -/
theorem prodChunks_blockShape (P : Plan) (hP : PlanOK P) (bid : List Nat) (hb : validBid P.full bid) :
    blockShape (prodChunks P) bid = setMasked P.mask (blockShape P.full bid) 1 := by
  have hfl : P.full.length = P.mask.length := by rw [mask_length, hP.slen]
  have hbl : bid.length = P.full.length := hb.length_eq
  have hpl : (prodChunks P).length = P.full.length := by simp [prodChunks, hfl]
  apply list_ext_getD
  · rw [blockShape_length (by rw [hbl, hpl]), hpl, setMasked_length _ _ _ (by rw [blockShape_length hbl, hfl]), hfl]
  · intro p hp
    rw [blockShape_length (by rw [hbl, hpl]), hpl] at hp
    rw [blockShape_getD (by rw [hbl, hpl]) p (by rw [hpl]; exact hp)]
    unfold prodChunks setMasked
    rw [getD_zipWith _ P.mask P.full p false [] [] (by rw [← hfl]; exact hp) hp,
      getD_zipWith _ P.mask (blockShape P.full bid) p false 0 0 (by rw [← hfl]; exact hp)
        (by rw [blockShape_length hbl]; exact hp),
      blockShape_getD hbl p hp]
    cases hm : P.mask.getD p false
    · simp
    · simp only [if_true]
      rw [getD_map (fun _ => 1) (P.full.getD p []) (bid.getD p 0) 0 0 (hb.getD_lt p hp)]

/-- a zero-length contracted index: every entry of the result is the empty sum -/
theorem contractDen_zero (P : Plan) (hP : PlanOK P) (h0 : 0 ∈ pick P.mask (P.full.map List.sum))
    (j : List Nat) : (contractDen P).get j = 0 := by
  rw [contractDen_get P hP, allIdx_of_zero_mem _ h0]
  rfl

theorem restrict_equiv {a b : Arr Int} (h : Arr.Equiv a b) (l : Layout) (bid : List Nat)
    (hl : l.map List.sum = a.shape) (hb : validBid l bid) :
    Arr.Equiv (restrict a (extent l bid)) (restrict b (extent l bid)) := by
  refine ⟨rfl, ?_⟩
  intro i hi
  have := InB_vadd_origin hb hi
  rw [hl] at this
  exact h.2 _ this

end Dask.Contract
