/-
The 2-d / 1-d readings of the contraction theorem: `a @ b` for matrices, `dot` of two vectors,
matrix · vector.  Each plan is an instance of `Plan`; its NumPy meaning `contractDen` is the textbook
formula (`matmulDen`, `vdotDen`, `matvecDen`), its well-formedness follows from explicit hypotheses
on shapes / chunks / fan-in.
-/
import DaskArrayModel.Lemmas.ContractBlock
namespace Dask.Contract
open Dask.Py Dask.ND Dask.Reduce Dask.Lemmas.Reduce

/-! ### depth -/

theorem pow_le_pow_max {n k a b : Nat} (hk : 2 ≤ k) (h : n ≤ k ^ a) : n ≤ k ^ (max a b) :=
  Nat.le_trans h (Nat.pow_le_pow_right (by omega) (Nat.le_max_left a b))

/-- one contracted position with fan-in `k ≥ 2`: the depth the code computes suffices -/
theorem depth_one_axis {n k : Nat} (hk : 2 ≤ k) : n ≤ k ^ (max (depthOf n k) 1) :=
  pow_le_pow_max hk (depthOf_spec hk)

theorem bc_of_lt {n x : Nat} (h : x < n) : bc n x = x := by
  unfold bc
  by_cases h1 : n = 1
  · simp [h1]; omega
  · simp [h1]

theorem lsum_allIdx_one (K : Nat) (f : List Nat → Int) :
    lsum (allIdx [K]) f = lsum (List.range K) (fun k => f [k]) := by
  rw [lsum_allIdx_cons]
  apply lsum_congr
  intro k _
  rw [lsum_allIdx_nil]

theorem treeDepth_0k0 (n0 n1 n2 k : Nat) (hk : 2 ≤ k) :
    treeDepth [n0, n1, n2] [0, k, 0] = max (depthOf n1 k) 1 := by
  have h : ¬ (k = 0 ∨ k = 1) := by omega
  simp [treeDepth, h]

theorem treeDepth_k (n k : Nat) (hk : 2 ≤ k) : treeDepth [n] [k] = max (depthOf n k) 1 := by
  have h : ¬ (k = 0 ∨ k = 1) := by omega
  simp [treeDepth, h]

theorem treeDepth_0k (n0 n1 k : Nat) (hk : 2 ≤ k) :
    treeDepth [n0, n1] [0, k] = max (depthOf n1 k) 1 := by
  have h : ¬ (k = 0 ∨ k = 1) := by omega
  simp [treeDepth, h]

/-! ### matrices -/

theorem matmulPlan_ok (a b : Arr Int) (ri ck cj : List Nat) (k : Nat)
    (ha : a.shape = [ri.sum, ck.sum]) (hb : b.shape = [ck.sum, cj.sum])
    (hri : ri ≠ []) (hck : ck ≠ []) (hcj : cj ≠ []) (hk : 2 ≤ k) :
    PlanOK (matmulPlan a b ri ck cj k) := by
  obtain ⟨k', rfl⟩ : ∃ k', k = k' + 1 := ⟨k - 1, by omega⟩
  have hpos : 1 ≤ ck.length := List.length_pos_iff.mpr hck
  refine ⟨rfl, ?_, ?_, ?_, ?_, ?_⟩
  · intro cs hcs
    simp only [matmulPlan, List.mem_cons, List.not_mem_nil, or_false] at hcs
    rcases hcs with e | e | e <;> subst e <;> assumption
  · intro o ho
    simp only [matmulPlan, List.mem_cons, List.not_mem_nil, or_false] at ho
    rcases ho with e | e
    · subst e
      refine ⟨rfl, ha.symm, ?_⟩
      intro t ht
      have : t = 0 ∨ t = 1 := by simp at ht; omega
      rcases this with e | e <;> subst e <;> simp [matmulPlan]
    · subst e
      refine ⟨rfl, hb.symm, ?_⟩
      intro t ht
      have : t = 0 ∨ t = 1 := by simp at ht; omega
      rcases this with e | e <;> subst e <;> simp [matmulPlan]
  · intro p hp
    have : p = 0 ∨ p = 1 ∨ p = 2 := by simp [matmulPlan] at hp; omega
    rcases this with e | e | e <;> subst e
    · exact ⟨⟨a, [ri, ck], [0, 1]⟩, by simp [matmulPlan], 0, by simp, rfl, rfl⟩
    · exact ⟨⟨a, [ri, ck], [0, 1]⟩, by simp [matmulPlan], 1, by simp, rfl, rfl⟩
    · exact ⟨⟨b, [ck, cj], [1, 2]⟩, by simp [matmulPlan], 1, by simp, rfl, rfl⟩
  · show depthOK [0, k' + 1, 0] (numblocks [ri, ck, cj]) (planDepth [ri, ck, cj] [0, k' + 1, 0])
    simp only [numblocks, List.map_cons, List.map_nil, depthOK, planDepth]
    rw [treeDepth_0k0 _ _ _ _ hk]
    exact ⟨by omega, hpos, depth_one_axis hk, trivial⟩
  · intro hd
    have h1 : ck.length = 1 := by simpa [matmulPlan] using hd
    show maskedOne [0, k' + 1, 0] (numblocks [ri, ck, cj])
    simp only [numblocks, List.map_cons, List.map_nil, maskedOne]
    exact ⟨h1, trivial⟩

theorem matmulPlan_mask (a b : Arr Int) (ri ck cj : List Nat) (k : Nat) (hk : 2 ≤ k) :
    (matmulPlan a b ri ck cj k).mask = [false, true, false] := by
  have : (k != 0) = true := by simp; omega
  simp [matmulPlan, Plan.mask, this]

/-- the NumPy meaning of the plan of `a @ b` is the textbook matrix product -/
theorem matmulPlan_den (a b : Arr Int) (ri ck cj : List Nat) (k : Nat)
    (ha : a.shape = [ri.sum, ck.sum]) (hb : b.shape = [ck.sum, cj.sum])
    (hri : ri ≠ []) (hck : ck ≠ []) (hcj : cj ≠ []) (hk : 2 ≤ k) :
    Arr.Equiv (contractDen (matmulPlan a b ri ck cj k)) (matmulDen a b) := by
  have hP := matmulPlan_ok a b ri ck cj k ha hb hri hck hcj hk
  have hm := matmulPlan_mask a b ri ck cj k hk
  have hsh : (contractDen (matmulPlan a b ri ck cj k)).shape = [ri.sum, cj.sum] := by
    rw [contractDen_shape _ hP, outChunks, hm]; rfl
  refine ⟨?_, ?_⟩
  · rw [hsh]; simp [matmulDen, ha, hb]
  · intro ij hij
    rw [hsh] at hij
    match ij, hij with
    | [i, j], hij =>
      simp only [InB] at hij
      rw [contractDen_get _ hP, hm]
      show lsum (allIdx [ck.sum]) _ = isum ((List.range (a.shape.getD 1 0)).map _)
      rw [lsum_allIdx_one, ha]
      apply lsum_congr
      intro c hc
      have hc' : c < ck.sum := List.mem_range.mp hc
      show npTerm [([0, 1], a), ([1, 2], b)] [i, c, j] = a.get [i, c] * b.get [c, j]
      simp only [npTerm, List.map_cons, List.map_nil, iprod, rd, ha, hb, List.zipWith_cons_cons,
        List.zipWith_nil_left, List.getD_cons_zero, List.getD_cons_succ, Int.mul_one]
      rw [bc_of_lt hij.1, bc_of_lt hc', bc_of_lt hij.2.1]

/-! ### vectors -/

theorem vdotPlan_ok (a b : Arr Int) (ck : List Nat) (k : Nat)
    (ha : a.shape = [ck.sum]) (hb : b.shape = [ck.sum]) (hck : ck ≠ []) (hk : 2 ≤ k) :
    PlanOK (vdotPlan a b ck k) := by
  obtain ⟨k', rfl⟩ : ∃ k', k = k' + 1 := ⟨k - 1, by omega⟩
  have hpos : 1 ≤ ck.length := List.length_pos_iff.mpr hck
  refine ⟨rfl, ?_, ?_, ?_, ?_, ?_⟩
  · intro cs hcs
    simp only [vdotPlan, List.mem_cons, List.not_mem_nil, or_false] at hcs
    subst hcs; assumption
  · intro o ho
    simp only [vdotPlan, List.mem_cons, List.not_mem_nil, or_false] at ho
    rcases ho with e | e
    · subst e
      refine ⟨rfl, ha.symm, ?_⟩
      intro t ht
      have : t = 0 := by simp at ht; omega
      subst this; simp [vdotPlan]
    · subst e
      refine ⟨rfl, hb.symm, ?_⟩
      intro t ht
      have : t = 0 := by simp at ht; omega
      subst this; simp [vdotPlan]
  · intro p hp
    have : p = 0 := by simp [vdotPlan] at hp; omega
    subst this
    exact ⟨⟨a, [ck], [0]⟩, by simp [vdotPlan], 0, by simp, rfl, rfl⟩
  · show depthOK [k' + 1] (numblocks [ck]) (planDepth [ck] [k' + 1])
    simp only [numblocks, List.map_cons, List.map_nil, depthOK, planDepth]
    rw [treeDepth_k _ _ hk]
    exact ⟨by omega, hpos, depth_one_axis hk, trivial⟩
  · intro hd
    simp [vdotPlan] at hd

theorem vdotPlan_den (a b : Arr Int) (ck : List Nat) (k : Nat)
    (ha : a.shape = [ck.sum]) (hb : b.shape = [ck.sum]) (hck : ck ≠ []) (hk : 2 ≤ k) :
    Arr.Equiv (contractDen (vdotPlan a b ck k)) (vdotDen a b) := by
  have hP := vdotPlan_ok a b ck k ha hb hck hk
  have hm : (vdotPlan a b ck k).mask = [true] := by
    have : (k != 0) = true := by simp; omega
    simp [vdotPlan, Plan.mask, this]
  have hsh : (contractDen (vdotPlan a b ck k)).shape = [] := by
    rw [contractDen_shape _ hP, outChunks, hm]; rfl
  refine ⟨by rw [hsh]; rfl, ?_⟩
  intro ij hij
  rw [hsh] at hij
  match ij, hij with
  | [], _ =>
    rw [contractDen_get _ hP, hm]
    show lsum (allIdx [ck.sum]) _ = isum ((List.range (a.shape.getD 0 0)).map _)
    rw [lsum_allIdx_one, ha]
    apply lsum_congr
    intro c hc
    have hc' : c < ck.sum := List.mem_range.mp hc
    show npTerm [([0], a), ([0], b)] [c] = a.get [c] * b.get [c]
    simp only [npTerm, List.map_cons, List.map_nil, iprod, rd, ha, hb, List.zipWith_cons_cons,
      List.zipWith_nil_left, List.getD_cons_zero, Int.mul_one]
    rw [bc_of_lt hc']

/-! ### matrix · vector -/

theorem matvecPlan_ok (a v : Arr Int) (ri ck : List Nat) (k : Nat)
    (ha : a.shape = [ri.sum, ck.sum]) (hv : v.shape = [ck.sum])
    (hri : ri ≠ []) (hck : ck ≠ []) (hk : 2 ≤ k) :
    PlanOK (matvecPlan a v ri ck k) := by
  obtain ⟨k', rfl⟩ : ∃ k', k = k' + 1 := ⟨k - 1, by omega⟩
  have hpos : 1 ≤ ck.length := List.length_pos_iff.mpr hck
  refine ⟨rfl, ?_, ?_, ?_, ?_, ?_⟩
  · intro cs hcs
    simp only [matvecPlan, List.mem_cons, List.not_mem_nil, or_false] at hcs
    rcases hcs with e | e <;> subst e <;> assumption
  · intro o ho
    simp only [matvecPlan, List.mem_cons, List.not_mem_nil, or_false] at ho
    rcases ho with e | e
    · subst e
      refine ⟨rfl, ha.symm, ?_⟩
      intro t ht
      have : t = 0 ∨ t = 1 := by simp at ht; omega
      rcases this with e | e <;> subst e <;> simp [matvecPlan]
    · subst e
      refine ⟨rfl, hv.symm, ?_⟩
      intro t ht
      have : t = 0 := by simp at ht; omega
      subst this; simp [matvecPlan]
  · intro p hp
    have : p = 0 ∨ p = 1 := by simp [matvecPlan] at hp; omega
    rcases this with e | e <;> subst e
    · exact ⟨⟨a, [ri, ck], [0, 1]⟩, by simp [matvecPlan], 0, by simp, rfl, rfl⟩
    · exact ⟨⟨a, [ri, ck], [0, 1]⟩, by simp [matvecPlan], 1, by simp, rfl, rfl⟩
  · show depthOK [0, k' + 1] (numblocks [ri, ck]) (planDepth [ri, ck] [0, k' + 1])
    simp only [numblocks, List.map_cons, List.map_nil, depthOK, planDepth]
    rw [treeDepth_0k _ _ _ hk]
    exact ⟨by omega, hpos, depth_one_axis hk, trivial⟩
  · intro hd
    simp [matvecPlan] at hd

theorem matvecPlan_den (a v : Arr Int) (ri ck : List Nat) (k : Nat)
    (ha : a.shape = [ri.sum, ck.sum]) (hv : v.shape = [ck.sum])
    (hri : ri ≠ []) (hck : ck ≠ []) (hk : 2 ≤ k) :
    Arr.Equiv (contractDen (matvecPlan a v ri ck k)) (matvecDen a v) := by
  have hP := matvecPlan_ok a v ri ck k ha hv hri hck hk
  have hm : (matvecPlan a v ri ck k).mask = [false, true] := by
    have : (k != 0) = true := by simp; omega
    simp [matvecPlan, Plan.mask, this]
  have hsh : (contractDen (matvecPlan a v ri ck k)).shape = [ri.sum] := by
    rw [contractDen_shape _ hP, outChunks, hm]; rfl
  refine ⟨by rw [hsh]; simp [matvecDen, ha], ?_⟩
  intro ij hij
  rw [hsh] at hij
  match ij, hij with
  | [i], hij =>
    simp only [InB] at hij
    rw [contractDen_get _ hP, hm]
    show lsum (allIdx [ck.sum]) _ = isum ((List.range (a.shape.getD 1 0)).map _)
    rw [lsum_allIdx_one, ha]
    apply lsum_congr
    intro c hc
    have hc' : c < ck.sum := List.mem_range.mp hc
    show npTerm [([0, 1], a), ([1], v)] [i, c] = a.get [i, c] * v.get [c]
    simp only [npTerm, List.map_cons, List.map_nil, iprod, rd, ha, hv, List.zipWith_cons_cons,
      List.zipWith_nil_left, List.getD_cons_zero, List.getD_cons_succ, Int.mul_one]
    rw [bc_of_lt hij.1, bc_of_lt hc']

/-! ### blocks of the 2-d plans against the textbook formulas -/

theorem block_vs_den (P : Plan) (hP : PlanOK P) (D : Arr Int) (hD : Arr.Equiv (contractDen P) D)
    (ob : List Nat) (hob : validBid (outChunks P) ob) :
    Arr.Equiv (outBlock P ob) (restrict D (extent (outChunks P) ob)) :=
  (outBlock_correct_ok P hP ob hob).trans
    (restrict_equiv hD (outChunks P) ob (contractDen_shape P hP).symm hob)


/-! ### `matmul` with 1-d operands: `a[newaxis, :]` / `b[:, newaxis]`, then `squeeze` -/

/-- `v @ b` for a vector and a matrix: `out[j] = Σ_k v[k] * b[k, j]` -/
def vecmatDen (v b : Arr Int) : Arr Int :=
  ⟨[b.shape.getD 1 0], fun j =>
    isum ((List.range (v.shape.getD 0 0)).map (fun k => v.get [k] * b.get [k, j.getD 0 0]))⟩

theorem matmulPlan_outChunks (a b : Arr Int) (ri ck cj : List Nat) (k : Nat) (hk : 2 ≤ k) :
    outChunks (matmulPlan a b ri ck cj k) = [ri, cj] := by
  rw [outChunks, matmulPlan_mask a b ri ck cj k hk]; rfl

/-- vector @ matrix through `matmul`: promote to `[1, K]` (chunks `(1,)`), multiply, squeeze axis 0 -/
theorem matmul_vecmat_block (v b : Arr Int) (ck cj : List Nat) (k : Nat)
    (hv : v.shape = [ck.sum]) (hb : b.shape = [ck.sum, cj.sum])
    (hck : ck ≠ []) (hcj : cj ≠ []) (hk : 2 ≤ k) (bj : Nat) (hbj : bj < cj.length) :
    Arr.Equiv (squeezeAt 0 (outBlock (matmulPlan (expandFront v) b [1] ck cj k) [0, bj]))
      (restrict (vecmatDen v b) (extent [cj] [bj])) := by
  have ha : (expandFront v).shape = [[1].sum, ck.sum] := by simp [expandFront, hv]
  have hP := matmulPlan_ok (expandFront v) b [1] ck cj k ha hb (by simp) hck hcj hk
  have hD := matmulPlan_den (expandFront v) b [1] ck cj k ha hb (by simp) hck hcj hk
  have hoc := matmulPlan_outChunks (expandFront v) b [1] ck cj k hk
  have hob : validBid (outChunks (matmulPlan (expandFront v) b [1] ck cj k)) [0, bj] := by
    rw [hoc]; simp [validBid, numblocks, InB, hbj]
  have hE := block_vs_den _ hP _ hD [0, bj] hob
  rw [hoc] at hE
  have hsh : (outBlock (matmulPlan (expandFront v) b [1] ck cj k) [0, bj]).shape = [1, cj.getD bj 0] := by
    rw [hE.1]; simp [restrict, extent, blockShape]
  refine ⟨?_, ?_⟩
  · simp [squeezeAt, hsh, restrict, extent, blockShape]
  · intro i hi
    simp only [squeezeAt, hsh, List.eraseIdx_zero, List.tail_cons] at hi
    match i, hi with
    | [x], hi =>
      simp only [InB] at hi
      have hin : InB [0, x] (outBlock (matmulPlan (expandFront v) b [1] ck cj k) [0, bj]).shape := by
        rw [hsh]; exact ⟨Nat.zero_lt_one, hi.1, trivial⟩
      show (outBlock _ [0, bj]).get ([x].insertIdx 0 0) = _
      rw [List.insertIdx_zero, hE.2 _ hin]
      simp [restrict, extent, origin, vadd, matmulDen, vecmatDen, expandFront, hv]

/-- matrix @ vector through `matmul`: promote to `[K, 1]`, multiply, squeeze axis 1 -/
theorem matmul_matvec_block (a v : Arr Int) (ri ck : List Nat) (k : Nat)
    (ha : a.shape = [ri.sum, ck.sum]) (hv : v.shape = [ck.sum])
    (hri : ri ≠ []) (hck : ck ≠ []) (hk : 2 ≤ k) (bi : Nat) (hbi : bi < ri.length) :
    Arr.Equiv (squeezeAt 1 (outBlock (matmulPlan a (expandBack v) ri ck [1] k) [bi, 0]))
      (restrict (matvecDen a v) (extent [ri] [bi])) := by
  have hb : (expandBack v).shape = [ck.sum, [1].sum] := by simp [expandBack, hv]
  have hP := matmulPlan_ok a (expandBack v) ri ck [1] k ha hb hri hck (by simp) hk
  have hD := matmulPlan_den a (expandBack v) ri ck [1] k ha hb hri hck (by simp) hk
  have hoc := matmulPlan_outChunks a (expandBack v) ri ck [1] k hk
  have hob : validBid (outChunks (matmulPlan a (expandBack v) ri ck [1] k)) [bi, 0] := by
    rw [hoc]; simp [validBid, numblocks, InB, hbi]
  have hE := block_vs_den _ hP _ hD [bi, 0] hob
  rw [hoc] at hE
  have hsh : (outBlock (matmulPlan a (expandBack v) ri ck [1] k) [bi, 0]).shape = [ri.getD bi 0, 1] := by
    rw [hE.1]; simp [restrict, extent, blockShape]
  refine ⟨?_, ?_⟩
  · simp [squeezeAt, hsh, restrict, extent, blockShape]
  · intro i hi
    simp only [squeezeAt, hsh] at hi
    have hi' : InB i [ri.getD bi 0] := by simpa using hi
    match i, hi' with
    | [x], hi' =>
      simp only [InB] at hi'
      have hin : InB [x, 0] (outBlock (matmulPlan a (expandBack v) ri ck [1] k) [bi, 0]).shape := by
        rw [hsh]; exact ⟨hi'.1, Nat.zero_lt_one, trivial⟩
      show (outBlock _ [bi, 0]).get ([x].insertIdx 1 0) = _
      have e : [x].insertIdx 1 0 = [x, 0] := by simp [List.insertIdx]
      rw [e, hE.2 _ hin]
      simp [restrict, extent, origin, vadd, matmulDen, matvecDen, expandBack, ha]

end Dask.Contract
