/-
Closed form of `new_blockdim` for a unit-step, non-empty slice of POSITIVE chunks: the positive overlaps of the blocks
with `[start, stop)` (`ovl`).  From it: slicing to whole blocks keeps those blocks (`sliceKeeps_of_pos`), and the chunks
after the top adjustment are those of the sliced original (`top_chunks`).
-/
import DaskArrayModel.Lemmas.CoarseSliceChunks
namespace Dask.Lemmas.Coarse
open Dask.Py Dask.Py.PySlice Dask.Slicing Dask.Coarse
open Dask.Lemmas.Slice1dPos

/-- positive overlaps of consecutive blocks (the first one starting at `pos`) with `[a, b)` -/
def ovl (a b : Int) : List Int → Int → List Int
  | [], _ => []
  | c :: rest, pos =>
    if min b (pos + c) - max a pos > 0 then (min b (pos + c) - max a pos) :: ovl a b rest (pos + c)
    else ovl a b rest (pos + c)

/-- what `planLengths` of the unit-step loop is, in the loop's own relative coordinates -/
def ovlRel : List Int → Int → Int → List Int
  | [], _, _ => []
  | len :: rest, start, stop =>
    if start < len ∧ stop > 0 then (((min stop len - start).toNat : Nat) : Int) :: ovlRel rest 0 (stop - len)
    else ovlRel rest (start - len) (stop - len)

theorem ovl_append (a b : Int) : ∀ (xs ys : List Int) (pos : Int),
    ovl a b (xs ++ ys) pos = ovl a b xs pos ++ ovl a b ys (pos + isum xs)
  | [], ys, pos => by simp [ovl, isum]
  | x :: xs, ys, pos => by
    simp only [List.cons_append, ovl, isum]
    rw [ovl_append a b xs ys (pos + x)]
    split
    · simp [Int.add_assoc]
    · simp [Int.add_assoc]

theorem ovl_nil_right (a b : Int) : ∀ (xs : List Int) (pos : Int), (∀ x ∈ xs, 0 ≤ x) → b ≤ pos → ovl a b xs pos = []
  | [], _, _, _ => rfl
  | x :: xs, pos, h, hb => by
    have hx : 0 ≤ x := h x (by simp)
    unfold ovl
    rw [if_neg (by omega)]
    exact ovl_nil_right a b xs (pos + x) (fun y hy => h y (by simp [hy])) (by omega)

theorem ovl_nil_left (a b : Int) : ∀ (xs : List Int) (pos : Int), (∀ x ∈ xs, 0 ≤ x) → pos + isum xs ≤ a →
    ovl a b xs pos = []
  | [], _, _, _ => rfl
  | x :: xs, pos, h, ha => by
    have hx : 0 ≤ x := h x (by simp)
    have hs : 0 ≤ isum xs := isum_nonneg xs (fun y hy => h y (by simp [hy]))
    simp only [isum] at ha
    unfold ovl
    rw [if_neg (by omega)]
    exact ovl_nil_left a b xs (pos + x) (fun y hy => h y (by simp [hy])) (by omega)

theorem ovl_shift (a b d : Int) : ∀ (xs : List Int) (pos : Int),
    ovl (a - d) (b - d) xs (pos - d) = ovl a b xs pos
  | [], _ => rfl
  | x :: xs, pos => by
    unfold ovl
    have e : pos - d + x = pos + x - d := by omega
    rw [e, ovl_shift a b d xs (pos + x)]
    have e2 : min (b - d) (pos + x - d) - max (a - d) (pos - d) = min b (pos + x) - max a pos := by omega
    rw [e2]

theorem ovl_start (a a' b : Int) : ∀ (xs : List Int) (pos : Int), (∀ x ∈ xs, 0 ≤ x) → a ≤ pos → a' ≤ pos →
    ovl a b xs pos = ovl a' b xs pos
  | [], _, _, _, _ => rfl
  | x :: xs, pos, h, h1, h2 => by
    have hx : 0 ≤ x := h x (by simp)
    unfold ovl
    have e : max a pos = max a' pos := by omega
    rw [e, ovl_start a a' b xs (pos + x) (fun y hy => h y (by simp [hy])) (by omega) (by omega)]

/-- blocks lying fully inside `[a, b)` are listed as they are (positive chunks) -/
theorem ovl_inside (a b : Int) : ∀ (xs : List Int) (pos : Int), (∀ x ∈ xs, 0 < x) → a ≤ pos → pos + isum xs ≤ b →
    ovl a b xs pos = xs
  | [], _, _, _, _ => rfl
  | x :: xs, pos, h, h1, h2 => by
    have hx : 0 < x := h x (by simp)
    have hs : 0 ≤ isum xs := isum_nonneg xs (fun y hy => Int.le_of_lt (h y (by simp [hy])))
    simp only [isum] at h2
    unfold ovl
    rw [if_pos (by omega), ovl_inside a b xs (pos + x) (fun y hy => h y (by simp [hy])) (by omega) (by omega)]
    congr 1; omega

theorem ovlRel_nil : ∀ (lens : List Int) (start stop : Int), (∀ x ∈ lens, 0 ≤ x) → stop ≤ 0 → ovlRel lens start stop = []
  | [], _, _, _, _ => rfl
  | x :: xs, start, stop, h, hs => by
    have hx : 0 ≤ x := h x (by simp)
    unfold ovlRel
    rw [if_neg (by omega)]
    exact ovlRel_nil xs _ _ (fun y hy => h y (by simp [hy])) (by omega)

/-- relative and absolute coordinates agree -/
theorem ovlRel_eq_ovl : ∀ (lens : List Int) (pos st sp : Int), (∀ x ∈ lens, 0 ≤ x) → 0 ≤ st → st < sp →
    ovlRel lens st sp = ovl (pos + st) (pos + sp) lens pos
  | [], _, _, _, _, _, _ => rfl
  | len :: rest, pos, st, sp, h, h0, h1 => by
    have hlen : 0 ≤ len := h len (by simp)
    have hrest : ∀ x ∈ rest, 0 ≤ x := fun y hy => h y (by simp [hy])
    unfold ovlRel ovl
    by_cases hc : st < len ∧ sp > 0
    · rw [if_pos hc, if_pos (by omega)]
      have e : (((min sp len - st).toNat : Nat) : Int) = min (pos + sp) (pos + len) - max (pos + st) pos := by omega
      rw [e]
      congr 1
      by_cases hsp : sp - len ≤ 0
      · rw [ovlRel_nil rest _ _ hrest hsp, ovl_nil_right _ _ rest _ hrest (by omega)]
      · rw [ovlRel_eq_ovl rest (pos + len) 0 (sp - len) hrest (by omega) (by omega)]
        rw [show pos + len + (sp - len) = pos + sp by omega]
        exact ovl_start _ _ _ rest _ hrest (by omega) (by omega)
    · rw [if_neg hc, if_neg (by omega)]
      rw [ovlRel_eq_ovl rest (pos + len) (st - len) (sp - len) hrest (by omega) (by omega)]
      rw [show pos + len + (st - len) = pos + st by omega, show pos + len + (sp - len) = pos + sp by omega]

/-- `planLengths` of the unit-step loop -/
theorem planLengths_loopPos_one (L : List Int) : ∀ (lens : List Int) (i : Nat) (tail : List Int) (start stop : Int),
    L.drop i = lens ++ tail → (∀ x ∈ lens, 0 ≤ x) → (0 ≤ start ∨ stop ≤ 0) →
    planLengths L (loopPos 1 lens i start stop) = ovlRel lens start stop
  | [], _, _, _, _, _, _, _ => rfl
  | len :: rest, i, tail, start, stop, hd, hnn, hinv => by
    obtain ⟨hg, hd', _⟩ := drop_cons_facts (rest := rest ++ tail) (by simpa using hd)
    have hlen : 0 ≤ len := hnn len (by simp)
    have hrest : ∀ x ∈ rest, 0 ≤ x := fun x hx => hnn x (by simp [hx])
    unfold loopPos ovlRel
    by_cases hc : start < len ∧ stop > 0
    · rw [if_pos hc, if_pos hc]
      have hmod : pyMod (start - len) 1 = 0 := by rw [pyMod_pos _ _ (by omega)]; omega
      rw [hmod]
      have ih := planLengths_loopPos_one L rest (i + 1) tail 0 (stop - len) hd' hrest (Or.inl (Int.le_refl 0))
      unfold planLengths at ih ⊢
      rw [List.map_cons, ih]
      congr 1
      simp only [hg]
      have hs0 : 0 ≤ start := by omega
      have e1 := rng_stp start (min stop len)
      have hstp : (⟨some start, some (min stop len), some 1⟩ : PySlice).stp = 1 := rfl
      rw [sel_unit_length _ _ hstp]
      have i1 : (⟨some start, some (min stop len), some 1⟩ : PySlice).istart len = start := by
        simp only [istart, hstp, adjust]; simp; split <;> omega
      have i2 : (⟨some start, some (min stop len), some 1⟩ : PySlice).istop len = min stop len := by
        simp only [istop, hstp, adjust]; simp; split <;> omega
      rw [i1, i2]
    · rw [if_neg hc, if_neg hc]
      exact planLengths_loopPos_one L rest (i + 1) tail (start - len) (stop - len) hd' hrest (by omega)

/-- **closed form of `new_blockdim`** for a unit-step non-empty slice of positive chunks -/
theorem newBlockdim_unit (cs : List Int) (hpos : ∀ c ∈ cs, 0 < c) (s : PySlice) (hs : s.stp = 1)
    (hse : s.istart (isum cs) < s.istop (isum cs)) :
    newBlockdim (isum cs) cs (normalizeSlice s (isum cs)) = ovl (s.istart (isum cs)) (s.istop (isum cs)) cs 0 := by
  have hl : ∀ c ∈ cs, 0 ≤ c := fun c hc => Int.le_of_lt (hpos c hc)
  have hd : 0 ≤ isum cs := isum_nonneg cs hl
  have hs0 : 0 < s.stp := by omega
  obtain ⟨a0, a1⟩ := istart_bounds s _ hd hs0
  obtain ⟨b0, b1⟩ := istop_bounds s _ hd hs0
  by_cases hcol : normalizeSlice s (isum cs) = colon
  · obtain ⟨c1, c2, _⟩ := colon_facts s _ hd hs0 hcol
    unfold newBlockdim
    rw [if_pos hcol, c1, c2, ovl_inside 0 (isum cs) cs 0 hpos (by omega) (by omega)]
  · have hnb := newBlockdim_eq_planLengths_pos cs s hl hs0
    have hsum := (newBlockdim_pos cs s hl hs0).1
    try dsimp only at hsum
    rw [sel_unit_length s _ hs] at hsum
    have hplan := slice1d_norm_pos cs s hl hs0 hcol
    have hmax : max (s.istart (isum cs)) (s.istop (isum cs)) = s.istop (isum cs) := by omega
    rw [hmax, hs] at hplan
    generalize hst : s.istart (isum cs) = start at *
    generalize hsp : s.istop (isum cs) = stop at *
    have hi0 := bisectRight_le (cumsum cs) start
    rw [cumsum_length] at hi0
    generalize hi0d : bisectRight (cumsum cs) start = i0 at *
    generalize hkd : min (bisectLeft (cumsum cs) stop + 1) cs.length - i0 = k at *
    generalize hdd : loopPos 1 ((cs.drop i0).take k) i0 (start - blockStart cs i0) (stop - blockStart cs i0) = d at *
    have hkeys : ((finish cs d).map (·.1)).Pairwise (· < ·) := by
      apply finish_keys_sorted
      rw [← hdd]
      exact (loopPos_keys _ _ _ _ _).1
    rw [hplan, sortByKey_sorted _ hkeys] at hnb
    have hb0 : blockStart cs i0 ≤ start := by rw [← hi0d]; exact blockStart_istart_le cs start a0
    have hlens : ∀ x ∈ (cs.drop i0).take k, 0 ≤ x :=
      fun x hx => hl x (List.mem_of_mem_drop (List.mem_of_mem_take hx))
    have hpl : planLengths cs d = ovlRel ((cs.drop i0).take k) (start - blockStart cs i0) (stop - blockStart cs i0) := by
      rw [← hdd]
      exact planLengths_loopPos_one cs _ i0 ((cs.drop i0).drop k) _ _ (List.take_append_drop _ _).symm hlens
        (Or.inl (by omega))
    have hdn : d ≠ [] := by
      intro hd0
      rw [hd0, finish_nil] at hnb
      rw [hnb] at hsum
      simp only [planLengths, List.map_cons, List.map_nil, isum] at hsum
      have := sel_empty (getD_nonneg hl 0)
      rw [this] at hsum
      simp at hsum
      omega
    rw [hnb, planLengths_finish hl d hdn, hpl]
    rw [ovlRel_eq_ovl _ (blockStart cs i0) _ _ hlens (by omega) (by omega)]
    rw [show blockStart cs i0 + (start - blockStart cs i0) = start by omega,
      show blockStart cs i0 + (stop - blockStart cs i0) = stop by omega]
    -- split the whole axis into before / visited / after
    have hsplit : cs = cs.take i0 ++ ((cs.drop i0).take k ++ (cs.drop i0).drop k) := by
      rw [List.take_append_drop, List.take_append_drop]
    conv => rhs; rw [hsplit]
    rw [ovl_append, ovl_append]
    have hpre : ovl start stop (cs.take i0) 0 = [] := by
      apply ovl_nil_left _ _ _ _ (fun x hx => hl x (List.mem_of_mem_take hx))
      have : (0 : Int) + isum (cs.take i0) = blockStart cs i0 := by simp [blockStart]
      omega
    have hpost : ovl start stop ((cs.drop i0).drop k) (0 + isum (cs.take i0) + isum ((cs.drop i0).take k)) = [] := by
      by_cases ht : (cs.drop i0).drop k = []
      · rw [ht]; rfl
      · apply ovl_nil_right _ _ _ _ (fun x hx => hl x (List.mem_of_mem_drop (List.mem_of_mem_drop hx)))
        have hlen : k < (cs.drop i0).length := by
          apply Classical.byContradiction
          intro hk
          exact ht (List.drop_eq_nil_of_le (by omega))
        rw [List.length_drop] at hlen
        have hbl : bisectLeft (cumsum cs) stop + 1 < cs.length := by omega
        have hspec := bisectLeft_spec (cumsum cs) stop (by rw [cumsum_length]; omega)
        rw [cumsum_getD cs _ (by omega)] at hspec
        have e : (0 : Int) + isum (cs.take i0) + isum ((cs.drop i0).take k) = blockStart cs (i0 + k) := by
          rw [blockStart_add]; simp [blockStart]
        rw [e]
        by_cases hcase : i0 ≤ bisectLeft (cumsum cs) stop + 1
        · have : i0 + k = bisectLeft (cumsum cs) stop + 1 := by omega
          rw [this]; exact hspec
        · -- i0 beyond the cut: then `cum[bisectLeft] ≤ start < stop ≤ cum[bisectLeft]`
          exfalso
          have hle : (cumsum cs).getD (bisectLeft (cumsum cs) stop) 0 ≤ start := by
            rw [← hi0d] at hcase
            exact bisectRight_spec (cumsum cs) start _ (by omega)
          rw [cumsum_getD cs _ (by omega)] at hle
          omega
    rw [hpre, hpost]
    simp only [List.nil_append, List.append_nil]
    congr 1
    simp [blockStart]

/-- **positive operand chunks: slicing to whole blocks keeps exactly those blocks** -/
theorem sliceKeeps_of_pos (ic : List Int) (hpos : ∀ c ∈ ic, 0 < c) (f l : Nat) (hfl : f ≤ l) (hl : l < ic.length) :
    sliceKeeps ic f l = true := by
  have hnn : ∀ c ∈ ic, 0 ≤ c := fun c hc => Int.le_of_lt (hpos c hc)
  unfold sliceKeeps
  apply decide_eq_true
  rw [cum0_getD ic f (by omega), cum0_getD ic (l + 1) (by omega)]
  simp only [opChunksAfter]
  have hbf := blockStart_le ic hnn (show 0 ≤ f by omega)
  rw [blockStart_zero] at hbf
  have hbl := blockStart_le ic hnn (show l + 1 ≤ ic.length by omega)
  rw [blockStart_length] at hbl
  have hlt : blockStart ic f < blockStart ic (l + 1) := by
    have h1 := blockStart_le ic hnn (show f + 1 ≤ l + 1 by omega)
    have h2 := blockStart_succ ic f
    have h3 : 0 < ic.getD f 0 := by
      rw [List.getD_eq_getElem?_getD, List.getElem?_eq_getElem (by omega)]
      exact hpos _ (List.getElem_mem _)
    omega
  have i1 := rng_istart (blockStart ic f) (blockStart ic (l + 1)) (isum ic) hbf (by omega)
  have i2 := rng_istop (blockStart ic f) (blockStart ic (l + 1)) (isum ic) (by omega) hbl
  rw [newBlockdim_unit ic hpos _ (rng_stp _ _) (by rw [i1, i2]; exact hlt), i1, i2]
  -- before / kept / after
  have hsplit : ic = ic.take f ++ (keptChunks ic f l ++ (ic.drop f).drop (l + 1 - f)) := by
    unfold keptChunks
    rw [List.take_append_drop, List.take_append_drop]
  have e1 : (0 : Int) + isum (ic.take f) = blockStart ic f := by simp [blockStart]
  have e2 : blockStart ic f + isum (keptChunks ic f l) = blockStart ic (l + 1) := by
    rw [isum_kept ic f l hfl]; omega
  generalize blockStart ic f = A at *
  generalize blockStart ic (l + 1) = B at *
  conv => lhs; rw [hsplit]
  rw [ovl_append, ovl_append]
  rw [e1, e2]
  rw [ovl_nil_left _ _ _ _ (fun x hx => hnn x (List.mem_of_mem_take hx)) (by omega)]
  rw [ovl_nil_right _ _ _ _ (fun x hx => hnn x (List.mem_of_mem_drop (List.mem_of_mem_drop hx))) (Int.le_refl _)]
  rw [ovl_inside A B (keptChunks ic f l) A (fun x hx => hpos x (List.mem_of_mem_drop (List.mem_of_mem_take hx)))
    (Int.le_refl _) (by omega)]
  simp

/-- **chunks after the top adjustment = chunks of the sliced original** (positive output chunks, one sliced axis) -/
theorem top_chunks (oc : List Int) (hpos : ∀ c ∈ oc, 0 < c) (s : PySlice) (hc : s ≠ colon) (pl : AxisPlan)
    (h : acceptAxis oc (.slc s) = some pl) :
    indexedChunks1 (keptOut1 oc pl) pl.adj.toIdx = indexedChunks1 oc (.slc s) := by
  have hoc : ∀ c ∈ oc, 0 ≤ c := fun c hc => Int.le_of_lt (hpos c hc)
  obtain ⟨hs, hse, f, l, hbr, hfl, hl, a2, a3, b2, b3, hadj⟩ := acceptAxis_slc oc hoc s hc pl h
  have hkept : keptOut1 oc pl = keptChunks oc f l := by simp only [keptOut1, hbr]
  have hkpos : ∀ c ∈ keptChunks oc f l, 0 < c := fun c hc => hpos c (List.mem_of_mem_drop (List.mem_of_mem_take hc))
  have hknn := keptChunks_nonneg oc hoc f l
  have hdim' : isum (keptChunks oc f l) = blockStart oc (l + 1) - blockStart oc f := isum_kept oc f l hfl
  have hbl := blockStart_le oc hoc (show l + 1 ≤ oc.length by omega)
  rw [blockStart_length] at hbl
  have hbf := blockStart_le oc hoc (show 0 ≤ f by omega)
  rw [blockStart_zero] at hbf
  -- the original
  have e0 : indexedChunks1 oc (.slc s) = some (ovl (s.istart (isum oc)) (s.istop (isum oc)) oc 0) := by
    simp only [indexedChunks1]; rw [newBlockdim_unit oc hpos s hs hse]
  generalize hst : s.istart (isum oc) = start at *
  generalize hsp : s.istop (isum oc) = stop at *
  -- its closed form restricted to the kept blocks
  have hsplit : oc = oc.take f ++ (keptChunks oc f l ++ (oc.drop f).drop (l + 1 - f)) := by
    unfold keptChunks
    rw [List.take_append_drop, List.take_append_drop]
  have e1 : (0 : Int) + isum (oc.take f) = blockStart oc f := by simp [blockStart]
  have e2 : blockStart oc f + isum (keptChunks oc f l) = blockStart oc (l + 1) := by rw [hdim']; omega
  have hmid : ovl start stop oc 0 = ovl start stop (keptChunks oc f l) (blockStart oc f) := by
    conv => lhs; rw [hsplit]
    rw [ovl_append, ovl_append, e1, e2]
    rw [ovl_nil_left _ _ _ _ (fun x hx => hoc x (List.mem_of_mem_take hx)) (by omega)]
    rw [ovl_nil_right _ _ _ _ (fun x hx => hoc x (List.mem_of_mem_drop (List.mem_of_mem_drop hx))) (by omega)]
    simp
  have hshift : ovl start stop (keptChunks oc f l) (blockStart oc f)
      = ovl (start - blockStart oc f) (stop - blockStart oc f) (keptChunks oc f l) 0 := by
    have := ovl_shift start stop (blockStart oc f) (keptChunks oc f l) (blockStart oc f)
    rw [show blockStart oc f - blockStart oc f = 0 by omega] at this
    exact this.symm
  rw [e0, hmid, hshift, hkept, hadj]
  split
  · rename_i hcol
    simp only [Adj.toIdx, indexedChunks1]
    rw [newBlockdim_unit _ hkpos colon colon_stp (by rw [colon_istart, colon_istop, hdim']; omega)]
    rw [colon_istart, colon_istop, hdim']
    congr 2 <;> omega
  · simp only [Adj.toIdx, indexedChunks1]
    have i1 := rng_istart (start - blockStart oc f) (stop - blockStart oc f) (isum (keptChunks oc f l))
      (by omega) (by omega)
    have i2 := rng_istop (start - blockStart oc f) (stop - blockStart oc f) (isum (keptChunks oc f l))
      (by omega) (by omega)
    rw [newBlockdim_unit _ hkpos _ (rng_stp _ _) (by rw [i1, i2]; omega), i1, i2]

end Dask.Lemmas.Coarse
