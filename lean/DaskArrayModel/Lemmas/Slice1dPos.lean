/-
Positive-step half of the `_slice_1d` partition property: the per-block plan reads,
block by block in ascending block order, exactly the positions selected by the slice.
-/
import DaskArrayModel.Model.SliceSpec
namespace Dask.Lemmas.Slice1dPos
open Dask.Py Dask.Py.PySlice Dask.Slicing

/-! ### arithmetic helpers -/

theorem pyMod_pos (x c : Int) (hc : 0 < c) : pyMod x c = x % c := by
  simp [pyMod, hc]

/-- a non-negative `q` congruent to `s` modulo `c` with `s < c` is at least `s`. -/
theorem mult_in_window {q s c : Int} (hq : 0 ≤ q) (hs : s < c) (h : (q - s) % c = 0) :
    s ≤ q := by
  apply Classical.byContradiction
  intro hlt
  have hlt : q < s := by omega
  have h1 : (q - s + c) % c = (q - s) % c := by simp
  have h2 : (q - s + c) % c = q - s + c := Int.emod_eq_of_lt (by omega) (by omega)
  omega

theorem isum_append (l1 l2 : List Int) : isum (l1 ++ l2) = isum l1 + isum l2 := by
  induction l1 with
  | nil => simp [isum]
  | cons x xs ih => simp [isum, ih]; omega

theorem isum_nonneg (l : List Int) (h : ∀ x ∈ l, 0 ≤ x) : 0 ≤ isum l := by
  induction l with
  | nil => simp [isum]
  | cons x xs ih =>
    have h1 := h x (by simp)
    have h2 := ih (fun y hy => h y (by simp [hy]))
    simp [isum]; omega

/-! ### sorted lists with the same members are equal -/

theorem eq_of_sorted_of_mem_iff : ∀ (l1 l2 : List Int),
    l1.Pairwise (· < ·) → l2.Pairwise (· < ·) → (∀ x, x ∈ l1 ↔ x ∈ l2) → l1 = l2
  | [], [], _, _, _ => rfl
  | [], b :: t2, _, _, h => by have := (h b).2 (by simp); simp at this
  | a :: t1, [], _, _, h => by have := (h a).1 (by simp); simp at this
  | a :: t1, b :: t2, h1, h2, h => by
    rw [List.pairwise_cons] at h1 h2
    have hab : a = b := by
      have ha := (h a).1 (by simp)
      have hb := (h b).2 (by simp)
      rw [List.mem_cons] at ha hb
      rcases ha with ha | ha
      · exact ha
      · rcases hb with hb | hb
        · exact hb.symm
        · have := h1.1 b hb
          have := h2.1 a ha
          omega
    subst hab
    congr 1
    apply eq_of_sorted_of_mem_iff t1 t2 h1.2 h2.2
    intro x
    constructor
    · intro hx
      have := (h x).1 (by simp [hx])
      rw [List.mem_cons] at this
      rcases this with rfl | h'
      · have := h1.1 x hx; omega
      · exact h'
    · intro hx
      have := (h x).2 (by simp [hx])
      rw [List.mem_cons] at this
      rcases this with rfl | h'
      · have := h2.1 x hx; omega
      · exact h'

/-! ### `rangeList` for a positive step -/

theorem mem_rangeList_pos {S T c x : Int} (hc : 0 < c) :
    x ∈ rangeList S T c ↔ S ≤ x ∧ x < T ∧ (x - S) % c = 0 := by
  unfold rangeList rangeLen
  simp only [gt_iff_lt, hc, if_true, List.mem_map, List.mem_range]
  constructor
  · rintro ⟨i, hi, rfl⟩
    by_cases hST : S < T
    · rw [if_pos hST] at hi
      have hi' : (i : Int) ≤ (T - S - 1) / c := by omega
      rw [Int.le_ediv_iff_mul_le hc] at hi'
      have h0 : 0 ≤ (i : Int) * c := Int.mul_nonneg (by omega) (by omega)
      refine ⟨by omega, by omega, ?_⟩
      have : S + (i : Int) * c - S = (i : Int) * c := by omega
      rw [this]; simp
    · rw [if_neg hST] at hi; omega
  · rintro ⟨h1, h2, h3⟩
    have hST : S < T := by omega
    rw [if_pos hST]
    have hdvd : c ∣ (x - S) := Int.dvd_of_emod_eq_zero h3
    have hx : c * ((x - S) / c) = x - S := Int.mul_ediv_cancel' hdvd
    have hq0 : 0 ≤ (x - S) / c := Int.ediv_nonneg (by omega) (by omega)
    have hq1 : (x - S) / c ≤ (T - S - 1) / c := Int.ediv_le_ediv hc (by omega)
    refine ⟨((x - S) / c).toNat, by omega, ?_⟩
    rw [Int.toNat_of_nonneg hq0, Int.mul_comm]
    omega

theorem rangeList_sorted {S T c : Int} (hc : 0 < c) : (rangeList S T c).Pairwise (· < ·) := by
  unfold rangeList
  rw [List.pairwise_map]
  refine List.Pairwise.imp ?_ List.pairwise_lt_range
  intro a b hab
  have : (a : Int) * c < (b : Int) * c := Int.mul_lt_mul_of_pos_right (by omega) hc
  omega

theorem length_rangeList (S T c : Int) : (rangeList S T c).length = rangeLen S T c := by
  simp [rangeList]

theorem mem_map_add (l : List Int) (base x : Int) :
    x ∈ l.map (· + base) ↔ x - base ∈ l := by
  rw [List.mem_map]
  constructor
  · rintro ⟨q, hq, rfl⟩
    have : q + base - base = q := by omega
    rw [this]; exact hq
  · intro h
    exact ⟨x - base, h, by omega⟩

theorem sorted_map_add (l : List Int) (base : Int) (h : l.Pairwise (· < ·)) :
    (l.map (· + base)).Pairwise (· < ·) := by
  rw [List.pairwise_map]
  exact List.Pairwise.imp (fun {a b} hab => by omega) h

/-! ### the specification list `selIn` -/

/-- global positions `p ∈ [lo, lo+len)` with `S ≤ p < E` and `p ≡ S (mod c)`, ascending. -/
def selIn (S E c lo len : Int) : List Int :=
  ((List.range len.toNat).map (fun k : Nat => lo + (k : Int))).filter
    (fun p => decide (S ≤ p) && decide (p < E) && decide ((p - S) % c = 0))

theorem mem_selIn {S E c lo len p : Int} :
    p ∈ selIn S E c lo len ↔ lo ≤ p ∧ p < lo + len ∧ S ≤ p ∧ p < E ∧ (p - S) % c = 0 := by
  unfold selIn
  simp only [List.mem_filter, List.mem_map, List.mem_range, Bool.and_eq_true, decide_eq_true_eq]
  constructor
  · rintro ⟨⟨k, hk, rfl⟩, ⟨h1, h2⟩, h3⟩
    exact ⟨by omega, by omega, h1, h2, h3⟩
  · rintro ⟨h1, h2, h3, h4, h5⟩
    exact ⟨⟨(p - lo).toNat, by omega, by omega⟩, ⟨h3, h4⟩, h5⟩

theorem selIn_sorted (S E c lo len : Int) : (selIn S E c lo len).Pairwise (· < ·) := by
  unfold selIn
  apply List.Pairwise.filter
  rw [List.pairwise_map]
  exact List.Pairwise.imp (fun {a b} hab => by omega) List.pairwise_lt_range

theorem selIn_eq_nil {S E c lo len : Int}
    (h : ∀ p, lo ≤ p → p < lo + len → S ≤ p → p < E → (p - S) % c ≠ 0) :
    selIn S E c lo len = [] := by
  apply List.eq_nil_iff_forall_not_mem.2
  intro p hp
  rw [mem_selIn] at hp
  exact h p hp.1 hp.2.1 hp.2.2.1 hp.2.2.2.1 hp.2.2.2.2

theorem selIn_append (S E c lo l1 l2 : Int) (h1 : 0 ≤ l1) (h2 : 0 ≤ l2) :
    selIn S E c lo (l1 + l2) = selIn S E c lo l1 ++ selIn S E c (lo + l1) l2 := by
  apply eq_of_sorted_of_mem_iff
  · exact selIn_sorted ..
  · rw [List.pairwise_append]
    refine ⟨selIn_sorted .., selIn_sorted .., ?_⟩
    intro a ha b hb
    rw [mem_selIn] at ha hb
    omega
  · intro x
    rw [List.mem_append, mem_selIn, mem_selIn, mem_selIn]
    omega

/-! ### the running state of the `step > 0` loop -/

/-- closed form of the running `start` (relative to the block starting at `base`). -/
def relStart (S base c : Int) : Int := if base ≤ S then S - base else (S - base) % c

/-- loop invariant at the head of the block starting at global position `base`. -/
def Inv (S E c base start stop : Int) : Prop :=
  (stop ≤ 0 ∨ start = relStart S base c) ∧ stop = E - base

theorem relStart_nonneg {S base c : Int} (hc : 0 < c) : 0 ≤ relStart S base c := by
  unfold relStart
  split
  · omega
  · exact Int.emod_nonneg _ (by omega)

theorem inv_step_emit {S E c base start stop len : Int} (hc : 0 < c)
    (hinv : Inv S E c base start stop) (h1 : start < len) (h2 : stop > 0) :
    Inv S E c (base + len) (pyMod (start - len) c) (stop - len) := by
  obtain ⟨hs, rfl⟩ := hinv
  refine ⟨?_, by omega⟩
  rcases hs with hs | hs
  · omega
  · right
    rw [pyMod_pos _ _ hc]
    unfold relStart at hs ⊢
    split at hs
    · rw [if_neg (by omega)]
      congr 1; omega
    · have hnn : 0 ≤ (S - base) % c := Int.emod_nonneg _ (by omega)
      rw [if_neg (by omega), hs, Int.emod_sub_emod]
      congr 1; omega

theorem inv_step_skip {S E c base start stop len : Int} (hc : 0 < c) (hlen : 0 ≤ len)
    (hinv : Inv S E c base start stop) (h : ¬(start < len ∧ stop > 0)) :
    Inv S E c (base + len) (start - len) (stop - len) := by
  obtain ⟨hs, rfl⟩ := hinv
  refine ⟨?_, by omega⟩
  by_cases h2 : E - base ≤ 0
  · left; omega
  · right
    have hs : start = relStart S base c := by omega
    have h1 : len ≤ start := by omega
    unfold relStart at hs ⊢
    split at hs
    · rw [if_pos (by omega)]; omega
    · rw [if_neg (by omega)]
      have hlt : (S - base) % c < c := Int.emod_lt_of_pos _ hc
      have e1 : (S - (base + len)) % c = ((S - base) % c - len) % c := by
        rw [Int.emod_sub_emod]; congr 1; omega
      rw [e1, ← hs]
      exact (Int.emod_eq_of_lt (by omega) (by omega)).symm

/-- the slice emitted for a contributing block, evaluated on that block. -/
theorem sel_block {st sp c len : Int} (h0 : 0 ≤ st) (h1 : st < len) (h2 : 0 < sp) (hc : 0 < c) :
    sel ⟨some st, some (min sp len), some c⟩ len = rangeList st (min sp len) c := by
  have hneg : ¬ (c < 0) := by omega
  have e1 : adjust st len false = st := by
    unfold adjust; simp; omega
  have e2 : adjust (min sp len) len false = min sp len := by
    unfold adjust; simp; omega
  simp [sel, istart, istop, stp, hneg, e1, e2]

theorem block_reads {S E c base start stop len : Int} (hc : 0 < c)
    (hinv : Inv S E c base start stop) (h1 : start < len) (h2 : stop > 0) :
    (sel ⟨some start, some (min stop len), some c⟩ len).map (· + base)
      = selIn S E c base len := by
  obtain ⟨hs, rfl⟩ := hinv
  have hs : start = relStart S base c := by omega
  have h0 : 0 ≤ start := hs ▸ relStart_nonneg hc
  rw [sel_block h0 h1 h2 hc]
  apply eq_of_sorted_of_mem_iff
  · exact sorted_map_add _ _ (rangeList_sorted hc)
  · exact selIn_sorted ..
  · intro x
    rw [mem_map_add, mem_rangeList_pos hc, mem_selIn]
    unfold relStart at hs
    split at hs
    · have e : x - base - start = x - S := by omega
      rw [e]; omega
    · have hlt : (S - base) % c < c := Int.emod_lt_of_pos _ hc
      have e : (x - base - start) % c = (x - S) % c := by
        rw [hs, Int.sub_emod_emod]; congr 1; omega
      rw [e]
      constructor
      · intro h; omega
      · rintro ⟨a1, a2, a3, a4, a5⟩
        have : start ≤ x - base :=
          mult_in_window (c := c) (by omega) (by omega) (by rw [e]; exact a5)
        omega

theorem skip_reads {S E c base start stop len : Int} (hc : 0 < c)
    (hinv : Inv S E c base start stop) (h : ¬(start < len ∧ stop > 0)) :
    selIn S E c base len = [] := by
  obtain ⟨hs, rfl⟩ := hinv
  apply selIn_eq_nil
  intro p p1 p2 p3 p4 p5
  by_cases h2 : E - base ≤ 0
  · omega
  · have hs : start = relStart S base c := by omega
    have h1 : len ≤ start := by omega
    unfold relStart at hs
    split at hs
    · omega
    · have hlt : (S - base) % c < c := Int.emod_lt_of_pos _ hc
      have e : (p - base - start) % c = (p - S) % c := by
        rw [hs, Int.sub_emod_emod]; congr 1; omega
      have : start ≤ p - base :=
        mult_in_window (c := c) (by omega) (by omega) (by rw [e]; exact p5)
      omega

/-! ### plans, block starts -/

theorem planPositions_nil (L : List Int) : planPositions L [] = [] := rfl

theorem planPositions_cons (L : List Int) (p : Nat × PySlice) (ps : List (Nat × PySlice)) :
    planPositions L (p :: ps)
      = (sel p.2 (L.getD p.1 0)).map (· + blockStart L p.1) ++ planPositions L ps := by
  simp [planPositions]

theorem drop_cons_facts {L : List Int} {i : Nat} {len : Int} {rest : List Int}
    (h : L.drop i = len :: rest) :
    L.getD i 0 = len ∧ L.drop (i + 1) = rest ∧ blockStart L (i + 1) = blockStart L i + len := by
  have hget : L[i]? = some len := by
    have := List.getElem?_drop (xs := L) (i := i) (j := 0)
    rw [h] at this
    simpa using this.symm
  refine ⟨?_, ?_, ?_⟩
  · rw [List.getD_eq_getElem?_getD, hget]; rfl
  · have : L.drop (i + 1) = (L.drop i).drop 1 := by simp [List.drop_drop]
    rw [this, h]; rfl
  · unfold blockStart
    rw [List.take_add_one, hget, isum_append]
    simp [isum]

/-- **Main loop lemma**: started in a state satisfying the invariant at block `i`, the
`step > 0` loop over the blocks `lens` reads exactly the selected positions lying in those
blocks. -/
theorem loopPos_reads (L : List Int) (S E c : Int) (hc : 0 < c) :
    ∀ (lens : List Int) (i : Nat) (tail : List Int) (start stop : Int),
      L.drop i = lens ++ tail → (∀ x ∈ lens, 0 ≤ x) →
      Inv S E c (blockStart L i) start stop →
      planPositions L (loopPos c lens i start stop)
        = selIn S E c (blockStart L i) (isum lens)
  | [], i, tail, start, stop, _, _, _ => by
    simp [loopPos, planPositions_nil, isum, selIn]
  | len :: rest, i, tail, start, stop, hd, hnn, hinv => by
    obtain ⟨hg, hd', hb⟩ := drop_cons_facts (rest := rest ++ tail) (by simpa using hd)
    have hlen : 0 ≤ len := hnn len (by simp)
    have hrest : ∀ x ∈ rest, 0 ≤ x := fun x hx => hnn x (by simp [hx])
    have hsum : 0 ≤ isum rest := isum_nonneg _ hrest
    have happ : selIn S E c (blockStart L i) (isum (len :: rest))
        = selIn S E c (blockStart L i) len ++ selIn S E c (blockStart L i + len) (isum rest) := by
      simp only [isum]; exact selIn_append _ _ _ _ _ _ hlen hsum
    rw [happ]
    unfold loopPos
    by_cases hcond : start < len ∧ stop > 0
    · rw [if_pos hcond, planPositions_cons]
      have ih := loopPos_reads L S E c hc rest (i + 1) tail _ _ hd' hrest
        (hb ▸ inv_step_emit hc hinv hcond.1 hcond.2)
      rw [ih, hb]
      simp only [hg]
      rw [block_reads hc hinv hcond.1 hcond.2]
    · rw [if_neg hcond]
      have ih := loopPos_reads L S E c hc rest (i + 1) tail _ _ hd' hrest
        (hb ▸ inv_step_skip hc hlen hinv hcond)
      rw [ih, hb, skip_reads hc hinv hcond]
      rfl

/-! ### `cumsum`, `bisect` -/

theorem cumsumFrom_length : ∀ (l : List Int) (acc : Int), (cumsumFrom acc l).length = l.length
  | [], _ => rfl
  | x :: xs, acc => by simp [cumsumFrom, cumsumFrom_length xs]

theorem cumsum_length (l : List Int) : (cumsum l).length = l.length := cumsumFrom_length l 0

theorem cumsumFrom_getD : ∀ (l : List Int) (acc : Int) (j : Nat), j < l.length →
    (cumsumFrom acc l).getD j 0 = acc + isum (l.take (j + 1))
  | [], _, _, h => by simp at h
  | x :: xs, acc, 0, _ => by simp [cumsumFrom, isum]
  | x :: xs, acc, j + 1, h => by
    have := cumsumFrom_getD xs (acc + x) j (by simpa using h)
    simp only [cumsumFrom, List.getD_cons_succ, this, List.take_succ_cons, isum]
    omega

theorem cumsum_getD (l : List Int) (j : Nat) (h : j < l.length) :
    (cumsum l).getD j 0 = blockStart l (j + 1) := by
  unfold cumsum blockStart
  rw [cumsumFrom_getD l 0 j h]; omega

theorem bisectRight_le : ∀ (l : List Int) (x : Int), bisectRight l x ≤ l.length
  | [], _ => by simp [bisectRight]
  | y :: ys, x => by
    unfold bisectRight
    split
    · omega
    · have := bisectRight_le ys x; simp; omega

theorem bisectRight_spec : ∀ (l : List Int) (x : Int) (j : Nat),
    j < bisectRight l x → l.getD j 0 ≤ x
  | [], _, _, h => by simp [bisectRight] at h
  | y :: ys, x, j, h => by
    unfold bisectRight at h
    split at h
    · omega
    · cases j with
      | zero => simp; omega
      | succ j => simpa using bisectRight_spec ys x j (by omega)

theorem bisectLeft_le : ∀ (l : List Int) (x : Int), bisectLeft l x ≤ l.length
  | [], _ => by simp [bisectLeft]
  | y :: ys, x => by
    unfold bisectLeft
    split
    · omega
    · have := bisectLeft_le ys x; simp; omega

theorem bisectLeft_spec : ∀ (l : List Int) (x : Int),
    bisectLeft l x < l.length → x ≤ l.getD (bisectLeft l x) 0
  | [], _, h => by simp at h
  | y :: ys, x, h => by
    unfold bisectLeft at h ⊢
    split
    · simpa
    · rename_i hxy
      rw [if_neg hxy] at h
      simpa using bisectLeft_spec ys x (by simpa using h)

/-! ### `sel` on a single block, `finish`, `sortByKey` -/

theorem getD_nonneg {L : List Int} (hl : ∀ c ∈ L, 0 ≤ c) (k : Nat) : 0 ≤ L.getD k 0 := by
  rw [List.getD_eq_getElem?_getD]
  cases h : L[k]? with
  | none => simp
  | some v => exact hl v (List.mem_of_getElem? h)

theorem sel_colon (n : Int) : sel colon n = rangeList 0 n 1 := by
  simp [sel, colon, istart, istop, stp]

theorem sel_full {n : Int} (hn : 0 ≤ n) : sel ⟨some 0, some n, some 1⟩ n = sel colon n := by
  have e1 : adjust 0 n false = 0 := by unfold adjust; simp; omega
  have e2 : adjust n n false = n := by unfold adjust; simp; omega
  simp [sel, colon, istart, istop, stp, e1, e2]

theorem sel_empty {n : Int} (hn : 0 ≤ n) : sel ⟨some 0, some 0, some 1⟩ n = [] := by
  have e1 : adjust 0 n false = 0 := by unfold adjust; simp; omega
  simp [sel, istart, istop, stp, e1, rangeList, rangeLen]

/-- the rewriting step of `finish` on one entry. -/
def fin1 (L : List Int) (p : Nat × PySlice) : Nat × PySlice :=
  if p.2 = ⟨some 0, some (L.getD p.1 0), some 1⟩ then (p.1, colon) else p

theorem finish_nil (L : List Int) : finish L [] = [(0, ⟨some 0, some 0, some 1⟩)] := by
  simp [finish]

theorem finish_ne_nil (L : List Int) (d : List (Nat × PySlice)) (h : d ≠ []) :
    finish L d = d.map (fin1 L) := by
  unfold finish
  have hf : (fun (x : Nat × PySlice) => match x with
      | (k, v) => if v = ⟨some 0, some (L.getD k 0), some 1⟩ then (k, colon) else (k, v))
      = fin1 L := by
    funext ⟨k, v⟩; simp [fin1]
  simp only [hf]
  rw [if_neg]
  simpa using h

theorem fin1_fst (L : List Int) (p : Nat × PySlice) : (fin1 L p).1 = p.1 := by
  unfold fin1; split <;> rfl

theorem fin1_sel {L : List Int} (hl : ∀ c ∈ L, 0 ≤ c) (p : Nat × PySlice) :
    sel (fin1 L p).2 (L.getD p.1 0) = sel p.2 (L.getD p.1 0) := by
  unfold fin1
  split
  · rename_i h
    rw [h]; exact (sel_full (getD_nonneg hl _)).symm
  · rfl

theorem planPositions_map_fin1 {L : List Int} (hl : ∀ c ∈ L, 0 ≤ c) :
    ∀ d : List (Nat × PySlice), planPositions L (d.map (fin1 L)) = planPositions L d
  | [] => rfl
  | p :: ps => by
    rw [List.map_cons, planPositions_cons, planPositions_cons, planPositions_map_fin1 hl ps,
      fin1_fst, fin1_sel hl]

theorem planPositions_finish {L : List Int} (hl : ∀ c ∈ L, 0 ≤ c) (d : List (Nat × PySlice)) :
    planPositions L (finish L d) = planPositions L d := by
  by_cases h : d = []
  · subst h
    rw [finish_nil, planPositions_cons, planPositions_nil, sel_empty (getD_nonneg hl 0)]
    rfl
  · rw [finish_ne_nil L d h, planPositions_map_fin1 hl]

theorem planLengths_finish {L : List Int} (hl : ∀ c ∈ L, 0 ≤ c) (d : List (Nat × PySlice))
    (h : d ≠ []) : planLengths L (finish L d) = planLengths L d := by
  rw [finish_ne_nil L d h]
  unfold planLengths
  rw [List.map_map]
  apply List.map_congr_left
  intro p _
  simp only [Function.comp, fin1_fst, fin1_sel hl]

theorem keys_finish (L : List Int) (d : List (Nat × PySlice)) :
    (finish L d).map (·.1) = if d = [] then [0] else d.map (·.1) := by
  by_cases h : d = []
  · subst h; simp [finish_nil]
  · rw [finish_ne_nil L d h, if_neg h, List.map_map]
    apply List.map_congr_left
    intro p _
    simp [fin1_fst]

theorem sortByKey_sorted : ∀ (l : List (Nat × PySlice)),
    (l.map (·.1)).Pairwise (· < ·) → sortByKey l = l
  | [], _ => rfl
  | p :: ps, h => by
    rw [List.map_cons, List.pairwise_cons] at h
    have ih := sortByKey_sorted ps h.2
    have : sortByKey (p :: ps) = insertByKey p (sortByKey ps) := rfl
    rw [this, ih]
    cases ps with
    | nil => rfl
    | cons q qs =>
      have := h.1 q.1 (by simp)
      unfold insertByKey
      rw [if_pos (by omega)]

theorem loopPos_keys (c : Int) : ∀ (lens : List Int) (i : Nat) (start stop : Int),
    ((loopPos c lens i start stop).map (·.1)).Pairwise (· < ·) ∧
      ∀ p ∈ loopPos c lens i start stop, i ≤ p.1 ∧ p.1 < i + lens.length
  | [], _, _, _ => by simp [loopPos]
  | len :: rest, i, start, stop => by
    unfold loopPos
    split
    · have ih := loopPos_keys c rest (i + 1) (pyMod (start - len) c) (stop - len)
      refine ⟨?_, ?_⟩
      · rw [List.map_cons, List.pairwise_cons]
        refine ⟨?_, ih.1⟩
        intro k hk
        rw [List.mem_map] at hk
        obtain ⟨p, hp, rfl⟩ := hk
        have := ih.2 p hp
        simp only; omega
      · intro p hp
        rw [List.mem_cons] at hp
        rcases hp with rfl | hp
        · simp
        · have := ih.2 p hp
          simp only [List.length_cons]; omega
    · have ih := loopPos_keys c rest (i + 1) (start - len) (stop - len)
      refine ⟨ih.1, ?_⟩
      intro p hp
      have := ih.2 p hp
      simp only [List.length_cons]; omega

/-! ### `normalize_slice` and the way `_slice_1d` re-reads it -/

theorem istart_bounds (s : PySlice) (n : Int) (hn : 0 ≤ n) (hs : 0 < s.stp) :
    0 ≤ s.istart n ∧ s.istart n ≤ n := by
  have hneg : ¬ s.stp < 0 := by omega
  unfold istart adjust
  cases s.start with
  | none => simp [hneg]; omega
  | some v => simp only [hneg, decide_false, Bool.false_eq_true, if_false]; split <;> split <;> omega

theorem istop_bounds (s : PySlice) (n : Int) (hn : 0 ≤ n) (hs : 0 < s.stp) :
    0 ≤ s.istop n ∧ s.istop n ≤ n := by
  have hneg : ¬ s.stp < 0 := by omega
  unfold istop adjust
  cases s.stop with
  | none => simp [hneg]; omega
  | some v => simp only [hneg, decide_false, Bool.false_eq_true, if_false]; split <;> split <;> omega

theorem ns_step (s : PySlice) (dim : Int) (hs : 0 < s.stp) :
    (normalizeSlice s dim).step = if s.stp = 1 then none else some s.stp := by
  unfold normalizeSlice
  simp only [gt_iff_lt, hs, if_true]

theorem ns_start (s : PySlice) (dim : Int) (hs : 0 < s.stp) :
    (normalizeSlice s dim).start = none ∧ s.istart dim = 0 ∨
      (normalizeSlice s dim).start = some (s.istart dim) := by
  unfold normalizeSlice
  simp only [gt_iff_lt, hs, if_true]
  by_cases h1 : s.istart dim = 0 <;> simp [h1]

theorem ns_stop (s : PySlice) (dim : Int) (hd : 0 ≤ dim) (hs : 0 < s.stp) :
    (normalizeSlice s dim).stop = none ∧ s.istop dim = dim ∨
      (normalizeSlice s dim).stop = some (max (s.istart dim) (s.istop dim)) := by
  obtain ⟨a0, a1⟩ := istart_bounds s dim hd hs
  obtain ⟨b0, b1⟩ := istop_bounds s dim hd hs
  unfold normalizeSlice
  simp only [gt_iff_lt, hs, if_true]
  by_cases h1 : s.istart dim = 0 <;> by_cases h2 : s.istop dim ≥ dim <;>
    by_cases h3 : s.istop dim < s.istart dim <;>
    simp [h1, h2, h3] <;> omega

/-- `_slice_1d` on a non-trivial positive-step index whose fields denote `a`, `e`, `c`. -/
theorem slice1d_pos_eq (dim : Int) (L : List Int) (index : PySlice) (c a e : Int)
    (hcol : index ≠ colon) (hc : 0 < c)
    (hstep : index.step = if c = 1 then none else some c)
    (hst : index.start = none ∧ a = 0 ∨ index.start = some a)
    (hsp : index.stop = none ∧ e = dim ∨ index.stop = some e)
    (ha : 0 ≤ a) (he : 0 ≤ e) :
    slice1d dim L index =
      finish L (loopPos c
        ((L.drop (bisectRight (cumsum L) a)).take
          (min (bisectLeft (cumsum L) e + 1) L.length - bisectRight (cumsum L) a))
        (bisectRight (cumsum L) a)
        (a - (if bisectRight (cumsum L) a > 0
                then (cumsum L).getD (bisectRight (cumsum L) a - 1) 0 else 0))
        (e - (if bisectRight (cumsum L) a > 0
                then (cumsum L).getD (bisectRight (cumsum L) a - 1) 0 else 0))) := by
  unfold slice1d
  rw [if_neg hcol]
  obtain ⟨st, sp, stp⟩ := index
  simp only at hstep hst hsp
  subst hstep
  have hc0 : ¬ c = 0 := by omega
  have ha' : ¬ a < 0 := by omega
  have he' : ¬ e < 0 := by omega
  rcases hst with ⟨rfl, rfl⟩ | rfl <;> rcases hsp with ⟨rfl, rfl⟩ | rfl <;>
    by_cases h1 : c = 1 <;> simp [h1, hc, ha', he']

/-! ### the `bisect` jump to `istart` and the `istop` cut -/

theorem blockStart_zero (L : List Int) : blockStart L 0 = 0 := by simp [blockStart, isum]

theorem blockStart_add (L : List Int) (i k : Nat) :
    blockStart L (i + k) = blockStart L i + isum ((L.drop i).take k) := by
  unfold blockStart
  rw [List.take_add, isum_append]

theorem isum_split (L : List Int) (i k : Nat) :
    isum L = blockStart L i + isum ((L.drop i).take k) + isum ((L.drop i).drop k) := by
  unfold blockStart
  conv => lhs; rw [← List.take_append_drop i L, isum_append,
    ← List.take_append_drop k (L.drop i), isum_append]
  omega

theorem off_eq (L : List Int) (i0 : Nat) (h : i0 ≤ L.length) :
    (if i0 > 0 then (cumsum L).getD (i0 - 1) 0 else 0) = blockStart L i0 := by
  by_cases h0 : i0 > 0
  · rw [if_pos h0, cumsum_getD L (i0 - 1) (by omega)]
    congr 1; omega
  · have : i0 = 0 := by omega
    subst this; simp [blockStart_zero]

theorem blockStart_istart_le (L : List Int) (a : Int) (ha : 0 ≤ a) :
    blockStart L (bisectRight (cumsum L) a) ≤ a := by
  have hle := bisectRight_le (cumsum L) a
  rw [cumsum_length] at hle
  rw [← off_eq L _ hle]
  split
  · exact bisectRight_spec (cumsum L) a _ (by omega)
  · exact ha

/-- blocks before `istart` and from `istop` on contain no selected position. -/
theorem region (L : List Int) (a e c : Int) (hl : ∀ x ∈ L, 0 ≤ x) (ha : 0 ≤ a) :
    selIn a e c 0 (isum L)
      = selIn a e c (blockStart L (bisectRight (cumsum L) a))
          (isum ((L.drop (bisectRight (cumsum L) a)).take
            (min (bisectLeft (cumsum L) e + 1) L.length - bisectRight (cumsum L) a))) := by
  have hi0 := bisectRight_le (cumsum L) a
  rw [cumsum_length] at hi0
  have hb0 := blockStart_istart_le L a ha
  generalize hi0d : bisectRight (cumsum L) a = i0 at *
  generalize hkd : min (bisectLeft (cumsum L) e + 1) L.length - i0 = k
  have hpre : 0 ≤ blockStart L i0 :=
    isum_nonneg _ (fun x hx => hl x (List.mem_of_mem_take hx))
  have hmid : 0 ≤ isum ((L.drop i0).take k) :=
    isum_nonneg _ (fun x hx => hl x (List.mem_of_mem_drop (List.mem_of_mem_take hx)))
  have htail : 0 ≤ isum ((L.drop i0).drop k) :=
    isum_nonneg _ (fun x hx => hl x (List.mem_of_mem_drop (List.mem_of_mem_drop hx)))
  rw [isum_split L i0 k, selIn_append _ _ _ _ _ _ (by omega) htail,
    selIn_append _ _ _ _ _ _ hpre hmid]
  have h1 : selIn a e c 0 (blockStart L i0) = [] := by
    apply selIn_eq_nil; intro p _ _ _ _; omega
  have h3 : selIn a e c (0 + (blockStart L i0 + isum ((L.drop i0).take k)))
      (isum ((L.drop i0).drop k)) = [] := by
    by_cases ht : (L.drop i0).drop k = []
    · rw [ht]; apply selIn_eq_nil; intro p _ _ _ _; simp [isum] at *; omega
    · have hlen : k < (L.drop i0).length := by
        apply Classical.byContradiction
        intro hk
        exact ht (List.drop_eq_nil_of_le (by omega))
      rw [List.length_drop] at hlen
      have hbl : bisectLeft (cumsum L) e + 1 < L.length := by omega
      have hspec := bisectLeft_spec (cumsum L) e (by rw [cumsum_length]; omega)
      rw [cumsum_getD L _ (by omega)] at hspec
      rw [← blockStart_add]
      by_cases hcase : i0 ≤ bisectLeft (cumsum L) e + 1
      · have : i0 + k = bisectLeft (cumsum L) e + 1 := by omega
        rw [this]
        apply selIn_eq_nil; intro p _ _ _ _; omega
      · have hle : (cumsum L).getD (bisectLeft (cumsum L) e) 0 ≤ a :=
          bisectRight_spec (cumsum L) a _ (by omega)
        rw [cumsum_getD L _ (by omega)] at hle
        apply selIn_eq_nil; intro p _ _ _ _; omega
  rw [h1, h3]
  simp

/-! ### the whole-axis selection as a `selIn` -/

theorem sel_eq_selIn (s : PySlice) (dim : Int) (hd : 0 ≤ dim) (hs : 0 < s.stp) :
    sel s dim = selIn (s.istart dim) (max (s.istart dim) (s.istop dim)) s.stp 0 dim := by
  obtain ⟨a0, a1⟩ := istart_bounds s dim hd hs
  obtain ⟨b0, b1⟩ := istop_bounds s dim hd hs
  unfold sel
  apply eq_of_sorted_of_mem_iff
  · exact rangeList_sorted hs
  · exact selIn_sorted ..
  · intro x
    rw [mem_rangeList_pos hs, mem_selIn]
    omega

/-! ### the `index == slice(None)` fast path -/

theorem colon_block {E base len : Int} (h0 : 0 ≤ base) (h1 : base + len ≤ E) :
    (sel colon len).map (· + base) = selIn 0 E 1 base len := by
  rw [sel_colon]
  apply eq_of_sorted_of_mem_iff
  · exact sorted_map_add _ _ (rangeList_sorted (by omega))
  · exact selIn_sorted ..
  · intro x
    rw [mem_map_add, mem_rangeList_pos (by omega), mem_selIn]
    omega

theorem colon_reads (L : List Int) (E : Int) :
    ∀ (lens : List Int) (i : Nat) (tail : List Int),
      L.drop i = lens ++ tail → (∀ x ∈ lens, 0 ≤ x) → 0 ≤ blockStart L i →
      blockStart L i + isum lens ≤ E →
      planPositions L ((List.range' i lens.length).map (fun j => (j, colon)))
        = selIn 0 E 1 (blockStart L i) (isum lens)
  | [], i, tail, _, _, _, _ => by
    simp [planPositions_nil, isum, selIn]
  | len :: rest, i, tail, hd, hnn, h0, hE => by
    obtain ⟨hg, hd', hb⟩ := drop_cons_facts (rest := rest ++ tail) (by simpa using hd)
    have hlen : 0 ≤ len := hnn len (by simp)
    have hrest : ∀ x ∈ rest, 0 ≤ x := fun x hx => hnn x (by simp [hx])
    have hsum : 0 ≤ isum rest := isum_nonneg _ hrest
    simp only [isum] at hE ⊢
    have ih := colon_reads L E rest (i + 1) tail hd' hrest (by omega) (by omega)
    rw [selIn_append _ _ _ _ _ _ hlen hsum, List.length_cons, List.range'_succ, List.map_cons,
      planPositions_cons, ih, hb]
    simp only [hg]
    rw [colon_block (E := E) h0 (by omega)]

/-! ### main theorems -/

theorem finish_keys_sorted (L : List Int) (d : List (Nat × PySlice))
    (h : (d.map (·.1)).Pairwise (· < ·)) : ((finish L d).map (·.1)).Pairwise (· < ·) := by
  rw [keys_finish]
  split
  · simp
  · exact h

/-- facts about a normalized positive-step slice equal to `slice(None)`. -/
theorem colon_facts (s : PySlice) (dim : Int) (hd : 0 ≤ dim) (hs : 0 < s.stp)
    (hcol : normalizeSlice s dim = colon) :
    s.istart dim = 0 ∧ s.istop dim = dim ∧ s.stp = 1 := by
  have h1 := ns_step s dim hs
  have h2 := ns_start s dim hs
  have h3 := ns_stop s dim hd hs
  rw [hcol] at h1 h2 h3
  simp only [colon] at h1 h2 h3
  refine ⟨?_, ?_, ?_⟩
  · rcases h2 with h2 | h2
    · exact h2.2
    · simp at h2
  · rcases h3 with h3 | h3
    · exact h3.2
    · simp at h3
  · by_cases h : s.stp = 1
    · exact h
    · simp [h] at h1

/-- the shape of the plan when the normalized index is not `slice(None)`. -/
theorem slice1d_norm_pos (L : List Int) (s : PySlice) (hl : ∀ c ∈ L, 0 ≤ c) (hs : 0 < s.stp)
    (hcol : normalizeSlice s (isum L) ≠ colon) :
    slice1d (isum L) L (normalizeSlice s (isum L)) =
      finish L (loopPos s.stp
        ((L.drop (bisectRight (cumsum L) (s.istart (isum L)))).take
          (min (bisectLeft (cumsum L) (max (s.istart (isum L)) (s.istop (isum L))) + 1) L.length
            - bisectRight (cumsum L) (s.istart (isum L))))
        (bisectRight (cumsum L) (s.istart (isum L)))
        (s.istart (isum L) - blockStart L (bisectRight (cumsum L) (s.istart (isum L))))
        (max (s.istart (isum L)) (s.istop (isum L))
          - blockStart L (bisectRight (cumsum L) (s.istart (isum L))))) := by
  have hd : 0 ≤ isum L := isum_nonneg L hl
  obtain ⟨a0, a1⟩ := istart_bounds s _ hd hs
  obtain ⟨b0, b1⟩ := istop_bounds s _ hd hs
  have hsp : (normalizeSlice s (isum L)).stop = none ∧
        max (s.istart (isum L)) (s.istop (isum L)) = isum L ∨
      (normalizeSlice s (isum L)).stop = some (max (s.istart (isum L)) (s.istop (isum L))) := by
    rcases ns_stop s _ hd hs with h | h
    · left; exact ⟨h.1, by omega⟩
    · right; exact h
  rw [slice1d_pos_eq (isum L) L _ s.stp (s.istart (isum L))
    (max (s.istart (isum L)) (s.istop (isum L))) hcol hs (ns_step s _ hs) (ns_start s _ hs) hsp
    a0 (by omega)]
  have hi0 := bisectRight_le (cumsum L) (s.istart (isum L))
  rw [cumsum_length] at hi0
  rw [off_eq L _ hi0]

theorem slice1d_partition_pos (lengths : List Int) (s : PySlice)
    (hl : ∀ c ∈ lengths, 0 ≤ c) (hs : 0 < s.stp) :
    planPositions lengths (sortByKey (slice1d (isum lengths) lengths (normalizeSlice s (isum lengths))))
      = sel s (isum lengths) := by
  have hd : 0 ≤ isum lengths := isum_nonneg lengths hl
  obtain ⟨a0, a1⟩ := istart_bounds s _ hd hs
  by_cases hcol : normalizeSlice s (isum lengths) = colon
  · obtain ⟨ha, hb, hc⟩ := colon_facts s _ hd hs hcol
    rw [hcol, sel_eq_selIn s _ hd hs, ha, hb, hc]
    have hplan : slice1d (isum lengths) lengths colon
        = (List.range' 0 lengths.length).map (fun j => (j, colon)) := by
      simp [slice1d, List.range_eq_range']
    rw [hplan, sortByKey_sorted]
    · have := colon_reads lengths (isum lengths) lengths 0 [] (by simp) hl
        (by simp [blockStart_zero]) (by simp [blockStart_zero])
      rw [this, blockStart_zero]
      congr 1; omega
    · rw [List.map_map]
      have : ((fun (p : Nat × PySlice) => p.1) ∘ fun j => (j, colon)) = id := rfl
      rw [this, List.map_id]
      exact List.pairwise_lt_range'
  · rw [slice1d_norm_pos lengths s hl hs hcol]
    rw [sortByKey_sorted _ (finish_keys_sorted _ _ (loopPos_keys _ _ _ _ _).1),
      planPositions_finish hl]
    rw [loopPos_reads lengths (s.istart (isum lengths))
      (max (s.istart (isum lengths)) (s.istop (isum lengths))) s.stp hs _ _
      ((lengths.drop (bisectRight (cumsum lengths) (s.istart (isum lengths)))).drop
        (min (bisectLeft (cumsum lengths)
          (max (s.istart (isum lengths)) (s.istop (isum lengths))) + 1) lengths.length
            - bisectRight (cumsum lengths) (s.istart (isum lengths))))
      _ _ (List.take_append_drop _ _).symm
      (fun x hx => hl x (List.mem_of_mem_drop (List.mem_of_mem_take hx)))]
    · rw [sel_eq_selIn s _ hd hs, region lengths _ _ _ hl a0]
    · have := blockStart_istart_le lengths _ a0
      refine ⟨Or.inr ?_, rfl⟩
      unfold relStart
      rw [if_pos this]

example : planPositions [15,14,13] (sortByKey (slice1d 42 [15,14,13]
    (normalizeSlice ⟨some 10, some 41, some 3⟩ 42))) = sel ⟨some 10, some 41, some 3⟩ 42 := by
  decide

example : sel ⟨some 10, some 41, some 3⟩ 42 = [10, 13, 16, 19, 22, 25, 28, 31, 34, 37, 40] := by
  decide

/-! ### block numbers -/

theorem slice1d_keys_pos (lengths : List Int) (s : PySlice)
    (hl : ∀ c ∈ lengths, 0 ≤ c) (hs : 0 < s.stp) :
    let plan := slice1d (isum lengths) lengths (normalizeSlice s (isum lengths))
    List.Pairwise (· < ·) (plan.map (·.1)) ∧ ∀ p ∈ plan, p.1 < max 1 lengths.length := by
  intro plan
  by_cases hcol : normalizeSlice s (isum lengths) = colon
  · have hplan : plan = (List.range' 0 lengths.length).map (fun j => (j, colon)) := by
      simp [plan, hcol, slice1d, List.range_eq_range']
    rw [hplan]
    refine ⟨?_, ?_⟩
    · rw [List.map_map]
      have : ((fun (p : Nat × PySlice) => p.1) ∘ fun j => (j, colon)) = id := rfl
      rw [this, List.map_id]
      exact List.pairwise_lt_range'
    · intro p hp
      rw [List.mem_map] at hp
      obtain ⟨j, hj, rfl⟩ := hp
      rw [List.mem_range'_1] at hj
      simp only; omega
  · have hplan := slice1d_norm_pos lengths s hl hs hcol
    simp only [plan]
    rw [hplan]
    have hk := loopPos_keys s.stp
      ((lengths.drop (bisectRight (cumsum lengths) (s.istart (isum lengths)))).take
        (min (bisectLeft (cumsum lengths)
          (max (s.istart (isum lengths)) (s.istop (isum lengths))) + 1) lengths.length
            - bisectRight (cumsum lengths) (s.istart (isum lengths))))
      (bisectRight (cumsum lengths) (s.istart (isum lengths)))
      (s.istart (isum lengths)
        - blockStart lengths (bisectRight (cumsum lengths) (s.istart (isum lengths))))
      (max (s.istart (isum lengths)) (s.istop (isum lengths))
        - blockStart lengths (bisectRight (cumsum lengths) (s.istart (isum lengths))))
    refine ⟨finish_keys_sorted _ _ hk.1, ?_⟩
    intro p hp
    have hp' : p.1 ∈ (finish lengths _).map (·.1) := List.mem_map_of_mem hp
    rw [keys_finish] at hp'
    split at hp'
    · simp at hp'; omega
    · rw [List.mem_map] at hp'
      obtain ⟨q, hq, hqe⟩ := hp'
      have := hk.2 q hq
      rw [List.length_take, List.length_drop] at this
      omega

/-! ### `new_blockdim` -/

theorem ceilDiv_rangeLen {st T c : Int} (hc : 0 < c) (h : -c < T - st) :
    ceilDiv (T - st) c = (rangeLen st T c : Int) := by
  unfold ceilDiv pyDiv rangeLen
  simp only [gt_iff_lt, hc, if_true]
  by_cases hlt : st < T
  · rw [if_pos hlt]
    have e1 := Int.emod_add_mul_ediv (T - st - 1) c
    have e2 := Int.emod_nonneg (T - st - 1) (by omega : c ≠ 0)
    have e3 := Int.emod_lt_of_pos (T - st - 1) hc
    have hq : 0 ≤ (T - st - 1) / c := Int.ediv_nonneg (by omega) (by omega)
    have key : (-(T - st)) / c = -((T - st - 1) / c) - 1 ∧
        (-(T - st)) % c = c - (T - st - 1) % c - 1 := by
      rw [Int.ediv_emod_unique hc]
      refine ⟨?_, by omega, by omega⟩
      rw [Int.mul_sub, Int.mul_neg, Int.mul_one]
      omega
    rw [key.1]
    omega
  · rw [if_neg hlt, Int.ediv_eq_zero_of_lt (by omega) (by omega)]
    simp

theorem emit_len {S E c base start stop len : Int} (hc : 0 < c)
    (hinv : Inv S E c base start stop) (hSE : S ≤ E) (h1 : start < len) (h2 : stop > 0) :
    ceilDiv (min stop len - start) c
      = ((sel ⟨some start, some (min stop len), some c⟩ len).length : Int) := by
  obtain ⟨hs, rfl⟩ := hinv
  have hs : start = relStart S base c := by omega
  have h0 : 0 ≤ start := hs ▸ relStart_nonneg hc
  rw [sel_block h0 h1 h2 hc, length_rangeList]
  apply ceilDiv_rangeLen hc
  unfold relStart at hs
  split at hs
  · omega
  · have hlt : (S - base) % c < c := Int.emod_lt_of_pos _ hc
    omega

/-- what `new_blockdim` computes for one plan entry. -/
def entryLen (p : Nat × PySlice) : Int :=
  ceilDiv (p.2.stop.getD 0 - p.2.start.getD 0) (p.2.step.getD 1)

theorem loopPos_entries (L : List Int) (S E c : Int) (hc : 0 < c) (hSE : S ≤ E) :
    ∀ (lens : List Int) (i : Nat) (tail : List Int) (start stop : Int),
      L.drop i = lens ++ tail → (∀ x ∈ lens, 0 ≤ x) →
      Inv S E c (blockStart L i) start stop →
      ∀ p ∈ loopPos c lens i start stop,
        p.2.start ≠ none ∧ entryLen p = ((sel p.2 (L.getD p.1 0)).length : Int)
  | [], i, tail, start, stop, _, _, _ => by simp [loopPos]
  | len :: rest, i, tail, start, stop, hd, hnn, hinv => by
    obtain ⟨hg, hd', hb⟩ := drop_cons_facts (rest := rest ++ tail) (by simpa using hd)
    have hlen : 0 ≤ len := hnn len (by simp)
    have hrest : ∀ x ∈ rest, 0 ≤ x := fun x hx => hnn x (by simp [hx])
    unfold loopPos
    by_cases hcond : start < len ∧ stop > 0
    · rw [if_pos hcond]
      have ih := loopPos_entries L S E c hc hSE rest (i + 1) tail _ _ hd' hrest
        (hb ▸ inv_step_emit hc hinv hcond.1 hcond.2)
      intro p hp
      rw [List.mem_cons] at hp
      rcases hp with rfl | hp
      · refine ⟨by simp, ?_⟩
        simp only [entryLen, Option.getD_some, hg]
        exact emit_len hc hinv hSE hcond.1 hcond.2
      · exact ih p hp
    · rw [if_neg hcond]
      exact loopPos_entries L S E c hc hSE rest (i + 1) tail _ _ hd' hrest
        (hb ▸ inv_step_skip hc hlen hinv hcond)

theorem colon_lengths (L : List Int) :
    ∀ (lens : List Int) (i : Nat) (tail : List Int),
      L.drop i = lens ++ tail → (∀ x ∈ lens, 0 ≤ x) →
      planLengths L ((List.range' i lens.length).map (fun j => (j, colon))) = lens
  | [], i, tail, _, _ => by simp [planLengths]
  | len :: rest, i, tail, hd, hnn => by
    obtain ⟨hg, hd', hb⟩ := drop_cons_facts (rest := rest ++ tail) (by simpa using hd)
    have hlen : 0 ≤ len := hnn len (by simp)
    have hrest : ∀ x ∈ rest, 0 ≤ x := fun x hx => hnn x (by simp [hx])
    have ih := colon_lengths L rest (i + 1) tail hd' hrest
    unfold planLengths at ih ⊢
    rw [List.length_cons, List.range'_succ, List.map_cons, List.map_cons, ih]
    simp only [hg, sel_colon, length_rangeList]
    congr 1
    unfold rangeLen
    simp
    split <;> omega

/-- the un-rewriting step of `new_blockdim` undoes the rewriting step of `finish`. -/
theorem unfin1 (L : List Int) (p : Nat × PySlice) (hp : p.2.start ≠ none) :
    (if (fin1 L p).2 = colon then (⟨some 0, some (L.getD (fin1 L p).1 0), some 1⟩ : PySlice)
      else (fin1 L p).2) = p.2 := by
  unfold fin1
  by_cases h : p.2 = ⟨some 0, some (L.getD p.1 0), some 1⟩
  · rw [if_pos h]; simp [h]
  · rw [if_neg h]
    have : p.2 ≠ colon := by
      intro hc; rw [hc] at hp; exact hp rfl
    rw [if_neg this]

theorem newBlockdim_eq_planLengths_pos (lengths : List Int) (s : PySlice)
    (hl : ∀ c ∈ lengths, 0 ≤ c) (hs : 0 < s.stp) :
    newBlockdim (isum lengths) lengths (normalizeSlice s (isum lengths))
      = planLengths lengths
          (sortByKey (slice1d (isum lengths) lengths (normalizeSlice s (isum lengths)))) := by
  have hd : 0 ≤ isum lengths := isum_nonneg lengths hl
  obtain ⟨a0, a1⟩ := istart_bounds s _ hd hs
  by_cases hcol : normalizeSlice s (isum lengths) = colon
  · unfold newBlockdim
    rw [if_pos hcol, hcol]
    have hplan : slice1d (isum lengths) lengths colon
        = (List.range' 0 lengths.length).map (fun j => (j, colon)) := by
      simp [slice1d, List.range_eq_range']
    rw [hplan, sortByKey_sorted]
    · exact (colon_lengths lengths lengths 0 [] (by simp) hl).symm
    · rw [List.map_map]
      have : ((fun (p : Nat × PySlice) => p.1) ∘ fun j => (j, colon)) = id := rfl
      rw [this, List.map_id]
      exact List.pairwise_lt_range'
  · unfold newBlockdim
    rw [if_neg hcol]
    have hstep : (normalizeSlice s (isum lengths)).step = if s.stp = 1 then none else some s.stp :=
      ns_step s _ hs
    have hplan := slice1d_norm_pos lengths s hl hs hcol
    generalize hdd : loopPos s.stp
        ((lengths.drop (bisectRight (cumsum lengths) (s.istart (isum lengths)))).take
          (min (bisectLeft (cumsum lengths)
            (max (s.istart (isum lengths)) (s.istop (isum lengths))) + 1) lengths.length
              - bisectRight (cumsum lengths) (s.istart (isum lengths))))
        (bisectRight (cumsum lengths) (s.istart (isum lengths)))
        (s.istart (isum lengths)
          - blockStart lengths (bisectRight (cumsum lengths) (s.istart (isum lengths))))
        (max (s.istart (isum lengths)) (s.istop (isum lengths))
          - blockStart lengths (bisectRight (cumsum lengths) (s.istart (isum lengths)))) = d
      at hplan
    have hent : ∀ p ∈ d, p.2.start ≠ none ∧
        entryLen p = ((sel p.2 (lengths.getD p.1 0)).length : Int) := by
      rw [← hdd]
      apply loopPos_entries lengths (s.istart (isum lengths))
        (max (s.istart (isum lengths)) (s.istop (isum lengths))) s.stp hs (by omega) _ _
        ((lengths.drop (bisectRight (cumsum lengths) (s.istart (isum lengths)))).drop
          (min (bisectLeft (cumsum lengths)
            (max (s.istart (isum lengths)) (s.istop (isum lengths))) + 1) lengths.length
              - bisectRight (cumsum lengths) (s.istart (isum lengths))))
        _ _ (List.take_append_drop _ _).symm
        (fun x hx => hl x (List.mem_of_mem_drop (List.mem_of_mem_take hx)))
      have := blockStart_istart_le lengths _ a0
      refine ⟨Or.inr ?_, rfl⟩
      unfold relStart
      rw [if_pos this]
    have hkeys : ((finish lengths d).map (·.1)).Pairwise (· < ·) := by
      apply finish_keys_sorted
      rw [← hdd]
      exact (loopPos_keys _ _ _ _ _).1
    rw [hplan, sortByKey_sorted _ hkeys]
    have hcommon : ∀ f : Nat × PySlice → PySlice,
        (∀ p, f p = if p.2 = colon then
          (⟨some 0, some (lengths.getD p.1 0), some 1⟩ : PySlice) else p.2) →
        ((finish lengths d).map f).map
            (fun slc => ceilDiv (slc.stop.getD 0 - slc.start.getD 0) (slc.step.getD 1))
          = planLengths lengths (finish lengths d) := by
      intro f hf
      by_cases hdn : d = []
      · subst hdn
        rw [finish_nil]
        simp only [planLengths, List.map_cons, List.map_nil, hf,
          sel_empty (getD_nonneg hl 0)]
        simp [colon, ceilDiv, pyDiv]
      · rw [planLengths_finish hl d hdn, finish_ne_nil lengths d hdn]
        unfold planLengths
        rw [List.map_map, List.map_map]
        apply List.map_congr_left
        intro p hp
        obtain ⟨hp1, hp2⟩ := hent p hp
        simp only [Function.comp]
        rw [hf, unfin1 lengths p hp1, ← hp2]
        rfl
    split
    · rename_i c heq
      rw [hstep] at heq
      have hc : ¬ (c ≠ 0 ∧ c < 0) := by
        by_cases h1 : s.stp = 1
        · simp [h1] at heq
        · simp [h1] at heq; omega
      dsimp only
      rw [if_neg hc]
      exact hcommon _ (fun ⟨i, slc⟩ => rfl)
    · dsimp only
      exact hcommon _ (fun ⟨i, slc⟩ => rfl)

theorem newBlockdim_pos (lengths : List Int) (s : PySlice)
    (hl : ∀ c ∈ lengths, 0 ≤ c) (hs : 0 < s.stp) :
    let dim := isum lengths
    let idx := normalizeSlice s dim
    isum (newBlockdim dim lengths idx) = ((sel s dim).length : Int) ∧
    ((sel s dim) ≠ [] → newBlockdim dim lengths idx
      = planLengths lengths (sortByKey (slice1d dim lengths idx))) := by
  intro dim idx
  have h := newBlockdim_eq_planLengths_pos lengths s hl hs
  refine ⟨?_, fun _ => h⟩
  rw [h, ← slice1d_partition_pos lengths s hl hs]
  generalize sortByKey (slice1d (isum lengths) lengths (normalizeSlice s (isum lengths))) = plan
  induction plan with
  | nil => rfl
  | cons p ps ih =>
    rw [planPositions_cons, List.length_append, List.length_map]
    simp only [planLengths, List.map_cons, isum] at ih ⊢
    rw [ih]; omega

example : newBlockdim 42 [15,14,13] (normalizeSlice ⟨some 10, some 41, some 3⟩ 42) = [2, 5, 4] := by
  decide

end Dask.Lemmas.Slice1dPos
