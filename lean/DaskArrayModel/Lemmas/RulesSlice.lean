/-
Soundness of the slice pushdowns through axis-structured nodes, for indices made of slices only
(pointwise description of `sliceShape` / `sliceIdx` / `sliceChunks`): transpose (index permuted),
expand_dims, squeeze, reductions (kept axes only).
-/
import DaskArrayModel.Lemmas.RulesFuse
import DaskArrayModel.Lemmas.RulesRechunk
namespace Dask.ND
open Dask.Py Dask.Py.PySlice Dask.Slicing

/-! ### indices made of slices only: pointwise description -/

theorem allSlc?_some : ∀ (idx : List Ix) (ss : List PySlice), allSlc? idx = some ss → idx = ss.map Ix.slc
  | [], ss, h => by simp only [allSlc?] at h; injection h with h; subst h; rfl
  | .slc s :: r, ss, h => by
    simp only [allSlc?] at h
    obtain ⟨t, ht, rfl⟩ := Option.map_eq_some_iff.mp h
    rw [allSlc?_some r t ht]; rfl
  | .int _ :: _, _, h => by simp [allSlc?] at h

theorem sliceShape_slc : ∀ (sh : List Nat) (ss : List PySlice),
    sliceShape sh (ss.map Ix.slc) = List.zipWith (fun n s => (sel s (n : Nat)).length) sh ss
  | [], ss => by cases ss <;> simp [sliceShape]
  | _ :: _, [] => by simp [sliceShape]
  | n :: ns, s :: ss => by
    simp only [List.map_cons, sliceShape, List.zipWith_cons_cons]
    rw [sliceShape_slc ns ss]

theorem sliceShape_slc_length (sh : List Nat) (ss : List PySlice) :
    (sliceShape sh (ss.map Ix.slc)).length = min sh.length ss.length := by
  rw [sliceShape_slc]; simp

theorem sliceShape_slc_getD (sh : List Nat) (ss : List PySlice) (k : Nat) (h1 : k < sh.length)
    (h2 : k < ss.length) :
    (sliceShape sh (ss.map Ix.slc)).getD k 0 = (sel (ss.getD k colon) (sh.getD k 0 : Nat)).length := by
  rw [sliceShape_slc, getD_zipWith _ sh ss k 0 colon 0 h1 h2]

theorem wfIx_slc : ∀ (sh : List Nat) (ss : List PySlice),
    wfIx sh (ss.map Ix.slc) = true ↔ ss.length = sh.length ∧ ∀ s ∈ ss, s.stp ≠ 0
  | [], [] => by simp [wfIx]
  | [], _ :: _ => by simp [wfIx]
  | _ :: _, [] => by simp [wfIx]
  | n :: ns, s :: ss => by
    simp only [List.map_cons]
    rw [wfIx_cons_slc, wfIx_slc ns ss]
    simp only [List.length_cons, List.mem_cons, forall_eq_or_imp]
    constructor
    · rintro ⟨h1, h2, h3⟩; exact ⟨by omega, h1, h3⟩
    · rintro ⟨h1, h2, h3⟩; exact ⟨h2, by omega, h3⟩

theorem sliceIdx_slc_length : ∀ (sh : List Nat) (ss : List PySlice) (i : List Nat),
    (sliceIdx sh (ss.map Ix.slc) i).length = min sh.length (min ss.length i.length)
  | [], ss, i => by cases ss <;> simp [sliceIdx]
  | _ :: _, [], i => by simp [sliceIdx]
  | _ :: _, _ :: _, [] => by simp [sliceIdx]
  | n :: ns, s :: ss, x :: i => by
    simp only [List.map_cons, sliceIdx, List.length_cons, sliceIdx_slc_length ns ss i]
    omega

theorem sliceIdx_slc_getD : ∀ (sh : List Nat) (ss : List PySlice) (i : List Nat) (k : Nat),
    k < sh.length → k < ss.length → k < i.length →
    (sliceIdx sh (ss.map Ix.slc) i).getD k 0
      = ((sel (ss.getD k colon) (sh.getD k 0 : Nat)).getD (i.getD k 0) 0).toNat
  | n :: ns, s :: ss, x :: i, 0, _, _, _ => by simp [sliceIdx]
  | n :: ns, s :: ss, x :: i, k + 1, h1, h2, h3 => by
    simp only [List.map_cons, sliceIdx, List.getD_cons_succ]
    exact sliceIdx_slc_getD ns ss i k (by simpa using h1) (by simpa using h2) (by simpa using h3)
  | [], _, _, _, h, _, _ => by simp at h
  | _ :: _, [], _, _, _, h, _ => by simp at h
  | _ :: _, _ :: _, [], _, _, _, h => by simp at h

theorem sliceChunks_slc_length : ∀ (sh : List Nat) (cl : Layout) (ss : List PySlice),
    (sliceChunks sh cl (ss.map Ix.slc)).length = min sh.length (min cl.length ss.length)
  | [], cl, ss => by cases cl <;> cases ss <;> simp [sliceChunks]
  | _ :: _, [], ss => by cases ss <;> simp [sliceChunks]
  | _ :: _, _ :: _, [] => by simp [sliceChunks]
  | n :: ns, c :: cl, s :: ss => by
    simp only [List.map_cons, sliceChunks, List.length_cons, sliceChunks_slc_length ns cl ss]
    omega

theorem sliceChunks_slc_getD : ∀ (sh : List Nat) (cl : Layout) (ss : List PySlice) (k : Nat),
    k < sh.length → k < cl.length → k < ss.length →
    (sliceChunks sh cl (ss.map Ix.slc)).getD k []
      = sliceChunks1 (sh.getD k 0) (cl.getD k []) (ss.getD k colon)
  | n :: ns, c :: cl, s :: ss, 0, _, _, _ => by simp [sliceChunks]
  | n :: ns, c :: cl, s :: ss, k + 1, h1, h2, h3 => by
    simp only [List.map_cons, sliceChunks, List.getD_cons_succ]
    exact sliceChunks_slc_getD ns cl ss k (by simpa using h1) (by simpa using h2) (by simpa using h3)
  | [], _, _, _, h, _, _ => by simp at h
  | _ :: _, [], _, _, _, h, _ => by simp at h
  | _ :: _, _ :: _, [], _, _, _, h => by simp at h

theorem getD_mem_of_lt {α} (l : List α) (k : Nat) (d : α) (h : k < l.length) : l.getD k d ∈ l := by
  rw [getD_eq_getElem _ _ _ h]; exact List.getElem_mem h

/-! ### slice through transpose -/

theorem sliceThroughTranspose_sound : Sound sliceThroughTranspose := by
  intro env e e' hw h
  unfold sliceThroughTranspose at h
  split at h
  · rename_i a perm idx
    split at h
    · rename_i ss hss
      injection h with h; subst h
      have hidx := allSlc?_some idx ss hss
      subst hidx
      simp only [WF, wf, Bool.and_eq_true] at hw
      obtain ⟨⟨ha, hp⟩, hi⟩ := hw
      have hp' := isPerm_ok hp
      have hi' : wfIx (perm.map (fun a0 => (shape a).getD a0 0)) (ss.map Ix.slc) = true := hi
      obtain ⟨hl, hst⟩ := (wfIx_slc _ _).mp hi'
      simp only [List.length_map, hp'.len] at hl
      -- the un-permuted index
      have hul : (unpermL perm ss colon).length = (shape a).length := by rw [unpermL_length, hp'.len]
      have hug : ∀ a0, a0 < (shape a).length →
          (unpermL perm ss colon).getD a0 colon = ss.getD (perm.idxOf a0) colon :=
        fun a0 h0 => unpermL_getD perm ss colon a0 (by rw [hp'.len]; exact h0)
      have hwf' : wfIx (shape a) ((unpermL perm ss colon).map Ix.slc) = true := by
        rw [wfIx_slc]
        refine ⟨hul, ?_⟩
        intro s hs
        simp only [unpermL, List.mem_map, List.mem_range] at hs
        obtain ⟨a0, h0, rfl⟩ := hs
        rw [hp'.len] at h0
        exact hst _ (getD_mem_of_lt ss _ colon (by rw [hl]; exact hp'.idxOf_lt h0))
      have hshape : perm.map (fun a0 => (sliceShape (shape a) ((unpermL perm ss colon).map Ix.slc)).getD a0 0)
          = sliceShape (perm.map (fun a0 => (shape a).getD a0 0)) (ss.map Ix.slc) := by
        apply list_ext_getD
        · rw [List.length_map, sliceShape_slc_length, List.length_map, hp'.len, hl]; omega
        · intro k hk
          rw [List.length_map, hp'.len] at hk
          have hpk := hp'.getD_lt hk
          rw [getD_map _ perm k 0 0 (by rw [hp'.len]; exact hk),
            sliceShape_slc_getD _ _ _ hpk (by rw [hul]; exact hpk),
            sliceShape_slc_getD _ _ _ (by simp [hp'.len, hk]) (by rw [hl]; exact hk),
            hug _ hpk, hp'.idxOf_getD hk,
            getD_map _ perm k 0 0 (by rw [hp'.len]; exact hk)]
      refine ⟨?_, hshape, ?_⟩
      · simp only [WF, wf, Bool.and_eq_true]
        refine ⟨⟨ha, hwf'⟩, ?_⟩
        simp only [shape]
        rw [sliceShape_slc_length, hul, Nat.min_self]; exact hp
      · intro i hi0
        have hi1 : InB i (sliceShape (perm.map (fun a0 => (shape a).getD a0 0)) (ss.map Ix.slc)) := hi0
        have hil : i.length = (shape a).length := by
          rw [hi1.length_eq, sliceShape_slc_length, List.length_map, hp'.len, hl]; omega
        simp only [denGet, shape]
        congr 1
        apply list_ext_getD
        · rw [sliceIdx_slc_length, hul, unperm_length, unperm_length, hp'.len]; omega
        · intro a0 h0
          rw [sliceIdx_slc_length, hul, unperm_length, hp'.len] at h0
          have h0' : a0 < (shape a).length := by omega
          have hx := hp'.idxOf_lt h0'
          rw [sliceIdx_slc_getD _ _ _ _ h0' (by rw [hul]; exact h0') (by rw [unperm_length, hp'.len]; exact h0'),
            unperm_getD _ _ _ (by rw [hp'.len]; exact h0'),
            unperm_getD _ _ _ (by rw [hp'.len]; exact h0'),
            sliceIdx_slc_getD _ _ _ _ (by simp [hp'.len, hx]) (by rw [hl]; exact hx) (by rw [hil]; exact hx),
            hug _ h0', getD_map _ perm _ 0 0 (by rw [hp'.len]; exact hx), hp'.getD_idxOf h0']
    · exact absurd h (by simp)
  · exact absurd h (by simp)

/-! ### slice through expand_dims -/

theorem expand_slice_facts : ∀ (ax : Nat) (sh : List Nat) (ss : List PySlice),
    ax ≤ sh.length → wfIx (sh.insertIdx ax 1) (ss.map Ix.slc) = true →
    (sel (ss.getD ax colon) (1 : Nat)).length = 1 →
    wfIx sh ((ss.eraseIdx ax).map Ix.slc) = true ∧
    sliceShape (sh.insertIdx ax 1) (ss.map Ix.slc)
      = (sliceShape sh ((ss.eraseIdx ax).map Ix.slc)).insertIdx ax 1 ∧
    ∀ i, InB i (sliceShape (sh.insertIdx ax 1) (ss.map Ix.slc)) →
      (sliceIdx (sh.insertIdx ax 1) (ss.map Ix.slc) i).eraseIdx ax
        = sliceIdx sh ((ss.eraseIdx ax).map Ix.slc) (i.eraseIdx ax)
  | 0, sh, [], _, hw, _ => by simp [wfIx] at hw
  | 0, sh, s :: ss, _, hw, h1 => by
    simp only [List.insertIdx_zero, List.map_cons] at hw ⊢
    rw [wfIx_cons_slc] at hw
    simp only [List.getD_cons_zero] at h1
    simp only [List.eraseIdx_cons_zero, sliceShape, h1]
    refine ⟨hw.2, trivial, ?_⟩
    intro i hi
    cases i with
    | nil => simp [InB] at hi
    | cons x i => simp [sliceIdx]
  | ax + 1, [], _, h, _, _ => by simp at h
  | ax + 1, n :: sh, [], _, hw, _ => by simp [wfIx] at hw
  | ax + 1, n :: sh, s :: ss, h, hw, h1 => by
    simp only [List.insertIdx_succ_cons, List.map_cons] at hw ⊢
    rw [wfIx_cons_slc] at hw
    simp only [List.getD_cons_succ] at h1
    obtain ⟨i1, i2, i3⟩ := expand_slice_facts ax sh ss (by simpa using h) hw.2 h1
    simp only [List.eraseIdx_cons_succ, List.map_cons, sliceShape, List.insertIdx_succ_cons]
    refine ⟨by rw [wfIx_cons_slc]; exact ⟨hw.1, i1⟩, by rw [i2], ?_⟩
    intro i hi
    cases i with
    | nil => simp [InB] at hi
    | cons x i =>
      simp only [InB] at hi
      simp only [sliceIdx, List.eraseIdx_cons_succ]
      rw [i3 i hi.2]

theorem sliceThroughExpandDims_sound : Sound sliceThroughExpandDims := by
  intro env e e' hw h
  unfold sliceThroughExpandDims at h
  split at h
  · rename_i a ax idx
    split at h
    · rename_i ss hss
      split at h
      · rename_i hone
        injection h with h; subst h
        have hidx := allSlc?_some idx ss hss
        subst hidx
        simp only [WF, wf, Bool.and_eq_true, decide_eq_true_eq] at hw
        obtain ⟨⟨ha, hax⟩, hi⟩ := hw
        have hi' : wfIx ((shape a).insertIdx ax 1) (ss.map Ix.slc) = true := hi
        obtain ⟨i1, i2, i3⟩ := expand_slice_facts ax (shape a) ss hax hi' hone
        have hlen : (sliceShape (shape a) ((ss.eraseIdx ax).map Ix.slc)).length = (shape a).length := by
          rw [sliceShape_slc_length, ((wfIx_slc _ _).mp i1).1, Nat.min_self]
        refine ⟨?_, ?_, ?_⟩
        · simp only [WF, wf, Bool.and_eq_true, decide_eq_true_eq]
          refine ⟨⟨ha, i1⟩, ?_⟩
          simp only [shape]; rw [hlen]; exact hax
        · simp only [shape]; exact i2.symm
        · intro i hi0
          simp only [denGet, shape]
          rw [i3 i hi0]
      · exact absurd h (by simp)
    · exact absurd h (by simp)
  · exact absurd h (by simp)

/-! ### slice through squeeze -/

theorem squeeze_slice_facts : ∀ (ax : Nat) (sh : List Nat) (ss : List PySlice),
    ax < sh.length → 0 < sh.getD ax 0 → wfIx (sh.eraseIdx ax) (ss.map Ix.slc) = true →
    wfIx sh ((ss.insertIdx ax colon).map Ix.slc) = true ∧
    sliceShape (sh.eraseIdx ax) (ss.map Ix.slc)
      = (sliceShape sh ((ss.insertIdx ax colon).map Ix.slc)).eraseIdx ax ∧
    ∀ i, InB i (sliceShape (sh.eraseIdx ax) (ss.map Ix.slc)) →
      (sliceIdx (sh.eraseIdx ax) (ss.map Ix.slc) i).insertIdx ax 0
        = sliceIdx sh ((ss.insertIdx ax colon).map Ix.slc) (i.insertIdx ax 0)
  | _, [], _, h, _, _ => by simp at h
  | 0, n :: sh, ss, _, h0, hw => by
    simp only [List.eraseIdx_cons_zero] at hw ⊢
    simp only [List.getD_cons_zero] at h0
    simp only [List.insertIdx_zero, List.map_cons, sliceShape, List.eraseIdx_cons_zero]
    refine ⟨by rw [wfIx_cons_slc]; exact ⟨by simp [colon, stp], hw⟩, trivial, ?_⟩
    intro i _
    simp only [sliceIdx]
    rw [sel_colon_getD n 0 h0]; rfl
  | ax + 1, n :: sh, [], h, _, hw => by
    simp only [List.eraseIdx_cons_succ, List.map_nil] at hw
    simp [wfIx] at hw
  | ax + 1, n :: sh, s :: ss, h, h0, hw => by
    simp only [List.eraseIdx_cons_succ, List.map_cons] at hw ⊢
    rw [wfIx_cons_slc] at hw
    obtain ⟨i1, i2, i3⟩ := squeeze_slice_facts ax sh ss (by simpa using h) (by simpa using h0) hw.2
    simp only [List.insertIdx_succ_cons, List.map_cons, sliceShape, List.eraseIdx_cons_succ]
    refine ⟨by rw [wfIx_cons_slc]; exact ⟨hw.1, i1⟩, by rw [i2], ?_⟩
    intro i hi
    cases i with
    | nil => simp [InB] at hi
    | cons x i =>
      simp only [InB] at hi
      simp only [sliceIdx, List.insertIdx_succ_cons]
      rw [i3 i hi.2]

theorem getD_insertIdx_self {α} : ∀ (l : List α) (ax : Nat) (v d : α), ax ≤ l.length →
    (l.insertIdx ax v).getD ax d = v
  | l, 0, v, d, _ => by simp
  | [], ax + 1, v, d, h => by simp at h
  | x :: l, ax + 1, v, d, h => by
    simp only [List.insertIdx_succ_cons, List.getD_cons_succ]
    exact getD_insertIdx_self l ax v d (by simpa using h)

theorem sliceChunks1_one : sliceChunks1 1 [1] colon = [1] := by decide

theorem sliceThroughSqueeze_sound : Sound sliceThroughSqueeze := by
  intro env e e' hw h
  unfold sliceThroughSqueeze at h
  split at h
  · rename_i a ax idx
    split at h
    · rename_i ss hss
      injection h with h; subst h
      have hidx := allSlc?_some idx ss hss
      subst hidx
      simp only [WF, wf, Bool.and_eq_true, decide_eq_true_eq] at hw
      obtain ⟨⟨⟨ha, hax⟩, hone⟩, hi⟩ := hw
      have hi' : wfIx ((shape a).eraseIdx ax) (ss.map Ix.slc) = true := hi
      obtain ⟨m1, m2⟩ := meta_ok a ha
      have h1 : (shape a).getD ax 0 = 1 := by
        rw [← sum_getD_of_map_sum m1 ax, hone]; rfl
      obtain ⟨i1, i2, i3⟩ := squeeze_slice_facts ax (shape a) ss hax (by omega) hi'
      obtain ⟨l1, _⟩ := (wfIx_slc _ _).mp i1
      have hssl : ss.length + 1 = (shape a).length := by
        have := ((wfIx_slc _ _).mp hi').1
        rw [List.length_eraseIdx, if_pos hax] at this; omega
      have hlen : (sliceShape (shape a) ((ss.insertIdx ax colon).map Ix.slc)).length = (shape a).length := by
        rw [sliceShape_slc_length, l1, Nat.min_self]
      refine ⟨?_, ?_, ?_⟩
      · simp only [WF, wf, Bool.and_eq_true, decide_eq_true_eq]
        refine ⟨⟨⟨ha, i1⟩, ?_⟩, ?_⟩
        · simp only [shape]; rw [hlen]; exact hax
        · simp only [chunks]
          rw [sliceChunks_slc_getD _ _ _ _ hax (by rw [length_of_map_sum m1]; exact hax) (by rw [l1]; exact hax),
            h1, hone, getD_insertIdx_self ss ax colon colon (by omega)]
          exact sliceChunks1_one
      · simp only [shape]; exact i2.symm
      · intro i hi0
        simp only [denGet, shape]
        rw [i3 i hi0]
    · exact absurd h (by simp)
  · exact absurd h (by simp)

/-! ### slice through a reduction -/

theorem sliceThroughReduce_sound : Sound sliceThroughReduce := by
  intro env e e' hw h
  unfold sliceThroughReduce at h
  split at h
  · rename_i r a ax k idx
    split at h
    · rename_i ss hss
      split at h
      · rename_i hcond
        injection h with h; subst h
        have hidx := allSlc?_some idx ss hss
        obtain ⟨hcol, hpos⟩ := hcond
        simp only [WF, wf, Bool.and_eq_true, decide_eq_true_eq, Bool.or_eq_true] at hw
        obtain ⟨⟨⟨⟨ha, hax⟩, hk⟩, _⟩, hi⟩ := hw
        have hi' : wfIx ((shape a).set ax 1) idx = true := hi
        rw [hidx] at hi'
        obtain ⟨hl, hst⟩ := (wfIx_slc _ _).mp hi'
        rw [List.length_set] at hl
        have hwf' : wfIx (shape a) idx = true := by rw [hidx, wfIx_slc]; exact ⟨hl, hst⟩
        have hcol' : ss.getD ax colon = colon := by
          have : ss.getD ax ⟨some 0, some 0, none⟩ = ss.getD ax colon := by
            simp [List.getD_eq_getElem?_getD, show ax < ss.length by omega]
          rw [← this]; exact hcol
        have hshape : sliceShape ((shape a).set ax 1) idx = (sliceShape (shape a) idx).set ax 1 := by
          rw [hidx]
          apply list_ext_getD
          · rw [List.length_set, sliceShape_slc_length, sliceShape_slc_length, List.length_set]
          · intro j hj
            rw [sliceShape_slc_length, List.length_set, hl, Nat.min_self] at hj
            rw [sliceShape_slc_getD _ _ _ (by rw [List.length_set]; exact hj) (by omega)]
            by_cases hjx : j = ax
            · subst hjx
              rw [getD_set_eq _ _ _ _ hj, getD_set_eq _ _ _ _ (by rw [sliceShape_slc_length]; omega), hcol',
                sel_colon_length]
            · rw [getD_set_ne _ _ _ _ _ (Ne.symm hjx), getD_set_ne _ _ _ _ _ (Ne.symm hjx),
                sliceShape_slc_getD _ _ _ hj (by omega)]
        have hlenax : (sliceShape (shape a) idx).getD ax 0 = (shape a).getD ax 0 := by
          rw [hidx, sliceShape_slc_getD _ _ _ hax (by omega), hcol', sel_colon_length]
        refine ⟨?_, ?_, ?_⟩
        · simp only [WF, wf, Bool.and_eq_true, decide_eq_true_eq, Bool.or_eq_true]
          refine ⟨⟨⟨⟨ha, hwf'⟩, ?_⟩, hk⟩, ?_⟩
          · simp only [shape]; rw [hidx, sliceShape_slc_length]; omega
          · rcases hpos with h | h
            · exact Or.inl h
            · exact Or.inr h
        · simp only [shape]; exact hshape.symm
        · intro i hi0
          have hi1 : InB i (sliceShape ((shape a).set ax 1) idx) := hi0
          have hil : i.length = (shape a).length := by
            rw [hi1.length_eq, hidx, sliceShape_slc_length, List.length_set]; omega
          simp only [denGet, shape]
          rw [hlenax]
          congr 1
          apply List.map_congr_left
          intro t ht
          have ht' := List.mem_range.mp ht
          congr 1
          rw [hidx]
          symm
          apply list_ext_getD
          · rw [List.length_set, sliceIdx_slc_length, List.length_set, sliceIdx_slc_length, List.length_set]
          · intro j hj
            rw [List.length_set, sliceIdx_slc_length, List.length_set] at hj
            have hj' : j < (shape a).length := by omega
            rw [sliceIdx_slc_getD (shape a) ss (i.set ax t) j hj' (by omega) (by rw [List.length_set]; omega)]
            by_cases hjx : j = ax
            · subst hjx
              rw [getD_set_eq _ _ _ _ (by rw [sliceIdx_slc_length, List.length_set]; omega),
                getD_set_eq _ _ _ _ (by omega), hcol', sel_colon_getD _ _ ht']
              simp
            · rw [getD_set_ne _ _ _ _ _ (Ne.symm hjx), getD_set_ne _ _ _ _ _ (Ne.symm hjx),
                sliceIdx_slc_getD _ _ _ _ (by rw [List.length_set]; exact hj') (by omega) (by omega),
                getD_set_ne _ _ _ _ _ (Ne.symm hjx)]
      · exact absurd h (by simp)
    · exact absurd h (by simp)
  · exact absurd h (by simp)

end Dask.ND
