/-
Several (source, target, region) triples with pairwise different targets, all block tasks of all
triples executed in any order.  Core Lean only.
-/
import DaskArrayModel.Lemmas.StoreNDGlue
namespace Dask.Lemmas.StoreND
open Dask.Py Dask.Py.PySlice Dask.Slicing Dask.SourceIO Dask.StoreND Dask.Lemmas.SourceIO

/-- the region's selection of a job (`[]` when `target[region]` itself raises) -/
def selOf (j : Job) : List AxSel :=
  match regionSel j.tshape j.region with
  | .ok G => G
  | .error _ => []

/-- the write of task `(k, bid)` -/
def taskSpec (jobs : List Job) (task : Nat × List Nat) : Write (Nat × Pos) :=
  match jobs[task.1]? with
  | none => fun _ => none
  | some j => liftW j.tid (blockSpec (selOf j) j.chunks j.src task.2)

theorem mem_allTasksFrom (k : Nat) (jobs : List Job) (t : Nat × List Nat) :
    t ∈ allTasksFrom k jobs ↔ k ≤ t.1 ∧ ∃ j, jobs[t.1 - k]? = some j ∧ t.2 ∈ blockIds j.chunks := by
  induction jobs generalizing k with
  | nil => simp [allTasksFrom]
  | cons j js ih =>
    simp only [allTasksFrom, List.mem_append, List.mem_map, ih (k + 1)]
    constructor
    · rintro (⟨b, hb, rfl⟩ | ⟨hk, j', hj', hb⟩)
      · exact ⟨Nat.le_refl _, j, by simp, hb⟩
      · refine ⟨by omega, j', ?_, hb⟩
        have : t.1 - k = (t.1 - (k + 1)) + 1 := by omega
        rw [this]; simpa using hj'
    · rintro ⟨hk, j', hj', hb⟩
      by_cases he : t.1 = k
      · left
        have : t.1 - k = 0 := by omega
        rw [this] at hj'
        simp only [List.getElem?_cons_zero, Option.some.injEq] at hj'
        subst hj'
        exact ⟨t.2, hb, by rw [← he]⟩
      · right
        refine ⟨by omega, j', ?_, hb⟩
        have : t.1 - k = (t.1 - (k + 1)) + 1 := by omega
        rw [this] at hj'; simpa using hj'

theorem nodup_allTasksFrom (k : Nat) (jobs : List Job) : (allTasksFrom k jobs).Nodup := by
  induction jobs generalizing k with
  | nil => simp [allTasksFrom]
  | cons j js ih =>
    simp only [allTasksFrom]
    rw [List.nodup_append]
    refine ⟨?_, ih (k + 1), ?_⟩
    · rw [List.Nodup, List.pairwise_map]
      exact (nodup_blockIds j.chunks).imp (fun h e => h (by injection e))
    · intro a ha b hb e
      obtain ⟨_, _, rfl⟩ := List.mem_map.mp ha
      have := ((mem_allTasksFrom (k + 1) js b).mp hb).1
      subst e
      simp only at this
      omega

/-- the tids of different triples are different -/
def DistinctTids (jobs : List Job) : Prop :=
  ∀ (k k' : Nat) (j j' : Job), jobs[k]? = some j → jobs[k']? = some j' → k ≠ k' → j.tid ≠ j'.tid

theorem taskSpec_disjoint (jobs : List Job) (hd : DistinctTids jobs)
    (hc : ∀ j ∈ jobs, ChunksOK j.chunks) (t t' : Nat × List Nat)
    (ht : t ∈ allTasks jobs) (ht' : t' ∈ allTasks jobs) (hne : t ≠ t') :
    Disjoint (taskSpec jobs t) (taskSpec jobs t') := by
  obtain ⟨_, j, hj, hb⟩ := (mem_allTasksFrom 0 jobs t).mp ht
  obtain ⟨_, j', hj', hb'⟩ := (mem_allTasksFrom 0 jobs t').mp ht'
  simp only [Nat.sub_zero] at hj hj'
  intro p
  unfold taskSpec
  simp only [hj, hj', liftW]
  by_cases hk : t.1 = t'.1
  · have hjj : j = j' := by rw [hk, hj'] at hj; injection hj with hj; exact hj.symm
    subst hjj
    have hb2 : t.2 ≠ t'.2 := fun e => hne (Prod.ext hk e)
    by_cases hp : p.1 = j.tid
    · simp only [hp, if_true]
      exact blockSpec_disjoint _ _ _ (hc j (List.mem_of_getElem? hj)) t.2 t'.2 hb hb' hb2 p.2
    · left; simp [hp]
  · have := hd t.1 t'.1 j j' hj hj' hk
    by_cases hp : p.1 = j.tid
    · right
      have : ¬ p.1 = j'.tid := fun e => this (by rw [← hp, e])
      simp [this]
    · left; simp [hp]

theorem taskWrite_eq (jobs : List Job) (hacc : ∀ j ∈ jobs, accepted j.tshape j.region j.chunks = true)
    (t : Nat × List Nat) (ht : t ∈ allTasks jobs) : taskWrite jobs t = .ok (taskSpec jobs t) := by
  obtain ⟨_, j, hj, hb⟩ := (mem_allTasksFrom 0 jobs t).mp ht
  simp only [Nat.sub_zero] at hj
  obtain ⟨hc, G, hg⟩ := glue_of_accepted j.tshape j.region j.chunks (hacc j (List.mem_of_getElem? hj))
  have hsel : selOf j = G := by simp [selOf, hg.sel]
  unfold taskWrite taskSpec
  simp only [hj, blockWrite_eq j.tshape j.region j.chunks G j.src hc hg t.2 hb, hsel]

/-- all tasks of all triples, in any order: every target ends as its own triple's specification says;
targets of no triple are untouched -/
theorem store_multi (jobs : List Job) (hd : DistinctTids jobs)
    (hacc : ∀ j ∈ jobs, accepted j.tshape j.region j.chunks = true)
    (sched : List (Nat × List Nat)) (hp : sched.Perm (allTasks jobs)) (heap : Nat × Pos → Int) :
    ∃ heap', storeMultiOrder jobs sched heap = .ok heap' ∧
      (∀ j ∈ jobs, ∀ q, heap' (j.tid, q) = specTarget (selOf j) j.src (fun q => heap (j.tid, q)) q) ∧
      (∀ tid, (∀ j ∈ jobs, j.tid ≠ tid) → ∀ q, heap' (tid, q) = heap (tid, q)) := by
  have hcs : ∀ j ∈ jobs, ChunksOK j.chunks := fun j hj =>
    (glue_of_accepted j.tshape j.region j.chunks (hacc j hj)).1
  have hm : mapE (taskWrite jobs) sched = .ok (sched.map (taskSpec jobs)) :=
    mapE_eq_map _ _ _ (fun t ht => taskWrite_eq jobs hacc t (hp.mem_iff.mp ht))
  have hnd : sched.Nodup := hp.nodup_iff.mpr (nodup_allTasksFrom 0 jobs)
  have hpw : (sched.map (taskSpec jobs)).Pairwise Disjoint := by
    rw [List.pairwise_map]
    exact hnd.imp_of_mem (fun {a b} ha hb hab =>
      taskSpec_disjoint jobs hd hcs a b (hp.mem_iff.mp ha) (hp.mem_iff.mp hb) hab)
  unfold storeMultiOrder
  simp only [hm]
  refine ⟨_, rfl, ?_, ?_⟩
  · intro j hj q
    obtain ⟨k, hk, hkj⟩ := List.getElem_of_mem hj
    have hkj' : jobs[k]? = some j := by rw [List.getElem?_eq_getElem hk, hkj]
    obtain ⟨hc, G, hg⟩ := glue_of_accepted j.tshape j.region j.chunks (hacc j hj)
    have hsel : selOf j = G := by simp [selOf, hg.sel]
    have hpart := writes_partition G j.chunks j.src hc hg.shape q
    unfold specTarget
    rw [hsel]
    cases hl : locate G q with
    | none =>
      simp only
      apply applyAll_none
      intro w hw
      obtain ⟨t, ht, rfl⟩ := List.mem_map.mp hw
      obtain ⟨_, j', hj', _⟩ := (mem_allTasksFrom 0 jobs t).mp (hp.mem_iff.mp ht)
      simp only [Nat.sub_zero] at hj'
      unfold taskSpec
      simp only [hj', liftW]
      by_cases ht1 : t.1 = k
      · rw [ht1, hkj'] at hj'
        injection hj' with hj'
        subst hj'
        simp only [if_true, hsel]
        exact hpart.2 hl t.2
      · have := hd t.1 k j' j hj' hkj' ht1
        have hne : ¬ j.tid = j'.tid := fun e => this e.symm
        simp [hne]
    | some g =>
      simp only
      obtain ⟨bid, hb, hv, _⟩ := hpart.1 g hl
      have hmem : (k, bid) ∈ allTasks jobs := (mem_allTasksFrom 0 jobs (k, bid)).mpr ⟨Nat.zero_le _, j, by simpa using hkj', hb⟩
      apply applyAll_some heap _ (j.tid, q) (j.src g) hpw (taskSpec jobs (k, bid))
        (List.mem_map.mpr ⟨(k, bid), hp.mem_iff.mpr hmem, rfl⟩)
      unfold taskSpec
      simp only [hkj', liftW, if_true, hsel]
      exact hv
  · intro tid hno q
    apply applyAll_none
    intro w hw
    obtain ⟨t, ht, rfl⟩ := List.mem_map.mp hw
    obtain ⟨_, j', hj', _⟩ := (mem_allTasksFrom 0 jobs t).mp (hp.mem_iff.mp ht)
    simp only [Nat.sub_zero] at hj'
    unfold taskSpec
    simp only [hj', liftW]
    have := hno j' (List.mem_of_getElem? hj')
    have hne : ¬ tid = j'.tid := fun e => this e.symm
    simp [hne]

end Dask.Lemmas.StoreND
