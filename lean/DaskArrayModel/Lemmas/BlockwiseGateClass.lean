/-
The class `LabelLocal` is inhabited: every elementwise function with NumPy broadcasting over labels
(`pwFn`, any arity, any label pattern without contracted labels) is label-local.
-/
import DaskArrayModel.Lemmas.BlockwiseGateBase
namespace Dask.BWG
open Dask.Py Dask.ND Dask.Contract

/-- signature of an elementwise node -/
def pwSig (outInd : List Nat) (inds : List (List Nat)) : Sig := ⟨outInd, inds, [], []⟩

theorem pwSig_point (outInd : List Nat) (inds : List (List Nat)) (l : Nat) :
    (pwSig outInd inds).point l = true ↔ l ∈ outInd := by
  simp [Sig.point, pwSig]

theorem mem_lensOf (inds : List (List Nat)) (bs : List (Arr Int)) (l n : Nat) :
    n ∈ lensOf inds bs l ↔ ∃ t, t < inds.length ∧ ∃ k, k < (inds.getD t []).length ∧
      k < (bs.getD t dA).shape.length ∧ (inds.getD t []).getD k 0 = l ∧ (bs.getD t dA).shape.getD k 0 = n := by
  unfold lensOf
  simp only [List.mem_flatMap, List.mem_range, List.mem_map, List.mem_filter, beq_iff_eq]
  constructor
  · rintro ⟨t, ht, q, ⟨hq, hl⟩, hn⟩
    obtain ⟨k, h1, h2, e⟩ := mem_zip_getD _ _ 0 0 q hq
    refine ⟨t, ht, k, h1, h2, ?_, ?_⟩
    · rw [e] at hl; exact hl
    · rw [e] at hn; exact hn
  · rintro ⟨t, ht, k, h1, h2, hl, hn⟩
    exact ⟨t, ht, _, ⟨getD_mem_zip _ _ 0 0 k h1 h2, hl⟩, hn⟩

theorem bc_of_lt (m x : Nat) (h : x < m) : bc m x = x := by
  unfold bc; split
  · omega
  · rfl

/-- label lengths after a re-indexing -/
def reLen (R : Reix) (N : Nat → Nat) (l : Nat) : Nat := if R.act l then R.len l else N l

/-- the re-indexed tuple -/
def reTuple (R : Reix) (N : Nat → Nat) (inds : List (List Nat)) (bs : List (Arr Int)) : List (Arr Int) :=
  (List.range inds.length).map (fun t => reix R N (inds.getD t []) (bs.getD t dA))

theorem reTuple_getD (R : Reix) (N : Nat → Nat) (inds : List (List Nat)) (bs : List (Arr Int)) (t : Nat)
    (ht : t < inds.length) : (reTuple R N inds bs).getD t dA = reix R N (inds.getD t []) (bs.getD t dA) :=
  getD_rangeMap _ _ _ _ ht

/-- a re-indexed conforming tuple is conforming for the new lengths -/
theorem isLen_reTuple (s : Sig) (R : Reix) (bs : List (Arr Int)) (N : Nat → Nat) (h : IsLen s bs N) :
    IsLen s (reTuple R N s.inds bs) (reLen R N) := by
  obtain ⟨h1, h2, h3, h4⟩ := h
  refine ⟨by simp [reTuple], ?_, ?_, ?_⟩
  · intro t ht
    rw [reTuple_getD _ _ _ _ _ ht, reix_shape_length]
  · intro t k ht hk hp
    rw [reTuple_getD _ _ _ _ _ ht, reix_shape_getD _ _ _ _ _ hk]
    unfold reLen
    cases hon : R.on N ((s.inds.getD t []).getD k 0) ((bs.getD t dA).shape.getD k 0) with
    | true =>
      simp only [Reix.on, Bool.and_eq_true] at hon
      rw [if_pos rfl, if_pos hon.1]; exact Or.inl rfl
    | false =>
      simp only [Bool.false_eq_true, if_false]
      rcases h3 t k ht hk hp with e | e
      · simp only [Reix.on, e, beq_self_eq_true, Bool.and_true] at hon
        rw [hon]; simp only [Bool.false_eq_true, if_false]; exact Or.inl e
      · exact Or.inr e
  · intro l hp
    obtain ⟨t, k, ht, hk, hl, hn⟩ := h4 l hp
    refine ⟨t, k, ht, hk, hl, ?_⟩
    rw [reTuple_getD _ _ _ _ _ ht, reix_shape_getD _ _ _ _ _ hk, hl, hn]
    simp only [Reix.on, beq_self_eq_true, Bool.and_true, reLen]

/-- for a conforming tuple the broadcast length of a point label is `N` -/
theorem bdim_lensOf (s : Sig) (bs : List (Arr Int)) (N : Nat → Nat) (h : IsLen s bs N) (l : Nat)
    (hp : s.point l = true) : bdim (lensOf s.inds bs l) = N l := by
  obtain ⟨_, h2, h3, h4⟩ := h
  apply bdim_eq
  · intro n hn
    obtain ⟨t, ht, k, hk, _, hl, e⟩ := (mem_lensOf _ _ _ _).mp hn
    rw [← e, ← hl]
    exact h3 t k ht hk (hl ▸ hp)
  · obtain ⟨t, k, ht, hk, hl, hn⟩ := h4 l hp
    exact (mem_lensOf _ _ _ _).mpr ⟨t, ht, k, hk, by rw [← h2 t ht]; exact hk, hl, hn⟩

/-- `IsLen` of an elementwise signature, spelled out -/
theorem isLen_pw (outInd : List Nat) (inds : List (List Nat)) (bs : List (Arr Int)) (N : Nat → Nat)
    (h : IsLen (pwSig outInd inds) bs N) :
    (∀ t, t < inds.length → (inds.getD t []).length = (bs.getD t dA).shape.length) ∧
    (∀ t k, t < inds.length → k < (inds.getD t []).length → (inds.getD t []).getD k 0 ∈ outInd →
      (bs.getD t dA).shape.getD k 0 = N ((inds.getD t []).getD k 0) ∨ (bs.getD t dA).shape.getD k 0 = 1) := by
  obtain ⟨_, h2, h3, _⟩ := h
  exact ⟨h2, fun t k ht hk hin => h3 t k ht hk ((pwSig_point outInd inds _).mpr hin)⟩

/-- the positions an operand is read at are inside it -/
theorem rdL_inB (outInd : List Nat) (inds : List (List Nat)) (bs : List (Arr Int)) (N : Nat → Nat)
    (hsub : ∀ ind ∈ inds, ∀ l ∈ ind, l ∈ outInd)
    (h : IsLen (pwSig outInd inds) bs N) (i : List Nat) (hi : InB i (outInd.map N)) (t : Nat) (ht : t < inds.length) :
    InB (rdL outInd (inds.getD t []) (bs.getD t dA).shape i) (bs.getD t dA).shape := by
  obtain ⟨h2, h3⟩ := isLen_pw outInd inds bs N h
  have hr := h2 t ht
  apply InB.of_getD
  · simp only [rdL, List.length_map, List.length_range]; exact hr
  · intro k hk
    have hk' : k < (inds.getD t []).length := by omega
    unfold rdL
    rw [getD_rangeMap _ _ _ _ hk']
    have hlin : (inds.getD t []).getD k 0 ∈ outInd :=
      hsub _ (getD_mem inds t [] ht) _ (getD_mem _ k 0 hk')
    have hx : i.getD (outInd.idxOf ((inds.getD t []).getD k 0)) 0 < N ((inds.getD t []).getD k 0) := by
      have hidx : outInd.idxOf ((inds.getD t []).getD k 0) < outInd.length := List.idxOf_lt_length_of_mem hlin
      have := InB.getD_lt hi (outInd.idxOf ((inds.getD t []).getD k 0)) (by rw [List.length_map]; exact hidx)
      rwa [getD_map N outInd _ 0 0 hidx, getD_idxOf _ _ hlin] at this
    rcases h3 t k ht hk' hlin with e | e
    · rw [e, bc_of_lt _ _ hx]; exact hx
    · rw [e]; simp [bc]

theorem getS_congr (a a' : Arr Int) (h : Arr.Equiv a a') (i : List Nat) : getS a i = getS a' i := by
  unfold getS
  rw [← h.1]
  split
  · rename_i hi; exact h.2 i hi
  · rfl

theorem rdL_getD (outInd ind shape i : List Nat) (k : Nat) (hk : k < ind.length) :
    (rdL outInd ind shape i).getD k 0 = bc (shape.getD k 0) (i.getD (outInd.idxOf (ind.getD k 0)) 0) := by
  unfold rdL; rw [getD_rangeMap _ _ _ _ hk]

/-- reading the re-indexed operand at `i` is reading the operand at the re-indexed position `j` -/
theorem read_natural (outInd ind : List Nat) (b : Arr Int) (R : Reix) (N : Nat → Nat) (i j : List Nat)
    (hlin : ∀ k, k < ind.length → ind.getD k 0 ∈ outInd)
    (hshape : ∀ k, k < ind.length → b.shape.getD k 0 = N (ind.getD k 0) ∨ b.shape.getD k 0 = 1)
    (hi : ∀ l, l ∈ outInd → i.getD (outInd.idxOf l) 0 < reLen R N l)
    (hj : ∀ l, l ∈ outInd → j.getD (outInd.idxOf l) 0 =
      if R.act l then R.map l (i.getD (outInd.idxOf l) 0) else i.getD (outInd.idxOf l) 0)
    (hrange : ∀ l, R.act l = true → ∀ x, x < R.len l → R.map l x < N l) :
    (List.range ind.length).map (fun k =>
      if R.on N (ind.getD k 0) (b.shape.getD k 0)
      then R.map (ind.getD k 0) ((rdL outInd ind (reix R N ind b).shape i).getD k 0)
      else (rdL outInd ind (reix R N ind b).shape i).getD k 0) = rdL outInd ind b.shape j := by
  rw [show rdL outInd ind b.shape j = (List.range ind.length).map (fun k =>
      bc (b.shape.getD k 0) (j.getD (outInd.idxOf (ind.getD k 0)) 0)) from rfl]
  apply rangeMap_congr
  intro k hk
  have hl := hlin k hk
  have hx := hi _ hl
  rw [rdL_getD _ _ _ _ _ hk, reix_shape_getD _ _ _ _ _ hk, hj _ hl]
  unfold reLen at hx
  cases hact' : R.act (ind.getD k 0) with
  | false =>
    simp only [Reix.on, hact', Bool.false_and, Bool.false_eq_true, if_false]
  | true =>
    rw [hact'] at hx
    simp only [if_true] at hx
    simp only [Reix.on, hact', Bool.true_and, if_true]
    rcases hshape k hk with e | e
    · rw [e]
      simp only [beq_self_eq_true, if_true]
      rw [bc_of_lt _ _ hx, bc_of_lt _ _ (hrange _ hact' _ hx)]
    · by_cases hN : N (ind.getD k 0) = 1
      · rw [e, hN]
        simp only [beq_self_eq_true, if_true]
        have := hrange _ hact' _ hx
        rw [bc_of_lt _ _ hx]
        rw [hN] at this
        simp only [bc, if_true]
        omega
      · have hne : (b.shape.getD k 0 == N (ind.getD k 0)) = false := by
          rw [e]; rw [beq_eq_false_iff_ne]; exact fun h => hN h.symm
        rw [hne]
        simp only [Bool.false_eq_true, if_false, e, bc, if_true]

/-- **Elementwise functions with broadcasting are label-local.** -/
theorem pwFn_labelLocal (outInd : List Nat) (inds : List (List Nat)) (g : List Int → Int)
    (hsub : ∀ ind ∈ inds, ∀ l ∈ ind, l ∈ outInd) :
    LabelLocal (pwSig outInd inds) (pwFn outInd inds g) := by
  have hshape : ∀ bs N, IsLen (pwSig outInd inds) bs N → (pwFn outInd inds g bs).shape = outInd.map N := by
    intro bs N h
    simp only [pwFn]
    apply List.map_congr_left
    intro l hl
    exact bdim_lensOf (pwSig outInd inds) bs N h l ((pwSig_point outInd inds l).mpr hl)
  refine ⟨?_, ?_, ?_⟩
  · -- congr
    intro bs bs' hlen hE
    have hE' : ∀ t, Arr.Equiv (bs.getD t dA) (bs'.getD t dA) := by
      intro t
      by_cases ht : t < bs.length
      · exact hE t ht
      · rw [getD_of_ge _ _ _ (by omega), getD_of_ge _ _ _ (by omega)]; exact Arr.Equiv.refl _
    have hl : ∀ l, lensOf inds bs l = lensOf inds bs' l := by
      intro l; simp only [lensOf]
      congr 1; funext t
      rw [(hE' t).1]
    refine ⟨by simp only [pwFn]; apply List.map_congr_left; intro l _; rw [hl l], ?_⟩
    intro i _
    simp only [pwFn]
    congr 1
    apply rangeMap_congr
    intro t _
    rw [(hE' t).1]
    exact getS_congr _ _ (hE' t) _
  · -- shape
    intro bs N h
    rw [hshape bs N h]
    simp [Sig.outShape, pwSig]
  · -- natural
    intro R bs N h hact hrange
    have h' : IsLen (pwSig outInd inds) (reTuple R N inds bs) (reLen R N) :=
      isLen_reTuple (pwSig outInd inds) R bs N h
    have hs' := hshape _ _ h'
    have hs := hshape _ _ h
    change Arr.Equiv (pwFn outInd inds g (reTuple R N inds bs)) (reix R N outInd (pwFn outInd inds g bs))
    have hon : ∀ k, k < outInd.length →
        R.on N (outInd.getD k 0) ((pwFn outInd inds g bs).shape.getD k 0) = R.act (outInd.getD k 0) := by
      intro k hk
      rw [hs, getD_map N outInd k 0 0 hk]
      simp only [Reix.on, beq_self_eq_true, Bool.and_true]
    have hshapes : (pwFn outInd inds g (reTuple R N inds bs)).shape = (reix R N outInd (pwFn outInd inds g bs)).shape := by
      rw [hs']
      apply list_ext_getD
      · simp [reix]
      · intro k hk
        have hk' : k < outInd.length := by simpa using hk
        rw [getD_map _ outInd k 0 0 hk', reix_shape_getD _ _ _ _ _ hk', hon k hk', hs, getD_map N outInd k 0 0 hk']
        rfl
    refine ⟨hshapes, ?_⟩
    intro i hi
    rw [hs'] at hi
    -- the index read on the right
    obtain ⟨j, hjdef⟩ : ∃ j : List Nat, j = (List.range outInd.length).map (fun k =>
        if R.act (outInd.getD k 0) then R.map (outInd.getD k 0) (i.getD k 0) else i.getD k 0) := ⟨_, rfl⟩
    have hjget : ∀ k, k < outInd.length → j.getD k 0 =
        if R.act (outInd.getD k 0) then R.map (outInd.getD k 0) (i.getD k 0) else i.getD k 0 := by
      intro k hk; rw [hjdef, getD_rangeMap _ _ _ _ hk]
    have hik : ∀ k, k < outInd.length → i.getD k 0 < reLen R N (outInd.getD k 0) := by
      intro k hk
      have := InB.getD_lt hi k (by rw [List.length_map]; exact hk)
      rwa [getD_map _ outInd k 0 0 hk] at this
    have hj : InB j (outInd.map N) := by
      apply InB.of_getD
      · rw [hjdef]; simp
      · intro k hk
        have hk' : k < outInd.length := by simpa using hk
        rw [hjget k hk', getD_map N outInd k 0 0 hk']
        have := hik k hk'
        unfold reLen at this
        cases ha : R.act (outInd.getD k 0) with
        | true => rw [ha] at this; simp only [if_true] at this ⊢; exact hrange _ ha _ this
        | false => rw [ha] at this; simpa using this
    have e1 : (reix R N outInd (pwFn outInd inds g bs)).get i = (pwFn outInd inds g bs).get j := by
      simp only [reix]
      congr 1
      rw [hjdef]
      apply rangeMap_congr
      intro k hk
      rw [hon k hk]
    rw [e1]
    simp only [pwFn]
    congr 1
    apply rangeMap_congr
    intro t ht
    rw [reTuple_getD _ _ _ _ _ ht]
    have hI1 := rdL_inB outInd inds _ _ hsub h' i hi t ht
    rw [reTuple_getD _ _ _ _ _ ht] at hI1
    have hI2 := rdL_inB outInd inds bs N hsub h j hj t ht
    unfold getS
    rw [if_pos hI1, if_pos hI2]
    obtain ⟨h2, h3⟩ := isLen_pw outInd inds bs N h
    show (bs.getD t dA).get ((List.range (inds.getD t []).length).map (fun k =>
      if R.on N ((inds.getD t []).getD k 0) ((bs.getD t dA).shape.getD k 0)
      then R.map ((inds.getD t []).getD k 0)
        ((rdL outInd (inds.getD t []) (reix R N (inds.getD t []) (bs.getD t dA)).shape i).getD k 0)
      else (rdL outInd (inds.getD t []) (reix R N (inds.getD t []) (bs.getD t dA)).shape i).getD k 0)) =
      (bs.getD t dA).get (rdL outInd (inds.getD t []) (bs.getD t dA).shape j)
    congr 1
    apply read_natural outInd _ _ R N i j
    · intro k hk
      exact hsub _ (getD_mem inds t [] ht) _ (getD_mem _ k 0 hk)
    · intro k hk
      exact h3 t k ht hk (hsub _ (getD_mem inds t [] ht) _ (getD_mem _ k 0 hk))
    · intro l hl
      have := hik _ (List.idxOf_lt_length_of_mem hl)
      rwa [getD_idxOf _ _ hl] at this
    · intro l hl
      have := hjget _ (List.idxOf_lt_length_of_mem hl)
      rwa [getD_idxOf _ _ hl] at this
    · exact hrange

/-! ### a member with a contracted label -/

def rowSumSig : Sig := ⟨[0], [[0, 1]], [], []⟩

theorem rowSumSig_point (l : Nat) : rowSumSig.point l = true ↔ l = 0 := by
  simp [Sig.point, rowSumSig]

theorem rowSum_natural (R : Reix) (N : Nat → Nat) (b : Arr Int) (hr : b.shape.length = 2)
    (hact1 : R.act 1 = false) (hrange : R.act 0 = true → ∀ x, x < R.len 0 → R.map 0 x < N 0) :
    Arr.Equiv (rowSumFn [reix R N [0, 1] b]) (reix R N [0] (rowSumFn [b])) := by
  obtain ⟨sh, g⟩ := b
  match sh, hr with
  | [s0, s1], _ =>
    have hon1 : R.on N 1 s1 = false := by simp [Reix.on, hact1]
    constructor
    · simp [rowSumFn, reix, List.range_succ, hon1]
    · intro i hi
      simp [rowSumFn, reix, List.range_succ, hon1] at hi ⊢
      congr 1
      apply List.map_congr_left
      intro k hk
      have hk' : k < s1 := List.mem_range.mp hk
      have hi0 : i[0]?.getD 0 < (if R.on N 0 s0 = true then R.len 0 else s0) := by
        match i, hi with
        | [x], h => simpa [InB] using h.1
      have h1 : InB [i[0]?.getD 0, k] [if R.on N 0 s0 = true then R.len 0 else s0, s1] := ⟨hi0, hk', trivial⟩
      have h2 : InB [if R.on N 0 s0 = true then R.map 0 (i[0]?.getD 0) else i[0]?.getD 0, k] [s0, s1] := by
        refine ⟨?_, hk', trivial⟩
        cases hon : R.on N 0 s0 with
        | true =>
          rw [hon] at hi0
          simp only [if_true] at hi0 ⊢
          simp only [Reix.on, Bool.and_eq_true, beq_iff_eq] at hon
          rw [hon.2]; exact hrange hon.1 _ hi0
        | false => rw [hon] at hi0; simpa using hi0
      unfold getS
      rw [if_pos h1, if_pos h2]
      simp

/-- **The row sum (`'ik' -> 'i'`, the label `k` contracted) is label-local.** -/
theorem rowSum_labelLocal : LabelLocal rowSumSig rowSumFn := by
  refine ⟨?_, ?_, ?_⟩
  · intro bs bs' hlen hE
    have hE0 : Arr.Equiv (bs.getD 0 dA) (bs'.getD 0 dA) := by
      by_cases h0 : 0 < bs.length
      · exact hE 0 h0
      · rw [getD_of_ge _ _ _ (by omega), getD_of_ge _ _ _ (by omega)]; exact Arr.Equiv.refl _
    refine ⟨by simp only [rowSumFn]; rw [hE0.1], ?_⟩
    intro i _
    simp only [rowSumFn]
    rw [hE0.1]
    congr 1
    apply rangeMap_congr
    intro k _
    exact getS_congr _ _ hE0 _
  · intro bs N h
    obtain ⟨_, h2, h3, h4⟩ := h
    obtain ⟨t, k, ht, hk, hl, hn⟩ := h4 0 ((rowSumSig_point 0).mpr rfl)
    have ht0 : t = 0 := by simp [rowSumSig] at ht; exact ht
    subst ht0
    have hk0 : k = 0 := by
      simp only [rowSumSig, List.getD_cons_zero, List.length_cons, List.length_nil] at hk hl
      match k, hk with
      | 0, _ => rfl
      | 1, _ => simp at hl
    subst hk0
    simp only [rowSumFn, Sig.outShape, rowSumSig, List.map_cons, List.map_nil, List.lookup_nil, Option.getD_none]
    rw [← hn]
  · intro R bs N h hact hrange
    obtain ⟨_, h2, _, _⟩ := h
    have hr : (bs.getD 0 dA).shape.length = 2 := by
      have := h2 0 (by simp [rowSumSig]); simpa [rowSumSig] using this.symm
    have hact1 : R.act 1 = false := by
      rw [Bool.eq_false_iff]; intro h1
      have := (rowSumSig_point 1).mp (hact 1 h1); omega
    exact rowSum_natural R N (bs.getD 0 dA) hr hact1 (fun h0 => hrange 0 h0)

end Dask.BWG
