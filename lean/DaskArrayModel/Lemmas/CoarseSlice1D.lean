/-
Per-axis lemmas for the coarse slice pushdown (Model/CoarseSlice.lean): `find_block_range` against the block
boundaries, and "locating a position in the kept blocks".
-/
import DaskArrayModel.Model.CoarseSlice
import DaskArrayModel.Lemmas.Slice1dPos
namespace Dask.Lemmas.Coarse
open Dask.Py Dask.Py.PySlice Dask.Slicing Dask.Coarse
open Dask.Lemmas.Slice1dPos

/-! ### bisect -/

theorem bisectRight_gt : ∀ (l : List Int) (x : Int), bisectRight l x < l.length →
    x < l.getD (bisectRight l x) 0
  | [], _, h => by simp at h
  | y :: ys, x, h => by
    unfold bisectRight at h ⊢
    split
    · simpa
    · rename_i hxy
      rw [if_neg hxy] at h
      simpa using bisectRight_gt ys x (by simpa using h)

/-- `bisect_right` is determined by "everything before is `≤ x`, the entry at `k` is `> x`". -/
theorem bisectRight_unique : ∀ (l : List Int) (x : Int) (k : Nat), k ≤ l.length →
    (∀ j, j < k → l.getD j 0 ≤ x) → (k < l.length → x < l.getD k 0) → bisectRight l x = k
  | [], _, k, hk, _, _ => by simp at hk; simp [bisectRight, hk]
  | y :: ys, x, 0, _, _, h2 => by
    have := h2 (by simp)
    simp at this
    simp [bisectRight, this]
  | y :: ys, x, k + 1, hk, h1, h2 => by
    have hy : y ≤ x := by simpa using h1 0 (by omega)
    unfold bisectRight
    rw [if_neg (by omega)]
    have := bisectRight_unique ys x k (by simpa using hk)
      (fun j hj => by simpa using h1 (j + 1) (by omega))
      (fun hlt => by simpa using h2 (by simpa using hlt))
    omega

/-! ### block boundaries -/

theorem blockStart_succ (cs : List Int) (k : Nat) :
    blockStart cs (k + 1) = blockStart cs k + cs.getD k 0 := by
  unfold blockStart
  rw [List.take_add_one, isum_append]
  congr 1
  rw [List.getD_eq_getElem?_getD]
  cases cs[k]? <;> simp [isum]

theorem blockStart_mono (cs : List Int) (h : ∀ c ∈ cs, 0 ≤ c) (i : Nat) :
    ∀ d : Nat, blockStart cs i ≤ blockStart cs (i + d)
  | 0 => by simp
  | d + 1 => by
    have := blockStart_mono cs h i d
    have h2 := blockStart_succ cs (i + d)
    have h3 := getD_nonneg h (i + d)
    rw [show i + (d + 1) = i + d + 1 by omega]
    omega

theorem blockStart_le (cs : List Int) (h : ∀ c ∈ cs, 0 ≤ c) {i j : Nat} (hij : i ≤ j) :
    blockStart cs i ≤ blockStart cs j := by
  have := blockStart_mono cs h i (j - i)
  rwa [show i + (j - i) = j by omega] at this

theorem blockStart_length (cs : List Int) : blockStart cs cs.length = isum cs := by
  simp [blockStart]

theorem blockStart_ge_length (cs : List Int) {k : Nat} (hk : cs.length ≤ k) : blockStart cs k = isum cs := by
  unfold blockStart
  rw [List.take_of_length_le hk]

theorem cum0_tail (cs : List Int) : (cum0 cs).tail = cumsum cs := rfl

theorem cum0_length (cs : List Int) : (cum0 cs).length - 1 = cs.length := by
  simp [cum0, cumsum_length]

theorem cum0_getD (cs : List Int) (k : Nat) (hk : k ≤ cs.length) : (cum0 cs).getD k 0 = blockStart cs k := by
  cases k with
  | zero => simp [cum0, blockStart, isum]
  | succ k =>
    simp only [cum0, List.getD_cons_succ]
    exact cumsum_getD cs k (by omega)

/-- the block `bisect_right` finds for an in-range position -/
theorem bisect_block (cs : List Int) (h : ∀ c ∈ cs, 0 ≤ c) (p : Int) (h0 : 0 ≤ p) (h1 : p < isum cs) :
    bisectRight (cumsum cs) p < cs.length ∧
    blockStart cs (bisectRight (cumsum cs) p) ≤ p ∧ p < blockStart cs (bisectRight (cumsum cs) p + 1) := by
  have hle := bisectRight_le (cumsum cs) p
  rw [cumsum_length] at hle
  have hlt : bisectRight (cumsum cs) p < cs.length := by
    rcases Nat.lt_or_ge (bisectRight (cumsum cs) p) cs.length with h' | h'
    · exact h'
    · exfalso
      have heq : bisectRight (cumsum cs) p = cs.length := by omega
      have hpos : 0 < cs.length := by
        rcases Nat.eq_zero_or_pos cs.length with h0' | h0'
        · have : cs = [] := List.eq_nil_of_length_eq_zero h0'
          subst this
          simp [isum] at h1
          omega
        · exact h0'
      have := bisectRight_spec (cumsum cs) p (cs.length - 1) (by omega)
      rw [cumsum_getD cs (cs.length - 1) (by omega), show cs.length - 1 + 1 = cs.length by omega,
        blockStart_length] at this
      omega
  refine ⟨hlt, ?_, ?_⟩
  · rcases Nat.eq_zero_or_pos (bisectRight (cumsum cs) p) with hz | hp
    · rw [hz, blockStart_zero]; exact h0
    · have := bisectRight_spec (cumsum cs) p (bisectRight (cumsum cs) p - 1) (by omega)
      rw [cumsum_getD cs _ (by omega)] at this
      rwa [show bisectRight (cumsum cs) p - 1 + 1 = bisectRight (cumsum cs) p by omega] at this
  · have := bisectRight_gt (cumsum cs) p (by rw [cumsum_length]; exact hlt)
    rwa [cumsum_getD cs _ hlt] at this

/-- … and conversely the block containing `p` is what `bisect_right` returns -/
theorem bisect_of_block (cs : List Int) (h : ∀ c ∈ cs, 0 ≤ c) (p : Int) (k : Nat) (hk : k < cs.length)
    (h0 : blockStart cs k ≤ p) (h1 : p < blockStart cs (k + 1)) :
    bisectRight (cumsum cs) p = k := by
  apply bisectRight_unique
  · rw [cumsum_length]; omega
  · intro j hj
    rw [cumsum_getD cs j (by omega)]
    have := blockStart_le cs h (show j + 1 ≤ k by omega)
    omega
  · intro _
    rw [cumsum_getD cs k hk]
    exact h1

/-- `_slice_1d` for an integer: the block and the offset from the block's start -/
theorem slice1dInt_eq (cs : List Int) (p : Int) :
    slice1dInt cs p = (bisectRight (cumsum cs) p, p - blockStart cs (bisectRight (cumsum cs) p)) := by
  have hle := bisectRight_le (cumsum cs) p
  rw [cumsum_length] at hle
  unfold slice1dInt
  simp only
  congr 1
  split
  · rename_i hpos
    rw [cumsum_getD cs _ (by omega)]
    rw [show bisectRight (cumsum cs) p - 1 + 1 = bisectRight (cumsum cs) p by omega]
  · rename_i hz
    have : bisectRight (cumsum cs) p = 0 := by omega
    rw [this, blockStart_zero]; omega

/-! ### the kept blocks -/

theorem keptChunks_nonneg (cs : List Int) (h : ∀ c ∈ cs, 0 ≤ c) (f l : Nat) : ∀ c ∈ keptChunks cs f l, 0 ≤ c :=
  fun c hc => h c (List.mem_of_mem_drop (List.mem_of_mem_take hc))

theorem keptChunks_length (cs : List Int) (f l : Nat) (hl : l < cs.length) (hfl : f ≤ l) :
    (keptChunks cs f l).length = l + 1 - f := by
  simp [keptChunks, List.length_take, List.length_drop]; omega

theorem isum_take_drop (cs : List Int) (f j : Nat) :
    isum ((cs.drop f).take j) = blockStart cs (f + j) - blockStart cs f := by
  unfold blockStart
  rw [List.take_add, isum_append]
  omega

theorem blockStart_kept (cs : List Int) (f l j : Nat) (hj : j ≤ l + 1 - f) :
    blockStart (keptChunks cs f l) j = blockStart cs (f + j) - blockStart cs f := by
  unfold keptChunks
  rw [show blockStart ((cs.drop f).take (l + 1 - f)) j = isum (((cs.drop f).take (l + 1 - f)).take j) from rfl,
    List.take_take, Nat.min_eq_left hj]
  exact isum_take_drop cs f j

theorem isum_kept (cs : List Int) (f l : Nat) (hfl : f ≤ l) :
    isum (keptChunks cs f l) = blockStart cs (l + 1) - blockStart cs f := by
  unfold keptChunks
  rw [isum_take_drop, show f + (l + 1 - f) = l + 1 by omega]

theorem getD_kept (cs : List Int) (f l j : Nat) (hj : j < l + 1 - f) :
    (keptChunks cs f l).getD j 0 = cs.getD (f + j) 0 := by
  unfold keptChunks
  rw [List.getD_eq_getElem?_getD, List.getD_eq_getElem?_getD, List.getElem?_take, if_pos hj, List.getElem?_drop]

/-- **locating a position in the kept blocks**: block `k ∈ [f, l]` of `cs` is block `k - f` of the kept chunks, with the
same offset inside the block. -/
theorem locate_kept (cs : List Int) (h : ∀ c ∈ cs, 0 ≤ c) (f l k : Nat) (hfk : f ≤ k) (hkl : k ≤ l)
    (hl : l < cs.length) (p : Int) (h0 : blockStart cs k ≤ p) (h1 : p < blockStart cs (k + 1)) :
    slice1dInt (keptChunks cs f l) (p - blockStart cs f) = (k - f, p - blockStart cs k) ∧
    slice1dInt cs p = (k, p - blockStart cs k) := by
  have hb' : bisectRight (cumsum cs) p = k := bisect_of_block cs h p k (by omega) h0 h1
  have hb : bisectRight (cumsum (keptChunks cs f l)) (p - blockStart cs f) = k - f := by
    apply bisect_of_block _ (keptChunks_nonneg cs h f l)
    · rw [keptChunks_length cs f l hl (by omega)]; omega
    · rw [blockStart_kept cs f l (k - f) (by omega), show f + (k - f) = k by omega]; omega
    · rw [blockStart_kept cs f l (k - f + 1) (by omega), show f + (k - f + 1) = k + 1 by omega]; omega
  constructor
  · rw [slice1dInt_eq, hb, blockStart_kept cs f l (k - f) (by omega), show f + (k - f) = k by omega]
    congr 1; omega
  · rw [slice1dInt_eq, hb']

/-! ### `find_block_range` -/

/-- non-empty selection inside the axis: `first` / `last` are the blocks containing `start` / `stop - 1`. -/
theorem findBlockRange_inside (cs : List Int) (h : ∀ c ∈ cs, 0 ≤ c) (start stop : Int)
    (h0 : 0 ≤ start) (h1 : start < stop) (h2 : stop ≤ isum cs) :
    ∃ f l : Nat, findBlockRange (cum0 cs) start stop = some (f, (l : Int)) ∧ f ≤ l ∧ l < cs.length ∧
      blockStart cs f ≤ start ∧ start < blockStart cs (f + 1) ∧
      blockStart cs l ≤ stop - 1 ∧ stop - 1 < blockStart cs (l + 1) := by
  obtain ⟨a1, a2, a3⟩ := bisect_block cs h start h0 (by omega)
  obtain ⟨b1, b2, b3⟩ := bisect_block cs h (stop - 1) (by omega) (by omega)
  refine ⟨bisectRight (cumsum cs) start, bisectRight (cumsum cs) (stop - 1), ?_, ?_, b1, a2, a3, b2, b3⟩
  · unfold findBlockRange
    simp only [cum0_tail, cum0_length]
    rw [if_neg (by omega), if_pos (by omega)]
  · -- first ≤ last: otherwise the whole block `first` lies after `stop - 1`
    apply Classical.byContradiction
    intro hlt
    have := blockStart_le cs h (show bisectRight (cumsum cs) (stop - 1) + 1 ≤ bisectRight (cumsum cs) start by omega)
    omega

/-- empty selection (`stop ≤ start`) inside the axis: the *empty* answer `last = first - 1`. -/
theorem findBlockRange_empty (cs : List Int) (start stop : Int) (h1 : stop ≤ start)
    (hf : bisectRight (cumsum cs) start < cs.length) :
    findBlockRange (cum0 cs) start stop
      = some (bisectRight (cumsum cs) start, (bisectRight (cumsum cs) start : Int) - 1) := by
  unfold findBlockRange
  simp only [cum0_tail, cum0_length]
  rw [if_neg (by omega), if_neg (by omega)]

/-- the *out-of-bounds* answer `(None, None)`: exactly when `start` lies at or beyond the end of the axis. -/
theorem findBlockRange_none_iff (cs : List Int) (h : ∀ c ∈ cs, 0 ≤ c) (start stop : Int) (h0 : 0 ≤ start) :
    findBlockRange (cum0 cs) start stop = none ↔ isum cs ≤ start := by
  unfold findBlockRange
  simp only [cum0_tail, cum0_length]
  constructor
  · intro hn
    split at hn
    · rename_i hge
      apply Classical.byContradiction
      intro hlt
      have := (bisect_block cs h start h0 (by omega)).1
      omega
    · simp at hn
  · intro hge
    rw [if_pos]
    apply Classical.byContradiction
    intro hlt
    have hlt : bisectRight (cumsum cs) start < cs.length := by omega
    have := bisectRight_gt (cumsum cs) start (by rw [cumsum_length]; exact hlt)
    rw [cumsum_getD cs _ hlt] at this
    have h3 := blockStart_le cs h (show bisectRight (cumsum cs) start + 1 ≤ cs.length by omega)
    rw [blockStart_length] at h3
    omega

/-- the kept range is exactly the set of blocks that meet `[start, stop)` -/
theorem range_iff_intersects (cs : List Int) (h : ∀ c ∈ cs, 0 ≤ c) (start stop : Int) (f l : Nat)
    (a2 : blockStart cs f ≤ start) (a3 : start < blockStart cs (f + 1))
    (b2 : blockStart cs l ≤ stop - 1) (b3 : stop - 1 < blockStart cs (l + 1)) (k : Nat) :
    (f ≤ k ∧ k ≤ l) ↔ (blockStart cs k < stop ∧ start < blockStart cs (k + 1)) := by
  constructor
  · rintro ⟨h1, h2⟩
    have := blockStart_le cs h h2
    have := blockStart_le cs h (show f + 1 ≤ k + 1 by omega)
    omega
  · rintro ⟨h1, h2⟩
    constructor
    · apply Classical.byContradiction
      intro hlt
      have := blockStart_le cs h (show k + 1 ≤ f by omega)
      omega
    · apply Classical.byContradiction
      intro hlt
      have := blockStart_le cs h (show l + 1 ≤ k by omega)
      omega

end Dask.Lemmas.Coarse
