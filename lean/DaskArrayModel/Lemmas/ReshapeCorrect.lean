/-
The reshape theorems in their final form: `plan_grouped` (Lemmas/ReshapePlan.lean: what the line-by-line
model of `reshape_rechunk` returns is `Grouped`) composed with Lemmas/ReshapeMath.lean (`Grouped` layouts are
block-for-block, element-for-element the same flat data).
-/
import DaskArrayModel.Lemmas.ReshapePlan
namespace Dask.Reshape
open Dask.ND

theorem shapeA_zip {shape : List Nat} {cs : List Chunks} (h : cs.length = shape.length) :
    shapeA (List.zip shape cs) = shape := by
  unfold shapeA
  have : (fun (a : Axis) => a.1) = Prod.fst := rfl
  rw [this, List.map_fst_zip (by omega)]

theorem chunksA_zip {shape : List Nat} {cs : List Chunks} (h : cs.length = shape.length) :
    chunksA (List.zip shape cs) = cs := by
  unfold chunksA
  have : (fun (a : Axis) => a.2) = Prod.snd := rfl
  rw [this, List.map_snd_zip (by omega)]

theorem pos_of_prodL_pos : ∀ (l : List Nat), 0 < prodL l → ∀ d ∈ l, 0 < d
  | [], _ => by simp
  | y :: ys, h => by
    simp only [prodL] at h
    have h1 : 0 < y := Nat.pos_of_mul_pos_right h
    have h2 : 0 < prodL ys := Nat.pos_of_mul_pos_left h
    intro d hd
    rcases List.mem_cons.mp hd with e | e
    · rw [e]; exact h1
    · exact pos_of_prodL_pos ys h2 d e

/-- valid axes of positive length form a layout -/
theorem isLayout_of_valid {shape : List Nat} {cs : List Chunks} (hlen : cs.length = shape.length)
    (hv : ∀ a ∈ List.zip shape cs, ValidAx a) (hp : ∀ d ∈ shape, 0 < d) : IsLayout cs shape := by
  refine ⟨hlen, ?_⟩
  intro k hk
  have hk' : k < cs.length := by omega
  have e1 : cs.getD k [] = cs[k] := by
    rw [List.getD_eq_getElem?_getD, List.getElem?_eq_getElem hk']; rfl
  have e2 : shape.getD k 0 = shape[k] := by
    rw [List.getD_eq_getElem?_getD, List.getElem?_eq_getElem hk]; rfl
  have hm : (shape[k], cs[k]) ∈ List.zip shape cs := by
    rw [List.mem_iff_getElem?]
    refine ⟨k, ?_⟩
    rw [List.getElem?_zip_eq_some]
    exact ⟨List.getElem?_eq_getElem hk, List.getElem?_eq_getElem hk'⟩
  have hs : cs[k].sum = shape[k] := hv _ hm
  have hpos : 0 < shape[k] := hp _ (List.getElem_mem hk)
  rw [e1, e2]
  refine ⟨?_, hs⟩
  intro hnil
  rw [hnil] at hs
  simp at hs
  omega

section
variable {inshape outshape : List Nat} {inchunks ic oc : List Chunks}

/-- everything the final theorems need, in one place -/
theorem plan_facts (hwf : WFIn inshape inchunks) (hpos : Pos inshape) (hprod : prodL inshape = prodL outshape)
    (h : plan inshape outshape inchunks = .ok (ic, oc)) :
    ic.length = inshape.length ∧ oc.length = outshape.length ∧
      BlockEquiv (List.zip inshape ic) (List.zip outshape oc) ∧
      (∀ a ∈ List.zip inshape ic, ValidAx a) ∧ (∀ b ∈ List.zip outshape oc, ValidAx b) := by
  obtain ⟨h1, h2, hg⟩ := plan_grouped hwf hpos hprod h
  exact ⟨h1, h2, grouped_equiv hg, (grouped_valid hg).1, (grouped_valid hg).2⟩

/-- **Validity.** Both results are chunkings: one non-empty tuple per axis, summing to the axis length. -/
theorem plan_valid (hwf : WFIn inshape inchunks) (hpos : Pos inshape) (hprod : prodL inshape = prodL outshape)
    (h : plan inshape outshape inchunks = .ok (ic, oc)) :
    IsLayout ic inshape ∧ IsLayout oc outshape := by
  obtain ⟨h1, h2, _, vA, vB⟩ := plan_facts hwf hpos hprod h
  refine ⟨isLayout_of_valid h1 vA hpos, isLayout_of_valid h2 vB ?_⟩
  apply pos_of_prodL_pos
  rw [← hprod]
  exact prodL_pos _ hpos

/-- **Block bijection.** Same list of block sizes (hence same number of blocks, and block `k` of the
rechunked input has as many elements as block `k` of the output, both grids in row-major order). -/
theorem plan_blockSizes (hwf : WFIn inshape inchunks) (hpos : Pos inshape)
    (hprod : prodL inshape = prodL outshape) (h : plan inshape outshape inchunks = .ok (ic, oc)) :
    blockSizes ic = blockSizes oc := by
  obtain ⟨h1, h2, he, _, _⟩ := plan_facts hwf hpos hprod h
  have := he.sizes
  rw [chunksA_zip h1, chunksA_zip h2] at this
  exact this

theorem plan_blocks (hwf : WFIn inshape inchunks) (hpos : Pos inshape)
    (hprod : prodL inshape = prodL outshape) (h : plan inshape outshape inchunks = .ok (ic, oc)) :
    prodL (numblocks ic) = prodL (numblocks oc) ∧
    ∀ bid, validBid oc bid →
      validBid ic (unflat (numblocks ic) (flatIndex (numblocks oc) bid)) ∧
      prodL (blockShape ic (unflat (numblocks ic) (flatIndex (numblocks oc) bid))) =
        prodL (blockShape oc bid) := by
  obtain ⟨h1, h2, he, _, _⟩ := plan_facts hwf hpos hprod h
  have := equiv_blocks he
  rw [chunksA_zip h1, chunksA_zip h2] at this
  exact this

/-- **Central theorem (index form).** For every output multi-index `i`, the input element the blockwise
plan puts there has the same flat C-order position as `i`: it is the element NumPy's reshape puts there. -/
theorem plan_index (hwf : WFIn inshape inchunks) (hpos : Pos inshape)
    (hprod : prodL inshape = prodL outshape) (h : plan inshape outshape inchunks = .ok (ic, oc))
    (i : List Nat) (hi : InB i outshape) :
    InB (planIndex ic oc i) inshape ∧ flatIndex inshape (planIndex ic oc i) = flatIndex outshape i := by
  obtain ⟨h1, h2, he, vA, vB⟩ := plan_facts hwf hpos hprod h
  have := equiv_planIndex he vA vB i (by rw [shapeA_zip h2]; exact hi)
  rw [chunksA_zip h1, chunksA_zip h2, shapeA_zip h1, shapeA_zip h2] at this
  exact this

/-- **Central theorem (array form).** Reshaping block `k` of the rechunked input to the shape of output
block `k`, for every `k`, and concatenating along the advertised chunks gives `np.reshape`. -/
theorem plan_compute {α} (hwf : WFIn inshape inchunks) (hpos : Pos inshape)
    (hprod : prodL inshape = prodL outshape) (h : plan inshape outshape inchunks = .ok (ic, oc))
    (a : Arr α) (ha : a.shape = inshape) :
    Arr.Equiv (planArr a ic oc) (npReshape a outshape) := by
  obtain ⟨h1, h2, he, vA, vB⟩ := plan_facts hwf hpos hprod h
  have := equiv_planArr he vA vB a (by rw [shapeA_zip h1]; exact ha)
  rw [chunksA_zip h1, chunksA_zip h2, shapeA_zip h2] at this
  exact this

/-- the `M.reshape(in_block, shape)` of every task is legal: the input block has as many elements as `shape` -/
theorem plan_block_legal {α} (hwf : WFIn inshape inchunks) (hpos : Pos inshape)
    (hprod : prodL inshape = prodL outshape) (h : plan inshape outshape inchunks = .ok (ic, oc))
    (a : Arr α) (bid : List Nat) (hb : validBid oc bid) :
    prodL (blocksOf a ic (unflat (numblocks ic) (flatIndex (numblocks oc) bid))).shape =
      prodL (planBlock a ic oc bid).shape :=
  ((plan_blocks hwf hpos hprod h).2 bid hb).2

/-- the assembled result has the requested shape -/
theorem plan_shape {α} (hwf : WFIn inshape inchunks) (hpos : Pos inshape)
    (hprod : prodL inshape = prodL outshape) (h : plan inshape outshape inchunks = .ok (ic, oc))
    (a : Arr α) (ha : a.shape = inshape) : (planArr a ic oc).shape = outshape :=
  (plan_compute hwf hpos hprod h a ha).1

end

end Dask.Reshape
