/-
Lemmas for Model/RecordKeys.lean, part 1: `_norm_key` (idempotent, canonical, `==`-preserving) and
`str(key)` (injective on canonical keys whose strings are made of name characters).
-/
import DaskArrayModel.Model.RecordKeys
namespace Dask.Lemmas.RecordKeys
open Dask.RecordKeys

/-! ## normalize -/

theorem Comp.norm_idem (c : Comp) : c.norm.norm = c.norm := by
  cases c with
  | int k v => simp [Comp.norm, Comp.isIntegral, Comp.toInt]
  | bool np b => cases np <;> simp [Comp.norm, Comp.isIntegral, Comp.toInt]
  | str np s => simp [Comp.norm, Comp.isIntegral]

theorem normalize_idem (k : PKey) : normalize (normalize k) = normalize k := by
  cases k with
  | bare np s => rfl
  | tup cs => simp [normalize, List.map_map, Function.comp_def, Comp.norm_idem]

theorem Comp.norm_val (c : Comp) : c.norm.val = c.val := by
  cases c with
  | int k v => simp [Comp.norm, Comp.isIntegral, Comp.toInt, Comp.val]
  | bool np b => cases np <;> simp [Comp.norm, Comp.isIntegral, Comp.toInt, Comp.val]
  | str np s => simp [Comp.norm, Comp.isIntegral]

theorem normalize_val (k : PKey) : (normalize k).val = k.val := by
  cases k with
  | bare np s => rfl
  | tup cs => simp [normalize, PKey.val, List.map_map, Function.comp_def, Comp.norm_val]

theorem normalize_pyEq (k : PKey) : pyEq (normalize k) k = true := by
  simp [pyEq, normalize_val]

theorem Comp.norm_canon (c : Comp) (h : c.normalizable = true) : c.norm.canon = true := by
  cases c with
  | int k v => simp [Comp.norm, Comp.isIntegral, Comp.canon]
  | bool np b => cases np <;> simp_all [Comp.norm, Comp.isIntegral, Comp.canon, Comp.normalizable]
  | str np s => cases np <;> simp_all [Comp.norm, Comp.isIntegral, Comp.canon, Comp.normalizable]

theorem normalize_canon (k : PKey) (h : k.normalizable = true) : (normalize k).canon = true := by
  cases k with
  | bare np s => simpa [normalize, PKey.canon, PKey.normalizable] using h
  | tup cs =>
    simp only [PKey.normalizable, List.all_eq_true] at h
    simp only [normalize, PKey.canon, List.all_eq_true, List.mem_map]
    rintro c ⟨d, hd, rfl⟩
    exact Comp.norm_canon d (h d hd)

/-- without any hypothesis: a component of the normalised key is a plain int, or it is a non-Integral
component of the key as written (a string of either type, an `np.bool_`) -/
theorem Comp.norm_cases (c : Comp) :
    (∃ v, c.norm = .int .py v) ∨ (c.norm = c ∧ c.isIntegral = false) := by
  cases c with
  | int k v => left; exact ⟨v, by simp [Comp.norm, Comp.isIntegral, Comp.toInt]⟩
  | bool np b => cases np <;> simp [Comp.norm, Comp.isIntegral]
  | str np s => right; simp [Comp.norm, Comp.isIntegral]

theorem Comp.canon_norm (c : Comp) (h : c.canon = true) : c.norm = c := by
  cases c with
  | int k v => cases k <;> simp_all [Comp.norm, Comp.isIntegral, Comp.toInt, Comp.canon]
  | bool np b => simp [Comp.canon] at h
  | str np s => simp [Comp.norm, Comp.isIntegral]

theorem canon_normalize (k : PKey) (h : k.canon = true) : normalize k = k := by
  cases k with
  | bare np s => rfl
  | tup cs =>
    simp only [PKey.canon, List.all_eq_true] at h
    simp only [normalize, PKey.tup.injEq]
    induction cs with
    | nil => rfl
    | cons c cs ih =>
      simp only [List.map_cons, List.cons.injEq]
      exact ⟨Comp.canon_norm c (h c (by simp)), ih (fun d hd => h d (by simp [hd]))⟩

/-! ## `==` on canonical keys is identity -/

theorem Comp.val_inj {c d : Comp} (hc : c.canon = true) (hd : d.canon = true) (h : c.val = d.val) : c = d := by
  cases c with
  | int k v =>
    cases d with
    | int k' w => cases k <;> cases k' <;> simp_all [Comp.canon, Comp.val]
    | bool np b => simp [Comp.canon] at hd
    | str np s => simp [Comp.val] at h
  | bool np b => simp [Comp.canon] at hc
  | str np s =>
    cases d with
    | int k' w => simp [Comp.val] at h
    | bool np' b => simp [Comp.canon] at hd
    | str np' t => cases np <;> cases np' <;> simp_all [Comp.canon, Comp.val]

theorem val_inj {a b : PKey} (ha : a.canon = true) (hb : b.canon = true) (h : a.val = b.val) : a = b := by
  cases a with
  | bare np s =>
    cases b with
    | bare np' t => cases np <;> cases np' <;> simp_all [PKey.canon, PKey.val]
    | tup ds => simp [PKey.val] at h
  | tup cs =>
    cases b with
    | bare np' t => simp [PKey.val] at h
    | tup ds =>
      simp only [PKey.canon, List.all_eq_true] at ha hb
      simp only [PKey.val, Sum.inr.injEq] at h
      congr 1
      induction cs generalizing ds with
      | nil => cases ds with
        | nil => rfl
        | cons d ds => simp at h
      | cons c cs ih =>
        cases ds with
        | nil => simp at h
        | cons d ds =>
          simp only [List.map_cons, List.cons.injEq] at h
          rw [Comp.val_inj (ha c (by simp)) (hb d (by simp)) h.1,
            ih ds (fun x hx => ha x (by simp [hx])) (fun x hx => hb x (by simp [hx])) h.2]

/-! ## digits -/

theorem natChars_inj {a b : Nat} (h : natChars a = natChars b) : a = b := by
  have ha := @Nat.ofDigitChars_ten_toDigits a
  have hb := @Nat.ofDigitChars_ten_toDigits b
  simp only [natChars] at h
  rw [h] at ha
  omega

theorem natChars_ne_nil (a : Nat) : natChars a ≠ [] := Nat.toDigits_ne_nil

theorem natChars_digit {a : Nat} {c : Char} (h : c ∈ natChars a) : c.isDigit = true :=
  Nat.isDigit_of_mem_toDigits (by decide) (by decide) h

theorem intChars_inj {a b : Int} (h : intChars a = intChars b) : a = b := by
  cases a with
  | ofNat m =>
    cases b with
    | ofNat n => simp only [intChars] at h; rw [natChars_inj h]
    | negSucc n =>
      simp only [intChars] at h
      have : '-' ∈ natChars m := by rw [h]; simp
      exact absurd (natChars_digit this) (by decide)
  | negSucc m =>
    cases b with
    | ofNat n =>
      simp only [intChars] at h
      have : '-' ∈ natChars n := by rw [← h]; simp
      exact absurd (natChars_digit this) (by decide)
    | negSucc n =>
      simp only [intChars, List.cons.injEq, true_and] at h
      have := natChars_inj h
      have : m = n := by omega
      rw [this]

/-! ## tokens -/

/-- characters of a rendered canonical component -/
def tokC (c : Char) : Bool := isNameChar c || c = '\''

theorem digit_name {c : Char} (h : c.isDigit = true) : isNameChar c = true := by
  simp only [isNameChar, Char.isAlphanum, h, Bool.or_true, Bool.true_or]

theorem intChars_tok {a : Int} {c : Char} (h : c ∈ intChars a) : tokC c = true := by
  cases a with
  | ofNat m => simp only [intChars] at h; simp [tokC, digit_name (natChars_digit h)]
  | negSucc m =>
    simp only [intChars, List.mem_cons] at h
    rcases h with rfl | h
    · decide
    · simp [tokC, digit_name (natChars_digit h)]

theorem intChars_no_quote (a : Int) : '\'' ∉ intChars a := by
  intro h
  cases a with
  | ofNat m => exact absurd (natChars_digit (by simpa [intChars] using h)) (by decide)
  | negSucc m =>
    simp only [intChars, List.mem_cons] at h
    rcases h with h | h
    · exact absurd h (by decide)
    · exact absurd (natChars_digit h) (by decide)

theorem Comp.chars_tok {c : Comp} (hc : c.canon = true) (hp : c.plain = true) :
    ∀ x ∈ c.chars, tokC x = true := by
  cases c with
  | int k v =>
    cases k with
    | py => intro x hx; exact intChars_tok (by simpa [Comp.chars] using hx)
    | np nm => simp [Comp.canon] at hc
  | bool np b => simp [Comp.canon] at hc
  | str np s =>
    cases np with
    | true => simp [Comp.canon] at hc
    | false =>
      simp only [Comp.plain, List.all_eq_true] at hp
      intro x hx
      simp only [Comp.chars, List.mem_cons, List.mem_append, List.mem_nil_iff, or_false] at hx
      rcases hx with rfl | hx | rfl
      · decide
      · simp [tokC, hp x hx]
      · decide

/-- unique splitting at the first non-token character -/
theorem split_unique {a b r r' : List Char} {s s' : Char}
    (ha : ∀ x ∈ a, tokC x = true) (hb : ∀ x ∈ b, tokC x = true)
    (hs : tokC s = false) (hs' : tokC s' = false)
    (h : a ++ s :: r = b ++ s' :: r') : a = b ∧ s = s' ∧ r = r' := by
  induction a generalizing b with
  | nil =>
    cases b with
    | nil => simpa using h
    | cons y b =>
      simp only [List.nil_append, List.cons_append, List.cons.injEq] at h
      have := hb y (by simp)
      rw [← h.1, hs] at this
      cases this
  | cons x a ih =>
    cases b with
    | nil =>
      simp only [List.nil_append, List.cons_append, List.cons.injEq] at h
      have := ha x (by simp)
      rw [h.1, hs'] at this
      cases this
    | cons y b =>
      simp only [List.cons_append, List.cons.injEq] at h
      obtain ⟨h1, h2, h3⟩ := ih (fun z hz => ha z (by simp [hz])) (fun z hz => hb z (by simp [hz])) h.2
      exact ⟨by rw [h.1, h1], h2, h3⟩

theorem Comp.chars_inj {c d : Comp} (hc : c.canon = true) (hd : d.canon = true)
    (h : c.chars = d.chars) : c = d := by
  cases c with
  | bool np b => simp [Comp.canon] at hc
  | int k v =>
    cases k with
    | np nm => simp [Comp.canon] at hc
    | py =>
      cases d with
      | bool np b => simp [Comp.canon] at hd
      | int k' w =>
        cases k' with
        | np nm => simp [Comp.canon] at hd
        | py => simp only [Comp.chars] at h; rw [intChars_inj h]
      | str np s =>
        cases np with
        | true => simp [Comp.canon] at hd
        | false =>
          simp only [Comp.chars] at h
          exact absurd (by rw [h]; simp) (intChars_no_quote v)
  | str np s =>
    cases np with
    | true => simp [Comp.canon] at hc
    | false =>
      cases d with
      | bool np b => simp [Comp.canon] at hd
      | int k' w =>
        cases k' with
        | np nm => simp [Comp.canon] at hd
        | py =>
          simp only [Comp.chars] at h
          exact absurd (by rw [← h]; simp) (intChars_no_quote w)
      | str np' t =>
        cases np' with
        | true => simp [Comp.canon] at hd
        | false =>
          simp only [Comp.chars, List.cons.injEq, true_and] at h
          have := List.append_cancel_right h
          rw [String.toList_inj.mp this]

theorem tailChars_head (cs : List Comp) : ∃ s r, tailChars cs = s :: r ∧ tokC s = false := by
  cases cs with
  | nil => exact ⟨')', [], rfl, by decide⟩
  | cons c cs => exact ⟨',', _, rfl, by decide⟩

theorem tailChars_inj {cs ds : List Comp}
    (hc : ∀ c ∈ cs, c.canon = true ∧ c.plain = true) (hd : ∀ c ∈ ds, c.canon = true ∧ c.plain = true)
    (h : tailChars cs = tailChars ds) : cs = ds := by
  induction cs generalizing ds with
  | nil =>
    cases ds with
    | nil => rfl
    | cons d ds => simp [tailChars] at h
  | cons c cs ih =>
    cases ds with
    | nil => simp [tailChars] at h
    | cons d ds =>
      simp only [tailChars, List.cons_append, List.nil_append, List.cons.injEq, true_and] at h
      obtain ⟨s, r, e1, hs⟩ := tailChars_head cs
      obtain ⟨s', r', e2, hs'⟩ := tailChars_head ds
      rw [e1, e2] at h
      obtain ⟨h1, h2, h3⟩ := split_unique (Comp.chars_tok (hc c (by simp)).1 (hc c (by simp)).2)
        (Comp.chars_tok (hd d (by simp)).1 (hd d (by simp)).2) hs hs' h
      have ht : tailChars cs = tailChars ds := by rw [e1, e2, h2, h3]
      rw [Comp.chars_inj (hc c (by simp)).1 (hd d (by simp)).1 h1,
        ih (fun x hx => hc x (by simp [hx])) (fun x hx => hd x (by simp [hx])) ht]

/-- the characters of a tuple key: `(`, then either `)` or the first component followed by a non-token -/
theorem tupChars_eq (c : Comp) (cs : List Comp) :
    keyChars (.tup (c :: cs)) = '(' :: (c.chars ++ ',' :: (match cs with | [] => [')'] | d :: ds => ' ' :: (d.chars ++ tailChars ds))) := by
  cases cs with
  | nil => simp [keyChars]
  | cons d ds => simp [keyChars, tailChars]

theorem paren_mem (cs : List Comp) : '(' ∈ keyChars (.tup cs) := by
  match cs with
  | [] => simp [keyChars]
  | [c] => simp [keyChars]
  | c :: d :: cs => simp [keyChars]

theorem keyChars_inj {a b : PKey} (ha : a.canon = true) (hb : b.canon = true)
    (pa : a.plain = true) (pb : b.plain = true) (h : keyChars a = keyChars b) : a = b := by
  cases a with
  | bare np s =>
    cases b with
    | bare np' t =>
      cases np <;> cases np' <;> simp_all [PKey.canon, keyChars, String.toList_inj]
    | tup ds =>
      simp only [PKey.plain, List.all_eq_true] at pa
      have : '(' ∈ s.toList := by
        have h' : s.toList = keyChars (.tup ds) := h
        rw [h']; exact paren_mem ds
      exact absurd (pa _ this) (by decide)
  | tup cs =>
    cases b with
    | bare np' t =>
      simp only [PKey.plain, List.all_eq_true] at pb
      have : '(' ∈ t.toList := by
        have h' : keyChars (.tup cs) = t.toList := h
        rw [← h']; exact paren_mem cs
      exact absurd (pb _ this) (by decide)
    | tup ds =>
      simp only [PKey.canon, PKey.plain, List.all_eq_true] at ha hb pa pb
      cases cs with
      | nil =>
        cases ds with
        | nil => rfl
        | cons d ds =>
          rw [tupChars_eq] at h
          simp only [keyChars, List.cons.injEq, true_and] at h
          have := split_unique (a := []) (by simp) (Comp.chars_tok (hb d (by simp)) (pb d (by simp)))
            (by decide) (by decide) h
          exact absurd this.2.1 (by decide)
      | cons c cs =>
        cases ds with
        | nil =>
          rw [tupChars_eq] at h
          simp only [keyChars, List.cons.injEq, true_and] at h
          have := split_unique (b := []) (Comp.chars_tok (ha c (by simp)) (pa c (by simp))) (by simp)
            (by decide) (by decide) h
          exact absurd this.2.1 (by decide)
        | cons d ds =>
          rw [tupChars_eq, tupChars_eq] at h
          simp only [List.cons.injEq, true_and] at h
          obtain ⟨h1, _, h3⟩ := split_unique (Comp.chars_tok (ha c (by simp)) (pa c (by simp)))
            (Comp.chars_tok (hb d (by simp)) (pb d (by simp))) (by decide) (by decide) h
          have hcd := Comp.chars_inj (ha c (by simp)) (hb d (by simp)) h1
          have ht : tailChars cs = tailChars ds := by
            cases cs with
            | nil =>
              cases ds with
              | nil => rfl
              | cons e es => simp at h3
            | cons e es =>
              cases ds with
              | nil => simp at h3
              | cons e' es' =>
                simp only [List.cons.injEq, true_and] at h3
                simp [tailChars, h3]
          have := tailChars_inj (fun x hx => ⟨ha x (by simp [hx]), pa x (by simp [hx])⟩)
            (fun x hx => ⟨hb x (by simp [hx]), pb x (by simp [hx])⟩) ht
          rw [hcd, this]

theorem keyStr_inj {a b : PKey} (ha : a.canon = true) (hb : b.canon = true)
    (pa : a.plain = true) (pb : b.plain = true) (h : keyStr a = keyStr b) : a = b :=
  keyChars_inj ha hb pa pb (String.ofList_injective h)

theorem keyStr_bare (np : Bool) (s : String) : keyStr (.bare np s) = s := by
  simp [keyStr, keyChars]

end Dask.Lemmas.RecordKeys
