/-
Permutation algebra for Model/Perm.lean: validity of composed / inverse permutations, `unperm` under composition,
the `_inverse_axes` loop, double transpose, identity, take through transpose.  Core Lean only.
-/
import DaskArrayModel.Lemmas.ExprDerived
import DaskArrayModel.Model.Perm
import DaskArrayModel.Model.Expr2
namespace Dask.Perm
open Dask.Py Dask.Slicing Dask.ND

/-! ### validity from a two-sided inverse -/

theorem permOK_of_inv {r : List Nat} {n : Nat} (g : Nat → Nat) (hlen : r.length = n)
    (h1 : ∀ k, k < n → r.getD k 0 < n) (h2 : ∀ k, k < n → g (r.getD k 0) = k)
    (h3 : ∀ a, a < n → g a < n ∧ r.getD (g a) 0 = a) : PermOK r n := by
  refine ⟨hlen, ?_, ?_, ?_⟩
  · intro a ha
    obtain ⟨k, hk, rfl⟩ := List.mem_iff_getElem.mp ha
    rw [← getD_eq_getElem r k 0 hk]
    exact h1 k (hlen ▸ hk)
  · intro a ha
    obtain ⟨hg, he⟩ := h3 a ha
    rw [getD_eq_getElem r _ 0 (hlen ▸ hg)] at he
    rw [← he]
    exact List.getElem_mem _
  · rw [List.Nodup, List.pairwise_iff_getElem]
    intro i j hi hj hij heq
    have e1 := h2 i (hlen ▸ hi)
    have e2 := h2 j (hlen ▸ hj)
    rw [getD_eq_getElem r i 0 hi] at e1
    rw [getD_eq_getElem r j 0 hj] at e2
    rw [heq] at e1
    omega

theorem range_ok (n : Nat) : PermOK (List.range n) n :=
  permOK_of_inv (fun a => a) (by simp)
    (fun k hk => by rw [getD_range _ _ hk]; exact hk)
    (fun k hk => by rw [getD_range _ _ hk])
    (fun a ha => ⟨ha, getD_range _ _ ha⟩)

theorem range_idxOf {n a : Nat} (ha : a < n) : (List.range n).idxOf a = a := by
  have := (range_ok n).idxOf_getD ha
  rwa [getD_range _ _ ha] at this

/-! ### composition -/

theorem composeAsCode_length (p q : List Nat) : (composeAsCode p q).length = q.length := by
  simp [composeAsCode]

theorem composeAsCode_getD {p q : List Nat} {n : Nat} (hq : PermOK q n) {k : Nat} (hk : k < n) :
    (composeAsCode p q).getD k 0 = p.getD (q.getD k 0) 0 := by
  unfold composeAsCode
  rw [getD_map _ q k 0 0 (by rw [hq.len]; exact hk)]

theorem composeAsCode_ok {p q : List Nat} {n : Nat} (hp : PermOK p n) (hq : PermOK q n) :
    PermOK (composeAsCode p q) n := by
  apply permOK_of_inv (fun a => q.idxOf (p.idxOf a)) (by rw [composeAsCode_length, hq.len])
  · intro k hk
    rw [composeAsCode_getD hq hk]
    exact hp.getD_lt (hq.getD_lt hk)
  · intro k hk
    rw [composeAsCode_getD hq hk]
    show q.idxOf (p.idxOf (p.getD (q.getD k 0) 0)) = k
    rw [hp.idxOf_getD (hq.getD_lt hk), hq.idxOf_getD hk]
  · intro a ha
    refine ⟨hq.idxOf_lt (hp.idxOf_lt ha), ?_⟩
    rw [composeAsCode_getD hq (hq.idxOf_lt (hp.idxOf_lt ha)), hq.getD_idxOf (hp.idxOf_lt ha), hp.getD_idxOf ha]

theorem composeAsCode_idxOf {p q : List Nat} {n : Nat} (hp : PermOK p n) (hq : PermOK q n) {a : Nat}
    (ha : a < n) : (composeAsCode p q).idxOf a = q.idxOf (p.idxOf a) := by
  have hk := hq.idxOf_lt (hp.idxOf_lt ha)
  have h := (composeAsCode_ok hp hq).idxOf_getD hk
  rwa [composeAsCode_getD hq hk, hq.getD_idxOf (hp.idxOf_lt ha), hp.getD_idxOf ha] at h

/-- reading through two transposes = reading through the composed one -/
theorem unperm_compose {p q : List Nat} {n : Nat} (hp : PermOK p n) (hq : PermOK q n) (i : List Nat) :
    unperm p (unperm q i) = unperm (composeAsCode p q) i := by
  unfold unperm
  rw [composeAsCode_length, hp.len, hq.len]
  apply List.map_congr_left
  intro a ha
  have ha' := List.mem_range.mp ha
  have h1 := unperm_getD q i (p.idxOf a) (by rw [hq.len]; exact hp.idxOf_lt ha')
  unfold unperm at h1
  rw [hq.len] at h1
  rw [h1, composeAsCode_idxOf hp hq ha']

/-! ### the `_inverse_axes` loop -/

theorem inverseLoop_length : ∀ (r : List Nat) (i : Nat) (inv : List Nat),
    (inverseLoop r i inv).length = inv.length
  | [], _, _ => rfl
  | a :: r, i, inv => by
    simp only [inverseLoop]
    rw [inverseLoop_length r (i + 1) (inv.set a i), List.length_set]

theorem inverseLoop_getD : ∀ (r : List Nat) (i : Nat) (inv : List Nat) (a : Nat), r.Nodup →
    (∀ x ∈ r, x < inv.length) →
    (inverseLoop r i inv).getD a 0 = if a ∈ r then i + r.idxOf a else inv.getD a 0
  | [], _, _, _, _, _ => by simp [inverseLoop]
  | b :: r, i, inv, a, hnd, hlt => by
    simp only [inverseLoop]
    have hnd' := List.nodup_cons.mp hnd
    rw [inverseLoop_getD r (i + 1) (inv.set b i) a hnd'.2
      (fun x hx => by rw [List.length_set]; exact hlt x (List.mem_cons_of_mem _ hx))]
    by_cases hab : a = b
    · subst hab
      rw [if_neg hnd'.1, if_pos (List.mem_cons_self), getD_set_eq _ _ _ _ (hlt a List.mem_cons_self)]
      simp
    · by_cases har : a ∈ r
      · have hc : (b :: r).idxOf a = r.idxOf a + 1 := by
          rw [List.idxOf_cons]
          have : (b == a) = false := by simp [Ne.symm hab]
          rw [this]; rfl
        rw [if_pos har, if_pos (List.mem_cons_of_mem _ har), hc]
        omega
      · rw [if_neg har, if_neg (by simp [hab, har]), getD_set_ne _ _ _ _ _ (Ne.symm hab)]

theorem inverse_length (p : List Nat) : (inverse p).length = p.length := by
  unfold inverse; rw [inverseLoop_length]; simp

theorem inverse_getD {p : List Nat} {n : Nat} (hp : PermOK p n) {a : Nat} (ha : a < n) :
    (inverse p).getD a 0 = p.idxOf a := by
  unfold inverse
  rw [inverseLoop_getD p 0 _ a hp.nodup (fun x hx => by simp only [List.length_replicate]; rw [hp.len]; exact hp.lt x hx),
    if_pos (hp.mem a ha)]
  omega

theorem inverse_eq {p : List Nat} {n : Nat} (hp : PermOK p n) :
    inverse p = (List.range n).map (fun a => p.idxOf a) := by
  apply list_ext_getD
  · rw [inverse_length, hp.len]; simp
  · intro k hk
    rw [inverse_length, hp.len] at hk
    rw [inverse_getD hp hk, getD_map _ _ k 0 0 (by simpa using hk), getD_range _ _ hk]

theorem inverse_ok {p : List Nat} {n : Nat} (hp : PermOK p n) : PermOK (inverse p) n := by
  apply permOK_of_inv (fun a => p.getD a 0) (by rw [inverse_length, hp.len])
  · intro k hk; rw [inverse_getD hp hk]; exact hp.idxOf_lt hk
  · intro k hk; rw [inverse_getD hp hk]; exact hp.getD_idxOf hk
  · intro a ha
    exact ⟨hp.getD_lt ha, by rw [inverse_getD hp (hp.getD_lt ha)]; exact hp.idxOf_getD ha⟩

theorem inverseE_ok {p : List Nat} {n : Nat} (hp : PermOK p n) : inverseE p = .ok (inverse p) := by
  unfold inverseE
  rw [if_pos]
  rw [List.all_eq_true]
  intro a ha
  rw [decide_eq_true_eq, hp.len]
  exact hp.lt a ha

theorem compose_inverse_right {p : List Nat} {n : Nat} (hp : PermOK p n) :
    composeAsCode p (inverse p) = List.range n := by
  apply list_ext_getD
  · rw [composeAsCode_length, inverse_length, hp.len]; simp
  · intro k hk
    rw [composeAsCode_length, inverse_length, hp.len] at hk
    rw [composeAsCode_getD (inverse_ok hp) hk, inverse_getD hp hk, hp.getD_idxOf hk, getD_range _ _ hk]

theorem compose_inverse_left {p : List Nat} {n : Nat} (hp : PermOK p n) :
    composeAsCode (inverse p) p = List.range n := by
  apply list_ext_getD
  · rw [composeAsCode_length, hp.len]; simp
  · intro k hk
    rw [composeAsCode_length, hp.len] at hk
    rw [composeAsCode_getD hp hk, inverse_getD hp (hp.getD_lt hk), hp.idxOf_getD hk, getD_range _ _ hk]

theorem inverse_inverse {p : List Nat} {n : Nat} (hp : PermOK p n) : inverse (inverse p) = p := by
  apply list_ext_getD
  · rw [inverse_length, inverse_length]
  · intro k hk
    rw [inverse_length, inverse_length, hp.len] at hk
    rw [inverse_getD (inverse_ok hp) hk]
    have := (inverse_ok hp).idxOf_getD (hp.getD_lt hk)
    rwa [inverse_getD hp (hp.getD_lt hk), hp.idxOf_getD hk] at this

/-- `_input_block_id` is the un-permutation of the denotation -/
theorem inputBlockId_eq {p : List Nat} {n : Nat} (hp : PermOK p n) (bid : List Nat) (hb : bid.length = n) :
    inputBlockId p bid = unperm p bid := by
  unfold inputBlockId unperm
  rw [hb, hp.len]
  apply List.map_congr_left
  intro a ha
  rw [inverse_getD hp (List.mem_range.mp ha)]

/-! ### the array statements -/

theorem den_transpose (env : Env) (e : Expr) (p : List Nat) :
    den env (.transpose e p) = transposeArr (den env e) p := rfl

theorem den2_take (env : Env) (e : Expr2) (ax : Nat) (idx : List Int) :
    den2 env (.take e ax idx) = takeArr ⟨shape2 e, (den2 env e).get⟩ ax idx := rfl

theorem unperm_range (n : Nat) (i : List Nat) (hi : i.length = n) : unperm (List.range n) i = i := by
  apply list_ext_getD
  · rw [unperm_length, hi]; simp
  · intro k hk
    rw [unperm_length, List.length_range] at hk
    rw [unperm_getD _ _ _ (by simpa using hk), range_idxOf hk]

theorem shape_permute_range (sh : List Nat) : (List.range sh.length).map (fun k => sh.getD k 0) = sh := by
  apply list_ext_getD
  · simp
  · intro k hk
    rw [List.length_map, List.length_range] at hk
    rw [getD_map _ _ k 0 0 (by simpa using hk), getD_range _ _ hk]

theorem transposeArr_identity (a : Arr Int) : Arr.Equiv (transposeArr a (List.range a.shape.length)) a := by
  refine ⟨shape_permute_range a.shape, ?_⟩
  intro i hi
  simp only [transposeArr] at hi ⊢
  rw [shape_permute_range] at hi
  rw [unperm_range _ i hi.length_eq]

theorem shape_compose {p q : List Nat} {n : Nat} (hp : PermOK p n) (hq : PermOK q n) (sh : List Nat) :
    q.map (fun k => (p.map (fun k => sh.getD k 0)).getD k 0) = (composeAsCode p q).map (fun k => sh.getD k 0) := by
  unfold composeAsCode
  rw [List.map_map]
  apply List.map_congr_left
  intro k hk
  have := hq.lt k hk
  simp only [Function.comp]
  rw [getD_map _ p k 0 0 (by rw [hp.len]; exact this)]

theorem transposeArr_transposeArr {p q : List Nat} {n : Nat} (hp : PermOK p n) (hq : PermOK q n) (a : Arr Int) :
    Arr.Equiv (transposeArr (transposeArr a p) q) (transposeArr a (composeAsCode p q)) := by
  refine ⟨shape_compose hp hq a.shape, ?_⟩
  intro i _
  simp only [transposeArr]
  rw [unperm_compose hp hq]

/-! ### take through transpose -/

theorem unperm_set {p : List Nat} {n : Nat} (hp : PermOK p n) (i : List Nat) (hi : i.length = n) {k : Nat}
    (hk : k < n) (v : Nat) : unperm p (i.set k v) = (unperm p i).set (p.getD k 0) v := by
  apply list_ext_getD
  · rw [unperm_length, List.length_set, unperm_length]
  · intro a ha
    rw [unperm_length, hp.len] at ha
    rw [unperm_getD _ _ _ (by rw [hp.len]; exact ha)]
    by_cases hak : a = p.getD k 0
    · subst hak
      rw [hp.idxOf_getD hk, getD_set_eq _ _ _ _ (by rw [hi]; exact hk),
        getD_set_eq _ _ _ _ (by rw [unperm_length, hp.len]; exact ha)]
    · have hne : p.idxOf a ≠ k := by
        intro h
        apply hak
        rw [← h, hp.getD_idxOf ha]
      rw [getD_set_ne _ _ _ _ _ (Ne.symm hne), getD_set_ne _ _ _ _ _ (Ne.symm hak),
        unperm_getD _ _ _ (by rw [hp.len]; exact ha)]

theorem shape_take_transpose {p : List Nat} {n : Nat} (hp : PermOK p n) (sh : List Nat) (hs : sh.length = n)
    {k : Nat} (hk : k < n) (L : Nat) :
    (p.map (fun j => sh.getD j 0)).set k L = p.map (fun j => (sh.set (p.getD k 0) L).getD j 0) := by
  apply list_ext_getD
  · simp
  · intro j hj
    rw [List.length_set, List.length_map, hp.len] at hj
    rw [getD_map _ p j 0 0 (by rw [hp.len]; exact hj)]
    by_cases hjk : j = k
    · subst hjk
      rw [getD_set_eq _ _ _ _ (by rw [List.length_map, hp.len]; exact hj),
        getD_set_eq _ _ _ _ (by rw [hs]; exact hp.getD_lt hj)]
    · have hne : p.getD j 0 ≠ p.getD k 0 := by
        intro h
        apply hjk
        rw [← hp.idxOf_getD hj, h, hp.idxOf_getD hk]
      rw [getD_set_ne _ _ _ _ _ (Ne.symm hjk), getD_set_ne _ _ _ _ _ (Ne.symm hne),
        getD_map _ p j 0 0 (by rw [hp.len]; exact hj)]

/-- `take(x.transpose(p), idx, axis=k)` = `take(x, idx, axis=p[k]).transpose(p)` -/
theorem take_through_transpose {p : List Nat} {n : Nat} (hp : PermOK p n) (a : Arr Int) (ha : a.shape.length = n)
    {k : Nat} (hk : k < n) (idx : List Int) :
    Arr.Equiv (takeArr (transposeArr a p) k idx) (acceptShuffle a p k idx) := by
  refine ⟨shape_take_transpose hp a.shape ha hk idx.length, ?_⟩
  intro i hi
  have hil : i.length = n := by
    have := hi.length_eq
    simp only [takeArr, transposeArr, List.length_set, List.length_map] at this
    rw [this, hp.len]
  simp only [takeArr, transposeArr, acceptShuffle, shuffleAxis]
  rw [unperm_set hp i hil hk, getD_map _ p k 0 0 (by rw [hp.len]; exact hk),
    unperm_getD _ _ _ (by rw [hp.len]; exact hp.getD_lt hk), hp.idxOf_getD hk]

end Dask.Perm
