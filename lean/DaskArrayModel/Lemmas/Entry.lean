/-
Lemmas for C05 (entry points / from_graph lookup / RootAlias pin) and C09 (shared lowering cache).
No Mathlib.
-/
import DaskArrayModel.Model.Entry
namespace Dask.Lemmas.Entry
open Dask.Entry

variable {V : Type}

/-! ## dict operations -/

theorem get?_erase_self (l : Layer V) (k : Key) : get? (erase l k) k = none := by
  induction l with
  | nil => rfl
  | cons p r ih =>
    obtain ⟨k', v⟩ := p
    by_cases h : k' = k
    · simp [erase, List.filter, h]; exact ih
    · simp [erase, List.filter, h, get?]; exact ih

theorem get?_erase_ne (l : Layer V) {k k' : Key} (h : k ≠ k') : get? (erase l k) k' = get? l k' := by
  induction l with
  | nil => rfl
  | cons p r ih =>
    obtain ⟨k0, v⟩ := p
    by_cases h0 : k0 = k
    · subst h0
      simp [erase, List.filter, get?, h]; exact ih
    · simp [erase, List.filter, h0, get?]
      by_cases h1 : k0 = k'
      · simp [h1]
      · simp [h1]; exact ih

theorem get?_assign_self (l : Layer V) (k : Key) (v : Node V) : get? (assign l k v) k = some v := by
  simp [assign, get?]

theorem get?_assign_ne (l : Layer V) {k k' : Key} (v : Node V) (h : k ≠ k') : get? (assign l k v) k' = get? l k' := by
  simp [assign, get?, h]; exact get?_erase_ne l h

theorem get?_isSome_of_mem {l : Layer V} {k : Key} {v : Node V} (h : (k, v) ∈ l) : (get? l k).isSome = true := by
  induction l with
  | nil => cases h
  | cons p r ih =>
    obtain ⟨k0, v0⟩ := p
    by_cases h0 : k0 = k
    · simp [get?, h0]
    · simp [get?, h0]
      cases h with
      | head => exact absurd rfl h0
      | tail _ h' => exact ih h'

theorem mem_of_get? {l : Layer V} {k : Key} {v : Node V} (h : get? l k = some v) : (k, v) ∈ l := by
  induction l with
  | nil => cases h
  | cons p r ih =>
    obtain ⟨k0, v0⟩ := p
    by_cases h0 : k0 = k
    · simp [get?, h0] at h; subst h0; subst h; exact List.mem_cons_self
    · simp [get?, h0] at h; exact List.mem_cons_of_mem _ (ih h)

theorem get?_append (l r : Layer V) (k : Key) :
    get? (l ++ r) k = match get? l k with | some v => some v | none => get? r k := by
  induction l with
  | nil => simp [get?]
  | cons p t ih =>
    obtain ⟨k0, v0⟩ := p
    by_cases h0 : k0 = k
    · simp [get?, h0]
    · simp [get?, h0]; exact ih


/-! ## `_keys_by_block_id` -/

/-- every entry of the dict `by_block_id` is keyed by its key's own block id -/
def KbOK (kb : List (BlockId × Key)) : Prop := ∀ b k, (b, k) ∈ kb → k.bid = b

theorem lookup_mem {α β : Type} [BEq α] [LawfulBEq α] {l : List (α × β)} {a : α} {b : β}
    (h : l.lookup a = some b) : (a, b) ∈ l := by
  induction l with
  | nil => cases h
  | cons p r ih =>
    obtain ⟨k, v⟩ := p
    simp only [List.lookup] at h
    split at h
    · rename_i heq
      have : a = k := by simpa using heq
      subst this; cases h; exact List.mem_cons_self
    · exact List.mem_cons_of_mem _ (ih h)

theorem keysByBlockId_ok {ks : List Key} {acc kb : List (BlockId × Key)}
    (h : keysByBlockId ks acc = .ok kb) (ha : KbOK acc) : KbOK kb := by
  induction ks generalizing acc with
  | nil => simp [keysByBlockId] at h; subst h; exact ha
  | cons k ks ih =>
    simp only [keysByBlockId] at h
    split at h
    · apply ih h
      intro b k' hm
      rcases List.mem_append.mp hm with hm | hm
      · exact ha _ _ hm
      · simp at hm; obtain ⟨rfl, rfl⟩ := hm; rfl
    · split at h
      · exact ih h ha
      · cases h

theorem KbOK_nil : KbOK [] := by intro b k h; cases h

theorem findLayerKey_bid {name : String} {kb : List (BlockId × Key)} {inf : Option String}
    {dsk : Layer V} {b : BlockId} {k : Key} (hk : KbOK kb)
    (h : findLayerKey name kb inf dsk b = .ok k) : k.bid = b := by
  unfold findLayerKey at h
  cases hl : kb.lookup b with
  | none =>
    simp only [hl] at h
    split at h
    · cases h; rfl
    · split at h
      · cases h; rfl
      · cases h
  | some e =>
    simp only [hl] at h
    split at h
    · cases h; exact hk _ _ (lookup_mem hl)
    · split at h
      · cases h; rfl
      · split at h
        · cases h; rfl
        · cases h

/-- the lookup reads `dsk` only at keys of block `b` -/
theorem findLayerKey_congr {name : String} {kb : List (BlockId × Key)} {inf : Option String}
    {d d' : Layer V} {b : BlockId} (hk : KbOK kb) (hd : ∀ k : Key, k.bid = b → get? d k = get? d' k) :
    findLayerKey name kb inf d b = findLayerKey name kb inf d' b := by
  unfold findLayerKey
  have h1 : has d ⟨name, b⟩ = has d' ⟨name, b⟩ := by simp [has, hd ⟨name, b⟩ rfl]
  cases hl : kb.lookup b with
  | none => simp only [h1]
  | some e =>
    have h2 : has d e = has d' e := by simp [has, hd e (hk _ _ (lookup_mem hl))]
    simp only [h1, h2]


/-! ## the block grid -/

theorem grid_length : ∀ {nb : List Nat} {b : BlockId}, b ∈ grid nb → b.length = nb.length
  | [], b, h => by simp [grid] at h; subst h; rfl
  | n :: ns, b, h => by
    simp only [grid, List.mem_flatMap, List.mem_map] at h
    obtain ⟨i, _, bs, hbs, rfl⟩ := h
    simp [grid_length hbs]

theorem grid_nodup : ∀ nb : List Nat, (grid nb).Nodup
  | [] => by simp [grid]
  | n :: ns => by
    have ih := grid_nodup ns
    simp only [grid, List.Nodup]
    rw [List.pairwise_flatMap]
    constructor
    · intro i _
      rw [List.pairwise_map]
      exact List.Pairwise.imp (fun h => by simpa using h) ih
    · have : (List.range n).Nodup := List.nodup_range
      refine List.Pairwise.imp ?_ this
      intro i j hij x hx y hy
      simp only [List.mem_map] at hx hy
      obtain ⟨_, _, rfl⟩ := hx
      obtain ⟨_, _, rfl⟩ := hy
      intro h
      exact hij (by simpa using (List.cons.inj h).1)



/-! ## `_inferred_layer_name` -/

theorem inferred_has {fg : FromGraph V} {n : String} (h : inferredLayerName fg = some n)
    {b : BlockId} (hb : b ∈ grid fg.numblocks) : has fg.layer ⟨n, b⟩ = true := by
  unfold inferredLayerName at h
  simp only at h
  split at h
  · rename_i n' heq
    cases h
    have hmem : n ∈ (layerNames fg.layer fg.numblocks.length).filter
        (fun n => sameSet (bidsOf fg.layer fg.numblocks.length n) (grid fg.numblocks)) := by
      rw [heq]; exact List.mem_cons_self
    have hs := (List.mem_filter.mp hmem).2
    simp only [sameSet, Bool.and_eq_true, List.all_eq_true] at hs
    have hc := hs.2 b hb
    have hb' : b ∈ bidsOf fg.layer fg.numblocks.length n := by simpa using hc
    simp only [bidsOf, List.mem_map, List.mem_filter] at hb'
    obtain ⟨p, ⟨hp, hcond⟩, hpb⟩ := hb'
    obtain ⟨k, v⟩ := p
    simp only [Bool.and_eq_true, beq_iff_eq] at hcond
    have hk : k = ⟨n, b⟩ := by
      cases k; simp_all
    subst hk
    exact get?_isSome_of_mem hp
  · cases h

/-- whatever key the lookup returns is present in `dsk` (so `dsk[layer_key]` never raises KeyError) -/
theorem findLayerKey_present {name : String} {kb : List (BlockId × Key)} {inf : Option String}
    {dsk : Layer V} {b : BlockId} {k : Key}
    (hinf : ∀ n, inf = some n → has dsk ⟨n, b⟩ = true)
    (h : findLayerKey name kb inf dsk b = .ok k) : has dsk k = true := by
  unfold findLayerKey at h
  rcases inf with _ | n
  · cases hl : kb.lookup b with
    | none =>
      simp only [hl] at h
      split at h
      · rename_i hh; cases h; exact hh
      · cases h
    | some e =>
      simp only [hl] at h
      split at h
      · rename_i hh; cases h; exact hh
      · split at h
        · rename_i hh; cases h; exact hh
        · cases h
  · have hn := hinf n rfl
    cases hl : kb.lookup b with
    | none =>
      simp only [hl] at h
      split at h
      · rename_i hh; cases h; exact hh
      · cases h; exact hn
    | some e =>
      simp only [hl] at h
      split at h
      · rename_i hh; cases h; exact hh
      · split at h
        · rename_i hh; cases h; exact hh
        · cases h; exact hn


end Dask.Lemmas.Entry
