/-
Lemmas for C05 (entry points / from_graph lookup / RootAlias pin) and C09 (shared lowering cache).
No Mathlib.
-/
import DaskArrayModel.Model.Entry
namespace Dask.Lemmas.Entry
open Dask.Entry

variable {V : Type}

/-! ## dict operations -/

theorem get?_erase_self (l : Layer V) (k : Key) : get? (erase l k) k = none := by
  induction l with
  | nil => rfl
  | cons p r ih =>
    obtain ⟨k', v⟩ := p
    by_cases h : k' = k
    · simp [erase, List.filter, h]; exact ih
    · simp [erase, List.filter, h, get?]; exact ih

theorem get?_erase_ne (l : Layer V) {k k' : Key} (h : k ≠ k') : get? (erase l k) k' = get? l k' := by
  induction l with
  | nil => rfl
  | cons p r ih =>
    obtain ⟨k0, v⟩ := p
    by_cases h0 : k0 = k
    · subst h0
      simp [erase, List.filter, get?, h]; exact ih
    · simp [erase, List.filter, h0, get?]
      by_cases h1 : k0 = k'
      · simp [h1]
      · simp [h1]; exact ih

theorem get?_assign_self (l : Layer V) (k : Key) (v : Node V) : get? (assign l k v) k = some v := by
  simp [assign, get?]

theorem get?_assign_ne (l : Layer V) {k k' : Key} (v : Node V) (h : k ≠ k') : get? (assign l k v) k' = get? l k' := by
  simp [assign, get?, h]; exact get?_erase_ne l h

theorem get?_isSome_of_mem {l : Layer V} {k : Key} {v : Node V} (h : (k, v) ∈ l) : (get? l k).isSome = true := by
  induction l with
  | nil => cases h
  | cons p r ih =>
    obtain ⟨k0, v0⟩ := p
    by_cases h0 : k0 = k
    · simp [get?, h0]
    · simp [get?, h0]
      cases h with
      | head => exact absurd rfl h0
      | tail _ h' => exact ih h'

theorem mem_of_get? {l : Layer V} {k : Key} {v : Node V} (h : get? l k = some v) : (k, v) ∈ l := by
  induction l with
  | nil => cases h
  | cons p r ih =>
    obtain ⟨k0, v0⟩ := p
    by_cases h0 : k0 = k
    · simp [get?, h0] at h; subst h0; subst h; exact List.mem_cons_self
    · simp [get?, h0] at h; exact List.mem_cons_of_mem _ (ih h)

theorem get?_append (l r : Layer V) (k : Key) :
    get? (l ++ r) k = match get? l k with | some v => some v | none => get? r k := by
  induction l with
  | nil => simp [get?]
  | cons p t ih =>
    obtain ⟨k0, v0⟩ := p
    by_cases h0 : k0 = k
    · simp [get?, h0]
    · simp [get?, h0]; exact ih

end Dask.Lemmas.Entry
