/-
Lemmas for C05 (entry points / from_graph lookup / RootAlias pin) and C09 (shared lowering cache).
No Mathlib.
-/
import DaskArrayModel.Model.Entry
namespace Dask.Lemmas.Entry
open Dask.Entry

variable {V : Type}

/-! ## dict operations -/

theorem get?_erase_self (l : Layer V) (k : Key) : get? (erase l k) k = none := by
  induction l with
  | nil => rfl
  | cons p r ih =>
    obtain ⟨k', v⟩ := p
    by_cases h : k' = k
    · simp [erase, List.filter, h]; exact ih
    · simp [erase, List.filter, h, get?]; exact ih

theorem get?_erase_ne (l : Layer V) {k k' : Key} (h : k ≠ k') : get? (erase l k) k' = get? l k' := by
  induction l with
  | nil => rfl
  | cons p r ih =>
    obtain ⟨k0, v⟩ := p
    by_cases h0 : k0 = k
    · subst h0
      simp [erase, List.filter, get?, h]; exact ih
    · simp [erase, List.filter, h0, get?]
      by_cases h1 : k0 = k'
      · simp [h1]
      · simp [h1]; exact ih

theorem get?_assign_self (l : Layer V) (k : Key) (v : Node V) : get? (assign l k v) k = some v := by
  simp [assign, get?]

theorem get?_assign_ne (l : Layer V) {k k' : Key} (v : Node V) (h : k ≠ k') : get? (assign l k v) k' = get? l k' := by
  simp [assign, get?, h]; exact get?_erase_ne l h

theorem get?_isSome_of_mem {l : Layer V} {k : Key} {v : Node V} (h : (k, v) ∈ l) : (get? l k).isSome = true := by
  induction l with
  | nil => cases h
  | cons p r ih =>
    obtain ⟨k0, v0⟩ := p
    by_cases h0 : k0 = k
    · simp [get?, h0]
    · simp [get?, h0]
      cases h with
      | head => exact absurd rfl h0
      | tail _ h' => exact ih h'

theorem mem_of_get? {l : Layer V} {k : Key} {v : Node V} (h : get? l k = some v) : (k, v) ∈ l := by
  induction l with
  | nil => cases h
  | cons p r ih =>
    obtain ⟨k0, v0⟩ := p
    by_cases h0 : k0 = k
    · simp [get?, h0] at h; subst h0; subst h; exact List.mem_cons_self
    · simp [get?, h0] at h; exact List.mem_cons_of_mem _ (ih h)

theorem get?_append (l r : Layer V) (k : Key) :
    get? (l ++ r) k = match get? l k with | some v => some v | none => get? r k := by
  induction l with
  | nil => simp [get?]
  | cons p t ih =>
    obtain ⟨k0, v0⟩ := p
    by_cases h0 : k0 = k
    · simp [get?, h0]
    · simp [get?, h0]; exact ih


/-! ## `_keys_by_block_id` -/

/-- every entry of the dict `by_block_id` is keyed by its key's own block id -/
def KbOK (kb : List (BlockId × Key)) : Prop := ∀ b k, (b, k) ∈ kb → k.bid = b

theorem lookup_mem {α β : Type} [BEq α] [LawfulBEq α] {l : List (α × β)} {a : α} {b : β}
    (h : l.lookup a = some b) : (a, b) ∈ l := by
  induction l with
  | nil => cases h
  | cons p r ih =>
    obtain ⟨k, v⟩ := p
    simp only [List.lookup] at h
    split at h
    · rename_i heq
      have : a = k := by simpa using heq
      subst this; cases h; exact List.mem_cons_self
    · exact List.mem_cons_of_mem _ (ih h)

theorem keysByBlockId_ok {ks : List Key} {acc kb : List (BlockId × Key)}
    (h : keysByBlockId ks acc = .ok kb) (ha : KbOK acc) : KbOK kb := by
  induction ks generalizing acc with
  | nil => simp [keysByBlockId] at h; subst h; exact ha
  | cons k ks ih =>
    simp only [keysByBlockId] at h
    split at h
    · apply ih h
      intro b k' hm
      rcases List.mem_append.mp hm with hm | hm
      · exact ha _ _ hm
      · simp at hm; obtain ⟨rfl, rfl⟩ := hm; rfl
    · split at h
      · exact ih h ha
      · cases h

theorem KbOK_nil : KbOK [] := by intro b k h; cases h

theorem findLayerKey_bid {name : String} {kb : List (BlockId × Key)} {inf : Option String}
    {dsk : Layer V} {b : BlockId} {k : Key} (hk : KbOK kb)
    (h : findLayerKey name kb inf dsk b = .ok k) : k.bid = b := by
  unfold findLayerKey at h
  cases hl : kb.lookup b with
  | none =>
    simp only [hl] at h
    split at h
    · cases h; rfl
    · split at h
      · cases h; rfl
      · cases h
  | some e =>
    simp only [hl] at h
    split at h
    · cases h; exact hk _ _ (lookup_mem hl)
    · split at h
      · cases h; rfl
      · split at h
        · cases h; rfl
        · cases h

/-- the lookup reads `dsk` only at keys of block `b` -/
theorem findLayerKey_congr {name : String} {kb : List (BlockId × Key)} {inf : Option String}
    {d d' : Layer V} {b : BlockId} (hk : KbOK kb) (hd : ∀ k : Key, k.bid = b → get? d k = get? d' k) :
    findLayerKey name kb inf d b = findLayerKey name kb inf d' b := by
  unfold findLayerKey
  have h1 : has d ⟨name, b⟩ = has d' ⟨name, b⟩ := by simp [has, hd ⟨name, b⟩ rfl]
  cases hl : kb.lookup b with
  | none => simp only [h1]
  | some e =>
    have h2 : has d e = has d' e := by simp [has, hd e (hk _ _ (lookup_mem hl))]
    simp only [h1, h2]


/-! ## the block grid -/

theorem grid_length : ∀ {nb : List Nat} {b : BlockId}, b ∈ grid nb → b.length = nb.length
  | [], b, h => by simp [grid] at h; subst h; rfl
  | n :: ns, b, h => by
    simp only [grid, List.mem_flatMap, List.mem_map] at h
    obtain ⟨i, _, bs, hbs, rfl⟩ := h
    simp [grid_length hbs]

theorem grid_nodup : ∀ nb : List Nat, (grid nb).Nodup
  | [] => by simp [grid]
  | n :: ns => by
    have ih := grid_nodup ns
    simp only [grid, List.Nodup]
    rw [List.pairwise_flatMap]
    constructor
    · intro i _
      rw [List.pairwise_map]
      exact List.Pairwise.imp (fun h => by simpa using h) ih
    · have : (List.range n).Nodup := List.nodup_range
      refine List.Pairwise.imp ?_ this
      intro i j hij x hx y hy
      simp only [List.mem_map] at hx hy
      obtain ⟨_, _, rfl⟩ := hx
      obtain ⟨_, _, rfl⟩ := hy
      intro h
      exact hij (by simpa using (List.cons.inj h).1)



/-! ## `_inferred_layer_name` -/

theorem inferred_has {fg : FromGraph V} {n : String} (h : inferredLayerName fg = some n)
    {b : BlockId} (hb : b ∈ grid fg.numblocks) : has fg.layer ⟨n, b⟩ = true := by
  unfold inferredLayerName at h
  simp only at h
  split at h
  · cases h
  · rename_i n' rest heq
    split at h
    · cases h
      have hmem : n ∈ ((fg.layer.filter (fun p => p.1.bid.length == fg.numblocks.length)).map (fun p => p.1.name)).filter
          (fun n => sameSet (bidsOf fg.layer fg.numblocks.length n) (grid fg.numblocks)) := by
        rw [heq]; exact List.mem_cons_self
      have hs := (List.mem_filter.mp hmem).2
      simp only [sameSet, Bool.and_eq_true, List.all_eq_true] at hs
      have hc := hs.2 b hb
      have hb' : b ∈ bidsOf fg.layer fg.numblocks.length n := by simpa using hc
      simp only [bidsOf, List.mem_map, List.mem_filter] at hb'
      obtain ⟨p, ⟨hp, hcond⟩, hpb⟩ := hb'
      obtain ⟨k, v⟩ := p
      simp only [Bool.and_eq_true, beq_iff_eq] at hcond
      have hk : k = ⟨n, b⟩ := by
        cases k; simp_all
      subst hk
      exact get?_isSome_of_mem hp
    · cases h

/-- whatever key the lookup returns is present in `dsk` (so `dsk[layer_key]` never raises KeyError) -/
theorem findLayerKey_present {name : String} {kb : List (BlockId × Key)} {inf : Option String}
    {dsk : Layer V} {b : BlockId} {k : Key}
    (hinf : ∀ n, inf = some n → has dsk ⟨n, b⟩ = true)
    (h : findLayerKey name kb inf dsk b = .ok k) : has dsk k = true := by
  unfold findLayerKey at h
  rcases inf with _ | n
  · cases hl : kb.lookup b with
    | none =>
      simp only [hl] at h
      split at h
      · rename_i hh; cases h; exact hh
      · cases h
    | some e =>
      simp only [hl] at h
      split at h
      · rename_i hh; cases h; exact hh
      · split at h
        · rename_i hh; cases h; exact hh
        · cases h
  · have hn := hinf n rfl
    cases hl : kb.lookup b with
    | none =>
      simp only [hl] at h
      split at h
      · rename_i hh; cases h; exact hh
      · cases h; exact hn
    | some e =>
      simp only [hl] at h
      split at h
      · rename_i hh; cases h; exact hh
      · split at h
        · rename_i hh; cases h; exact hh
        · cases h; exact hn



/-! ## the loop of `FromGraph._layer` -/

/-- what the iteration for block `b` (lookup result `k`) leaves in the dict -/
def BlockDone (fg : FromGraph V) (l : Layer V) (b : BlockId) (k : Key) : Prop :=
  (k = ⟨fg.name, b⟩ ∧ get? l k = get? fg.layer k) ∨
  (k ≠ ⟨fg.name, b⟩ ∧ ∃ v, get? fg.layer k = some (.data v) ∧ get? l ⟨fg.name, b⟩ = some (.data v)) ∨
  (k ≠ ⟨fg.name, b⟩ ∧ ∃ nd, get? fg.layer k = some nd ∧ nd.isTask = true ∧
      get? l ⟨fg.name, b⟩ = some (.alias k) ∧ get? l k = some nd)

theorem find0_eq {fg : FromGraph V} {dsk : Layer V} {b : BlockId} {kb : List (BlockId × Key)}
    (hkb : keysByBlockId fg.keys [] = .ok kb)
    (hag : ∀ k : Key, k.bid = b → get? dsk k = get? fg.layer k) :
    findLayerKey fg.name kb (inferredLayerName fg) dsk b = find0 fg b := by
  unfold find0
  simp only [hkb]
  exact findLayerKey_congr (keysByBlockId_ok hkb KbOK_nil) hag

theorem step_ok {fg : FromGraph V} {dsk : Layer V} {b : BlockId} (hb : b ∈ grid fg.numblocks)
    (hag : ∀ k : Key, k.bid = b → get? dsk k = get? fg.layer k) {k : Key} (hf : find0 fg b = .ok k) :
    ∃ d, step fg dsk b = .ok d ∧ (∀ k' : Key, k'.bid ≠ b → get? d k' = get? dsk k') ∧ BlockDone fg d b k := by
  cases hkb : keysByBlockId fg.keys [] with
  | error e => simp [find0, hkb] at hf
  | ok kb =>
    have hKb := keysByBlockId_ok hkb KbOK_nil
    have hfind := find0_eq (dsk := dsk) hkb hag
    rw [hf] at hfind
    have hbid : k.bid = b := findLayerKey_bid hKb hfind
    have hpres : has dsk k = true := by
      apply findLayerKey_present (inf := inferredLayerName fg) _ hfind
      intro n hn
      have := inferred_has hn hb
      simp only [has] at this ⊢
      rw [hag ⟨n, b⟩ rfl]; exact this
    have hsame : get? dsk k = get? fg.layer k := hag k hbid
    unfold step
    simp only [hkb, hfind]
    by_cases hk : (⟨fg.name, b⟩ : Key) = k
    · simp only [hk, if_true]
      exact ⟨dsk, rfl, fun _ _ => rfl, Or.inl ⟨hk.symm, hsame⟩⟩
    · simp only [hk, if_false]
      have hk' : k ≠ ⟨fg.name, b⟩ := fun h => hk h.symm
      cases hg : get? dsk k with
      | none => simp [has, hg] at hpres
      | some nd =>
        cases nd with
        | data v =>
          refine ⟨_, rfl, ?_, Or.inr (Or.inl ⟨hk', v, by rw [← hsame]; exact hg, ?_⟩)⟩
          · intro k' hk'b
            have h1 : k ≠ k' := fun h => hk'b (h ▸ hbid)
            have h2 : (⟨fg.name, b⟩ : Key) ≠ k' := fun h => hk'b (h ▸ rfl)
            rw [get?_erase_ne _ h1, get?_assign_ne _ _ h2]
          · rw [get?_erase_ne _ hk', get?_assign_self]
        | task v =>
          refine ⟨_, rfl, ?_, Or.inr (Or.inr ⟨hk', .task v, by rw [← hsame]; exact hg, rfl, ?_, ?_⟩)⟩
          · intro k' hk'b
            have h2 : (⟨fg.name, b⟩ : Key) ≠ k' := fun h => hk'b (h ▸ rfl)
            rw [get?_assign_ne _ _ h2]
          · rw [get?_assign_self]
          · rw [get?_assign_ne _ _ hk]; exact hg
        | alias t =>
          refine ⟨_, rfl, ?_, Or.inr (Or.inr ⟨hk', .alias t, by rw [← hsame]; exact hg, rfl, ?_, ?_⟩)⟩
          · intro k' hk'b
            have h2 : (⟨fg.name, b⟩ : Key) ≠ k' := fun h => hk'b (h ▸ rfl)
            rw [get?_assign_ne _ _ h2]
          · rw [get?_assign_self]
          · rw [get?_assign_ne _ _ hk]; exact hg

theorem step_find {fg : FromGraph V} {dsk d : Layer V} {b : BlockId}
    (hag : ∀ k : Key, k.bid = b → get? dsk k = get? fg.layer k) (h : step fg dsk b = .ok d) :
    ∃ k, find0 fg b = .ok k := by
  unfold step at h
  cases hkb : keysByBlockId fg.keys [] with
  | error e => simp [hkb] at h
  | ok kb =>
    simp only [hkb] at h
    cases hfl : findLayerKey fg.name kb (inferredLayerName fg) dsk b with
    | error e => simp [hfl] at h
    | ok lk => exact ⟨lk, by rw [← find0_eq hkb hag]; exact hfl⟩

theorem step_error_value {fg : FromGraph V} {dsk : Layer V} {b : BlockId} {e : Err} (hb : b ∈ grid fg.numblocks)
    (hag : ∀ k : Key, k.bid = b → get? dsk k = get? fg.layer k) (h : step fg dsk b = .error e) :
    ∃ e', find0 fg b = .error e' := by
  cases hf : find0 fg b with
  | error e' => exact ⟨e', rfl⟩
  | ok k =>
    obtain ⟨d, hd, _⟩ := step_ok hb hag hf
    rw [hd] at h; cases h

/-- the loop, started on a dict that still agrees with the original layer on the blocks to come -/
theorem run_ok {fg : FromGraph V} : ∀ (bs : List BlockId) (dsk : Layer V), bs.Nodup →
    (∀ b ∈ bs, b ∈ grid fg.numblocks) →
    (∀ k : Key, k.bid ∈ bs → get? dsk k = get? fg.layer k) →
    (∀ b ∈ bs, ∃ k, find0 fg b = .ok k) →
    ∃ l, run fg bs dsk = .ok l ∧ (∀ k : Key, k.bid ∉ bs → get? l k = get? dsk k) ∧
      ∀ b ∈ bs, ∀ k, find0 fg b = .ok k → BlockDone fg l b k
  | [], dsk, _, _, _, _ => ⟨dsk, rfl, fun _ _ => rfl, fun _ h => by cases h⟩
  | b :: bs, dsk, hnd, hgrid, hag, hfind => by
    obtain ⟨k, hk⟩ := hfind b List.mem_cons_self
    have hnd' := List.nodup_cons.mp hnd
    obtain ⟨d, hd, hother, hdone⟩ :=
      step_ok (dsk := dsk) (hgrid b List.mem_cons_self) (fun k' hk' => hag k' (hk' ▸ List.mem_cons_self)) hk
    have hag' : ∀ k' : Key, k'.bid ∈ bs → get? d k' = get? fg.layer k' := by
      intro k' hk'
      have hne : k'.bid ≠ b := fun h => hnd'.1 (h ▸ hk')
      rw [hother k' hne]; exact hag k' (List.mem_cons_of_mem _ hk')
    obtain ⟨l, hl, hrest, hdone'⟩ := run_ok bs d hnd'.2 (fun b' hb' => hgrid b' (List.mem_cons_of_mem _ hb')) hag'
      (fun b' hb' => hfind b' (List.mem_cons_of_mem _ hb'))
    refine ⟨l, by simp [run, hd, hl], ?_, ?_⟩
    · intro k' hk'
      have h1 : k'.bid ∉ bs := fun h => hk' (List.mem_cons_of_mem _ h)
      have h2 : k'.bid ≠ b := fun h => hk' (h ▸ List.mem_cons_self)
      rw [hrest k' h1, hother k' h2]
    · intro b' hb' k' hk'
      rcases List.mem_cons.mp hb' with rfl | hb''
      · -- the block just processed: later iterations do not touch keys of block b'
        have hkk : k' = k := by rw [hk] at hk'; cases hk'; rfl
        subst hkk
        have hkb : k'.bid = b' := by
          cases hkb : keysByBlockId fg.keys [] with
          | error e => simp [find0, hkb] at hk
          | ok kb =>
            simp only [find0, hkb] at hk
            exact findLayerKey_bid (keysByBlockId_ok hkb KbOK_nil) hk
        have hk1 : get? l k' = get? d k' := hrest k' (by rw [hkb]; exact hnd'.1)
        have hk2 : get? l ⟨fg.name, b'⟩ = get? d ⟨fg.name, b'⟩ := hrest ⟨fg.name, b'⟩ hnd'.1
        rcases hdone with ⟨h1, h2⟩ | ⟨h1, v, h2, h3⟩ | ⟨h1, nd, h2, h3, h4, h5⟩
        · exact Or.inl ⟨h1, by rw [hk1]; exact h2⟩
        · exact Or.inr (Or.inl ⟨h1, v, h2, by rw [hk2]; exact h3⟩)
        · exact Or.inr (Or.inr ⟨h1, nd, h2, h3, by rw [hk2]; exact h4, by rw [hk1]; exact h5⟩)
      · exact hdone' b' hb'' k' hk'

theorem run_find {fg : FromGraph V} : ∀ (bs : List BlockId) (dsk l : Layer V), bs.Nodup →
    (∀ b ∈ bs, b ∈ grid fg.numblocks) →
    (∀ k : Key, k.bid ∈ bs → get? dsk k = get? fg.layer k) →
    run fg bs dsk = .ok l → ∀ b ∈ bs, ∃ k, find0 fg b = .ok k
  | [], _, _, _, _, _, _ => fun _ h => by cases h
  | b :: bs, dsk, l, hnd, hgrid, hag, h => by
    have hnd' := List.nodup_cons.mp hnd
    have hagb : ∀ k' : Key, k'.bid = b → get? dsk k' = get? fg.layer k' :=
      fun k' hk' => hag k' (hk' ▸ List.mem_cons_self)
    simp only [run] at h
    cases hs : step fg dsk b with
    | error e => simp [hs] at h
    | ok d =>
      simp only [hs] at h
      obtain ⟨k, hk⟩ := step_find hagb hs
      obtain ⟨d', hd', hother, _⟩ := step_ok (dsk := dsk) (hgrid b List.mem_cons_self) hagb hk
      rw [hs] at hd'; cases hd'
      have hag' : ∀ k' : Key, k'.bid ∈ bs → get? d k' = get? fg.layer k' := by
        intro k' hk'
        have hne : k'.bid ≠ b := fun h => hnd'.1 (h ▸ hk')
        rw [hother k' hne]; exact hag k' (List.mem_cons_of_mem _ hk')
      have ih := run_find bs d l hnd'.2 (fun b' hb' => hgrid b' (List.mem_cons_of_mem _ hb')) hag' h
      intro b' hb'
      rcases List.mem_cons.mp hb' with rfl | hb''
      · exact ⟨k, hk⟩
      · exact ih b' hb''



/-! ## `FromGraph._layer()` as a whole -/

theorem layerOf_ok_iff (fg : FromGraph V) :
    (∃ l, layerOf fg = .ok l) ↔ ∀ b ∈ grid fg.numblocks, ∃ k, find0 fg b = .ok k := by
  constructor
  · rintro ⟨l, hl⟩
    exact run_find (grid fg.numblocks) fg.layer l (grid_nodup _) (fun _ h => h) (fun _ _ => rfl) hl
  · intro h
    obtain ⟨l, hl, _⟩ := run_ok (fg := fg) (grid fg.numblocks) fg.layer (grid_nodup _) (fun _ h => h) (fun _ _ => rfl) h
    exact ⟨l, hl⟩

theorem keysByBlockId_error {ks : List Key} {acc : List (BlockId × Key)} {e : Err}
    (h : keysByBlockId ks acc = .error e) : e = .valueError := by
  induction ks generalizing acc with
  | nil => simp [keysByBlockId] at h
  | cons k ks ih =>
    simp only [keysByBlockId] at h
    split at h
    · exact ih h
    · split at h
      · exact ih h
      · cases h; rfl

theorem findLayerKey_error {name : String} {kb : List (BlockId × Key)} {inf : Option String}
    {dsk : Layer V} {b : BlockId} {e : Err} (h : findLayerKey name kb inf dsk b = .error e) : e = .valueError := by
  unfold findLayerKey at h
  cases hl : kb.lookup b with
  | none =>
    cases h2 : has dsk ⟨name, b⟩ <;> rcases inf with _ | n <;> simp [hl, h2] at h
    exact h.symm
  | some e1 =>
    cases h1 : has dsk e1 <;> cases h2 : has dsk ⟨name, b⟩ <;> rcases inf with _ | n <;> simp [hl, h1, h2] at h
    exact h.symm

theorem find0_error {fg : FromGraph V} {b : BlockId} {e : Err} (h : find0 fg b = .error e) : e = .valueError := by
  unfold find0 at h
  cases hkb : keysByBlockId fg.keys [] with
  | error e' => simp only [hkb] at h; cases h; exact keysByBlockId_error hkb
  | ok kb => simp only [hkb] at h; exact findLayerKey_error h

/-- the lookup fails exactly when the block is absent in all three ways -/
theorem find0_error_iff {fg : FromGraph V} {kb : List (BlockId × Key)} (hkb : keysByBlockId fg.keys [] = .ok kb)
    (b : BlockId) :
    find0 fg b = .error .valueError ↔
      (∀ e, kb.lookup b = some e → has fg.layer e = false) ∧ has fg.layer ⟨fg.name, b⟩ = false ∧
        inferredLayerName fg = none := by
  unfold find0 findLayerKey
  simp only [hkb]
  cases hl : kb.lookup b with
  | none =>
    cases h2 : has fg.layer ⟨fg.name, b⟩ <;> cases h3 : inferredLayerName fg <;> simp
  | some e =>
    cases h1 : has fg.layer e <;> cases h2 : has fg.layer ⟨fg.name, b⟩ <;> cases h3 : inferredLayerName fg <;> simp [h1]

theorem run_error {fg : FromGraph V} : ∀ (bs : List BlockId) (dsk : Layer V) (e : Err), bs.Nodup →
    (∀ b ∈ bs, b ∈ grid fg.numblocks) →
    (∀ k : Key, k.bid ∈ bs → get? dsk k = get? fg.layer k) →
    run fg bs dsk = .error e → e = .valueError ∧ ∃ b ∈ bs, find0 fg b = .error .valueError
  | [], _, _, _, _, _, h => by simp [run] at h
  | b :: bs, dsk, e, hnd, hgrid, hag, h => by
    have hnd' := List.nodup_cons.mp hnd
    have hagb : ∀ k' : Key, k'.bid = b → get? dsk k' = get? fg.layer k' :=
      fun k' hk' => hag k' (hk' ▸ List.mem_cons_self)
    simp only [run] at h
    cases hf : find0 fg b with
    | error e' =>
      have he' := find0_error hf
      subst he'
      refine ⟨?_, b, List.mem_cons_self, hf⟩
      -- the step fails with the lookup's own error
      cases hs : step fg dsk b with
      | ok d =>
        obtain ⟨k, hk⟩ := step_find hagb hs
        rw [hf] at hk; cases hk
      | error e'' =>
        simp only [hs] at h; cases h
        unfold step at hs
        cases hkb : keysByBlockId fg.keys [] with
        | error e3 => simp only [hkb] at hs; cases hs; exact keysByBlockId_error hkb
        | ok kb =>
          simp only [hkb] at hs
          rw [find0_eq hkb hagb, hf] at hs
          cases hs; rfl
    | ok k =>
      obtain ⟨d, hd, hother, _⟩ := step_ok (dsk := dsk) (hgrid b List.mem_cons_self) hagb hf
      simp only [hd] at h
      have hag' : ∀ k' : Key, k'.bid ∈ bs → get? d k' = get? fg.layer k' := by
        intro k' hk'
        have hne : k'.bid ≠ b := fun h => hnd'.1 (h ▸ hk')
        rw [hother k' hne]; exact hag k' (List.mem_cons_of_mem _ hk')
      obtain ⟨he, b', hb', hfb'⟩ := run_error bs d e hnd'.2 (fun b' hb' => hgrid b' (List.mem_cons_of_mem _ hb')) hag' h
      exact ⟨he, b', List.mem_cons_of_mem _ hb', hfb'⟩

/-- FAILURE BRANCH: `_layer()` raises, and then always the ValueError "from_graph cannot find output
block", exactly when the three-way lookup fails for some block of the grid -/
theorem layerOf_error_iff (fg : FromGraph V) :
    layerOf fg = .error .valueError ↔ ∃ b ∈ grid fg.numblocks, find0 fg b = .error .valueError := by
  constructor
  · intro h
    exact (run_error (grid fg.numblocks) fg.layer _ (grid_nodup _) (fun _ h => h) (fun _ _ => rfl) h).2
  · rintro ⟨b, hb, hf⟩
    cases hl : layerOf fg with
    | ok l =>
      obtain ⟨k, hk⟩ := (layerOf_ok_iff fg).mp ⟨l, hl⟩ b hb
      rw [hf] at hk; cases hk
    | error e =>
      have := (run_error (grid fg.numblocks) fg.layer _ (grid_nodup _) (fun _ h => h) (fun _ _ => rfl) hl).1
      rw [this]

theorem layerOf_error_kind {fg : FromGraph V} {e : Err} (h : layerOf fg = .error e) : e = .valueError :=
  (run_error (grid fg.numblocks) fg.layer _ (grid_nodup _) (fun _ h => h) (fun _ _ => rfl) h).1

theorem layerOf_done {fg : FromGraph V} {l : Layer V} (h : layerOf fg = .ok l) {b : BlockId}
    (hb : b ∈ grid fg.numblocks) {k : Key} (hk : find0 fg b = .ok k) : BlockDone fg l b k := by
  have hall := (layerOf_ok_iff fg).mp ⟨l, h⟩
  obtain ⟨l', hl', _, hdone⟩ := run_ok (fg := fg) (grid fg.numblocks) fg.layer (grid_nodup _) (fun _ h => h) (fun _ _ => rfl) hall
  have : l' = l := by
    have : layerOf fg = .ok l' := hl'
    rw [h] at this; cases this; rfl
  subst this
  exact hdone b hb k hk

theorem evalKey_direct {l : Layer V} {k : Key} {v : V} {f : Nat}
    (h : get? l k = some (.data v) ∨ get? l k = some (.task v)) : evalKey (f + 1) l k = some v := by
  rcases h with h | h <;> simp [evalKey, h]

theorem length_pos_of_get? {l : Layer V} {k : Key} {nd : Node V} (h : get? l k = some nd) : 0 < l.length := by
  cases l with
  | nil => cases h
  | cons _ _ => simp

/-- VALUES: the rebuilt layer hands out, under `(name, *b)`, the value stored under the key the lookup selected -/
theorem layerOf_value {fg : FromGraph V} {l : Layer V} (h : layerOf fg = .ok l) {b : BlockId}
    (hb : b ∈ grid fg.numblocks) {k : Key} (hk : find0 fg b = .ok k) {v : V}
    (hv : get? fg.layer k = some (.data v) ∨ get? fg.layer k = some (.task v)) :
    eval l ⟨fg.name, b⟩ = some v := by
  unfold eval
  rcases layerOf_done h hb hk with ⟨h1, h2⟩ | ⟨h1, v', h2, h3⟩ | ⟨h1, nd, h2, h3, h4, h5⟩
  · subst h1
    exact evalKey_direct (by rw [h2]; exact hv)
  · have : v' = v := by
      rcases hv with hv | hv <;> rw [h2] at hv <;> cases hv; rfl
    subst this
    exact evalKey_direct (Or.inl h3)
  · have hnd : nd = .task v := by
      rcases hv with hv | hv
      · rw [h2] at hv; cases hv; cases h3
      · rw [h2] at hv; cases hv; rfl
    subst hnd
    obtain ⟨n, hn⟩ : ∃ n, l.length = n + 1 := ⟨l.length - 1, by have := length_pos_of_get? h5; omega⟩
    rw [hn]
    simp only [evalKey, h4]
    exact evalKey_direct (Or.inr h5)

/-- PASSTHROUGH: with no `keys` and every own key present, `_layer()` returns the layer unchanged -/
theorem run_passthrough {fg : FromGraph V} (hkeys : fg.keys = []) : ∀ (bs : List BlockId) (dsk : Layer V),
    (∀ b ∈ bs, has dsk ⟨fg.name, b⟩ = true) → run fg bs dsk = .ok dsk
  | [], _, _ => rfl
  | b :: bs, dsk, h => by
    have hb := h b List.mem_cons_self
    have hs : step fg dsk b = .ok dsk := by
      simp [step, hkeys, keysByBlockId, findLayerKey, hb]
    simp only [run, hs]
    exact run_passthrough hkeys bs dsk (fun b' hb' => h b' (List.mem_cons_of_mem _ hb'))

theorem layerOf_passthrough {fg : FromGraph V} (hkeys : fg.keys = [])
    (h : ∀ b ∈ grid fg.numblocks, has fg.layer ⟨fg.name, b⟩ = true) : layerOf fg = .ok fg.layer :=
  run_passthrough hkeys _ _ h



/-! ## entry points -/

/-- the graph defines `name × grid(nb)` with block values `vals` (C04 root keys + refinement) -/
def RootKeys (g : Layer V) (name : String) (nb : List Nat) (vals : BlockId → V) : Prop :=
  ∀ b ∈ grid nb, eval g ⟨name, b⟩ = some (vals b)

theorem mapM_some {α β : Type} (f : α → Option β) (g : α → β) :
    ∀ l : List α, (∀ x ∈ l, f x = some (g x)) → l.mapM f = some (l.map g)
  | [], _ => rfl
  | a :: as, h => by
    have ha := h a List.mem_cons_self
    have ih := mapM_some f g as (fun x hx => h x (List.mem_cons_of_mem _ hx))
    simp [List.mapM_cons, ha, ih]

theorem mapM_id_some {α β : Type} (h : α → Option β) (g : α → β) :
    ∀ l : List α, (∀ x ∈ l, h x = some (g x)) → (l.map h).mapM id = some (l.map g)
  | [], _ => rfl
  | a :: as, hh => by
    have ha := hh a List.mem_cons_self
    have ih := mapM_id_some h g as (fun x hx => hh x (List.mem_cons_of_mem _ hx))
    simp [List.mapM_cons, ha, ih]

theorem computeKeys_eq {g : Layer V} {name : String} {nb : List Nat} {vals : BlockId → V}
    (h : RootKeys g name nb vals) : computeKeys g name nb = some ((grid nb).map vals) :=
  mapM_some _ _ _ h

theorem has_of_eval {g : Layer V} {k : Key} {v : V} (h : eval g k = some v) : has g k = true := by
  unfold eval at h
  simp only [evalKey] at h
  cases hg : get? g k with
  | none => simp [hg] at h
  | some nd => simp [has, hg]

/-- the `{k: value}` dict a scheduler hands back for the keys `(n, *b)`, `b ∈ bs` -/
def dataLayer (n : String) (bs : List BlockId) (vals : BlockId → V) : Layer V :=
  bs.map (fun b => ((⟨n, b⟩ : Key), Node.data (vals b)))

theorem get?_dataLayer {n : String} {vals : BlockId → V} : ∀ {bs : List BlockId} {b : BlockId}, b ∈ bs →
    get? (dataLayer n bs vals) ⟨n, b⟩ = some (.data (vals b))
  | b0 :: bs, b, h => by
    by_cases hb : b0 = b
    · subst hb; simp [dataLayer, get?]
    · have : (⟨n, b0⟩ : Key) ≠ ⟨n, b⟩ := fun h => hb (by cases h; rfl)
      simp only [dataLayer, List.map_cons, get?, this, if_false]
      rcases List.mem_cons.mp h with h | h
      · exact absurd h.symm hb
      · exact get?_dataLayer h

theorem get?_dataLayer_other {n m : String} {vals : BlockId → V} (hnm : n ≠ m) :
    ∀ (bs : List BlockId) (b : BlockId), get? (dataLayer n bs vals) ⟨m, b⟩ = none
  | [], _ => rfl
  | b0 :: bs, b => by
    have : (⟨n, b0⟩ : Key) ≠ ⟨m, b⟩ := fun h => hnm (by cases h; rfl)
    simp only [dataLayer, List.map_cons, get?, this, if_false]
    exact get?_dataLayer_other hnm bs b

theorem schedule_eq {g : Layer V} {name : String} {nb : List Nat} {vals : BlockId → V}
    (h : RootKeys g name nb vals) :
    schedule g ((grid nb).map (fun b => (⟨name, b⟩ : Key))) = some (dataLayer name (grid nb) vals) := by
  unfold schedule dataLayer
  rw [mapM_some _ (fun k : Key => (k, Node.data (vals k.bid)))]
  · simp [List.map_map, Function.comp_def]
  · intro k hk
    simp only [List.mem_map] at hk
    obtain ⟨b, hb, rfl⟩ := hk
    simp [h b hb]

theorem rootKeys_dataLayer (n : String) (nb : List Nat) (vals : BlockId → V) :
    RootKeys (dataLayer n (grid nb) vals) n nb vals := by
  intro b hb
  unfold eval
  exact evalKey_direct (Or.inl (get?_dataLayer hb))

/-- a collection rebuilt over a layer that already defines its own keys computes those keys -/
theorem computeFG_passthrough {E : Type} (c : Coll E) {g : Layer V} {vals : BlockId → V}
    (h : RootKeys g c.rawName c.numblocks vals) :
    computeFG (rebuild c g) = .ok (some ((grid c.numblocks).map vals)) := by
  have hp : layerOf (rebuild c g).expr = .ok g :=
    layerOf_passthrough (fg := (rebuild c g).expr) rfl (fun b hb => has_of_eval (h b hb))
  unfold computeFG
  rw [hp]
  simp only [rebuild, Coll.numblocks]
  exact congrArg _ (computeKeys_eq h)



/-! ## lookup by block id over a scheduler result keyed by ONE foreign name (`dask.persist`) -/

theorem sameSet_self (a : List BlockId) : sameSet a a = true := by
  simp [sameSet, List.all_eq_true]

theorem dataLayer_filter_rank {ℓ : String} {nbLow : List Nat} {vals : BlockId → V} {ndim : Nat}
    (hr : nbLow.length = ndim) :
    (dataLayer ℓ (grid nbLow) vals).filter (fun p => p.1.bid.length == ndim) = dataLayer ℓ (grid nbLow) vals := by
  apply List.filter_eq_self.mpr
  intro p hp
  simp only [dataLayer, List.mem_map] at hp
  obtain ⟨b, hb, rfl⟩ := hp
  simp [grid_length hb, hr]

theorem bidsOf_dataLayer {ℓ : String} {nbLow : List Nat} {vals : BlockId → V} {ndim : Nat}
    (hr : nbLow.length = ndim) : bidsOf (dataLayer ℓ (grid nbLow) vals) ndim ℓ = grid nbLow := by
  unfold bidsOf
  have : (dataLayer ℓ (grid nbLow) vals).filter (fun p => p.1.bid.length == ndim && p.1.name == ℓ)
      = dataLayer ℓ (grid nbLow) vals := by
    apply List.filter_eq_self.mpr
    intro p hp
    simp only [dataLayer, List.mem_map] at hp
    obtain ⟨b, hb, rfl⟩ := hp
    simp [grid_length hb, hr]
  rw [this]
  simp [dataLayer, List.map_map, Function.comp_def]

theorem names_dataLayer (ℓ : String) (bs : List BlockId) (vals : BlockId → V) :
    (dataLayer ℓ bs vals).map (fun p => p.1.name) = bs.map (fun _ => ℓ) := by
  simp [dataLayer, List.map_map, Function.comp_def]

/-- the scheduler result covers exactly our grid under one name: that name is inferred -/
theorem inferred_dataLayer {ℓ nm : String} {nb : List Nat} {vals : BlockId → V} {ks : List Key}
    (hne : grid nb ≠ []) :
    inferredLayerName (⟨dataLayer ℓ (grid nb) vals, nb, ks, nm⟩ : FromGraph V) = some ℓ := by
  unfold inferredLayerName
  simp only
  rw [dataLayer_filter_rank rfl, names_dataLayer]
  have hP : ∀ n ∈ (grid nb).map (fun _ => ℓ),
      sameSet (bidsOf (dataLayer ℓ (grid nb) vals) nb.length n) (grid nb) = true := by
    intro n hn
    simp only [List.mem_map] at hn
    obtain ⟨_, _, rfl⟩ := hn
    rw [bidsOf_dataLayer rfl]; exact sameSet_self _
  rw [List.filter_eq_self.mpr hP]
  cases hg : grid nb with
  | nil => exact absurd hg hne
  | cons b0 rest => simp [List.all_eq_true]

/-- LAYOUT DRIFT (known finding `from_graph:missing-output-block`): the scheduler result is keyed by one
foreign name over a grid that is not ours: nothing is inferred -/
theorem inferred_dataLayer_drift {ℓ nm : String} {nb nbLow : List Nat} {vals : BlockId → V} {ks : List Key}
    (hr : nbLow.length = nb.length) (hd : sameSet (grid nbLow) (grid nb) = false) :
    inferredLayerName (⟨dataLayer ℓ (grid nbLow) vals, nb, ks, nm⟩ : FromGraph V) = none := by
  unfold inferredLayerName
  simp only
  rw [dataLayer_filter_rank hr, names_dataLayer]
  have hP : ∀ n ∈ (grid nbLow).map (fun _ => ℓ),
      ¬ sameSet (bidsOf (dataLayer ℓ (grid nbLow) vals) nb.length n) (grid nb) = true := by
    intro n hn
    simp only [List.mem_map] at hn
    obtain ⟨_, _, rfl⟩ := hn
    rw [bidsOf_dataLayer hr, hd]; simp
  rw [List.filter_eq_nil_iff.mpr hP]



theorem find0_byBlockId {E : Type} (c : Coll E) {ℓ : String} {vals : BlockId → V} (hne : ℓ ≠ c.rawName)
    {b : BlockId} (hb : b ∈ grid c.numblocks) :
    find0 (rebuild c (dataLayer ℓ (grid c.numblocks) vals)).expr b = .ok ⟨ℓ, b⟩ := by
  have hg : grid c.numblocks ≠ [] := fun h => by rw [h] at hb; cases hb
  have hinf := inferred_dataLayer (ℓ := ℓ) (nm := c.rawName) (vals := vals) (ks := []) hg
  have hno : has (dataLayer ℓ (grid c.numblocks) vals) ⟨c.rawName, b⟩ = false := by
    simp [has, get?_dataLayer_other hne]
  simp only [find0, rebuild, keysByBlockId, findLayerKey, List.lookup, hno, hinf]
  rfl

/-- `dask.persist(x)`: blocks handed back under the lowered root name over OUR grid are found by block id -/
theorem computeFG_byBlockId {E : Type} (c : Coll E) {ℓ : String} {vals : BlockId → V} (hne : ℓ ≠ c.rawName) :
    computeFG (rebuild c (dataLayer ℓ (grid c.numblocks) vals)) = .ok (some ((grid c.numblocks).map vals)) := by
  have hall : ∀ b ∈ grid (rebuild c (dataLayer ℓ (grid c.numblocks) vals)).expr.numblocks,
      ∃ k, find0 (rebuild c (dataLayer ℓ (grid c.numblocks) vals)).expr b = .ok k :=
    fun b hb => ⟨_, find0_byBlockId c hne hb⟩
  obtain ⟨l, hl⟩ := (layerOf_ok_iff _).mpr hall
  unfold computeFG
  rw [hl]
  have hr : RootKeys l c.rawName c.numblocks vals := by
    intro b hb
    exact layerOf_value (fg := (rebuild c (dataLayer ℓ (grid c.numblocks) vals)).expr) hl hb
      (find0_byBlockId c hne hb) (Or.inl (get?_dataLayer hb))
  simp only [rebuild, Coll.numblocks]
  exact congrArg _ (computeKeys_eq hr)

/-- … and over a DIFFERENT grid (a rewrite changed the block structure) the rebuild raises the
ValueError "from_graph cannot find output block" -/
theorem computeFG_drift {E : Type} (c : Coll E) {ℓ : String} {nbLow : List Nat} {vals : BlockId → V}
    (hne : ℓ ≠ c.rawName) (hr : nbLow.length = c.numblocks.length)
    (hd : sameSet (grid nbLow) (grid c.numblocks) = false) (hg : grid c.numblocks ≠ []) :
    computeFG (rebuild c (dataLayer ℓ (grid nbLow) vals)) = .error .valueError := by
  have ⟨b, hb⟩ : ∃ b, b ∈ grid c.numblocks := by
    cases hgl : grid c.numblocks with
    | nil => exact absurd hgl hg
    | cons b r => exact ⟨b, List.mem_cons_self⟩
  have hinf := inferred_dataLayer_drift (ℓ := ℓ) (nm := c.rawName) (vals := vals) (ks := []) hr hd
  have hno : has (dataLayer ℓ (grid nbLow) vals) ⟨c.rawName, b⟩ = false := by
    simp [has, get?_dataLayer_other hne]
  have hf : find0 (rebuild c (dataLayer ℓ (grid nbLow) vals)).expr b = .error .valueError := by
    apply (find0_error_iff (fg := (rebuild c (dataLayer ℓ (grid nbLow) vals)).expr) (kb := []) rfl b).mpr
    exact ⟨fun e he => (by cases he), hno, hinf⟩
  have := (layerOf_error_iff (rebuild c (dataLayer ℓ (grid nbLow) vals)).expr).mpr ⟨b, hb, hf⟩
  unfold computeFG
  rw [this]

/-! ## the RootAlias pin -/

theorem get?_none_of_noName {g : Layer V} {raw : String}
    (h : g.any (fun p => p.1.name == raw) = false) (b : BlockId) : get? g ⟨raw, b⟩ = none := by
  induction g with
  | nil => rfl
  | cons p r ih =>
    obtain ⟨k, v⟩ := p
    simp only [List.any_cons, Bool.or_eq_false_iff] at h
    have hk : k ≠ ⟨raw, b⟩ := by
      intro hk; subst hk; simp at h
    simp only [get?, hk, if_false]
    exact ih h.2

theorem get?_aliasLayer {raw ℓ : String} : ∀ {bs : List BlockId} {b : BlockId}, b ∈ bs →
    get? (bs.map (fun b => ((⟨raw, b⟩ : Key), (Node.alias ⟨ℓ, b⟩ : Node V)))) ⟨raw, b⟩ = some (.alias ⟨ℓ, b⟩)
  | b0 :: bs, b, h => by
    by_cases hb : b0 = b
    · subst hb; simp [get?]
    · have : (⟨raw, b0⟩ : Key) ≠ ⟨raw, b⟩ := fun h => hb (by cases h; rfl)
      simp only [List.map_cons, get?, this, if_false]
      rcases List.mem_cons.mp h with h | h
      · exact absurd h.symm hb
      · exact get?_aliasLayer h

theorem evalKey_append {l r : Layer V} {v : V} : ∀ {f : Nat} {k : Key},
    evalKey f l k = some v → evalKey f (l ++ r) k = some v
  | 0, _, h => by simp [evalKey] at h
  | f + 1, k, h => by
    simp only [evalKey] at h ⊢
    rw [get?_append]
    cases hg : get? l k with
    | none => simp [hg] at h
    | some nd =>
      cases nd with
      | data v' => simpa [hg] using h
      | task v' => simpa [hg] using h
      | alias t =>
        simp only [hg] at h ⊢
        exact evalKey_append h

theorem evalKey_mono {l : Layer V} {v : V} : ∀ {f f' : Nat} {k : Key},
    evalKey f l k = some v → f ≤ f' → evalKey f' l k = some v
  | 0, _, _, h, _ => by simp [evalKey] at h
  | f + 1, 0, _, _, hle => by omega
  | f + 1, f' + 1, k, h, hle => by
    simp only [evalKey] at h ⊢
    cases hg : get? l k with
    | none => simp [hg] at h
    | some nd =>
      cases nd with
      | data v' => simpa [hg] using h
      | task v' => simpa [hg] using h
      | alias t =>
        simp only [hg] at h ⊢
        exact evalKey_mono h (by omega)

/-- the pinned graph defines `raw × grid` with the optimized root's block values -/
theorem pin_rootKeys {raw : String} {nb : List Nat} {lo : Lowered V} {g : Layer V} {vals : BlockId → V}
    (hlo : RootKeys lo.graph lo.name nb vals) (hp : pin raw nb lo = .ok g) : RootKeys g raw nb vals := by
  unfold pin at hp
  by_cases hn : lo.name = raw
  · simp only [hn, if_true] at hp
    cases hp; subst hn; exact hlo
  · simp only [hn, if_false] at hp
    cases hany : lo.graph.any (fun p => p.1.name == raw) with
    | true => simp [hany] at hp
    | false =>
      simp only [hany] at hp
      cases hp
      intro b hb
      have h0 := hlo b hb
      unfold eval at h0 ⊢
      have hget : get? (lo.graph ++ (grid nb).map (fun b => ((⟨raw, b⟩ : Key), (Node.alias ⟨lo.name, b⟩ : Node V))))
          ⟨raw, b⟩ = some (.alias ⟨lo.name, b⟩) := by
        rw [get?_append, get?_none_of_noName hany b]
        exact get?_aliasLayer hb
      simp only [evalKey, hget]
      apply evalKey_mono (evalKey_append h0)
      have : 0 < (grid nb).length := List.length_pos_of_mem hb
      simp only [List.length_append, List.length_map]
      omega

/-- WITHOUT the pin a renamed root leaves the advertised keys undefined -/
theorem unpinned_undefined {raw : String} {lo : Lowered V}
    (hany : lo.graph.any (fun p => p.1.name == raw) = false) (b : BlockId) : eval lo.graph ⟨raw, b⟩ = none := by
  simp [eval, evalKey, get?_none_of_noName hany b]


end Dask.Lemmas.Entry

/-! # C09 — the shared lowering cache -/
namespace Dask.Lemmas.Memo
open Dask.Memo
variable {E N D Cfg : Type} [DecidableEq N]

theorem get?_cons (n m : N) (e : E) (c : Cache E N) :
    Cache.get? ((n, e) :: c) m = if m = n then some e else Cache.get? c m := by
  unfold Cache.get?
  by_cases h : m = n
  · simp [List.lookup, h]
  · have hb : (m == n) = false := by simpa using h
    simp [List.lookup, hb, h]

theorem get?_filter (n0 m : N) (c : Cache E N) :
    Cache.get? (c.filter (fun p => !decide (p.1 = n0))) m = if m = n0 then none else Cache.get? c m := by
  induction c with
  | nil => simp [Cache.get?, List.lookup]
  | cons p r ih =>
    obtain ⟨n, e⟩ := p
    by_cases hn : n = n0
    · subst hn
      simp only [List.filter, decide_true, Bool.not_true]
      rw [ih, get?_cons]
      by_cases hm : m = n <;> simp [hm]
    · simp only [List.filter, hn, decide_false, Bool.not_false]
      rw [get?_cons, get?_cons, ih]
      by_cases hm : m = n
      · subst hm; simp [hn]
      · simp [hm]

theorem Inv_nil (S : Sys E N D Cfg) : Inv S [] := by
  intro n e' h; simp [Cache.get?, List.lookup] at h

/-- storing a same-meaning result under the name of a node that does not opt out keeps the invariant
(this is all `lowered.setdefault(self._name, out)` needs — also for `ChunksFreeze.lower_once`) -/
theorem Inv_insert {S : Sys E N D Cfg} {c : Cache E N} {e out : E} (hc : Inv S c)
    (ho : S.optsOut e = false) (hd : S.den out = S.den e) : Inv S ((S.name e, out) :: c) := by
  intro n e' h
  rw [get?_cons] at h
  by_cases hn : n = S.name e
  · simp only [hn, if_true] at h
    cases h
    exact ⟨e, ho, hn.symm, hd⟩
  · simp only [hn, if_false] at h
    exact hc n e' h

theorem Inv_evict {S : Sys E N D Cfg} {c : Cache E N} (hc : Inv S c) (n0 : N) :
    Inv S (c.filter (fun p => !decide (p.1 = n0))) := by
  intro n e' h
  rw [get?_filter] at h
  by_cases hn : n = n0
  · simp [hn] at h
  · simp only [hn, if_false] at h
    exact hc n e' h

/-- a cache hit means what the node means (uses name injectivity, C06) -/
theorem hit_sound {S : Sys E N D Cfg} {c : Cache E N} (hinj : NameInj S) (hc : Inv S c) {e hit : E}
    (ho : S.optsOut e = false) (h : c.get? (S.name e) = some hit) : S.den hit = S.den e := by
  obtain ⟨w, hw, hn, hd⟩ := hc _ _ h
  rw [hd]
  exact hinj w e hw ho hn

theorem Inv_iff_everyEntrySound {S : Sys E N D Cfg} (hinj : NameInj S) {c : Cache E N} (hc : Inv S c) :
    EveryEntrySound S c := by
  intro n e' h e ho hn
  subst hn
  exact hit_sound hinj hc ho h

theorem mapAccum_sound {S : Sys E N D Cfg} (f : Cache E N → E → E × Cache E N)
    (hf : ∀ c e, Inv S c → Inv S (f c e).2 ∧ S.den (f c e).1 = S.den e) :
    ∀ (ks : List E) (c : Cache E N), Inv S c → Inv S (mapAccum f c ks).2 ∧ SameDen S (mapAccum f c ks).1 ks
  | [], c, hc => ⟨hc, SameDen.nil⟩
  | k :: ks, c, hc => by
    obtain ⟨h1, h2⟩ := hf c k hc
    obtain ⟨h3, h4⟩ := mapAccum_sound f hf ks (f c k).2 h1
    exact ⟨h3, SameDen.cons h2 h4⟩

/-- ONE PASS: `lower_once` keeps the cache invariant and the meaning, for every configuration -/
theorem lowerOnce_sound {S : Sys E N D Cfg} (hs : RuleSound S) (hinj : NameInj S) (cfg : Cfg) :
    ∀ (fuel : Nat) (c : Cache E N) (e : E), Inv S c →
      Inv S (lowerOnce S cfg fuel c e).2 ∧ S.den (lowerOnce S cfg fuel c e).1 = S.den e
  | 0, c, e, hc => ⟨hc, rfl⟩
  | fuel + 1, c, e, hc => by
    unfold lowerOnce
    cases ho : S.optsOut e with
    | true => simpa using hc
    | false =>
      simp only [Bool.false_eq_true, if_false]
      cases hget : c.get? (S.name e) with
      | some hit => exact ⟨hc, hit_sound hinj hc ho hget⟩
      | none =>
        simp only
        have hout : S.den ((S.rule cfg e).getD e) = S.den e := by
          cases hr : S.rule cfg e with
          | none => rfl
          | some e' => exact hs.rule cfg e e' hr
        obtain ⟨hc2, hkids⟩ := mapAccum_sound (lowerOnce S cfg fuel)
          (fun c e hc => lowerOnce_sound hs hinj cfg fuel c e hc) (S.children ((S.rule cfg e).getD e)) c hc
        generalize hr : mapAccum (lowerOnce S cfg fuel) c (S.children ((S.rule cfg e).getD e)) = r at hc2 hkids
        have hout' : S.den (if (r.1.map S.name != (S.children ((S.rule cfg e).getD e)).map S.name) = true
            then S.withChildren ((S.rule cfg e).getD e) r.1 else (S.rule cfg e).getD e) = S.den e := by
          split
          · rw [hs.congr _ _ hkids]; exact hout
          · exact hout
        cases hget2 : r.2.get? (S.name e) with
        | some old => exact ⟨hc2, hit_sound hinj hc2 ho hget2⟩
        | none => exact ⟨Inv_insert hc2 ho hout', hout'⟩

theorem lowerLoop_sound {S : Sys E N D Cfg} (hs : RuleSound S) (hinj : NameInj S) (cfg : Cfg) (depth : Nat) :
    ∀ (rounds : Nat) (c : Cache E N) (e : E), Inv S c →
      Inv S (lowerLoop S cfg depth rounds c e).2 ∧ S.den (lowerLoop S cfg depth rounds c e).1 = S.den e
  | 0, c, e, hc => ⟨hc, rfl⟩
  | rounds + 1, c, e, hc => by
    unfold lowerLoop
    obtain ⟨h1, h2⟩ := lowerOnce_sound hs hinj cfg depth c e hc
    simp only
    split
    · exact ⟨h1, rfl⟩
    · obtain ⟨h3, h4⟩ := lowerLoop_sound hs hinj cfg depth rounds _ _ h1
      exact ⟨h3, h4.trans h2⟩

theorem materialize_sound {S : Sys E N D Cfg} (hs : RuleSound S) (hinj : NameInj S) (cfg : Cfg)
    (depth rounds : Nat) (c : Cache E N) (e : E) (hc : Inv S c) :
    Inv S (materialize S cfg depth rounds c e).2 ∧ S.den (materialize S cfg depth rounds c e).1 = S.den e := by
  unfold materialize
  cases ho : S.optsOut e with
  | true => simpa using hc
  | false =>
    simp only [Bool.false_eq_true, if_false]
    have h0 : S.den (if S.optimizeOn cfg = true then S.simplify cfg e else e) = S.den e := by
      split
      · exact hs.simplify cfg e
      · rfl
    obtain ⟨h1, h2⟩ := lowerLoop_sound hs hinj cfg depth rounds c
      (if S.optimizeOn cfg = true then S.simplify cfg e else e) hc
    generalize lowerLoop S cfg depth rounds c (if S.optimizeOn cfg = true then S.simplify cfg e else e) = r at h1 h2
    refine ⟨h1, ?_⟩
    have h3 : S.den (if S.optimizeOn cfg = true then S.fuse cfg r.1 else r.1) = S.den e := by
      split
      · rw [hs.fuse]; exact h2.trans h0
      · exact h2.trans h0
    generalize (if S.optimizeOn cfg = true then S.fuse cfg r.1 else r.1) = e1 at h3
    split
    · exact h3
    · rw [hs.pinned]; exact h3

theorem exec_sound {S : Sys E N D Cfg} (hs : RuleSound S) (hinj : NameInj S) (depth rounds : Nat)
    (st : State E N Cfg) (step : Step E N Cfg) (hc : Inv S st.cache) : Inv S (exec S depth rounds st step).cache := by
  cases step with
  | setCfg cfg => exact hc
  | build e => exact hc
  | lower e => exact (materialize_sound hs hinj st.cfg depth rounds st.cache e hc).1
  | compute e => exact (materialize_sound hs hinj st.cfg depth rounds st.cache e hc).1
  | evict n => exact Inv_evict hc n

theorem runHist_sound {S : Sys E N D Cfg} (hs : RuleSound S) (hinj : NameInj S) (depth rounds : Nat) :
    ∀ (h : List (Step E N Cfg)) (st : State E N Cfg), Inv S st.cache → Inv S (runHist S depth rounds st h).cache
  | [], _, hc => hc
  | s :: h, st, hc => by
    simp only [runHist, List.foldl]
    exact runHist_sound hs hinj depth rounds h _ (exec_sound hs hinj depth rounds st s hc)

/-- nodes that opt out are returned as they are and leave the cache untouched -/
theorem lowerOnce_optsOut {S : Sys E N D Cfg} (cfg : Cfg) (fuel : Nat) (c : Cache E N) (e : E)
    (ho : S.optsOut e = true) : lowerOnce S cfg fuel c e = (e, c) := by
  cases fuel with
  | zero => rfl
  | succ f => simp [lowerOnce, ho]

theorem materialize_optsOut {S : Sys E N D Cfg} (cfg : Cfg) (depth rounds : Nat) (c : Cache E N) (e : E)
    (ho : S.optsOut e = true) : materialize S cfg depth rounds c e = (e, c) := by
  simp [materialize, ho]

end Dask.Lemmas.Memo
