/-
`kernel_decide`: close a closed decidable goal `p` with `of_decide_eq_true (Eq.refl true)`, checked by the KERNEL
only — exactly the proof `decide +kernel` produces on success.  The difference is the failure path: `decide +kernel`
re-evaluates the `Decidable` instance with the elaborator's `whnf` to explain the failure — lazily, while rendering
the error message, outside every heartbeat limit — which on a table-sized term ran for 20 minutes and 26 GB here.
A generated table that breaks an obligation must fail FAST, so a failure is simply reported.
Nothing is trusted: the proof is an auxiliary lemma type-checked by the kernel (`#print axioms` shows none).
-/
import Lean.Elab.Tactic.ElabTerm
import Lean.Meta.Tactic.AuxLemma
namespace Dask.KernelDecide
open Lean Elab Tactic Meta

elab "kernel_decide" : tactic =>
  closeMainGoalUsing `kernel_decide fun expectedType _ => do
    let expectedType ← instantiateMVars expectedType
    if expectedType.hasFVar || expectedType.hasMVar then
      throwError "kernel_decide: the goal must be closed (no local variables / metavariables){indentExpr expectedType}"
    let pf ← mkDecideProof expectedType
    try
      let lemmaName ← withOptions (Elab.async.set · false) do mkAuxLemma [] expectedType pf
      return mkConst lemmaName
    catch _ =>
      throwError "kernel_decide: the kernel did not evaluate the Decidable instance of the goal to `isTrue` (the proposition is false, or does not reduce){indentExpr expectedType}"

end Dask.KernelDecide
