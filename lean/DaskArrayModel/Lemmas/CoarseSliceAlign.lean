/-
The cross-operand gate of the coarse rule (`label_chunks.setdefault(...) != ...`, commit c36af38): the rule with the
gate fires only where the rule without it does, with the same result; the gate as an equivalence; what it guarantees.
-/
import DaskArrayModel.Lemmas.CoarseSliceAssemble
namespace Dask.Lemmas.Coarse
open Dask.Py Dask.Py.PySlice Dask.Slicing Dask.Coarse

theorem opAxisSliceS_forget (outInd : List Nat) (plans : List AxisPlan) (nb : List Nat) (lc lc' : LabelChunks)
    (lab : Nat) (ic : List Int) (s : Option (Int × Int))
    (h : opAxisSliceS outInd plans nb lc lab ic = some (s, lc')) :
    opAxisSlice outInd plans nb lab ic = some s := by
  unfold opAxisSliceS at h
  cases h0 : opAxisSlice outInd plans nb lab ic with
  | none => rw [h0] at h; simp at h
  | some s0 =>
    rw [h0] at h
    cases s0 with
    | none =>
      simp only at h
      have e := (Prod.mk.inj (Option.some.inj h)).1
      subst e
      rfl
    | some ab =>
      simp only at h
      cases hl : lc.lookup lab with
      | none =>
        rw [hl] at h
        simp only at h
        have e := (Prod.mk.inj (Option.some.inj h)).1
        subst e
        rfl
      | some ref =>
        rw [hl] at h
        simp only at h
        by_cases hr : ref ≠ ic
        · rw [if_pos hr] at h; simp at h
        · rw [if_neg hr] at h
          have e := (Prod.mk.inj (Option.some.inj h)).1
          subst e
          rfl

theorem opAxesSlicesS_forget (outInd : List Nat) (plans : List AxisPlan) (nb : List Nat) :
    ∀ (lc lc' : LabelChunks) (ind : List Nat) (chunks : List (List Int)) (sl : List (Option (Int × Int))),
    opAxesSlicesS outInd plans nb lc ind chunks = some (sl, lc') → opAxesSlices outInd plans nb ind chunks = some sl
  | lc, lc', [], chunks, sl, h => by
    unfold opAxesSlicesS at h
    have e := (Prod.mk.inj (Option.some.inj h)).1
    subst e
    unfold opAxesSlices
    rfl
  | lc, lc', l :: ls, [], sl, h => by
    unfold opAxesSlicesS at h
    have e := (Prod.mk.inj (Option.some.inj h)).1
    subst e
    unfold opAxesSlices
    rfl
  | lc, lc', l :: ls, ic :: ics, sl, h => by
    unfold opAxesSlicesS at h
    cases h1 : opAxisSliceS outInd plans nb lc l ic with
    | none => rw [h1] at h; simp at h
    | some r1 =>
      obtain ⟨s, lc1⟩ := r1
      rw [h1] at h
      simp only at h
      cases h2 : opAxesSlicesS outInd plans nb lc1 ls ics with
      | none => rw [h2] at h; simp at h
      | some r2 =>
        obtain ⟨ss, lc2⟩ := r2
        rw [h2] at h
        simp only at h
        have e := (Prod.mk.inj (Option.some.inj h)).1
        subst e
        unfold opAxesSlices
        rw [opAxisSliceS_forget outInd plans nb lc lc1 l ic s h1,
          opAxesSlicesS_forget outInd plans nb lc1 lc2 ls ics ss h2]
        rfl

theorem opSliceS_forget (outInd : List Nat) (plans : List AxisPlan) (nb : List Nat) (lc lc' : LabelChunks) (o : Opd)
    (r : Option (List (Option (Int × Int)))) (h : opSliceS outInd plans nb lc o = some (r, lc')) :
    opSlice outInd plans nb o = some r := by
  unfold opSliceS at h
  unfold opSlice
  cases hi : o.ind with
  | none =>
    rw [hi] at h
    simp only at h ⊢
    have e := (Prod.mk.inj (Option.some.inj h)).1
    subst e
    rfl
  | some ind =>
    rw [hi] at h
    simp only at h ⊢
    by_cases ha : (!o.isArr) = true
    · rw [if_pos ha] at h; simp at h
    · rw [if_neg ha] at h
      rw [if_neg ha]
      cases h1 : opAxesSlicesS outInd plans nb lc ind o.chunks with
      | none => rw [h1] at h; simp at h
      | some r1 =>
        obtain ⟨sl, lc1⟩ := r1
        rw [h1] at h
        simp only at h
        have e := (Prod.mk.inj (Option.some.inj h)).1
        subst e
        rw [opAxesSlicesS_forget outInd plans nb lc lc1 ind o.chunks sl h1]
        rfl

theorem opsSlicesS_forget (outInd : List Nat) (plans : List AxisPlan) (nb : List Nat) :
    ∀ (lc lc' : LabelChunks) (ops : List Opd) (sls : List (Option (List (Option (Int × Int))))),
    opsSlicesS outInd plans nb lc ops = some (sls, lc') → mapOpt (opSlice outInd plans nb) ops = some sls
  | lc, lc', [], sls, h => by
    unfold opsSlicesS at h
    have e := (Prod.mk.inj (Option.some.inj h)).1
    subst e
    rfl
  | lc, lc', o :: os, sls, h => by
    unfold opsSlicesS at h
    cases h1 : opSliceS outInd plans nb lc o with
    | none => rw [h1] at h; simp at h
    | some r1 =>
      obtain ⟨s, lc1⟩ := r1
      rw [h1] at h
      simp only at h
      cases h2 : opsSlicesS outInd plans nb lc1 os with
      | none => rw [h2] at h; simp at h
      | some r2 =>
        obtain ⟨ss, lc2⟩ := r2
        rw [h2] at h
        simp only at h
        have e := (Prod.mk.inj (Option.some.inj h)).1
        subst e
        unfold mapOpt
        rw [opSliceS_forget outInd plans nb lc lc1 o s h1, opsSlicesS_forget outInd plans nb lc1 lc2 os ss h2]
        rfl

/-- **the rule with the cross-operand gate fires only where the rule without it fires, with the same result** -/
theorem acceptCoarse_le (n : Node) (oc : List (List Int)) (idx : List Idx) (r : Result)
    (h : acceptCoarse n oc idx = some r) : acceptCoarse0 n oc idx = some r := by
  unfold acceptCoarse at h
  unfold acceptCoarse0
  cases hp : axisPlans oc (fullIndex idx n.outInd.length) with
  | none => rw [hp] at h; simp at h
  | some plans =>
    rw [hp] at h
    simp only at h ⊢
    cases hs : opsSlicesS n.outInd plans (oc.map List.length) [] n.ops with
    | none => rw [hs] at h; simp at h
    | some rr =>
      obtain ⟨sls, lc⟩ := rr
      rw [hs] at h
      simp only at h
      rw [opsSlicesS_forget n.outInd plans _ [] lc n.ops sls hs]
      exact h

theorem acceptCoarse_none_of_0 (n : Node) (oc : List (List Int)) (idx : List Idx)
    (h : acceptCoarse0 n oc idx = none) : acceptCoarse n oc idx = none := by
  cases hr : acceptCoarse n oc idx with
  | none => rfl
  | some r => rw [acceptCoarse_le n oc idx r hr] at h; simp at h

/-- the three gates of one operand axis, as an equivalence -/
theorem opAxisSliceS_none_iff (outInd : List Nat) (plans : List AxisPlan) (nb : List Nat) (lc : LabelChunks) (lab : Nat)
    (ic : List Int) :
    opAxisSliceS outInd plans nb lc lab ic = none ↔
      (outInd.contains lab = true ∧ (plans.getD (outInd.idxOf lab) ⟨none, .colon⟩).br ≠ none ∧
        (ic.length ≠ nb.getD (outInd.idxOf lab) 0 ∨ ic.contains 0 = true ∨
          ∃ ref, lc.lookup lab = some ref ∧ ref ≠ ic)) := by
  have h0 := opAxisSlice_none_iff outInd plans nb lab ic
  unfold opAxisSliceS
  cases hs : opAxisSlice outInd plans nb lab ic with
  | none =>
    simp only [true_iff]
    obtain ⟨a, b, c⟩ := h0.mp hs
    exact ⟨a, b, c.elim Or.inl (fun z => Or.inr (Or.inl z))⟩
  | some s0 =>
    have hne : ¬ (opAxisSlice outInd plans nb lab ic = none) := by rw [hs]; simp
    cases s0 with
    | none =>
      simp only
      constructor
      · intro h; simp at h
      · rintro ⟨a, b, c⟩
        exfalso
        -- `some none` with a block range is impossible
        unfold opAxisSlice at hs
        simp only [a, if_true] at hs
        cases hbr : (plans.getD (outInd.idxOf lab) ⟨none, .colon⟩).br with
        | none => exact b hbr
        | some fl =>
          obtain ⟨f, l⟩ := fl
          rw [hbr] at hs
          simp only at hs
          split at hs
          · simp at hs
          · split at hs
            · simp at hs
            · simp at hs
    | some ab =>
      simp only
      have hgate : outInd.contains lab = true ∧ (plans.getD (outInd.idxOf lab) ⟨none, .colon⟩).br ≠ none := by
        unfold opAxisSlice at hs
        by_cases a : outInd.contains lab = true
        · refine ⟨a, ?_⟩
          simp only [a, if_true] at hs
          intro hbr
          rw [hbr] at hs
          simp at hs
        · have a' : outInd.contains lab = false := by simpa using a
          simp only [a', Bool.false_eq_true, if_false] at hs
          simp at hs
      have hno : ¬ (ic.length ≠ nb.getD (outInd.idxOf lab) 0 ∨ ic.contains 0 = true) := by
        intro c
        exact hne (h0.mpr ⟨hgate.1, hgate.2, c⟩)
      cases hl : lc.lookup lab with
      | none =>
        simp only
        constructor
        · intro h; simp at h
        · rintro ⟨_, _, c | c | ⟨ref, c, _⟩⟩
          · exact absurd (Or.inl c) hno
          · exact absurd (Or.inr c) hno
          · simp at c
      | some ref =>
        simp only
        by_cases hr : ref ≠ ic
        · rw [if_pos hr]
          exact ⟨fun _ => ⟨hgate.1, hgate.2, Or.inr (Or.inr ⟨ref, rfl, hr⟩)⟩, fun _ => rfl⟩
        · rw [if_neg hr]
          constructor
          · intro h; simp at h
          · rintro ⟨_, _, c | c | ⟨ref', c, c'⟩⟩
            · exact absurd (Or.inl c) hno
            · exact absurd (Or.inr c) hno
            · have : ref' = ref := (Option.some.inj c).symm
              subst this
              exact absurd c' hr

/-! ### what the gate guarantees: all sliced operand axes of one label have the same chunks -/

/-- the label is sliced to a block range -/
def Sliced (outInd : List Nat) (plans : List AxisPlan) (lab : Nat) : Prop :=
  outInd.contains lab = true ∧ (plans.getD (outInd.idxOf lab) ⟨none, .colon⟩).br ≠ none

theorem opAxisSliceS_step (outInd : List Nat) (plans : List AxisPlan) (nb : List Nat) (lc lc' : LabelChunks)
    (lab : Nat) (ic : List Int) (s : Option (Int × Int))
    (h : opAxisSliceS outInd plans nb lc lab ic = some (s, lc')) :
    (∀ l v, lc.lookup l = some v → lc'.lookup l = some v) ∧
    (Sliced outInd plans lab → lc'.lookup lab = some ic) := by
  unfold opAxisSliceS at h
  cases h0 : opAxisSlice outInd plans nb lab ic with
  | none => rw [h0] at h; simp at h
  | some s0 =>
    rw [h0] at h
    cases s0 with
    | none =>
      simp only at h
      have e := (Prod.mk.inj (Option.some.inj h)).2
      subst e
      refine ⟨fun _ _ hv => hv, ?_⟩
      rintro ⟨a, b⟩
      exfalso
      unfold opAxisSlice at h0
      simp only [a, if_true] at h0
      cases hbr : (plans.getD (outInd.idxOf lab) ⟨none, .colon⟩).br with
      | none => exact b hbr
      | some fl =>
        obtain ⟨f, l⟩ := fl
        rw [hbr] at h0
        simp only at h0
        split at h0
        · simp at h0
        · split at h0
          · simp at h0
          · simp at h0
    | some ab =>
      simp only at h
      cases hl : lc.lookup lab with
      | none =>
        rw [hl] at h
        simp only at h
        have e := (Prod.mk.inj (Option.some.inj h)).2
        subst e
        constructor
        · intro l v hv
          rw [List.lookup_cons]
          by_cases hll : (l == lab) = true
          · have : l = lab := by simpa using hll
            subst this
            rw [hl] at hv; simp at hv
          · have : (l == lab) = false := by simpa using hll
            rw [this]; exact hv
        · intro _
          rw [List.lookup_cons]
          simp
      | some ref =>
        rw [hl] at h
        simp only at h
        by_cases hr : ref ≠ ic
        · rw [if_pos hr] at h; simp at h
        · rw [if_neg hr] at h
          have e := (Prod.mk.inj (Option.some.inj h)).2
          subst e
          have : ref = ic := by
            apply Classical.byContradiction
            intro hne; exact hr hne
          subst this
          exact ⟨fun _ _ hv => hv, fun _ => hl⟩

theorem opAxesSlicesS_step (outInd : List Nat) (plans : List AxisPlan) (nb : List Nat) :
    ∀ (lc lc' : LabelChunks) (ind : List Nat) (chunks : List (List Int)) (sl : List (Option (Int × Int))),
    opAxesSlicesS outInd plans nb lc ind chunks = some (sl, lc') →
    (∀ l v, lc.lookup l = some v → lc'.lookup l = some v) ∧
    (∀ q ∈ ind.zip chunks, Sliced outInd plans q.1 → lc'.lookup q.1 = some q.2)
  | lc, lc', [], chunks, sl, h => by
    unfold opAxesSlicesS at h
    have e := (Prod.mk.inj (Option.some.inj h)).2
    subst e
    exact ⟨fun _ _ hv => hv, by simp⟩
  | lc, lc', l :: ls, [], sl, h => by
    unfold opAxesSlicesS at h
    have e := (Prod.mk.inj (Option.some.inj h)).2
    subst e
    exact ⟨fun _ _ hv => hv, by simp⟩
  | lc, lc', l :: ls, ic :: ics, sl, h => by
    unfold opAxesSlicesS at h
    cases h1 : opAxisSliceS outInd plans nb lc l ic with
    | none => rw [h1] at h; simp at h
    | some r1 =>
      obtain ⟨s, lc1⟩ := r1
      rw [h1] at h
      simp only at h
      cases h2 : opAxesSlicesS outInd plans nb lc1 ls ics with
      | none => rw [h2] at h; simp at h
      | some r2 =>
        obtain ⟨ss, lc2⟩ := r2
        rw [h2] at h
        simp only at h
        have e := (Prod.mk.inj (Option.some.inj h)).2
        subst e
        obtain ⟨m1, r1'⟩ := opAxisSliceS_step outInd plans nb lc lc1 l ic s h1
        obtain ⟨m2, r2'⟩ := opAxesSlicesS_step outInd plans nb lc1 lc2 ls ics ss h2
        refine ⟨fun l' v hv => m2 l' v (m1 l' v hv), ?_⟩
        intro q hq hsl
        simp only [List.zip_cons_cons, List.mem_cons] at hq
        rcases hq with rfl | hq
        · exact m2 _ _ (r1' hsl)
        · exact r2' q hq hsl

theorem opsSlicesS_step (outInd : List Nat) (plans : List AxisPlan) (nb : List Nat) :
    ∀ (lc lc' : LabelChunks) (ops : List Opd) (sls : List (Option (List (Option (Int × Int))))),
    opsSlicesS outInd plans nb lc ops = some (sls, lc') →
    (∀ l v, lc.lookup l = some v → lc'.lookup l = some v) ∧
    (∀ q ∈ chunkPairs ops, Sliced outInd plans q.1 → lc'.lookup q.1 = some q.2)
  | lc, lc', [], sls, h => by
    unfold opsSlicesS at h
    have e := (Prod.mk.inj (Option.some.inj h)).2
    subst e
    exact ⟨fun _ _ hv => hv, by simp [chunkPairs]⟩
  | lc, lc', o :: os, sls, h => by
    unfold opsSlicesS at h
    cases h1 : opSliceS outInd plans nb lc o with
    | none => rw [h1] at h; simp at h
    | some r1 =>
      obtain ⟨s, lc1⟩ := r1
      rw [h1] at h
      simp only at h
      cases h2 : opsSlicesS outInd plans nb lc1 os with
      | none => rw [h2] at h; simp at h
      | some r2 =>
        obtain ⟨ss, lc2⟩ := r2
        rw [h2] at h
        simp only at h
        have e := (Prod.mk.inj (Option.some.inj h)).2
        subst e
        obtain ⟨m2, r2'⟩ := opsSlicesS_step outInd plans nb lc1 lc2 os ss h2
        -- the head operand
        have hd : (∀ l v, lc.lookup l = some v → lc1.lookup l = some v) ∧
            (∀ q ∈ (match o.ind with | none => [] | some ind => ind.zip o.chunks), Sliced outInd plans q.1 →
              lc1.lookup q.1 = some q.2) := by
          unfold opSliceS at h1
          cases hi : o.ind with
          | none =>
            rw [hi] at h1
            simp only at h1
            have e := (Prod.mk.inj (Option.some.inj h1)).2
            subst e
            exact ⟨fun _ _ hv => hv, by simp⟩
          | some ind =>
            rw [hi] at h1
            simp only at h1
            by_cases ha : (!o.isArr) = true
            · rw [if_pos ha] at h1; simp at h1
            · rw [if_neg ha] at h1
              cases h3 : opAxesSlicesS outInd plans nb lc ind o.chunks with
              | none => rw [h3] at h1; simp at h1
              | some r3 =>
                obtain ⟨sl, lc3⟩ := r3
                rw [h3] at h1
                simp only at h1
                have e := (Prod.mk.inj (Option.some.inj h1)).2
                subst e
                exact opAxesSlicesS_step outInd plans nb lc lc3 ind o.chunks sl h3
        refine ⟨fun l' v hv => m2 l' v (hd.1 l' v hv), ?_⟩
        intro q hq hsl
        rw [chunkPairs_cons, List.mem_append] at hq
        rcases hq with hq | hq
        · exact m2 _ _ (hd.2 q hq hsl)
        · exact r2' q hq hsl

/-- **when the rule fires, any two sliced operand axes carrying the same label have equal chunks** -/
theorem fired_aligned (n : Node) (oc : List (List Int)) (idx : List Idx) (r : Result)
    (h : acceptCoarse n oc idx = some r) :
    ∀ q ∈ chunkPairs n.ops, ∀ q' ∈ chunkPairs n.ops, q.1 = q'.1 → Sliced n.outInd r.plans q.1 → q.2 = q'.2 := by
  unfold acceptCoarse at h
  cases hp : axisPlans oc (fullIndex idx n.outInd.length) with
  | none => rw [hp] at h; simp at h
  | some plans =>
    rw [hp] at h
    simp only at h
    cases hs : opsSlicesS n.outInd plans (oc.map List.length) [] n.ops with
    | none => rw [hs] at h; simp at h
    | some rr =>
      obtain ⟨sls, lc⟩ := rr
      rw [hs] at h
      simp only at h
      have hr := (Option.some.inj h).symm
      subst hr
      obtain ⟨_, reg⟩ := opsSlicesS_step n.outInd plans _ [] lc n.ops sls hs
      intro q hq q' hq' hlab hsl
      have e1 := reg q hq hsl
      have e2 := reg q' hq' (by rw [← hlab]; exact hsl)
      rw [← hlab, e1] at e2
      exact Option.some.inj e2

end Dask.Lemmas.Coarse
