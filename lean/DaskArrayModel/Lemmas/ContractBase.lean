/-
Base lemmas for the contraction model (Model/Contract.lean): finite sums over lists (`lsum`),
the mask operations `pick` / `keep` / `merge`, index enumeration `allIdx`.  Core Lean only.
-/
import DaskArrayModel.Model.Contract
import DaskArrayModel.Lemmas.ExprArr
namespace Dask.Contract
open Dask.Py Dask.ND Dask.Reduce

/-! ### sums over lists -/

/-- `Σ_{x ∈ L} f x` -/
def lsum {α} (L : List α) (f : α → Int) : Int := isum (L.map f)

theorem isum_append : ∀ (a b : List Int), isum (a ++ b) = isum a + isum b
  | [], b => by simp [isum]
  | x :: a, b => by
    rw [List.cons_append]; simp only [isum]; rw [isum_append a b]; omega

theorem lsum_nil {α} (f : α → Int) : lsum [] f = 0 := rfl

theorem lsum_cons {α} (x : α) (L : List α) (f : α → Int) : lsum (x :: L) f = f x + lsum L f := rfl

theorem lsum_singleton {α} (x : α) (f : α → Int) : lsum [x] f = f x := by
  simp [lsum, isum]

theorem lsum_append {α} (L M : List α) (f : α → Int) : lsum (L ++ M) f = lsum L f + lsum M f := by
  unfold lsum; rw [List.map_append, isum_append]

theorem lsum_congr {α} {L : List α} {f g : α → Int} (h : ∀ x ∈ L, f x = g x) : lsum L f = lsum L g := by
  unfold lsum; rw [List.map_congr_left h]

theorem lsum_map {α β} (L : List α) (u : α → β) (f : β → Int) : lsum (L.map u) f = lsum L (fun x => f (u x)) := by
  unfold lsum; rw [List.map_map]; rfl

theorem lsum_flatMap {α β} (L : List α) (u : α → List β) (f : β → Int) :
    lsum (L.flatMap u) f = lsum L (fun x => lsum (u x) f) := by
  induction L with
  | nil => rfl
  | cons x L ih => rw [List.flatMap_cons, lsum_append, ih]; rfl

theorem lsum_flatten {α} (Ls : List (List α)) (f : α → Int) :
    lsum Ls.flatten f = lsum Ls (fun L => lsum L f) := by
  induction Ls with
  | nil => rfl
  | cons L Ls ih => rw [List.flatten_cons, lsum_append, ih]; rfl

theorem lsum_add {α} (L : List α) (u v : α → Int) :
    lsum L (fun x => u x + v x) = lsum L u + lsum L v := by
  induction L with
  | nil => rfl
  | cons x L ih => simp only [lsum_cons]; rw [ih]; omega

theorem lsum_zero {α} (L : List α) : lsum L (fun _ => 0) = 0 := by
  induction L with
  | nil => rfl
  | cons x L ih => simp only [lsum_cons]; rw [ih]; rfl

/-- interchange of two finite sums -/
theorem lsum_swap {α β} (L : List α) (M : List β) (f : α → β → Int) :
    lsum L (fun x => lsum M (fun y => f x y)) = lsum M (fun y => lsum L (fun x => f x y)) := by
  induction L with
  | nil => simp only [lsum_nil]; rw [lsum_zero]
  | cons x L ih =>
    simp only [lsum_cons]
    rw [ih, ← lsum_add]

/-! ### `cart` and `allIdx` -/

theorem lsum_cart_cons {α} (xs : List α) (rest : List (List α)) (g : List α → Int) :
    lsum (cart (xs :: rest)) g = lsum xs (fun x => lsum (cart rest) (fun r => g (x :: r))) := by
  show lsum (xs.flatMap (fun x => (cart rest).map (x :: ·))) g = _
  rw [lsum_flatMap]
  apply lsum_congr
  intro x _
  rw [lsum_map]

theorem lsum_cart_nil {α} (g : List α → Int) : lsum (cart ([] : List (List α))) g = g [] := by
  show lsum [[]] g = _
  rw [lsum_singleton]

theorem lsum_allIdx_cons (n : Nat) (ns : List Nat) (f : List Nat → Int) :
    lsum (allIdx (n :: ns)) f = lsum (List.range n) (fun t => lsum (allIdx ns) (fun r => f (t :: r))) := by
  show lsum ((List.range n).flatMap (fun i => (allIdx ns).map (i :: ·))) f = _
  rw [lsum_flatMap]
  apply lsum_congr
  intro x _
  rw [lsum_map]

theorem lsum_allIdx_nil (f : List Nat → Int) : lsum (allIdx []) f = f [] := by
  show lsum [[]] f = _
  rw [lsum_singleton]

theorem mem_allIdx : ∀ (s i : List Nat), i ∈ allIdx s ↔ InB i s
  | [], i => by
    cases i with
    | nil => simp [allIdx, InB]
    | cons x t => simp [allIdx, InB]
  | n :: ns, i => by
    cases i with
    | nil => simp [allIdx, InB]
    | cons x t =>
      simp only [allIdx, List.mem_flatMap, List.mem_range, List.mem_map, InB]
      constructor
      · rintro ⟨y, hy, t', ht', e⟩
        injection e with e1 e2
        subst e1; subst e2
        exact ⟨hy, (mem_allIdx ns _).mp ht'⟩
      · rintro ⟨hx, ht⟩
        exact ⟨x, hx, t, (mem_allIdx ns t).mpr ht, rfl⟩

/-- a zero-length axis: no index at all -/
theorem allIdx_of_zero_mem : ∀ (s : List Nat), 0 ∈ s → allIdx s = []
  | [], h => by simp at h
  | n :: ns, h => by
    rcases List.mem_cons.mp h with h0 | h1
    · subst h0; simp [allIdx]
    · simp [allIdx, allIdx_of_zero_mem ns h1]

/-- all-ones shape: the single index of zeros -/
theorem allIdx_ones : ∀ (l : List Nat), allIdx (l.map (fun _ => 1)) = [l.map (fun _ => 0)]
  | [] => rfl
  | _ :: l => by
    simp only [List.map_cons, allIdx, List.range_one, List.flatMap_cons, List.flatMap_nil,
      List.append_nil]
    rw [allIdx_ones l]; rfl

/-! ### mask operations -/

/-- number of contracted / free positions -/
def nT (m : List Bool) : Nat := (pick m m).length
def nF (m : List Bool) : Nat := (keep m m).length

theorem nT_cons_true (m : List Bool) : nT (true :: m) = nT m + 1 := by simp [nT, pick]
theorem nT_cons_false (m : List Bool) : nT (false :: m) = nT m := by simp [nT, pick]
theorem nF_cons_true (m : List Bool) : nF (true :: m) = nF m := by simp [nF, keep]
theorem nF_cons_false (m : List Bool) : nF (false :: m) = nF m + 1 := by simp [nF, keep]

theorem pick_length {α} : ∀ (m : List Bool) (l : List α), l.length = m.length → (pick m l).length = nT m
  | [], [], _ => rfl
  | [], _ :: _, h => by simp at h
  | _ :: _, [], h => by simp at h
  | true :: m, x :: l, h => by
    simp only [pick, List.length_cons, nT_cons_true]
    rw [pick_length m l (by simpa using h)]
  | false :: m, x :: l, h => by
    simp only [pick, nT_cons_false]
    exact pick_length m l (by simpa using h)

theorem keep_length {α} : ∀ (m : List Bool) (l : List α), l.length = m.length → (keep m l).length = nF m
  | [], [], _ => rfl
  | [], _ :: _, h => by simp at h
  | _ :: _, [], h => by simp at h
  | true :: m, x :: l, h => by
    simp only [keep, nF_cons_true]
    exact keep_length m l (by simpa using h)
  | false :: m, x :: l, h => by
    simp only [keep, List.length_cons, nF_cons_false]
    rw [keep_length m l (by simpa using h)]

theorem zerosOf_length (m : List Bool) : (zerosOf m).length = nT m := by
  simp [zerosOf, nT]

theorem merge_length {α} : ∀ (m : List Bool) (f c : List α), f.length = nF m → c.length = nT m →
    (merge m f c).length = m.length
  | [], f, c, _, _ => by cases f <;> cases c <;> rfl
  | true :: m, f, [], _, hc => by simp [nT_cons_true] at hc
  | true :: m, f, x :: c, hf, hc => by
    simp only [merge, List.length_cons]
    rw [merge_length m f c (by simpa [nF_cons_true] using hf) (by simpa [nT_cons_true] using hc)]
  | false :: m, [], c, hf, _ => by simp [nF_cons_false] at hf
  | false :: m, x :: f, c, hf, hc => by
    simp only [merge, List.length_cons]
    rw [merge_length m f c (by simpa [nF_cons_false] using hf) (by simpa [nT_cons_false] using hc)]

theorem pick_merge {α} : ∀ (m : List Bool) (f c : List α), f.length = nF m → c.length = nT m →
    pick m (merge m f c) = c
  | [], f, c, _, hc => by
    have : c = [] := List.eq_nil_of_length_eq_zero (by simpa [nT, pick] using hc)
    subst this; cases f <;> rfl
  | true :: m, f, [], _, hc => by simp [nT_cons_true] at hc
  | true :: m, f, x :: c, hf, hc => by
    simp only [merge, pick]
    rw [pick_merge m f c (by simpa [nF_cons_true] using hf) (by simpa [nT_cons_true] using hc)]
  | false :: m, [], c, hf, _ => by simp [nF_cons_false] at hf
  | false :: m, x :: f, c, hf, hc => by
    simp only [merge, pick]
    exact pick_merge m f c (by simpa [nF_cons_false] using hf) (by simpa [nT_cons_false] using hc)

theorem keep_merge {α} : ∀ (m : List Bool) (f c : List α), f.length = nF m → c.length = nT m →
    keep m (merge m f c) = f
  | [], f, c, hf, _ => by
    have : f = [] := List.eq_nil_of_length_eq_zero (by simpa [nF, keep] using hf)
    subst this; cases c <;> rfl
  | true :: m, f, [], _, hc => by simp [nT_cons_true] at hc
  | true :: m, f, x :: c, hf, hc => by
    simp only [merge, keep]
    exact keep_merge m f c (by simpa [nF_cons_true] using hf) (by simpa [nT_cons_true] using hc)
  | false :: m, [], c, hf, _ => by simp [nF_cons_false] at hf
  | false :: m, x :: f, c, hf, hc => by
    simp only [merge, keep]
    rw [keep_merge m f c (by simpa [nF_cons_false] using hf) (by simpa [nT_cons_false] using hc)]

theorem merge_keep_pick {α} : ∀ (m : List Bool) (l : List α), l.length = m.length →
    merge m (keep m l) (pick m l) = l
  | [], [], _ => rfl
  | [], _ :: _, h => by simp at h
  | _ :: _, [], h => by simp at h
  | true :: m, x :: l, h => by
    simp only [keep, pick, merge]
    rw [merge_keep_pick m l (by simpa using h)]
  | false :: m, x :: l, h => by
    simp only [keep, pick, merge]
    rw [merge_keep_pick m l (by simpa using h)]

theorem pick_map {α β} (g : α → β) : ∀ (m : List Bool) (l : List α), pick m (l.map g) = (pick m l).map g
  | [], l => by cases l <;> rfl
  | _ :: _, [] => by simp [pick]
  | true :: m, x :: l => by simp only [List.map_cons, pick]; rw [pick_map g m l]
  | false :: m, x :: l => by simp only [List.map_cons, pick]; rw [pick_map g m l]

theorem keep_map {α β} (g : α → β) : ∀ (m : List Bool) (l : List α), keep m (l.map g) = (keep m l).map g
  | [], l => by cases l <;> rfl
  | _ :: _, [] => by simp [keep]
  | true :: m, x :: l => by simp only [List.map_cons, keep]; rw [keep_map g m l]
  | false :: m, x :: l => by simp only [List.map_cons, keep]; rw [keep_map g m l]

/-- `zipWith` acts separately on the free and the contracted positions -/
theorem zipWith_merge {α β γ} (g : α → β → γ) : ∀ (m : List Bool) (f c : List α) (f' c' : List β),
    List.zipWith g (merge m f c) (merge m f' c') = merge m (List.zipWith g f f') (List.zipWith g c c')
  | [], f, c, f', c' => by simp [merge]
  | true :: m, f, [], f', c' => by simp [merge]
  | true :: m, f, x :: c, f', [] => by simp [merge]
  | true :: m, f, x :: c, f', y :: c' => by
    simp only [merge, List.zipWith_cons_cons]
    rw [zipWith_merge g m f c f' c']
  | false :: m, [], c, f', c' => by simp [merge]
  | false :: m, x :: f, c, [], c' => by simp [merge]
  | false :: m, x :: f, c, y :: f', c' => by
    simp only [merge, List.zipWith_cons_cons]
    rw [zipWith_merge g m f c f' c']

theorem InB_merge : ∀ (m : List Bool) (f c sf sc : List Nat), sf.length = nF m → sc.length = nT m →
    InB f sf → InB c sc → InB (merge m f c) (merge m sf sc)
  | [], f, c, sf, sc, hsf, hsc, hf, hc => by
    have e1 : sf = [] := List.eq_nil_of_length_eq_zero (by simpa [nF, keep] using hsf)
    have e2 : sc = [] := List.eq_nil_of_length_eq_zero (by simpa [nT, pick] using hsc)
    subst e1; subst e2
    cases f <;> cases c <;> simp_all [merge, InB]
  | true :: m, f, c, sf, [], _, hsc, _, _ => by simp [nT_cons_true] at hsc
  | true :: m, f, [], sf, y :: sc, _, _, _, hc => by simp [InB] at hc
  | true :: m, f, x :: c, sf, y :: sc, hsf, hsc, hf, hc => by
    simp only [merge, InB]
    exact ⟨hc.1, InB_merge m f c sf sc (by simpa [nF_cons_true] using hsf)
      (by simpa [nT_cons_true] using hsc) hf hc.2⟩
  | false :: m, f, c, [], sc, hsf, _, _, _ => by simp [nF_cons_false] at hsf
  | false :: m, [], c, y :: sf, sc, _, _, hf, _ => by simp [InB] at hf
  | false :: m, x :: f, c, y :: sf, sc, hsf, hsc, hf, hc => by
    simp only [merge, InB]
    exact ⟨hf.1, InB_merge m f c sf sc (by simpa [nF_cons_false] using hsf)
      (by simpa [nT_cons_false] using hsc) hf.2 hc⟩

/-- the parts of an in-bounds index are in bounds of the parts of the shape -/
theorem InB_keep : ∀ (m : List Bool) (i s : List Nat), s.length = m.length → InB i s →
    InB (keep m i) (keep m s)
  | [], [], [], _, _ => trivial
  | [], _, _ :: _, h, _ => by simp at h
  | _ :: _, _, [], h, _ => by simp at h
  | [], _ :: _, [], _, hi => by simp [InB] at hi
  | _ :: _, [], _ :: _, _, hi => by simp [InB] at hi
  | true :: m, x :: i, n :: s, h, hi => by
    simp only [keep]; exact InB_keep m i s (by simpa using h) hi.2
  | false :: m, x :: i, n :: s, h, hi => by
    simp only [keep, InB]; exact ⟨hi.1, InB_keep m i s (by simpa using h) hi.2⟩

theorem InB_pick : ∀ (m : List Bool) (i s : List Nat), s.length = m.length → InB i s →
    InB (pick m i) (pick m s)
  | [], [], [], _, _ => trivial
  | [], _, _ :: _, h, _ => by simp at h
  | _ :: _, _, [], h, _ => by simp at h
  | [], _ :: _, [], _, hi => by simp [InB] at hi
  | _ :: _, [], _ :: _, _, hi => by simp [InB] at hi
  | true :: m, x :: i, n :: s, h, hi => by
    simp only [pick, InB]; exact ⟨hi.1, InB_pick m i s (by simpa using h) hi.2⟩
  | false :: m, x :: i, n :: s, h, hi => by
    simp only [pick]; exact InB_pick m i s (by simpa using h) hi.2

/-- `setMasked` as a merge -/
theorem setMasked_eq_merge : ∀ (m : List Bool) (l : List Nat) (v : Nat), l.length = m.length →
    setMasked m l v = merge m (keep m l) ((pick m l).map (fun _ => v))
  | [], [], _, _ => rfl
  | [], _ :: _, _, h => by simp at h
  | _ :: _, [], _, h => by simp at h
  | true :: m, x :: l, v, h => by
    have ih := setMasked_eq_merge m l v (by simpa using h)
    simp only [setMasked] at ih ⊢
    simp only [List.zipWith_cons_cons, keep, pick, List.map_cons, merge, if_true]
    rw [ih]
  | false :: m, x :: l, v, h => by
    have ih := setMasked_eq_merge m l v (by simpa using h)
    simp only [setMasked] at ih ⊢
    simp only [List.zipWith_cons_cons, keep, pick, merge]
    rw [ih]; simp

theorem setMasked_length (m : List Bool) (l : List Nat) (v : Nat) (h : l.length = m.length) :
    (setMasked m l v).length = m.length := by
  simp [setMasked, h]

/-- an index inside a `keepdims` shape has zeros at the contracted positions -/
theorem pick_of_InB_ones : ∀ (m : List Bool) (i s : List Nat), s.length = m.length →
    InB i (setMasked m s 1) → pick m i = zerosOf m
  | [], [], [], _, _ => rfl
  | [], _, _ :: _, h, _ => by simp at h
  | _ :: _, _, [], h, _ => by simp at h
  | [], _ :: _, [], _, hi => by simp [setMasked, InB] at hi
  | _ :: _, [], _ :: _, _, hi => by simp [setMasked, InB] at hi
  | true :: m, x :: i, n :: s, h, hi => by
    simp only [setMasked, List.zipWith_cons_cons, if_true, InB] at hi
    have ih := pick_of_InB_ones m i s (by simpa using h) hi.2
    simp only [pick, zerosOf, List.map_cons] at ih ⊢
    rw [ih]
    have : x = 0 := by omega
    rw [this]
  | false :: m, x :: i, n :: s, h, hi => by
    simp only [setMasked, List.zipWith_cons_cons, InB] at hi
    have ih := pick_of_InB_ones m i s (by simpa using h) hi.2
    simp only [pick, zerosOf] at ih ⊢
    exact ih

end Dask.Contract
