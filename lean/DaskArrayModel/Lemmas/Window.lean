/-
Proofs for the windowed-operation planners (Model/Window.lean):
`ensure_minimum_chunksize` preserves the sum and makes every chunk at least `size`;
under `supports_native_sliding_window` every row of `SlidingWindowReduction._block_plan`
names in-range blocks whose pieces (suffix of the own block, whole middle blocks, prefix of
the band) tile exactly the window `[start_i + t, start_i + t + W)`.  Core Lean only.
-/
import DaskArrayModel.Model.WindowSpec
import DaskArrayModel.Lemmas.Scan
namespace Dask.Lemmas.Window
open Dask.Py Dask.Window Dask.Scan
variable {α : Type}


/-! ### sums, minima -/

theorem isum_append (a b : List Int) : isum (a ++ b) = isum a + isum b := by
  induction a with
  | nil => simp [isum]
  | cons x xs ih => simp only [List.cons_append, isum, ih]; omega

theorem isum_nonneg (l : List Int) (h : ∀ c ∈ l, 0 ≤ c) : 0 ≤ isum l := by
  induction l with
  | nil => simp [isum]
  | cons x xs ih =>
    have := h x (by simp)
    have := ih (fun c hc => h c (by simp [hc]))
    simp only [isum]; omega

theorem foldl_min_le (xs : List Int) (a : Int) :
    xs.foldl min a ≤ a ∧ ∀ c ∈ xs, xs.foldl min a ≤ c := by
  induction xs generalizing a with
  | nil => simp
  | cons x xs ih =>
    simp only [List.foldl_cons, List.mem_cons]
    have h := ih (min a x)
    refine ⟨by omega, ?_⟩
    rintro c (rfl | hc)
    · omega
    · exact h.2 c hc

theorem lmin_le (l : List Int) : ∀ c ∈ l, lmin l ≤ c := by
  cases l with
  | nil => simp
  | cons x xs =>
    intro c hc
    have h := foldl_min_le xs x
    simp only [List.mem_cons] at hc
    rcases hc with rfl | hc
    · exact h.1
    · exact h.2 c hc

/-! ### `ensure_minimum_chunksize` -/

/-- loop invariant of `for c in chunks:` -/
structure EInv (size : Int) (st : EState) (done : Int) : Prop where
  sum : isum st.output + st.new = done
  big : ∀ c ∈ st.output, size ≤ c
  nonneg : 0 ≤ st.new

theorem emcStep_inv (size : Int) (hs : 0 < size) (st : EState) (done c : Int) (hc : 0 ≤ c)
    (h : EInv size st done) : EInv size (emcStep size st c) (done + c) := by
  obtain ⟨h1, h2, h3⟩ := h
  have mem2 : ∀ (v : Int), size ≤ v → ∀ x ∈ st.output ++ [v], size ≤ x := by
    intro v hv x hx
    simp only [List.mem_append, List.mem_singleton] at hx
    rcases hx with hx | rfl
    · exact h2 x hx
    · exact hv
  unfold emcStep
  by_cases hcs : c < size
  · have hn : ¬ c ≥ size := by omega
    simp only [hcs, if_true, hn, if_false]
    by_cases hbig : st.new > size + (size - c)
    · simp only [hbig, if_true, ge_iff_le, Int.le_refl]
      refine ⟨?_, ?_, ?_⟩ <;> dsimp only
      · simp only [isum_append, isum]; omega
      · intro x hx
        simp only [List.mem_append, List.mem_singleton] at hx
        rcases hx with (hx | rfl) | rfl
        · exact h2 x hx
        · omega
        · omega
      · omega
    · simp only [hbig, if_false]
      by_cases hge : st.new + c ≥ size
      · simp only [hge, if_true]
        refine ⟨?_, mem2 _ hge, ?_⟩ <;> dsimp only
        · simp only [isum_append, isum]; omega
        · omega
      · simp only [hge, if_false]
        refine ⟨?_, h2, ?_⟩ <;> dsimp only <;> omega
  · have hn : c ≥ size := by omega
    simp only [hcs, if_false, hn, if_true]
    by_cases hge : st.new ≥ size
    · simp only [hge, if_true]
      refine ⟨?_, mem2 _ hge, ?_⟩ <;> dsimp only
      · simp only [isum_append, isum]; omega
      · omega
    · simp only [hge, if_false]
      refine ⟨?_, h2, ?_⟩ <;> dsimp only <;> omega

theorem emcLoop_inv (size : Int) (hs : 0 < size) (cs : List Int) (hcs : ∀ c ∈ cs, 0 ≤ c)
    (st : EState) (done : Int) (h : EInv size st done) :
    EInv size (cs.foldl (emcStep size) st) (done + isum cs) := by
  induction cs generalizing st done with
  | nil => simpa [isum] using h
  | cons c cs ih =>
    simp only [List.foldl_cons, isum]
    have := ih (fun x hx => hcs x (by simp [hx])) _ _ (emcStep_inv size hs st done c (hcs c (by simp)) h)
    have e : done + (c + isum cs) = done + c + isum cs := by omega
    rw [e]; exact this

/-- `ensure_minimum_chunksize(size, chunks)` for non-negative chunks: the sum is preserved and
every output chunk is at least `size`; it raises exactly when the whole axis is shorter than `size`. -/
theorem ensureMinimumChunksize_spec (size : Int) (chunks : List Int) (hne : chunks ≠ [])
    (hpos : ∀ c ∈ chunks, 0 ≤ c) :
    match ensureMinimumChunksize size chunks with
    | some out => isum out = isum chunks ∧ (∀ c ∈ out, size ≤ c) ∧ out ≠ []
    | none => isum chunks < size := by
  unfold ensureMinimumChunksize
  by_cases h0 : size ≤ lmin chunks
  · rw [if_pos h0]
    exact ⟨rfl, fun c hc => Int.le_trans h0 (lmin_le chunks c hc), hne⟩
  · simp only [h0, if_false]
    have hs : 0 < size := by
      obtain ⟨c, hc⟩ : ∃ c, c ∈ chunks := by
        cases chunks with
        | nil => exact absurd rfl hne
        | cons c _ => exact ⟨c, by simp⟩
      have hmin : 0 ≤ lmin chunks := by
        cases chunks with
        | nil => exact absurd rfl hne
        | cons x xs =>
          -- the minimum is one of the (non-negative) entries
          have : ∀ (ys : List Int) (a : Int), 0 ≤ a → (∀ y ∈ ys, 0 ≤ y) → 0 ≤ ys.foldl min a := by
            intro ys
            induction ys with
            | nil => intro a ha _; simpa using ha
            | cons y ys ih =>
              intro a ha hy
              simp only [List.foldl_cons]
              exact ih _ (by have := hy y (by simp); omega) (fun z hz => hy z (by simp [hz]))
          exact this xs x (hpos x (by simp)) (fun y hy => hpos y (by simp [hy]))
      omega
    have inv := emcLoop_inv size hs chunks hpos ⟨[], 0⟩ 0 ⟨by simp [isum], by simp, by simp⟩
    generalize chunks.foldl (emcStep size) ⟨[], 0⟩ = st at inv
    obtain ⟨h1, h2, h3⟩ := inv
    by_cases hge : st.new ≥ size
    · simp only [hge, if_true]
      refine ⟨by simp only [isum_append, isum]; omega, ?_, by simp⟩
      intro x hx
      simp only [List.mem_append, List.mem_singleton] at hx
      rcases hx with hx | rfl
      · exact h2 x hx
      · omega
    · simp only [hge, if_false]
      by_cases hlen : st.output.length ≥ 1
      · simp only [hlen, if_true]
        have hne' : st.output ≠ [] := by intro h; rw [h] at hlen; simp at hlen
        rcases List.eq_nil_or_concat st.output with h | ⟨init, last, h⟩
        · exact absurd h hne'
        · rw [List.concat_eq_append] at h
          rw [h, List.dropLast_concat, List.getLastD_concat]
          rw [h, isum_append] at h1
          simp only [isum] at h1
          refine ⟨by simp only [isum_append, isum]; omega, ?_, by simp⟩
          intro x hx
          simp only [List.mem_append, List.mem_singleton] at hx
          rcases hx with hx | rfl
          · exact h2 x (by rw [h]; simp [hx])
          · have := h2 last (by rw [h]; simp)
            omega
      · simp only [hlen, if_false]
        have : st.output = [] := by
          cases ho : st.output with
          | nil => rfl
          | cons a b => rw [ho] at hlen; simp at hlen
        rw [this] at h1
        simp only [isum] at h1
        omega



/-! ### block starts -/

theorem S_zero (chunks : List Int) : blockStart chunks 0 = 0 := by simp [blockStart, isum]

theorem S_succ (chunks : List Int) (k : Nat) (hk : k < chunks.length) :
    blockStart chunks (k + 1) = blockStart chunks k + chunks[k] := by
  unfold blockStart
  rw [List.take_add_one, isum_append, List.getElem?_eq_getElem hk]
  simp [isum]

theorem S_len (chunks : List Int) (k : Nat) (hk : chunks.length ≤ k) : blockStart chunks k = isum chunks := by
  unfold blockStart; rw [List.take_of_length_le hk]

theorem S_mono (chunks : List Int) (hpos : ∀ c ∈ chunks, 0 < c) {a b : Nat} (hab : a ≤ b) (hb : b ≤ chunks.length) :
    blockStart chunks a ≤ blockStart chunks b := by
  induction b with
  | zero => have : a = 0 := by omega
            subst this; exact Int.le_refl _
  | succ b ih =>
    by_cases h : a = b + 1
    · subst h; exact Int.le_refl _
    · have h1 := ih (by omega) (by omega)
      have h2 := S_succ chunks b (by omega)
      have h3 := hpos chunks[b] (List.getElem_mem _)
      omega

theorem S_strict (chunks : List Int) (hpos : ∀ c ∈ chunks, 0 < c) {a b : Nat} (hab : a < b) (hb : b ≤ chunks.length) :
    blockStart chunks a < blockStart chunks b := by
  have h1 := S_mono chunks hpos (a := a + 1) (b := b) (by omega) hb
  have h2 := S_succ chunks a (by omega)
  have h3 := hpos chunks[a] (List.getElem_mem _)
  omega

theorem cumsumFrom_getD (l : List Int) (acc : Int) (k : Nat) (hk : k < l.length) :
    (cumsumFrom acc l).getD k 0 = acc + isum (l.take (k + 1)) := by
  induction l generalizing acc k with
  | nil => simp at hk
  | cons x xs ih =>
    cases k with
    | zero => simp [cumsumFrom, isum]
    | succ k =>
      simp only [cumsumFrom, List.getD_cons_succ, List.take_succ_cons, isum]
      rw [ih (acc + x) k (by simpa using hk)]
      omega

theorem starts_getD (chunks : List Int) (k : Nat) (hk : k ≤ chunks.length) :
    (starts chunks).getD k 0 = blockStart chunks k := by
  unfold starts cumsum
  cases k with
  | zero => simp [blockStart, isum]
  | succ k =>
    rw [List.getD_cons_succ, cumsumFrom_getD chunks 0 k (by omega)]
    simp [blockStart]

theorem cumsumFrom_length (l : List Int) (acc : Int) : (cumsumFrom acc l).length = l.length := by
  induction l generalizing acc with
  | nil => rfl
  | cons x xs ih => simp [cumsumFrom, ih]

theorem starts_length (chunks : List Int) : (starts chunks).length = chunks.length + 1 := by
  simp [starts, cumsum, cumsumFrom_length]

theorem pyGet_nat (l : List Int) (i : Nat) : pyGet l (i : Int) = l.getD i 0 := by
  unfold pyGet
  have : ¬ ((i : Int) < 0) := by omega
  simp [this]

theorem pyGet_nonneg (l : List Int) (b : Int) (hb : 0 ≤ b) : pyGet l b = l.getD b.toNat 0 := by
  unfold pyGet
  have : ¬ (b < 0) := by omega
  simp [this]

/-! ### `bisect_right` -/

theorem bisectRight_spec (l : List Int) (v : Int) :
    bisectRight l v ≤ l.length ∧ (∀ j, j < bisectRight l v → l.getD j 0 ≤ v) ∧
      (bisectRight l v < l.length → v < l.getD (bisectRight l v) 0) := by
  induction l with
  | nil => simp [bisectRight]
  | cons y ys ih =>
    unfold bisectRight
    by_cases h : v < y
    · simp [h]
    · simp only [h, if_false, List.length_cons]
      obtain ⟨h1, h2, h3⟩ := ih
      refine ⟨by omega, ?_, ?_⟩
      · intro j hj
        cases j with
        | zero => simp; omega
        | succ j => rw [List.getD_cons_succ]; exact h2 j (by omega)
      · intro hlt
        rw [List.getD_cons_succ]; exact h3 (by omega)

/-- `bisect_right(starts, v) - 1` is the block containing position `v`. -/
theorem block_of_pos (chunks : List Int) (v : Int) (h0 : 0 ≤ v) (hv : v < isum chunks) :
    let b : Int := (bisectRight (starts chunks) v : Int) - 1
    0 ≤ b ∧ b.toNat < chunks.length ∧ blockStart chunks b.toNat ≤ v ∧ v < blockStart chunks (b.toNat + 1) := by
  intro b
  obtain ⟨h1, h2, h3⟩ := bisectRight_spec (starts chunks) v
  rw [starts_length] at h1 h3
  have hk1 : 1 ≤ bisectRight (starts chunks) v := by
    apply Classical.byContradiction
    intro hn
    have hz : bisectRight (starts chunks) v = 0 := by omega
    have := h3 (by omega)
    rw [hz, starts_getD chunks 0 (by omega), S_zero] at this
    omega
  have hk2 : bisectRight (starts chunks) v ≤ chunks.length := by
    apply Classical.byContradiction
    intro hn
    have := h2 chunks.length (by omega)
    rw [starts_getD chunks _ (by omega), S_len chunks _ (by omega)] at this
    omega
  have hb : b.toNat = bisectRight (starts chunks) v - 1 := by omega
  refine ⟨by omega, by omega, ?_, ?_⟩
  · have := h2 (bisectRight (starts chunks) v - 1) (by omega)
    rw [starts_getD chunks _ (by omega)] at this
    rw [hb]; exact this
  · have := h3 (by omega)
    rw [starts_getD chunks _ (by omega)] at this
    have e : b.toNat + 1 = bisectRight (starts chunks) v := by omega
    rw [e]; exact this

/-- a position at or beyond the start of block `k+1`… lies in a later block -/
theorem block_lt_of_pos (chunks : List Int) (hpos : ∀ c ∈ chunks, 0 < c) {a b : Nat} {v : Int}
    (_hb : b + 1 ≤ chunks.length) (ha : a ≤ chunks.length)
    (h1 : blockStart chunks a ≤ v) (h2 : v < blockStart chunks (b + 1)) : a < b + 1 := by
  apply Classical.byContradiction
  intro hn
  have := S_mono chunks hpos (a := b + 1) (b := a) (by omega) ha
  omega


/-! ### the guard -/

theorem nativeLoop_spec (depth outLen : Int) (cs : List Int) (hcs : ∀ c ∈ cs, 0 ≤ c) (start : Int)
    (h : nativeLoop depth outLen start cs = true) (i : Nat) (hi : i < cs.length)
    (hlt : start + isum (cs.take i) < outLen) : cs[i] ≤ depth := by
  induction cs generalizing start i with
  | nil => simp at hi
  | cons c cs ih =>
    unfold nativeLoop at h
    have hc0 := hcs c (by simp)
    have hcs' : ∀ c ∈ cs, 0 ≤ c := fun x hx => hcs x (by simp [hx])
    have hnn : 0 ≤ isum ((c :: cs).take i) := by
      have : ∀ (l : List Int), (∀ c ∈ l, 0 ≤ c) → 0 ≤ isum l := by
        intro l hl
        induction l with
        | nil => simp [isum]
        | cons x xs ih2 =>
          have := hl x (by simp)
          have := ih2 (fun c hc => hl c (by simp [hc]))
          simp only [isum]; omega
      exact this _ (fun x hx => hcs x (List.mem_of_mem_take hx))
    by_cases h1 : start ≥ outLen
    · omega
    · simp only [h1, if_false] at h
      by_cases h2 : c > depth
      · simp [h2] at h
      · simp only [h2, if_false] at h
        cases i with
        | zero => simp; omega
        | succ i =>
          simp only [List.getElem_cons_succ]
          apply ih hcs' (start + c) h i (by simpa using hi)
          simp only [List.take_succ_cons, isum] at hlt
          omega

/-- what `supports_native_sliding_window` guarantees -/
theorem supportsNative_facts (chunks : List Int) (window : Int)
    (h : supportsNativeSliding chunks window = true) :
    1 < window ∧ (∀ c ∈ chunks, 0 < c) ∧ window ≤ isum chunks ∧
      ∀ i (hi : i < chunks.length), blockStart chunks i < isum chunks - window + 1 → chunks[i] ≤ window - 1 := by
  unfold supportsNativeSliding at h
  simp only at h
  by_cases h1 : window - 1 ≤ 0
  · simp [h1] at h
  · simp only [h1, if_false] at h
    by_cases h2 : lmin chunks ≤ 0
    · simp [h2] at h
    · simp only [h2, if_false] at h
      by_cases h3 : isum chunks < window
      · simp [h3] at h
      · simp only [h3, if_false] at h
        have hpos : ∀ c ∈ chunks, 0 < c := fun c hc => by
          have := lmin_le chunks c hc; omega
        refine ⟨by omega, hpos, by omega, ?_⟩
        intro i hi hlt
        split at h
        · simp at h
        · have := nativeLoop_spec (window - 1) (isum chunks - (window - 1)) chunks
            (fun c hc => by have := hpos c hc; omega) 0 h i hi (by unfold blockStart at hlt; omega)
          exact this

/-! ### reading the plan -/

/-- `remaining` when the loop reaches block `k` -/
def remAfter : Int → List Int → Nat → Int
  | r, _, 0 => r
  | r, [], _ + 1 => r
  | r, c :: cs, k + 1 => remAfter (r - outLenOf c r) cs k

theorem planLoop_get (sts : List Int) (window : Int) (cs : List Int) (i0 : Nat) (r : Int) (k : Nat) :
    (slidingPlanLoop sts window i0 r cs)[k]? =
      cs[k]?.map (fun c => slidingEntry sts window (i0 + k) c (remAfter r cs k)) := by
  induction cs generalizing i0 r k with
  | nil => simp [slidingPlanLoop]
  | cons c cs ih =>
    cases k with
    | zero => simp [slidingPlanLoop, remAfter]
    | succ k =>
      simp only [slidingPlanLoop, List.getElem?_cons_succ, remAfter]
      rw [ih]
      congr 2
      funext c'
      congr 1
      omega

theorem remAfter_eq (O : Int) (cs : List Int) (hcs : ∀ c ∈ cs, 0 ≤ c) (base r : Int) (k : Nat)
    (hk : k ≤ cs.length) (hr : r = max (O - base) 0) :
    remAfter r cs k = max (O - base - isum (cs.take k)) 0 := by
  induction cs generalizing base r k with
  | nil => cases k <;> simp [remAfter, isum, hr]
  | cons c cs ih =>
    cases k with
    | zero => simp [remAfter, isum, hr]
    | succ k =>
      simp only [remAfter, List.take_succ_cons, isum]
      have hc := hcs c (by simp)
      rw [ih (fun x hx => hcs x (by simp [hx])) (base + c) _ k (by simpa using hk)]
      · congr 1; omega
      · unfold outLenOf; omega

/-- the facts that make the banded decomposition valid, for one plan row. -/
structure PlanOK (chunks : List Int) (window : Int) (i : Nat) (p : SPlan) : Prop where
  outLen_eq : p.outLen = max 0 (min (chunks.getD i 0) (isum chunks - window + 1 - blockStart chunks i))
  i_lt_b : 0 < p.outLen → (i : Int) < p.b
  b_le_e : 0 < p.outLen → p.b ≤ p.e
  e_lt : 0 < p.outLen → p.e.toNat < chunks.length
  off_nonneg : 0 < p.outLen → 0 ≤ p.bandOffset
  band_start : 0 < p.outLen → blockStart chunks p.b.toNat + p.bandOffset = blockStart chunks i + window - 1
  band_fits : 0 < p.outLen → blockStart chunks p.b.toNat + p.bandOffset + p.outLen ≤ blockStart chunks (p.e.toNat + 1)
  in_array : 0 < p.outLen → blockStart chunks i + p.outLen + window - 1 ≤ isum chunks
  own_le : 0 < p.outLen → p.outLen ≤ chunks.getD i 0
  next_le_band : 0 < p.outLen → blockStart chunks (i + 1) ≤ blockStart chunks p.b.toNat

theorem slidingPlan_ok (chunks : List Int) (window : Int)
    (hsup : supportsNativeSliding chunks window = true) (i : Nat) (hi : i < chunks.length) :
    ∃ p, (slidingBlockPlan chunks window)[i]? = some p ∧ PlanOK chunks window i p := by
  obtain ⟨hw, hpos, hn, hguard⟩ := supportsNative_facts chunks window hsup
  have hnn : ∀ c ∈ chunks, 0 ≤ c := fun c hc => by have := hpos c hc; omega
  unfold slidingBlockPlan
  rw [planLoop_get, List.getElem?_eq_getElem hi]
  simp only [Option.map_some, Nat.zero_add]
  refine ⟨_, rfl, ?_⟩
  have hrem := remAfter_eq (isum chunks - window + 1) chunks hnn 0 (isum chunks - window + 1) i (by omega) (by omega)
  rw [hrem]
  have hSi : blockStart chunks i = isum (chunks.take i) := rfl
  have hci : chunks.getD i 0 = chunks[i] := by simp [List.getD_eq_getElem?_getD, List.getElem?_eq_getElem hi]
  have hcpos := hpos chunks[i] (List.getElem_mem _)
  have hSi0 : 0 ≤ blockStart chunks i := by
    have := S_mono chunks hpos (a := 0) (b := i) (by omega) (by omega)
    rw [S_zero] at this; exact this
  have hSsucc := S_succ chunks i hi
  have hSle : blockStart chunks (i + 1) ≤ isum chunks := by
    have := S_mono chunks hpos (a := i + 1) (b := chunks.length) (by omega) (by omega)
    rw [S_len chunks chunks.length (Nat.le_refl _)] at this; exact this
  generalize hO : isum chunks - window + 1 = O at *
  unfold slidingEntry
  simp only
  generalize hol : outLenOf chunks[i] (max (O - 0 - isum (chunks.take i)) 0) = ol
  have hol' : ol = max 0 (min chunks[i] (O - blockStart chunks i)) := by
    rw [← hol, hSi]; unfold outLenOf; omega
  by_cases hz : ol ≤ 0
  · simp only [hz, if_true]
    constructor <;> intros <;> simp only [hci] at * <;> omega
  · simp only [hz, if_false]
    have hlt : blockStart chunks i < O := by omega
    have hdepth := hguard i hi (by omega)
    rw [pyGet_nat, starts_getD chunks i (by omega)]
    -- the two bisections
    have hedge0 : 0 ≤ blockStart chunks i + window - 1 := by omega
    have hedge1 : blockStart chunks i + window - 1 + ol - 1 < isum chunks := by omega
    have hB := block_of_pos chunks (blockStart chunks i + window - 1) hedge0 (by omega)
    have hE := block_of_pos chunks (blockStart chunks i + window - 1 + ol - 1) (by omega) hedge1
    simp only at hB hE
    generalize ((bisectRight (starts chunks) (blockStart chunks i + window - 1) : Nat) : Int) - 1 = b at *
    generalize ((bisectRight (starts chunks) (blockStart chunks i + window - 1 + ol - 1) : Nat) : Int) - 1 = e at *
    obtain ⟨hb0, hb1, hb2, hb3⟩ := hB
    obtain ⟨he0, he1, he2, he3⟩ := hE
    rw [pyGet_nonneg _ b hb0, starts_getD chunks _ (by omega)]
    have hib : i + 1 < b.toNat + 1 :=
      block_lt_of_pos chunks hpos (a := i + 1) (b := b.toNat) (by omega) (by omega) (by omega) hb3
    have hbe : b.toNat < e.toNat + 1 :=
      block_lt_of_pos chunks hpos (a := b.toNat) (b := e.toNat) (by omega) (by omega) (by omega) he3
    have hnext : blockStart chunks (i + 1) ≤ blockStart chunks b.toNat := S_mono chunks hpos (by omega) (by omega)
    constructor <;> intros <;> simp only [hci] at * <;> omega

/-! ### slices -/

theorem slice_append (x : List α) {a b c : Int} (h0 : 0 ≤ a) (hab : a ≤ b) (hbc : b ≤ c) :
    slice x a b ++ slice x b c = slice x a c := by
  unfold slice
  have h1 : (c - a).toNat = (b - a).toNat + (c - b).toNat := by omega
  have h2 : a.toNat + (b - a).toNat = b.toNat := by omega
  rw [h1, List.take_add, List.drop_drop, h2]

theorem slice_self (x : List α) (a : Int) : slice x a a = [] := by
  simp [slice]

theorem slice_take (x : List α) {a b k : Int} (hk : 0 ≤ k) (hkb : a + k ≤ b) :
    (slice x a b).take k.toNat = slice x a (a + k) := by
  unfold slice
  rw [List.take_take]
  congr 1
  omega

theorem blocksRange_flatten (chunks : List Int) (hpos : ∀ c ∈ chunks, 0 < c) (x : List α)
    (n : Nat) : ∀ (lo : Nat), lo + n ≤ chunks.length →
      (blocksRange chunks x lo (lo + n)).flatten = slice x (blockStart chunks lo) (blockStart chunks (lo + n)) := by
  induction n with
  | zero => intro lo _; simp [blocksRange, slice_self]
  | succ n ih =>
    intro lo hlo
    have e : lo + (n + 1) - lo = (n + 1) := by omega
    unfold blocksRange
    rw [e, List.range'_succ, List.map_cons, List.flatten_cons]
    have ih' := ih (lo + 1) (by omega)
    unfold blocksRange at ih'
    have e2 : lo + 1 + n - (lo + 1) = n := by omega
    rw [e2] at ih'
    rw [ih']
    have e3 : lo + 1 + n = lo + (n + 1) := by omega
    rw [e3]
    unfold block
    have h0 : 0 ≤ blockStart chunks lo := by
      have := S_mono chunks hpos (a := 0) (b := lo) (by omega) (by omega)
      rw [S_zero] at this; exact this
    exact slice_append x h0 (S_mono chunks hpos (by omega) (by omega)) (S_mono chunks hpos (by omega) (by omega))

theorem blocksRange_flatten' (chunks : List Int) (hpos : ∀ c ∈ chunks, 0 < c) (x : List α)
    {lo hi : Nat} (h : lo ≤ hi) (hhi : hi ≤ chunks.length) :
    (blocksRange chunks x lo hi).flatten = slice x (blockStart chunks lo) (blockStart chunks hi) := by
  have := blocksRange_flatten chunks hpos x (hi - lo) lo (by omega)
  have e : lo + (hi - lo) = hi := by omega
  rw [e] at this; exact this

/-- **The banded decomposition is exact.**  Under `supports_native_sliding_window`, for block
`i` with plan row `p` and output offset `t < out_len`: the suffix of block `i` from `t`, the
whole middle blocks `i+1 … b-1`, and the first `band_offset + t + 1` elements of the band
blocks `b … e` concatenate to exactly the window `x[start_i + t : start_i + t + W]`, which
lies inside the array. -/
theorem slidingPlan_tiles (chunks : List Int) (window : Int)
    (hsup : supportsNativeSliding chunks window = true) (x : List α)
    (i : Nat) (hi : i < chunks.length) (p : SPlan)
    (hp : (slidingBlockPlan chunks window)[i]? = some p) (t : Int) (ht0 : 0 ≤ t) (ht : t < p.outLen) :
    slice x (blockStart chunks i + t) (blockStart chunks (i + 1))
        ++ (blocksRange chunks x (i + 1) p.b.toNat).flatten
        ++ ((blocksRange chunks x p.b.toNat (p.e.toNat + 1)).flatten).take (p.bandOffset + t + 1).toNat
      = slice x (blockStart chunks i + t) (blockStart chunks i + t + window)
    ∧ blockStart chunks i + t + window ≤ isum chunks := by
  obtain ⟨p', hp', ok⟩ := slidingPlan_ok chunks window hsup i hi
  rw [hp] at hp'
  cases hp'
  obtain ⟨_, hpos, _, _⟩ := supportsNative_facts chunks window hsup
  have hol : 0 < p.outLen := by omega
  have h1 := ok.i_lt_b hol
  have h2 := ok.b_le_e hol
  have h3 := ok.e_lt hol
  have h4 := ok.off_nonneg hol
  have h5 := ok.band_start hol
  have h6 := ok.band_fits hol
  have h7 := ok.in_array hol
  have h8 := ok.own_le hol
  have h9 := ok.next_le_band hol
  have hci : chunks.getD i 0 = chunks[i] := by simp [List.getD_eq_getElem?_getD, List.getElem?_eq_getElem hi]
  have hSs := S_succ chunks i hi
  have hS0 : 0 ≤ blockStart chunks i := by
    have := S_mono chunks hpos (a := 0) (b := i) (by omega) (by omega)
    rw [S_zero] at this; exact this
  rw [blocksRange_flatten' chunks hpos x (by omega) (by omega),
    blocksRange_flatten' chunks hpos x (by omega) (by omega),
    slice_take x (by omega) (by omega),
    slice_append x (by omega) (by omega) h9,
    slice_append x (by omega) (by omega) (by omega)]
  refine ⟨?_, by omega⟩
  congr 1
  omega

/-! ### the same statement after reduction with an associative `op` -/

theorem foldl_oop_flatten {op : α → α → α} (hop : Assoc op) (ls : List (List α)) (acc : Option α) :
    ls.foldl (fun a l => oop op a (ofold op l)) acc = oop op acc (ofold op ls.flatten) := by
  induction ls generalizing acc with
  | nil => simp [ofold, Dask.Lemmas.Scan.oop_none_right]
  | cons l ls ih =>
    simp only [List.foldl_cons, List.flatten_cons]
    rw [ih, Dask.Lemmas.Scan.ofold_append hop, Dask.Lemmas.Scan.oop_assoc hop]

/-- `_sliding_window_banded_reduce`, position `t`: `suffix_scan[t] ⊕ total_{i+1} ⊕ … ⊕ total_{b-1} ⊕ prefix[band_offset + t]`
is the reduction of the window. -/
theorem slidingPlan_correct {op : α → α → α} (hop : Assoc op) (chunks : List Int) (window : Int)
    (hsup : supportsNativeSliding chunks window = true) (x : List α)
    (i : Nat) (hi : i < chunks.length) (p : SPlan)
    (hp : (slidingBlockPlan chunks window)[i]? = some p) (t : Int) (ht0 : 0 ≤ t) (ht : t < p.outLen) :
    oop op
      ((blocksRange chunks x (i + 1) p.b.toNat).foldl (fun a blk => oop op a (ofold op blk))
        (ofold op (slice x (blockStart chunks i + t) (blockStart chunks (i + 1)))))
      (ofold op (((blocksRange chunks x p.b.toNat (p.e.toNat + 1)).flatten).take (p.bandOffset + t + 1).toNat))
    = ofold op (slice x (blockStart chunks i + t) (blockStart chunks i + t + window)) := by
  rw [foldl_oop_flatten hop, ← Dask.Lemmas.Scan.ofold_append hop, ← Dask.Lemmas.Scan.ofold_append hop]
  rw [(slidingPlan_tiles chunks window hsup x i hi p hp t ht0 ht).1]


/-! ### output chunks (`SlidingWindowReduction.chunks`) -/

theorem trimLoop_sum (cs : List Int) (hcs : ∀ c ∈ cs, 0 ≤ c) (r : Int) :
    isum (trimLoop r cs) = max 0 (min r (isum cs)) := by
  induction cs generalizing r with
  | nil => simp [trimLoop, isum]; omega
  | cons c cs ih =>
    have hc := hcs c (by simp)
    have hs := isum_nonneg cs (fun x hx => hcs x (by simp [hx]))
    unfold trimLoop
    by_cases hr : r ≤ 0
    · simp only [hr, if_true, isum]; omega
    · simp only [hr, if_false, isum]
      rw [ih (fun x hx => hcs x (by simp [hx]))]
      omega

/-- the output chunk lengths sum to `n - W + 1` -/
theorem slidingOutChunks_sum (chunks : List Int) (window : Int) (hcs : ∀ c ∈ chunks, 0 ≤ c)
    (hw : 1 ≤ window) (hn : window ≤ isum chunks) :
    isum (slidingOutChunks chunks window) = isum chunks - window + 1 := by
  unfold slidingOutChunks
  rw [trimLoop_sum chunks hcs]; omega

theorem slidingEntry_outLen (sts : List Int) (window : Int) (i : Nat) (c r : Int) :
    (slidingEntry sts window i c r).outLen = outLenOf c r := by
  unfold slidingEntry
  simp only
  split
  · rename_i h; show (0 : Int) = outLenOf c r; unfold outLenOf at *; omega
  · rfl

theorem outChunks_eq_planLoop (sts : List Int) (window : Int) (cs : List Int) (hcs : ∀ c ∈ cs, 0 < c)
    (i0 : Nat) (r : Int) :
    trimLoop r cs = ((slidingPlanLoop sts window i0 r cs).map (·.outLen)).takeWhile (fun v => decide (0 < v)) := by
  induction cs generalizing i0 r with
  | nil => simp [trimLoop, slidingPlanLoop]
  | cons c cs ih =>
    have hc := hcs c (by simp)
    simp only [slidingPlanLoop, List.map_cons, slidingEntry_outLen, trimLoop]
    by_cases hr : r ≤ 0
    · have : ¬ (0 < outLenOf c r) := by unfold outLenOf; omega
      simp [hr, this]
    · have h1 : 0 < outLenOf c r := by unfold outLenOf; omega
      have h2 : outLenOf c r = min c r := by unfold outLenOf; omega
      simp only [hr, if_false, List.takeWhile_cons, h1, decide_true, if_true]
      rw [← h2, ih (fun x hx => hcs x (by simp [hx]))]

/-- the advertised output chunks are exactly the positive `out_len`s of the plan, in order -/
theorem slidingOutChunks_eq_plan (chunks : List Int) (window : Int) (hcs : ∀ c ∈ chunks, 0 < c) :
    slidingOutChunks chunks window
      = ((slidingBlockPlan chunks window).map (·.outLen)).takeWhile (fun v => decide (0 < v)) :=
  outChunks_eq_planLoop _ _ _ hcs _ _

/-! ### moving (trailing) windows: `MovingWindowReduction._block_plan` -/

theorem foldl_max_ge (xs : List Int) (a : Int) :
    a ≤ xs.foldl max a ∧ ∀ c ∈ xs, c ≤ xs.foldl max a := by
  induction xs generalizing a with
  | nil => simp
  | cons x xs ih =>
    simp only [List.foldl_cons, List.mem_cons]
    have h := ih (max a x)
    refine ⟨by omega, ?_⟩
    rintro c (rfl | hc)
    · omega
    · exact h.2 c hc

theorem le_lmax (l : List Int) : ∀ c ∈ l, c ≤ lmax l := by
  cases l with
  | nil => simp
  | cons x xs =>
    intro c hc
    have h := foldl_max_ge xs x
    simp only [List.mem_cons] at hc
    rcases hc with rfl | hc
    · exact h.1
    · exact h.2 c hc

theorem supportsMoving_facts (chunks : List Int) (window : Int)
    (h : supportsNativeMoving chunks window = true) :
    1 < window ∧ (∀ c ∈ chunks, 0 < c) ∧ 2 ≤ chunks.length ∧ window ≤ isum chunks ∧
      ∀ c ∈ chunks, c ≤ window - 1 := by
  unfold supportsNativeMoving at h
  by_cases h1 : window ≤ 1
  · simp [h1] at h
  · simp only [h1, if_false] at h
    by_cases h2 : lmin chunks ≤ 0
    · simp [h2] at h
    · simp only [h2, if_false] at h
      by_cases h3 : chunks.length < 2 ∨ isum chunks < window
      · simp [h3] at h
      · simp only [h3, if_false, decide_eq_true_eq] at h
        refine ⟨by omega, fun c hc => by have := lmin_le chunks c hc; omega, by omega, by omega, ?_⟩
        intro c hc
        have := le_lmax chunks c hc
        omega

theorem movingLoop_get (sts : List Int) (window : Int) (cs : List Int) (i0 k : Nat) :
    (movingPlanLoop sts window i0 cs)[k]? = cs[k]?.map (fun c => movingEntry sts window (i0 + k) c) := by
  induction cs generalizing i0 k with
  | nil => simp [movingPlanLoop]
  | cons c cs ih =>
    cases k with
    | zero => simp [movingPlanLoop]
    | succ k =>
      simp only [movingPlanLoop, List.getElem?_cons_succ]
      rw [ih]
      congr 2
      funext c'
      congr 1
      omega

/-- validity of one row of the moving-window plan -/
structure MPlanOK (chunks : List Int) (window : Int) (i : Nat) (m : MPlan) : Prop where
  start_eq : m.start = blockStart chunks i
  c_eq : m.c = chunks.getD i 0
  first : i = 0 → m.g = none ∧ m.h = none ∧ m.midLo = 0 ∧ m.midHi = 0 ∧ ∀ t, 0 ≤ t → t < m.c → leftEdge chunks window i t = 0
  rest : 0 < i → ∃ g h : Int, m.g = some g ∧ m.h = some h ∧ 0 ≤ g ∧ g ≤ h ∧ h.toNat < i ∧
      m.midLo = h + 1 ∧ m.midHi = i ∧ 0 ≤ m.bandOffset ∧ 0 ≤ m.nTrunc ∧ m.nTrunc ≤ m.c ∧
      ∀ t, 0 ≤ t → t < m.c →
        leftEdge chunks window i t = blockStart chunks g.toNat + m.bandOffset + max 0 (t - m.nTrunc) ∧
        leftEdge chunks window i t < blockStart chunks (h.toNat + 1)

theorem movingPlan_ok (chunks : List Int) (window : Int)
    (hsup : supportsNativeMoving chunks window = true) (i : Nat) (hi : i < chunks.length) :
    ∃ m, (movingBlockPlan chunks window)[i]? = some m ∧ MPlanOK chunks window i m := by
  obtain ⟨hw, hpos, hlen, hn, hmax⟩ := supportsMoving_facts chunks window hsup
  unfold movingBlockPlan
  rw [movingLoop_get, List.getElem?_eq_getElem hi]
  simp only [Option.map_some, Nat.zero_add]
  refine ⟨_, rfl, ?_⟩
  have hci : chunks.getD i 0 = chunks[i] := by simp [List.getD_eq_getElem?_getD, List.getElem?_eq_getElem hi]
  have hcpos := hpos chunks[i] (List.getElem_mem _)
  have hcmax := hmax chunks[i] (List.getElem_mem _)
  have hSsucc := S_succ chunks i hi
  have hSle : blockStart chunks (i + 1) ≤ isum chunks := by
    have := S_mono chunks hpos (a := i + 1) (b := chunks.length) (by omega) (by omega)
    rw [S_len chunks chunks.length (Nat.le_refl _)] at this; exact this
  unfold movingEntry
  simp only
  rw [pyGet_nat, starts_getD chunks i (by omega)]
  by_cases hi0 : i = 0
  · subst hi0
    simp only [S_zero, if_true]
    refine ⟨by simp [S_zero], by dsimp only; exact hci.symm, ?_, fun h => by omega⟩
    intro _
    refine ⟨rfl, rfl, rfl, rfl, ?_⟩
    intro t ht0 ht
    dsimp only at ht
    unfold leftEdge
    rw [S_zero]
    omega
  · have hSpos : 0 < blockStart chunks i := by
      have := S_strict chunks hpos (a := 0) (b := i) (by omega) (by omega)
      rw [S_zero] at this; exact this
    have hne : ¬ blockStart chunks i = 0 := by omega
    simp only [hne, if_false]
    have hF0 : 0 ≤ max 0 (blockStart chunks i - window + 1) := by omega
    have hB := block_of_pos chunks (max 0 (blockStart chunks i - window + 1)) (by omega) (by omega)
    have hE := block_of_pos chunks
      (max (max 0 (blockStart chunks i - window + 1)) (blockStart chunks i + chunks[i] - window)) (by omega) (by omega)
    simp only at hB hE
    generalize ((bisectRight (starts chunks) (max 0 (blockStart chunks i - window + 1)) : Nat) : Int) - 1 = g at *
    generalize ((bisectRight (starts chunks)
      (max (max 0 (blockStart chunks i - window + 1)) (blockStart chunks i + chunks[i] - window)) : Nat) : Int) - 1 = h at *
    obtain ⟨hg0, hg1, hg2, hg3⟩ := hB
    obtain ⟨hh0, hh1, hh2, hh3⟩ := hE
    rw [pyGet_nonneg _ g hg0, starts_getD chunks _ (by omega)]
    have hgh : g.toNat < h.toNat + 1 :=
      block_lt_of_pos chunks hpos (a := g.toNat) (b := h.toNat) (by omega) (by omega) (by omega) hh3
    have hhi : h.toNat < i := by
      apply Classical.byContradiction
      intro hn'
      have := S_mono chunks hpos (a := i) (b := h.toNat) (by omega) (by omega)
      omega
    refine ⟨rfl, by dsimp only; exact hci.symm, fun h0 => absurd h0 hi0, fun _ => ?_⟩
    refine ⟨g, h, rfl, rfl, hg0, by omega, hhi, rfl, rfl, by dsimp only; omega, by dsimp only; omega,
      by dsimp only; omega, ?_⟩
    intro t ht0 ht
    unfold leftEdge
    dsimp only at ht ⊢
    constructor <;> omega


theorem slice_drop (x : List α) {a b k : Int} (ha : 0 ≤ a) (hk : 0 ≤ k) :
    (slice x a b).drop k.toNat = slice x (a + k) b := by
  unfold slice
  rw [List.drop_take, List.drop_drop]
  congr 1
  · omega
  · congr 1; omega

/-- **The trailing-window decomposition is exact.**  Under `supports_native_moving_window`, for
block `i` with plan row `m` and offset `t < c`: the suffix of the band from
`band_offset + max(0, t - n_trunc)`, the whole middle blocks, and the first `t + 1` elements of
block `i` concatenate to exactly the clipped trailing window `x[max(0, j-W+1) : j+1]`, `j = start_i + t`. -/
theorem movingPlan_tiles (chunks : List Int) (window : Int)
    (hsup : supportsNativeMoving chunks window = true) (x : List α)
    (i : Nat) (hi : i < chunks.length) (m : MPlan)
    (hm : (movingBlockPlan chunks window)[i]? = some m) (t : Int) (ht0 : 0 ≤ t) (ht : t < m.c) :
    (movingBand chunks x m).drop (m.bandOffset + max 0 (t - m.nTrunc)).toNat
        ++ (blocksRange chunks x m.midLo.toNat m.midHi.toNat).flatten
        ++ slice x (blockStart chunks i) (blockStart chunks i + t + 1)
      = slice x (leftEdge chunks window i t) (blockStart chunks i + t + 1)
    ∧ blockStart chunks i + t + 1 ≤ isum chunks := by
  obtain ⟨m', hm', ok⟩ := movingPlan_ok chunks window hsup i hi
  rw [hm] at hm'
  cases hm'
  obtain ⟨_, hpos, _, _, _⟩ := supportsMoving_facts chunks window hsup
  have hci : chunks.getD i 0 = chunks[i] := by simp [List.getD_eq_getElem?_getD, List.getElem?_eq_getElem hi]
  have hSs := S_succ chunks i hi
  have hSle : blockStart chunks (i + 1) ≤ isum chunks := by
    have := S_mono chunks hpos (a := i + 1) (b := chunks.length) (by omega) (by omega)
    rw [S_len chunks chunks.length (Nat.le_refl _)] at this; exact this
  have hc := ok.c_eq
  refine ⟨?_, by omega⟩
  by_cases hi0 : i = 0
  · obtain ⟨hg, hh, hlo, hhi, hL⟩ := ok.first hi0
    have := hL t ht0 ht
    subst hi0
    simp [movingBand, hg, hh, hlo, hhi, blocksRange, this, S_zero]
  · obtain ⟨g, h, hg, hh, hg0, hgh, hhi, hlo, hhi', hbo, hnt0, hntc, hL⟩ := ok.rest (by omega)
    obtain ⟨hL1, hL2⟩ := hL t ht0 ht
    have hSg0 : 0 ≤ blockStart chunks g.toNat := by
      have := S_mono chunks hpos (a := 0) (b := g.toNat) (by omega) (by omega)
      rw [S_zero] at this; exact this
    have hmidlo : m.midLo.toNat = h.toNat + 1 := by omega
    have hmidhi : m.midHi.toNat = i := by omega
    have hSh : blockStart chunks (h.toNat + 1) ≤ blockStart chunks i := S_mono chunks hpos (by omega) (by omega)
    simp only [movingBand, hg, hh]
    rw [hmidlo, hmidhi, blocksRange_flatten' chunks hpos x (by omega) (by omega),
      blocksRange_flatten' chunks hpos x (by omega) (by omega),
      slice_drop x hSg0 (by omega), ← Int.add_assoc, ← hL1,
      slice_append x (by unfold leftEdge; omega) (by omega) hSh,
      slice_append x (by unfold leftEdge; omega) (by omega) (by omega)]

/-- `_moving_window_banded_reduce`, position `t`, for an associative `op` (the ufunc on values,
`+` on the valid-counts plane): `prefix_scan[t] ⊕ totals(middle) ⊕ band_suffix[…]`, written in
window order, is the reduction of the clipped trailing window. -/
theorem movingPlan_correct {op : α → α → α} (hop : Assoc op) (chunks : List Int) (window : Int)
    (hsup : supportsNativeMoving chunks window = true) (x : List α)
    (i : Nat) (hi : i < chunks.length) (m : MPlan)
    (hm : (movingBlockPlan chunks window)[i]? = some m) (t : Int) (ht0 : 0 ≤ t) (ht : t < m.c) :
    oop op
      ((blocksRange chunks x m.midLo.toNat m.midHi.toNat).foldl (fun a blk => oop op a (ofold op blk))
        (ofold op ((movingBand chunks x m).drop (m.bandOffset + max 0 (t - m.nTrunc)).toNat)))
      (ofold op (slice x (blockStart chunks i) (blockStart chunks i + t + 1)))
    = ofold op (slice x (leftEdge chunks window i t) (blockStart chunks i + t + 1)) := by
  rw [foldl_oop_flatten hop, ← Dask.Lemmas.Scan.ofold_append hop, ← Dask.Lemmas.Scan.ofold_append hop]
  rw [(movingPlan_tiles chunks window hsup x i hi m hm t ht0 ht).1]

/-! ### boundary kinds are the NumPy pad index maps -/

theorem pad_ranges (n q : Int) (_hn : 0 < n) (h1 : -n ≤ q) (h2 : q < 2 * n) :
    (0 ≤ padWrap n q ∧ padWrap n q < n) ∧ (0 ≤ padSymmetric n q ∧ padSymmetric n q < n) ∧
    (0 ≤ padEdge n q ∧ padEdge n q < n) := by
  unfold padWrap padSymmetric padEdge
  refine ⟨?_, ?_, by omega⟩
  · split
    · omega
    · split <;> omega
  · split
    · omega
    · split <;> omega

theorem boundarySrc_periodic (n depth p : Int) :
    boundarySrc .periodic n depth p = some (padWrap n (p - depth)) := by
  unfold boundarySrc padWrap
  split
  · have a1 : ¬ (p - depth < 0) := by omega
    have a2 : ¬ (p - depth ≥ n) := by omega
    simp [a1, a2]
  · split
    · have a1 : p - depth < 0 := by omega
      simp only [a1, if_true]; congr 1; omega
    · have a1 : ¬ (p - depth < 0) := by omega
      have a2 : p - depth ≥ n := by omega
      simp only [a1, a2, if_true, if_false]

theorem boundarySrc_reflect (n depth p : Int) :
    boundarySrc .reflect n depth p = some (padSymmetric n (p - depth)) := by
  unfold boundarySrc padSymmetric
  split
  · have a1 : ¬ (p - depth < 0) := by omega
    have a2 : ¬ (p - depth ≥ n) := by omega
    simp [a1, a2]
  · split
    · have a1 : p - depth < 0 := by omega
      simp only [a1, if_true]; congr 1; omega
    · have a1 : ¬ (p - depth < 0) := by omega
      have a2 : p - depth ≥ n := by omega
      simp only [a1, a2, if_true, if_false]; congr 1; omega

theorem boundarySrc_nearest (n depth p : Int) (hn : 0 < n) :
    boundarySrc .nearest n depth p = some (padEdge n (p - depth)) := by
  unfold boundarySrc padEdge
  split
  · congr 1; omega
  · split
    · simp only; congr 1; omega
    · simp only; congr 1; omega

theorem boundarySrc_constant (n depth p : Int) :
    boundarySrc .constant n depth p = (if 0 ≤ p - depth ∧ p - depth < n then some (p - depth) else none) := by
  unfold boundarySrc
  split
  · have : 0 ≤ p - depth ∧ p - depth < n := by omega
    rw [if_pos this]
  · have : ¬ (0 ≤ p - depth ∧ p - depth < n) := by omega
    rw [if_neg this]
    split <;> rfl

/-! ### overlap then trim: chunk arithmetic round trip (boundary "none") -/

theorem trimInternalChunks_length (bd : List Int) (l r : Int) (bn : Bool) :
    (trimInternalChunks bd l r bn).length = bd.length := by
  simp [trimInternalChunks]

theorem overlapInternal_concat (b0 : Int) (mid : List Int) (last l r : Int) :
    overlapInternalChunks (b0 :: (mid ++ [last])) l r
      = (b0 + r) :: (mid.map (· + l + r) ++ [last + l]) := by
  unfold overlapInternalChunks
  cases hm : mid ++ [last] with
  | nil => simp at hm
  | cons a as =>
    simp only []
    rw [← hm, List.dropLast_concat, List.getLastD_concat]
    rfl

theorem overlapTrim_chunks_id (cks : List Int) (l r : Int) :
    trimInternalChunks (overlapInternalChunks cks l r) l r true = cks := by
  cases cks with
  | nil => rfl
  | cons b0 rest =>
    rcases List.eq_nil_or_concat rest with h | ⟨mid, last, h⟩
    · subst h
      simp [overlapInternalChunks, trimInternalChunks]
    · rw [List.concat_eq_append] at h
      subst h
      rw [overlapInternal_concat]
      apply List.ext_getElem?
      intro i
      unfold trimInternalChunks
      simp only [List.getElem?_map, List.length_cons, List.length_append, List.length_map,
        List.length_nil, Nat.zero_add]
      by_cases hi : i < mid.length + 1 + 1
      · rw [List.getElem?_range hi]
        simp only [Option.map_some]
        cases i with
        | zero =>
          simp only [List.getD_cons_zero, List.getElem?_cons_zero]
          simp
        | succ k =>
          simp only [List.getD_cons_succ, List.getElem?_cons_succ]
          by_cases hk : k < mid.length
          · have e1 : (mid.map (· + l + r) ++ [last + l]).getD k 0 = mid[k] + l + r := by
              simp [List.getD_eq_getElem?_getD, List.getElem?_append_left, hk]
            have e2 : (mid ++ [last])[k]? = some mid[k] := by
              simp [List.getElem?_append_left, hk]
            rw [e1, e2]
            simp
            omega
          · have hk' : k = mid.length := by omega
            subst hk'
            have e1 : (mid.map (· + l + r) ++ [last + l]).getD mid.length 0 = last + l := by
              simp [List.getD_eq_getElem?_getD]
            have e2 : (mid ++ [last])[mid.length]? = some last := by simp
            rw [e1, e2]
            simp
      · have h1 : (List.range (mid.length + 1 + 1))[i]? = none := List.getElem?_eq_none (by simp; omega)
        have h2 : (b0 :: (mid ++ [last]))[i]? = none := List.getElem?_eq_none (by simp; omega)
        rw [h1, h2]; rfl

end Dask.Lemmas.Window
