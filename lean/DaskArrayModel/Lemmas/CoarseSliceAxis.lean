/-
The coarse rule on one axis: what an accepted index gives (`acceptAxis_sound`), the decline cases, the chunks of
the kept blocks.
-/
import DaskArrayModel.Lemmas.CoarseSlice1D
namespace Dask.Lemmas.Coarse
open Dask.Py Dask.Py.PySlice Dask.Slicing Dask.Coarse
open Dask.Lemmas.Slice1dPos

/-! ### unit-step selections -/

theorem rangeLen_one (a b : Int) : rangeLen a b 1 = (b - a).toNat := by
  unfold rangeLen
  by_cases h : a < b
  · simp [h] <;> omega
  · simp [h] <;> omega

theorem rangeList_one_getD (a b : Int) (q : Nat) (hq : q < (b - a).toNat) :
    (rangeList a b 1).getD q 0 = a + q := by
  unfold rangeList
  rw [rangeLen_one, List.getD_eq_getElem?_getD, List.getElem?_map, List.getElem?_range hq]
  simp

theorem sel_unit (s : PySlice) (n : Int) (hs : s.stp = 1) : sel s n = rangeList (s.istart n) (s.istop n) 1 := by
  unfold sel; rw [hs]

theorem sel_unit_length (s : PySlice) (n : Int) (hs : s.stp = 1) :
    (sel s n).length = (s.istop n - s.istart n).toNat := by
  rw [sel_unit s n hs, length_rangeList, rangeLen_one]

theorem sel_unit_getD (s : PySlice) (n : Int) (hs : s.stp = 1) (q : Nat) (hq : q < (sel s n).length) :
    (sel s n).getD q 0 = s.istart n + q := by
  rw [sel_unit_length s n hs] at hq
  rw [sel_unit s n hs, rangeList_one_getD _ _ _ hq]

theorem colon_stp : colon.stp = 1 := rfl
theorem colon_istart (n : Int) : colon.istart n = 0 := by simp [colon, istart, stp]
theorem colon_istop (n : Int) : colon.istop n = n := by simp [colon, istop, stp]

theorem rng_stp (a b : Int) : (⟨some a, some b, none⟩ : PySlice).stp = 1 := rfl

theorem rng_istart (a b n : Int) (h0 : 0 ≤ a) (h1 : a ≤ n) : (⟨some a, some b, none⟩ : PySlice).istart n = a := by
  simp only [istart, rng_stp, adjust]
  simp
  split <;> omega

theorem rng_istop (a b n : Int) (h0 : 0 ≤ b) (h1 : b ≤ n) : (⟨some a, some b, none⟩ : PySlice).istop n = b := by
  simp only [istop, rng_stp, adjust]
  simp
  split <;> omega

/-! ### one axis -/

/-- the chunks of the kept output blocks on one axis -/
def keptOut1 (oc : List Int) (pl : AxisPlan) : List Int :=
  match pl.br with
  | none => oc
  | some (f, l) => keptChunks oc f l

/-- the number of the first kept block (`0` when all blocks are kept) -/
def first1 (pl : AxisPlan) : Nat :=
  match pl.br with
  | none => 0
  | some (f, _) => f

/-- the kept range is a non-empty range of existing blocks -/
def brOK (n : Nat) (pl : AxisPlan) : Prop :=
  ∀ f l, pl.br = some (f, l) → f ≤ l ∧ l < n

/-- Acceptance on one axis, for an integer index. -/
theorem acceptAxis_int (oc : List Int) (hoc : ∀ c ∈ oc, 0 ≤ c) (i : Int) (h0 : -isum oc ≤ i) (h1 : i < isum oc) :
    ∃ f l : Nat, acceptAxis oc (.int i) = some ⟨some (f, l), .int ((if i ≥ 0 then i else i + isum oc) - blockStart oc f)⟩ ∧
      f ≤ l ∧ l < oc.length ∧
      blockStart oc f ≤ (if i ≥ 0 then i else i + isum oc) ∧ (if i ≥ 0 then i else i + isum oc) < blockStart oc (f + 1) := by
  generalize hp : (if i ≥ 0 then i else i + isum oc) = pos
  have hp0 : 0 ≤ pos := by rw [← hp]; split <;> omega
  have hp1 : pos < isum oc := by rw [← hp]; split <;> omega
  obtain ⟨f, l, hfb, hfl, hl, a2, a3, _, _⟩ := findBlockRange_inside oc hoc pos (pos + 1) hp0 (by omega) (by omega)
  refine ⟨f, l, ?_, hfl, hl, a2, a3⟩
  unfold acceptAxis
  simp only [hp, hfb, Int.toNat_natCast]
  rw [cum0_getD oc f (by omega)]

/-- Acceptance on one axis, for a slice that is not `slice(None)`: unit step, non-empty in-bounds selection; the kept
range is `[first, last]` as `find_block_range` says, and the adjustment is relative to the first kept block. -/
theorem acceptAxis_slc (oc : List Int) (hoc : ∀ c ∈ oc, 0 ≤ c) (s : PySlice) (hc : s ≠ colon) (pl : AxisPlan)
    (h : acceptAxis oc (.slc s) = some pl) :
    s.stp = 1 ∧ s.istart (isum oc) < s.istop (isum oc) ∧
    ∃ f l : Nat, pl.br = some (f, l) ∧ f ≤ l ∧ l < oc.length ∧
      blockStart oc f ≤ s.istart (isum oc) ∧ s.istart (isum oc) < blockStart oc (f + 1) ∧
      blockStart oc l ≤ s.istop (isum oc) - 1 ∧ s.istop (isum oc) - 1 < blockStart oc (l + 1) ∧
      pl.adj = (if s.istart (isum oc) - blockStart oc f = 0 ∧
                   s.istop (isum oc) - blockStart oc f = blockStart oc (l + 1) - blockStart oc f
                then Adj.colon
                else Adj.rng (s.istart (isum oc) - blockStart oc f) (s.istop (isum oc) - blockStart oc f)) := by
  have hd : 0 ≤ isum oc := isum_nonneg oc hoc
  unfold acceptAxis at h
  simp only [if_neg hc] at h
  by_cases hs : s.stp = 1
  · simp only [hs, ne_eq, not_true_eq_false, if_false] at h
    obtain ⟨s0, s1⟩ := istart_bounds s (isum oc) hd (by omega)
    obtain ⟨e0, e1⟩ := istop_bounds s (isum oc) hd (by omega)
    by_cases hse : s.istart (isum oc) < s.istop (isum oc)
    · obtain ⟨f, l, hfb, hfl, hl, a2, a3, b2, b3⟩ :=
        findBlockRange_inside oc hoc (s.istart (isum oc)) (s.istop (isum oc)) s0 hse e1
      rw [hfb] at h
      simp only [Int.toNat_natCast] at h
      rw [if_neg (by omega)] at h
      simp only [cum0_getD oc f (by omega), cum0_getD oc (l + 1) (by omega)] at h
      refine ⟨hs, hse, f, l, ?_⟩
      have h' := Option.some.inj h
      subst h'
      exact ⟨rfl, hfl, hl, a2, a3, b2, b3, rfl⟩
    · exfalso
      -- empty selection: `find_block_range` answers out-of-bounds or the empty range; both decline
      cases hfb : findBlockRange (cum0 oc) (s.istart (isum oc)) (s.istop (isum oc)) with
      | none => rw [hfb] at h; simp at h
      | some fl =>
        obtain ⟨f, l⟩ := fl
        rw [hfb] at h
        unfold findBlockRange at hfb
        simp only [cum0_tail, cum0_length] at hfb
        split at hfb
        · simp at hfb
        · have hh := Option.some.inj hfb
          have e1 : f = bisectRight (cumsum oc) (s.istart (isum oc)) := (congrArg Prod.fst hh).symm
          have e2 : l = (bisectRight (cumsum oc) (s.istart (isum oc)) : Int) - 1 := (congrArg Prod.snd hh).symm
          simp only at h
          rw [if_pos (by omega)] at h
          simp at h
  · exfalso
    simp [hs] at h

/-- The declines of the rule on one axis (each was a defect before it was added). -/
theorem acceptAxis_declines (oc : List Int) (hoc : ∀ c ∈ oc, 0 ≤ c) (s : PySlice) (hc : s ≠ colon) :
    (s.stp ≠ 1 → acceptAxis oc (.slc s) = none) ∧
    (s.istop (isum oc) ≤ s.istart (isum oc) → acceptAxis oc (.slc s) = none) := by
  constructor
  · intro hs
    cases h : acceptAxis oc (.slc s) with
    | none => rfl
    | some pl => exact absurd (acceptAxis_slc oc hoc s hc pl h).1 hs
  · intro he
    cases h : acceptAxis oc (.slc s) with
    | none => rfl
    | some pl => have := (acceptAxis_slc oc hoc s hc pl h).2.1; omega

/-- **One axis of the soundness theorem.**  For an accepted index and a result coordinate `q` inside the selection: the
source position in the original output and the position the top adjustment reads in the kept blocks lie in
corresponding blocks (`k` and `k - first`) at the same offset. -/
theorem acceptAxis_sound (oc : List Int) (hoc : ∀ c ∈ oc, 0 ≤ c) (idx : Idx) (hidx : idxOK (isum oc) idx = true)
    (pl : AxisPlan) (h : acceptAxis oc idx = some pl) (q : Nat) (hq : inSel (isum oc) idx q = true) :
    brOK oc.length pl ∧
    (slice1dInt oc (srcPos1 (isum oc) idx q)).1
      = (slice1dInt (keptOut1 oc pl) (srcPos1 (isum (keptOut1 oc pl)) pl.adj.toIdx q)).1 + first1 pl ∧
    (slice1dInt oc (srcPos1 (isum oc) idx q)).2
      = (slice1dInt (keptOut1 oc pl) (srcPos1 (isum (keptOut1 oc pl)) pl.adj.toIdx q)).2 ∧
    (∀ f l, pl.br = some (f, l) →
      (slice1dInt (keptOut1 oc pl) (srcPos1 (isum (keptOut1 oc pl)) pl.adj.toIdx q)).1 ≤ l - f) := by
  cases idx with
  | int i =>
    simp only [idxOK, decide_eq_true_eq] at hidx
    obtain ⟨f, l, hacc, hfl, hl, a2, a3⟩ := acceptAxis_int oc hoc i hidx.1 hidx.2
    rw [hacc] at h
    have h' := Option.some.inj h
    subst h'
    generalize hp : (if i ≥ 0 then i else i + isum oc) = pos at a2 a3
    obtain ⟨k1, k2⟩ := locate_kept oc hoc f l f (Nat.le_refl f) hfl hl pos a2 a3
    have hsrc : srcPos1 (isum oc) (.int i) q = pos := by simp only [srcPos1]; exact hp
    have hsrc' : srcPos1 (isum (keptChunks oc f l)) (Adj.int (pos - blockStart oc f)).toIdx q = pos - blockStart oc f := by
      simp only [Adj.toIdx, srcPos1]
      rw [if_pos (by omega)]
    simp only [keptOut1, first1, hsrc, hsrc', k1, k2]
    refine ⟨?_, by omega, trivial, ?_⟩
    · intro f' l' hbr
      simp only [Option.some.injEq, Prod.mk.injEq] at hbr
      omega
    · intro f' l' hbr
      simp only [Option.some.injEq, Prod.mk.injEq] at hbr
      omega
  | slc s =>
    by_cases hc : s = colon
    · subst hc
      have : pl = ⟨none, .colon⟩ := by
        unfold acceptAxis at h
        simp at h
        exact h.symm
      subst this
      simp only [keptOut1, first1, Adj.toIdx]
      refine ⟨?_, by omega, trivial, ?_⟩
      · intro f l hbr; simp at hbr
      · intro f l hbr; simp at hbr
    · obtain ⟨hs, hse, f, l, hbr, hfl, hl, a2, a3, b2, b3, hadj⟩ := acceptAxis_slc oc hoc s hc pl h
      simp only [inSel, decide_eq_true_eq] at hq
      have hqlen := hq
      rw [sel_unit_length s _ hs] at hqlen
      have hsrc : srcPos1 (isum oc) (.slc s) q = s.istart (isum oc) + q := by
        simp only [srcPos1]; exact sel_unit_getD s _ hs q hq
      generalize hst : s.istart (isum oc) = start at *
      generalize hsp : s.istop (isum oc) = stop at *
      -- the block of the source position
      have hd : 0 ≤ isum oc := isum_nonneg oc hoc
      have hbl := blockStart_le oc hoc (show l + 1 ≤ oc.length by omega)
      rw [blockStart_length] at hbl
      have hbf := blockStart_le oc hoc (show 0 ≤ f by omega)
      rw [blockStart_zero] at hbf
      obtain ⟨c1, c2, c3⟩ := bisect_block oc hoc (start + q) (by omega) (by omega)
      generalize hk : bisectRight (cumsum oc) (start + (q : Int)) = k at c1 c2 c3
      obtain ⟨hfk, hkl⟩ := (range_iff_intersects oc hoc start stop f l a2 a3 b2 b3 k).2 ⟨by omega, by omega⟩
      obtain ⟨k1, k2⟩ := locate_kept oc hoc f l k hfk hkl hl (start + q) c2 c3
      have hkept : keptOut1 oc pl = keptChunks oc f l := by simp only [keptOut1, hbr]
      have hdim' : isum (keptChunks oc f l) = blockStart oc (l + 1) - blockStart oc f := isum_kept oc f l hfl
      have hsrc' : srcPos1 (isum (keptChunks oc f l)) pl.adj.toIdx q = start + q - blockStart oc f := by
        rw [hadj]
        split
        · rename_i hcol
          simp only [Adj.toIdx, srcPos1]
          rw [sel_unit_getD colon _ colon_stp q (by
            rw [sel_unit_length colon _ colon_stp, colon_istart, colon_istop, hdim']; omega)]
          rw [colon_istart]; omega
        · simp only [Adj.toIdx, srcPos1]
          have e1 := rng_istart (start - blockStart oc f) (stop - blockStart oc f) (isum (keptChunks oc f l))
            (by omega) (by omega)
          have e2 := rng_istop (start - blockStart oc f) (stop - blockStart oc f) (isum (keptChunks oc f l))
            (by omega) (by omega)
          rw [sel_unit_getD _ _ (rng_stp _ _) q (by
            rw [sel_unit_length _ _ (rng_stp _ _), e1, e2]; omega)]
          rw [e1]; omega
      rw [hkept, hsrc, hsrc', k1, k2]
      simp only [first1, hbr]
      refine ⟨?_, by omega, trivial, ?_⟩
      · intro f' l' hbr'
        try rw [hbr] at hbr'
        simp only [Option.some.injEq, Prod.mk.injEq] at hbr'
        omega
      · intro f' l' hbr'
        try rw [hbr] at hbr'
        simp only [Option.some.injEq, Prod.mk.injEq] at hbr'
        omega

end Dask.Lemmas.Coarse
