/-
Proofs about the task-path payload lookup (Model/BlockInfoFused.lean).  Core Lean only.
-/
import DaskArrayModel.Model.BlockInfoFused
namespace Dask.Lemmas.BlockInfoFused
open Dask.BlockInfo

theorem numChunks_cons (c : List Nat) (cs : Layout) : numChunks (c :: cs) = c.length :: numChunks cs := rfl

/-- if the map sends every label of `ind` to the coordinate of `bid` at the same position, and `bid`
is a block of the grid, the computed id is `bid` itself -/
theorem computeBlockId_id (m : Nat → Option Nat) :
    ∀ (ind bid : List Nat) (oc : Layout), ind.length = bid.length → validBid oc bid = true →
      (∀ p ∈ ind.zip bid, m p.1 = some p.2) → computeBlockId m ind (numChunks oc) = some bid
  | [], [], _, _, _, _ => rfl
  | [], _ :: _, _, h, _, _ => by simp at h
  | _ :: _, [], _, h, _, _ => by simp at h
  | _ :: _, _ :: _, [], _, hv, _ => by simp [validBid] at hv
  | i :: is, j :: js, c :: cs, hl, hv, hm => by
    have hl' : is.length = js.length := by simpa using hl
    simp only [validBid, Bool.and_eq_true, decide_eq_true_eq] at hv
    have hi : m i = some j := hm (i, j) (by simp)
    have ih := computeBlockId_id m is js cs hl' hv.2 (fun p hp => hm p (by simp [hp]))
    simp only [numChunks_cons, computeBlockId, hi, ih, Option.map_some, Nat.mod_eq_of_lt hv.1]

/-- lookup in a zip with duplicate-free keys returns the partner -/
theorem lookup_zip_nodup : ∀ (ks vs : List Nat), ks.Nodup → ∀ p ∈ ks.zip vs, (ks.zip vs).lookup p.1 = some p.2
  | [], _, _, p, hp => by simp at hp
  | _ :: _, [], _, p, hp => by simp at hp
  | k :: ks, v :: vs, hn, p, hp => by
    have hn' := List.nodup_cons.mp hn
    simp only [List.zip_cons_cons, List.mem_cons] at hp
    cases hp with
    | inl h => subst h; simp
    | inr h =>
      have hk : p.1 ∈ ks := (List.of_mem_zip h).1
      have hne : p.1 ≠ k := fun e => hn'.1 (e ▸ hk)
      have ih := lookup_zip_nodup ks vs hn'.2 p h
      simp only [List.zip_cons_cons, List.lookup]
      have : (p.1 == k) = false := by simpa using hne
      rw [this]; exact ih

theorem idxToBlock_id (outInd newAxes bid : List Nat) (hn : outInd.Nodup)
    (hd : ∀ l ∈ newAxes, l ∉ outInd) :
    ∀ p ∈ outInd.zip bid, idxToBlock outInd newAxes bid p.1 = some p.2 := by
  intro p hp
  have hk : p.1 ∈ outInd := (List.of_mem_zip hp).1
  have hc : newAxes.contains p.1 = false := by
    cases h : newAxes.contains p.1 with
    | false => rfl
    | true => exact absurd hk (hd p.1 (by simpa using h))
  simp only [idxToBlock, hc, Bool.false_eq_true, if_false]
  exact lookup_zip_nodup outInd bid hn p hp

theorem taskPayloadId_id (outInd newAxes : List Nat) (outChunks : Layout) (bid : List Nat)
    (hn : outInd.Nodup) (hl : outInd.length = bid.length) (hv : validBid outChunks bid = true)
    (hd : ∀ l ∈ newAxes, l ∉ outInd) :
    taskPayloadId outInd newAxes outChunks bid = some bid :=
  computeBlockId_id _ outInd bid outChunks hl hv (idxToBlock_id outInd newAxes bid hn hd)

end Dask.Lemmas.BlockInfoFused
