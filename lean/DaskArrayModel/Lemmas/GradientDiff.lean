/-
Lemmas for `diff` (Model/Diff.lean): the two slices `r[1:]`, `r[:-1]` as `drop`/`take`, the loop step as the first
difference, lengths, entries, and the closed form of the second difference over ℤ.  Core Lean only.
-/
import DaskArrayModel.Model.Diff
import DaskArrayModel.Lemmas.OverlapSlice
namespace Dask.Lemmas.Diff
open Dask.Py Dask.Py.PySlice Dask.OverlapSlice Dask.Diff Dask.Lemmas.OverlapSlice

variable {α : Type}

theorem getSl_from1 (x : List α) : getSl ⟨some 1, none, none⟩ x = x.drop 1 := by
  rw [getSl_unit _ _ (by rfl)]
  have hs : (PySlice.mk (some 1) none none).istart x.length = min (1 : Int) x.length := by
    simp [istart, stp, adjust]; omega
  have he : (PySlice.mk (some 1) none none).istop x.length = x.length := by
    simp [istop, stp]
  rw [hs, he]
  cases x with
  | nil => simp
  | cons a r =>
    have : (min (1 : Int) ((a :: r).length : Nat)).toNat = 1 := by simp; omega
    rw [this]
    simp

theorem getSl_upto_m1 (x : List α) : getSl ⟨none, some (-1), none⟩ x = x.take (x.length - 1) := by
  rw [getSl_unit _ _ (by rfl)]
  have hs : (PySlice.mk none (some (-1)) none).istart x.length = 0 := by
    simp [istart, stp]
  have he : (PySlice.mk none (some (-1)) none).istop x.length = max 0 ((x.length : Int) - 1) := by
    simp [istop, stp, adjust]; omega
  rw [hs, he]
  simp only [Int.toNat_zero, List.drop_zero, Nat.sub_zero]
  congr 1
  omega

theorem zip_firstDiff [Sub α] : ∀ (r : List α),
    List.zipWith (· - ·) (r.drop 1) (r.take (r.length - 1)) = firstDiff r
  | [] => rfl
  | [_] => rfl
  | a :: b :: r => by
    have ih := zip_firstDiff (b :: r)
    simp only [List.drop_succ_cons, List.drop_zero, List.length_cons, Nat.add_sub_cancel] at ih ⊢
    rw [List.take_succ_cons, List.zipWith_cons_cons, ih]
    rfl

/-- the step of the loop is the first difference -/
theorem diffStep_eq [Sub α] (r : List α) : diffStep r = firstDiff r := by
  unfold diffStep
  rw [getSl_from1, getSl_upto_m1, zip_firstDiff]

theorem diffLoop_eq [Sub α] : ∀ (n : Nat) (r : List α), diffLoop n r = nthDiff n r
  | 0, _ => rfl
  | n + 1, r => by simp only [diffLoop, nthDiff, diffStep_eq, diffLoop_eq n]

theorem firstDiff_length [Sub α] : ∀ (x : List α), (firstDiff x).length = x.length - 1
  | [] => rfl
  | [_] => rfl
  | a :: b :: r => by
    simp only [firstDiff, List.length_cons, firstDiff_length (b :: r)]
    omega

theorem firstDiff_getElem? [Sub α] : ∀ (x : List α) (i : Nat),
    (firstDiff x)[i]? = match x[i + 1]?, x[i]? with
      | some b, some a => some (b - a)
      | _, _ => none
  | [], i => by simp [firstDiff]
  | [a], i => by cases i <;> simp [firstDiff]
  | a :: b :: r, 0 => by simp [firstDiff]
  | a :: b :: r, i + 1 => by
    simp only [firstDiff, List.getElem?_cons_succ]
    exact firstDiff_getElem? (b :: r) i

theorem nthDiff_length [Sub α] : ∀ (n : Nat) (x : List α), (nthDiff n x).length = x.length - n
  | 0, _ => rfl
  | n + 1, x => by
    simp only [nthDiff, nthDiff_length n, firstDiff_length]
    omega

/-- **`diff`**: the loop over the concatenation is the n-fold first difference -/
theorem diff_eq [Sub α] (n : Int) (a : List α) (pre app : Option (List α)) :
    diff n a pre app =
      if n = 0 then some a else if n < 0 then none
      else some (nthDiff n.toNat ((pre.getD []) ++ a ++ (app.getD []))) := by
  unfold diff combine
  simp only [diffLoop_eq]

/-- second difference over ℤ, closed form -/
theorem nthDiff_two (x : List Int) (i : Nat) (hi : i + 2 < x.length) :
    (nthDiff 2 x)[i]? = some (x[i + 2]! - 2 * x[i + 1]! + x[i]!) := by
  simp only [nthDiff, firstDiff_getElem?]
  have h0 : x[i]? = some x[i]! := by rw [List.getElem!_eq_getElem?_getD, List.getElem?_eq_getElem (by omega)]; rfl
  have h1 : x[i + 1]? = some x[i + 1]! := by
    rw [List.getElem!_eq_getElem?_getD, List.getElem?_eq_getElem (by omega)]; rfl
  have h2 : x[i + 2]? = some x[i + 2]! := by
    rw [List.getElem!_eq_getElem?_getD, List.getElem?_eq_getElem (by omega)]; rfl
  rw [show i + 1 + 1 = i + 2 by omega, h0, h1, h2]
  simp only [Option.some.injEq]
  omega

end Dask.Lemmas.Diff

