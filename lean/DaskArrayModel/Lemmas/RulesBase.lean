/-
Rewrite-rule layer, base: `Refines env e' e` (well-formed, same shape, same NumPy values), the
in-bounds facts of every constructor's index map, and congruence: a refined child may replace the
child under every constructor (under grid-sensitive parents: when `.chunks` is unchanged).
-/
import DaskArrayModel.Model.Rules
import DaskArrayModel.Lemmas.ExprCorrect
namespace Dask.ND
open Dask.Py Dask.Py.PySlice Dask.Slicing

/-- `e'` may replace `e`: well-formed, same NumPy shape, same NumPy values -/
structure Refines (env : Env) (e' e : Expr) : Prop where
  isWF : WF e'
  shapeEq : shape e' = shape e
  denEq : ∀ i, InB i (shape e) → denGet env e' i = denGet env e i

theorem Refines.refl {env : Env} {e : Expr} (h : WF e) : Refines env e e := ⟨h, rfl, fun _ _ => rfl⟩

theorem Refines.trans {env : Env} {e'' e' e : Expr} (h2 : Refines env e'' e') (h1 : Refines env e' e) :
    Refines env e'' e :=
  ⟨h2.isWF, h2.shapeEq.trans h1.shapeEq, fun i hi => (h2.denEq i (h1.shapeEq ▸ hi)).trans (h1.denEq i hi)⟩

theorem Refines.equiv {env : Env} {e' e : Expr} (h : Refines env e' e) :
    Arr.Equiv (den env e') (den env e) :=
  ⟨h.shapeEq, fun i hi => h.denEq i (by simpa [den, h.shapeEq] using hi)⟩

/-! ### in-bounds reads -/

theorem gGlob_inB {specs : List AxSpec} {ol cl : Layout} (h : SpecsOK specs ol cl) (g : List Nat)
    (hg : InB g (ol.map List.sum)) : InB (gGlob specs g) (cl.map List.sum) := by
  obtain ⟨r1, r2, r3⟩ := locate_spec hg
  obtain ⟨_, hi⟩ := axisLift h _ r1
  obtain ⟨q1, q2, q3⟩ := hi _ r2
  rw [r3] at q3
  rw [← q3]
  exact InB_vadd_origin q1 q2

theorem sliceIdx_inB : ∀ (sh : List Nat) (idx : List Ix) (i : List Nat), wfIx sh idx = true →
    InB i (sliceShape sh idx) → InB (sliceIdx sh idx i) sh
  | [], [], i, _, hi => by
    cases i with
    | nil => simp [sliceIdx, InB]
    | cons _ _ => simp [sliceShape, InB] at hi
  | n :: ns, .int k :: r, i, hwf, hi => by
    rw [wfIx_cons_int] at hwf
    simp only [sliceShape] at hi
    simp only [sliceIdx, InB]
    refine ⟨?_, sliceIdx_inB ns r i hwf.2 hi⟩
    unfold posifyInt; split <;> omega
  | n :: ns, .slc s :: r, [], _, hi => by simp [sliceShape, InB] at hi
  | n :: ns, .slc s :: r, x :: i, hwf, hi => by
    rw [wfIx_cons_slc] at hwf
    simp only [sliceShape, InB] at hi
    simp only [sliceIdx, InB]
    refine ⟨?_, sliceIdx_inB ns r i hwf.2 hi.2⟩
    have := sel_getD_bounds s n (Int.natCast_nonneg n) x hi.1
    omega
  | [], _ :: _, _, hwf, _ => by simp [wfIx] at hwf
  | _ :: _, [], _, hwf, _ => by simp [wfIx] at hwf

theorem unperm_inB {perm : List Nat} {sh i : List Nat} (hp : PermOK perm sh.length)
    (hi : InB i (perm.map (fun a => sh.getD a 0))) : InB (unperm perm i) sh := by
  apply InB.of_getD (by rw [unperm_length, hp.len])
  intro a ha
  rw [unperm_getD _ _ _ (by rw [hp.len]; exact ha)]
  have := hi.getD_lt (perm.idxOf a) (by simp [hp.len, hp.idxOf_lt ha])
  rwa [getD_map _ perm _ 0 0 (by rw [hp.len]; exact hp.idxOf_lt ha), hp.getD_idxOf ha] at this

theorem InB_set_of {sh i : List Nat} {ax v t : Nat} (hi : InB i (sh.set ax v)) (ht : t < sh.getD ax 0) :
    InB (i.set ax t) sh := by
  rw [InB_iff_getD] at hi ⊢
  obtain ⟨hl, hlt⟩ := hi
  simp only [List.length_set] at hl hlt ⊢
  refine ⟨hl, ?_⟩
  intro k hk
  by_cases hkx : k = ax
  · subst hkx; rw [getD_set_eq _ _ _ _ (by omega)]; exact ht
  · rw [getD_set_ne _ _ _ _ _ (Ne.symm hkx)]
    have := hlt k hk
    rwa [getD_set_ne _ _ _ _ _ (Ne.symm hkx)] at this

theorem InB_eraseIdx_insertIdx : ∀ (ax : Nat) (sh i : List Nat) (v : Nat), ax ≤ sh.length →
    InB i (sh.insertIdx ax v) → InB (i.eraseIdx ax) sh
  | 0, sh, [], v, _, hi => by simp [InB] at hi
  | 0, sh, x :: i, v, _, hi => by simpa [InB] using hi.2
  | ax + 1, [], _, _, h, _ => by simp at h
  | ax + 1, n :: sh, [], v, _, hi => by simp [InB] at hi
  | ax + 1, n :: sh, x :: i, v, h, hi => by
    simp only [List.insertIdx_succ_cons, InB] at hi
    simp only [List.eraseIdx_cons_succ, InB]
    exact ⟨hi.1, InB_eraseIdx_insertIdx ax sh i v (by simpa using h) hi.2⟩

theorem InB_insertIdx_eraseIdx : ∀ (ax : Nat) (sh i : List Nat), ax < sh.length → 0 < sh.getD ax 0 →
    InB i (sh.eraseIdx ax) → InB (i.insertIdx ax 0) sh
  | 0, n :: sh, i, _, h0, hi => by
    simp only [List.eraseIdx_cons_zero] at hi
    simp only [List.insertIdx_zero, InB]
    exact ⟨by simpa using h0, hi⟩
  | ax + 1, n :: sh, [], h, _, hi => by simp [InB] at hi
  | ax + 1, n :: sh, x :: i, h, h0, hi => by
    simp only [List.eraseIdx_cons_succ, InB] at hi
    simp only [List.insertIdx_succ_cons, InB]
    exact ⟨hi.1, InB_insertIdx_eraseIdx ax sh i (by simpa using h) (by simpa using h0) hi.2⟩
  | _, [], _, h, _, _ => by simp at h

/-! ### congruence: a refined child under each constructor -/

theorem Refines.map {env : Env} {a' a : Expr} (f : Nat) (h : Refines env a' a) :
    Refines env (.map f a') (.map f a) :=
  ⟨by simpa only [WF, wf] using h.isWF, h.shapeEq, fun i hi => by
    simp only [denGet]; rw [h.denEq i hi]⟩

theorem Refines.zipL {env : Env} {a' a b : Expr} (f : Nat) (h : Refines env a' a)
    (hc : chunks a' = chunks a) (hw : WF (.zip f a b)) : Refines env (.zip f a' b) (.zip f a b) := by
  simp only [WF, wf, Bool.and_eq_true, decide_eq_true_eq] at hw
  refine ⟨?_, h.shapeEq, ?_⟩
  · simp only [WF, wf, Bool.and_eq_true, decide_eq_true_eq]
    exact ⟨⟨⟨h.isWF, hw.1.1.2⟩, h.shapeEq.trans hw.1.2⟩, hc.trans hw.2⟩
  · intro i hi
    simp only [denGet]; rw [h.denEq i hi]

theorem Refines.zipR {env : Env} {a b' b : Expr} (f : Nat) (h : Refines env b' b)
    (hc : chunks b' = chunks b) (hw : WF (.zip f a b)) : Refines env (.zip f a b') (.zip f a b) := by
  simp only [WF, wf, Bool.and_eq_true, decide_eq_true_eq] at hw
  refine ⟨?_, rfl, ?_⟩
  · simp only [WF, wf, Bool.and_eq_true, decide_eq_true_eq]
    exact ⟨⟨⟨hw.1.1.1, h.isWF⟩, hw.1.2.trans h.shapeEq.symm⟩, hw.2.trans hc.symm⟩
  · intro i hi
    simp only [denGet]; rw [h.denEq i (by simpa only [shape, ← hw.1.2] using hi)]

theorem Refines.slice {env : Env} {a' a : Expr} (idx : List Ix) (h : Refines env a' a)
    (hw : WF (.slice a idx)) : Refines env (.slice a' idx) (.slice a idx) := by
  simp only [WF, wf, Bool.and_eq_true] at hw
  refine ⟨?_, by simp only [shape, h.shapeEq], ?_⟩
  · simp only [WF, wf, Bool.and_eq_true]; exact ⟨h.isWF, by rw [h.shapeEq]; exact hw.2⟩
  · intro i hi
    simp only [denGet, h.shapeEq]
    exact h.denEq _ (sliceIdx_inB _ _ _ hw.2 hi)

theorem Refines.transpose {env : Env} {a' a : Expr} (perm : List Nat) (h : Refines env a' a)
    (hw : WF (.transpose a perm)) : Refines env (.transpose a' perm) (.transpose a perm) := by
  simp only [WF, wf, Bool.and_eq_true] at hw
  refine ⟨?_, by simp only [shape, h.shapeEq], ?_⟩
  · simp only [WF, wf, Bool.and_eq_true]; exact ⟨h.isWF, by rw [h.shapeEq]; exact hw.2⟩
  · intro i hi
    simp only [denGet]
    exact h.denEq _ (unperm_inB (isPerm_ok hw.2) hi)

theorem Refines.rechunk {env : Env} {a' a : Expr} (l : Layout) (h : Refines env a' a)
    (hw : WF (.rechunk a l)) : Refines env (.rechunk a' l) (.rechunk a l) := by
  simp only [WF, wf, Bool.and_eq_true] at hw
  refine ⟨?_, h.shapeEq, fun i hi => h.denEq i hi⟩
  simp only [WF, wf, Bool.and_eq_true]; exact ⟨h.isWF, by rw [h.shapeEq]; exact hw.2⟩

theorem Refines.expandDims {env : Env} {a' a : Expr} (ax : Nat) (h : Refines env a' a)
    (hw : WF (.expandDims a ax)) : Refines env (.expandDims a' ax) (.expandDims a ax) := by
  simp only [WF, wf, Bool.and_eq_true, decide_eq_true_eq] at hw
  refine ⟨?_, by simp only [shape, h.shapeEq], ?_⟩
  · simp only [WF, wf, Bool.and_eq_true, decide_eq_true_eq]; exact ⟨h.isWF, by rw [h.shapeEq]; exact hw.2⟩
  · intro i hi
    simp only [denGet]
    exact h.denEq _ (InB_eraseIdx_insertIdx ax _ i 1 hw.2 hi)

theorem Refines.squeeze {env : Env} {a' a : Expr} (ax : Nat) (h : Refines env a' a)
    (hc : chunks a' = chunks a) (hw : WF (.squeeze a ax)) :
    Refines env (.squeeze a' ax) (.squeeze a ax) := by
  simp only [WF, wf, Bool.and_eq_true, decide_eq_true_eq] at hw
  refine ⟨?_, by simp only [shape, h.shapeEq], ?_⟩
  · simp only [WF, wf, Bool.and_eq_true, decide_eq_true_eq]
    exact ⟨⟨h.isWF, by rw [h.shapeEq]; exact hw.1.2⟩, by rw [hc]; exact hw.2⟩
  · intro i hi
    simp only [denGet]
    obtain ⟨i1, _⟩ := meta_ok a hw.1.1
    have h1 : (shape a).getD ax 0 = 1 := by
      rw [← sum_getD_of_map_sum i1 ax, hw.2]; rfl
    exact h.denEq _ (InB_insertIdx_eraseIdx ax _ i hw.1.2 (by omega) hi)

theorem InB_set_le {sh i : List Nat} {ax t : Nat} (hi : InB i sh) (ht : t ≤ i.getD ax 0) :
    InB (i.set ax t) sh := by
  rw [InB_iff_getD] at hi ⊢
  obtain ⟨hl, hlt⟩ := hi
  refine ⟨by simpa using hl, ?_⟩
  intro k hk
  by_cases hkx : k = ax
  · subst hkx; rw [getD_set_eq _ _ _ _ (by omega)]; have := hlt k hk; omega
  · rw [getD_set_ne _ _ _ _ _ (Ne.symm hkx)]; exact hlt k hk

theorem Refines.cumsum {env : Env} {a' a : Expr} (ax : Nat) (h : Refines env a' a)
    (hw : WF (.cumsum a ax)) : Refines env (.cumsum a' ax) (.cumsum a ax) := by
  simp only [WF, wf, Bool.and_eq_true, decide_eq_true_eq] at hw
  refine ⟨?_, h.shapeEq, ?_⟩
  · simp only [WF, wf, Bool.and_eq_true, decide_eq_true_eq]; exact ⟨h.isWF, by rw [h.shapeEq]; exact hw.2⟩
  · intro i hi
    simp only [denGet]
    congr 1
    apply List.map_congr_left
    intro t ht
    have hi' : InB i (shape a) := hi
    exact h.denEq _ (InB_set_le hi' (by have := List.mem_range.mp ht; omega))

theorem Refines.reduce {env : Env} {a' a : Expr} (r : Red) (ax k : Nat) (h : Refines env a' a)
    (hc : chunks a' = chunks a) (hw : WF (.reduce r a ax k)) :
    Refines env (.reduce r a' ax k) (.reduce r a ax k) := by
  have hw' := hw
  simp only [WF, wf, Bool.and_eq_true, decide_eq_true_eq] at hw
  refine ⟨?_, by simp only [shape, h.shapeEq], ?_⟩
  · simp only [WF, wf, Bool.and_eq_true, decide_eq_true_eq]
    exact ⟨⟨⟨h.isWF, by rw [h.shapeEq]; exact hw.1.1.2⟩, hw.1.2⟩, by rw [hc]; exact hw.2⟩
  · intro i hi
    simp only [denGet, h.shapeEq]
    congr 1
    apply List.map_congr_left
    intro t ht
    exact h.denEq _ (InB_set_of hi (List.mem_range.mp ht))

theorem Refines.broadcastTo {env : Env} {a' a : Expr} (sh : List Nat) (l : Layout)
    (h : Refines env a' a) (hc : chunks a' = chunks a) (hw : WF (.broadcastTo a sh l)) :
    Refines env (.broadcastTo a' sh l) (.broadcastTo a sh l) := by
  simp only [WF, wf, Bool.and_eq_true, decide_eq_true_eq] at hw
  obtain ⟨⟨⟨hwe, hwl⟩, hle⟩, hbc⟩ := hw
  refine ⟨?_, rfl, ?_⟩
  · simp only [WF, wf, Bool.and_eq_true, decide_eq_true_eq]
    exact ⟨⟨⟨h.isWF, hwl⟩, by rw [h.shapeEq]; exact hle⟩, by rw [hc, h.shapeEq]; exact hbc⟩
  · intro i hi
    simp only [denGet, h.shapeEq]
    apply h.denEq
    obtain ⟨i1, _⟩ := meta_ok a hwe
    obtain ⟨o1, _⟩ := wfLayout_iff.mp hwl
    have hlen := length_of_map_sum i1
    have hlen' := length_of_map_sum o1
    have hbc' : bcOK (chunks a) (l.drop (l.length - (chunks a).length)) = true := by
      rw [hlen, hlen']; exact hbc
    have hi' : InB i (l.map List.sum) := by rw [o1]; exact hi
    have := gGlob_inB (broadcastSpecs_ok (chunks a) l hbc') i hi'
    rw [gGlob_broadcastSpecs (chunks a) l i (by rw [hlen, hlen']; exact hle) hbc' hi', i1, hlen, hlen'] at this
    exact this

theorem Refines.mapBlocks {env : Env} (henv : EnvOK env) {a' a : Expr} (f : Nat)
    (h : Refines env a' a) (hc : chunks a' = chunks a) (hw : WF (.mapBlocks f a)) :
    Refines env (.mapBlocks f a') (.mapBlocks f a) := by
  simp only [WF, wf] at hw
  refine ⟨by simpa only [WF, wf] using h.isWF, h.shapeEq, ?_⟩
  intro i hi
  have hi' : InB i (shape a) := hi
  obtain ⟨i1, _⟩ := meta_ok a hw
  obtain ⟨r1, r2, _⟩ := locate_spec (l := chunks a) (g := i) (by rw [i1]; exact hi')
  simp only [denGet, hc, h.shapeEq]
  have hE : Arr.Equiv
      (restrict ⟨shape a, denGet env a'⟩ (extent (chunks a) (bidOf (chunks a) i)))
      (restrict ⟨shape a, denGet env a⟩ (extent (chunks a) (bidOf (chunks a) i))) :=
    restrict_congr _ _ _ _ _ i1 r1 (fun g hg => h.denEq g hg)
  obtain ⟨hq, hs⟩ := henv f _ _ hE
  apply hq.2
  rw [hs]
  exact r2

theorem InB_of_set {sh i : List Nat} {ax v : Nat} (hi : InB i (sh.set ax v))
    (ht : i.getD ax 0 < sh.getD ax 0) : InB i sh := by
  rw [InB_iff_getD] at hi ⊢
  obtain ⟨hl, hlt⟩ := hi
  simp only [List.length_set] at hl hlt
  refine ⟨hl, ?_⟩
  intro k hk
  by_cases hkx : k = ax
  · subst hkx; exact ht
  · have := hlt k hk
    rwa [getD_set_ne _ _ _ _ _ (Ne.symm hkx)] at this

/-- the index read from the second operand of a concatenation is inside it -/
theorem InB_concat_right {sa sb i : List Nat} {ax : Nat} (hax : ax < sa.length)
    (hs : sa.set ax 0 = sb.set ax 0)
    (hi : InB i (sa.set ax (sa.getD ax 0 + sb.getD ax 0))) (hge : ¬ i.getD ax 0 < sa.getD ax 0) :
    InB (i.set ax (i.getD ax 0 - sa.getD ax 0)) sb := by
  have hlen : sa.length = sb.length := by simpa using congrArg List.length hs
  rw [InB_iff_getD] at hi ⊢
  obtain ⟨hl, hlt⟩ := hi
  simp only [List.length_set] at hl hlt ⊢
  refine ⟨by omega, ?_⟩
  intro k hk
  by_cases hkx : k = ax
  · subst hkx
    rw [getD_set_eq _ _ _ _ (by omega)]
    have := hlt k (by omega)
    rw [getD_set_eq _ _ _ _ hax] at this
    omega
  · rw [getD_set_ne _ _ _ _ _ (Ne.symm hkx)]
    have := hlt k (by omega)
    rw [getD_set_ne _ _ _ _ _ (Ne.symm hkx)] at this
    have he := congrArg (fun l => l.getD k 0) hs
    simp only [getD_set_ne _ _ _ _ _ (Ne.symm hkx)] at he
    omega

theorem Refines.concatL {env : Env} {a' a b : Expr} (ax : Nat) (h : Refines env a' a)
    (hc : chunks a' = chunks a) (hw : WF (.concat a b ax)) :
    Refines env (.concat a' b ax) (.concat a b ax) := by
  simp only [WF, wf, Bool.and_eq_true, decide_eq_true_eq] at hw
  obtain ⟨⟨⟨⟨ha, hb⟩, hax⟩, hshp⟩, hchk⟩ := hw
  refine ⟨?_, by simp only [shape, h.shapeEq], ?_⟩
  · simp only [WF, wf, Bool.and_eq_true, decide_eq_true_eq]
    exact ⟨⟨⟨⟨h.isWF, hb⟩, by rw [h.shapeEq]; exact hax⟩, by rw [h.shapeEq]; exact hshp⟩,
      by rw [hc]; exact hchk⟩
  · intro i hi
    simp only [denGet, h.shapeEq]
    split
    · rename_i hlt
      exact h.denEq i (InB_of_set hi hlt)
    · rfl

theorem Refines.concatR {env : Env} {a b' b : Expr} (ax : Nat) (h : Refines env b' b)
    (hc : chunks b' = chunks b) (hw : WF (.concat a b ax)) :
    Refines env (.concat a b' ax) (.concat a b ax) := by
  simp only [WF, wf, Bool.and_eq_true, decide_eq_true_eq] at hw
  obtain ⟨⟨⟨⟨ha, hb⟩, hax⟩, hshp⟩, hchk⟩ := hw
  refine ⟨?_, by simp only [shape, h.shapeEq], ?_⟩
  · simp only [WF, wf, Bool.and_eq_true, decide_eq_true_eq]
    exact ⟨⟨⟨⟨ha, h.isWF⟩, hax⟩, by rw [h.shapeEq]; exact hshp⟩, by rw [hc]; exact hchk⟩
  · intro i hi
    simp only [denGet]
    split
    · rfl
    · rename_i hge
      exact h.denEq _ (InB_concat_right hax hshp hi hge)

end Dask.ND
