/-
The refinement theorem: for every well-formed expression and every valid block index, the
value the task computes (`blockDen`) is the block of the NumPy meaning (`den`) on the extent
advertised by `.chunks`.  Structural induction; the per-axis theorems enter through
`gatherBlock_correct` (slicing: C13 `slice1d_partition`; rechunk: C15 `crosswalk_exact`).
-/
import DaskArrayModel.Lemmas.ExprScan
namespace Dask.ND
open Dask.Py Dask.Py.PySlice Dask.Slicing

/-- the statement proved for every node -/
def BlockOK (env : Env) (e : Expr) : Prop :=
  ∀ bid, validBid (chunks e) bid →
    Arr.Equiv (blockDen env e bid) (restrict (den env e) (extent (chunks e) bid))

/-! ### changing the element function on in-bounds indices -/

theorem restrict_congr (sh : List Nat) (f f' : List Nat → Int) (l : Layout) (bid : List Nat)
    (hsum : l.map List.sum = sh) (hb : validBid l bid)
    (h : ∀ g, InB g sh → f g = f' g) :
    Arr.Equiv (restrict ⟨sh, f⟩ (extent l bid)) (restrict ⟨sh, f'⟩ (extent l bid)) := by
  refine ⟨rfl, ?_⟩
  intro i hi
  simp only [restrict, extent] at hi ⊢
  exact h _ (hsum ▸ InB_vadd_origin hb hi)

/-! ### transpose -/

theorem unperm_length (perm x : List Nat) : (unperm perm x).length = perm.length := by
  simp [unperm]

theorem unperm_getD (perm x : List Nat) (a : Nat) (ha : a < perm.length) :
    (unperm perm x).getD a 0 = x.getD (perm.idxOf a) 0 := by
  unfold unperm
  rw [getD_map _ _ a 0 0 (by simpa using ha), getD_range _ _ ha]

/-- a per-axis quantity `F chunks[k] bid[k]` of the transposed layout at output axis `k` is the
quantity of the input layout at input axis `perm[k]` for the un-permuted block id -/
theorem zipWith_perm {perm : List Nat} {n : Nat} (hp : PermOK perm n) (cl : Layout)
    (hcl : cl.length = n) (F : List Nat → Nat → Nat) (x : List Nat) (hx : x.length = n)
    (k : Nat) (hk : k < n) :
    (List.zipWith F (perm.map (fun a => cl.getD a [])) x).getD k 0
      = (List.zipWith F cl (unperm perm x)).getD (perm.getD k 0) 0 := by
  have hpk := hp.getD_lt hk
  rw [getD_zipWith F _ x k [] 0 0 (by simp [hp.len, hk]) (by omega),
    getD_zipWith F cl _ _ [] 0 0 (by omega) (by rw [unperm_length, hp.len]; exact hpk),
    getD_map _ perm k 0 [] (by rw [hp.len]; exact hk),
    unperm_getD _ _ _ (by rw [hp.len]; exact hpk), hp.idxOf_getD hk]

theorem zipWith_unperm {perm : List Nat} {n : Nat} (hp : PermOK perm n) (cl : Layout)
    (hcl : cl.length = n) (F : List Nat → Nat → Nat) (x : List Nat) (hx : x.length = n)
    (a : Nat) (ha : a < n) :
    (List.zipWith F cl (unperm perm x)).getD a 0
      = (List.zipWith F (perm.map (fun a => cl.getD a [])) x).getD (perm.idxOf a) 0 := by
  rw [zipWith_perm hp cl hcl F x hx _ (hp.idxOf_lt ha), hp.getD_idxOf ha]

theorem validBid_unperm {perm : List Nat} {n : Nat} (hp : PermOK perm n) (cl : Layout)
    (hcl : cl.length = n) (bid : List Nat)
    (hb : validBid (perm.map (fun a => cl.getD a [])) bid) : validBid cl (unperm perm bid) := by
  have hbl : bid.length = n := by rw [hb.length_eq]; simp [hp.len]
  apply validBid.of_getD (by rw [unperm_length, hp.len, hcl])
  intro a ha
  rw [hcl] at ha
  have := hb.getD_lt (perm.idxOf a) (by simp [hp.len, hp.idxOf_lt ha])
  rw [getD_map _ perm _ 0 [] (by rw [hp.len]; exact hp.idxOf_lt ha), hp.getD_idxOf ha] at this
  rw [unperm_getD _ _ _ (by rw [hp.len]; exact ha)]
  exact this

theorem transpose_ok (env : Env) (e : Expr) (perm : List Nat) (hwf : WF (.transpose e perm))
    (ih : BlockOK env e) : BlockOK env (.transpose e perm) := by
  simp only [WF, wf, Bool.and_eq_true] at hwf
  obtain ⟨i1, _⟩ := meta_ok e hwf.1
  have hp := isPerm_ok hwf.2
  have hcl : (chunks e).length = (shape e).length := length_of_map_sum i1
  intro bid hb
  have hb' : validBid (perm.map (fun a => (chunks e).getD a [])) bid := hb
  have hbl : bid.length = (shape e).length := by rw [hb'.length_eq]; simp [hp.len]
  have hB := validBid_unperm hp (chunks e) hcl bid hb'
  have hE := ih _ hB
  have hsh : (blockDen env e (unperm perm bid)).shape = blockShape (chunks e) (unperm perm bid) :=
    hE.1
  have hshape : perm.map (fun a => (blockShape (chunks e) (unperm perm bid)).getD a 0)
      = blockShape (perm.map (fun a => (chunks e).getD a [])) bid := by
    apply list_ext_getD
    · simp [blockShape, hbl, hp.len]
    · intro k hk
      rw [List.length_map, hp.len] at hk
      rw [getD_map _ perm k 0 0 (by rw [hp.len]; exact hk)]
      exact (zipWith_perm hp (chunks e) hcl (fun cs b => cs.getD b 0) bid hbl k hk).symm
  refine ⟨?_, ?_⟩
  · simp only [blockDen, restrict, extent, chunks]
    rw [hsh]; exact hshape
  · intro i hi
    simp only [blockDen] at hi
    rw [hsh, hshape] at hi
    have hil : i.length = (shape e).length := by
      rw [hi.length_eq, blockShape_length (by simp [hbl, hp.len])]; simp [hp.len]
    -- the un-permuted local index is inside the input block
    have hin : InB (unperm perm i) (blockShape (chunks e) (unperm perm bid)) := by
      apply InB.of_getD
      · rw [unperm_length, blockShape_length (by rw [unperm_length, hp.len, hcl]), hp.len, hcl]
      · intro a ha
        rw [blockShape_length (by rw [unperm_length, hp.len, hcl]), hcl] at ha
        rw [unperm_getD _ _ _ (by rw [hp.len]; exact ha)]
        have := hi.getD_lt (perm.idxOf a)
          (by rw [blockShape_length (by simp [hbl, hp.len])]; simp [hp.len, hp.idxOf_lt ha])
        unfold blockShape at this ⊢
        rw [zipWith_unperm hp (chunks e) hcl _ bid hbl a ha]
        exact this
    simp only [blockDen, restrict, extent, chunks, den, denGet]
    rw [hE.2 _ (hsh ▸ hin)]
    simp only [restrict, extent, den]
    congr 1
    -- global positions agree
    have hol : (origin (perm.map (fun a => (chunks e).getD a [])) bid).length = (shape e).length := by
      rw [origin_length (by simp [hbl, hp.len])]; simp [hp.len]
    apply list_ext_getD
    · rw [vadd_length (by rw [origin_length (by rw [unperm_length, hp.len, hcl]), unperm_length,
        hp.len, hcl]), origin_length (by rw [unperm_length, hp.len, hcl]), unperm_length, hp.len, hcl]
    · intro a ha
      rw [vadd_length (by rw [origin_length (by rw [unperm_length, hp.len, hcl]), unperm_length,
        hp.len, hcl]), origin_length (by rw [unperm_length, hp.len, hcl]), hcl] at ha
      rw [vadd_getD a (by rw [origin_length (by rw [unperm_length, hp.len, hcl]), hcl]; exact ha)
            (by rw [unperm_length, hp.len]; exact ha),
        unperm_getD _ _ _ (by rw [hp.len]; exact ha),
        unperm_getD _ _ _ (by rw [hp.len]; exact ha),
        vadd_getD _ (by rw [hol]; exact hp.idxOf_lt ha) (by rw [hil]; exact hp.idxOf_lt ha)]
      congr 1
      unfold origin
      exact zipWith_unperm hp (chunks e) hcl _ bid hbl a ha

/-! ### concatenate -/

theorem getD_append_left' (l m : List Nat) (k : Nat) (h : k < l.length) :
    (l ++ m).getD k 0 = l.getD k 0 := by
  simp [List.getD_eq_getElem?_getD, List.getElem?_append_left h]

theorem getD_append_right' (l m : List Nat) (k : Nat) (h : l.length ≤ k) :
    (l ++ m).getD k 0 = m.getD (k - l.length) 0 := by
  simp [List.getD_eq_getElem?_getD, List.getElem?_append_right h]

theorem sum_take_append_left (l m : List Nat) (k : Nat) (h : k ≤ l.length) :
    ((l ++ m).take k).sum = (l.take k).sum := by
  rw [List.take_append]
  have : k - l.length = 0 := by omega
  simp [this]

theorem sum_take_append_right (l m : List Nat) (k : Nat) (h : l.length ≤ k) :
    ((l ++ m).take k).sum = l.sum + (m.take (k - l.length)).sum := by
  rw [List.take_append, List.sum_append, List.take_of_length_le h]

theorem concat_ok (env : Env) (a b : Expr) (ax : Nat) (hwf : WF (.concat a b ax))
    (iha : BlockOK env a) (ihb : BlockOK env b) : BlockOK env (.concat a b ax) := by
  simp only [WF, wf, Bool.and_eq_true, decide_eq_true_eq] at hwf
  obtain ⟨⟨⟨⟨ha, hb⟩, hax⟩, hshp⟩, hchk⟩ := hwf
  obtain ⟨a1, a2⟩ := meta_ok a ha
  obtain ⟨b1, _⟩ := meta_ok b hb
  have hla : (chunks a).length = (shape a).length := length_of_map_sum a1
  have hlab : (chunks a).length = (chunks b).length := by
    have := congrArg List.length hchk; simpa using this
  have hoff : ∀ k, k ≠ ax → (chunks a).getD k [] = (chunks b).getD k [] := by
    intro k hk
    have := congrArg (fun l => l.getD k []) hchk
    simp only [getD_set_ne _ _ _ _ _ (Ne.symm hk)] at this
    exact this
  have haxa : ax < (chunks a).length := by rw [hla]; exact hax
  intro bid hbid
  have hbid' : validBid ((chunks a).set ax ((chunks a).getD ax [] ++ (chunks b).getD ax [])) bid :=
    hbid
  have hbl : bid.length = (chunks a).length := by rw [hbid'.length_eq]; simp
  -- entries of the output layout
  have holax : ((chunks a).set ax ((chunks a).getD ax [] ++ (chunks b).getD ax [])).getD ax []
      = (chunks a).getD ax [] ++ (chunks b).getD ax [] := getD_set_eq _ _ _ _ haxa
  have holne : ∀ k, k ≠ ax →
      ((chunks a).set ax ((chunks a).getD ax [] ++ (chunks b).getD ax [])).getD k []
        = (chunks a).getD k [] := fun k hk => getD_set_ne _ _ _ _ _ (Ne.symm hk)
  have hjlt := hbid'.getD_lt ax (by simpa using haxa)
  rw [holax, List.length_append] at hjlt
  by_cases hcase : bid.getD ax 0 < ((chunks a).getD ax []).length
  · -- the block is a block of `a`
    have hva : validBid (chunks a) bid := by
      apply validBid.of_getD hbl
      intro k hk
      by_cases hkx : k = ax
      · subst hkx; exact hcase
      · have := hbid'.getD_lt k (by simpa using hk)
        rwa [holne k hkx] at this
    have hext : extent ((chunks a).set ax ((chunks a).getD ax [] ++ (chunks b).getD ax [])) bid
        = extent (chunks a) bid := by
      unfold extent
      congr 1
      · apply list_ext_getD
        · rw [origin_length (by simpa using hbl), origin_length hbl]; simp
        · intro k hk
          rw [origin_length (by simpa using hbl), List.length_set] at hk
          rw [origin_getD (by simpa using hbl) k (by simpa using hk), origin_getD hbl k hk]
          by_cases hkx : k = ax
          · subst hkx
            rw [holax, sum_take_append_left _ _ _ (by omega)]
          · rw [holne k hkx]
      · apply list_ext_getD
        · rw [blockShape_length (by simpa using hbl), blockShape_length hbl]; simp
        · intro k hk
          rw [blockShape_length (by simpa using hbl), List.length_set] at hk
          rw [blockShape_getD (by simpa using hbl) k (by simpa using hk), blockShape_getD hbl k hk]
          by_cases hkx : k = ax
          · subst hkx
            rw [holax, getD_append_left' _ _ _ hcase]
          · rw [holne k hkx]
    have hE := iha bid hva
    simp only [chunks]
    rw [hext]
    refine ⟨?_, ?_⟩
    · simp only [blockDen, hcase, if_true]; exact hE.1
    · intro i hi
      simp only [blockDen, hcase, if_true] at hi ⊢
      rw [hE.2 i hi]
      have hin : InB i (blockShape (chunks a) bid) := by
        have := hi; rw [hE.1] at this; exact this
      have hg := InB_vadd_origin hva hin
      rw [a1] at hg
      have hlt := hg.getD_lt ax hax
      simp only [restrict, extent, den, denGet, hlt, if_true]
  · -- the block is a block of `b`, block id shifted on the axis
    have hcase' : ((chunks a).getD ax []).length ≤ bid.getD ax 0 := by omega
    have hbl' : (bid.set ax (bid.getD ax 0 - ((chunks a).getD ax []).length)).length
        = (chunks b).length := by rw [List.length_set, hbl, hlab]
    have hbax : ax < bid.length := by rw [hbl]; exact haxa
    have hvb : validBid (chunks b) (bid.set ax (bid.getD ax 0 - ((chunks a).getD ax []).length)) := by
      apply validBid.of_getD hbl'
      intro k hk
      by_cases hkx : k = ax
      · subst hkx
        rw [getD_set_eq _ _ _ _ hbax]; omega
      · rw [getD_set_ne _ _ _ _ _ (Ne.symm hkx)]
        have := hbid'.getD_lt k (by rw [List.length_set, hlab]; exact hk)
        rwa [holne k hkx, hoff k hkx] at this
    have hshape : blockShape ((chunks a).set ax ((chunks a).getD ax [] ++ (chunks b).getD ax [])) bid
        = blockShape (chunks b) (bid.set ax (bid.getD ax 0 - ((chunks a).getD ax []).length)) := by
      apply list_ext_getD
      · rw [blockShape_length (by simpa using hbl), blockShape_length hbl']; simp [hlab]
      · intro k hk
        rw [blockShape_length (by simpa using hbl), List.length_set] at hk
        rw [blockShape_getD (by simpa using hbl) k (by simpa using hk),
          blockShape_getD hbl' k (by rw [← hlab]; exact hk)]
        by_cases hkx : k = ax
        · subst hkx
          rw [holax, getD_append_right' _ _ _ hcase', getD_set_eq _ _ _ _ hbax]
        · rw [holne k hkx, hoff k hkx, getD_set_ne _ _ _ _ _ (Ne.symm hkx)]
    have hE := ihb _ hvb
    simp only [chunks]
    refine ⟨?_, ?_⟩
    · simp only [blockDen, hcase, if_false, restrict, extent]
      rw [hshape]; exact hE.1
    · intro i hi
      simp only [blockDen, hcase, if_false] at hi ⊢
      rw [hE.2 i hi]
      have hin : InB i (blockShape (chunks b)
          (bid.set ax (bid.getD ax 0 - ((chunks a).getD ax []).length))) := by
        have := hi; rw [hE.1] at this; exact this
      have hil : i.length = (chunks a).length := by
        rw [hin.length_eq, blockShape_length hbl', hlab]
      have hol : (origin ((chunks a).set ax ((chunks a).getD ax [] ++ (chunks b).getD ax [])) bid).length
          = (chunks a).length := by rw [origin_length (by simpa using hbl)]; simp
      have hobl : (origin (chunks b)
          (bid.set ax (bid.getD ax 0 - ((chunks a).getD ax []).length))).length = (chunks a).length := by
        rw [origin_length hbl', hlab]
      -- the axis coordinate is beyond `a`
      have hgax : (vadd (origin ((chunks a).set ax ((chunks a).getD ax [] ++ (chunks b).getD ax [])) bid)
          i).getD ax 0 = (shape a).getD ax 0
            + ((((chunks b).getD ax []).take (bid.getD ax 0 - ((chunks a).getD ax []).length)).sum
              + i.getD ax 0) := by
        rw [vadd_getD ax (by rw [hol]; exact haxa) (by rw [hil]; exact haxa),
          origin_getD (by simpa using hbl) ax (by simpa using haxa), holax,
          sum_take_append_right _ _ _ hcase', sum_getD_of_map_sum a1]
        omega
      simp only [restrict, extent, den, denGet]
      rw [if_neg (by rw [hgax]; omega)]
      congr 1
      apply list_ext_getD
      · rw [vadd_length (by rw [hobl, hil]), hobl, List.length_set,
          vadd_length (by rw [hol, hil]), hol]
      · intro k hk
        rw [vadd_length (by rw [hobl, hil]), hobl] at hk
        rw [vadd_getD k (by rw [hobl]; exact hk) (by rw [hil]; exact hk),
          origin_getD hbl' k (by rw [← hlab]; exact hk)]
        by_cases hkx : k = ax
        · subst hkx
          rw [getD_set_eq _ _ _ _ hbax,
            getD_set_eq _ _ _ _ (by rw [vadd_length (by rw [hol, hil]), hol]; exact hk), hgax]
          omega
        · rw [getD_set_ne _ _ _ _ _ (Ne.symm hkx), getD_set_ne _ _ _ _ _ (Ne.symm hkx),
            vadd_getD k (by rw [hol]; exact hk) (by rw [hil]; exact hk),
            origin_getD (by simpa using hbl) k (by simpa using hk), holne k hkx, hoff k hkx]

/-! ### the refinement theorem -/

theorem blockDen_correct (env : Env) (henv : EnvOK env) : ∀ (e : Expr), WF e → BlockOK env e
  | .src id sh ch, _ => by
    intro bid _
    exact Arr.Equiv.refl _
  | .map f e, h => by
    have ih := blockDen_correct env henv e (by simpa only [WF, wf] using h)
    intro bid hb
    have hE := ih bid hb
    refine ⟨hE.1, ?_⟩
    intro i hi
    simp only [blockDen] at hi ⊢
    rw [hE.2 i hi]
    rfl
  | .zip f a b, h => by
    simp only [WF, wf, Bool.and_eq_true, decide_eq_true_eq] at h
    obtain ⟨⟨⟨ha, hb⟩, _⟩, hch⟩ := h
    have iha := blockDen_correct env henv a ha
    have ihb := blockDen_correct env henv b hb
    intro bid hbid
    have hbid' : validBid (chunks a) bid := hbid
    have hEa := iha bid hbid'
    have hEb := ihb bid (hch ▸ hbid')
    refine ⟨hEa.1, ?_⟩
    intro i hi
    simp only [blockDen] at hi ⊢
    have hib : InB i (blockDen env b bid).shape := by
      rw [hEb.1]; rw [hEa.1] at hi
      simp only [restrict, extent] at hi ⊢
      rw [← hch]; exact hi
    rw [hEa.2 i hi, hEb.2 i hib]
    simp only [restrict, extent, den, denGet, chunks, hch]
  | .slice e idx, h => by
    have h' := h
    simp only [WF, wf, Bool.and_eq_true] at h'
    have ih := blockDen_correct env henv e h'.1
    obtain ⟨i1, i2⟩ := meta_ok e h'.1
    obtain ⟨o1, _⟩ := meta_ok (.slice e idx) h
    have hspecs := sliceSpecs_ok (shape e) (chunks e) idx i1 i2 h'.2
    intro bid hb
    have hG := gatherBlock_correct hspecs (den env e) (fun b => blockDen env e b) ih
      (shape (.slice e idx)) bid hb
    refine Arr.Equiv.trans hG ?_
    apply restrict_congr _ _ _ _ _ o1 hb
    intro g hg
    simp only [den, denGet]
    rw [gGlob_sliceSpecs (shape e) (chunks e) idx g (length_of_map_sum i1).symm hg]
  | .transpose e perm, h => by
    have h' := h
    simp only [WF, wf, Bool.and_eq_true] at h'
    exact transpose_ok env e perm h (blockDen_correct env henv e h'.1)
  | .rechunk e l, h => by
    have h' := h
    simp only [WF, wf, Bool.and_eq_true] at h'
    have ih := blockDen_correct env henv e h'.1
    obtain ⟨i1, i2⟩ := meta_ok e h'.1
    obtain ⟨o1, o2⟩ := wfLayout_iff.mp h'.2
    have hspecs := rechunkSpecs_ok (chunks e) l i2 o2 (by rw [i1, o1])
    intro bid hb
    have hG := gatherBlock_correct hspecs (den env e) (fun b => blockDen env e b) ih
      (shape e) bid hb
    refine Arr.Equiv.trans hG ?_
    apply restrict_congr _ _ _ _ _ o1 hb
    intro g hg
    simp only [den, denGet]
    rw [gGlob_rechunkSpecs (chunks e) l g
      (by rw [length_of_map_sum i1, length_of_map_sum o1])
      (by rw [hg.length_eq, length_of_map_sum o1])]
  | .concat a b ax, h => by
    have h' := h
    simp only [WF, wf, Bool.and_eq_true] at h'
    exact concat_ok env a b ax h (blockDen_correct env henv a h'.1.1.1.1)
      (blockDen_correct env henv b h'.1.1.1.2)
  | .expandDims e ax, h => by
    have h' := h
    simp only [WF, wf, Bool.and_eq_true, decide_eq_true_eq] at h'
    have ih := blockDen_correct env henv e h'.1
    obtain ⟨i1, _⟩ := meta_ok e h'.1
    obtain ⟨o1, _⟩ := meta_ok (.expandDims e ax) h
    have hlen := length_of_map_sum i1
    have hspecs := expandSpecs_ok (chunks e) ax (by rw [hlen]; exact h'.2)
    intro bid hb
    have hG := gatherBlock_correct hspecs (den env e) (fun b => blockDen env e b) ih
      (shape (.expandDims e ax)) bid hb
    refine Arr.Equiv.trans hG ?_
    apply restrict_congr _ _ _ _ _ o1 hb
    intro g hg
    simp only [den, denGet]
    rw [gGlob_expandSpecs (chunks e) ax g (by rw [hlen]; exact h'.2)
      (by rw [hg.length_eq, hlen]; simp only [shape]; rw [List.length_insertIdx, if_pos h'.2])]
  | .squeeze e ax, h => by
    have h' := h
    simp only [WF, wf, Bool.and_eq_true, decide_eq_true_eq] at h'
    have ih := blockDen_correct env henv e h'.1.1
    obtain ⟨i1, _⟩ := meta_ok e h'.1.1
    obtain ⟨o1, _⟩ := meta_ok (.squeeze e ax) h
    have hlen := length_of_map_sum i1
    have hspecs := squeezeSpecs_ok (chunks e) ax (by rw [hlen]; exact h'.1.2) h'.2
    intro bid hb
    have hG := gatherBlock_correct hspecs (den env e) (fun b => blockDen env e b) ih
      (shape (.squeeze e ax)) bid hb
    refine Arr.Equiv.trans hG ?_
    apply restrict_congr _ _ _ _ _ o1 hb
    intro g hg
    simp only [den, denGet]
    rw [gGlob_squeezeSpecs (chunks e) ax g (by rw [hlen]; exact h'.1.2)
      (by rw [hg.length_eq, hlen]; simp only [shape]; rw [List.length_eraseIdx, if_pos h'.1.2]
          have := h'.1.2; omega)]
  | .broadcastTo e sh l, h => by
    have h' := h
    simp only [WF, wf, Bool.and_eq_true, decide_eq_true_eq] at h'
    obtain ⟨⟨⟨hwe, hwl⟩, hle⟩, hbc⟩ := h'
    have ih := blockDen_correct env henv e hwe
    obtain ⟨i1, _⟩ := meta_ok e hwe
    obtain ⟨o1, _⟩ := wfLayout_iff.mp hwl
    have hlen := length_of_map_sum i1
    have hlen' := length_of_map_sum o1
    have hbc' : bcOK (chunks e) (l.drop (l.length - (chunks e).length)) = true := by
      rw [hlen, hlen']; exact hbc
    have hspecs := broadcastSpecs_ok (chunks e) l hbc'
    intro bid hb
    have hG := gatherBlock_correct hspecs (den env e) (fun b => blockDen env e b) ih sh bid hb
    refine Arr.Equiv.trans hG ?_
    apply restrict_congr _ _ _ _ _ o1 hb
    intro g hg
    simp only [den, denGet]
    rw [gGlob_broadcastSpecs (chunks e) l g (by rw [hlen, hlen']; exact hle) hbc' (o1 ▸ hg), i1,
      hlen, hlen']
  | .reduce r e ax k, h => by
    have h' := h
    simp only [WF, wf, Bool.and_eq_true, decide_eq_true_eq, Bool.or_eq_true, List.all_eq_true] at h'
    obtain ⟨⟨⟨hwe, hax⟩, hk⟩, hpos⟩ := h'
    have ih := blockDen_correct env henv e hwe
    obtain ⟨i1, i2⟩ := meta_ok e hwe
    intro bid hb
    have hpos' : r = .sum ∨ ∀ c ∈ (chunks e).getD ax [], 0 < c := by
      rcases hpos with h0 | h0
      · exact Or.inl h0
      · have hlt : ax < (chunks e).length := by rw [length_of_map_sum i1]; exact hax
        refine Or.inr (h0 _ ?_)
        rw [getD_eq_getElem _ _ _ hlt]; exact List.getElem_mem hlt
    exact reduce_block env r e ax k i1 i2 hax hk hpos' ih bid hb
  | .cumsum e ax, h => by
    have h' := h
    simp only [WF, wf, Bool.and_eq_true, decide_eq_true_eq] at h'
    have ih := blockDen_correct env henv e h'.1
    obtain ⟨i1, _⟩ := meta_ok e h'.1
    intro bid hb
    exact cumsum_block env e ax i1 h'.2 ih bid hb
  | .mapBlocks f e, h => by
    have h' := h
    simp only [WF, wf] at h'
    have ih := blockDen_correct env henv e h'
    intro bid hb
    have hb' : validBid (chunks e) bid := hb
    have hE := ih bid hb'
    obtain ⟨hc, _⟩ := henv f _ _ hE
    refine Arr.Equiv.trans hc ?_
    have hshp := (henv f _ _ (Arr.Equiv.refl (restrict (den env e) (extent (chunks e) bid)))).2
    refine ⟨hshp, ?_⟩
    intro i hi
    rw [hshp] at hi
    simp only [restrict, extent] at hi
    obtain ⟨r1, r2⟩ := locate_origin hb' hi
    simp only [restrict, extent, den, denGet, chunks]
    rw [r1, r2]

/-- assembling all computed blocks gives the NumPy meaning -/
theorem compute_eq_den (env : Env) (henv : EnvOK env) (e : Expr) (h : WF e) :
    Arr.Equiv (assemble (chunks e) (fun bid => blockDen env e bid)) (den env e) :=
  assemble_of_blocks (den env e) (chunks e) _ (meta_ok e h).1 (blockDen_correct env henv e h)

/-- every computed block has the advertised shape -/
theorem block_shape (env : Env) (henv : EnvOK env) (e : Expr) (h : WF e) (bid : List Nat)
    (hb : validBid (chunks e) bid) : (blockDen env e bid).shape = blockShape (chunks e) bid :=
  (blockDen_correct env henv e h bid hb).1

end Dask.ND
