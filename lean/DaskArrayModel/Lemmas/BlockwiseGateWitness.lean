/-
Concrete witnesses for the gates of the generic blockwise pushdowns: small nodes on which the REAL gate
declines and on which the rewrite with that one gate switched off produces something else or something
ill-formed; and the per-block `cumsum`, on which every gate passes and the rewrite changes the result
(the hypothesis `LabelLocal` is the one the code cannot check).  Everything here is closed and decided by
the kernel.
-/
import DaskArrayModel.Lemmas.BlockwiseGateTake
import DaskArrayModel.Lemmas.BlockwiseGateClass
namespace Dask.BWG.Wit
open Dask.Py Dask.ND Dask.BWG

/-- no oracle needed (`align_arrays=False`) -/
def U0 : Nat → List Nat := fun _ => []

def arr1 (l : List Int) : Arr Int := ⟨[l.length], fun i => l.getD (i.getD 0 0) 0⟩

def arr2 (rows : List (List Int)) : Arr Int :=
  ⟨[rows.length, (rows.getD 0 []).length], fun i => (rows.getD (i.getD 0 0) []).getD (i.getD 1 0) 0⟩

def applyExtract (y : Arr Int) : Option (List Ix) → Arr Int
  | none => y
  | some ex => sliceArr y ex

/-- what the rewritten node computes (blocks, layout oracle `U'`), as shape and flat data -/
def resList (G : Gates) (U U' : Nat → List Nat) (bw : BW) (idx : Index) : Option (List Nat × List Int) :=
  (pushG G U bw idx).map (fun p => ((denPushed U' p).shape, (denPushed U' p).toList))

/-- the chunk-free meaning of the rewritten node: its function on the whole new operands (for a
`LabelLocal` function this is what it computes under EVERY admissible layout, `C02g_blocks_assemble`) -/
def meaningList (G : Gates) (U : Nat → List Nat) (bw : BW) (idx : Index) : Option (List Nat × List Int) :=
  (pushG G U bw idx).map (fun p =>
    let y := applyExtract (p.bw.f p.bw.wholes) p.extract
    (y.shape, y.toList))

/-- NumPy's index of what the node computes -/
def wantList (U : Nat → List Nat) (bw : BW) (idx : Index) : List Nat × List Int :=
  let y := applyIndex bw.outInd.length (den U bw) idx
  (y.shape, y.toList)

def idx12 : Index := .basic [some (.slc ⟨some 1, some 2, none⟩)]
def idx13 : Index := .basic [some (.slc ⟨some 1, some 3, none⟩)]
def idx1_ : Index := .basic [some (.slc ⟨some 1, none, none⟩)]
def take10 : Index := .take 0 [[1], [0]]

/-! ### broadcast operand (5146f35, eb4658a): `a + b`, `b` of length 1 -/

def addG : List Int → Int := fun v => v.getD 0 0 + v.getD 1 0

def bwB : BW :=
  { f := pwFn [0] [[0], [0]] addG
    outInd := [0]
    ops := [{ arr := arr1 [1, 2], chunks := [[1, 1]], ind := some [0] },
            { arr := arr1 [10], chunks := [[1]], ind := some [0] }] }

def UB : Nat → List Nat := fun _ => [1, 1]

theorem bwB_labelLocal : LabelLocal bwB.sig bwB.f :=
  pwFn_labelLocal [0] [[0], [0]] addG (by decide)

theorem broadcast_slice :
    bwB.wfS = true ∧ layoutOK UB bwB = true ∧ indexOK (outShape UB bwB) idx12 = true ∧
    gate UB bwB idx12 = false ∧
    meaningList { broadcast := false } UB bwB idx12 = some ([0], []) ∧
    wantList UB bwB idx12 = ([1], [12]) := by decide

theorem broadcast_take :
    indexOK (outShape UB bwB) take10 = true ∧ gate UB bwB take10 = false ∧
    meaningList { broadcast := false } UB bwB take10 = some ([2], [2, 11]) ∧
    wantList UB bwB take10 = ([2], [12, 11]) := by decide

/-! ### unaligned chunks paired by position (45dd3ba): `map_blocks(lambda p, q: p + q.sum(), a, b)` -/

def addSumQ (bs : List (Arr Int)) : Arr Int :=
  let p := bs.getD 0 dA
  let q := bs.getD 1 dA
  ⟨p.shape, fun i => p.get i + isum ((List.range (q.shape.getD 0 0)).map (fun t => q.get [t]))⟩

def bwU : BW :=
  { f := addSumQ
    outInd := [0]
    align := false
    ops := [{ arr := arr1 [0, 1, 2], chunks := [[1, 2]], ind := some [0] },
            { arr := arr1 [0, 10, 20], chunks := [[2, 1]], ind := some [0] }] }

/-- without the gate the new node advertises chunks `(1, 1)` and both its blocks have length 2 -/
theorem unaligned_slice :
    gate U0 bwU idx1_ = false ∧
    (pushG { unaligned := false } U0 bwU idx1_).map (fun p =>
      (p.bw.ops.map (·.chunks), outChunks U0 p.bw, (blockOf U0 p.bw [0]).shape, (blockOf U0 p.bw [1]).shape)) =
      some ([[[2]], [[1, 1]]], [[1, 1]], [2], [2]) := by decide

/-! ### a non-array operand (3422420): `store(..., return_stored=True)` -/

/-- `load_chunk(target, slices)`: the stored target holds `100 + position` -/
def loadStored (bs : List (Arr Int)) : Arr Int :=
  let sl := bs.getD 1 dA
  ⟨[(sl.get [0, 1] - sl.get [0, 0]).toNat], fun i => 100 + sl.get [0, 0] + (i.getD 0 0 : Nat)⟩

def bwN : BW :=
  { f := loadStored
    outInd := [0]
    align := false
    ops := [{ arr := arr1 [0, 1, 2, 3], chunks := [[2, 2]], ind := some [0] },
            { arr := arr1 [0, 0, 0, 0], chunks := [[2, 2]], ind := some [0], isArr := false }] }

/-- Python raises `AttributeError` when it indexes the `ArraySliceDep`; even a dep re-created for the sliced
chunks makes the tasks read the target at other offsets -/
theorem nonarray_slice :
    gate U0 bwN idx1_ = false ∧
    ((den U0 bwN).shape, (den U0 bwN).toList) = ([4], [100, 101, 102, 103]) ∧
    wantList U0 bwN idx1_ = ([3], [101, 102, 103]) ∧
    resList { nonArray := false } U0 U0 bwN idx1_ = some ([3], [100, 101, 102]) := by decide

/-! ### a label on two axes of one operand (1a99595): `blockwise(diagonal, 'i', a, 'ii')` -/

def diagFn (bs : List (Arr Int)) : Arr Int :=
  let b := bs.getD 0 dA
  ⟨[b.shape.getD 0 0], fun i => b.get [i.getD 0 0, i.getD 0 0]⟩

def bwD : BW :=
  { f := diagFn
    outInd := [0]
    align := false
    ops := [{ arr := arr2 [[0, 1], [2, 3]], chunks := [[1, 1], [1, 1]], ind := some [0, 0] }] }

/-- the take shuffles only the first axis; the slice path indexes both and stays correct -/
theorem repeated_take :
    gate U0 bwD take10 = false ∧
    wantList U0 bwD take10 = ([2], [3, 0]) ∧
    resList { repeated := false } U0 U0 bwD take10 = some ([2], [2, 1]) ∧
    gate U0 bwD idx12 = true ∧ resList {} U0 U0 bwD idx12 = some (wantList U0 bwD idx12) := by decide

/-! ### pieces contracted by concatenation (de6ba02): `x[dask_int_array]` -/

/-- some operand is indexed with more items than its blocks have axes -/
def tooManyIndices (G : Gates) (U : Nat → List Nat) (bw : BW) (index : List (Option Ix)) : Bool :=
  match acceptSliceG G U bw index with
  | .exact args _ =>
    (List.zipWith (fun (o : Opd) (a : Option (List Ix)) =>
      match a, o.pieceRank with
      | some ixs, some r => decide (ixs.length > r)
      | _, _ => false) bw.ops args).any id
  | _ => false

/-- `y = blockwise(aggregate, 'j', idx, 'j', p, 'ij', concatenate=True)`; the pieces `p` advertise `(i, j)` and
have one axis -/
def bwC : BW :=
  { f := fun bs => bs.getD 0 dA
    outInd := [1]
    concat := true
    align := false
    ops := [{ arr := arr1 [5, 6, 7], chunks := [[3]], ind := some [1] },
            { arr := arr2 [[0, 0, 0], [0, 0, 0], [0, 0, 0], [0, 0, 0]], chunks := [[2, 2], [3]], ind := some [0, 1],
              pieceRank := some 1 }] }

theorem concat_slice :
    gate U0 bwC idx12 = false ∧
    tooManyIndices { concat := false } U0 bwC [some (.slc ⟨some 1, some 2, none⟩)] = true := by decide

/-! ### a function that is not label-local: per-block `cumsum` (known finding `slice-through-generic-blockwise`) -/

def cumsumBlk (bs : List (Arr Int)) : Arr Int :=
  let b := bs.getD 0 dA
  ⟨b.shape, fun i => isum ((List.range (i.getD 0 0 + 1)).map (fun t => b.get [t]))⟩

def bwCum : BW :=
  { f := cumsumBlk
    outInd := [0]
    align := false
    ops := [{ arr := arr1 [1, 1, 1, 1], chunks := [[2, 2]], ind := some [0] }] }

/-- every gate passes, every decidable hypothesis of the theorem holds, and the result changes -/
theorem cumsum_slice :
    bwCum.wfS = true ∧ layoutOK U0 bwCum = true ∧ indexOK (outShape U0 bwCum) idx13 = true ∧
    gate U0 bwCum idx13 = true ∧
    (pushG {} U0 bwCum idx13).map (fun p => (p.bw.wfS, layoutOK U0 p.bw)) = some (true, true) ∧
    resList {} U0 U0 bwCum idx13 = some ([2], [1, 1]) ∧
    wantList U0 bwCum idx13 = ([2], [2, 1]) := by decide

end Dask.BWG.Wit
