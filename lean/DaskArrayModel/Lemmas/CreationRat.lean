/-
The midpoint `stop` of `Arange._accept_slice` over the rationals (core `Rat`): the reason the code gives for the
construction, `ceil((new_stop - new_start) / new_step) = count` for either sign of `new_step`, `count ≥ 0`.
-/
namespace Dask.Lemmas.CreationRat

/-- the ratio is always `count - 1/2` -/
theorem ratio_eq (S s : Int) (hs : s ≠ 0) (c : Nat) :
    (((S : Rat) + ((c : Rat) - 1/2) * (s : Rat)) - (S : Rat)) / (s : Rat) = (c : Rat) - 1/2 := by
  have h : (s : Rat) ≠ 0 := by
    intro h; apply hs; exact_mod_cast h
  grind

theorem ceil_half (c : Nat) : Rat.ceil ((c : Rat) - 1/2) = (c : Int) := by
  have e : (((c : Int) : Rat)) = (c : Rat) := by norm_cast
  have h1 : Rat.ceil ((c : Rat) - 1/2) ≤ (c : Int) := by
    rw [Rat.ceil_le_iff, e]; grind
  have h2 : ((c : Int) - 1) < Rat.ceil ((c : Rat) - 1/2) := by
    rw [Rat.lt_ceil_iff]
    have e2 : ((((c : Int) - 1 : Int)) : Rat) = (c : Rat) - 1 := by push_cast; rfl
    rw [e2]; grind
  omega

/-- `num_rows` of the folded arange, `int(max(ceil((stop - start) / step), 0))`, with `stop` at the rational midpoint -/
theorem midpoint_rat (S s : Int) (hs : s ≠ 0) (c : Nat) :
    max (Rat.ceil ((((S : Rat) + ((c : Rat) - 1/2) * (s : Rat)) - (S : Rat)) / (s : Rat))) 0 = (c : Int) := by
  rw [ratio_eq S s hs c, ceil_half c]; omega

end Dask.Lemmas.CreationRat
