/-
Helper lemmas for Model/BlockwiseGate.lean: range-map lists, `reix`, the Prop readings of the decidable
well-formedness predicates (`SOK` for `BW.wfS`, `LOK` for `layoutOK`), `IsLen` of the whole operands.
-/
import DaskArrayModel.Model.BlockwiseGate
import DaskArrayModel.Lemmas.ContractBlock
namespace Dask.BWG
open Dask.Py Dask.ND Dask.Contract

/-- the default array of the `getD`s in the model -/
abbrev dA : Arr Int := ⟨[], fun _ => 0⟩

/-! ### lists -/

theorem getD_rangeMap {α} (n k : Nat) (f : Nat → α) (d : α) (h : k < n) :
    ((List.range n).map f).getD k d = f k := by
  simp [List.getD_eq_getElem?_getD, h]

theorem rangeMap_congr {α} (n : Nat) (f g : Nat → α) (h : ∀ k, k < n → f k = g k) :
    (List.range n).map f = (List.range n).map g := by
  apply List.map_congr_left
  intro k hk
  exact h k (List.mem_range.mp hk)

theorem vadd_rangeMap (r : Nat) (s : Nat → Nat) (i : List Nat) (hi : i.length = r) :
    vadd ((List.range r).map s) i = (List.range r).map (fun k => s k + i.getD k 0) := by
  apply list_ext_getD
  · simp [vadd, hi]
  · intro k hk
    have hk' : k < r := by simpa [vadd, hi] using hk
    rw [vadd_getD k (by simpa using hk') (by omega), getD_rangeMap _ _ _ _ hk', getD_rangeMap _ _ _ _ hk']

theorem getD_mem {α} (l : List α) (k : Nat) (d : α) (h : k < l.length) : l.getD k d ∈ l := by
  rw [getD_eq_getElem _ _ _ h]; exact List.getElem_mem h

theorem mem_getD {α} (l : List α) (x : α) (d : α) (h : x ∈ l) : ∃ k, k < l.length ∧ l.getD k d = x := by
  obtain ⟨i, hi, e⟩ := List.mem_iff_getElem.mp h
  exact ⟨i, hi, by rw [getD_eq_getElem _ _ _ hi]; exact e⟩

theorem lookup_none_of_not_mem {β} (l : List (Nat × β)) (k : Nat) (h : ∀ q ∈ l, q.1 ≠ k) :
    l.lookup k = none := by
  induction l with
  | nil => rfl
  | cons q qs ih =>
    obtain ⟨a, b⟩ := q
    have h1 : (k == a) = false := by
      have := h (a, b) (by simp)
      simp; exact fun e => this e.symm
    rw [List.lookup_cons, h1]
    exact ih (fun q' hq' => h q' (by simp [hq']))

theorem lookup_some_mem {β} (l : List (Nat × β)) (k : Nat) (v : β) (h : l.lookup k = some v) :
    (k, v) ∈ l := by
  induction l with
  | nil => simp at h
  | cons q qs ih =>
    obtain ⟨a, b⟩ := q
    rw [List.lookup_cons] at h
    cases e : (k == a) with
    | true =>
      rw [e] at h
      have hk : k = a := by simpa using e
      have hv : b = v := by simpa using h
      simp [hk, hv]
    | false =>
      rw [e] at h
      simp [ih h]

theorem lookup_isSome_of_mem {β} (l : List (Nat × β)) (q : Nat × β) (h : q ∈ l) :
    (l.lookup q.1).isSome = true := by
  induction l with
  | nil => simp at h
  | cons p ps ih =>
    obtain ⟨a, b⟩ := p
    rw [List.lookup_cons]
    cases e : (q.1 == a) with
    | true => rfl
    | false =>
      rcases List.mem_cons.mp h with e' | e'
      · subst e'; simp at e
      · exact ih e'

theorem lookup_map_snd {β γ} (g : β → γ) (l : List (Nat × β)) (k : Nat) :
    (l.map (fun q => (q.1, g q.2))).lookup k = (l.lookup k).map g := by
  induction l with
  | nil => rfl
  | cons q qs ih =>
    obtain ⟨a, b⟩ := q
    simp only [List.map_cons, List.lookup_cons]
    cases e : (k == a) with
    | true => rfl
    | false => exact ih

theorem idxOf_getD_of_nodup (l : List Nat) (h : l.Nodup) (k : Nat) (hk : k < l.length) :
    l.idxOf (l.getD k 0) = k := by
  rw [getD_eq_getElem _ _ _ hk]
  exact List.Nodup.idxOf_getElem h k hk

theorem getD_idxOf (l : List Nat) (x : Nat) (h : x ∈ l) : l.getD (l.idxOf x) 0 = x := by
  have hk : l.idxOf x < l.length := List.idxOf_lt_length_of_mem h
  rw [getD_eq_getElem _ _ _ hk]
  exact List.getElem_idxOf hk

/-! ### `lenPairs` -/

theorem mem_lenPairs (ops : List Opd) (p : Nat × Nat) :
    p ∈ lenPairs ops ↔ ∃ o ∈ ops, ∃ k, k < o.labels.length ∧ k < o.arr.shape.length ∧
      p = (o.labels.getD k 0, o.arr.shape.getD k 0) := by
  unfold lenPairs
  rw [List.mem_flatMap]
  constructor
  · rintro ⟨o, ho, hp⟩
    obtain ⟨t, h1, h2, e⟩ := mem_zip_getD _ _ 0 0 p hp
    exact ⟨o, ho, t, h1, h2, e⟩
  · rintro ⟨o, ho, k, h1, h2, e⟩
    exact ⟨o, ho, e ▸ getD_mem_zip _ _ 0 0 k h1 h2⟩

/-! ### `reix` -/

theorem reix_shape_length (R : Reix) (N : Nat → Nat) (ind : List Nat) (a : Arr Int) :
    (reix R N ind a).shape.length = ind.length := by simp [reix]

theorem reix_shape_getD (R : Reix) (N : Nat → Nat) (ind : List Nat) (a : Arr Int) (k : Nat)
    (hk : k < ind.length) :
    (reix R N ind a).shape.getD k 0 =
      if R.on N (ind.getD k 0) (a.shape.getD k 0) then R.len (ind.getD k 0) else a.shape.getD k 0 := by
  simp only [reix]; rw [getD_rangeMap _ _ _ _ hk]

/-- the positions `reix` reads are inside the array -/
theorem reix_InB (R : Reix) (N : Nat → Nat) (ind : List Nat) (a : Arr Int)
    (hr : ind.length = a.shape.length)
    (hv : ∀ k, k < ind.length → R.on N (ind.getD k 0) (a.shape.getD k 0) = true →
      ∀ x, x < R.len (ind.getD k 0) → R.map (ind.getD k 0) x < a.shape.getD k 0)
    (j : List Nat) (hj : InB j (reix R N ind a).shape) :
    InB ((List.range ind.length).map (fun k =>
      if R.on N (ind.getD k 0) (a.shape.getD k 0) then R.map (ind.getD k 0) (j.getD k 0) else j.getD k 0))
      a.shape := by
  apply InB.of_getD
  · simp [hr]
  · intro k hk
    have hk' : k < ind.length := by omega
    have hjk := InB.getD_lt hj k (by rw [reix_shape_length]; exact hk')
    rw [reix_shape_getD _ _ _ _ _ hk'] at hjk
    rw [getD_rangeMap _ _ _ _ hk']
    by_cases hon : R.on N (ind.getD k 0) (a.shape.getD k 0) = true
    · rw [if_pos hon] at hjk ⊢
      exact hv k hk' hon _ hjk
    · rw [if_neg hon] at hjk ⊢
      exact hjk

theorem reix_congr (R : Reix) (N : Nat → Nat) (ind : List Nat) (a a' : Arr Int)
    (hr : ind.length = a.shape.length) (hE : Arr.Equiv a a')
    (hv : ∀ k, k < ind.length → R.on N (ind.getD k 0) (a.shape.getD k 0) = true →
      ∀ x, x < R.len (ind.getD k 0) → R.map (ind.getD k 0) x < a.shape.getD k 0) :
    Arr.Equiv (reix R N ind a) (reix R N ind a') := by
  have hs : a'.shape = a.shape := hE.1.symm
  refine ⟨by simp [reix, hs], ?_⟩
  intro j hj
  have hI := reix_InB R N ind a hr hv j hj
  simp only [reix, hs]
  exact hE.2 _ hI

/-! ### Prop readings of the decidable predicates -/

structure SOK (bw : BW) : Prop where
  nodup : bw.outInd.Nodup
  rank : ∀ o ∈ bw.ops, o.labels.length = o.arr.shape.length ∧ o.chunks.length = o.arr.shape.length ∧
    ((o.isArr = true ∧ o.pieceRank = none) ∨ o.ind = none)
  newIn : ∀ q ∈ bw.newAxes, q.1 ∈ bw.outInd ∧ q.2.length = 1 ∧ ∀ p ∈ lenPairs bw.ops, p.1 ≠ q.1
  newNodup : (bw.newAxes.map (·.1)).Nodup
  covered : ∀ l ∈ bw.outInd, (bw.newAxes.lookup l).isSome = true ∨ (l, labLen bw l) ∈ lenPairs bw.ops
  lens : ∀ p ∈ lenPairs bw.ops, p.1 ∈ bw.outInd → p.2 = labLen bw p.1 ∨ p.2 = 1
  noAdj : bw.adjust = []

theorem wfS_iff (bw : BW) : bw.wfS = true ↔ SOK bw := by
  constructor
  · intro h
    simp only [BW.wfS, Bool.and_eq_true, decide_eq_true_eq, List.all_eq_true, Bool.or_eq_true,
      List.any_eq_true, Bool.not_eq_true', List.contains_eq_mem, beq_iff_eq, Option.isNone_iff_eq_none,
      List.isEmpty_iff, Bool.not_eq_eq_eq_not, Bool.not_true, List.any_eq_false] at h
    obtain ⟨⟨⟨⟨⟨⟨h1, h2⟩, h3⟩, h4⟩, h5⟩, h6⟩, h7⟩ := h
    refine ⟨h1, ?_, ?_, h4, ?_, ?_, h7⟩
    · intro o ho
      have := h2 o ho
      exact ⟨this.1.1, this.1.2, this.2⟩
    · intro q hq
      have := h3 q hq
      refine ⟨this.1.1, this.1.2, ?_⟩
      intro p hp e
      exact this.2 p hp e
    · intro l hl
      rcases h5 l hl with h | ⟨p, hp, e1, e2⟩
      · exact Or.inl h
      · right
        have : p = (l, labLen bw l) := by cases p; simp_all
        exact this ▸ hp
    · intro p hp hin
      rcases h6 p hp with (h | h) | h
      · exact absurd hin (by simpa using h)
      · exact Or.inl h
      · exact Or.inr h
  · intro h
    simp only [BW.wfS, Bool.and_eq_true, decide_eq_true_eq, List.all_eq_true, Bool.or_eq_true,
      List.any_eq_true, Bool.not_eq_true', List.contains_eq_mem, beq_iff_eq, Option.isNone_iff_eq_none,
      List.isEmpty_iff, Bool.not_eq_eq_eq_not, Bool.not_true, List.any_eq_false]
    refine ⟨⟨⟨⟨⟨⟨h.nodup, ?_⟩, ?_⟩, h.newNodup⟩, ?_⟩, ?_⟩, h.noAdj⟩
    · intro o ho
      have := h.rank o ho
      exact ⟨⟨this.1, this.2.1⟩, this.2.2⟩
    · intro q hq
      have := h.newIn q hq
      exact ⟨⟨this.1, this.2.1⟩, fun p hp e => this.2.2 p hp e⟩
    · intro l hl
      rcases h.covered l hl with c | c
      · exact Or.inl c
      · exact Or.inr ⟨_, c, rfl, rfl⟩
    · intro p hp
      by_cases hin : p.1 ∈ bw.outInd
      · rcases h.lens p hp hin with c | c
        · exact Or.inl (Or.inr c)
        · exact Or.inr c
      · exact Or.inl (Or.inl (by simpa using hin))

end Dask.BWG
