/-
L0: Python integer / slice / range / bisect primitives (CPython semantics).
Core Lean only (no imports) so the driver links as a native executable.
These definitions are TRUSTED transcriptions of CPython; they are tied to CPython
itself by the correspondence harness (harness/props/C13.py, family `py`).
-/
namespace Dask.Py

/-- Python `a % b` (sign follows the divisor). `b = 0` raises in Python; callers guard. -/
def pyMod (a b : Int) : Int :=
  if b > 0 then a % b else if b < 0 then -((-a) % (-b)) else 0

/-- Python `a // b` (floor). -/
def pyDiv (a b : Int) : Int :=
  if b > 0 then a / b else if b < 0 then (-a) / (-b) else 0

/-- `math.ceil(a / b)` for exact integers, `b ≠ 0` (used where Python computes
`int(math.ceil((1.0*stop - start)/step))`). -/
def ceilDiv (a b : Int) : Int := -(pyDiv (-a) b)

/-- A Python `slice(start, stop, step)`; `none` is Python `None`. -/
structure PySlice where
  start : Option Int
  stop  : Option Int
  step  : Option Int
deriving DecidableEq, Repr, Inhabited

namespace PySlice

/-- `step` with `None → 1`. -/
def stp (s : PySlice) : Int := s.step.getD 1

/-- clamp used by `PySlice_AdjustIndices` for an explicit bound `v`. -/
def adjust (v n : Int) (neg : Bool) : Int :=
  if v < 0 then
    (if v + n < (if neg then -1 else 0) then (if neg then -1 else 0) else v + n)
  else
    (if v > (if neg then n - 1 else n) then (if neg then n - 1 else n) else v)

/-- `s.indices(n)[0]`. -/
def istart (s : PySlice) (n : Int) : Int :=
  match s.start with
  | none   => if s.stp < 0 then n - 1 else 0
  | some v => adjust v n (s.stp < 0)

/-- `s.indices(n)[1]`. -/
def istop (s : PySlice) (n : Int) : Int :=
  match s.stop with
  | none   => if s.stp < 0 then -1 else n
  | some v => adjust v n (s.stp < 0)

end PySlice

/-- `len(range(start, stop, step))`, `step ≠ 0`. -/
def rangeLen (start stop step : Int) : Nat :=
  if step > 0 then
    (if start < stop then ((stop - start - 1) / step + 1).toNat else 0)
  else if step < 0 then
    (if stop < start then ((start - stop - 1) / (-step) + 1).toNat else 0)
  else 0

/-- `list(range(start, stop, step))`. -/
def rangeList (start stop step : Int) : List Int :=
  (List.range (rangeLen start stop step)).map (fun (i : Nat) => start + (i : Int) * step)

/-- Positions selected by `s` on an axis of length `n`: `list(range(*s.indices(n)))`. -/
def sel (s : PySlice) (n : Int) : List Int :=
  rangeList (s.istart n) (s.istop n) s.stp

/-- `bisect.bisect_right(a, x)` on a sorted list: number of entries `≤ x`
(first index whose entry is `> x`). Linear scan, same result as CPython on sorted input. -/
def bisectRight (a : List Int) (x : Int) : Nat :=
  match a with
  | [] => 0
  | y :: ys => if x < y then 0 else bisectRight ys x + 1

/-- `bisect.bisect_left(a, x)`: first index whose entry is `≥ x`. -/
def bisectLeft (a : List Int) (x : Int) : Nat :=
  match a with
  | [] => 0
  | y :: ys => if x ≤ y then 0 else bisectLeft ys x + 1

/-- `cached_cumsum(lengths)` : inclusive running sums. -/
def cumsumFrom (acc : Int) : List Int → List Int
  | [] => []
  | x :: xs => (acc + x) :: cumsumFrom (acc + x) xs

def cumsum (l : List Int) : List Int := cumsumFrom 0 l

def isum : List Int → Int
  | [] => 0
  | x :: xs => x + isum xs

/-- `tlz.partition_all(k, xs)`. -/
def partitionAll {α} (k : Nat) (xs : List α) : List (List α) :=
  if h : k = 0 ∨ xs = [] then [] else
    have : (xs.drop k).length < xs.length := by
      have hk : 0 < k := Nat.pos_of_ne_zero (fun e => h (Or.inl e))
      have hx : 0 < xs.length := List.length_pos_iff.mpr (fun e => h (Or.inr e))
      simp [List.length_drop]; omega
    xs.take k :: partitionAll k (xs.drop k)
termination_by xs.length

end Dask.Py
