/-
Line-protocol helpers for the driver (core Lean only).
Tokens: ints `-3`; None `N`; slices `a:b:c`; int lists `1,2,3` (empty `_`);
lists of lists `1,2;3;_`.
-/
import DaskArrayModel.Py.Basic
namespace Dask.Proto
open Dask.Py

def parseInt? (s : String) : Option Int := s.toInt?

def parseOptInt? (s : String) : Option (Option Int) :=
  if s = "N" then some none else (s.toInt?).map some

def parseSlice? (s : String) : Option PySlice :=
  match s.splitOn ":" with
  | [a, b, c] => do
    let a ← parseOptInt? a
    let b ← parseOptInt? b
    let c ← parseOptInt? c
    pure ⟨a, b, c⟩
  | _ => none

def parseIntList? (s : String) : Option (List Int) :=
  if s = "_" then some [] else (s.splitOn ",").mapM (fun t => t.toInt?)

def parseNatList? (s : String) : Option (List Nat) :=
  if s = "_" then some [] else (s.splitOn ",").mapM (fun t => t.toNat?)

def parseIntLL? (s : String) : Option (List (List Int)) :=
  if s = "-" then some [] else (s.splitOn ";").mapM parseIntList?

def parseNatLL? (s : String) : Option (List (List Nat)) :=
  if s = "-" then some [] else (s.splitOn ";").mapM parseNatList?

def fmtOptInt : Option Int → String
  | none => "N"
  | some v => toString v

def fmtSlice (s : PySlice) : String :=
  fmtOptInt s.start ++ ":" ++ fmtOptInt s.stop ++ ":" ++ fmtOptInt s.step

def fmtIntList (l : List Int) : String :=
  if l.isEmpty then "_" else ",".intercalate (l.map toString)

def fmtNatList (l : List Nat) : String :=
  if l.isEmpty then "_" else ",".intercalate (l.map toString)

def fmtIntLL (l : List (List Int)) : String :=
  if l.isEmpty then "-" else ";".intercalate (l.map fmtIntList)

def fmtNatLL (l : List (List Nat)) : String :=
  if l.isEmpty then "-" else ";".intercalate (l.map fmtNatList)

end Dask.Proto
