import DaskArrayModel.Proto
import DaskArrayModel.Model.Reshape
/-
Line protocol for the reshape planner (`rsh.*`).
  rsh.plan <inshape> <outshape> <inchunks>        -> ok <result_inchunks> <result_outchunks> | err <Class>
  rsh.plan_noexp <inshape> <outshape> <inchunks>  -> same with disallow_dimension_expansion=True
      (a slot still `None` at return prints as `N`)
  rsh.expand <chunks> <factor>                    -> ok <int list> | err <Class>
  rsh.contract <chunks> <factor>                  -> ok <int list> | err <Class>
  rsh.smooth <ileft> <ii> <max_in_chunk> <chunks> -> ok <list of lists> | err <Class>
  rsh.block <inshape> <outshape> <inchunks> <out multi-index>
      -> ok <block number> <flat position inside the block> <input multi-index>   (the blockwise plan's element map)
  rsh.unflat <shape> <k>                          -> ok <int list>
-/
namespace Dask.Drv.Reshape
open Dask.Proto Dask.ND Dask.Reshape

def fmtErr : Err → String
  | .notImplemented => "err NotImplementedError"
  | .typeError => "err TypeError"
  | .indexError => "err IndexError"
  | .valueError => "err ValueError"
  | .zeroDivision => "err ZeroDivisionError"
  | .assertion => "err AssertionError"
  | .fuel => "err fuel"
  | .noneLeft => "err noneLeft"

def fmtSlot : Option Chunks → String
  | none => "N"
  | some c => fmtNatList c

def fmtSlots (r : Slots) : String :=
  if r.isEmpty then "-" else ";".intercalate (r.map fmtSlot)

def fmtPlan : Except Err (Slots × Slots) → String
  | .ok (a, b) => "ok " ++ fmtSlots a ++ " " ++ fmtSlots b
  | .error e => fmtErr e

def fmtChunks : Except Err Chunks → String
  | .ok c => "ok " ++ fmtNatList c
  | .error e => fmtErr e

/-- the element map of the blockwise plan for one output multi-index -/
def blockMap (inshape outshape : List Nat) (inchunks : List Chunks) (i : List Nat) : Except Err String := do
  let (ic, oc) ← plan inshape outshape inchunks
  let b := bidOf oc i
  let k := flatIndex (numblocks oc) b
  let f := flatIndex (blockShape oc b) (localOf oc i)
  let b' := unflat (numblocks ic) k
  let j := vadd (origin ic b') (unflat (blockShape ic b') f)
  pure s!"ok {k} {f} {fmtNatList j}"

def handle (cmd : String) (args : List String) : Option String :=
  match cmd, args with
  | "rsh.plan", [a, b, c] => do
    let a ← parseNatList? a; let b ← parseNatList? b; let c ← parseNatLL? c
    pure (fmtPlan (planRaw a b c false))
  | "rsh.plan_noexp", [a, b, c] => do
    let a ← parseNatList? a; let b ← parseNatList? b; let c ← parseNatLL? c
    pure (fmtPlan (planRaw a b c true))
  | "rsh.expand", [c, f] => do
    let c ← parseNatList? c; let f ← f.toNat?
    pure (fmtChunks (expandTuple c f))
  | "rsh.contract", [c, f] => do
    let c ← parseNatList? c; let f ← f.toNat?
    pure (fmtChunks (contractTuple c f))
  | "rsh.smooth", [a, b, m, c] => do
    let a ← parseInt? a; let b ← parseInt? b; let m ← m.toNat?; let c ← parseNatLL? c
    match smooth (c.length + 1) a b m (c.map some) with
    | .ok r => pure ("ok " ++ fmtSlots r)
    | .error e => pure (fmtErr e)
  | "rsh.block", [a, b, c, i] => do
    let a ← parseNatList? a; let b ← parseNatList? b; let c ← parseNatLL? c; let i ← parseNatList? i
    match blockMap a b c i with
    | .ok s => pure s
    | .error e => pure (fmtErr e)
  | "rsh.unflat", [s, k] => do
    let s ← parseNatList? s; let k ← k.toNat?
    pure ("ok " ++ fmtNatList (unflat s k))
  | _, _ => none

end Dask.Drv.Reshape
