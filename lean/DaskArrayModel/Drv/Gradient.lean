import DaskArrayModel.Proto
import DaskArrayModel.Model.Gradient
import DaskArrayModel.Model.Diff
/-!
Line protocol for `gradient` / `diff` (`grd.*`), Model/Gradient.lean and Model/Diff.lean.

  grd.guard eo <chunks>                 -> ok | err ValueError        the minimum-chunk check of `gradient`
  grd.coords <chunks>                   -> ok <start,stop;…> | err IndexError     `array_locs`, one pair per block
  grd.inputs <chunks> ncoords           -> ok <value positions per block> <coordinate positions per block>
        what every block's `np.gradient` call receives when `f = arange(sum chunks)` and `coord = arange(ncoords)`
        (a block whose coordinate slice cannot be taken is `_`)
  grd.gradient eo <chunks> <f> <coords> -> ok <blocks of fractions n/d> | err ValueError
        the trimmed blocks of `gradient(f, coords, edge_order=eo)` over ℚ (`ValueError`: the chunk check, or a
        block whose coordinate slice has the wrong length)
  grd.diff n <xs> <prepend|N> <append|N> -> ok <list> | err ValueError
-/
namespace Dask.Drv.Gradient
open Dask.Py Dask.Proto Dask.OverlapSlice Dask.OverlapPipe Dask.Gradient

def fmtRat (r : Rat) : String := s!"{r.num}/{r.den}"

def fmtRatList (l : List Rat) : String :=
  if l.isEmpty then "_" else ",".intercalate (l.map fmtRat)

def fmtRatLL (l : List (List Rat)) : String :=
  if l.isEmpty then "-" else ";".intercalate (l.map fmtRatList)

def parseOptIntList? (s : String) : Option (Option (List Int)) :=
  if s = "N" then some Option.none else (parseIntList? s).map some

def handle (cmd : String) (args : List String) : Option String :=
  match cmd, args with
  | "grd.guard", [eo, cs] => do
    let eo ← parseInt? eo; let cs ← parseIntList? cs
    pure (if chunkGuard eo cs then "ok" else "err ValueError")
  | "grd.coords", [cs] => do
    let cs ← parseIntList? cs
    match arrayLocs cs with
    | Option.none => pure "err IndexError"
    | some (st, sp) => pure ("ok " ++ fmtIntLL (List.zipWith (fun a b => [a, b]) st sp))
  | "grd.inputs", [cs, nc] => do
    let cs ← parseNatList? cs; let nc ← nc.toNat?
    let f : List Int := (List.range cs.sum).map Int.ofNat
    let co : List Int := (List.range nc).map Int.ofNat
    let vals := (List.range cs.length).map (blockValues cs f)
    let cos := (List.range cs.length).map (fun b => (coordSlice cs co b).getD [])
    pure ("ok " ++ fmtIntLL vals ++ " " ++ fmtIntLL cos)
  | "grd.gradient", [eo, cs, f, co] => do
    let eo ← eo.toNat?; let cs ← parseNatList? cs; let f ← parseIntList? f; let co ← parseIntList? co
    if !chunkGuard eo (cs.map Int.ofNat) then pure "err ValueError"
    else
      let fr : List Rat := f.map (fun (v : Int) => (v : Rat))
      let cr : List Rat := co.map (fun (v : Int) => (v : Rat))
      match gradientCoordBlocks cs (npGradient eo) fr cr with
      | Option.none => pure "err ValueError"
      | some blks => pure ("ok " ++ fmtRatLL blks)
  | "grd.diff", [n, xs, pre, app] => do
    let n ← parseInt? n; let xs ← parseIntList? xs
    let pre ← parseOptIntList? pre; let app ← parseOptIntList? app
    match Dask.Diff.diff n xs pre app with
    | Option.none => pure "err ValueError"
    | some r => pure ("ok " ++ fmtIntList r)
  | _, _ => Option.none

end Dask.Drv.Gradient
