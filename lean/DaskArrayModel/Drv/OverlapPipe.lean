import DaskArrayModel.Proto
import DaskArrayModel.Model.OverlapPipe
import DaskArrayModel.Model.Window
import DaskArrayModel.Drv.OverlapSlice
/-!
Line protocol for the map_overlap pipeline (`ovp.*`), Model/OverlapPipe.lean.

Tokens: kind = `none|periodic|reflect|nearest|constant`; `c` = the constant fill (ignored for the other kinds);
blocks = list of int lists `1,2;3;_` (`-` = no block); chunk lists `3,4,5`.

  ovp.boundaries kind dl dr c <blocks>        -> ok <blocks>               `boundaries` on one axis
  ovp.internal dl dr <blocks>                 -> ok <blocks> <advertised chunks>   `overlap_internal` on one axis
  ovp.overlap kind dl dr c <blocks>           -> ok <blocks>               boundaries → overlap_internal → chunk.trim
  ovp.rechunk kind dl dr <chunks>             -> ok <chunks> | err ValueError      `_get_overlap_rechunked_chunks`
  ovp.trim kind dl dr <blocks>                -> ok <blocks> <advertised chunks>   `trim_internal`
  ovp.pipeline kind dl dr c trim <chunks> <x> -> ok <blocks> | err NotImplementedError
        `map_overlap(wsum, depth=(dl,dr), boundary, trim=…)` on `x` cut along `chunks` (the chunks after the rechunk),
        block by block, for the edge-replicating weighted moving sum `wsum` of Drv/OverlapSlice.lean
  ovp.src kind dl dr c <chunks> k             -> ok <tokens>   the index map `axisSrc` of block `k`, entry by entry over
        the extended block (`q = dl … dl + extLen - 1`): `i<j>` element j, `f` the fill, `a` absent
  ovp.ndblock <kinds> <depths l.r,…> <consts> <chunksLL> <K> trim
        -> ok <shape> <values>   the extended block `K` of an n-D `overlap` on the position-encoding array
        `A[j] = Σ j_a · stride_a` (C order), read through the product of the per-axis index maps (`N` = absent);
        `trim=1`: after `_trim` (per-axis fronts/backs of `trimFront`/`trimBack`)
-/
namespace Dask.Drv.OverlapPipe
open Dask.Py Dask.Proto Dask.OverlapSlice Dask.OverlapPipe
open Dask.Drv.OverlapSlice (parseKind? parseKinds? parseBool? mkBoundary wsum)

def parseNatDepth? (s : String) : Option (Nat × Nat) :=
  match s.splitOn "." with
  | [l, r] => do
    let l ← l.toNat?
    let r ← r.toNat?
    pure (l, r)
  | _ => Option.none

def parseNatDepths? (s : String) : Option (List (Nat × Nat)) :=
  if s = "_" then some [] else (s.splitOn ",").mapM parseNatDepth?

def fmtSrc : Src Int → String
  | .idx j => s!"i{j}"
  | .absent => "a"
  | .fill _ => "f"
  | .out => "o"

def fmtOpt (l : List (Option Int)) : String :=
  if l.isEmpty then "_" else ",".intercalate (l.map fmtOptInt)

/-- all multi-indices of a box of the given extents, C order -/
def boxIdx : List Nat → List (List Nat)
  | [] => [[]]
  | n :: ns => (List.range n).flatMap (fun i => (boxIdx ns).map (i :: ·))

def strides : List Nat → List Nat
  | [] => []
  | _ :: ns => ns.foldl (· * ·) 1 :: strides ns

def encode (shape js : List Nat) : Int :=
  ((List.zipWith (· * ·) js (strides shape)).foldl (· + ·) 0 : Nat)

def handle (cmd : String) (args : List String) : Option String :=
  match cmd, args with
  | "ovp.boundaries", [k, dl, dr, c, blks] => do
    let k ← parseKind? k; let dl ← dl.toNat?; let dr ← dr.toNat?; let c ← parseInt? c
    let blks ← parseIntLL? blks
    pure ("ok " ++ fmtIntLL (boundaryBlocks (mkBoundary k c) dl dr blks))
  | "ovp.internal", [dl, dr, blks] => do
    let dl ← dl.toNat?; let dr ← dr.toNat?; let blks ← parseIntLL? blks
    pure ("ok " ++ fmtIntLL (overlapInternal dl dr blks) ++ " " ++
      fmtNatList (internalChunks dl dr (blks.map List.length)))
  | "ovp.overlap", [k, dl, dr, c, blks] => do
    let k ← parseKind? k; let dl ← dl.toNat?; let dr ← dr.toNat?; let c ← parseInt? c
    let blks ← parseIntLL? blks
    pure ("ok " ++ fmtIntLL (overlapBlocks (mkBoundary k c) dl dr blks))
  | "ovp.rechunk", [k, dl, dr, cs] => do
    let k ← parseKind? k; let dl ← parseInt? dl; let dr ← parseInt? dr; let cs ← parseIntList? cs
    match Dask.Window.overlapRechunkedChunks cs dl dr (k == .none) with
    | some out => pure ("ok " ++ fmtIntList out)
    | Option.none => pure "err ValueError"
  | "ovp.trim", [k, dl, dr, blks] => do
    let k ← parseKind? k; let dl ← dl.toNat?; let dr ← dr.toNat?; let blks ← parseIntLL? blks
    pure ("ok " ++ fmtIntLL (trimInternal k dl dr blks) ++ " " ++
      fmtNatList (trimChunks k dl dr (blks.map List.length)))
  | "ovp.pipeline", [k, dl, dr, c, tr, cs, x] => do
    let k ← parseKind? k; let dl ← dl.toNat?; let dr ← dr.toNat?; let c ← parseInt? c
    let tr ← parseBool? tr; let cs ← parseNatList? cs; let x ← parseIntList? x
    let b := mkBoundary k c
    let f := blockFn (stencil wsum dl dr) dl dr
    if dl ≠ dr ∧ k ≠ .none then pure "err NotImplementedError"
    else if tr then pure ("ok " ++ fmtIntLL (pipelineBlocks b dl dr cs f x))
    else pure ("ok " ++ fmtIntLL ((overlapBlocks b dl dr (cut cs x)).map f))
  | "ovp.src", [k, dl, dr, c, cs, kk] => do
    let k ← parseKind? k; let dl ← dl.toNat?; let dr ← dr.toNat?; let c ← parseInt? c
    let cs ← parseNatList? cs; let kk ← kk.toNat?
    let b := mkBoundary k c
    let toks := (List.range (extLen k dl dr cs kk)).map (fun e => fmtSrc (axisSrc b dl dr cs cs.sum kk (dl + e)))
    pure ("ok " ++ (if toks.isEmpty then "_" else ",".intercalate toks))
  | "ovp.ndblock", [kinds, depths, consts, css, kk, tr] => do
    let kinds ← parseKinds? kinds; let depths ← parseNatDepths? depths; let consts ← parseIntList? consts
    let css ← parseNatLL? css; let kk ← parseNatList? kk; let tr ← parseBool? tr
    let nd := css.length
    if kinds.length ≠ nd ∨ depths.length ≠ nd ∨ consts.length ≠ nd ∨ kk.length ≠ nd then Option.none
    else
      let ax := fun (a : Nat) =>
        let bk := kinds.getD a .none
        let d := depths.getD a (0, 0)
        let cs := css.getD a []
        let k := kk.getD a 0
        (mkBoundary bk (consts.getD a 0), bk, d.1, d.2, cs, k)
      -- per axis: the range of entries `q` of the marker-extended block that are kept
      let ranges := (List.range nd).map (fun a =>
        let (_, bk, dl, dr, cs, k) := ax a
        let len := extLen bk dl dr cs k
        if tr then
          let front := trimFront bk dl k
          let back := match trimBack bk dr k cs.length with | Option.none => 0 | some r => r
          (dl + front, (len - back) - front)
        else (dl, len))
      let shapeA := css.map List.sum
      let srcs := (List.range nd).map (fun a =>
        let (b, _, dl, dr, cs, k) := ax a
        axisSrc b dl dr cs cs.sum k)
      let vals := (boxIdx (ranges.map (·.2))).map (fun js =>
        resolveND srcs (fun src => some (encode shapeA src)) (List.zipWith (fun j r => r.1 + j) js ranges))
      pure ("ok " ++ fmtNatList (ranges.map (·.2)) ++ " " ++ fmtOpt vals)
  | _, _ => Option.none

end Dask.Drv.OverlapPipe
