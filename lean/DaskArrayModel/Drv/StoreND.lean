/-
Driver commands `stn.*` (n-d store: per-block write index + selection shape, final target, several
(source, target, region) triples; npy stack: files + info + read back).
Tokens as in Drv/SourceIO.lean: region `N` (None) / `_` (empty tuple) / entries joined by `|`
(int or `a:b:c`); chunks as list of lists `2,3;1,1` (`-` for a 0-d source); shapes as int lists.
-/
import DaskArrayModel.Proto
import DaskArrayModel.Model.StoreND
import DaskArrayModel.Model.NpyStack
import DaskArrayModel.Drv.SourceIO
namespace Dask.Drv.StoreND
open Dask.Py Dask.Py.PySlice Dask.Proto Dask.Slicing Dask.SourceIO Dask.StoreND Dask.NpyStack
open Dask.Drv.SourceIO (splitBar parseRIdx? fmtRIdx fmtErr)

def parseRegion? (r : String) : Option (Option (List RIdx)) :=
  if r = "N" then some none else ((splitBar r).mapM parseRIdx?).map some

def fmtKey (l : List RIdx) : String := if l.isEmpty then "_" else "|".intercalate (l.map fmtRIdx)

/-- source values: `base + C-order position` -/
def arangeSrc (shape : List Int) (base : Int) : Pos → Int := fun p => base + ravel shape p

def fmtVals (l : List Int) : String := fmtIntList l

/-- per block: `bid>key>selection shape`, `bid>skip` for a block the size guard skips -/
def blockRecord (tshape : List Int) (region : Option (List RIdx)) (chunks : List (List Int))
    (bid : List Nat) : Except Err String :=
  let index := blockIndex chunks bid
  match storeIndex region index with
  | .error e => .error e
  | .ok widx =>
    let xshape := index.map (fun p => p.2 - p.1)
    if iprod xshape = 0 then .ok (fmtNatList bid ++ ">skip")
    else
      match indexSel tshape widx with
      | .error e => .error e
      | .ok asel =>
        if bcastOk xshape (selShape asel) then
          .ok (fmtNatList bid ++ ">" ++ fmtKey widx ++ ">" ++ fmtIntList (selShape asel))
        else .error .valueError

structure JobSpec where
  tid : Nat
  tshape : List Int
  region : Option (List RIdx)
  chunks : List (List Int)
  base : Int

def parseJob? (s : String) : Option JobSpec :=
  match s.splitOn "/" with
  | [tid, ts, r, c, b] => do
    let tid ← tid.toNat?
    let ts ← parseIntList? ts
    let r ← parseRegion? r
    let c ← parseIntLL? c
    let b ← parseInt? b
    pure ⟨tid, ts, r, c, b⟩
  | _ => none

def toJob (j : JobSpec) : Job := ⟨j.tid, j.tshape, j.region, j.chunks, arangeSrc (srcShape j.chunks) j.base⟩

def dedupTids : List JobSpec → List (Nat × List Int) → List (Nat × List Int)
  | [], acc => acc.reverse
  | j :: js, acc => if acc.any (fun p => p.1 == j.tid) then dedupTids js acc else dedupTids js ((j.tid, j.tshape) :: acc)

def fmtFile (a : Arr) : String :=
  fmtIntList a.shape ++ "=" ++ fmtVals ((allPos a.shape).map a.fn)

def handle (cmd : String) (args : List String) : Option String :=
  match cmd, args with
  | "stn.writes", [ts, r, c] => do
    let ts ← parseIntList? ts; let r ← parseRegion? r; let c ← parseIntLL? c
    match mapE (blockRecord ts r c) (blockIds c) with
    | .error e => pure (fmtErr e)
    | .ok l => pure ("ok " ++ " ".intercalate l)
  | "stn.eval", [ts, r, c, b, ord] => do
    let ts ← parseIntList? ts; let r ← parseRegion? r; let c ← parseIntLL? c; let b ← parseInt? b
    let order := if ord = "r" then (blockIds c).reverse else blockIds c
    match storeEvalOrder ts r c (arangeSrc (srcShape c) b) order (fun _ => -1) with
    | .error e => pure (fmtErr e)
    | .ok t => pure ("ok " ++ fmtVals ((allPos ts).map t))
  | "stn.multi", ord :: jobs => do
    let specs ← jobs.mapM parseJob?
    let js := specs.map toJob
    let sched := if ord = "r" then (allTasks js).reverse else allTasks js
    match storeMultiOrder js sched (fun _ => -1) with
    | .error e => pure (fmtErr e)
    | .ok h =>
      pure ("ok " ++ " ".intercalate ((dedupTids specs []).map (fun p =>
        toString p.1 ++ "=" ++ fmtVals ((allPos p.2).map (fun q => h (p.1, q))))))
  | "stn.stack", [c, a] => do
    let c ← parseIntLL? c; let a ← parseInt? a
    let shape := srcShape c
    let x : Pos → Int := fun p => ravel shape p
    let (files, info) := toStack a c x
    let head := "ok F " ++ "+".intercalate (files.map fmtFile) ++ " I " ++ fmtIntLL info.chunks ++ " " ++ toString info.axis
    match fromStack files info with
    | .error e => pure (head ++ " R " ++ fmtErr e)
    | .ok (ch, f) =>
      pure (head ++ " R " ++ fmtIntLL ch ++ " " ++
        (let ps := allPos (srcShape ch)
         if ps.isEmpty then "_" else ",".intercalate (ps.map (fun q => match f q with | some v => toString v | none => "?"))))
  | _, _ => none

end Dask.Drv.StoreND
