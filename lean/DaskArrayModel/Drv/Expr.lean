/-
Line-protocol handler for the expression model (family `ex`).

A program is ONE token: steps separated by `;`, each step `op~arg~arg…`; operands are referenced
by 0-based step number; the result is the last step.

  src~<shape>~<chunks>~<mul>~<off>~<mod>   data = ((arange(size)*mul+off) % mod).reshape(shape)
  map~<fn>~<k>            fn ∈ neg | abs | affine (x*2+1) | mod7 (Python %) | sq
  zip~<fn>~<a>~<b>        fn ∈ add | sub | mul | maximum | where_gt (a if a>b else b)
  slice~<k>~<idx>         items separated by `|`: `3` integer, `a:b:c` slice (N = None);
                          fewer items than axes ⇒ padded with full slices (as `x[idx]` does)
  transpose~<k>~<perm>
  rechunk~<k>~<chunks>
  concat~<axis>~<k1,k2,…> (axis may be negative; n-ary = left-nested binary `Expr.concat`)
  reduce~<sum|max|min>~<k>~<axes or N>~<keepdims 0|1>~<split_every or N>
                          = nested single-axis `Expr.reduce` (keepdims) over the axes, then `squeeze`
                          of those axes when keepdims = 0; per-axis fan-in = max(iroot(split_every, #axes), 2),
                          split_every N = 4 (the dask default)
  flip~<k>~<axis>         = the slice `[:, …, ::-1, …]`
  expand~<k>~<axis>       `expand_dims` (axis may be negative, relative to the result rank)
  squeeze~<k>~<axis>      one axis
  broadcast~<k>~<shape>~<chunks>
  zip with operands of different shape: each operand whose shape differs from the NumPy broadcast
                          shape is wrapped in `broadcastTo` (chunks of the other operand on the broadcast axes)
  NOT modelled (`err unsupported`): the implicit chunk unification of the real API (`zip` / `concat`
                          operands whose chunks differ on a shared axis — insert an explicit `rechunk` step),
                          `concat` with a size-0 operand (dropped by `da.concatenate`)
  cumsum~<k>~<axis>       sequential `CumReduction`
  mapblocks~<fn>~<k>      fn ∈ bcumsum (np.cumsum(b, axis=-1)) | bflip0 (b[::-1]) | bsubfirst (b - b.flat[0])
  (None/newaxis, anything else: `err unsupported`)

Encodings: int lists `1,2,3` (empty `_`); chunks `2,2/3,2` (`/` between axes, empty `-`).

Commands
  ex.wf <prog>          → `ok 1` | `ok 0`
  ex.shape <prog>       → `ok <shape>`
  ex.chunks <prog>      → `ok <chunks>`
  ex.eval <prog>        → `ok <shape> <flat data, C order>`      (NumPy meaning `den`)
  ex.compute <prog>     → `ok <shape> <flat data>`               (assembled `blockDen`s)
  ex.block <prog> <bid> → `ok <shape> <flat data>`               (`blockDen` of block `bid`)
  ex.nblocks <prog>     → `ok <numblocks>`
Errors: `err unsupported` (unknown op / item), `err illformed` (not `WF`, bad reference, bad block id).
-/
import DaskArrayModel.Proto
import DaskArrayModel.Model.Expr
namespace Dask.Drv.Expr
open Dask.Py Dask.Proto Dask.ND

inductive PErr | unsupported | illformed

def fmtPErr : PErr → String
  | .unsupported => "err unsupported"
  | .illformed => "err illformed"

def parseLayout? (s : String) : Option Layout :=
  if s = "-" then some [] else (s.splitOn "/").mapM parseNatList?

def fmtLayout (l : Layout) : String :=
  if l.isEmpty then "-" else "/".intercalate (l.map fmtNatList)

def unOps : List String := ["neg", "abs", "affine", "mod7", "sq"]
def binOps : List String := ["add", "sub", "mul", "maximum", "where_gt"]

def unFn : Nat → Int → Int
  | 0, x => -x
  | 1, x => if x < 0 then -x else x
  | 2, x => x * 2 + 1
  | 3, x => pyMod x 7
  | 4, x => x * x
  | _, x => x

def binFn : Nat → Int → Int → Int
  | 0, x, y => x + y
  | 1, x, y => x - y
  | 2, x, y => x * y
  | 3, x, y => if x < y then y else x
  | 4, x, y => if x > y then x else y
  | _, x, _ => x

def blkOps : List String := ["bcumsum", "bflip0", "bsubfirst"]

/-- block functions for `map_blocks`: `np.cumsum(b, axis=-1)` / `b[::-1]` / `b - b.flat[0]` (each
the identity on rank-0 or empty blocks where the NumPy expression is) -/
def blkFn : Nat → Arr Int → Arr Int
  | 0, a =>
    match a.shape.length with
    | 0 => a
    | r + 1 => ⟨a.shape, fun i =>
        Dask.Reduce.fold1 (· + ·) 0 ((List.range (i.getD r 0 + 1)).map (fun t => a.get (i.set r t)))⟩
  | 1, a =>
    match a.shape with
    | [] => a
    | n :: _ => ⟨a.shape, fun i => a.get (i.set 0 (n - 1 - i.getD 0 0))⟩
  | 2, a => ⟨a.shape, fun i => a.get i - a.get (a.shape.map (fun _ => 0))⟩
  | _, a => a

structure SrcSpec where
  shape : List Nat
  mul : Int
  off : Int
  md : Int

def srcArr (s : SrcSpec) : Arr Int :=
  ⟨s.shape, fun i => pyMod ((flatIndex s.shape i : Int) * s.mul + s.off) s.md⟩

def parseIx? (s : String) : Except PErr Ix :=
  if s = "None" then .error .unsupported else
  match parseInt? s with
  | some i => .ok (.int i)
  | none =>
    match parseSlice? s with
    | some sl => .ok (.slc sl)
    | none => .error .unsupported

/-- NumPy broadcast of two shapes / chunk layouts (aligned at the right).
`.error .illformed`: shapes do not broadcast; `.error .unsupported`: the operands would need the
implicit chunk unification of the real API (`unify_chunks`), which is not modelled — insert an
explicit `rechunk` step. -/
def bcastLayouts (sa sb : List Nat) (ca cb : Layout) : Except PErr (List Nat × Layout) :=
  let r := max sa.length sb.length
  let pa := List.replicate (r - sa.length) 1 ++ sa
  let pb := List.replicate (r - sb.length) 1 ++ sb
  let qa := List.replicate (r - ca.length) [1] ++ ca
  let qb := List.replicate (r - cb.length) [1] ++ cb
  let rec go : List Nat → List Nat → Layout → Layout → Except PErr (List Nat × Layout)
    | [], [], [], [] => .ok ([], [])
    | x :: xs, y :: ys, c :: cs, d :: ds =>
      match go xs ys cs ds with
      | .error e => .error e
      | .ok (sh, l) =>
        if x = y then
          (if c = d then .ok (x :: sh, c :: l) else .error .unsupported)
        else if x = 1 then (if c = [1] then .ok (y :: sh, d :: l) else .error .unsupported)
        else if y = 1 then (if d = [1] then .ok (x :: sh, c :: l) else .error .unsupported)
        else .error .illformed
    | _, _, _, _ => .error .illformed
  go pa pb qa qb

def normAxis (axis : Int) (rank : Nat) : Except PErr Nat :=
  let a := if axis < 0 then axis + rank else axis
  if a < 0 then .error .illformed else .ok a.toNat

def ofOpt {α} (o : Option α) (e : PErr) : Except PErr α :=
  match o with
  | some a => .ok a
  | none => .error e

/-- parse one step given the expressions of the previous steps -/
def parseStep (steps : Array Expr) (step : String) :
    Except PErr (Expr × Option SrcSpec) := do
  let ref (s : String) : Except PErr Expr := do
    let k ← ofOpt s.toNat? .illformed
    ofOpt steps[k]? .illformed
  match step.splitOn "~" with
  | ["src", sh, ch, mul, off, md] =>
    let sh ← ofOpt (parseNatList? sh) .illformed
    let ch ← ofOpt (parseLayout? ch) .illformed
    let mul ← ofOpt (parseInt? mul) .illformed
    let off ← ofOpt (parseInt? off) .illformed
    let md ← ofOpt (parseInt? md) .illformed
    if md ≤ 0 then .error .illformed else
    pure (.src steps.size sh ch, some ⟨sh, mul, off, md⟩)
  | ["map", fn, k] =>
    let f ← ofOpt (unOps.idxOf? fn) .unsupported
    let e ← ref k
    pure (.map f e, none)
  | ["zip", fn, a, b] =>
    let f ← ofOpt (binOps.idxOf? fn) .unsupported
    let a ← ref a
    let b ← ref b
    if shape a = shape b ∧ chunks a = chunks b then pure (.zip f a b, none) else
    let (sh, l) ← bcastLayouts (shape a) (shape b) (chunks a) (chunks b)
    let a' := if shape a = sh ∧ chunks a = l then a else .broadcastTo a sh l
    let b' := if shape b = sh ∧ chunks b = l then b else .broadcastTo b sh l
    pure (.zip f a' b', none)
  | ["slice", k, idx] =>
    let e ← ref k
    let items ← (if idx = "_" then pure [] else (idx.splitOn "|").mapM parseIx?)
    let rank := (shape e).length
    let items := items ++ List.replicate (rank - items.length) colonIx
    pure (.slice e items, none)
  | ["transpose", k, perm] =>
    let e ← ref k
    let perm ← ofOpt (parseNatList? perm) .illformed
    pure (.transpose e perm, none)
  | ["rechunk", k, ch] =>
    let e ← ref k
    let ch ← ofOpt (parseLayout? ch) .illformed
    pure (.rechunk e ch, none)
  | ["concat", axis, ks] =>
    let axis ← ofOpt (parseInt? axis) .illformed
    let ks ← ofOpt (parseNatList? ks) .illformed
    let es ← ks.mapM (fun k => ofOpt steps[k]? .illformed)
    match es with
    | [] => .error .illformed
    | e :: _ =>
      let ax ← normAxis axis (shape e).length
      -- `da.concatenate` drops size-0 operands and unifies the off-axis chunks before it builds
      -- the `Concatenate` node: neither is modelled
      if es.any (fun x => (shape x).any (· == 0)) then .error .unsupported else
      if es.any (fun x => decide ((shape x).set ax 0 = (shape e).set ax 0) &&
          !decide ((chunks x).set ax [] = (chunks e).set ax [])) then .error .unsupported else
      let r ← ofOpt (Expr.concatN es ax) .illformed
      pure (r, none)
  | ["reduce", fn, k, axes, keep, se] =>
    let r ← ofOpt (match fn with | "sum" => some Red.sum | "max" => some Red.max | "min" => some Red.min | _ => none)
      .unsupported
    let e ← ref k
    let rank := (shape e).length
    let axes ← (if axes = "N" then pure (List.range rank) else do
      let l ← ofOpt (parseIntList? axes) .illformed
      l.mapM (fun a => normAxis a rank))
    let keep ← ofOpt (match keep with | "0" => some false | "1" => some true | _ => none) .illformed
    let se ← (if se = "N" then pure 4 else ofOpt se.toNat? .illformed)
    if !(decide axes.Nodup) then .error .illformed else
    let kk := max (Dask.Reduce.iroot se axes.length) 2
    let red := Expr.reduceN r e axes kk
    let sorted := (axes.toArray.qsort (fun a b => a > b)).toList
    pure (if keep then red else Expr.squeezeN red sorted, none)
  | ["flip", k, axis] =>
    let e ← ref k
    let axis ← ofOpt (parseInt? axis) .illformed
    let rank := (shape e).length
    let ax ← normAxis axis rank
    if ax ≥ rank then .error .illformed else
    pure (Expr.flip e rank ax, none)
  | ["expand", k, axis] =>
    let e ← ref k
    let axis ← ofOpt (parseInt? axis) .illformed
    let ax ← normAxis axis ((shape e).length + 1)
    pure (.expandDims e ax, none)
  | ["squeeze", k, axis] =>
    let e ← ref k
    let axis ← ofOpt (parseInt? axis) .illformed
    let ax ← normAxis axis (shape e).length
    pure (.squeeze e ax, none)
  | ["mapblocks", fn, k] =>
    let f ← ofOpt (blkOps.idxOf? fn) .unsupported
    let e ← ref k
    pure (.mapBlocks f e, none)
  | ["cumsum", k, axis] =>
    let e ← ref k
    let axis ← ofOpt (parseInt? axis) .illformed
    let ax ← normAxis axis (shape e).length
    pure (.cumsum e ax, none)
  | ["broadcast", k, sh, ch] =>
    let e ← ref k
    let sh ← ofOpt (parseNatList? sh) .illformed
    let ch ← ofOpt (parseLayout? ch) .illformed
    pure (.broadcastTo e sh ch, none)
  | _ => .error .unsupported

structure Prog where
  expr : Expr
  env : Env

def parseProg (prog : String) : Except PErr Prog := do
  let mut steps : Array Expr := #[]
  let mut srcs : Array (Nat × SrcSpec) := #[]
  for st in prog.splitOn ";" do
    let (e, s) ← parseStep steps st
    match s with
    | some sp => srcs := srcs.push (steps.size, sp)
    | none => pure ()
    steps := steps.push e
  match steps.back? with
  | none => .error .illformed
  | some e =>
    let table := srcs
    let env : Env :=
      { src := fun id =>
          match table.find? (fun p => p.1 == id) with
          | some p => srcArr p.2
          | none => ⟨[], fun _ => 0⟩
        un := unFn
        bin := binFn
        blk := blkFn }
    pure ⟨e, env⟩

def fmtArr (a : Arr Int) : String :=
  "ok " ++ fmtNatList a.shape ++ " " ++ fmtIntList a.toList

def withProg (prog : String) (needWF : Bool) (k : Prog → String) : String :=
  match parseProg prog with
  | .error e => fmtPErr e
  | .ok p => if needWF && !wf p.expr then fmtPErr .illformed else k p

def handle (cmd : String) (args : List String) : Option String :=
  match cmd, args with
  | "ex.wf", [prog] =>
    some (match parseProg prog with
      | .error .unsupported => fmtPErr .unsupported
      | .error .illformed => "ok 0"
      | .ok p => if wf p.expr then "ok 1" else "ok 0")
  | "ex.shape", [prog] => some (withProg prog true (fun p => "ok " ++ fmtNatList (shape p.expr)))
  | "ex.chunks", [prog] => some (withProg prog true (fun p => "ok " ++ fmtLayout (chunks p.expr)))
  | "ex.nblocks", [prog] =>
    some (withProg prog true (fun p => "ok " ++ fmtNatList (numblocks (chunks p.expr))))
  | "ex.eval", [prog] => some (withProg prog true (fun p => fmtArr (den p.env p.expr)))
  | "ex.compute", [prog] => some (withProg prog true (fun p => fmtArr (compute p.env p.expr)))
  | "ex.block", [prog, bid] =>
    some (withProg prog true (fun p =>
      match parseNatList? bid with
      | none => fmtPErr .illformed
      | some b =>
        if decide (validBid (chunks p.expr) b) then fmtArr (blockDen p.env p.expr b)
        else fmtPErr .illformed))
  | _, _ => none

end Dask.Drv.Expr
