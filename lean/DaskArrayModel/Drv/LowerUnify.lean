/-
Line-protocol handler for the elemwise-lowering model (family `lwu`, Model/LowerUnify.lean).

Encodings as in the `ex` family: int lists `1,2,3` (empty `_`); chunk layouts `2,2/3,2` (`/` between axes,
rank 0 = `-`); the oracle `pre` (layouts by index label, read under policy `auto` only) in the same layout
encoding; a source is `shape~chunks~mul~off~mod` (data = ((arange(size)*mul+off) % mod).reshape(shape)).

  lwu.targets <policy> <limit|N> <pre> <itemsizes> <chunks> <chunks> …
        -> ok <target chunks of operand 0> <… of operand 1> … out=<chunks of the elemwise result>
           | err ValueError | err Oracle | err <Class>
     the per-operand result of `unify_chunks_expr` for an `Elemwise` over these operands (any number)
  lwu.lower <policy> <limit|N> <pre> <ia> <ib> <fn> <srcA> <srcB>
        -> ok wf=<0|1> a=<chunks> b=<chunks> out=<chunks> eq=<0|1> zip=<0|1|N> <shape> <flat data>
     `lowerZipB` on the two sources: chunks of the (possibly rechunked) operands and of the result, whether the
     blocks computed after lowering assemble to the NumPy meaning, the computed data; `zip` = (equal shapes
     only) `lowerZip` gives a well-formed `Expr.zip` with the same chunks and the same computed data
  lwu.tree <policy> <limit|N> <prog>
        -> ok wf=<0|1> chunks=<chunks> eq=<0|1> den=<0|1> <shape> <flat data>
     `prog` = steps separated by `;`, operands referenced by step number, the result is the last step:
       src~<shape>~<chunks>~<mul>~<off>~<mod> | zipu~<fn>~<ia>~<ib>~<pre>~<a>~<b> | map~<fn>~<k> |
       transpose~<k>~<perm> | rechunk~<k>~<chunks>
     `wf` = `wfU`; `eq` = blocks of the lowered tree assemble to its meaning; `den` = that meaning is the
     NumPy meaning `denU` of the un-lowered tree
-/
import DaskArrayModel.Proto
import DaskArrayModel.Drv.Unify
import DaskArrayModel.Drv.Expr
import DaskArrayModel.Model.LowerUnify
namespace Dask.Drv.LowerUnify
open Dask.Py Dask.Proto Dask.ND Dask.LowerUnify Dask.Drv.Expr

def fmtLErr : LErr → String
  | .unify e => Dask.Drv.Unify.fmtErr e
  | .oracle => "err Oracle"
  | .rechunk => "err ValueError"

def parsePre? (s : String) : Option (List ULayout) := (parseLayout? s).map (fun l => l.map toI)

def parseParams? (pol lim : String) : Option Params := do
  let pol ← Dask.Drv.Unify.parsePolicy? pol
  let lim ← parseOptInt? lim
  pure ⟨pol, lim⟩

/-- chunks of an elemwise over operands with these chunks (after unification) -/
def outLayout : List Layout → Layout
  | [] => []
  | c :: cs => cs.foldl zipBLayout c

def parseSrc? (id : Nat) (s : String) : Option (Expr × SrcSpec) :=
  match s.splitOn "~" with
  | [sh, ch, mul, off, md] => do
    let sh ← parseNatList? sh
    let ch ← parseLayout? ch
    let mul ← parseInt? mul
    let off ← parseInt? off
    let md ← parseInt? md
    pure (.src id sh ch, ⟨sh, mul, off, md⟩)
  | _ => none

def envOf (table : Array (Nat × SrcSpec)) : Env :=
  { src := fun id =>
      match table.find? (fun p => p.1 == id) with
      | some p => srcArr p.2
      | none => ⟨[], fun _ => 0⟩
    un := unFn
    bin := binFn }

def b01 (b : Bool) : String := if b then "1" else "0"

def sameArr (x y : Arr Int) : Bool := x.shape == y.shape && x.toList == y.toList

/-- one-hole phase-1 context over `x` -/
def ctx1 (x : ExprU) (sh : List Nat) (ch : Layout) (k : Expr → Expr) : ExprU :=
  .node (k (.src holeA sh ch)) x x

structure TSt where
  steps : Array ExprU := #[]
  srcs : Array (Nat × SrcSpec) := #[]

def metaOf (p : Params) (x : ExprU) : Option (List Nat × Layout) :=
  match lowerAll p x with
  | .ok e => some (shape2 e, chunks2 e)
  | .error _ => none

def parseTStep (p : Params) (st : TSt) (step : String) : Option TSt := do
  let ref (s : String) : Option ExprU := do
    let k ← s.toNat?
    st.steps[k]?
  match step.splitOn "~" with
  | ["src", sh, ch, mul, off, md] =>
    let id := st.steps.size
    let (e, sp) ← parseSrc? id ("~".intercalate [sh, ch, mul, off, md])
    pure { steps := st.steps.push (.base e), srcs := st.srcs.push (id, sp) }
  | ["zipu", fn, ia, ib, pre, a, b] =>
    let f ← binOps.idxOf? fn
    let ia ← parseInt? ia
    let ib ← parseInt? ib
    let pre ← parsePre? pre
    let a ← ref a
    let b ← ref b
    pure { st with steps := st.steps.push (.zipU f ia ib pre a b) }
  | ["map", fn, k] =>
    let f ← unOps.idxOf? fn
    let x ← ref k
    let (sh, ch) ← metaOf p x
    pure { st with steps := st.steps.push (ctx1 x sh ch (fun h => .map f h)) }
  | ["transpose", k, perm] =>
    let x ← ref k
    let perm ← parseNatList? perm
    let (sh, ch) ← metaOf p x
    pure { st with steps := st.steps.push (ctx1 x sh ch (fun h => .transpose h perm)) }
  | ["rechunk", k, l] =>
    let x ← ref k
    let l ← parseLayout? l
    let (sh, ch) ← metaOf p x
    pure { st with steps := st.steps.push (ctx1 x sh ch (fun h => .rechunk h l)) }
  | _ => none

def parseTree? (p : Params) (prog : String) : Option (ExprU × Env) := do
  let mut st : TSt := {}
  for s in prog.splitOn ";" do
    st ← parseTStep p st s
  let e ← st.steps.back?
  pure (e, envOf st.srcs)

def handle (cmd : String) (args : List String) : Option String :=
  match cmd, args with
  | "lwu.targets", pol :: lim :: pre :: its :: chs => do
    let p ← parseParams? pol lim
    let pre ← parsePre? pre
    let its ← parseIntList? its
    let chs ← chs.mapM parseLayout?
    if its.length ≠ chs.length then none else
    match unifyTargets p pre ((its.zip chs).map (fun q => ⟨q.1, q.2⟩)) with
    | .error e => pure (fmtLErr e)
    | .ok ts => pure ("ok " ++ " ".intercalate (ts.map fmtLayout) ++ " out=" ++ fmtLayout (outLayout ts))
  | "lwu.lower", [pol, lim, pre, ia, ib, fn, sa, sb] => do
    let p ← parseParams? pol lim
    let pre ← parsePre? pre
    let ia ← parseInt? ia
    let ib ← parseInt? ib
    let f ← binOps.idxOf? fn
    let (a, spa) ← parseSrc? 0 sa
    let (b, spb) ← parseSrc? 1 sb
    let env := envOf #[(0, spa), (1, spb)]
    match lowerZipB p pre ia ib f (.base a) (.base b) with
    | .error e => pure (fmtLErr e)
    | .ok r =>
      let (ca, cb) := match r with
        | .zipB _ x y => (chunks2 x, chunks2 y)
        | _ => ([], [])
      let comp := compute2 env r
      let z : String :=
        if shape a = shape b then
          match lowerZip p pre ia ib f a b with
          | .ok e => b01 (wf e && chunks e == chunks2 r && sameArr (compute env e) comp && sameArr (den env e) comp)
          | .error _ => "0"
        else "N"
      pure s!"ok wf={b01 (wf2 r)} a={fmtLayout ca} b={fmtLayout cb} out={fmtLayout (chunks2 r)} eq={b01 (sameArr comp (den2 env r))} zip={z} {fmtNatList comp.shape} {fmtIntList comp.toList}"
  | "lwu.tree", [pol, lim, prog] => do
    let p ← parseParams? pol lim
    let (t, env) ← parseTree? p prog
    match lowerAll p t with
    | .error e => pure (fmtLErr e)
    | .ok r =>
      let comp := compute2 env r
      pure s!"ok wf={b01 (wfU p t)} chunks={fmtLayout (chunks2 r)} eq={b01 (sameArr comp (den2 env r))} den={b01 (sameArr (den2 env r) (denU env t))} {fmtNatList comp.shape} {fmtIntList comp.toList}"
  | _, _ => none

end Dask.Drv.LowerUnify
