/-
Driver commands `io.*` (FromArray regions / rechunk reads, store write index).
Extra tokens: per-axis tuples are joined by `|` (empty tuple `_`); an index entry is an int,
a slice `a:b:c`, `nx` (None/newaxis) or `F` (fancy); pairs `(start, stop)` print as `a:b`.
-/
import DaskArrayModel.Proto
import DaskArrayModel.Model.SourceIO
namespace Dask.Drv.SourceIO
open Dask.Py Dask.Py.PySlice Dask.Proto Dask.Slicing Dask.SourceIO

def splitBar (s : String) : List String := if s = "_" then [] else s.splitOn "|"

def parseIdx? (s : String) : Option Idx :=
  if s = "nx" then some .newaxis
  else if s = "F" then some .fancy
  else match s.toInt? with
    | some i => some (.int i)
    | none => (parseSlice? s).map .slc

def parseRIdx? (s : String) : Option RIdx :=
  match s.toInt? with
  | some i => some (.int i)
  | none => (parseSlice? s).map .slc

def parsePair? (s : String) : Option (Int × Int) :=
  match s.splitOn ":" with
  | [a, b] => do let a ← a.toInt?; let b ← b.toInt?; pure (a, b)
  | _ => none

/-- `N` = no region at all; otherwise one slice per axis -/
def parseRegions? (s : String) (n : Nat) : Option (List (Option PySlice)) :=
  if s = "N" then some (List.replicate n none)
  else (splitBar s).mapM (fun t => (parseSlice? t).map some)

def parseOptSlice? (s : String) : Option (Option PySlice) :=
  if s = "N" then some none else (parseSlice? s).map some

def fmtPair (p : Int × Int) : String := toString p.1 ++ ":" ++ toString p.2

def fmtPairs (l : List (Int × Int)) : String :=
  if l.isEmpty then "_" else ";".intercalate (l.map fmtPair)

def fmtRegions (l : List (Option PySlice)) : String :=
  if l.all (·.isNone) then "N"
  else "|".intercalate (l.map (fun r => match r with | none => "N" | some s => fmtSlice s))

def fmtRIdx : RIdx → String
  | .int i => toString i
  | .slc s => fmtSlice s

def fmtBits (l : List Bool) : String :=
  if l.isEmpty then "_" else String.join (l.map (fun b => if b then "1" else "0"))

def mkAxes (dims : List Int) (regions : List (Option PySlice)) (chunks : List (List Int)) : List Axis :=
  ((dims.zip regions).zip chunks).map (fun x => ⟨x.1.1, x.1.2, x.2⟩)

def fmtErr : Err → String
  | .notImplemented => "err NotImplementedError"
  | .indexError => "err IndexError"
  | .valueError => "err ValueError"
  | .typeError => "err TypeError"

def handle (cmd : String) (args : List String) : Option String :=
  match cmd, args with
  | "io.slices_from_chunks", [c] => do
    let c ← parseIntList? c
    pure ("ok " ++ fmtPairs (slicesFromChunks c))
  | "io.layer", [d, r, c] => do
    let d ← parseInt? d; let r ← parseOptSlice? r; let c ← parseIntList? c
    pure ("ok " ++ fmtPairs (layerSlices ⟨d, r, c⟩))
  | "io.layer", [d, r, c, mask] => do
    -- `mask`: one `0`/`1` per block; `0` = the block's slice is not observable on the
    -- implementation side (empty eager NumPy view) and prints as `?`
    let d ← parseInt? d; let r ← parseOptSlice? r; let c ← parseIntList? c
    let ls := layerSlices ⟨d, r, c⟩
    let ms := mask.toList
    if ms.length ≠ ls.length then none else
    pure ("ok " ++ (if ls.isEmpty then "_" else
      ";".intercalate ((ls.zip ms).map (fun pm => if pm.2 = '1' then fmtPair pm.1 else "?"))))
  | "io.efflen", [d, r] => do
    let d ← parseInt? d; let r ← parseOptSlice? r
    pure s!"ok {effLen r d}"
  | "io.accept_slice", [d, r, c, ix, nd, isz, lim] => do
    let d ← parseIntList? d
    let r ← parseRegions? r d.length
    let c ← parseIntLL? c
    let ix ← (splitBar ix).mapM parseIdx?
    let isz ← parseInt? isz; let lim ← parseInt? lim
    if r.length ≠ d.length ∨ c.length ≠ d.length ∨ (ix.filter (· ≠ Idx.newaxis)).length > d.length then none else
    match acceptSlice (mkAxes d r c) ix (nd = "1") isz lim with
    | none => pure "decline"
    | some a =>
      pure ("ok R=" ++ fmtRegions (a.axes.map (·.region)) ++ " C=" ++ fmtIntLL (a.axes.map (·.chunks))
        ++ " D=" ++ fmtIntList (a.axes.map (·.dim)) ++ " rebased=" ++ (if a.rebased then "1" else "0")
        ++ " X=" ++ fmtBits a.extract)
  | "io.accept_chain", [d, c, ix] => do
    let d ← parseInt? d; let c ← parseIntList? c
    let ix ← (splitBar ix).mapM parseIdx?
    match acceptChain ⟨d, none, c⟩ ix with
    | none => pure "decline"
    | some a =>
      pure ("ok R=" ++ fmtRegions [a.region] ++ " C=" ++ fmtIntList a.chunks ++ " S=" ++ fmtPairs (layerSlices a)
        ++ " P=" ++ fmtIntList (readPositions a))
  | "io.accept_rechunk", [d, r, c, st, t] => do
    let d ← parseIntList? d
    let r ← parseRegions? r d.length
    let c ← parseIntLL? c
    let st ← (if st = "N" then some none else (parseIntList? st).map some)
    let t ← parseIntLL? t
    if r.length ≠ d.length ∨ c.length ≠ d.length ∨ t.length ≠ d.length then none else
    if t.any (·.isEmpty) then none else
    match acceptRechunk (mkAxes d r c) st t with
    | .direct _ => pure "ok direct"
    | .viaRead read => pure ("ok read " ++ fmtIntLL read)
    | .decline => pure "none"
  | "io.aligned_read", [a, b, s] => do
    let a ← parseInt? a; let b ← parseInt? b; let s ← parseInt? s
    if s ≤ 0 then none else pure ("ok " ++ fmtIntList (alignedReadChunks a b s))
  | "io.store_index", [r, ix] => do
    let r ← (if r = "N" then some none else ((splitBar r).mapM parseRIdx?).map some)
    let ix ← (splitBar ix).mapM parsePair?
    match storeIndex r ix with
    | .ok l => pure ("ok " ++ (if l.isEmpty then "_" else "|".intercalate (l.map fmtRIdx)))
    | .error e => pure (fmtErr e)
  | "io.store_writes", [r, c] => do
    let r ← parseOptSlice? r; let c ← parseIntList? c
    match storeWrites r c with
    | .ok l => pure ("ok " ++ (if l.isEmpty then "_" else ";".intercalate (l.map fmtSlice)))
    | .error e => pure (fmtErr e)
  | "io.npy_chunks", [c, a] => do
    let c ← parseIntLL? c; let a ← parseInt? a
    pure ("ok " ++ fmtIntLL (npyStackChunks c a))
  | _, _ => none

end Dask.Drv.SourceIO
