import DaskArrayModel.Proto
import DaskArrayModel.Model.Unify
/-
Line protocol for the chunk-unification family (`un.*`):
  un.common <LL>                         -> ok <layout> | err <Class>
  un.coarse <LL>                         -> ok <layout> | err <Class>
  un.bnds <L>                            -> ok <boundaries>
  un.unify <policy> <limit|N> <pre LL|-> <nlabels> <itemsizes L> (<labels L> <chunks LL>)*
                                         -> ok <final LL> rel=<0|1> | err <Class>
     policy ∈ auto|coarse|refine; `pre` = layouts (by label) in force before the size guard
     (oracle, read for `auto` only); one `<labels> <chunks>` pair per operand.
  un.guard … (same arguments)            -> ok <worst> <coarsened labels> <final LL>
-/
namespace Dask.Drv.Unify
open Dask.Py Dask.Proto Dask.Unify

def fmtErr : Err → String
  | .valueError => "err ValueError"
  | .stopIteration => "err StopIteration"
  | .indexError => "err IndexError"
  | .fuel => "err Fuel"

def fmtRes : Except Err Layout → String
  | .ok r => "ok " ++ fmtIntList r
  | .error e => fmtErr e

def parsePolicy? : String → Option Policy
  | "auto" => some .auto
  | "coarse" => some .coarse
  | "refine" => some .refine
  | _ => none

def parseOps? : List Int → List String → Option (List Opd)
  | [], [] => some []
  | it :: its, l :: c :: rest => do
    let l ← parseNatList? l
    let c ← parseIntLL? c
    if l.length ≠ c.length then none else
    let tl ← parseOps? its rest
    pure (⟨it, (l.zip c).map (fun p => ⟨p.1, p.2⟩)⟩ :: tl)
  | _, _ => none

def parseUnify? (args : List String) : Option (Except Err UnifyResult) :=
  match args with
  | pol :: lim :: pre :: nl :: its :: rest => do
    let pol ← parsePolicy? pol
    let lim ← parseOptInt? lim
    let pre ← parseIntLL? pre
    let nl ← nl.toNat?
    let its ← parseIntList? its
    let ops ← parseOps? its rest
    pure (unifyModel pol lim pre ops nl)
  | _ => none

def handle (cmd : String) (args : List String) : Option String :=
  match cmd, args with
  | "un.common", [ll] => do
    let ll ← parseIntLL? ll
    pure (fmtRes (commonBlockdim ll))
  | "un.coarse", [ll] => do
    let ll ← parseIntLL? ll
    pure (fmtRes (coarseBlockdim ll))
  | "un.bnds", [l] => do
    let l ← parseIntList? l
    pure ("ok " ++ fmtIntList (bnds l))
  | "un.unify", args => do
    match ← parseUnify? args with
    | .ok r => pure ("ok " ++ fmtIntLL r.final ++ " rel=" ++ (if r.oracleOk then "1" else "0"))
    | .error e => pure (fmtErr e)
  | "un.guard", args => do
    match ← parseUnify? args with
    | .ok r => pure s!"ok {r.worst} {fmtNatList r.coarsenedSet} {fmtIntLL r.final}"
    | .error e => pure (fmtErr e)
  | _, _ => none

end Dask.Drv.Unify
