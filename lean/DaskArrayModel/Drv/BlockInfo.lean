import DaskArrayModel.Proto
import DaskArrayModel.Model.BlockInfo
/-
Line protocol for the block_info family (`bi.*`).
  bi.info <chunksLL> <bid>                       -> ok loc=<s:e,…> shape=<…> num=<…> | err IndexError
  bi.mb <drop|_> <new|N> <spec|N> <LL>…          -> ok ind=<labels> out=<LL> | err <Class>
        spec: per output axis `i<k>` (an int) or a tuple `2,2,1`, separated by `;`
  bi.mb_in <drop|_> <new|N> <spec|N> <outbid> <LL>… -> ok <k> <loc> <num> <blockshape> | … (one group per input)
  bi.freeze <settledLL> <frozenLL>               -> ok child|rechunk <chunks LL> | err ValueError
-/
namespace Dask.Drv.BlockInfo
open Dask.Proto Dask.BlockInfo

def fmtErr : Err → String
  | .valueError => "err ValueError"
  | .indexError => "err IndexError"
  | .runtimeError => "err RuntimeError"

def fmtLoc (l : List (Nat × Nat)) : String :=
  if l.isEmpty then "_" else ",".intercalate (l.map (fun p => toString p.1 ++ ":" ++ toString p.2))

def parseSpec1? (s : String) : Option ChunkSpec :=
  if s.startsWith "i" then ((s.drop 1).toString.toNat?).map ChunkSpec.int else (parseNatList? s).map ChunkSpec.tup

def parseSpec? (s : String) : Option (Option (List ChunkSpec)) :=
  if s = "N" then some none else ((s.splitOn ";").mapM parseSpec1?).map some

def parseOptNatList? (s : String) : Option (Option (List Nat)) :=
  if s = "N" then some none else (parseNatList? s).map some

def handle (cmd : String) (args : List String) : Option String :=
  match cmd, args with
  | "bi.info", [l, b] => do
    let l ← parseNatLL? l
    let b ← parseNatList? b
    if !validBid l b then pure "err IndexError" else
    pure s!"ok loc={fmtLoc (arrayLocation l b)} shape={fmtNatList (chunkShape l b)} num={fmtNatList (numChunks l)}"
  | "bi.mb", drop :: new :: spec :: ls => do
    let drop ← parseNatList? drop
    let new ← parseOptNatList? new
    let spec ← parseSpec? spec
    let ls ← ls.mapM parseNatLL?
    match mapBlocks ls drop new spec with
    | .ok r => pure s!"ok ind={fmtNatList r.outInd} out={fmtNatLL r.outChunks}"
    | .error e => pure (fmtErr e)
  | "bi.mb_in", drop :: new :: spec :: bid :: ls => do
    let drop ← parseNatList? drop
    let new ← parseOptNatList? new
    let spec ← parseSpec? spec
    let bid ← parseNatList? bid
    let ls ← ls.mapM parseNatLL?
    match mapBlocks ls drop new spec with
    | .error e => pure (fmtErr e)
    | .ok r =>
      if !validBid r.outChunks bid then pure "err IndexError" else
      let parts := ls.map (fun a =>
        let i := inputInfo a r.outInd bid (!drop.isEmpty)
        s!"{fmtNatList i.chunkLocation} {fmtLoc i.arrayLocation} {fmtNatList i.numChunks} {fmtNatList (deliveredShape a r.outInd bid (!drop.isEmpty))}")
      let o := outputInfo r.outChunks bid
      pure ("ok " ++ " | ".intercalate (parts ++ [s!"{fmtLoc o.arrayLocation} {fmtNatList o.numChunks} {fmtNatList o.chunkShape}"]))
  | "bi.freeze", [s, f] => do
    let s ← parseNatLL? s
    let f ← parseNatLL? f
    match lowerFreeze s f with
    | .ok (.child c) => pure ("ok child " ++ fmtNatLL c)
    | .ok (.rechunk _ t) => pure ("ok rechunk " ++ fmtNatLL t)
    | .error e => pure (fmtErr e)
  | _, _ => none

end Dask.Drv.BlockInfo
