import DaskArrayModel.Proto
import DaskArrayModel.Model.Scan
/-
Line protocol for the cumulative-scan models (`sc.*`).
  sc.range a stop step          -> ok <int list>            (Python range over naturals)
  sc.clog2 x                    -> ok <ceil(log2 x)>
  sc.steps n_vals               -> ok i@stride,i@stride,…   (Blelloch combine tasks in emission order)
  sc.blelloch_offsets <totals>  -> ok o0,o1,…  (N for block 0; integer data, op = +)
  sc.seq_blocks <ll> / sc.blelloch_blocks <ll> -> ok <ll>    (cumsum; ident 0, preop sum)
  sc.wiring seq|blelloch n      -> ok e0;e1;…  per output block the expression it computes over
                                   named leaves (c<i> = per-block scan / its tail, b<i> = per-block total,
                                   e = identity block); `-` for "no prefix" (Blelloch block 0)
-/
namespace Dask.Drv.Scan
open Dask.Proto Dask.Scan

def renderTm (leafName : String) : Tm → String
  | .ident => "e"
  | .leaf i => leafName ++ toString i
  | .op l r => "(" ++ renderTm leafName l ++ "+" ++ renderTm leafName r ++ ")"

def fmtSteps (l : List Step) : String :=
  if l.isEmpty then "_" else ",".intercalate (l.map (fun s => s!"{s.i}@{s.stride}"))

def fmtOptList (l : List (Option Int)) : String :=
  if l.isEmpty then "_" else ",".intercalate (l.map fmtOptInt)

def isumL (l : List Int) : Int := l.foldl (· + ·) 0

def handle (cmd : String) (args : List String) : Option String :=
  match cmd, args with
  | "sc.range", [a, b, c] => do
    let a ← a.toNat?; let b ← b.toNat?; let c ← c.toNat?
    if c = 0 then pure "err ValueError" else pure ("ok " ++ fmtNatList (rangeStep a b c))
  | "sc.clog2", [x] => do
    let x ← x.toNat?
    if x = 0 then pure "err ValueError" else pure s!"ok {clog2 x}"
  | "sc.steps", [n] => do
    let n ← n.toNat?
    pure ("ok " ++ fmtSteps (blellochSteps n))
  | "sc.blelloch_offsets", [t] => do
    let t ← parseIntList? t
    pure ("ok " ++ fmtOptList (blellochOffsets (· + ·) t))
  | "sc.seq_blocks", [bs] => do
    let bs ← parseIntLL? bs
    pure ("ok " ++ fmtIntLL (seqBlocks (· + ·) 0 bs))
  | "sc.blelloch_blocks", [bs] => do
    let bs ← parseIntLL? bs
    pure ("ok " ++ fmtIntLL (blellochBlocks (· + ·) isumL bs))
  | "sc.wiring", ["seq", n] => do
    let n ← n.toNat?
    let bs := (List.range n).map (fun i => [Tm.leaf i])
    let out := (seqBlocks Tm.op Tm.ident bs).map (fun b => ",".intercalate (b.map (renderTm "c")))
    pure ("ok " ++ ";".intercalate out)
  | "sc.wiring", ["blelloch", n] => do
    let n ← n.toNat?
    let t := (List.range n).map Tm.leaf
    let out := (blellochOffsets Tm.op t).map (fun o => match o with
      | none => "-"
      | some tm => renderTm "b" tm)
    pure ("ok " ++ ";".intercalate out)
  | _, _ => none

end Dask.Drv.Scan
