import DaskArrayModel.Proto
import DaskArrayModel.Model.Unknown
/-
Line protocol for the unknown-chunk-size family (`uk.*`).  Unknown sizes are `N`.
  uk.slice <Layout?> <idx>…            -> ok <Layout?> | err ValueError      (idx = `a:b:c` or an int)
  uk.take <Dim?>                        -> ok shuffle|onechunk | err ValueError
  uk.validate_rechunk <old> <new>       -> ok | err ValueError | err AssertionError
  uk.coarse <Dim?;Dim?;…>               -> ok <Dim?> | err <Class>
  uk.common <Dim?;Dim?;…>               -> ok <Dim?> | err <Class>
  uk.mask_sizes <chunks> <bits>         -> ok <true block lengths of x[mask]>   (bits = 0/1 string, `_` empty)
  uk.mask_positions <chunks> <bits>     -> ok <per-block selected global positions>
  uk.override_grid <Layout?>            -> ok <block ids aliased by ChunksOverride>
-/
namespace Dask.Drv.Unknown
open Dask.Py Dask.Proto Dask.Unknown

def fmtErr : Err → String
  | .valueError => "err ValueError"
  | .assertionError => "err AssertionError"
  | .indexError => "err IndexError"
  | .stopIteration => "err StopIteration"
  | .fuel => "err Fuel"

def parseOptNat? (s : String) : Option (Option Nat) :=
  if s = "N" then some none else (s.toNat?).map some

def parseDim? (s : String) : Option Dim? :=
  if s = "_" then some [] else (s.splitOn ",").mapM parseOptNat?

def parseLayout? (s : String) : Option Layout? :=
  if s = "-" then some [] else (s.splitOn ";").mapM parseDim?

def fmtOptNat : Option Nat → String
  | none => "N"
  | some v => toString v

def fmtDim (d : Dim?) : String := if d.isEmpty then "_" else ",".intercalate (d.map fmtOptNat)
def fmtLayout (l : Layout?) : String := if l.isEmpty then "-" else ";".intercalate (l.map fmtDim)

def parseIdx? (s : String) : Option Idx :=
  if s.contains ':' then (parseSlice? s).map Idx.slice else (parseInt? s).map Idx.int

def parseBits? (s : String) : Option (List Bool) :=
  if s = "_" then some [] else
    s.toList.mapM (fun c => if c = '1' then some true else if c = '0' then some false else none)

def fmtDimRes : Except Err Dim? → String
  | .ok d => "ok " ++ fmtDim d
  | .error e => fmtErr e

def handle (cmd : String) (args : List String) : Option String :=
  match cmd, args with
  | "uk.slice", l :: idx => do
    let l ← parseLayout? l
    let idx ← idx.mapM parseIdx?
    match sliceChunks? l idx with
    | .ok r => pure ("ok " ++ fmtLayout r)
    | .error e => pure (fmtErr e)
  | "uk.take", [d] => do
    let d ← parseDim? d
    match takeGuard d with
    | .ok .shuffle => pure "ok shuffle"
    | .ok .oneChunk => pure "ok onechunk"
    | .error e => pure (fmtErr e)
  | "uk.validate_rechunk", [o, n] => do
    let o ← parseLayout? o
    let n ← parseLayout? n
    match validateRechunk o n with
    | .ok () => pure "ok"
    | .error e => pure (fmtErr e)
  | "uk.coarse", [bd] => do
    let bd ← parseLayout? bd
    pure (fmtDimRes (coarseBlockdim? bd))
  | "uk.common", [bd] => do
    let bd ← parseLayout? bd
    pure (fmtDimRes (commonBlockdim? bd))
  | "uk.mask_sizes", [cs, bits] => do
    let cs ← parseNatList? cs
    let m ← parseBits? bits
    pure ("ok " ++ fmtNatList (trueSizes (maskSelect cs (List.range m.length) m)))
  | "uk.mask_positions", [cs, bits] => do
    let cs ← parseNatList? cs
    let m ← parseBits? bits
    pure ("ok " ++ fmtNatLL (maskPositions cs m))
  | "uk.override_grid", [l] => do
    let l ← parseLayout? l
    pure ("ok " ++ fmtNatLL ((overrideLayer l).map (·.1)))
  | _, _ => none

end Dask.Drv.Unknown
