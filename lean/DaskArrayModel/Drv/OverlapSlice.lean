import DaskArrayModel.Proto
import DaskArrayModel.Model.OverlapSlice
/-!
Line protocol for the slice-through-map_overlap rule (`ovs.*`), Model/OverlapSlice.lean.

Tokens: kind = `none|periodic|reflect|nearest|constant`; bool = `0|1`; a slice `a:b:c` (`N` = None);
an index = items joined by `,` (a slice, an integer, `N` = None/newaxis; `_` = `()`);
depths = per axis `l.r` joined by `,` (`_` empty); kinds joined by `,` (`_` empty).

  ovs.axis n dl dr kind allow idx                      -> ok decline | ok <inp> <trim> <needs_trim 0|1>
  ovs.accept <shape> <depths> <kinds> allow narrays posaware <index>
                                                       -> ok decline | ok <inp slices joined by ,> <trim slices | N>
  ovs.pad kind dl dr c <x>                             -> ok v,v,…   (`N` = no neighbour; `c` = the constant fill)
  ovs.eval kind dl dr c idx <x>                        -> ok v,v,…   `map_overlap(wsum, depth=(dl,dr), boundary)[idx]`
        for the edge-replicating weighted moving sum `wsum` (weights 1 … dl+dr+1, missing neighbours replaced by
        the nearest present entry of the window)
  ovs.rewritten kind dl dr c idx <x>                   -> ok decline | ok v,v,…   the same through the rewritten
        expression `map_overlap(wsum, …)(x[inp])[trim]` with `inp`, `trim` from `acceptAxis`
-/
namespace Dask.Drv.OverlapSlice
open Dask.Py Dask.Py.PySlice Dask.Proto Dask.OverlapSlice

def parseKind? (s : String) : Option BKind :=
  match s with
  | "none" => some .none
  | "periodic" => some .periodic
  | "reflect" => some .reflect
  | "nearest" => some .nearest
  | "constant" => some .constant
  | _ => Option.none

def parseBool? (s : String) : Option Bool :=
  if s = "1" then some true else if s = "0" then some false else Option.none

def parseIx? (s : String) : Option Ix :=
  if s = "N" then some .newaxis
  else if s.contains ':' then (parseSlice? s).map .slc
  else (s.toInt?).map .int

def parseIndex? (s : String) : Option (List Ix) :=
  if s = "_" then some [] else (s.splitOn ",").mapM parseIx?

def parseDepth? (s : String) : Option (Int × Int) :=
  match s.splitOn "." with
  | [l, r] => do
    let l ← l.toInt?
    let r ← r.toInt?
    pure (l, r)
  | _ => Option.none

def parseDepths? (s : String) : Option (List (Int × Int)) :=
  if s = "_" then some [] else (s.splitOn ",").mapM parseDepth?

def parseKinds? (s : String) : Option (List BKind) :=
  if s = "_" then some [] else (s.splitOn ",").mapM parseKind?

def fmtSlices (l : List PySlice) : String :=
  if l.isEmpty then "_" else ",".intercalate (l.map fmtSlice)

def fmtAxisRes : AxisRes → String
  | .decline => "ok decline"
  | .ok inp trim t => s!"ok {fmtSlice inp} {fmtSlice trim} {if t then 1 else 0}"

def fmtRes : Res → String
  | .decline => "ok decline"
  | .ok inp trim =>
    "ok " ++ fmtSlices inp ++ " " ++ (match trim with | Option.none => "N" | some t => fmtSlices t)

def mkBoundary (k : BKind) (c : Int) : Boundary Int :=
  match k with
  | .none => .none
  | .periodic => .periodic
  | .reflect => .reflect
  | .nearest => .nearest
  | .constant => .constant c

/-- replace leading missing entries by the first present one -/
def fillFront : List (Option Int) → List (Option Int)
  | [] => []
  | Option.none :: rest =>
    let r := fillFront rest
    r.head?.getD Option.none :: r
  | some v :: rest => some v :: rest

/-- missing neighbours (only at a true edge under boundary `none`) replaced by the nearest present entry -/
def edgeFill (w : List (Option Int)) : List Int :=
  ((fillFront (fillFront w).reverse).reverse).map (fun o => o.getD 0)

def wsumLoop : Int → List Int → Int
  | _, [] => 0
  | t, v :: vs => t * v + wsumLoop (t + 1) vs

/-- the kernel of the weighted edge-replicating moving sum -/
def wsum (w : List (Option Int)) : Int := wsumLoop 1 (edgeFill w)

def fmtOptList (l : List (Option Int)) : String :=
  if l.isEmpty then "_" else ",".intercalate (l.map fmtOptInt)

def handle (cmd : String) (args : List String) : Option String :=
  match cmd, args with
  | "ovs.axis", [n, dl, dr, k, al, idx] => do
    let n ← parseInt? n; let dl ← parseInt? dl; let dr ← parseInt? dr
    let k ← parseKind? k; let al ← parseBool? al; let idx ← parseSlice? idx
    pure (fmtAxisRes (acceptAxis n dl dr k al idx))
  | "ovs.accept", [shape, depths, kinds, al, na, pa, index] => do
    let shape ← parseIntList? shape; let depths ← parseDepths? depths; let kinds ← parseKinds? kinds
    let al ← parseBool? al; let na ← na.toNat?; let pa ← parseBool? pa; let index ← parseIndex? index
    pure (fmtRes (accept ⟨shape, depths, kinds, al, na, pa⟩ index))
  | "ovs.pad", [k, dl, dr, c, x] => do
    let k ← parseKind? k; let dl ← dl.toNat?; let dr ← dr.toNat?; let c ← parseInt? c
    let x ← parseIntList? x
    pure ("ok " ++ fmtOptList (padB (mkBoundary k c) dl dr x))
  | "ovs.eval", [k, dl, dr, c, idx, x] => do
    let k ← parseKind? k; let dl ← dl.toNat?; let dr ← dr.toNat?; let c ← parseInt? c
    let idx ← parseSlice? idx; let x ← parseIntList? x
    pure ("ok " ++ fmtIntList (getSl idx (mapOverlap1 (stencil wsum dl dr) (mkBoundary k c) dl dr x)))
  | "ovs.rewritten", [k, dl, dr, c, idx, x] => do
    let k ← parseKind? k; let dl ← dl.toNat?; let dr ← dr.toNat?; let c ← parseInt? c
    let idx ← parseSlice? idx; let x ← parseIntList? x
    match acceptAxis x.length dl dr k true idx with
    | .decline => pure "ok decline"
    | .ok inp trim _ =>
      pure ("ok " ++ fmtIntList
        (getSl trim (mapOverlap1 (stencil wsum dl dr) (mkBoundary k c) dl dr (getSl inp x))))
  | _, _ => Option.none

end Dask.Drv.OverlapSlice
