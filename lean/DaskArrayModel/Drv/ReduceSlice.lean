/-
Line protocol for the reduction slice pushdown model (family `rsl.`).

`rsl.split <shape> <axes> <keepdims 0|1> <outsize> <object-dtype input 0|1> <index>`
   shape / axes  int lists (`_` when empty); index: `,`-separated items `N` (None) | int | slice `a:b:c`, `_` when empty
   → `ok decline` | `ok <input_index> ; <final_index> ; <outer 0|1>`   (items `,`-separated, `_` when empty)
`rsl.eval <shape> <axes> <keepdims> <outsize> <kind> <index>`  kind: `sum` | `topk` (the `outsize` largest, descending)
   on the input `arange(prod(shape)).reshape(shape)` scrambled by `v ↦ (v * 7 + 3) % 11`:
   → `ok <shape> ; <flat original> ; <flat pushed | decline>`
-/
import DaskArrayModel.Proto
import DaskArrayModel.Model.ReduceSlice
namespace Dask.Drv.ReduceSlice
open Dask.Py Dask.Py.PySlice Dask.Proto Dask.Slicing Dask.ND Dask.RedSlice

def parseIndex? (s : String) : Option (List RIx) :=
  if s = "_" then some [] else
    (s.splitOn ",").mapM (fun t =>
      if t = "N" then some RIx.none
      else if t.contains ':' then (parseSlice? t).map RIx.slc else (parseInt? t).map RIx.int)

def fmtIx : Ix → String
  | .int k => toString k
  | .slc s => fmtSlice s

def fmtList (l : List String) : String := if l.isEmpty then "_" else ",".intercalate l

def fmtSplit : Option Split → String
  | none => "decline"
  | some sp => fmtList (sp.inp.map fmtSlice) ++ " ; " ++ fmtList (sp.out.map fmtIx) ++ " ; " ++
      (if sp.outer then "1" else "0")

def laneFn (kind : String) (osz : Nat) : List Int → List Int :=
  if kind = "topk" then topkLane osz else sumLane

def testInput (sh : List Nat) : Arr Int :=
  ⟨sh, fun i => ((flatIndex sh i : Nat) * 7 + 3 : Int) % 11⟩

def handle (cmd : String) (args : List String) : Option String :=
  match cmd, args with
  | "rsl.split", [sh, ax, kd, _osz, obj, ix] => some <| Id.run do
    let some sh := parseNatList? sh | return "bad-args"
    let some ax := parseNatList? ax | return "bad-args"
    let some ix := parseIndex? ix | return "bad-args"
    return "ok " ++ fmtSplit (splitIndex sh ax (kd = "1") (obj = "1") ix)
  | "rsl.eval", [sh, ax, kd, osz, kind, ix] => some <| Id.run do
    let some sh := parseNatList? sh | return "bad-args"
    let some ax := parseNatList? ax | return "bad-args"
    let some osz := osz.toNat? | return "bad-args"
    let some ix := parseIndex? ix | return "bad-args"
    let kd := kd = "1"
    let msk := mask sh.length ax
    let x := testInput sh
    let r := laneFn kind osz
    let o := original r osz kd msk x (ix.filterMap RIx.toIx?)
    let p := match splitIndex sh ax kd false ix with
      | none => "decline"
      | some sp => fmtIntList (pushed r osz kd msk x sp).toList
    return "ok " ++ fmtNatList o.shape ++ " ; " ++ fmtIntList o.toList ++ " ; " ++ p
  | _, _ => none

end Dask.Drv.ReduceSlice
