import DaskArrayModel.Proto
import DaskArrayModel.Model.Hist
/-!
Line-protocol handler for the history family (`hs.*`): C23 flat index, C11 assignment parsing
and per-block assignment plan.

  hs.flat_index <numblocks> <block id>        -> ok <flat index>
  hs.unflat <numblocks> <k>                   -> ok <block id>
  hs.grid <numblocks>                         -> ok <block ids LL in product order>
  hs.parse_assign <slice> <size>              -> ok <parsed slice> <implied> <reversed 0|1> <positioned 0|1>
  hs.block_assign <parsed slice> <loc0> <loc1> -> ok A | ok <block slice> <size> <n_preceding>
  hs.value_slice <bcast 0|1> <reversed 0|1> <vsize> <npre> <size> -> ok <slice>
  hs.setitem_plan <chunks LL> <keys k/k/…> <vkind: s | f<flags e.g. f010>> -> ok <block> <block> …
        block = A | <idx>/<idx>…|<vslice>/<vslice>…        (blocks in C order)
  hs.np_source <slice> <n> <p>                -> ok N | ok <k>
  hs.block_source <slice> <n> <bcast> <loc0> <loc1> <q> -> ok N | ok <k>
  hs.draw <kind g|r> <seed> <spawned> <n>     -> ok <child indices drawn> <new spawned counter>
-/
namespace Dask.Drv.Hist
open Dask.Py Dask.Py.PySlice Dask.Proto Dask.Slicing Dask.Hist

def parseBool? (s : String) : Option Bool :=
  if s = "1" then some true else if s = "0" then some false else none

def fmtBool (b : Bool) : String := if b then "1" else "0"

def parseKey? (s : String) : Option Key :=
  if s.contains ':' then (parseSlice? s).map Key.slice else (parseInt? s).map Key.int

def parseKeys? (s : String) : Option (List Key) :=
  if s = "_" then some [] else (s.splitOn "/").mapM parseKey?

def parseVKind? (s : String) : Option VKind :=
  if s = "s" then some .scalar
  else if s.startsWith "f" then
    ((s.toList.drop 1).mapM (fun c => if c = '1' then some true else if c = '0' then some false else none)).map VKind.full
  else none

def fmtBlockIdx : BlockIdx → String
  | .slice s => fmtSlice s
  | .int i => toString i

def fmtBlock : Option (List BlockIdx × List PySlice) → String
  | none => "A"
  | some (bi, vs) => "/".intercalate (bi.map fmtBlockIdx) ++ "|" ++ "/".intercalate (vs.map fmtSlice)

def keyOk (k : Key) (size : Int) : Bool :=
  match k with
  | .slice s => s.stp ≠ 0
  | .int i => checkIndexInt i size

def handle (cmd : String) (args : List String) : Option String :=
  match cmd, args with
  | "hs.flat_index", [nb, bid] => do
    let nb ← parseNatList? nb; let bid ← parseNatList? bid
    pure s!"ok {flatIndex nb bid}"
  | "hs.unflat", [nb, k] => do
    let nb ← parseNatList? nb; let k ← k.toNat?
    pure ("ok " ++ fmtNatList (unflatIndex nb k))
  | "hs.grid", [nb] => do
    let nb ← parseNatList? nb
    pure ("ok " ++ fmtNatLL (grid nb))
  | "hs.parse_assign", [s, n] => do
    let s ← parseSlice? s; let n ← parseInt? n
    if s.stp = 0 then pure "err ValueError" else
    pure s!"ok {fmtSlice (parseAssign s n)} {parseAssignImplied s n} {fmtBool (parseAssignReversed s n)} {fmtBool (parseAssignPositioned s n)}"
  | "hs.block_assign", [s, l0, l1] => do
    let s ← parseSlice? s; let l0 ← parseInt? l0; let l1 ← parseInt? l1
    if s.stp ≤ 0 then pure "err ValueError" else
    if blkOverlaps s l0 l1 then
      pure s!"ok {fmtSlice ⟨some (blkStart s l0), some (blkStop s l0 l1), s.step⟩} {blkSize s l0 l1} {blkPreceding s l0}"
    else pure "ok A"
  | "hs.value_slice", [b, r, vsize, npre, size] => do
    let b ← parseBool? b; let r ← parseBool? r
    let vsize ← parseInt? vsize; let npre ← parseInt? npre; let size ← parseInt? size
    pure ("ok " ++ fmtSlice (blockValueSlice b r vsize npre size))
  | "hs.setitem_plan", [c, k, v] => do
    let c ← parseIntLL? c; let k ← parseKeys? k; let v ← parseVKind? v
    if k.length ≠ c.length then pure "err IndexError" else
    if ((k.zip (c.map isum)).all (fun a => keyOk a.1 a.2)) = false then pure "err IndexError" else
    pure ("ok " ++ " ".intercalate ((setitemPlan c k v).map fmtBlock))
  | "hs.np_source", [s, n, p] => do
    let s ← parseSlice? s; let n ← parseInt? n; let p ← parseInt? p
    if s.stp = 0 then pure "err ValueError" else
    pure (match npSource s n p with | some k => s!"ok {k}" | none => "ok N")
  | "hs.block_source", [s, n, b, l0, l1, q] => do
    let s ← parseSlice? s; let n ← parseInt? n; let b ← parseBool? b
    let l0 ← parseInt? l0; let l1 ← parseInt? l1; let q ← parseInt? q
    if s.stp = 0 then pure "err ValueError" else
    pure (match blockSource s n b l0 l1 q with | some k => s!"ok {k}" | none => "ok N")
  | "hs.draw", [kind, seed, sp, n] => do
    let kind ← (if kind = "g" then some Kind.generator else if kind = "r" then some Kind.randomState else none)
    let seed ← seed.toNat?; let sp ← sp.toNat?; let n ← n.toNat?
    -- `spawn s k := k`: the output lists the CHILD INDICES drawn (for the Generator kind these are
    -- the `spawn_key`s of the real `SeedSequence` children)
    let spawn := fun (_ k : Nat) => k
    let r := draw spawn kind ⟨seed, sp⟩ n
    pure s!"ok {fmtNatList r.1} {r.2.spawned}"
  | _, _ => none

end Dask.Drv.Hist
