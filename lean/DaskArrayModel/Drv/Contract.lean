import DaskArrayModel.Proto
import DaskArrayModel.Model.Contract
/-!
Line-protocol handler for the contraction family (`ctr.*`), Model/Contract.lean.

A plan is ONE token:   `<full LL>/<split>/<depth>/<direct 0|1>/<opd>|<opd>|…`
  `<full LL>`   `chunkss[label]` per position of `out_ind` (`;`-separated int lists)
  `<split>`     `split_every` per position, 0 = position not contracted
  `<opd>`       `<pos>~<shape>~<chunks LL>~<data>`  (aligned chunks, C-order int data; 0-d: `_~_~-~v`)

  ctr.wf <plan>                  -> ok 0|1
  ctr.den <plan>                 -> ok <shape>:<data>                  NumPy meaning (`contractDen`)
  ctr.chunks <plan>              -> ok <chunks of the product LL>/<chunks of the result LL>
  ctr.deps <plan>                -> ok <bid>=<dep of opd 0>;<dep of opd 1>…|…      (`_compute_block_id`)
  ctr.prod <plan>                -> ok <bid>=<shape>:<data>|…          blockwise product, every block
  ctr.level <plan> <r>           -> ok <numblocks> <bid>=<shape>:<data>|…   grid after r layers (0 = per-block sums)
  ctr.out <plan>                 -> ok <ob>=<shape>:<data>|…           result blocks (`outBlock`)
  ctr.compute <plan>             -> ok <shape>:<data>                  assembled result
  ctr.depth <full LL> <split>    -> ok <planDepth>
  ctr.layer <numblocks> <split> <out>  -> ok <key>|<key>|…            inputs of one tree node (as a set: sorted)
  ctr.align <shapeN> <label chunks>    -> ok <chunks>                  (`alignChunks`)
  ctr.inds tensordot <na> <nb> <left axes> <right axes>
  ctr.inds tensordot_int <na> <nb> <n>      (`axes=n`)        ctr.inds dot <na> <nb>     (`dot(a, b)`)
  ctr.inds matmul <na> <nb>      -> ok a=<ind> b=<ind> out=<ind> axes=<summed positions> [pad=<a>,<b> sq=<a1d>,<b1d>]
                                    | err IndexError | err ValueError
Malformed plan: `err illformed`.
-/
namespace Dask.Drv.Contract
open Dask.Py Dask.Proto Dask.ND Dask.Reduce Dask.Contract

def parseBool? (s : String) : Option Bool :=
  if s = "1" then some true else if s = "0" then some false else none

def parseOpd? (s : String) : Option Opd :=
  match s.splitOn "~" with
  | [pos, shape, chunks, data] => do
    let pos ← parseNatList? pos
    let shape ← parseNatList? shape
    let chunks ← parseNatLL? chunks
    let data ← parseIntList? data
    pure ⟨Arr.ofList shape data, chunks, pos⟩
  | _ => none

def parsePlan? (s : String) : Option Plan :=
  match s.splitOn "/" with
  | [full, split, depth, direct, ops] => do
    let full ← parseNatLL? full
    let split ← parseNatList? split
    let depth ← depth.toNat?
    let direct ← parseBool? direct
    let ops ← (ops.splitOn "|").mapM parseOpd?
    pure { ops := ops, full := full, split := split, depth := depth, direct := direct }
  | _ => none

/-- materialise (evaluate every element once) -/
def mat (a : Arr Int) : Arr Int := Arr.ofList a.shape a.toList

def fmtArr (a : Arr Int) : String := fmtNatList a.shape ++ ":" ++ fmtIntList a.toList

def fmtBlocks (bs : List (List Nat × Arr Int)) : String :=
  if bs.isEmpty then "-" else "|".intercalate (bs.map (fun p => fmtNatList p.1 ++ "=" ++ fmtArr p.2))

def lookupBlk (tbl : List (List Nat × Arr Int)) (bid : List Nat) : Arr Int :=
  ((tbl.find? (fun p => p.1 == bid)).map (·.2)).getD ⟨[], fun _ => 0⟩

/-- level-0 table (per-block sums of the product blocks), materialised -/
def level0Tbl (P : Plan) : List (List Nat × Arr Int) :=
  (allBids P.full).map (fun bid => (bid, mat (level0 P bid)))

def fmtExcept (e : Dask.Contract.Err) : String :=
  match e with
  | .indexError => "err IndexError"
  | .valueError => "err ValueError"

def insertSorted (x : Nat) : List Nat → List Nat
  | [] => [x]
  | y :: ys => if x ≤ y then x :: y :: ys else y :: insertSorted x ys

/-- the summed positions are printed sorted (the reduction takes them as a set) -/
def fmtInds (i : Inds) : String :=
  s!"a={fmtNatList i.aInd} b={fmtNatList i.bInd} out={fmtNatList i.outInd} axes={fmtNatList (i.axes.foldr insertSorted [])}"

def lexLe : List Nat → List Nat → Bool
  | [], _ => true
  | _ :: _, [] => false
  | a :: as, b :: bs => if a < b then true else if b < a then false else lexLe as bs

def insertKey (x : List Nat) : List (List Nat) → List (List Nat)
  | [] => [x]
  | y :: ys => if lexLe x y then x :: y :: ys else y :: insertKey x ys

def b01 (b : Bool) : String := if b then "1" else "0"

def handle (cmd : String) (args : List String) : Option String :=
  match cmd, args with
  | "ctr.wf", [p] =>
    match parsePlan? p with
    | none => some "err illformed"
    | some P => some s!"ok {b01 P.wf}"
  | "ctr.den", [p] =>
    match parsePlan? p with
    | none => some "err illformed"
    | some P => some ("ok " ++ fmtArr (contractDen P))
  | "ctr.chunks", [p] =>
    match parsePlan? p with
    | none => some "err illformed"
    | some P => some ("ok " ++ fmtNatLL (prodChunks P) ++ "/" ++ fmtNatLL (outChunks P))
  | "ctr.deps", [p] =>
    match parsePlan? p with
    | none => some "err illformed"
    | some P =>
      some ("ok " ++ "|".intercalate ((allBids P.full).map (fun bid =>
        fmtNatList bid ++ "=" ++ fmtNatLL (P.ops.map (fun o => depBid o bid)))))
  | "ctr.prod", [p] =>
    match parsePlan? p with
    | none => some "err illformed"
    | some P => some ("ok " ++ fmtBlocks ((allBids P.full).map (fun bid => (bid, blockProd P bid))))
  | "ctr.level", [p, r] =>
    match parsePlan? p, r.toNat? with
    | some P, some r =>
      let tbl := level0Tbl P
      let nb := nbAfter P.split r (numblocks P.full)
      let G := tree addBlocks P.split r (numblocks P.full) (lookupBlk tbl)
      some ("ok " ++ fmtNatList nb ++ " " ++ fmtBlocks ((allIdx nb).map (fun bid => (bid, G bid))))
    | _, _ => some "err illformed"
  | "ctr.out", [p] =>
    match parsePlan? p with
    | none => some "err illformed"
    | some P =>
      let tbl := level0Tbl P
      let blk (ob : List Nat) : Arr Int :=
        let key := merge P.mask ob (zerosOf P.mask)
        if P.direct then dropMasked P.mask (blockProd P key)
        else dropMasked P.mask (tree addBlocks P.split P.depth (numblocks P.full) (lookupBlk tbl) key)
      some ("ok " ++ fmtBlocks ((allBids (outChunks P)).map (fun ob => (ob, blk ob))))
  | "ctr.compute", [p] =>
    match parsePlan? p with
    | none => some "err illformed"
    | some P =>
      let tbl := (allBids (outChunks P)).map (fun ob => (ob, mat (outBlock P ob)))
      some ("ok " ++ fmtArr (assemble (outChunks P) (lookupBlk tbl)))
  | "ctr.depth", [full, split] => do
    let full ← parseNatLL? full
    let split ← parseNatList? split
    pure s!"ok {planDepth full split}"
  | "ctr.layer", [nb, split, out] => do
    let nb ← parseNatList? nb
    let split ← parseNatList? split
    let out ← parseNatList? out
    pure ("ok " ++ "|".intercalate (((cart (groupsAt nb split out)).foldr insertKey []).map fmtNatList))
  | "ctr.align", [n, cs] => do
    let n ← n.toNat?
    let cs ← parseNatList? cs
    pure ("ok " ++ fmtNatList (alignChunks n cs))
  | "ctr.inds", ["tensordot", na, nb, la, ra] => do
    let na ← na.toNat?
    let nb ← nb.toNat?
    let la ← parseIntList? la
    let ra ← parseIntList? ra
    match tensordotInds na nb la ra with
    | .error e => pure (fmtExcept e)
    | .ok i => pure ("ok " ++ fmtInds i)
  | "ctr.inds", ["tensordot_int", na, nb, n] => do
    let na ← na.toNat?
    let nb ← nb.toNat?
    let n ← n.toNat?
    let ax := tensordotIntAxes na n
    match tensordotInds na nb ax.1 ax.2 with
    | .error e => pure (fmtExcept e)
    | .ok i => pure ("ok " ++ fmtInds i)
  | "ctr.inds", ["dot", na, nb] => do
    let na ← na.toNat?
    let nb ← nb.toNat?
    let ax := dotAxes na nb
    match tensordotInds na nb ax.1 ax.2 with
    | .error e => pure (fmtExcept e)
    | .ok i => pure ("ok " ++ fmtInds i)
  | "ctr.inds", ["matmul", na, nb] => do
    let na ← na.toNat?
    let nb ← nb.toNat?
    match matmulInds na nb with
    | .error e => pure (fmtExcept e)
    | .ok m => pure ("ok " ++ fmtInds m.inds ++ s!" pad={m.padA},{m.padB} sq={b01 m.a1d},{b01 m.b1d}")
  | _, _ => none

end Dask.Drv.Contract
