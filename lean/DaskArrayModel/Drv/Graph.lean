/-
Driver commands for the graph family (C04 / C21):
  gr.grid <numblocks>                     block-index grid in `__dask_keys__` order
  gr.walk <names> <deps> <roots>          nodes emitted by `_walk_records` with a shared `seen`
  gr.istopo <deps per key> <order>        is `order` a topological order of the graph skeleton
  gr.materialize <renamed> <inner> <nb>   tail of `_materialize` (RootAlias pin / embedded-root guard)
  gr.flatten <key> <node>                 `_records(key, node)` of dask_array/_frisky/graph_records.py

Encoding (one token, no spaces; see harness/props/C21.py `Enc`):
  key  := name(:comp)*  with comp := int | 'str ;  bare string key := $name
  node := R<key> | A<key> | D<n> | V<n> | L[n;…] | T[n;…] | l[n;…] | t[n;…] | K<fid>(kw,…|n;…)
-/
import DaskArrayModel.Proto
import DaskArrayModel.Model.Graph
namespace Dask.Drv.Graph
open Dask.Proto Dask.Graph

abbrev N := Node PKey String Nat
abbrev A := Args PKey String Nat

def isNameChar (c : Char) : Bool := c.isAlphanum || c = '_' || c = '.' || c = '-'

def takeWhileC (p : Char → Bool) : List Char → List Char × List Char
  | [] => ([], [])
  | c :: cs => if p c then let r := takeWhileC p cs; (c :: r.1, r.2) else ([], c :: cs)

def parseComp (cs : List Char) : Option (Comp × List Char) :=
  match cs with
  | '\'' :: rest =>
    let r := takeWhileC isNameChar rest
    some (.str (String.ofList r.1), r.2)
  | _ =>
    let r := takeWhileC (fun c => c.isDigit || c = '-') cs
    match (String.ofList r.1).toInt? with
    | some i => some (.int i, r.2)
    | none => none

partial def parseComps (cs : List Char) (acc : List Comp) : Option (List Comp × List Char) :=
  match cs with
  | ':' :: rest =>
    match parseComp rest with
    | some (c, rest') => parseComps rest' (acc ++ [c])
    | none => none
  | _ => some (acc, cs)

def parseKey (cs : List Char) : Option (PKey × List Char) :=
  match cs with
  | '$' :: rest =>
    let r := takeWhileC isNameChar rest
    some (.bare (String.ofList r.1), r.2)
  | _ =>
    let r := takeWhileC isNameChar cs
    if r.1.isEmpty then none else
    match parseComps r.2 [] with
    | some (comps, rest) => some (.tup (String.ofList r.1) comps, rest)
    | none => none

def argsOfList : List N → A
  | [] => .nil
  | x :: xs => .cons x (argsOfList xs)

mutual
partial def parseNode (cs : List Char) : Option (N × List Char) :=
  match cs with
  | 'R' :: rest => (parseKey rest).map (fun (k, r) => (.taskRef k, r))
  | 'A' :: rest => (parseKey rest).map (fun (k, r) => (.alias k, r))
  | 'D' :: rest =>
    let r := takeWhileC Char.isDigit rest
    (String.ofList r.1).toNat?.map (fun n => (.data n, r.2))
  | 'V' :: rest =>
    let r := takeWhileC Char.isDigit rest
    (String.ofList r.1).toNat?.map (fun n => (.lit n, r.2))
  | 'L' :: '[' :: rest => (parseNodes rest ']' []).map (fun (xs, r) => (.list (argsOfList xs), r))
  | 'T' :: '[' :: rest => (parseNodes rest ']' []).map (fun (xs, r) => (.tuple (argsOfList xs), r))
  | 'l' :: '[' :: rest => (parseNodes rest ']' []).map (fun (xs, r) => (.plist (argsOfList xs), r))
  | 't' :: '[' :: rest => (parseNodes rest ']' []).map (fun (xs, r) => (.ptuple (argsOfList xs), r))
  | 'K' :: rest =>
    let f := takeWhileC (fun c => c ≠ '(') rest
    match f.2 with
    | '(' :: rest1 =>
      let kws := takeWhileC (fun c => c ≠ '|') rest1
      match kws.2 with
      | '|' :: rest2 =>
        let kw := if kws.1.isEmpty then [] else (String.ofList kws.1).splitOn ","
        (parseNodes rest2 ')' []).map (fun (xs, r) => (.task (String.ofList f.1) kw (argsOfList xs), r))
      | _ => none
    | _ => none
  | _ => none
partial def parseNodes (cs : List Char) (close : Char) (acc : List N) : Option (List N × List Char) :=
  match cs with
  | [] => none
  | c :: rest =>
    if c = close then some (acc, rest)
    else if c = ';' then parseNodes rest close acc
    else
      match parseNode cs with
      | some (x, rest') => parseNodes rest' close (acc ++ [x])
      | none => none
end

mutual
partial def fmtArg : Arg String Nat → String
  | .ref s => "R" ++ s
  | .lit n => "V" ++ toString n
  | .list xs => "l[" ++ ";".intercalate (xs.map fmtArg) ++ "]"
  | .tuple xs => "t[" ++ ";".intercalate (xs.map fmtArg) ++ "]"
end

def fmtFn : Fn String → String
  | .ident => "id"
  | .fn f => f

def fmtRec (r : Rec String String Nat) : String :=
  "#".intercalate [r.key, fmtFn r.func,
    ",".intercalate r.kw ++ "|" ++ ";".intercalate (r.args.map fmtArg), "+".intercalate r.deps]

def fmtIdx (i : List Nat) : String := if i.isEmpty then "_" else ",".intercalate (i.map toString)

/-- model nodes for `gr.materialize`: an optimized root "O" over an inner node ("R" when the raw
name is embedded, "I" otherwise) -/
def matNodes (inner : Bool) (nb : List Nat) : List (ENode Nat) × ENode Nat :=
  let src : ENode Nat := { name := if inner then "R" else "I", numblocks := nb, deps := [], layer := [] }
  let root : ENode Nat := { name := "O", numblocks := nb, deps := [(src.name, nb)], layer := [] }
  ([src], root)

def handle (cmd : String) (args : List String) : Option String :=
  match cmd, args with
  | "gr.grid", [nb] => do
    let nb ← parseNatList? nb
    let g := grid nb
    pure ("ok " ++ (if g.isEmpty then "-" else ";".intercalate (g.map fmtIdx)))
  | "gr.istopo", [deps, order] => do
    let deps ← parseNatLL? deps
    let order ← parseNatList? order
    let sk := (List.range deps.length).zip deps
    pure (if isTopoB sk order then "ok 1" else "ok 0")
  | "gr.walk", [names, deps, roots] => do
    -- nodes are numbered; `names[i]` is the name id of node i, `deps[i]` its dependencies
    let names ← parseNatList? names
    let deps ← parseNatLL? deps
    let roots ← parseNatList? roots
    match walkAll (fun i => names.getD i 0) (fun i => deps.getD i []) (4 * (names.length + 1) * (names.length + 1))
        roots [] [] with
    | none => pure "err fuel"
    | some (_, out) => pure ("ok " ++ fmtNatList (out.map (fun i => names.getD i 0)))
  | "gr.materialize", [renamed, inner, nb] => do
    let nb ← parseNatList? nb
    let (pre, root) := matNodes (inner = "1") nb
    let raw := if renamed = "1" then "R" else "O"
    match materialize raw pre root with
    | .error e => pure ("err " ++ e)
    | .ok nodes =>
      match nodes.getLast? with
      | none => pure "err empty"
      | some last =>
        if last.name = root.name ∧ last.layer.isEmpty then pure "ok same" else
        let items := last.layer.map (fun (k, t) =>
          let tgt := t.deps.headD (blockKey "?" [])
          (if k.owner = raw then "R" else "?") ++ ",".intercalate (k.idx.map toString) ++ ">" ++
          (if tgt.owner = root.name then "O" else "?") ++ ",".intercalate (tgt.idx.map toString))
        pure ("ok alias " ++ ";".intercalate items)
  | "gr.flatten", [key, node] =>
    match parseKey key.toList with
    | some (k, []) =>
      match parseNode node.toList with
      | some (n, []) =>
        let recs := records pyCfg k.pyStr n
        some ("ok " ++ "##".intercalate (recs.map fmtRec))
      | _ => some "err parse-node"
    | _ => some "err parse-key"
  | _, _ => none

end Dask.Drv.Graph
