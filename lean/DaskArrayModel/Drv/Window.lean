import DaskArrayModel.Proto
import DaskArrayModel.Model.Window
/-
Line protocol for the windowed-operation planners (`wn.*`).
  wn.supports_sliding <chunks> W  -> ok 0|1
  wn.out_chunks <chunks> W        -> ok <int list>
  wn.block_plan <chunks> W        -> ok outLen,bandOffset,b,e;…
  wn.sliding_layer <chunks> W     -> ok i:outLen,bandOffset,<middle blocks>,<band blocks>;…  (emitted tasks)
  wn.supports_moving <chunks> W   -> ok 0|1
  wn.moving_plan <chunks> W       -> ok start,c,bandOffset,g,h,nTrunc,<middle blocks '.'-joined or ->;…
  wn.min_chunksize size <chunks>  -> ok <int list> | err ValueError
  wn.rechunked <chunks> before after bnone(0|1) -> ok <int list> | err ValueError
  wn.internal_chunks <bds> left right           -> ok <int list>
  wn.trim_chunks <bd> left right bnone          -> ok <int list>
  wn.boundary periodic|reflect|nearest|constant n depth -> ok src0,src1,…  (N = constant fill)
-/
namespace Dask.Drv.Window
open Dask.Proto Dask.Py Dask.Window

def fmtSPlan (p : SPlan) : String := s!"{p.outLen},{p.bandOffset},{p.b},{p.e}"

def fmtMid (lo hi : Int) : String :=
  let l := rangeList lo hi 1
  if l.isEmpty then "-" else ".".intercalate (l.map toString)

def fmtMPlan (p : MPlan) : String :=
  s!"{p.start},{p.c},{p.bandOffset},{fmtOptInt p.g},{fmtOptInt p.h},{p.nTrunc},{fmtMid p.midLo p.midHi}"

def fmtBool (b : Bool) : String := if b then "ok 1" else "ok 0"

def handle (cmd : String) (args : List String) : Option String :=
  match cmd, args with
  | "wn.supports_sliding", [c, w] => do
    let c ← parseIntList? c; let w ← parseInt? w
    if c.isEmpty then pure "err ValueError" else pure (fmtBool (supportsNativeSliding c w))
  | "wn.out_chunks", [c, w] => do
    let c ← parseIntList? c; let w ← parseInt? w
    pure ("ok " ++ fmtIntList (slidingOutChunks c w))
  | "wn.block_plan", [c, w] => do
    let c ← parseIntList? c; let w ← parseInt? w
    pure ("ok " ++ ";".intercalate ((slidingBlockPlan c w).map fmtSPlan))
  | "wn.sliding_layer", [c, w] => do
    let c ← parseIntList? c; let w ← parseInt? w
    let rows := (slidingLayer c w).map (fun (i, p) =>
      s!"{i}:{p.outLen},{p.bandOffset},{fmtMid ((i : Int) + 1) p.b},{fmtMid p.b (p.e + 1)}")
    pure ("ok " ++ (if rows.isEmpty then "-" else ";".intercalate rows))
  | "wn.supports_moving", [c, w] => do
    let c ← parseIntList? c; let w ← parseInt? w
    if c.isEmpty then pure "err ValueError" else pure (fmtBool (supportsNativeMoving c w))
  | "wn.moving_plan", [c, w] => do
    let c ← parseIntList? c; let w ← parseInt? w
    pure ("ok " ++ ";".intercalate ((movingBlockPlan c w).map fmtMPlan))
  | "wn.min_chunksize", [s, c] => do
    let s ← parseInt? s; let c ← parseIntList? c
    if c.isEmpty then pure "err ValueError" else
    match ensureMinimumChunksize s c with
    | some r => pure ("ok " ++ fmtIntList r)
    | none => pure "err ValueError"
  | "wn.rechunked", [c, b, a, bn] => do
    let c ← parseIntList? c; let b ← parseInt? b; let a ← parseInt? a; let bn ← parseInt? bn
    if c.isEmpty then pure "err ValueError" else
    match overlapRechunkedChunks c b a (bn ≠ 0) with
    | some r => pure ("ok " ++ fmtIntList r)
    | none => pure "err ValueError"
  | "wn.internal_chunks", [c, l, r] => do
    let c ← parseIntList? c; let l ← parseInt? l; let r ← parseInt? r
    pure ("ok " ++ fmtIntList (overlapInternalChunks c l r))
  | "wn.trim_chunks", [c, l, r, bn] => do
    let c ← parseIntList? c; let l ← parseInt? l; let r ← parseInt? r; let bn ← parseInt? bn
    pure ("ok " ++ fmtIntList (trimInternalChunks c l r (bn ≠ 0)))
  | "wn.boundary", [k, n, d] => do
    let n ← parseInt? n; let d ← parseInt? d
    let kind ← (match k with
      | "periodic" => some Boundary.periodic
      | "reflect" => some Boundary.reflect
      | "nearest" => some Boundary.nearest
      | "constant" => some Boundary.constant
      | _ => none)
    let ps := rangeList 0 (n + 2 * d) 1
    pure ("ok " ++ (if ps.isEmpty then "_" else ",".intercalate (ps.map (fun p => fmtOptInt (boundarySrc kind n d p)))))
  | _, _ => none

end Dask.Drv.Window
