/-
Line protocol for the chunk-normalisation family `ck.*` (model: Model/Chunks.lean).
Extra tokens: a spec list is `/`-separated, one entry per axis: `N` (None), `A` ("auto"), `i<int>`,
`t<intlist>` (explicit tuple, `t_` empty), `b<int>` (byte string already parsed); the empty list is `-`.
An oracle list is `_` or `,`-separated `<floor>:<0|1>` pairs.
-/
import DaskArrayModel.Proto
import DaskArrayModel.Model.Chunks
namespace Dask.Drv.Chunks
open Dask.Py Dask.Proto Dask.Chunks

def fmtErr : Err → String
  | .valueError => "err ValueError"
  | .zeroDivisionError => "err ZeroDivisionError"
  | .oracleExhausted => "err OracleExhausted"

def parseSpec? (s : String) : Option Spec :=
  if s = "N" then some .none
  else if s = "A" then some .auto
  else
    let body := (s.drop 1).toString
    match s.front with
    | 'i' => body.toInt?.map Spec.int
    | 'b' => body.toInt?.map Spec.bytes
    | 't' => (parseIntList? body).map Spec.tuple
    | _ => none

def parseSpecs? (s : String) : Option (List Spec) :=
  if s = "-" then some [] else (s.splitOn "/").mapM parseSpec?

def fmtSpec : Spec → String
  | .none => "N"
  | .auto => "A"
  | .int c => "i" ++ toString c
  | .bytes b => "b" ++ toString b
  | .tuple t => "t" ++ fmtIntList t

def fmtSpecs (l : List Spec) : String :=
  if l.isEmpty then "-" else "/".intercalate (l.map fmtSpec)

def parseOrc1? (s : String) : Option (Nat × Bool) :=
  match s.splitOn ":" with
  | [a, b] => do
    let a ← a.toNat?
    if b = "1" then pure (a, true) else if b = "0" then pure (a, false) else none
  | _ => none

def parseOrc? (s : String) : Option (List (Nat × Bool)) :=
  if s = "_" then some [] else (s.splitOn ",").mapM parseOrc1?

def parseBool? (s : String) : Option Bool :=
  if s = "1" then some true else if s = "0" then some false else none

def handle (cmd : String) (args : List String) : Option String :=
  match cmd, args with
  | "ck.blockdim", [d, bd] => do
    let d ← parseInt? d; let bd ← parseInt? bd
    match blockdim d bd with
    | .ok r => pure ("ok " ++ fmtIntList r)
    | .error e => pure (fmtErr e)
  | "ck.round_to", [c, s] => do
    let c ← parseInt? c; let s ← parseInt? s
    match roundTo c s with
    | .ok r => pure s!"ok {r}"
    | .error e => pure (fmtErr e)
  | "ck.round_to_f", [cf, ex, s] => do
    let cf ← cf.toNat?; let ex ← parseBool? ex; let s ← parseInt? s
    match roundToF cf ex s with
    | .ok r => pure s!"ok {r}"
    | .error e => pure (fmtErr e)
  | "ck.auto", [orc, specs, shape] => do
    let orc ← parseOrc? orc; let specs ← parseSpecs? specs; let shape ← parseIntList? shape
    match autoNoPrev orc specs shape with
    | .ok r => pure ("ok " ++ fmtSpecs r)
    | .error e => pure (fmtErr e)
  | "ck.auto_layout", [orc, specs, shape] => do
    -- `_convert_int_chunk_to_tuple(shape, auto_chunks(...))`: the layout, not its int/tuple representation
    let orc ← parseOrc? orc; let specs ← parseSpecs? specs; let shape ← parseIntList? shape
    match autoNoPrev orc specs shape with
    | .error e => pure (fmtErr e)
    | .ok r =>
      match convertAll r shape with
      | .ok ll => pure ("ok " ++ fmtIntLL ll)
      | .error e => pure (fmtErr e)
  | "ck.norm", [orc, lim, specs, shape] => do
    let orc ← parseOrc? orc; let lim ← parseOptInt? lim
    let specs ← parseSpecs? specs; let shape ← parseIntList? shape
    match normalizeChunks orc lim specs shape with
    | .ok r => pure ("ok " ++ fmtIntLL r)
    | .error e => pure (fmtErr e)
  | "ck.norm_axis", [ai, spec, s] => do
    let ai ← parseBool? ai; let spec ← parseSpec? spec; let s ← parseInt? s
    match normAxis ai spec s with
    | .ok r => pure ("ok " ++ fmtIntList r)
    | .error e => pure (fmtErr e)
  | "ck.merge_prev", [pf, prev] => do
    let pf ← parseInt? pf; let prev ← parseIntList? prev
    pure ("ok " ++ fmtIntList (mergePrev pf prev))
  | "ck.prev1d_reduce", [pf, ex, prev, n] => do
    -- one auto axis, `previous_chunks` given, `round_to(proposed, ideal_shape)` branch:
    -- `ideal` and the returned layout `blockdims_from_blockshape((n,), (round_to(proposed, ideal),))`
    let pf ← pf.toNat?; let ex ← parseBool? ex; let prev ← parseIntList? prev; let n ← parseInt? n
    let ideal := idealAxis prev n
    match roundToF pf ex ideal with
    | .error e => pure (fmtErr e)
    | .ok c =>
      match blockdim n c with
      | .ok r => pure s!"ok {ideal} {fmtIntList r}"
      | .error e => pure (fmtErr e)
  | "ck.ideal", [prev, s] => do
    let prev ← parseIntList? prev; let s ← parseInt? s
    pure s!"ok {idealAxis prev s}"
  | _, _ => none

end Dask.Drv.Chunks
