import DaskArrayModel.Proto
import DaskArrayModel.Model.Fusion
/-!
Line-protocol handler for blockwise fusion (`fu.*`, C02 last clause).

Group encoding (one token, no spaces): members separated by `|`, root first; a member is
`<kind>/<out_ind>/<new_axes>/<numblocks>/<args>` with kind `b` (Blockwise) `e` (Elemwise) `t` (Transpose,
out_ind = axes) `o` (Random / BroadcastTrick); int lists `1,2` (empty `_`); args separated by `+`
(none: `-`), an arg is `m<member position>:<ind>:<numblocks>` or `x<external input>:<ind>:<numblocks>`.

  fu.block_ids <group> <root block>  -> ok <id per member, `;`-separated, `N` = unassigned> <external reads> <dangling>
                                        | err KeyError | err ValueError
        external reads: sorted, duplicate-free `<ext>:<block>` joined by `;` (none: `-`);
        dangling: internal references `<member>:<block>` of member tasks that are NOT the block assigned
        to that member (they leave the fused task as references to keys nobody produces), same format
  fu.conflicts <group>               -> ok <kept member positions>
  fu.conflict_set <group>            -> ok <conflicting member positions, sorted>
  fu.hyp <group> <root block>        -> ok <WF 0|1> <Ordered 0|1> <Accepted 0|1> <ValidBlock 0|1>
  fu.check <group> <root block>      -> ok <0|1>: the CONCLUSION of C02_fuse_block_ids evaluated by brute force
        (every member assigned; every (member, block) on every path has the assigned block; the fused
        reads are exactly the reads along all paths; internal references resolve)
  fu.paths <group> <root block>      -> ok <external reads along every path of the unfused group, as above>
-/
namespace Dask.Drv.Fusion
open Dask.Proto Dask.Fusion

def parseKind? (s : String) : Option Kind :=
  if s = "b" then some .blockwise else if s = "e" then some .elemwise
  else if s = "t" then some .transpose else if s = "o" then some .other else none

def parseArg? (s : String) : Option Arg :=
  match s.splitOn ":" with
  | [src, ind, nb] => do
    let ind ← parseNatList? ind
    let nb ← parseNatList? nb
    let k ← (src.drop 1).toNat?
    if src.startsWith "m" then pure ⟨.mem k, ind, nb⟩
    else if src.startsWith "x" then pure ⟨.ext k, ind, nb⟩
    else none
  | _ => none

def parseArgs? (s : String) : Option (List Arg) :=
  if s = "-" then some [] else (s.splitOn "+").mapM parseArg?

def parseNode? (s : String) : Option Node :=
  match s.splitOn "/" with
  | [k, oi, na, nb, args] => do
    let k ← parseKind? k
    let oi ← parseNatList? oi
    let na ← parseNatList? na
    let nb ← parseNatList? nb
    let args ← parseArgs? args
    pure ⟨k, oi, na, args, nb⟩
  | _ => none

def parseGroup? (s : String) : Option Group := (s.splitOn "|").mapM parseNode?

def cmpList : List Nat → List Nat → Ordering
  | [], [] => .eq
  | [], _ :: _ => .lt
  | _ :: _, [] => .gt
  | a :: s, b :: t => if a < b then .lt else if b < a then .gt else cmpList s t

def leRead (x y : Nat × List Nat) : Bool :=
  if x.1 < y.1 then true else if y.1 < x.1 then false else cmpList x.2 y.2 != .gt

def insertRead (x : Nat × List Nat) : List (Nat × List Nat) → List (Nat × List Nat)
  | [] => [x]
  | y :: t => if x = y then y :: t else if leRead x y then x :: y :: t else y :: insertRead x t

def canonReads (l : List (Nat × List Nat)) : List (Nat × List Nat) := l.foldl (fun acc x => insertRead x acc) []

def fmtReads (l : List (Nat × List Nat)) : String :=
  let l := canonReads l
  if l.isEmpty then "-" else ";".intercalate (l.map fun x => s!"{x.1}:{fmtNatList x.2}")

def fmtIds (g : Group) (ids : Nat → Option (List Nat)) : String :=
  ";".intercalate ((List.range g.length).map fun i => match ids i with | none => "N" | some b => fmtNatList b)

/-- `_compute_block_id` would raise ValueError in some member task -/
def valueError (g : Group) (ids : Nat → Option (List Nat)) : Bool :=
  (List.range g.length).any fun i =>
    match ids i with
    | none => false
    | some b =>
      (node g i).kind == .blockwise &&
        (node g i).args.any fun a => !computeBlockIdOk a.ind (idxToBlock (node g i) b) a.nb

def bit (b : Bool) : String := if b then "1" else "0"

def insertNat (x : Nat) : List Nat → List Nat
  | [] => [x]
  | y :: t => if x = y then y :: t else if x < y then x :: y :: t else y :: insertNat x t

def bruteCheck (g : Group) (r : List Nat) : Bool :=
  match computeBlockIds g r with
  | none => false
  | some ids =>
    let n := g.length
    (List.range n).all (fun m => (ids m).isSome) &&
    (pathsMembers g (n + 1) 0 r).all (fun x => ids x.1 == some x.2) &&
    (canonReads (fusedReads g ids) == canonReads (pathsReads g (n + 1) 0 r)) &&
    (fusedInternalRefs g ids).all (fun x => ids x.1 == some x.2)

def handle (cmd : String) (args : List String) : Option String :=
  match cmd, args with
  | "fu.block_ids", [g, r] => do
    let g ← parseGroup? g; let r ← parseNatList? r
    match computeBlockIds g r with
    | none => pure "err KeyError"
    | some ids =>
      if valueError g ids then pure "err ValueError" else
      let dangling := (fusedInternalRefs g ids).filter fun x => ids x.1 != some x.2
      pure s!"ok {fmtIds g ids} {fmtReads (fusedReads g ids)} {fmtReads dangling}"
  | "fu.conflicts", [g] => do
    let g ← parseGroup? g
    pure s!"ok {fmtNatList (removeConflicting g)}"
  | "fu.conflict_set", [g] => do
    let g ← parseGroup? g
    let c := if g.length ≤ 1 then [] else (conflictsOf g).foldl (fun acc x => insertNat x acc) []
    pure s!"ok {fmtNatList c}"
  | "fu.hyp", [g, r] => do
    let g ← parseGroup? g; let r ← parseNatList? r
    pure s!"ok {bit (decide (WF g))} {bit (decide (Ordered g))} {bit (decide (Accepted g))} {bit (decide (ValidBlock g r))}"
  | "fu.check", [g, r] => do
    let g ← parseGroup? g; let r ← parseNatList? r
    pure s!"ok {bit (bruteCheck g r)}"
  | "fu.paths", [g, r] => do
    let g ← parseGroup? g; let r ← parseNatList? r
    pure s!"ok {fmtReads (pathsReads g (g.length + 1) 0 r)}"
  | _, _ => none

end Dask.Drv.Fusion
