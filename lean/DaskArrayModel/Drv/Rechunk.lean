import DaskArrayModel.Proto
import DaskArrayModel.Model.Rechunk
namespace Dask.Drv.Rechunk
open Dask.Py Dask.Proto Dask.Rechunk

def fmtPieces (l : List Piece) : String :=
  if l.isEmpty then "_" else ",".intercalate (l.map (fun p => s!"{p.idx}@{p.s}:{p.e}"))

def fmtCross (l : List (List Piece)) : String :=
  if l.isEmpty then "-" else ";".intercalate (l.map fmtPieces)

def handle (cmd : String) (args : List String) : Option String :=
  match cmd, args with
  | "rc.old_to_new", [o, n] => do
    let o ← parseIntList? o; let n ← parseIntList? n
    pure ("ok " ++ fmtCross (oldToNew1d o n))
  | "rc.divide_to_width", [d, w] => do
    let d ← parseIntList? d; let w ← parseInt? w
    pure ("ok " ++ fmtIntList (divideToWidth d w))
  | "rc.merge_to_number", [d, k] => do
    let d ← parseIntList? d; let k ← parseInt? k
    pure ("ok " ++ fmtIntList (mergeToNumber d k))
  | "rc.moved_num", [s, d] => do
    let s ← parseIntList? s; let d ← parseIntList? d
    pure s!"ok {movedNum s d} {isum s}"
  | "rc.stage_axis", [o, n] => do
    let o ← parseIntList? o; let n ← parseIntList? n
    let c := stageAxis o n
    pure s!"ok {c.t} {c.l} {c.r} {c.u} {c.s}"
  | "rc.stage_transfer", [o, n, it] => do
    let o ← parseIntLL? o; let n ← parseIntLL? n; let it ← parseInt? it
    let r := stageTransfer o n it
    pure s!"ok {r.1} {r.2}"
  | _, _ => none

end Dask.Drv.Rechunk
