/-
Line-protocol handler for the `ix.*` family (n-D indexing model, Model/Indexing.lean).

Index tuples are one token: items separated by `|`, the empty tuple is `()`.
Items: integer `3` / `-3`; slice `a:b:c` (`N` = None); `None`; `...`; integer list `L1,2,3` (`L_` empty).
Per-block local indices (`Loc`) print as a slice `a:b:c` or a bare integer.
Shapes / chunk lists use the common tokens (`3,4`, `_`; `2,1;3`, `-`).
-/
import DaskArrayModel.Proto
import DaskArrayModel.Model.Indexing
namespace Dask.Drv.Indexing
open Dask.Py Dask.Py.PySlice Dask.Proto Dask.Slicing Dask.Indexing

def fmtErr : Err → String
  | .notImplemented => "err NotImplementedError"
  | .indexError => "err IndexError"
  | .valueError => "err ValueError"
  | .typeError => "err TypeError"

def parseItem? (t : String) : Option Ix :=
  if t = "None" then some .none_
  else if t = "..." then some .ellipsis
  else if t.startsWith "L" then (parseIntList? (t.drop 1).toString).map Ix.lst
  else if t.contains ':' then (parseSlice? t).map Ix.slc
  else (parseInt? t).map Ix.int

def parseIndex? (s : String) : Option (List Ix) :=
  if s = "()" then some [] else (s.splitOn "|").mapM parseItem?

def fmtItem : Ix → String
  | .int i => toString i
  | .slc s => fmtSlice s
  | .none_ => "None"
  | .ellipsis => "..."
  | .lst l => "L" ++ fmtIntList l

def fmtIndex (idx : List Ix) : String :=
  if idx.isEmpty then "()" else "|".intercalate (idx.map fmtItem)

def fmtLoc : Loc → String
  | .slc s => fmtSlice s
  | .int i => toString i

def fmtEntry (e : List Nat × List Nat × List Loc) : String :=
  fmtNatList e.1 ++ ">" ++ fmtNatList e.2.1 ++ ">" ++
    (if e.2.2.isEmpty then "()" else "|".intercalate (e.2.2.map fmtLoc))

/-- flat (C-order) input offsets of the cartesian product of per-axis positions. -/
def flatOffsets (shape : List Int) (pos : List (List Int)) : List Int :=
  (cart pos).map (fun p => (List.zip p shape).foldl (fun acc (q : Int × Int) => acc * q.2 + q.1) 0)

def handle (cmd : String) (args : List String) : Option String :=
  match cmd, args with
  | "ix.replace_ellipsis", [n, idx] => do
    let n ← n.toNat?; let idx ← parseIndex? idx
    pure ("ok " ++ fmtIndex (replaceEllipsis n idx))
  | "ix.normalize", [shape, idx] => do
    let shape ← parseIntList? shape; let idx ← parseIndex? idx
    match normalizeIndex idx shape with
    | .ok r => pure ("ok " ++ fmtIndex r)
    | .error e => pure (fmtErr e)
  | "ix.np", [shape, idx] => do
    let shape ← parseIntList? shape; let idx ← parseIndex? idx
    match npIndex idx shape with
    | .ok r => pure ("ok " ++ fmtIntLL r.1 ++ " " ++ fmtNatList r.2)
    | .error e => pure (fmtErr e)
  | "ix.npflat", [shape, idx] => do
    let shape ← parseIntList? shape; let idx ← parseIndex? idx
    match npIndex idx shape with
    | .ok r => pure ("ok " ++ fmtNatList r.2 ++ " " ++ fmtIntList (flatOffsets shape r.1))
    | .error e => pure (fmtErr e)
  | "ix.ssi_chunks", [chunks, idx] => do
    let chunks ← parseIntLL? chunks; let idx ← parseIndex? idx
    pure ("ok " ++ fmtIntLL (ssiChunks chunks idx))
  | "ix.ssi_layer", [chunks, idx] => do
    let chunks ← parseIntLL? chunks; let idx ← parseIndex? idx
    let es := ((ssiLayer chunks idx).map fmtEntry).mergeSort (fun a b => decide (a ≤ b))
    pure ("ok " ++ ";".intercalate es)
  | "ix.where_none", [idx] => do
    let idx ← parseIndex? idx
    pure ("ok " ++ fmtNatList (whereNone idx))
  | "ix.getitem_chunks", [chunks, idx] => do
    let chunks ← parseIntLL? chunks; let idx ← parseIndex? idx
    match getitemChunks chunks idx with
    | .ok r => pure ("ok " ++ fmtIntLL r)
    | .error e => pure (fmtErr e)
  | "ix.out_chunks", [chunks, idx] => do
    let chunks ← parseIntLL? chunks; let idx ← parseIndex? idx
    match normalizeIndex idx (chunks.map isum) with
    | .ok r => pure ("ok " ++ fmtIntLL (outChunks chunks r))
    | .error e => pure (fmtErr e)
  | "ix.blocks", [chunks, idx] => do
    let chunks ← parseIntLL? chunks; let idx ← parseIndex? idx
    match blocksIndex chunks idx with
    | .ok r => pure ("ok " ++ fmtIntLL r.1 ++ " " ++ fmtIntLL r.2)
    | .error e => pure (fmtErr e)
  | "ix.compute_indexer", [index, chunks] => do
    let index ← parseIntList? index; let chunks ← parseIntList? chunks
    pure ("ok " ++ fmtIntLL (computeIndexer index chunks))
  | "ix.new_chunks", [limit, indexer] => do
    let limit ← limit.toNat?; let indexer ← parseIntLL? indexer
    pure ("ok " ++ fmtIntLL (newChunks limit indexer))
  | "ix.shuffle_identity", [indexer, chunks] => do
    let indexer ← parseIntLL? indexer; let chunks ← parseIntList? chunks
    pure ("ok " ++ (if shuffleIsIdentity indexer chunks then "1" else "0"))
  | "ix.take_chunks", [index, chunks] => do
    let index ← parseIntList? index; let chunks ← parseIntList? chunks
    pure ("ok " ++ fmtIntList (takeChunks index chunks))
  | _, _ => none

end Dask.Drv.Indexing
