/-
Driver commands for record keys at the string level (C21, family `rky.`):
  rky.str <key>                     `str(key)`
  rky.normalize <key>               `_norm_key(key)` in the typed encoding below
  rky.pyeq <key> <key>              Python `==` of the two keys
  rky.resolve <parent> <term>       `_Flattener(parent_string).resolve(term, deps)`:
                                    `ok <rewritten> | <sorted(deps)> | <extra records>`
  rky.records <key> <term>          `_records(key, term)`
  rky.resolve_reuse <parent> <term> the same with the seeded "reuse the ref when ==" variant (not the code)

Encoding (one token, no spaces; see harness/props_ext/c21_keys.py):
  key  := $name | $~name (np.str_) | comp(:comp)*        (a tuple; `()` is not expressible)
  comp := 'name | ~'name (np.str_) | T | F | ~T | ~F (np.bool_) | int | kind~int (np.<kind>)
  term := R<key> | A<key> | D<n> | V<n> | L[t;…] | T[t;…] | l[t;…] | t[t;…] | d[n,…|t;…]
        | K<fid>(kw,…|t;…) | S<fid>(n,n,n|kw,…|t;…) | X
  output references are `R<str(key)>`.
-/
import DaskArrayModel.Proto
import DaskArrayModel.Model.RecordKeys
import DaskArrayModel.Drv.Graph
namespace Dask.Drv.RecordKeys
open Dask.Proto Dask.RecordKeys
open Dask.Drv.Graph (takeWhileC)
open Dask.Graph (Fn)

def nameC (c : Char) : Bool := Dask.RecordKeys.isNameChar c

def parseIntTok (cs : List Char) : Option (Int × List Char) :=
  let r := takeWhileC (fun c => c.isDigit || c = '-') cs
  (String.ofList r.1).toInt?.map (fun i => (i, r.2))

def parseComp (cs : List Char) : Option (Comp × List Char) :=
  match cs with
  | '\'' :: rest => let r := takeWhileC nameC rest; some (.str false (String.ofList r.1), r.2)
  | '~' :: '\'' :: rest => let r := takeWhileC nameC rest; some (.str true (String.ofList r.1), r.2)
  | '~' :: 'T' :: rest => some (.bool true true, rest)
  | '~' :: 'F' :: rest => some (.bool true false, rest)
  | 'T' :: rest => some (.bool false true, rest)
  | 'F' :: rest => some (.bool false false, rest)
  | _ =>
    let r := takeWhileC (fun c => c.isAlphanum || c = '-') cs
    match r.2 with
    | '~' :: rest => (parseIntTok rest).map (fun (i, rest') => (.int (.np (String.ofList r.1)) i, rest'))
    | _ => (parseIntTok cs).map (fun (i, rest') => (.int .py i, rest'))

partial def parseComps (cs : List Char) (acc : List Comp) : Option (List Comp × List Char) :=
  match parseComp cs with
  | none => none
  | some (c, rest) =>
    match rest with
    | ':' :: rest' => parseComps rest' (acc ++ [c])
    | _ => some (acc ++ [c], rest)

def parseKey (cs : List Char) : Option (PKey × List Char) :=
  match cs with
  | '$' :: '~' :: rest => let r := takeWhileC nameC rest; some (.bare true (String.ofList r.1), r.2)
  | '$' :: rest => let r := takeWhileC nameC rest; some (.bare false (String.ofList r.1), r.2)
  | _ => (parseComps cs []).map (fun (c, r) => (.tup c, r))

def termsOfList : List Term → Terms
  | [] => .nil
  | x :: xs => .cons x (termsOfList xs)

def parseNatsTok (cs : List Char) : Option (List Nat) :=
  if cs.isEmpty then some [] else ((String.ofList cs).splitOn ",").mapM (fun t => t.toNat?)

mutual
partial def parseTerm (cs : List Char) : Option (Term × List Char) :=
  match cs with
  | 'R' :: rest => (parseKey rest).map (fun (k, r) => (.ref k, r))
  | 'A' :: rest => (parseKey rest).map (fun (k, r) => (.alias k, r))
  | 'X' :: rest => some (.other, rest)
  | 'D' :: rest =>
    let r := takeWhileC Char.isDigit rest
    (String.ofList r.1).toNat?.map (fun n => (.data n, r.2))
  | 'V' :: rest =>
    let r := takeWhileC Char.isDigit rest
    (String.ofList r.1).toNat?.map (fun n => (.lit n, r.2))
  | 'L' :: '[' :: rest => (parseTerms rest ']' []).map (fun (xs, r) => (.nlist (termsOfList xs), r))
  | 'T' :: '[' :: rest => (parseTerms rest ']' []).map (fun (xs, r) => (.ntuple (termsOfList xs), r))
  | 'l' :: '[' :: rest => (parseTerms rest ']' []).map (fun (xs, r) => (.plist (termsOfList xs), r))
  | 't' :: '[' :: rest => (parseTerms rest ']' []).map (fun (xs, r) => (.ptuple (termsOfList xs), r))
  | 'd' :: '[' :: rest =>
    let ks := takeWhileC (fun c => c ≠ '|') rest
    match ks.2, parseNatsTok ks.1 with
    | '|' :: rest1, some ks' => (parseTerms rest1 ']' []).map (fun (xs, r) => (.pdict ks' (termsOfList xs), r))
    | _, _ => none
  | 'K' :: rest =>
    let f := takeWhileC (fun c => c ≠ '(') rest
    match f.2 with
    | '(' :: rest1 =>
      let kws := takeWhileC (fun c => c ≠ '|') rest1
      match kws.2 with
      | '|' :: rest2 =>
        let kw := if kws.1.isEmpty then [] else (String.ofList kws.1).splitOn ","
        (parseTerms rest2 ')' []).map (fun (xs, r) => (.task (String.ofList f.1) kw (termsOfList xs), r))
      | _ => none
    | _ => none
  | 'S' :: rest =>
    let f := takeWhileC (fun c => c ≠ '(') rest
    match f.2 with
    | '(' :: rest1 =>
      let ds := takeWhileC (fun c => c ≠ '|') rest1
      match ds.2, parseNatsTok ds.1 with
      | '|' :: rest2, some d =>
        let kws := takeWhileC (fun c => c ≠ '|') rest2
        match kws.2 with
        | '|' :: rest3 =>
          let kw := if kws.1.isEmpty then [] else (String.ofList kws.1).splitOn ","
          (parseTerms rest3 ')' []).map
            (fun (xs, r) => (.fused (String.ofList f.1) d kw (termsOfList xs), r))
        | _ => none
      | _, _ => none
    | _ => none
  | _ => none
partial def parseTerms (cs : List Char) (close : Char) (acc : List Term) : Option (List Term × List Char) :=
  match cs with
  | [] => none
  | c :: rest =>
    if c = close then some (acc, rest)
    else if c = ';' then parseTerms rest close acc
    else
      match parseTerm cs with
      | some (x, rest') => parseTerms rest' close (acc ++ [x])
      | none => none
end

def fmtComp : Comp → String
  | .int .py v => toString v
  | .int (.np nm) v => nm ++ "~" ++ toString v
  | .bool false b => if b then "T" else "F"
  | .bool true b => if b then "~T" else "~F"
  | .str false s => "'" ++ s
  | .str true s => "~'" ++ s

def fmtKey : PKey → String
  | .bare false s => "$" ++ s
  | .bare true s => "$~" ++ s
  | .tup cs => ":".intercalate (cs.map fmtComp)

def fmtNats (l : List Nat) : String := ",".intercalate (l.map toString)

mutual
partial def fmtOArg : OArg → String
  | .ref k => "R" ++ keyStr k
  | .lit n => "V" ++ toString n
  | .list xs => "l[" ++ ";".intercalate (xs.map fmtOArg) ++ "]"
  | .tuple xs => "t[" ++ ";".intercalate (xs.map fmtOArg) ++ "]"
  | .dict ks xs => "d[" ++ fmtNats ks ++ "|" ++ ";".intercalate (xs.map fmtOArg) ++ "]"
end

def fmtFn : Fn String → String
  | .ident => "id"
  | .fn f => f

def fmtRec (r : ORec) : String :=
  "#".intercalate [r.key, fmtFn r.func,
    ",".intercalate r.kw ++ "|" ++ ";".intercalate (r.args.map fmtOArg), "+".intercalate r.deps]

def doResolve (emit : PKey → PKey) (parent term : String) : Option String :=
  match parseKey parent.toList with
  | some (k, []) =>
    match parseTerm term.toList with
    | some (t, []) =>
      if t.declines then some "err NotImplementedError" else
      let r := resolve emit (keyStr k) t 0
      some ("ok " ++ fmtOArg r.1 ++ " | " ++ "+".intercalate (sortedSet r.2.2.2) ++ " | " ++
        "##".intercalate (r.2.2.1.map fmtRec))
    | _ => some "err parse-term"
  | _ => some "err parse-key"

def handle (cmd : String) (args : List String) : Option String :=
  match cmd, args with
  | "rky.str", [key] =>
    match parseKey key.toList with
    | some (k, []) => some ("ok " ++ keyStr k)
    | _ => some "err parse-key"
  | "rky.normalize", [key] =>
    match parseKey key.toList with
    | some (k, []) => some ("ok " ++ fmtKey (normalize k))
    | _ => some "err parse-key"
  | "rky.pyeq", [a, b] =>
    match parseKey a.toList, parseKey b.toList with
    | some (k1, []), some (k2, []) => some (if pyEq k1 k2 then "ok 1" else "ok 0")
    | _, _ => some "err parse-key"
  | "rky.resolve", [parent, term] => doResolve normalize parent term
  | "rky.resolve_reuse", [parent, term] => doResolve reuseIfEq parent term
  | "rky.records", [key, term] =>
    match parseKey key.toList with
    | some (k, []) =>
      match parseTerm term.toList with
      | some (t, []) =>
        if t.declines then some "err NotImplementedError" else
        match records normalize k t with
        | some recs => some ("ok " ++ "##".intercalate (recs.map fmtRec))
        | none => some "err unsupported-top"
      | _ => some "err parse-term"
    | _ => some "err parse-key"
  | _, _ => none

end Dask.Drv.RecordKeys
