import DaskArrayModel.Proto
import DaskArrayModel.Model.BlockwiseGate
/-!
Line-protocol handler for the generic blockwise pushdown gates (`bwg.*`), Model/BlockwiseGate.lean.

A node is ONE token:  `<out_ind>/<align 0|1>/<concat 0|1>/<new_axes>/<adjust>/<U>/<opd>|<opd>|…`
  `<new_axes>`, `<adjust>`, `<U>`   maps `label=chunks;label=chunks` (`-` empty); `<adjust>` holds the ADJUSTED
                                   chunks of each `adjust_chunks` label, `<U>` = `unify_chunks_expr(*args)[0]`
                                   (only read when `align = 1`)
  `<opd>`                          `<A|D|L>~<ind|N>~<shape>~<chunks LL>`  (A: array, D: non-array block argument
                                   such as `ArraySliceDep`, L: literal with `ind = N`)
An index is one token: items separated by `,` — an integer, a slice `a:b:c`, or `N` (None); `_` = `()`.

  bwg.chunks <node>                  -> ok <Blockwise.chunks LL>
  bwg.concat <node>                  -> ok 0|1                         (`_contracts_by_concatenation`)
  bwg.slice <node> <index>           -> ok decline | ok coarse
                                      | ok exact <opd>|<opd>|… ex=<extract>
                                        `<opd>` = `N` (untouched) or, per axis, the selected POSITIONS
                                        (`range(*slice.indices(n))`), axes separated by `;`;
                                        `<extract>` = `N` or per output axis `0` / `:`
  bwg.slicechunks <node> <index>     -> ok <chunks LL of opd>|…  (`-` for an untouched or 0-d operand), or `ok none`
  bwg.take <node> <axis>             -> ok decline | ok <axis or N>,<axis or N>,…   (the shuffled axis per operand)
  bwg.takechunks <node> <axis> <indexer LL>  -> ok <chunks LL of opd>|… or `ok none`
  bwg.extents <node>                 -> ok <bid>=<opd>|<opd>…;<bid>=…  per output block the piece of every array
                                        operand the task reads, `<opd>` = `start:len` per axis joined by `,`
                                        (`-` for 0-d / literal), after `_lower`'s alignment with `<U>`
Malformed input: `err illformed`.
-/
namespace Dask.Drv.BlockwiseGate
open Dask.Py Dask.Py.PySlice Dask.Proto Dask.ND Dask.BWG

def parseBool? (s : String) : Option Bool :=
  if s = "1" then some true else if s = "0" then some false else none

def parseMap? (s : String) : Option (List (Nat × List Nat)) :=
  if s = "-" then some [] else
    (s.splitOn ";").mapM (fun e =>
      match e.splitOn "=" with
      | [l, cs] => do
        let l ← l.toNat?
        let cs ← parseNatList? cs
        pure (l, cs)
      | _ => none)

def parseOpd? (s : String) : Option Opd :=
  match s.splitOn "~" with
  | [kind, ind, shape, chunks] => do
    let shape ← parseNatList? shape
    let chunks ← parseNatLL? chunks
    let ind ← (if ind = "N" then some none else (parseNatList? ind).map some)
    let isArr ← (if kind = "A" then some true else if kind = "D" then some false else if kind = "L" then some false else none)
    pure { arr := ⟨shape, fun _ => 0⟩, chunks := chunks, ind := ind, isArr := isArr }
  | _ => none

def parseNode? (s : String) : Option (BW × (Nat → List Nat)) :=
  match s.splitOn "/" with
  | [out, align, concat, newAxes, adjust, u, ops] => do
    let out ← parseNatList? out
    let align ← parseBool? align
    let concat ← parseBool? concat
    let newAxes ← parseMap? newAxes
    let adjust ← parseMap? adjust
    let u ← parseMap? u
    let ops ← (if ops = "" then some [] else (ops.splitOn "|").mapM parseOpd?)
    pure ({ f := fun _ => ⟨[], fun _ => 0⟩, outInd := out, ops := ops, newAxes := newAxes, adjust := adjust,
            align := align, concat := concat }, fun l => (u.lookup l).getD [])
  | _ => none

def parseItem? (s : String) : Option (Option Ix) :=
  if s = "N" then some none
  else if s.contains ':' then (parseSlice? s).map (fun sl => some (.slc sl))
  else (s.toInt?).map (fun v => some (.int v))

def parseIndex? (s : String) : Option (List (Option Ix)) :=
  if s = "_" then some [] else (s.splitOn ",").mapM parseItem?

/-- positions selected by an index item on an axis of length `n` -/
def positions (n : Nat) : Ix → List Nat
  | .slc s => (sel s n).map Int.toNat
  | .int v => [(Dask.Slicing.posifyInt n v).toNat]

def fmtOpdPositions (o : Opd) : Option (List Ix) → String
  | none => "N"
  | some ixs =>
    if ixs.isEmpty then "-"
    else ";".intercalate ((List.range ixs.length).map (fun k =>
      fmtNatList (positions (o.arr.shape.getD k 0) (ixs.getD k colonIx))))

def fmtExtract : Option (List Ix) → String
  | none => "N"
  | some ex => if ex.isEmpty then "_" else ",".intercalate (ex.map (fun ix => match ix with | .int _ => "0" | .slc _ => ":"))

def fmtOptNat : Option Nat → String
  | none => "N"
  | some a => toString a

def fmtExtent (e : Extent) : String :=
  if e.start.isEmpty then "-"
  else ",".intercalate ((List.range e.start.length).map (fun k => s!"{e.start.getD k 0}:{e.shape.getD k 0}"))

def parseIndexer? (s : String) : Option (List (List Nat)) := parseNatLL? s

def handle (cmd : String) (args : List String) : Option String :=
  match cmd, args with
  | "bwg.chunks", [n] =>
    match parseNode? n with
    | none => some "err illformed"
    | some (bw, U) => some ("ok " ++ fmtNatLL (outChunks U bw))
  | "bwg.concat", [n] =>
    match parseNode? n with
    | none => some "err illformed"
    | some (bw, _) => some (if contractsByConcat bw then "ok 1" else "ok 0")
  | "bwg.slice", [n, idx] =>
    match parseNode? n, parseIndex? idx with
    | some (bw, U), some index =>
      match acceptSlice U bw index with
      | .decline => some "ok decline"
      | .coarse => some "ok coarse"
      | .exact a ex =>
        some ("ok exact " ++ "|".intercalate (List.zipWith fmtOpdPositions bw.ops a) ++ " ex=" ++ fmtExtract ex)
    | _, _ => some "err illformed"
  | "bwg.slicechunks", [n, idx] =>
    match parseNode? n, parseIndex? idx with
    | some (bw, U), some index =>
      match push U bw (.basic index) with
      | none => some "ok none"
      | some p => some ("ok " ++ "|".intercalate (p.bw.ops.map (fun o => fmtNatLL o.chunks)))
    | _, _ => some "err illformed"
  | "bwg.take", [n, axis] =>
    match parseNode? n, axis.toNat? with
    | some (bw, U), some axis =>
      match acceptShuffle U bw axis with
      | none => some "ok decline"
      | some axes => some ("ok " ++ ",".intercalate (axes.map fmtOptNat))
    | _, _ => some "err illformed"
  | "bwg.takechunks", [n, axis, indexer] =>
    match parseNode? n, axis.toNat?, parseIndexer? indexer with
    | some (bw, U), some axis, some indexer =>
      match push U bw (.take axis indexer) with
      | none => some "ok none"
      | some p => some ("ok " ++ "|".intercalate (p.bw.ops.map (fun o => fmtNatLL o.chunks)))
    | _, _, _ => some "err illformed"
  | "bwg.extents", [n] =>
    match parseNode? n with
    | none => some "err illformed"
    | some (bw, U) =>
      let lw := lowered U bw
      some ("ok " ++ ";".intercalate ((allBids (outChunks U bw)).map (fun bid =>
        fmtNatList bid ++ "=" ++ "|".intercalate (lw.ops.map (fun o =>
          if o.ind.isNone then "L" else fmtExtent (opExtent lw bid o))))))
  | _, _ => none

end Dask.Drv.BlockwiseGate
