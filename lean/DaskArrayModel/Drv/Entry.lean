import DaskArrayModel.Proto
import DaskArrayModel.Model.Entry
/-
Line protocol for the entry-point family (`en.*`, C05):
  en.rebuild <numblocks L> <keys> <layer>     -> ok <per-block outcome;…> | err <Class>
     the collection's own name is name-id `0`.
     <keys>  = `-` | `;`-separated keys  `<name-id>:<i.j.k|_>`          (operand `keys` of FromGraph)
     <layer> = `-` | `;`-separated entries `<key>=<0|1>`  (0 = plain data, 1 = task/GraphNode)
     outcome per block of the grid, in `itertools.product` order, `<i.j|_>>X` with
        X = P            our key was already in the layer (pure passthrough)
            D<key>       plain data rekeyed from <key> (which is deleted)
            A<key>       alias to the task stored under <key>
  en.find <numblocks L> <keys> <layer> <block i.j|_>   -> ok <key> | err ValueError
     the three-way lookup `_find_layer_key` against the original layer
  en.grid <numblocks L>                        -> ok <i.j;…>
  en.pin <renamed 0|1> <embedded 0|1> <numblocks L>  -> ok same | ok alias <i.j>A1:<i.j>;… | err RuntimeError
-/
namespace Dask.Drv.Entry
open Dask.Proto Dask.Entry

def fmtBid (b : BlockId) : String :=
  if b.isEmpty then "_" else ".".intercalate (b.map toString)

def fmtKey (k : Key) : String := k.name ++ ":" ++ fmtBid k.bid

def parseBid? (s : String) : Option BlockId :=
  if s = "_" then some [] else (s.splitOn ".").mapM (fun t => t.toNat?)

def parseKey? (s : String) : Option Key :=
  match s.splitOn ":" with
  | [n, b] => (parseBid? b).map (fun b => ⟨n, b⟩)
  | _ => none

def parseKeys? (s : String) : Option (List Key) :=
  if s = "-" then some [] else (s.splitOn ";").mapM parseKey?

def parseEntry? (s : String) : Option (Key × Node Nat) :=
  match s.splitOn "=" with
  | [k, "0"] => (parseKey? k).map (fun k => (k, Node.data 0))
  | [k, "1"] => (parseKey? k).map (fun k => (k, Node.task 0))
  | _ => none

def parseLayer? (s : String) : Option (Layer Nat) :=
  if s = "-" then some [] else (s.splitOn ";").mapM parseEntry?

def fmtErr : Err → String
  | .valueError => "err ValueError"
  | .keyError => "err KeyError"
  | .runtimeError => "err RuntimeError"

def outcome (orig final : Layer Nat) (name : String) (b : BlockId) : String :=
  fmtBid b ++ ">" ++
  match get? final ⟨name, b⟩ with
  | some (.alias t) => "A" ++ fmtKey t
  | some _ =>
    match (orig.filter (fun p => p.1.bid == b && !has final p.1)).map (·.1) with
    | k :: _ => "D" ++ fmtKey k
    | [] => "P"
  | none => "?"

def handle (cmd : String) (args : List String) : Option String :=
  match cmd, args with
  | "en.rebuild", [nb, ks, ly] => do
    let nb ← parseNatList? nb
    let ks ← parseKeys? ks
    let ly ← parseLayer? ly
    let fg : FromGraph Nat := ⟨ly, nb, ks, "0"⟩
    match layerOf fg with
    | .error e => pure (fmtErr e)
    | .ok l => pure ("ok " ++ ";".intercalate ((grid nb).map (outcome ly l "0")))
  | "en.find", [nb, ks, ly, b] => do
    let nb ← parseNatList? nb
    let ks ← parseKeys? ks
    let ly ← parseLayer? ly
    let b ← parseBid? b
    let fg : FromGraph Nat := ⟨ly, nb, ks, "0"⟩
    match find0 fg b with
    | .error e => pure (fmtErr e)
    | .ok k => pure ("ok " ++ fmtKey k)
  | "en.grid", [nb] => do
    let nb ← parseNatList? nb
    pure ("ok " ++ ";".intercalate ((grid nb).map fmtBid))
  | "en.pin", [ren, emb, nb] => do
    let nb ← parseNatList? nb
    let lowName := if ren = "1" then "1" else "0"
    let inner : Layer Nat := (grid nb).map (fun b => ((⟨lowName, b⟩ : Key), Node.task 0))
    let g : Layer Nat := if emb = "1" then inner ++ [((⟨"0", []⟩ : Key), Node.task 0)] else inner
    match pin "0" nb ⟨lowName, g⟩ with
    | .error e => pure (fmtErr e)
    | .ok l =>
      let al := l.filterMap (fun p => match p.2 with
        | .alias t => some (fmtBid p.1.bid ++ "A" ++ fmtKey t)
        | _ => none)
      pure (if al.isEmpty then "ok same" else "ok alias " ++ ";".intercalate al)
  | _, _ => none

end Dask.Drv.Entry
