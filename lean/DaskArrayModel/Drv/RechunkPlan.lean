/-
Driver family `rp.*` : the rechunk planner model (Model/RechunkPlan.lean).
Extra token syntax (on top of Proto.lean):
  plan      = steps separated by `|`, each step a list of lists (`1,2;3`)
  passes    = `~` (none) or iterations separated by `/`, each `order|chunkLimits|maxNumbers` (int lists)
  bds       = `~` (none) or `_bound_degree` oracles separated by `/`, each `nsteps|counts` (counts: list of lists)
  axis spec = `K` (None / keep) | `F` (-1) | `S<k>` (int k) | `E<list>` (explicit tuple)
-/
import DaskArrayModel.Proto
import DaskArrayModel.Model.RechunkPlan
namespace Dask.Drv.RechunkPlan
open Dask.Py Dask.Proto Dask.Rechunk Dask.RechunkPlan

def fmtPlan (p : List (List (List Int))) : String :=
  if p.isEmpty then "~" else "|".intercalate (p.map fmtIntLL)

def parsePass? (s : String) : Option PassOracle :=
  match s.splitOn "|" with
  | [o, c, m] => do
    let o ← parseNatList? o; let c ← parseIntList? c; let m ← parseIntList? m
    pure ⟨o, c, m⟩
  | _ => none

def parsePasses? (s : String) : Option (List PassOracle) :=
  if s = "~" then some [] else (s.splitOn "/").mapM parsePass?

def parseBD? (s : String) : Option BDOracle :=
  match s.splitOn "|" with
  | [n, c] => do
    let n ← n.toNat?; let c ← parseIntLL? c
    pure ⟨n, c⟩
  | _ => none

def parseBDs? (s : String) : Option (List BDOracle) :=
  if s = "~" then some [] else (s.splitOn "/").mapM parseBD?

def parseSpec? (s : String) : Option AxisSpec :=
  if s = "K" then some .keep
  else if s = "F" then some .full
  else if s.startsWith "S" then (s.drop 1).toString.toInt?.map .size
  else if s.startsWith "E" then (parseIntList? (s.drop 1).toString).map .explicit
  else none

def fmtPiece (p : Piece) : String := s!"{p.idx}@{p.s}:{p.e}"

def fmtCrossND (l : List (List (List Piece))) : String :=
  if l.isEmpty then "~" else
  "|".intercalate (l.map (fun blk =>
    if blk.isEmpty then "-" else ";".intercalate (blk.map (fun contrib =>
      if contrib.isEmpty then "_" else ",".intercalate (contrib.map fmtPiece)))))

def b01 (b : Bool) : String := if b then "1" else "0"

def handle (cmd : String) (args : List String) : Option String :=
  match cmd, args with
  | "rp.largest_block", [c] => do
    let c ← parseIntLL? c
    pure s!"ok {largestBlock c}"
  | "rp.number_of_blocks", [c] => do
    let c ← parseIntLL? c
    pure s!"ok {numberOfBlocks c}"
  | "rp.estimate_graph_size", [o, n] => do
    let o ← parseIntLL? o; let n ← parseIntLL? n
    pure s!"ok {estimateGraphSize o n}"
  | "rp.max_overlap", [o, n] => do
    let o ← parseIntLL? o; let n ← parseIntLL? n
    pure s!"ok {maxOverlap o n}"
  | "rp.find_merge", [o, n, lim, it, lo, ln, ord, cls] => do
    let o ← parseIntLL? o; let n ← parseIntLL? n
    let lim ← parseInt? lim; let it ← parseInt? it; let lo ← parseInt? lo; let ln ← parseInt? ln
    let ord ← parseNatList? ord; let cls ← parseIntList? cls
    match findMerge o n ⟨lim, it, lo, ln⟩ ⟨ord, cls, []⟩ with
    | none => pure "err ZeroDivisionError"
    | some (st, rel) => pure s!"ok {fmtIntLL st.chunks} {b01 st.hit} rel={b01 rel}"
  | "rp.find_split", [o, n, gsl, mns] => do
    let o ← parseIntLL? o; let n ← parseIntLL? n
    let gsl ← parseInt? gsl; let mns ← parseIntList? mns
    match findSplit o n gsl ⟨[], [], mns⟩ with
    | none => pure "err ZeroDivisionError"
    | some c => pure s!"ok {fmtIntLL c}"
  | "rp.bound_degree", [o, n, deg, ns, counts] => do
    let o ← parseIntLL? o; let n ← parseIntLL? n
    let deg ← parseInt? deg; let ns ← ns.toNat?; let counts ← parseIntLL? counts
    pure s!"ok {fmtPlan (boundDegree o n deg ⟨ns, counts⟩)}"
  | "rp.plan", [o, n, it, thr, lim, deg, fuel, passes, bds] => do
    let o ← parseIntLL? o; let n ← parseIntLL? n
    let it ← parseInt? it; let thr ← parseInt? thr; let lim ← parseInt? lim; let deg ← parseInt? deg
    let fuel ← fuel.toNat?; let passes ← parsePasses? passes; let bds ← parseBDs? bds
    match planRechunk o n it thr lim deg fuel passes bds with
    | none => pure "err Oracle"
    | some (plan, rel) => pure s!"ok {fmtPlan plan} rel={b01 rel}"
  | "rp.reach", [o, n, c, d] => do
    let o ← parseIntList? o; let n ← parseIntList? n; let c ← parseIntList? c; let d ← d.toNat?
    match reachDepth o n c d with
    | none => pure "ok N"
    | some k => pure s!"ok {k}"
  | "rp.intersect_chunks", [o, n] => do
    let o ← parseIntLL? o; let n ← parseIntLL? n
    pure ("ok " ++ fmtCrossND (intersectChunks o n))
  | "rp.resolve", [o, sp] => do
    let o ← parseIntList? o; let sp ← parseSpec? sp
    pure ("ok " ++ fmtIntList (resolveAxis o sp))
  | "rp.get_chunks", [n, k] => do
    let n ← parseInt? n; let k ← parseInt? k
    pure ("ok " ++ fmtIntList (getChunks n k))
  | "rp.balance", [c] => do
    let c ← parseIntList? c
    pure ("ok " ++ fmtIntList (balanceChunksizes c))
  | "rp.rechunk_chain", [o, chain] => do
    -- data = 0..sum(old)-1 split by `old`, pushed through the chain of chunkings
    let o ← parseIntList? o; let chain ← parseIntLL? chain
    let xs : List Int := (List.range (isum o).toNat).map (fun (i : Nat) => (i : Int))
    pure ("ok " ++ fmtIntLL (rechunkChain o chain (blocks o xs)))
  | _, _ => none

end Dask.Drv.RechunkPlan
