import DaskArrayModel.Proto
import DaskArrayModel.Model.Reduce
/-!
Line-protocol handler for the reduction family (`rd.*`).

  rd.depth n k                         -> ok <depthOf n k>
  rd.tree_depth <numblocks> <split>    -> ok <depth used by _build_tree_reduce_expr>   (split: 0 = axis not reduced)
  rd.num_after k n                     -> ok <len(partition_all(k, range(n)))>
  rd.norm_dict <axis> <keys> <vals>    -> ok a=v;a=v        (sorted by axis; `-` when empty)
  rd.norm_int <root> <axis>            -> ok a=v;a=v
  rd.iroot s m                         -> ok <floor(s ** (1/m))> exactly
  rd.chunks <chunks LL> <split> <kd>   -> ok <chunks LL>
  rd.layer_keys <numblocks> <split> <kd> -> ok out=dims:in|in|…;…   (dict semantics, sorted by out key)
  rd.tree_sum k depth <blocks LL>      -> ok <output blocks>   (1-d list model, chunk=combine=aggregate=sum)
  rd.tree_sum_nd <numblocks> <split> <depth> <kd> <values> -> ok <numblocks'> <values by sorted key>
  rd.tree_argmin k depth <blocks LL>   -> ok <index>…          (first index wins ties)
  rd.accept_slice <idx/idx/…> ndim <reduced> <kd> -> ok in=<…> fin=<…> decl=<0|1>
-/
namespace Dask.Drv.Reduce
open Dask.Py Dask.Proto Dask.Reduce

def parseBool? (s : String) : Option Bool :=
  if s = "1" then some true else if s = "0" then some false else none

def lexLt : List Nat → List Nat → Bool
  | [], [] => false
  | [], _ :: _ => true
  | _ :: _, [] => false
  | a :: as, b :: bs => if a < b then true else if b < a then false else lexLt as bs

def insertByKey {α} (kv : List Nat × α) : List (List Nat × α) → List (List Nat × α)
  | [] => [kv]
  | x :: xs => if lexLt kv.1 x.1 then kv :: x :: xs else x :: insertByKey kv xs

def sortByKeyL {α} (l : List (List Nat × α)) : List (List Nat × α) :=
  l.foldl (fun acc kv => insertByKey kv acc) []

def fmtKV (l : List (Nat × Nat)) : String :=
  if l.isEmpty then "-" else
  ";".intercalate ((sortByKeyL (l.map (fun p => ([p.1], p.2)))).map (fun p => fmtNatList p.1 ++ "=" ++ toString p.2))

def fmtLayer (l : List (List Nat × List Nat × List (List Nat))) : String :=
  if l.isEmpty then "-" else
  ";".intercalate ((sortByKeyL (dictOfList l)).map (fun e =>
    fmtNatList e.1 ++ "=" ++ fmtNatList e.2.1 ++ ":" ++ "|".intercalate (e.2.2.map fmtNatList)))

def isumNat (l : List Int) : Int := l.foldl (· + ·) 0

/-- blocks with global offsets: `[(offset + j, v)]`. -/
def enumBlocks : Nat → List (List Int) → List (List (Nat × Int))
  | _, [] => []
  | off, b :: bs => ((List.range b.length).zip b).map (fun p => (off + p.1, p.2)) :: enumBlocks (off + b.length) bs

def parseIdx? (s : String) : Option Idx :=
  if s.contains ':' then (parseSlice? s).map Idx.slice else (parseInt? s).map Idx.int

def parseIdxList? (s : String) : Option (List Idx) :=
  if s = "_" then some [] else (s.splitOn "/").mapM parseIdx?

def fmtIdx : Idx → String
  | .int i => toString i
  | .slice s => fmtSlice s

def fmtIdxList (l : List Idx) : String :=
  if l.isEmpty then "_" else "/".intercalate (l.map fmtIdx)

def handle (cmd : String) (args : List String) : Option String :=
  match cmd, args with
  | "rd.depth", [n, k] => do
    let n ← n.toNat?; let k ← k.toNat?
    if k < 2 then pure "err ValueError" else pure s!"ok {depthOf n k}"
  | "rd.tree_depth", [nb, sp] => do
    let nb ← parseNatList? nb; let sp ← parseNatList? sp
    pure s!"ok {treeDepth nb sp}"
  | "rd.num_after", [k, n] => do
    let k ← k.toNat?; let n ← n.toNat?
    if k = 0 then pure "err ValueError" else pure s!"ok {numBlocksAfter k n}"
  | "rd.norm_dict", [ax, ks, vs] => do
    let ax ← parseNatList? ax; let ks ← parseNatList? ks; let vs ← parseNatList? vs
    pure ("ok " ++ fmtKV (normalizeSplitEveryDict (ks.zip vs) ax))
  | "rd.norm_int", [root, ax] => do
    let root ← root.toNat?; let ax ← parseNatList? ax
    pure ("ok " ++ fmtKV (normalizeSplitEveryInt root ax))
  | "rd.iroot", [s, m] => do
    let s ← s.toNat?; let m ← m.toNat?
    pure s!"ok {iroot s m}"
  | "rd.chunks", [c, sp, kd] => do
    let c ← parseNatLL? c; let sp ← parseNatList? sp; let kd ← parseBool? kd
    pure ("ok " ++ fmtNatLL (partialReduceChunks c sp kd))
  | "rd.layer_keys", [nb, sp, kd] => do
    let nb ← parseNatList? nb; let sp ← parseNatList? sp; let kd ← parseBool? kd
    pure ("ok " ++ fmtLayer (partialReduceKeys nb sp kd))
  | "rd.tree_sum", [k, depth, bl] => do
    let k ← k.toNat?; let depth ← depth.toNat?; let bl ← parseIntLL? bl
    if k = 0 then pure "err ValueError" else
    pure ("ok " ++ fmtIntList (treeReduce k depth isumNat isumNat (bl.map isumNat)))
  | "rd.tree_sum_nd", [nb, sp, depth, kd, vals] => do
    let nb ← parseNatList? nb; let sp ← parseNatList? sp; let depth ← depth.toNat?
    let kd ← parseBool? kd; let vals ← parseIntList? vals
    let g : Grid Int := (cart (nb.map List.range)).zip vals
    let r := gridTreeReduce isumNat isumNat sp kd (depth - 1) nb g
    pure ("ok " ++ fmtNatList (if kd then r.1 else dropReduced sp r.1) ++ " " ++ fmtIntList ((sortByKeyL r.2).map (·.2)))
  | "rd.tree_argmin", [k, depth, bl] => do
    let k ← k.toNat?; let depth ← depth.toNat?; let bl ← parseIntLL? bl
    if k = 0 then pure "err ValueError" else
    let f := fold1 argminOp (0, 0)
    pure ("ok " ++ fmtNatList ((treeReduce k depth f f ((enumBlocks 0 bl).map f)).map (·.1)))
  | "rd.accept_slice", [idx, nd, red, kd] => do
    let idx ← parseIdxList? idx; let nd ← nd.toNat?; let red ← parseNatList? red; let kd ← parseBool? kd
    let p := acceptSlice idx nd red kd
    pure s!"ok in={fmtIdxList p.inputIndex} fin={fmtIdxList p.finalIndex} decl={if acceptDeclines p then 1 else 0}"
  | _, _ => none

end Dask.Drv.Reduce
