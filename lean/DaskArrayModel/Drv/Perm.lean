import DaskArrayModel.Proto
import DaskArrayModel.Model.Perm
/-!
Line-protocol handler for the axis-permutation rules (`prm.*`), Model/Perm.lean.

  prm.compose <inner axes> <outer axes>        -> ok <axes of the single Transpose>      (`_simplify_down`)
  prm.identity <axes> <ndim>                   -> ok 0|1                                 (identity removal fires)
  prm.inverse <axes>                           -> ok <_inverse_axes> | err IndexError
  prm.block_id <axes> <block id>               -> ok <_input_block_id>
  prm.shuffle_axis <axes> <k>                  -> ok <axis of the pushed Shuffle>        (`_accept_shuffle`)
  prm.builder swapaxes <n> <a1> <a2>           -> ok <axes> | err IndexError
  prm.builder moveaxis <n> <src list> <dst list> -> ok <axes> | err AxisError | err ValueError
  prm.builder rollaxis <n> <axis> <start>      -> ok <axes> | err AxisError | err ValueError
  prm.builder transpose <n> <axes list | N>    -> ok <normalised axes (Int)> | err ValueError
  prm.elemwise_split <axes> <args> <where> <out>
        <args>: `;`-separated `s` (scalar) or a rank; `-` = no argument.  <where>/<out>: `N` or a rank
                                               -> ok decline | ok <arg>;<arg>… w=<x> o=<x>
                                                  (`N` = passed unchanged, else the axes of its Transpose)
Malformed input: `err illformed`.
-/
namespace Dask.Drv.Perm
open Dask.Proto Dask.ND Dask.Perm

def fmtE (r : Except String (List Nat)) : String :=
  match r with
  | .ok l => "ok " ++ fmtNatList l
  | .error e => "err " ++ e

def parseOpnds? (s : String) : Option (List Opnd) :=
  if s = "-" then some [] else
    (s.splitOn ";").mapM (fun t => if t = "s" then some Opnd.scalar else t.toNat?.map Opnd.arr)

def parseOptNat? (s : String) : Option (Option Nat) :=
  if s = "N" then some none else s.toNat?.map some

def fmtOptAxes : Option (List Nat) → String
  | none => "N"
  | some l => fmtNatList l

def fmtSplit : Option Split → String
  | none => "ok decline"
  | some s =>
    "ok " ++ (if s.args.isEmpty then "-" else ";".intercalate (s.args.map fmtOptAxes)) ++
      " w=" ++ fmtOptAxes s.whr ++ " o=" ++ fmtOptAxes s.out

def ill : Option String := some "err illformed"

def handle (cmd : String) (args : List String) : Option String :=
  match cmd, args with
  | "prm.compose", [a, b] =>
    match parseNatList? a, parseNatList? b with
    | some inner, some outer => some ("ok " ++ fmtNatList (composeAsCode inner outer))
    | _, _ => ill
  | "prm.identity", [a, n] =>
    match parseNatList? a, n.toNat? with
    | some axes, some n => some (if axes = List.range n then "ok 1" else "ok 0")
    | _, _ => ill
  | "prm.inverse", [a] =>
    match parseNatList? a with
    | some axes => some (fmtE (inverseE axes))
    | _ => ill
  | "prm.block_id", [a, b] =>
    match parseNatList? a, parseNatList? b with
    | some axes, some bid => some ("ok " ++ fmtNatList (inputBlockId axes bid))
    | _, _ => ill
  | "prm.shuffle_axis", [a, k] =>
    match parseNatList? a, k.toNat? with
    | some axes, some k => some ("ok " ++ toString (shuffleAxis axes k))
    | _, _ => ill
  | "prm.builder", ["swapaxes", n, a1, a2] =>
    match n.toNat?, a1.toInt?, a2.toInt? with
    | some n, some a1, some a2 => some (fmtE (swapaxesPerm n a1 a2))
    | _, _, _ => ill
  | "prm.builder", ["moveaxis", n, s, d] =>
    match n.toNat?, parseIntList? s, parseIntList? d with
    | some n, some s, some d => some (fmtE (moveaxisPermN n s d))
    | _, _, _ => ill
  | "prm.builder", ["rollaxis", n, a, s] =>
    match n.toNat?, a.toInt?, s.toInt? with
    | some n, some a, some s => some (fmtE (rollaxisPerm n a s))
    | _, _, _ => ill
  | "prm.builder", ["transpose", n, a] =>
    match n.toNat?, (if a = "N" then some none else (parseIntList? a).map some) with
    | some n, some axes =>
      match transposeAxes n axes with
      | .ok l => some ("ok " ++ fmtIntList l)
      | .error e => some ("err " ++ e)
    | _, _ => ill
  | "prm.elemwise_split", [a, ops, w, o] =>
    match parseNatList? a, parseOpnds? ops, parseOptNat? w, parseOptNat? o with
    | some axes, some ops, some w, some o => some (fmtSplit (elemwiseSplit axes ops w o))
    | _, _, _, _ => ill
  | _, _ => none

end Dask.Drv.Perm
