/-
Line-protocol handler for the rewrite-rule model (family `ru`).  Programs are `ex` program tokens
(see Drv/Expr.lean).

  ru.optimize <prog>                 → `ok <prog'>`   the optimized tree re-encoded as an `ex` program
  ru.step <prog>                     → `ok <rule> <prog'>` | `ok none`
  ru.measure <prog>                  → `ok <n>`       the termination measure `mu`
  ru.rules <prog>                    → `ok r1,r2,…`   names of the rules `optimize` fires, in order (`_` = none)
  ru.equiv <progA> <progB>           → `ok 1|0`       same shape and same `den` data (each on its own sources)
  ru.accepts <seq> <before> <after>  → `ok 1|0|2`     `seq` = rule names joined by `+`; a name followed by `*`
        is repeated while it applies (≤ 64 times).  Each rule is applied at the first position (root first, then
        the children left to right) where it fires.  1: every rule of the sequence fired (a starred one may fire
        zero times) and the resulting tree has the shape, the chunks and the `den` data of `after`;
        0: not; 2: inexpressible (a program does not parse / is not well-formed, unknown rule name).
  ru.info <prog>                     → `ok <shape> <chunks>`
Errors: as in the `ex` family (`err unsupported`, `err illformed`).
-/
import DaskArrayModel.Drv.Expr
import DaskArrayModel.Model.Rules
namespace Dask.Drv.Rules
open Dask.Py Dask.Proto Dask.ND Dask.Drv.Expr

/-- a parsed program together with the table of its sources (by source id) -/
structure ProgT where
  expr : Expr
  env : Env
  srcs : Array (Nat × SrcSpec)

def parseProgT (prog : String) : Except PErr ProgT := do
  let mut steps : Array Expr := #[]
  let mut srcs : Array (Nat × SrcSpec) := #[]
  for st in prog.splitOn ";" do
    let (e, s) ← parseStep steps st
    match s with
    | some sp => srcs := srcs.push (steps.size, sp)
    | none => pure ()
    steps := steps.push e
  match steps.back? with
  | none => .error .illformed
  | some e =>
    let p ← parseProg prog
    pure ⟨e, p.env, srcs⟩

def fmtIx : Ix → String
  | .int k => toString k
  | .slc s => fmtSlice s

def fmtIdx (idx : List Ix) : String :=
  if idx.isEmpty then "_" else "|".intercalate (idx.map fmtIx)

def redName : Red → String
  | .sum => "sum"
  | .max => "max"
  | .min => "min"

/-- post-order emission: returns the steps so far and the number of the step holding `e` -/
def emit (srcs : Array (Nat × SrcSpec)) : Expr → Array String → Option (Array String × Nat)
  | .src id sh ch, acc =>
    match srcs.find? (fun p => p.1 == id) with
    | some p =>
      some (acc.push s!"src~{fmtNatList sh}~{fmtLayout ch}~{p.2.mul}~{p.2.off}~{p.2.md}", acc.size)
    | none => none
  | .map f e, acc => do
    let (acc, k) ← emit srcs e acc
    let nm ← unOps[f]?
    some (acc.push s!"map~{nm}~{k}", acc.size)
  | .zip f a b, acc => do
    let (acc, ka) ← emit srcs a acc
    let (acc, kb) ← emit srcs b acc
    let nm ← binOps[f]?
    some (acc.push s!"zip~{nm}~{ka}~{kb}", acc.size)
  | .slice e idx, acc => do
    let (acc, k) ← emit srcs e acc
    some (acc.push s!"slice~{k}~{fmtIdx idx}", acc.size)
  | .transpose e perm, acc => do
    let (acc, k) ← emit srcs e acc
    some (acc.push s!"transpose~{k}~{fmtNatList perm}", acc.size)
  | .rechunk e l, acc => do
    let (acc, k) ← emit srcs e acc
    some (acc.push s!"rechunk~{k}~{fmtLayout l}", acc.size)
  | .concat a b ax, acc => do
    let (acc, ka) ← emit srcs a acc
    let (acc, kb) ← emit srcs b acc
    some (acc.push s!"concat~{ax}~{ka},{kb}", acc.size)
  | .expandDims e ax, acc => do
    let (acc, k) ← emit srcs e acc
    some (acc.push s!"expand~{k}~{ax}", acc.size)
  | .squeeze e ax, acc => do
    let (acc, k) ← emit srcs e acc
    some (acc.push s!"squeeze~{k}~{ax}", acc.size)
  | .broadcastTo e sh l, acc => do
    let (acc, k) ← emit srcs e acc
    some (acc.push s!"broadcast~{k}~{fmtNatList sh}~{fmtLayout l}", acc.size)
  | .reduce r e ax k, acc => do
    let (acc, j) ← emit srcs e acc
    some (acc.push s!"reduce~{redName r}~{j}~{ax}~1~{k}", acc.size)
  | .cumsum e ax, acc => do
    let (acc, k) ← emit srcs e acc
    some (acc.push s!"cumsum~{k}~{ax}", acc.size)
  | .mapBlocks f e, acc => do
    let (acc, k) ← emit srcs e acc
    let nm ← blkOps[f]?
    some (acc.push s!"mapblocks~{nm}~{k}", acc.size)

def encode (srcs : Array (Nat × SrcSpec)) (e : Expr) : String :=
  match emit srcs e #[] with
  | some (acc, _) => ";".intercalate acc.toList
  | none => "?"

/-- names of the rules fired by `optimize`, in order (the loop follows `stepNamed`, as `optimize` does) -/
def rulesFired : Nat → Expr → List String
  | 0, _ => []
  | fuel + 1, e =>
    match stepNamed e with
    | some (n, e') => n :: rulesFired fuel e'
    | none => []

def allRules : List (String × (Expr → Option Expr)) := rules ++ extraRules

/-- apply one rule of the sequence (`name` or `name*`) -/
def applyItem (item : String) (e : Expr) : Option (Option Expr) :=
  let star := item.endsWith "*"
  let name := if star then (item.dropEnd 1).toString else item
  match allRules.find? (fun p => p.1 == name) with
  | none => none  -- unknown rule
  | some r =>
    if star then
      let rec loop : Nat → Expr → Expr
        | 0, e => e
        | fuel + 1, e =>
          match stepWith [r] e with
          | some (_, e') => loop fuel e'
          | none => e
      some (some (loop 64 e))
    else
      match stepWith [r] e with
      | some (_, e') => some (some e')
      | none => some none

def applySeq : List String → Expr → Option (Option Expr)
  | [], e => some (some e)
  | it :: rest, e =>
    match applyItem it e with
    | none => none
    | some none => some none
    | some (some e') => applySeq rest e'

def sameDen (a b : Arr Int) : Bool := a.shape == b.shape && a.toList == b.toList

def withProgT (prog : String) (k : ProgT → String) : String :=
  match parseProgT prog with
  | .error e => fmtPErr e
  | .ok p => if !wf p.expr then fmtPErr .illformed else k p

def handle (cmd : String) (args : List String) : Option String :=
  match cmd, args with
  | "ru.optimize", [prog] => some (withProgT prog (fun p => "ok " ++ encode p.srcs (optimize p.expr)))
  | "ru.step", [prog] =>
    some (withProgT prog (fun p =>
      match stepNamed p.expr with
      | some (n, e') => "ok " ++ n ++ " " ++ encode p.srcs e'
      | none => "ok none"))
  | "ru.measure", [prog] => some (withProgT prog (fun p => "ok " ++ toString (mu p.expr)))
  | "ru.rules", [prog] =>
    some (withProgT prog (fun p =>
      let l := rulesFired (mu p.expr) p.expr
      "ok " ++ (if l.isEmpty then "_" else ",".intercalate l)))
  | "ru.info", [prog] =>
    some (withProgT prog (fun p => "ok " ++ fmtNatList (shape p.expr) ++ " " ++ fmtLayout (chunks p.expr)))
  | "ru.equiv", [pa, pb] =>
    some (withProgT pa (fun a => withProgT pb (fun b =>
      if sameDen (den a.env a.expr) (den b.env b.expr) then "ok 1" else "ok 0")))
  | "ru.accepts", [seq, pb, pa] =>
    some (match parseProgT pb, parseProgT pa with
      | .ok b, .ok a =>
        if !wf b.expr || !wf a.expr then "ok 2" else
        match applySeq (seq.splitOn "+") b.expr with
        | none => "ok 2"
        | some none => "ok 0"
        | some (some t) =>
          if shape t == shape a.expr && chunks t == chunks a.expr &&
              sameDen (den b.env t) (den a.env a.expr) then "ok 1" else "ok 0"
      | _, _ => "ok 2")
  | _, _ => none

end Dask.Drv.Rules
