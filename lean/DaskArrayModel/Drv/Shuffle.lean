/-
Line-protocol handler for the `shf.*` family (Model/Shuffle.lean, Model/Vindex.lean).

  shf.plan <cs> <taker> <sorter|N>    one output chunk of `Shuffle._layer`; `sorter` is the REAL `np.argsort`
                                      result (validated with `isArgsortB`; `N`: the model's stable argsort)
        → `ok <sorter> <c:offs+c:offs…> <merged 0|1> <inv>`   | `err NotImplementedError` | `bad-sorter`
  shf.layer <cs> <indexer>            `_shuffle`: `ok id` or the plans of all output chunks joined by `|`
                                      (each `<sorter>/<pieces>/<merged>/<inv>`, stable argsort)
  shf.eval <cs> <indexer>             values (x[p] = p) of the output chunks + advertised chunks
  shf.take <cs> <index>               `x[list]` / `da.take`: values + chunks, or `err IndexError`
  shf.vnorm <sizes> <inds>            `_vindex` normalisation
  shf.vpoints <css> <inds>            block and in-block offset per point and axis
  shf.vlayer <css> <inds>             `VIndexArray._layer` groups `ob/blocks/loc:offs+loc:offs` (inside a group
                                      sorted by location: the order inside a group is the unstable argsort's)
  shf.veval <css> <inds>              `x.vindex[...]` values (x[t] = C-order flat position; `-1` = never written)
                                      + advertised chunks
-/
import DaskArrayModel.Proto
import DaskArrayModel.Model.Vindex
namespace Dask.Drv.Shuffle
open Dask.Py Dask.Proto Dask.Slicing Dask.Indexing Dask.Shuffle Dask.Vindex

def fmtErr : Err → String
  | .notImplemented => "err NotImplementedError"
  | .indexError => "err IndexError"
  | .valueError => "err ValueError"
  | .typeError => "err TypeError"

def fmtPieces (ps : List (Nat × List Int)) : String :=
  if ps.isEmpty then "-" else "+".intercalate (ps.map (fun p => toString p.1 ++ ":" ++ fmtIntList p.2))

def fmtPlan (sep : String) (p : Plan) : String :=
  sep.intercalate [fmtIntList p.sorter, fmtPieces p.pieces, (if p.merged then "1" else "0"),
    fmtNatList (invOf argsortStable p.sorter)]

def fmtRes (r : Res Int) : String :=
  match r with
  | .ok v => "ok " ++ fmtIntLL v
  | .err e => fmtErr e
  | .outside => "outside"

def fmtVRes (r : VRes Int) : String :=
  match r with
  | .ok v => "ok " ++ fmtIntLL (v.map (fun c => c.map (fun o => o.getD (-1))))
  | .err e => fmtErr e
  | .outside => "outside"
  | .missing => "missing"

def insertBy {α} (k : α → Int) (a : α) : List α → List α
  | [] => [a]
  | b :: bs => if k a ≤ k b then a :: b :: bs else b :: insertBy k a bs

def fmtGroup (g : Group) : String :=
  let rows := (List.range g.locs.length).map (fun s => (g.locs.getD s 0, pointAt g.points s))
  let rows := rows.foldr (insertBy (·.1)) []
  toString g.outblock ++ "/" ++ fmtNatList g.inBlocks ++ "/" ++
    "+".intercalate (rows.map (fun r => toString r.1 ++ ":" ++ fmtIntList r.2))

def flatPos (sizes : List Int) (t : List Int) : Int :=
  (t.zip sizes).foldl (fun acc q => acc * q.2 + q.1) 0

def handle (cmd : String) (args : List String) : Option String :=
  match cmd, args with
  | "shf.plan", [cs, taker, sorter] => do
    let cs ← parseIntList? cs; let taker ← parseIntList? taker
    let as : List Int → List Nat ←
      (if sorter = "N" then some argsortStable
       else do
         let s ← parseNatList? sorter
         some (fun l => if l = taker then s else argsortStable l))
    if !(isArgsortB taker (as taker)) then pure "bad-sorter" else
    match planChunk as cs taker with
    | .ok p => pure ("ok " ++ fmtPlan " " p)
    | .error e => pure (fmtErr e)
  | "shf.layer", [cs, indexer] => do
    let cs ← parseIntList? cs; let indexer ← parseIntLL? indexer
    if shuffleIsIdentity indexer cs then pure "ok id" else
    let plans := (newChunks (maxChunk cs).toNat indexer).map (planChunk argsortStable cs)
    match plans.mapM (fun p => match p with | .ok q => some q | .error _ => none) with
    | some ps => pure ("ok " ++ (if ps.isEmpty then "-" else "|".intercalate (ps.map (fmtPlan "/"))))
    | none => pure "err NotImplementedError"
  | "shf.eval", [cs, indexer] => do
    let cs ← parseIntList? cs; let indexer ← parseIntLL? indexer
    pure (fmtRes (shuffleEval argsortStable cs indexer (fun p => p)) ++ " " ++ fmtIntList (shuffleChunks cs indexer))
  | "shf.take", [cs, index] => do
    let cs ← parseIntList? cs; let index ← parseIntList? index
    match takeEval argsortStable cs index (fun p => p) with
    | .ok v => pure ("ok " ++ fmtIntLL v ++ " " ++ fmtIntList (takeChunksS cs index))
    | r => pure (fmtRes r)
  | "shf.vnorm", [sizes, inds] => do
    let sizes ← parseIntList? sizes; let inds ← parseIntLL? inds
    match normAll sizes inds with
    | .ok r => pure ("ok " ++ fmtIntLL r)
    | .error e => pure (fmtErr e)
  | "shf.vpoints", [css, inds] => do
    let css ← parseIntLL? css; let inds ← parseIntLL? inds
    pure ("ok " ++ fmtIntLL (List.zipWith (fun cs ind => ind.map (fun p => ((blockIdx cs p : Nat) : Int))) css inds)
      ++ " " ++ fmtIntLL (List.zipWith (fun cs ind => ind.map (inblockOff cs)) css inds))
  | "shf.vlayer", [css, inds] => do
    let css ← parseIntLL? css; let inds ← parseIntLL? inds
    let gs := layer argsortStable css inds
    pure ("ok " ++ (if gs.isEmpty then "-" else "|".intercalate (gs.map fmtGroup)))
  | "shf.veval", [css, inds] => do
    let css ← parseIntLL? css; let inds ← parseIntLL? inds
    let sizes := css.map isum
    match vindexEval argsortStable css inds (flatPos sizes) with
    | .ok v => pure (fmtVRes (.ok v) ++ " " ++ fmtIntList (v.map (fun c => (c.length : Int))))
    | r => pure (fmtVRes r)
  | _, _ => none

end Dask.Drv.Shuffle
