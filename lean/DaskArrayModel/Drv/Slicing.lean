import DaskArrayModel.Proto
import DaskArrayModel.Model.Slicing
namespace Dask.Drv.Slicing
open Dask.Py Dask.Py.PySlice Dask.Proto Dask.Slicing

def fmtErr : Err → String
  | .notImplemented => "err NotImplementedError"
  | .indexError => "err IndexError"
  | .valueError => "err ValueError"
  | .typeError => "err TypeError"

def fmtPlan (d : List (Nat × PySlice)) : String :=
  ";".intercalate ((sortByKey d).map (fun (k, v) => toString k ++ "=" ++ fmtSlice v))

def handle (cmd : String) (args : List String) : Option String :=
  match cmd, args with
  | "py.indices", [s, n] => do
    let s ← parseSlice? s; let n ← parseInt? n
    if s.stp = 0 then pure "err ValueError" else
    pure s!"ok {s.istart n} {s.istop n} {s.stp}"
  | "py.range", [a, b, c] => do
    let a ← parseInt? a; let b ← parseInt? b; let c ← parseInt? c
    if c = 0 then pure "err ValueError" else pure ("ok " ++ fmtIntList (rangeList a b c))
  | "py.mod", [a, b] => do
    let a ← parseInt? a; let b ← parseInt? b
    if b = 0 then pure "err ZeroDivisionError" else pure s!"ok {pyMod a b}"
  | "py.div", [a, b] => do
    let a ← parseInt? a; let b ← parseInt? b
    if b = 0 then pure "err ZeroDivisionError" else pure s!"ok {pyDiv a b}"
  | "py.ceildiv", [a, b] => do
    let a ← parseInt? a; let b ← parseInt? b
    if b = 0 then pure "err ZeroDivisionError" else pure s!"ok {ceilDiv a b}"
  | "py.bisect_left", [l, x] => do
    let l ← parseIntList? l; let x ← parseInt? x
    pure s!"ok {bisectLeft l x}"
  | "py.bisect_right", [l, x] => do
    let l ← parseIntList? l; let x ← parseInt? x
    pure s!"ok {bisectRight l x}"
  | "py.cumsum", [l] => do
    let l ← parseIntList? l
    pure ("ok " ++ fmtIntList (cumsum l))
  | "py.partition_all", [k, l] => do
    let k ← k.toNat?; let l ← parseIntList? l
    if k = 0 then pure "err ValueError" else pure ("ok " ++ fmtIntLL (partitionAll k l))
  | "sl.sel", [s, n] => do
    let s ← parseSlice? s; let n ← parseInt? n
    if s.stp = 0 then pure "err ValueError" else pure ("ok " ++ fmtIntList (sel s n))
  | "sl.normalize", [s, n] => do
    let s ← parseSlice? s; let n ← parseInt? n
    if s.stp = 0 then pure "err ValueError" else pure ("ok " ++ fmtSlice (normalizeSlice s n))
  | "sl.fuse_ss", [a, b] => do
    let a ← parseSlice? a; let b ← parseSlice? b
    match fuseSliceSlice a b with
    | .ok r => pure ("ok " ++ fmtSlice r)
    | .error e => pure (fmtErr e)
  | "sl.fuse_si", [a, b] => do
    let a ← parseSlice? a; let b ← parseInt? b
    match fuseSliceInt a b with
    | .ok r => pure s!"ok {r}"
    | .error e => pure (fmtErr e)
  | "sl.compose", [o, i, d] => do
    let o ← parseSlice? o; let i ← parseSlice? i; let d ← parseInt? d
    if o.stp = 0 ∨ i.stp = 0 then pure "err ValueError" else
    pure ("ok " ++ fmtSlice (composeSlices o i d))
  | "sl.slice1d", [d, l, s] => do
    let d ← parseInt? d; let l ← parseIntList? l; let s ← parseSlice? s
    pure ("ok " ++ fmtPlan (slice1d d l s))
  | "sl.slice1d_int", [l, i] => do
    let l ← parseIntList? l; let i ← parseInt? i
    let r := slice1dInt l i
    pure s!"ok {r.1} {r.2}"
  | "sl.new_blockdim", [d, l, s] => do
    let d ← parseInt? d; let l ← parseIntList? l; let s ← parseSlice? s
    pure ("ok " ++ fmtIntList (newBlockdim d l s))
  | "sl.sliced_chunks", [c, s, d] => do
    let c ← parseIntList? c; let s ← parseSlice? s; let d ← parseInt? d
    if s.stp = 0 then pure "err ValueError" else
    pure ("ok " ++ fmtIntList (computeSlicedChunks c s d))
  | "sl.slice_chunks", [c, a, n] => do
    let c ← parseIntList? c; let a ← parseInt? a; let n ← parseInt? n
    pure ("ok " ++ fmtIntList (sliceChunks c a n))
  | "sl.posify", [shape, i] => do
    let shape ← parseInt? shape; let i ← parseInt? i
    pure s!"ok {posifyInt shape i}"
  | "sl.check_index", [i, d] => do
    let i ← parseInt? i; let d ← parseInt? d
    pure (if checkIndexInt i d then "ok" else "err IndexError")
  | _, _ => none

end Dask.Drv.Slicing
