/-
Line protocol for the creation-array rewrites (family `crt.`), model: Model/Creation.lean.

  crt.len start stop step                      -> ok <num_rows>                       (step 0: err ZeroDivisionError)
  crt.accept start stop step <ix>              -> ok <new_start> <new_step> <count> <2*new_stop> | ok decline   (arange of ints:
                                                  new_stop = new_start + count*new_step)
  crt.acceptf start stop step <ix>             -> the same for the dyadic-float arange given by its numerators (float branch:
                                                  new_stop is the midpoint new_start + (count - 1/2)*new_step)
  crt.lin start step num <ix>                  -> ok <new_start> <new_step> <count> <new_stop> | ok decline
  crt.blocks start step <chunks>               -> ok <list of lists: the block values of `_layer`>
  crt.slice_vals start stop step <slice>       -> ok <int list: np.arange(start, stop, step)[slice]>
  crt.const_slice <shape> <chunks> <idx> <name>            -> ok <shape> <chunks> <name>
  crt.const_take <shape> <chunks> ax <indexer> <outchunks> <name> -> ok <shape> <chunks> <name>
<ix> is an int or a slice `a:b:c`; <idx> a `,`-separated list of those (`_` when empty); <name> is `N` or a string.
A slice with step 0 gives `err ValueError` (what `slice.indices` raises).
-/
import DaskArrayModel.Proto
import DaskArrayModel.Model.Creation
namespace Dask.Drv.Creation
open Dask.Py Dask.Py.PySlice Dask.Proto Dask.ND Dask.Creation

def parseIx? (t : String) : Option Ix :=
  if t.contains ':' then (parseSlice? t).map Ix.slc else (parseInt? t).map Ix.int

def parseIdx? (s : String) : Option (List Ix) :=
  if s = "_" then some [] else (s.splitOn ",").mapM parseIx?

def zeroStep : Ix → Bool
  | .slc s => s.stp == 0
  | .int _ => false

def fmtName : Option String → String
  | none => "N"
  | some s => s

def parseName (s : String) : Option String := if s = "N" then none else some s

def handle (cmd : String) (args : List String) : Option String :=
  match cmd, args with
  | "crt.len", [a, b, c] => do
    let a ← parseInt? a; let b ← parseInt? b; let c ← parseInt? c
    if c = 0 then pure "err ZeroDivisionError" else
    pure s!"ok {arangeLen a b c}"
  | "crt.accept", [a, b, c, ix] => do
    let a ← parseInt? a; let b ← parseInt? b; let c ← parseInt? c; let ix ← parseIx? ix
    if c = 0 then pure "err ZeroDivisionError" else
    if zeroStep ix then pure "err ValueError" else
    match acceptSlice ⟨a, b, c, true⟩ ix with
    | none => pure "ok decline"
    | some f => pure s!"ok {f.start} {f.step} {f.count} {f.stop2}"
  | "crt.acceptf", [a, b, c, ix] => do
    let a ← parseInt? a; let b ← parseInt? b; let c ← parseInt? c; let ix ← parseIx? ix
    if c = 0 then pure "err ZeroDivisionError" else
    if zeroStep ix then pure "err ValueError" else
    match acceptSlice ⟨a, b, c, false⟩ ix with
    | none => pure "ok decline"
    | some f => pure s!"ok {f.start} {f.step} {f.count} {f.stop2}"
  | "crt.lin", [a, c, n, ix] => do
    let a ← parseInt? a; let c ← parseInt? c; let n ← n.toNat?; let ix ← parseIx? ix
    if zeroStep ix then pure "err ValueError" else
    match acceptSliceLinspace a c n ix with
    | none => pure "ok decline"
    | some (s, st, cnt, sp) => pure s!"ok {s} {st} {cnt} {sp}"
  | "crt.blocks", [a, c, ch] => do
    let a ← parseInt? a; let c ← parseInt? c; let ch ← parseNatList? ch
    pure s!"ok {fmtIntLL (arangeBlocks a c ch)}"
  | "crt.slice_vals", [a, b, c, s] => do
    let a ← parseInt? a; let b ← parseInt? b; let c ← parseInt? c; let s ← parseSlice? s
    if c = 0 then pure "err ZeroDivisionError" else
    if s.stp = 0 then pure "err ValueError" else
    pure s!"ok {fmtIntList (sliceList (arangeVals a c (arangeLen a b c)) s)}"
  | "crt.const_slice", [sh, ch, idx, nm] => do
    let sh ← parseNatList? sh; let ch ← parseNatLL? ch; let idx ← parseIdx? idx
    if idx.any zeroStep then pure "err ValueError" else
    let r := constSlice ⟨sh, ch, parseName nm, 0⟩ idx
    pure s!"ok {fmtNatList r.shape} {fmtNatLL r.chunks} {fmtName r.name}"
  | "crt.const_take", [sh, ch, ax, ind, oc, nm] => do
    let sh ← parseNatList? sh; let ch ← parseNatLL? ch; let ax ← ax.toNat?
    let ind ← parseIntList? ind; let oc ← parseNatList? oc
    let r := constTake ⟨sh, ch, parseName nm, 0⟩ ax ind oc
    pure s!"ok {fmtNatList r.shape} {fmtNatLL r.chunks} {fmtName r.name}"
  | _, _ => none

end Dask.Drv.Creation
