/-
Line protocol for the coarse slice pushdown model (family `crs.`).

node token   `<outInd>/<ops>/<adjust>/<newAxes>`
  outInd     int list (labels), `_` when empty
  ops        `|`-separated, one per `(arg, ind)` pair: `L` literal; `A~<ind>~<chunks>` array operand;
             `D~<ind>~<chunks>` operand without `_meta`; `<chunks>` is a list of lists (`-` when 0-d)
  adjust     `-` or `+`-separated `label=c<int>` | `label=t<int list>` | `label=f<table>` where the table of a callable is
             `v.g(v)` pairs joined by `,` (`f` alone: never evaluated)
  newAxes    `-` or `+`-separated `label=<int list>`
oc           list of lists (the node's `.chunks`)
index        `,`-separated entries: an int or a slice `a:b:c`; `_` when empty
-/
import DaskArrayModel.Proto
import DaskArrayModel.Model.CoarseSlice
namespace Dask.Drv.CoarseSlice
open Dask.Py Dask.Py.PySlice Dask.Proto Dask.Slicing Dask.Coarse

def parseIdx? (s : String) : Option (List Idx) :=
  if s = "_" then some [] else
    (s.splitOn ",").mapM (fun t =>
      if t.contains ':' then (parseSlice? t).map Idx.slc else (parseInt? t).map Idx.int)

def parseTable? (s : String) : Option (Int → Int) :=
  if s = "" then some (fun v => v) else do
    let ps ← (s.splitOn ",").mapM (fun t =>
      match t.splitOn "." with
      | [a, b] => do let a ← parseInt? a; let b ← parseInt? b; pure (a, b)
      | _ => none)
    pure (fun v => (ps.lookup v).getD 0)

def parseAdjKind? (s : String) : Option AdjKind :=
  if s.startsWith "c" then (parseInt? (s.drop 1).toString).map AdjKind.const
  else if s.startsWith "t" then (parseIntList? (s.drop 1).toString).map AdjKind.tuple
  else if s.startsWith "f" then (parseTable? (s.drop 1).toString).map AdjKind.fn
  else none

def parseAdjust? (s : String) : Option (List (Nat × AdjKind)) :=
  if s = "-" then some [] else
    (s.splitOn "+").mapM (fun t =>
      match t.splitOn "=" with
      | [l, v] => do let l ← l.toNat?; let v ← parseAdjKind? v; pure (l, v)
      | _ => none)

def parseNewAxes? (s : String) : Option (List (Nat × List Int)) :=
  if s = "-" then some [] else
    (s.splitOn "+").mapM (fun t =>
      match t.splitOn "=" with
      | [l, v] => do let l ← l.toNat?; let v ← parseIntList? v; pure (l, v)
      | _ => none)

def parseOpd? (s : String) : Option Opd :=
  if s = "L" then some { ind := none, chunks := [] } else
    match s.splitOn "~" with
    | [k, ind, ch] => do
      let ind ← parseNatList? ind
      let ch ← parseIntLL? ch
      if k = "A" then pure { isArr := true, ind := some ind, chunks := ch }
      else if k = "D" then pure { isArr := false, ind := some ind, chunks := ch }
      else none
    | _ => none

def parseNode? (s : String) : Option Node :=
  match s.splitOn "/" with
  | [o, ops, adj, na] => do
    let o ← parseNatList? o
    let ops ← (ops.splitOn "|").mapM parseOpd?
    let adj ← parseAdjust? adj
    let na ← parseNewAxes? na
    pure { outInd := o, ops := ops, adjust := adj, newAxes := na }
  | _ => none

def fmtBr : Option (Nat × Nat) → String
  | none => "*"
  | some (f, l) => s!"{f}-{l}"

def fmtAdj : Adj → String
  | .colon => ":"
  | .int k => toString k
  | .rng a b => s!"{a}:{b}"

def fmtAxSl : Option (Int × Int) → String
  | none => ":"
  | some (a, b) => s!"{a}:{b}"

def fmtOpSl : Option (List (Option (Int × Int))) → String
  | none => "N"
  | some [] => "-"
  | some l => ",".intercalate (l.map fmtAxSl)

def fmtAdjKind : AdjKind → String
  | .const c => s!"c{c}"
  | .tuple t => "t" ++ fmtIntList t
  | .fn _ => "f"

def fmtAdjust (a : List (Nat × AdjKind)) : String :=
  if a.isEmpty then "-" else "+".intercalate (a.map (fun e => s!"{e.1}={fmtAdjKind e.2}"))

def joinOr (d : String) (sep : String) (l : List String) : String := if l.isEmpty then d else sep.intercalate l

def fmtResult (r : Result) : String :=
  "ok br=" ++ joinOr "_" ";" (r.plans.map (fun p => fmtBr p.br))
    ++ " adj=" ++ joinOr "_" ";" (r.plans.map (fun p => fmtAdj p.adj))
    ++ " ops=" ++ joinOr "_" "|" (r.opSlices.map fmtOpSl)
    ++ " adjust=" ++ fmtAdjust r.adjust
    ++ " top=" ++ (if needsOutputSlice r then "1" else "0")

def stepZero (idx : List Idx) : Bool :=
  idx.any (fun i => match i with | .slc s => decide (s ≠ colon ∧ s.stp = 0) | _ => false)

def handle (cmd : String) (args : List String) : Option String :=
  match cmd, args with
  | "crs.fbr", [c, a, b] => do
    let c ← parseIntList? c; let a ← parseInt? a; let b ← parseInt? b
    match findBlockRange c a b with
    | none => pure "ok N"
    | some (f, l) => pure s!"ok {f} {l}"
  | "crs.axis", [c, i] => do
    let c ← parseIntList? c; let i ← parseIdx? i
    match i with
    | [i] =>
      if stepZero [i] then pure "err ValueError" else
      match acceptAxis c i with
      | none => pure "ok decline"
      | some p => pure s!"ok {fmtBr p.br} {fmtAdj p.adj}"
    | _ => none
  | "crs.accept", [n, oc, i] => do
    let n ← parseNode? n; let oc ← parseIntLL? oc; let i ← parseIdx? i
    if stepZero i then pure "err ValueError" else
    match acceptCoarse n oc i with
    | none => pure "ok decline"
    | some r => pure (fmtResult r)
  | "crs.chunks", [n] => do
    let n ← parseNode? n
    match nodeChunks n with
    | none => pure "err ValueError"
    | some c => pure ("ok " ++ fmtIntLL c)
  | "crs.rewritten", [n, oc, i] => do
    let n ← parseNode? n; let oc ← parseIntLL? oc; let i ← parseIdx? i
    if stepZero i then pure "err ValueError" else
    match acceptCoarse n oc i with
    | none => pure "ok decline"
    | some r =>
      match nodeChunks (rewritten n r) with
      | none => pure "err ValueError"
      | some c => pure ("ok " ++ fmtIntLL c ++ " " ++ fmtIntLL (indexedChunks c (r.plans.map (·.adj.toIdx))))
  | "crs.opchunks", [ic, a, b] => do
    let ic ← parseIntList? ic; let a ← parseInt? a; let b ← parseInt? b
    pure ("ok " ++ fmtIntList (opChunksAfter ic (some (a, b))))
  | _, _ => none

end Dask.Drv.CoarseSlice
