/-
Line-protocol handler for the second-layer expression model (families `ex2`, `ru2`).

A program is ONE token in the format of the `ex` family (Drv/Expr.lean: steps separated by `;`, operands
referenced by 0-based step number, the result is the last step), EXTENDED with the steps

  zipb~<fn>~<a>~<b>          binary elementwise with NumPy broadcasting (`Expr2.zipB`); fn as for `zip`
  take~<k>~<axis>~<ints>     `x[:, …, [i0, i1, …], …]` on `axis` (`Expr2.take`; negative entries allowed)
  swv~<sum|max|min>~<k>~<window>~<axis>
                             `sliding_window_view(x, window, axis).<fn>(axis=-1)`, OVERLAP plan
                             (`Expr2.swvReduce`); the chunks on `axis` must already be ≥ window (emit the
                             rechunk that `sliding_window_view` inserts as an explicit `rechunk` step)
  roll~<k>~<shift>~<axis>    derived: `Expr.roll`  (concatenate of two slices; the array itself when the
                             start is 0, as `concatenate` drops the empty slice)
  stack~<axis>~<k1,k2,…>     derived: `Expr.stackN` (concatenate of expand_dims)
  diff~<k>~<axis>            derived: `Expr.diff sub`; `diff~<k>~<axis>~<chunks>` = `Expr.diffU` (both slices
                             rechunked to the given common layout first)
  swapaxes~<k>~<a>~<b>, moveaxis~<k>~<src>~<dst>, atleast~<k>~<ndim>    derived (transpose / leading axes)
  clip~<k>~<lo>~<hi>         elementwise `min(max(x, lo), hi)` (`Expr.map` with a function made for the step)
  mapblocks~<fn>~<k>         additionally fn ∈ eaffine3 (b*3-1) | esq | eneg | escale5 (b*5+2) | eshift4 (b-4)

A phase-1 step (or a derived one) whose operands are results of layer-2 steps becomes an `Expr2.node`:
its operands are replaced by hole sources declared with the operand's shape and chunks (at most two
distinct layer-2 operands per step; one `node` operand is merged into its context).

Commands (as in the `ex` family, on `Expr2`)
  ex2.wf | ex2.shape | ex2.chunks | ex2.nblocks | ex2.eval | ex2.compute <prog>,  ex2.block <prog> <bid>
  ex2.kind <prog>            → `ok base` (the program is a phase-1 expression) | `ok ext`
  ru2.accepts <seq> <before> <after>   as `ru.accepts` (Drv/Rules.lean) over the rules of phases 2 AND 3
                             (`before` / `after` are `ex` program tokens)
  ru2.step <rule> <prog>     → `ok <prog'>` | `ok none`   one rule at the first position where it fires
Errors: `err unsupported`, `err illformed`.
-/
import DaskArrayModel.Drv.Rules
import DaskArrayModel.Model.Expr2
import DaskArrayModel.Model.ExprDerived
import DaskArrayModel.Model.Rules2
namespace Dask.Drv.Expr2
open Dask.Py Dask.Proto Dask.ND Dask.Drv.Expr

/-- elementwise block functions for `map_blocks` (numbers 100 …) -/
def eblkOps : List String := ["eaffine3", "esq", "eneg", "escale5", "eshift4"]

def eblkFn : Nat → Int → Int
  | 0, x => x * 3 - 1
  | 1, x => x * x
  | 2, x => -x
  | 3, x => x * 5 + 2
  | 4, x => x - 4
  | _, x => x

def blkFn2 (f : Nat) (a : Arr Int) : Arr Int :=
  if f < 100 then blkFn f a else ⟨a.shape, fun i => eblkFn (f - 100) (a.get i)⟩

structure St where
  steps : Array Dask.ND.Expr2 := #[]
  srcs : Array (Nat × SrcSpec) := #[]
  /-- unary functions created by steps (`clip`): numbers 100 … -/
  uns : Array (Int → Int) := #[]

def dummy : Expr := .src 0 [] []

/-- step numbers a phase-1 / derived step refers to -/
def refsOf (parts : List String) : Option (List Nat) :=
  match parts with
  | ["src", _, _, _, _, _] => some []
  | ["map", _, k] => do pure [← k.toNat?]
  | ["zip", _, a, b] => do pure [← a.toNat?, ← b.toNat?]
  | ["slice", k, _] => do pure [← k.toNat?]
  | ["transpose", k, _] => do pure [← k.toNat?]
  | ["rechunk", k, _] => do pure [← k.toNat?]
  | ["concat", _, ks] => parseNatList? ks
  | ["reduce", _, k, _, _, _] => do pure [← k.toNat?]
  | ["flip", k, _] => do pure [← k.toNat?]
  | ["expand", k, _] => do pure [← k.toNat?]
  | ["squeeze", k, _] => do pure [← k.toNat?]
  | ["mapblocks", _, k] => do pure [← k.toNat?]
  | ["cumsum", k, _] => do pure [← k.toNat?]
  | ["broadcast", k, _, _] => do pure [← k.toNat?]
  | ["roll", k, _, _] => do pure [← k.toNat?]
  | ["stack", _, ks] => parseNatList? ks
  | ["diff", k, _] => do pure [← k.toNat?]
  | ["diff", k, _, _] => do pure [← k.toNat?]
  | ["swapaxes", k, _, _] => do pure [← k.toNat?]
  | ["moveaxis", k, _, _] => do pure [← k.toNat?]
  | ["atleast", k, _] => do pure [← k.toNat?]
  | ["clip", k, _, _] => do pure [← k.toNat?]
  | _ => none

/-- a phase-1 or derived step over the (context) expressions `tmp`; returns the expression, a source
spec for `src` steps, and a new unary function for `clip` -/
def parseStepD (tmp : Array Expr) (nuns : Nat) (step : String) :
    Except PErr (Expr × Option SrcSpec × Option (Int → Int)) := do
  let ref (s : String) : Except PErr Expr := do
    let k ← ofOpt s.toNat? .illformed
    ofOpt tmp[k]? .illformed
  match step.splitOn "~" with
  | ["roll", k, shift, axis] =>
    let e ← ref k
    let shift ← ofOpt (parseInt? shift) .illformed
    let axis ← ofOpt (parseInt? axis) .illformed
    let ax ← normAxis axis (shape e).length
    if ax ≥ (shape e).length then .error .illformed else
    -- `concatenate` drops a size-0 operand unless all operands are empty: with `s = 0` the second
    -- slice `x[:0]` is dropped and the result is `x[0:]`, i.e. `x`
    if rollStart ((shape e).getD ax 0) shift = 0 ∧ (shape e).foldl (· * ·) 1 ≠ 0 then pure (e, none, none) else
    pure (e.roll shift ax, none, none)
  | ["stack", axis, ks] =>
    let axis ← ofOpt (parseInt? axis) .illformed
    let ks ← ofOpt (parseNatList? ks) .illformed
    let es ← ks.mapM (fun k => ofOpt tmp[k]? .illformed)
    match es with
    | [] => .error .illformed
    | e :: _ =>
      let ax ← normAxis axis ((shape e).length + 1)
      if ax > (shape e).length then .error .illformed else
      -- `stack` requires one shape; differing chunks = the implicit chunk unification, not modelled
      if es.any (fun x => !decide (shape x = shape e)) then .error .illformed else
      if es.any (fun x => !decide (chunks x = chunks e)) then .error .unsupported else
      let r ← ofOpt (Expr.stackN es ax) .illformed
      pure (r, none, none)
  | ["diff", k, axis] =>
    let e ← ref k
    let axis ← ofOpt (parseInt? axis) .illformed
    let ax ← normAxis axis (shape e).length
    if ax ≥ (shape e).length then .error .illformed else
    let r := Expr.diff 1 e ax
    -- the two shifted slices carry different chunks: the implicit chunk unification, not modelled
    if wf r then pure (r, none, none) else .error .unsupported
  | ["diff", k, axis, ch] =>
    let e ← ref k
    let axis ← ofOpt (parseInt? axis) .illformed
    let ch ← ofOpt (parseLayout? ch) .illformed
    let ax ← normAxis axis (shape e).length
    if ax ≥ (shape e).length then .error .illformed else
    pure (Expr.diffU 1 e ax ch, none, none)
  | ["swapaxes", k, a, b] =>
    let e ← ref k
    let a ← ofOpt (parseInt? a) .illformed
    let b ← ofOpt (parseInt? b) .illformed
    let a ← normAxis a (shape e).length
    let b ← normAxis b (shape e).length
    if a = b then pure (e, none, none) else
    pure (e.swapaxes a b, none, none)
  | ["moveaxis", k, s, d] =>
    let e ← ref k
    let s ← ofOpt (parseInt? s) .illformed
    let d ← ofOpt (parseInt? d) .illformed
    let s ← normAxis s (shape e).length
    let d ← normAxis d (shape e).length
    pure (e.moveaxis s d, none, none)
  | ["atleast", k, n] =>
    let e ← ref k
    let n ← ofOpt n.toNat? .illformed
    pure (e.atleastNd n, none, none)
  | ["clip", k, lo, hi] =>
    let e ← ref k
    let lo ← ofOpt (parseInt? lo) .illformed
    let hi ← ofOpt (parseInt? hi) .illformed
    -- `np.clip` = `minimum(maximum(x, lo), hi)`
    pure (.map (100 + nuns) e, none, some (fun x => min (max x lo) hi))
  | ["mapblocks", fn, k] =>
    match eblkOps.idxOf? fn with
    | some f =>
      let e ← ref k
      pure (.mapBlocks (100 + f) e, none, none)
    | none =>
      let (e, s) ← parseStep tmp step
      pure (e, s, none)
  | _ =>
    let (e, s) ← parseStep tmp step
    pure (e, s, none)

def redOf (fn : String) : Option Red :=
  match fn with | "sum" => some Red.sum | "max" => some Red.max | "min" => some Red.min | _ => none

/-- parse one step given the state -/
def parseStep2 (st : St) (step : String) : Except PErr St := do
  let parts := step.splitOn "~"
  let ref2 (s : String) : Except PErr Dask.ND.Expr2 := do
    let k ← ofOpt s.toNat? .illformed
    ofOpt st.steps[k]? .illformed
  match parts with
  | ["zipb", fn, a, b] =>
    let f ← ofOpt (binOps.idxOf? fn) .unsupported
    let a ← ref2 a
    let b ← ref2 b
    -- equal-length axes with different chunks: the implicit chunk unification of the real API, not modelled
    let sa := (shape2 a).reverse
    let sb := (shape2 b).reverse
    let ca := (chunks2 a).reverse
    let cb := (chunks2 b).reverse
    let clash := (List.zip (List.zip sa sb) (List.zip ca cb)).any
      (fun p => decide (p.1.1 = p.1.2) && !decide (p.2.1 = p.2.2))
    let bad := (List.zip sa sb).any (fun p => !decide (p.1 = p.2) && !decide (p.1 = 1) && !decide (p.2 = 1))
    if bad then .error .illformed else
    if clash then .error .unsupported else
    pure { st with steps := st.steps.push (.zipB f a b) }
  | ["take", k, axis, idx] =>
    let e ← ref2 k
    let axis ← ofOpt (parseInt? axis) .illformed
    let idx ← ofOpt (parseIntList? idx) .illformed
    let ax ← normAxis axis (shape2 e).length
    pure { st with steps := st.steps.push (.take e ax idx) }
  | ["swv", fn, k, w, axis] =>
    let r ← ofOpt (redOf fn) .unsupported
    let e ← ref2 k
    let w ← ofOpt w.toNat? .illformed
    let axis ← ofOpt (parseInt? axis) .illformed
    let ax ← normAxis axis (shape2 e).length
    pure { st with steps := st.steps.push (.swvReduce r e w ax) }
  | _ =>
    let refs ← ofOpt (refsOf parts) .unsupported
    for k in refs do
      if k ≥ st.steps.size then throw PErr.illformed
    let isBase (x : Dask.ND.Expr2) : Bool := match x with | .base _ => true | _ => false
    let nonBase := (refs.filter (fun k => !(isBase (st.steps[k]?.getD (.base dummy))))).eraseDups
    let baseOf (x : Dask.ND.Expr2) : Expr := match x with | .base e => e | _ => dummy
    let hole (id : Nat) (x : Dask.ND.Expr2) : Expr := .src id (shape2 x) (chunks2 x)
    match nonBase with
    | [] =>
      let tmp := st.steps.map baseOf
      let (e, s, u) ← parseStepD tmp st.uns.size step
      let srcs := match s with | some sp => st.srcs.push (st.steps.size, sp) | none => st.srcs
      let uns := match u with | some f => st.uns.push f | none => st.uns
      pure { steps := st.steps.push (.base e), srcs := srcs, uns := uns }
    | [p] =>
      let x := st.steps[p]?.getD (.base dummy)
      match x with
      | .node ex a b =>
        -- merge: the operand's context continues
        let tmp := (st.steps.map baseOf).setIfInBounds p ex
        let (e, _, u) ← parseStepD tmp st.uns.size step
        let uns := match u with | some f => st.uns.push f | none => st.uns
        pure { st with steps := st.steps.push (.node e a b), uns := uns }
      | _ =>
        let tmp := (st.steps.map baseOf).setIfInBounds p (hole holeA x)
        let (e, _, u) ← parseStepD tmp st.uns.size step
        let uns := match u with | some f => st.uns.push f | none => st.uns
        pure { st with steps := st.steps.push (.node e x x), uns := uns }
    | [p, q] =>
      let x := st.steps[p]?.getD (.base dummy)
      let y := st.steps[q]?.getD (.base dummy)
      let tmp := ((st.steps.map baseOf).setIfInBounds p (hole holeA x)).setIfInBounds q (hole holeB y)
      let (e, _, u) ← parseStepD tmp st.uns.size step
      let uns := match u with | some f => st.uns.push f | none => st.uns
      pure { st with steps := st.steps.push (.node e x y), uns := uns }
    | _ => .error .unsupported

structure Prog2 where
  expr : Dask.ND.Expr2
  env : Env

def parseProg2 (prog : String) : Except PErr Prog2 := do
  let mut st : St := {}
  for s in prog.splitOn ";" do
    st ← parseStep2 st s
  match st.steps.back? with
  | none => .error .illformed
  | some e =>
    let table := st.srcs
    let uns := st.uns
    let env : Env :=
      { src := fun id =>
          match table.find? (fun p => p.1 == id) with
          | some p => srcArr p.2
          | none => ⟨[], fun _ => 0⟩
        un := fun f x => if f < 100 then unFn f x else (uns[f - 100]?.getD (fun y => y)) x
        bin := binFn
        blk := blkFn2 }
    pure ⟨e, env⟩

def withProg2 (prog : String) (k : Prog2 → String) : String :=
  match parseProg2 prog with
  | .error e => fmtPErr e
  | .ok p => if !wf2 p.expr then fmtPErr .illformed else k p

/-! ### `ru2`: the rules of phases 2 and 3 -/

def allRules2 : List (String × (Expr → Option Expr)) := rules ++ extraRules ++ rules2

def applyItem2 (item : String) (e : Expr) : Option (Option Expr) :=
  let star := item.endsWith "*"
  let name := if star then (item.dropEnd 1).toString else item
  match allRules2.find? (fun p => p.1 == name) with
  | none => none
  | some r =>
    if star then
      let rec loop : Nat → Expr → Expr
        | 0, e => e
        | fuel + 1, e =>
          match stepWith [r] e with
          | some (_, e') => loop fuel e'
          | none => e
      some (some (loop 64 e))
    else
      match stepWith [r] e with
      | some (_, e') => some (some e')
      | none => some none

def applySeq2 : List String → Expr → Option (Option Expr)
  | [], e => some (some e)
  | it :: rest, e =>
    match applyItem2 it e with
    | none => none
    | some none => some none
    | some (some e') => applySeq2 rest e'

def handle (cmd : String) (args : List String) : Option String :=
  match cmd, args with
  | "ex2.wf", [prog] =>
    some (match parseProg2 prog with
      | .error .unsupported => fmtPErr .unsupported
      | .error .illformed => "ok 0"
      | .ok p => if wf2 p.expr then "ok 1" else "ok 0")
  | "ex2.kind", [prog] =>
    some (match parseProg2 prog with
      | .error e => fmtPErr e
      | .ok p => match p.expr with | .base _ => "ok base" | _ => "ok ext")
  | "ex2.shape", [prog] => some (withProg2 prog (fun p => "ok " ++ fmtNatList (shape2 p.expr)))
  | "ex2.chunks", [prog] => some (withProg2 prog (fun p => "ok " ++ fmtLayout (chunks2 p.expr)))
  | "ex2.nblocks", [prog] =>
    some (withProg2 prog (fun p => "ok " ++ fmtNatList (numblocks (chunks2 p.expr))))
  | "ex2.eval", [prog] => some (withProg2 prog (fun p => fmtArr (den2 p.env p.expr)))
  | "ex2.compute", [prog] => some (withProg2 prog (fun p => fmtArr (compute2 p.env p.expr)))
  | "ex2.block", [prog, bid] =>
    some (withProg2 prog (fun p =>
      match parseNatList? bid with
      | none => fmtPErr .illformed
      | some b =>
        if decide (validBid (chunks2 p.expr) b) then fmtArr (blockDen2 p.env p.expr b)
        else fmtPErr .illformed))
  | "ru2.accepts", [seq, pb, pa] =>
    some (match Dask.Drv.Rules.parseProgT pb, Dask.Drv.Rules.parseProgT pa with
      | .ok b, .ok a =>
        if !wf b.expr || !wf a.expr then "ok 2" else
        match applySeq2 (seq.splitOn "+") b.expr with
        | none => "ok 2"
        | some none => "ok 0"
        | some (some t) =>
          if shape t == shape a.expr && chunks t == chunks a.expr &&
              Dask.Drv.Rules.sameDen (den b.env t) (den a.env a.expr) then "ok 1" else "ok 0"
      | _, _ => "ok 2")
  | "ru2.step", [rule, prog] =>
    some (Dask.Drv.Rules.withProgT prog (fun p =>
      match applyItem2 rule p.expr with
      | none => fmtPErr .unsupported
      | some none => "ok none"
      | some (some e') => "ok " ++ Dask.Drv.Rules.encode p.srcs e'))
  | _, _ => none

end Dask.Drv.Expr2
