/-
L1 model of the region logic of `FromArray` (dask_array/io/_from_array.py: `_accept_slice`,
`_layer` region offsets, `_accept_rechunk`, `_effective_shape`), of
`slices_from_chunks` (dask_array/_core_utils.py) and of the per-block write index of
`store` (dask_array/io/_store.py: `load_store_chunk`, region fusion via `fuse_slice`).
Everything is per axis first (the code is a `zip` over axes); the n-d glue only carries
the all-or-nothing guards.  Core Lean only.  Tied to the implementation by
harness/props/C24.py and C25.py.
-/
import DaskArrayModel.Model.Slicing
namespace Dask.SourceIO
open Dask.Py Dask.Py.PySlice Dask.Slicing

/-! ## shared: `slices_from_chunks` on one axis -/

/-- `[slice(s, s + c) for s, c in zip(cumsum(initial_zero), chunks)]` as `(start, stop)` pairs. -/
def slicesFromChunksFrom (acc : Int) : List Int → List (Int × Int)
  | [] => []
  | c :: cs => (acc, acc + c) :: slicesFromChunksFrom (acc + c) cs

def slicesFromChunks (chunks : List Int) : List (Int × Int) := slicesFromChunksFrom 0 chunks

/-- positions named by a list of unit-step `(start, stop)` slices, concatenated in order -/
def slicesPositions (l : List (Int × Int)) : List Int :=
  l.flatMap (fun p => rangeList p.1 p.2 1)

/-! ## C24: `FromArray` regions -/

/-- one entry of the index tuple a `SliceSlicesIntegers` parent hands to `_accept_slice` -/
inductive Idx where
  | int (i : Int)
  | slc (s : PySlice)
  | newaxis
  | fancy
deriving DecidableEq, Repr

/-- one axis of a `FromArray`: source length, pushed-in region (`_region[k]` or `None`),
normalized chunks of the (effective) axis. -/
structure Axis where
  dim : Int
  region : Option PySlice
  chunks : List Int
deriving DecidableEq, Repr

/-- `slc.indices(dim_size)[0]` of the region; `0` without region (`_layer`). -/
def regionStart (region : Option PySlice) (dim : Int) : Int :=
  match region with
  | none => 0
  | some r => r.istart dim

/-- `_effective_shape[k]`: `len(range(*slc.indices(dim_size)))`, or `dim` without region. -/
def effLen (region : Option PySlice) (dim : Int) : Int :=
  match region with
  | none => dim
  | some r => (rangeLen (r.istart dim) (r.istop dim) r.stp : Int)

/-- the per-block slices `_layer` emits on this axis:
`slice(s.start + offset, s.stop + offset)` over `slices_from_chunks(self.chunks)`. -/
def layerSlices (ax : Axis) : List (Int × Int) :=
  (slicesFromChunks ax.chunks).map
    (fun p => (p.1 + regionStart ax.region ax.dim, p.2 + regionStart ax.region ax.dim))

/-- source positions read on this axis, block after block -/
def readPositions (ax : Axis) : List Int := slicesPositions (layerSlices ax)

/-- the guards of `_accept_slice` on one index entry: no `None`, only slices / integers,
slices only with step `None` or `1`. -/
def idxAccepted : Idx → Bool
  | .int _ => true
  | .slc s => decide (s.step = none ∨ s.step = some 1)
  | .newaxis => false
  | .fancy => false

/-- `region_index[k]`: `slice(idx, idx + 1)` for an integer, the slice itself otherwise. -/
def regionIndex : Idx → PySlice
  | .int i => ⟨some i, some (i + 1), none⟩
  | .slc s => s
  | _ => colon

/-- `_accept_slice` on one axis (guards already passed): new region by `_compose_slices`
with the old one (or the index itself when there is none), new chunks by
`_compute_sliced_chunks` on the *effective* axis length. -/
def acceptSliceAxis (ax : Axis) (idx : Idx) : Option Axis :=
  if idxAccepted idx then
    let ri := regionIndex idx
    let newRegion :=
      match ax.region with
      | some old => composeSlices old ri ax.dim
      | none => ri
    some ⟨ax.dim, some newRegion, computeSlicedChunks ax.chunks ri (effLen ax.region ax.dim)⟩
  else none

/-- a chain of accepted pushes into one axis -/
def acceptChain (ax : Axis) : List Idx → Option Axis
  | [] => some ax
  | i :: rest => (acceptSliceAxis ax i).bind (fun ax' => acceptChain ax' rest)

/-- zip axes with the index padded by `slice(None)` (`full_index`) -/
def padIndex (n : Nat) (index : List Idx) : List Idx :=
  index ++ List.replicate (n - index.length) (Idx.slc colon)

def iprod : List Int → Int
  | [] => 1
  | x :: xs => x * iprod xs

/-- result of the n-d `_accept_slice`:
`axes` of the new `FromArray`, `rebased` = the NumPy source was replaced by
`source[new_region].copy()` (then `dim` of each axis is the region length and the region
is dropped), `extract` = per-axis flag "integer" for the wrapping
`SliceSlicesIntegers(new_io, (0 | slice(None), …))` (present iff some flag is set). -/
structure Accepted where
  axes : List Axis
  rebased : Bool
  extract : List Bool
deriving DecidableEq, Repr

def zipAccept : List Axis → List Idx → Option (List Axis)
  | [], _ => some []
  | _ :: _, [] => none
  | a :: as, i :: is =>
    match acceptSliceAxis a i, zipAccept as is with
    | some a', some r => some (a' :: r)
    | _, _ => none

/-- n-d `_accept_slice`.  `isNd` = the source is exactly `np.ndarray`/`MaskedArray`;
`itemsize`, `limit` for the `_NUMPY_SLICE_PUSHDOWN_NBYTES_LIMIT` branch.
Requires `index.length ≤ axes.length` (guaranteed by `normalize_index`). -/
def acceptSlice (axes : List Axis) (index : List Idx) (isNd : Bool) (itemsize limit : Int) :
    Option Accepted :=
  if index.any (fun i => i = Idx.newaxis) then none
  else if index.any (fun i => !(match i with | .int _ => true | .slc _ => true | _ => false)) then none
  else if index.any (fun i => !idxAccepted i) then none
  else
    let full := padIndex axes.length index
    match zipAccept axes full with
    | none => none
    | some axes' =>
      let extract := (full.take axes.length).map (fun i => match i with | .int _ => true | _ => false)
      let regionShape := axes'.map (fun a => effLen a.region a.dim)
      if isNd then
        if regionShape = axes.map (·.dim) then
          some ⟨axes'.map (fun a => ⟨a.dim, none, a.chunks⟩), false, extract⟩
        else if iprod regionShape * itemsize ≤ limit then
          some ⟨axes'.map (fun a => ⟨effLen a.region a.dim, none, a.chunks⟩), true, extract⟩
        else some ⟨axes', false, extract⟩
      else some ⟨axes', false, extract⟩

/-! ### `_accept_rechunk` (storage-aligned reads) -/

/-- `normalize_chunks((size,), (dim,))` for a positive integer size: blocks of `size` and a
remainder; `(0,)` for an empty axis. -/
def uniformChunks (size dim : Int) : List Int :=
  if dim ≤ 0 then [0]
  else
    let q := pyDiv dim size
    let r := pyMod dim size
    List.replicate q.toNat size ++ (if r = 0 then [] else [r])

/-- `splits_storage` of the region branch -/
def splitsStorage (start storage : Int) (dimChunks : List Int) : Bool :=
  decide (pyMod start storage ≠ 0) ||
  (dimChunks.dropLast.any (fun c => decide (pyMod c storage ≠ 0))) ||
  (decide (dimChunks.getLastD 0 > storage) && decide (pyMod (dimChunks.getLastD 0) storage ≠ 0))

/-- consecutive differences `right - left for left, right in zip(b, b[1:])` -/
def diffs : List Int → List Int
  | [] => []
  | [_] => []
  | a :: b :: rest => (b - a) :: diffs (b :: rest)

/-- the storage-aligned read chunks of one axis with region `[start, stop)`:
boundaries at every storage multiple strictly inside the region. -/
def alignedReadChunks (start stop storage : Int) : List Int :=
  let first := pyDiv (start + storage - 1) storage * storage
  let inner := ((rangeList first stop storage).filter (fun b => decide (b > start))).map (fun b => b - start)
  diffs ([0] ++ inner ++ [stop - start])

/-- region branch on one axis: `none` = the code returns `None` (non-unit region step). -/
def readChunksAxis (target : List Int) (storage : Int) (region : PySlice) (dim : Int) :
    Option (List Int) :=
  let start := region.istart dim
  let stop := region.istop dim
  let step := region.stp
  if !splitsStorage start storage target then some target
  else if step ≠ 1 then none
  else some (alignedReadChunks start stop storage)

/-- running boundaries of `dim_chunks[:-1]` all multiples of `storage` -/
def respectsStorageAxis (target : List Int) (storage : Int) : Bool :=
  (cumsum target.dropLast).all (fun b => decide (pyMod b storage = 0))

def imax : List Int → Int
  | [] => 0
  | [x] => x
  | x :: xs => max x (imax xs)

/-- no-region branch: read chunk size `ceil(max(max(target), storage) / storage) * storage` -/
def coarseReadSize (target : List Int) (storage : Int) : Int :=
  pyDiv (max (imax target) storage + storage - 1) storage * storage

inductive RechunkResult where
  | direct (chunks : List (List Int))          -- `self._with_chunks(chunks)`
  | viaRead (read : List (List Int))           -- `Rechunk(self._with_chunks(read_chunks), chunks, …)`
  | decline                                    -- `None`
deriving DecidableEq, Repr

def mapM2 {α β γ} (f : α → β → Option γ) : List α → List β → Option (List γ)
  | a :: as, b :: bs =>
    match f a b, mapM2 f as bs with
    | some c, some r => some (c :: r)
    | _, _ => none
  | _, _ => some []

/-- n-d `_accept_rechunk`; `storage` = `_source_storage_chunks(array)` already converted to
ints (`none` when absent); `target` = requested chunks (all known). -/
def acceptRechunk (axes : List Axis) (storage : Option (List Int)) (target : List (List Int)) :
    RechunkResult :=
  let storage :=
    match storage with
    | none => none
    | some s => if s.length ≠ axes.length ∨ s.any (fun c => decide (c ≤ 0)) then none else some s
  match storage with
  | none => .direct target
  | some st =>
    if axes.all (fun a => a.region.isSome) ∧ axes ≠ [] then
      let per := mapM2 (fun (ts : List Int × Int) (a : Axis) =>
          readChunksAxis ts.1 ts.2 (a.region.getD colon) a.dim) (target.zip st) axes
      match per with
      | none => .decline
      | some read =>
        if read = target then .direct target
        else if read = axes.map (·.chunks) then .decline
        else .viaRead read
    else
      if (target.zip st).all (fun ts => respectsStorageAxis ts.1 ts.2) then .direct target
      else
        let read := ((target.zip st).zip axes).map
          (fun tsa => uniformChunks (coarseReadSize tsa.1.1 tsa.1.2) (effLen tsa.2.region tsa.2.dim))
        if read = axes.map (·.chunks) then .decline else .viaRead read

/-! ## C25: `store` write index -/

/-- entry of a `regions` tuple / of the fused write index -/
inductive RIdx where
  | int (i : Int)
  | slc (s : PySlice)
deriving DecidableEq, Repr

/-- the chunk slice `ArraySliceDep` hands to `load_store_chunk`: `slice(cs, ce, None)` -/
def chunkSlice (p : Int × Int) : PySlice := ⟨some p.1, some p.2, none⟩

/-- write slice of one block on one axis: `fuse_slice(region, slice(cs, ce))`, or the chunk
slice itself without region. -/
def storeIndexAxis (region : Option PySlice) (p : Int × Int) : Except Err PySlice :=
  match region with
  | none => .ok (chunkSlice p)
  | some r => fuseSliceSlice r (chunkSlice p)

/-- `mapM` in the exception monad, written out (first error wins) -/
def mapE {α β} (f : α → Except Err β) : List α → Except Err (List β)
  | [] => .ok []
  | x :: xs =>
    match f x with
    | .error e => .error e
    | .ok y =>
      match mapE f xs with
      | .error e => .error e
      | .ok ys => .ok (y :: ys)

/-- all write slices of an axis, block order -/
def storeWrites (region : Option PySlice) (chunks : List Int) : Except Err (List PySlice) :=
  mapE (storeIndexAxis region) (slicesFromChunks chunks)

/-- `fuse_slice(a, b)` for tuples: `a` = region (slices / integers), `b` = chunk slices
(no `None`, no lists).  Mirrors the `j` walk. -/
def fuseTuple : List RIdx → List (Int × Int) → Except Err (List RIdx)
  | [], bs => .ok (bs.map (fun p => RIdx.slc (chunkSlice p)))
  | RIdx.int i :: as, bs => do
    let r ← fuseTuple as bs
    pure (RIdx.int i :: r)
  | RIdx.slc s :: as, [] => do
    let r ← fuseTuple as []
    pure (RIdx.slc s :: r)
  | RIdx.slc s :: as, p :: bs => do
    let f ← fuseSliceSlice s (chunkSlice p)
    let r ← fuseTuple as bs
    pure (RIdx.slc f :: r)

/-- the index `load_store_chunk` writes to: `if region: index = fuse_slice(region, index) if
index else region`. -/
def storeIndex (region : Option (List RIdx)) (index : List (Int × Int)) : Except Err (List RIdx) :=
  match region with
  | none => .ok (index.map (fun p => RIdx.slc (chunkSlice p)))
  | some [] => .ok (index.map (fun p => RIdx.slc (chunkSlice p)))
  | some r => if index.isEmpty then .ok r else fuseTuple r index

/-- `to_npy_stack` chunks: every axis but `axis` collapsed to one chunk -/
def npyStackChunks (chunks : List (List Int)) (axis : Int) : List (List Int) :=
  (chunks.zipIdx).map (fun ci => if (ci.2 : Int) = axis then ci.1 else [isum ci.1])

/-! ## spec vocabulary (what NumPy does), used by the theorems -/

/-- `[xs[i] for i in is]` for in-range non-negative positions -/
def pick (xs : List Int) (is : List Int) : List Int := is.filterMap (fun i => xs[i.toNat]?)

/-- NumPy meaning of one basic index entry on an axis whose current content is `xs`
(an integer keeps the axis with length one here; `_accept_slice` wraps the new node in an
extracting `[0]`, which drops it). -/
def npIndex (xs : List Int) : Idx → List Int
  | .slc s => pick xs (sel s (xs.length : Int))
  | .int i => (xs[i.toNat]?).toList
  | _ => xs

/-- NumPy meaning of a chain of index entries applied one after the other -/
def npChain (xs : List Int) : List Idx → List Int
  | [] => xs
  | i :: rest => npChain (npIndex xs i) rest

/-- integers are in range where they are applied (what `normalize_index` guarantees) -/
def IdxValid (xs : List Int) : Idx → Prop
  | .int k => 0 ≤ k ∧ k < (xs.length : Int)
  | _ => True

def ValidChain (xs : List Int) : List Idx → Prop
  | [] => True
  | i :: rest => IdxValid xs i ∧ ValidChain (npIndex xs i) rest

/-- overlap length of every chunk `[a, b)` that meets `[start, stop)` -/
def overlapSpec (start stop : Int) (blocks : List (Int × Int)) : List Int :=
  blocks.filterMap (fun p => if p.2 ≤ start ∨ p.1 ≥ stop then none else some (min p.2 stop - max p.1 start))

/-- what NumPy selects for the region of an axis -/
def regionPositions (ax : Axis) : List Int :=
  match ax.region with
  | none => rangeList 0 ax.dim 1
  | some r => sel r ax.dim

end Dask.SourceIO
