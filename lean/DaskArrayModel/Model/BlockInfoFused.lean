/-
L1 model of the payload lookup on the per-block TASK path of a `Blockwise`
(dask_array/_blockwise.py: `Blockwise._idx_to_block`, `_compute_block_id`, the `ArrayBlockwiseDep`
branch of `Blockwise._task`).  This is the path a `map_blocks` call takes when it is fused with an
elementwise neighbour; the `block_info` / `block_id` payloads are `ArrayValuesDep` /
`ArrayBlockIdDep` objects over the advertised output chunks, indexed by `out_ind`.
Mirrors the Python control flow.  Core Lean only.  Tied to the code by harness/props/C20.py
(`probe_task_path`: the real `_task` of every recorded call, every block id).
-/
import DaskArrayModel.Model.BlockInfo
namespace Dask.BlockInfo

/-- `Blockwise._idx_to_block`:
`d = {idx: block_id[dim] for dim, idx in enumerate(out_ind)}; for idx in new_axes: d[idx] = 0`
(`out_ind` has no repeated label, so "first match" and "last write wins" coincide). -/
def idxToBlock (outInd newAxes bid : List Nat) (i : Nat) : Option Nat :=
  if newAxes.contains i then some 0 else (outInd.zip bid).lookup i

/-- `_compute_block_id(ind, idx_to_block, numblocks)`; `none` = the `ValueError` branch -/
def computeBlockId (m : Nat → Option Nat) : List Nat → List Nat → Option (List Nat)
  | [], _ => some []
  | _ :: _, [] => none
  | i :: is, n :: ns =>
    match m i with
    | some b => (computeBlockId m is ns).map (fun r => b % n :: r)
    | none => if n = 1 then (computeBlockId m is ns).map (fun r => 0 :: r) else none

/-- the grid position at which `_task` reads the payload for output block `bid`
(`numblocks = tuple(len(c) for c in arr.chunks)`, `ind = out_ind`) -/
def taskPayloadId (outInd newAxes : List Nat) (outChunks : Layout) (bid : List Nat) : Option (List Nat) :=
  computeBlockId (idxToBlock outInd newAxes bid) outInd (numChunks outChunks)

/-- the `block_info[None]` payload the task path hands to output block `bid` -/
def taskOutputInfo (outInd newAxes : List Nat) (outChunks : Layout) (bid : List Nat) : Option OutInfo :=
  (taskPayloadId outInd newAxes outChunks bid).map (outputInfo outChunks)

end Dask.BlockInfo
