/-
L3, phase 3: DERIVED FORMS over the mini-language `Expr` (Model/Expr.lean).  Every definition here
builds the op from existing constructors exactly the way the implementation builds it from other
public ops, so the refinement theorem of phase 1 (`blockDen_correct`, for EVERY `Expr`) covers them
as they are; what is added is the NumPy-style SPEC of each op (defined directly by index
arithmetic) and, in Lemmas/ExprDerived.lean, the proofs that the derived form is well-formed under
the obvious conditions and denotes its spec.  Core Lean only.

Python (dask_array)                                              Lean
---------------------------------------------------------------  ---------------------------------
`roll(x, shift, axis)` (manipulation/_roll.py):                  `Expr.roll e shift ax`
   `s = 0 if n == 0 else -shift % n`;                               (`rollStart`)
   `concatenate([x[.., s:, ..], x[.., :s, ..]], axis)`
`stack(seq, axis)` (stacking/_stack.py `Stack`: block `k` along  `Expr.stackN es ax`
   the new axis is `operand_k[block][.., None, ..]`, chunks         = `concatN (expandDims e_k ax) ax`
   `(1,)*n`) = concatenate of `expand_dims`                          (same `.chunks`, same blocks)
`diff(x, axis)` (routines/_diff.py, n = 1):                      `Expr.diff f e ax`  (`f` = number of the
   `x[.., 1:, ..] - x[.., :-1, ..]`                                  binary function, `sub` in the driver);
                                                                  `Expr.diffU f e ax l`: the two slices rechunked
                                                                  to a common layout `l` first (what the
                                                                  `Elemwise` does after `unify_chunks`)
`swapaxes(x, a, b)` (manipulation/_transpose.py):                `Expr.swapaxes e a b` = `transpose e (swapPerm …)`
   `ind[a], ind[b] = ind[b], ind[a]; transpose(x, ind)`
`moveaxis(x, src, dst)` (one axis):                              `Expr.moveaxis e src dst`
   `order = [n for n in range(ndim) if n != src];                   = `transpose e (moveaxisPerm …)`
    order.insert(dst, src); transpose(x, order)`
`atleast_nd(x, ndim)` (stacking/_block.py): `x[(None,)*d + …]`   `Expr.atleastNd e ndim`  (leading `expandDims`)
`flip` is already `Expr.flip` (Model/Expr.lean); `clip` is elementwise: `Expr.map f e` with the
function table of the driver (no new form).
-/
import DaskArrayModel.Model.Expr
namespace Dask.ND
open Dask.Py Dask.Py.PySlice Dask.Slicing

/-- the index `[:, …, s, …, :]`: slice `s` on axis `ax`, full slices elsewhere -/
def axisSlices (rank ax : Nat) (s : PySlice) : List PySlice := (List.replicate rank colon).set ax s

def axisIx (rank ax : Nat) (s : PySlice) : List Ix := (axisSlices rank ax s).map Ix.slc

/-! ### roll -/

/-- `s = 0 if n == 0 else -shift % n` -/
def rollStart (n : Nat) (shift : Int) : Int := if n = 0 then 0 else pyMod (-shift) n

/-- `concatenate([x[.., s:, ..], x[.., :s, ..]], axis)` -/
def Expr.roll (e : Expr) (shift : Int) (ax : Nat) : Expr :=
  let rank := (shape e).length
  let s := rollStart ((shape e).getD ax 0) shift
  .concat (.slice e (axisIx rank ax ⟨some s, none, none⟩))
    (.slice e (axisIx rank ax ⟨none, some s, none⟩)) ax

/-- SPEC `np.roll(a, shift, axis)`: `out[.., i, ..] = a[.., (i - shift) mod n, ..]` -/
def rollArr (a : Arr Int) (shift : Int) (ax : Nat) : Arr Int :=
  ⟨a.shape, fun i =>
    a.get (i.set ax ((((i.getD ax 0 : Nat) : Int) - shift) % ((a.shape.getD ax 0 : Nat) : Int)).toNat)⟩

/-! ### stack -/

/-- `stack(es, axis)` = `concatenate([expand_dims(e, axis) for e in es], axis)` -/
def Expr.stackN (es : List Expr) (ax : Nat) : Option Expr :=
  Expr.concatN (es.map (fun e => Expr.expandDims e ax)) ax

/-- SPEC `np.stack(as, axis)`: `out[.., k, ..] = as[k][..]` (all `as` of shape `sh`) -/
def stackArr (sh : List Nat) (as : List (Arr Int)) (ax : Nat) : Arr Int :=
  ⟨sh.insertIdx ax as.length, fun i => (as.getD (i.getD ax 0) ⟨[], fun _ => 0⟩).get (i.eraseIdx ax)⟩

/-! ### diff (first order) -/

/-- `x[.., 1:, ..] - x[.., :-1, ..]` (the two slices must carry the same chunks) -/
def Expr.diff (f : Nat) (e : Expr) (ax : Nat) : Expr :=
  let rank := (shape e).length
  .zip f (.slice e (axisIx rank ax ⟨some 1, none, none⟩)) (.slice e (axisIx rank ax ⟨none, some (-1), none⟩))

/-- … with both slices rechunked to the common layout `l` (the result of chunk unification) -/
def Expr.diffU (f : Nat) (e : Expr) (ax : Nat) (l : Layout) : Expr :=
  let rank := (shape e).length
  .zip f (.rechunk (.slice e (axisIx rank ax ⟨some 1, none, none⟩)) l)
    (.rechunk (.slice e (axisIx rank ax ⟨none, some (-1), none⟩)) l)

/-- SPEC `np.diff(a, axis=ax)` for the binary function `bin` (`-`):
`out[.., i, ..] = bin a[.., i + 1, ..] a[.., i, ..]` -/
def diffArr (bin : Int → Int → Int) (a : Arr Int) (ax : Nat) : Arr Int :=
  ⟨a.shape.set ax (a.shape.getD ax 0 - 1), fun i => bin (a.get (i.set ax (i.getD ax 0 + 1))) (a.get i)⟩

/-! ### swapaxes, moveaxis -/

/-- `ind = list(range(ndim)); ind[a], ind[b] = ind[b], ind[a]` -/
def swapPerm (rank a b : Nat) : List Nat :=
  (List.range rank).map (fun k => if k = a then b else if k = b then a else k)

def Expr.swapaxes (e : Expr) (a b : Nat) : Expr := .transpose e (swapPerm (shape e).length a b)

/-- SPEC `np.swapaxes(x, a, b)`: `out[i] = x[i with entries a and b exchanged]` -/
def swapArr (x : Arr Int) (a b : Nat) : Arr Int :=
  ⟨(swapPerm x.shape.length a b).map (fun k => x.shape.getD k 0),
   fun i => x.get ((swapPerm x.shape.length a b).map (fun k => i.getD k 0))⟩

/-- `order = [n for n in range(ndim) if n != src]; order.insert(dst, src)` -/
def moveaxisPerm (rank src dst : Nat) : List Nat :=
  ((List.range rank).filter (fun n => n != src)).insertIdx dst src

def Expr.moveaxis (e : Expr) (src dst : Nat) : Expr := .transpose e (moveaxisPerm (shape e).length src dst)

/-! ### atleast_nd -/

/-- `x[(None,) * d + (Ellipsis,)]`: `d` new leading axes -/
def Expr.leadingAxes (e : Expr) : Nat → Expr
  | 0 => e
  | d + 1 => .expandDims (Expr.leadingAxes e d) 0

def Expr.atleastNd (e : Expr) (ndim : Nat) : Expr := Expr.leadingAxes e (ndim - (shape e).length)

/-- SPEC: `d` leading axes of length 1 -/
def leadingArr (a : Arr Int) (d : Nat) : Arr Int :=
  ⟨List.replicate d 1 ++ a.shape, fun i => a.get (i.drop d)⟩

end Dask.ND
