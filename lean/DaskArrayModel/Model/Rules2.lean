/-
L3 rewrite rules, phase 3: rules over `Expr` that phase 2 (Model/Rules.lean, untouched) listed as
"not modelled".  Same form (`Expr → Option Expr`, `none` = declines); soundness in
Lemmas/Rules2.lean, property theorems in Props/C02Ext.lean.  Core Lean only.

Python (dask_array)                                              Lean
---------------------------------------------------------------  ---------------------------------
`BroadcastTo._accept_slice` (_broadcast_to.py): unit-step        `sliceThroughBroadcast`
   slices only; a slice on a NEW axis or on an axis broadcast
   from length 1 only changes the output shape / chunks
   (`_slice_chunks`), a slice on a real axis is pushed to the
   input; new chunks = sliced input's chunks on real axes
`BroadcastTo._slice_chunks(chunks, start, length)`               `bcSliceChunks`
`Rechunk._pushdown_through_concatenate` (_rechunk.py):           `rechunkThroughConcat` (binary concatenate)
   off-axis target chunks go to every part; on the concat axis
   the target is redistributed over the parts (each target
   chunk split at the part boundary it crosses: `redistribute`),
   parts already at their spec are left alone, and a residual
   rechunk stays above the concatenate only when a target chunk
   straddles the seam.  (The absorption probe that makes the
   real rule decline when no part absorbs its rechunk into its
   reads is a gate: it only declines.)
`Rechunk._pushdown_through_slice` (_rechunk.py), run at          `rechunkThroughSlice`
   lowering: `Rechunk(Slice(x, ranges)) → Slice(Rechunk(x,
   expanded), ranges)`, `expanded` = x's own boundaries outside
   the kept range, the target chunks inside it (`expandedAxis`);
   integers keep x's chunks; declines on stepped / empty ranges,
   on zero-width target chunks and when the slice is already
   aligned to x's grid.  (The dead-weight heuristic
   `prod(len expanded) - kept > 4·kept` is a gate: it only
   declines.)

Each rule RE-CHECKS decidable facts about its own product (`wf`, and where the real code relies on
an arithmetic identity, that identity) and declines otherwise — as phase 2's `rechunkIntoRegion` does.
On real instances these checks always succeed (the harness counts instances the model accepts); in the
proofs they make well-formedness of the product free, so that soundness is about VALUES.
-/
import DaskArrayModel.Model.Rules
namespace Dask.ND
open Dask.Py Dask.Py.PySlice Dask.Slicing

/-! ### slice through `broadcast_to` -/

/-- the loop of `BroadcastTo._slice_chunks`: overlaps of the chunks with `[start, stop)` -/
def bcSliceLoop (start stop : Nat) : Nat → List Nat → List Nat
  | _, [] => []
  | pos, c :: cs =>
    if pos + c ≤ start then bcSliceLoop start stop (pos + c) cs
    else if pos ≥ stop then []
    else
      let ov := min (pos + c) stop - max pos start
      if ov > 0 then ov :: bcSliceLoop start stop (pos + c) cs else bcSliceLoop start stop (pos + c) cs

/-- `BroadcastTo._slice_chunks(chunks, start, length)` -/
def bcSliceChunks (chunks : List Nat) (start length : Nat) : List Nat :=
  if length = 0 then [0] else bcSliceLoop start (start + length) 0 chunks

def sliceThroughBroadcast : Expr → Option Expr
  | .slice (.broadcastTo e sh l) idx =>
    match allSlc? idx with
    | some ss =>
      let k := sh.length - (shape e).length
      if ss.all (fun s => decide (s.stp = 1)) = true ∧ ss.length = sh.length then
        -- `start, stop, step = idx.indices(out_size)`; `new_dim_size = max(0, stop - start)`
        let starts := List.zipWith (fun (s : PySlice) (n : Nat) => (s.istart n).toNat) ss sh
        let stops := List.zipWith (fun (s : PySlice) (n : Nat) => (s.istop n).toNat) ss sh
        let newShape := List.zipWith (fun a b => b - a) starts stops
        -- a real axis gets the slice, an axis of length 1 the full slice
        let inSl := List.zipWith (fun (s : PySlice) (n : Nat) => if n = 1 then colon else s) (ss.drop k) (shape e)
        let e' := if inSl = [] then e else Expr.slice e (inSl.map Ix.slc)
        let newChunks := (List.range sh.length).map (fun d =>
          if k ≤ d ∧ (shape e).getD (d - k) 0 ≠ 1 then (chunks e').getD (d - k) []
          else bcSliceChunks (l.getD d []) (starts.getD d 0) (newShape.getD d 0))
        let r := Expr.broadcastTo e' newShape newChunks
        if wf r = true ∧ newShape = sliceShape sh idx then some r else none
      else none
    | none => none
  | _ => none

/-! ### rechunk through concatenate -/

/-- the redistribution loop inside the LAST part: every remaining target chunk must fit -/
def redistLast : Nat → List Nat → Option (List Nat)
  | _, [] => some []
  | room, c :: cs => if c ≤ room then (redistLast (room - c) cs).map (c :: ·) else none

/-- the redistribution loop of `_pushdown_through_concatenate` for two parts (`room` left in the first
part, `nb` = extent of the second): each target chunk is split at the part boundary it crosses -/
def redistribute (nb : Nat) : Nat → List Nat → Option (List Nat × List Nat)
  | _, [] => some ([], [])
  | room, c :: cs =>
    if c < room then (redistribute nb (room - c) cs).map (fun p => (c :: p.1, p.2))
    else if c = room then (redistLast nb cs).map (fun pb => ([c], pb))
    else if room = 0 then none
    else (redistLast nb ((c - room) :: cs)).map (fun pb => ([room], pb))

def rechunkThroughConcat : Expr → Option Expr
  | .rechunk (.concat a b ax) l =>
    let ca := (chunks a).getD ax []
    let cb := (chunks b).getD ax []
    let tgt := l.getD ax []
    let perPart : Option (List Nat × List Nat) :=
      if tgt = ca ++ cb then some (ca, cb)
      else if (tgt ++ ca ++ cb).any (fun c => c == 0) then none
      else redistribute cb.sum ca.sum tgt
    match perPart with
    | none => none
    | some (pa, pb) =>
      let sa := l.set ax pa
      let sb := l.set ax pb
      if sa = chunks a ∧ sb = chunks b then none
      else
        let a' := if sa = chunks a then a else Expr.rechunk a sa
        let b' := if sb = chunks b then b else Expr.rechunk b sb
        let nc := Expr.concat a' b' ax
        let r := if chunks nc = l then nc else Expr.rechunk nc l
        if wf r = true then some r else none
  | _ => none

/-! ### rechunk ∘ slice composition -/

/-- chunk boundaries `accumulate(add, (0,) + old)` -/
def boundsOf (old : List Nat) : List Nat := (List.range (old.length + 1)).map (fun k => (old.take k).sum)

/-- differences of consecutive cut points, zero-width pieces dropped -/
def cutDiffs : List Nat → List Nat
  | a :: b :: r => (if b > a then [b - a] else []) ++ cutDiffs (b :: r)
  | _ => []

/-- one sliced axis of `_pushdown_through_slice`: `(expanded chunks, start and stop on x's grid)` -/
def expandedAxis (old : List Nat) (n : Nat) (s : PySlice) (tgt : List Nat) : Option (List Nat × Bool) :=
  let start := (s.istart n).toNat
  let stop := (s.istop n).toNat
  if s.stp ≠ 1 ∨ s.istop n ≤ s.istart n then none
  else
    let bounds := boundsOf old
    let pre := cutDiffs ([0] ++ bounds.filter (fun b => decide (0 < b ∧ b < start)) ++ [start])
    let post := cutDiffs ([stop] ++ bounds.filter (fun b => decide (stop < b ∧ b < n)) ++ [n])
    some (pre ++ tgt ++ post, bounds.contains start && bounds.contains stop)

/-- all axes: integers keep `x`'s chunks and consume no target axis -/
def expandedAll : List Nat → Layout → List Ix → Layout → Option (Layout × Bool)
  | [], [], [], _ => some ([], true)
  | _ :: ns, old :: cl, .int _ :: r, tgt =>
    (expandedAll ns cl r tgt).map (fun p => (old :: p.1, p.2))
  | n :: ns, old :: cl, .slc s :: r, t :: tgt =>
    match expandedAxis old n s t with
    | none => none
    | some (ex, al) => (expandedAll ns cl r tgt).map (fun p => (ex :: p.1, al && p.2))
  | _, _, _, _ => none

def rechunkThroughSlice : Expr → Option Expr
  | .rechunk (.slice x idx) l =>
    match expandedAll (shape x) (chunks x) idx l with
    | none => none
    | some (expanded, aligned) =>
      if aligned then none
      else if l.any (fun cs => cs.any (fun c => c == 0)) then none
      else
        let r := Expr.slice (Expr.rechunk x expanded) idx
        if wf r = true ∧ chunks r = l then some r else none
  | _ => none

/-- the phase-3 rules, in the order they are tried at a node -/
def rules2 : List (String × (Expr → Option Expr)) :=
  [("sliceThroughBroadcast", sliceThroughBroadcast),
   ("rechunkThroughConcat", rechunkThroughConcat),
   ("rechunkThroughSlice", rechunkThroughSlice)]

end Dask.ND
