/-
Model of the DEFINITION of `overlap` / `map_overlap` (dask_array/_overlap.py): the chunked pipeline

    rechunk → boundaries → overlap_internal → chunk.trim → map_blocks(func) → trim_internal

on one axis, as lists of blocks, and its n-D reading by axis independence.

One axis (the array after the rechunk is `x` cut along `cs`):

* `cut cs x`                 the blocks of `x`;
* `leftPiece` / `rightPiece` / `boundaryBlocks`
                             `boundaries(x, depth, kind)`: `periodic` / `reflect` / `nearest` / `constant` build two
                             pieces by slicing the whole array (`x[-d:]`, `x[d-1::-1]`, `repeat(x[0:1], d)`,
                             `full(d, c)`; `_remove_overlap_boundaries` rechunks each to ONE chunk `(d,)`) and
                             `concatenate([l, x, r])`; kind `none` and depth `0` add nothing (`continue`);
* `extBlock` / `overlapInternal`
                             `ArrayOverlapLayer`: for block `k` the `concatenate_shaped` task of
                             `getitem(block k-1, slice(-dl, None))` (when `k > 0` and `dl ≠ 0`), block `k`, and
                             `getitem(block k+1, slice(0, dr))` (when `k < nb - 1` and `dr ≠ 0`).  `slice(-dl, None)`
                             of a block SHORTER than `dl` is the whole block — Python semantics, kept here
                             (`drop (len - dl)`), which is why the minimum-chunk guard is needed;
* `chunkTrim t`              `chunk.trim(x3, {axis: t})` = the dask slice `x3[t : -t]` (`x3[0:None]` for `t = 0`): blocks
                             covered by the cut are dropped, a partly covered block is shortened;
* `trimFront` / `trimBack` / `trimBlock` / `trimInternal`
                             `_trim` per block from `(chunk_location, num_chunks)`: front `0` at the first block
                             under kind `none`, else `dl`; back `None` at the last block under kind `none`, else
                             `-dr` (`None` when `dr = 0`);
* `pipeline`                 the whole thing, concatenated.

`overlap` computes `trim = {k: v * 2 if boundary != "none" else 0}` and `map_overlap` raises `NotImplementedError` for
a tuple depth with a boundary other than `none`, so with a boundary the code only runs with `dl = dr = v`.  The model
reads `dl` on the left, `dr` on the right and `dl + dr` for `v * 2` (equal to the code whenever the code runs;
`mapOverlapChecked` carries the `NotImplementedError` branch); the theorems hold for every pair.

The block function handed to `map_blocks` is any `f : List α → List β`; the theorems relate it to the global meaning
`g ∘ padB` of Model/OverlapSlice.lean through `f e = g (padB .none dl dr e)`: `f` is `g` on the block with "no
neighbour" markers on both sides — the function's own behaviour at the ends of the block it is given, which is what
survives the trim only at the array edges under kind `none`.

n-D: `ArrayOverlapLayer` takes, for a block, the PRODUCT over the axes of the per-axis neighbour pieces (so corner
neighbours are included) and `concatenate_shaped` assembles them; position `(q_0, …, q_{n-1})` of the result reads
block coordinate and offset per axis independently.  `axisSrc` is the per-axis index map of the whole pipeline
(marker-extended extended block `k` → source in the original axis) and `pipelineND` reads the box through the product
of these maps.  Core Lean only.
-/
import DaskArrayModel.Model.OverlapSliceND
namespace Dask.OverlapPipe
open Dask.OverlapSlice

variable {α β : Type}

/-! ### blocks -/

/-- the blocks of `x` along the chunk sizes `cs` -/
def cut : List Nat → List α → List (List α)
  | [], _ => []
  | c :: cs, x => x.take c :: cut cs (x.drop c)

/-- start of block `k` (`cumsum`) -/
def lo (cs : List Nat) (k : Nat) : Nat := (cs.take k).sum

/-! ### `boundaries` -/

/-- the piece concatenated BEFORE the array: `periodic`: `x[-d:]`; `reflect`: `x[d-1::-1]` (`x[0:1]` for `d = 1`);
`nearest`: `repeat(x[0:1], d)`; a value: `full(d, c)` -/
def leftPiece (b : Boundary α) (d : Nat) (x : List α) : List α :=
  match b with
  | .none => []
  | .periodic => x.drop (x.length - d)
  | .reflect => (x.take d).reverse
  | .nearest => (x.take 1).flatMap (fun a => List.replicate d a)
  | .constant c => List.replicate d c

/-- the piece concatenated AFTER the array: `periodic`: `x[0:d]`; `reflect`: `x[-1:-d-1:-1]`;
`nearest`: `repeat(x[-1:-2:-1], d)`; a value: `full(d, c)` -/
def rightPiece (b : Boundary α) (d : Nat) (x : List α) : List α :=
  match b with
  | .none => []
  | .periodic => x.take d
  | .reflect => (x.drop (x.length - d)).reverse
  | .nearest => (x.drop (x.length - 1)).flatMap (fun a => List.replicate d a)
  | .constant c => List.replicate d c

/-- does `boundaries` add pieces on this axis (`d == 0: continue`, `this_kind == "none": continue`) -/
def addsPieces (bk : BKind) (dl dr : Nat) : Bool := !(dl = 0 ∧ dr = 0) && bk != .none

/-- `boundaries(x, depth, kind)` on the block list: `concatenate([l, x, r])`, each piece ONE block -/
def boundaryBlocks (b : Boundary α) (dl dr : Nat) (blks : List (List α)) : List (List α) :=
  if addsPieces b.kind dl dr then
    [leftPiece b dl blks.flatten] ++ blks ++ [rightPiece b dr blks.flatten]
  else blks

/-! ### `overlap_internal` -/

/-- `getitem(block, slice(-dl, None))` -/
def lastN (d : Nat) (blk : List α) : List α := blk.drop (blk.length - d)

/-- the `concatenate_shaped` task of block `k` -/
def extBlock (dl dr : Nat) (blks : List (List α)) (k : Nat) : List α :=
  (if 0 < k ∧ dl ≠ 0 then lastN dl (blks.getD (k - 1) []) else []) ++
  blks.getD k [] ++
  (if k + 1 < blks.length ∧ dr ≠ 0 then (blks.getD (k + 1) []).take dr else [])

def overlapInternal (dl dr : Nat) (blks : List (List α)) : List (List α) :=
  (List.range blks.length).map (extBlock dl dr blks)

/-- `_overlap_internal_chunks`: the chunk sizes `OverlapInternal` ADVERTISES -/
def internalChunks (dl dr : Nat) (bds : List Nat) : List Nat :=
  match bds with
  | [] => []
  | [b] => [b]
  | b0 :: rest => (b0 + dr) :: (rest.dropLast.map (· + dl + dr)) ++ [rest.getLastD 0 + dl]

/-! ### `chunk.trim(x3, trim)`: the dask slice `x3[t:-t]` -/

def dropFrontBlocks : Nat → List (List α) → List (List α)
  | _, [] => []
  | t, b :: bs =>
    if t = 0 then b :: bs
    else if b.length ≤ t then dropFrontBlocks (t - b.length) bs
    else b.drop t :: bs

def dropBackBlocks (t : Nat) (blks : List (List α)) : List (List α) :=
  ((dropFrontBlocks t (blks.reverse.map List.reverse)).map List.reverse).reverse

def chunkTrim (t : Nat) (blks : List (List α)) : List (List α) :=
  if t = 0 then blks else dropBackBlocks t (dropFrontBlocks t blks)

/-- `trim = {k: v * 2 if boundary2.get(k, "none") != "none" else 0 …}` -/
def overlapTrimDepth (bk : BKind) (dl dr : Nat) : Nat := if bk != .none then dl + dr else 0

/-- `overlap(x, depth, boundary)` after the rechunk, as blocks -/
def overlapBlocks (b : Boundary α) (dl dr : Nat) (blks : List (List α)) : List (List α) :=
  chunkTrim (overlapTrimDepth b.kind dl dr) (overlapInternal dl dr (boundaryBlocks b dl dr blks))

/-! ### `trim_internal` / `_trim` -/

/-- `trim_front`: `0 if (chunk_location == 0 and boundary == "none") else ax` -/
def trimFront (bk : BKind) (dl : Nat) (loc : Nat) : Nat :=
  if loc = 0 ∧ bk = .none then 0 else dl

/-- `trim_back`: `None if (chunk_location == chunks - 1 and boundary == "none") else axes_back`, where `axes_back` is
`-dr` or `None` when `dr = 0`.  `none` = `None`, `some r` = `-r`. -/
def trimBack (bk : BKind) (dr : Nat) (loc nb : Nat) : Option Nat :=
  if loc = nb - 1 ∧ bk = .none then none else (if dr ≠ 0 then some dr else none)

/-- `x[slice(front, back)]` -/
def trimBlock (bk : BKind) (dl dr : Nat) (nb loc : Nat) (y : List β) : List β :=
  match trimBack bk dr loc nb with
  | none => y.drop (trimFront bk dl loc)
  | some r => (y.take (y.length - r)).drop (trimFront bk dl loc)

def trimInternal (bk : BKind) (dl dr : Nat) (ys : List (List β)) : List (List β) :=
  ys.mapIdx (fun loc y => trimBlock bk dl dr ys.length loc y)

/-- the chunk sizes `trim_internal` ADVERTISES from the chunk sizes of its input -/
def trimChunks (bk : BKind) (dl dr : Nat) (bd : List Nat) : List Nat :=
  bd.mapIdx (fun j d =>
    if bk != .none then d - (dl + dr)
    else
      let d1 := if j ≠ 0 then d - dl else d
      if j ≠ bd.length - 1 then d1 - dr else d1)

/-! ### the pipeline -/

/-- `map_overlap(f, x, depth=(dl, dr), boundary=b)` with `trim=True`, `x` already cut along `cs` -/
def pipelineBlocks (b : Boundary α) (dl dr : Nat) (cs : List Nat) (f : List α → List β) (x : List α) :
    List (List β) :=
  trimInternal b.kind dl dr ((overlapBlocks b dl dr (cut cs x)).map f)

def pipeline (b : Boundary α) (dl dr : Nat) (cs : List Nat) (f : List α → List β) (x : List α) : List β :=
  (pipelineBlocks b dl dr cs f x).flatten

/-- the same with `trim=False`: the blocks `f` returns, concatenated -/
def pipelineNoTrim (b : Boundary α) (dl dr : Nat) (cs : List Nat) (f : List α → List β) (x : List α) : List β :=
  ((overlapBlocks b dl dr (cut cs x)).map f).flatten

/-- `map_overlap`'s own check: an asymmetric depth is only implemented for boundary `none` -/
def mapOverlapChecked (b : Boundary α) (dl dr : Nat) (cs : List Nat) (f : List α → List β) (x : List α) :
    Except String (List β) :=
  if dl ≠ dr ∧ b.kind ≠ .none then .error "NotImplementedError" else .ok (pipeline b dl dr cs f x)

/-- the block function that is `g` on the block it is given, with "no neighbour" on both sides -/
def blockFn (g : List (Option α) → List β) (dl dr : Nat) : List α → List β :=
  fun e => g (padB .none dl dr e)

/-- the guard `overlap` establishes before `boundaries`: `ensure_minimum_chunksize(max(dl, dr), chunks)` makes
every chunk at least the larger depth; `cs` are the chunks of `x` -/
def Guard (dl dr : Nat) (cs : List Nat) (n : Nat) : Prop :=
  cs ≠ [] ∧ cs.sum = n ∧ ∀ c ∈ cs, max dl dr ≤ c

instance (dl dr : Nat) (cs : List Nat) (n : Nat) : Decidable (Guard dl dr cs n) := by
  unfold Guard; infer_instance

/-! ### n-D: per-axis index maps and their product -/

/-- index of the block containing position `i` -/
def blockIdx : List Nat → Nat → Nat
  | [], _ => 0
  | c :: cs, i => if i < c then 0 else blockIdx cs (i - c) + 1

/-- the chunk sizes after `boundaries` on one axis -/
def boundaryChunks (bk : BKind) (dl dr : Nat) (cs : List Nat) : List Nat :=
  if addsPieces bk dl dr then [dl] ++ cs ++ [dr] else cs

/-- halo block `k` receives from its left neighbour (`overlap_internal`); when `boundaries` added pieces every
output block is interior -/
def haloL (bk : BKind) (dl dr : Nat) (k : Nat) : Nat :=
  if addsPieces bk dl dr ∨ 0 < k then dl else 0

def haloR (bk : BKind) (dl dr : Nat) (nb k : Nat) : Nat :=
  if addsPieces bk dl dr ∨ k + 1 < nb then dr else 0

/-- length of the extended block of output block `k` -/
def extLen (bk : BKind) (dl dr : Nat) (cs : List Nat) (k : Nat) : Nat :=
  haloL bk dl dr k + cs.getD k 0 + haloR bk dl dr cs.length k

/-- Index map of ONE axis of the pipeline: where entry `q` of the marker-extended extended block of OUTPUT block `k`
reads from.  `q < dl` or `q ≥ dl + extLen`: the block function's own "no neighbour"; otherwise entry `e = q - dl` of
the extended block = position `start + e` of the axis after `boundaries`, where `start` = (start of the block in
that axis) − (the left halo it received), resolved through `padSrc` when `boundaries` added pieces. -/
def axisSrc (b : Boundary α) (dl dr : Nat) (cs : List Nat) (n : Nat) (k q : Nat) : Src α :=
  let len := extLen b.kind dl dr cs k
  if q < dl then .absent
  else if q < dl + len then
    let e := q - dl
    if addsPieces b.kind dl dr then padSrc b dl dr n (lo cs k + e)      -- padded coordinate: (dl + lo k) - dl + e
    else .idx (lo cs k - haloL b.kind dl dr k + e)
  else if q < dl + len + dr then .absent
  else .out

/-- like `padND`, for arbitrary per-axis index maps -/
def resolveND : List (Nat → Src α) → (List Nat → Option α) → List Nat → Option α
  | [], G, _ => G []
  | _ :: _, _, [] => none
  | s :: ss, G, p :: ps =>
    resolveND ss (fun js =>
      match s p with
      | .idx j => G (j :: js)
      | .absent => none
      | .fill c => some c
      | .out => none) ps

/-- one axis of an n-D `map_overlap`: the `AxSpec` of Model/OverlapSliceND.lean and the chunks after the rechunk -/
structure AxPipe (α : Type) where
  spec : AxSpec α
  cs : List Nat

/-- position, inside the block function's output for the block containing `i`, of output position `i`:
offset in the block + what `_trim` cuts in front of it -/
def localPos (p : AxPipe α) (i : Nat) : Nat :=
  let k := blockIdx p.cs i
  (i - lo p.cs k) + trimFront p.spec.b.kind p.spec.dl k

/-- n-D pipeline for a block function that is the stencil of kernel `kern`: output `I` lies in block
`K = (blockIdx …)`; it is `kern` of the box at `localPos` of the marker-extended extended block `K`, every entry read
through the product of the per-axis index maps (corner neighbours included). -/
def pipelineND (kern : List (Option α) → β) (ps : List (AxPipe α)) (A : List Nat → α) (I : List Nat) : β :=
  kern (boxWin (widths (ps.map (·.spec)))
    (resolveND
      (List.zipWith (fun p i => axisSrc p.spec.b p.spec.dl p.spec.dr p.cs p.spec.n (blockIdx p.cs i)) ps I)
      (fun js => some (A js)))
    (List.zipWith localPos ps I))

end Dask.OverlapPipe
