/-
L1/L2 model of the reshape planner, `dask_array/manipulation/_reshape.py`:

  `reshape_rechunk(inshape, outshape, inchunks, disallow_dimension_expansion)`   → `planRaw` / `plan`
  `expand_tuple`, `contract_tuple`                                               → `expandTuple`, `contractTuple`
  `_cal_max_chunk_size`, `_calc_lower_dimension_chunks`, `_smooth_chunks`        → `calMax`, `calcLower`, `smooth`
  `ReshapeLowered._layer` (block k of the output = `M.reshape(block k of the input, shape_k)`,
  both grids enumerated by `itertools.product`, i.e. row-major)                  → `planBlock`, `planArr`

The planner is mirrored LINE BY LINE with Python's own list semantics: the running indices `ii`, `oi`,
`ileft`, `oleft` are `Int`; `l[i]`, `l[i] = v`, `l[a:b]`, `range(a, b)` are `pyGet`, `pySet`, `pySlice`,
`pyRange` (negative indices wrap, out-of-range raises `IndexError`, slices clamp); `reduce(mul, ())` raises
`TypeError`; the two result lists are lists of `None | tuple` (`Slots`).  Nothing is simplified away: the
`while ii >= 0 or oi >= 0` loop of the implementation keeps indexing with `ii = -1, -2, …` once one side is
exhausted, and the model does the same (this is observable: see Props/C01Reshape.lean).

Not modelled: `mapper_in` / `one_dimensions` (used only by `ReshapeBlockwise`, whose result is not
NumPy-ordered), float rounding in `x / factor`, `math.ceil(a / b)` (exact rational arithmetic here: equal to
the float computation whenever the products involved are below 2^52).

Spec vocabulary (second half of the file): `prodL`, `unflat`, `npReshape` (the NumPy meaning of reshape:
same flat C-order position), `IsLayout`, `WFIn`, `blockSizes`.   Core Lean only.
-/
import DaskArrayModel.Model.Arr
namespace Dask.Reshape
open Dask.ND

/-- Python exception classes the planner can raise (`fuel`: the model's loop bound was hit — never
happens, see the fuel computations; `noneLeft`: a result slot is still `None` at `return`). -/
inductive Err
  | notImplemented | typeError | indexError | valueError | zeroDivision | assertion | fuel | noneLeft
deriving DecidableEq, Repr, Inhabited

/-- one axis' chunk tuple -/
abbrev Chunks := List Nat

/-- a Python list whose entries are `None` or a chunk tuple (`result_inchunks`, `result_outchunks`) -/
abbrev Slots := List (Option Chunks)

/-! ## Python list primitives -/

/-- normalised position of Python index `i` in a list of length `n` (`None` = `IndexError`) -/
def pyIdx (n : Nat) (i : Int) : Option Nat :=
  if 0 ≤ i then (if i < (n : Int) then some i.toNat else none)
  else (if -(n : Int) ≤ i then some (i + (n : Int)).toNat else none)

/-- `l[i]` -/
def pyGet {α} (l : List α) (i : Int) : Except Err α :=
  match pyIdx l.length i with
  | some k => (match l[k]? with | some v => .ok v | none => .error .indexError)
  | none => .error .indexError

/-- `l[i] = v` -/
def pySet {α} (l : List α) (i : Int) (v : α) : Except Err (List α) :=
  match pyIdx l.length i with
  | some k => .ok (l.set k v)
  | none => .error .indexError

/-- a slice bound after `PySlice_AdjustIndices` (step 1) -/
def pyClamp (n : Nat) (a : Int) : Nat :=
  if a < 0 then (a + (n : Int)).toNat else min a.toNat n

/-- `l[a:b]` -/
def pySlice {α} (l : List α) (a b : Int) : List α :=
  (l.drop (pyClamp l.length a)).take (pyClamp l.length b - pyClamp l.length a)

/-- `list(range(a, b))` -/
def pyRange (a b : Int) : List Int := (List.range (b - a).toNat).map (fun (k : Nat) => a + (k : Int))

/-- product of a list (`math.prod`) -/
def prodL : List Nat → Nat
  | [] => 1
  | x :: xs => x * prodL xs

/-- `reduce(mul, xs)`: `TypeError` on an empty iterable -/
def reduceMul : List Nat → Except Err Nat
  | [] => .error .typeError
  | x :: xs => .ok (prodL (x :: xs))

/-- `max(t)`: `ValueError` on an empty tuple -/
def maxOf : Chunks → Except Err Nat
  | [] => .error .valueError
  | x :: xs => .ok (xs.foldl max x)

/-- `[f(x) for x in xs]` where `f` may raise -/
def mapE {α β} (f : α → Except Err β) : List α → Except Err (List β)
  | [] => .ok []
  | x :: xs => do
    let y ← f x
    let ys ← mapE f xs
    pure (y :: ys)

/-- read a slot that must hold a tuple (`None` → `TypeError` when iterated / passed to `max`) -/
def getC (r : Slots) (i : Int) : Except Err Chunks := do
  match (← pyGet r i) with
  | some c => pure c
  | none => .error .typeError

/-- `for i in idxs: r[i] = f(i)` -/
def setMany (f : Int → Except Err Chunks) : Slots → List Int → Except Err Slots
  | r, [] => .ok r
  | r, i :: is => do
    let v ← f i
    let r ← pySet r i (some v)
    setMany f r is

/-- tuple repetition `t * k` -/
def repeatL {α} (t : List α) : Nat → List α
  | 0 => []
  | k + 1 => t ++ repeatL t k

/-- exact `math.ceil(a / b)` for `b > 0` -/
def ceilDivN (a b : Nat) : Nat := (a + b - 1) / b

/-! ## `expand_tuple` -/

/-- `while x >= 2 * part: out.append(int(part)); x -= int(part)` then `if x: out.append(x)`;
`ip = int(part)`, `cond x ↔ x >= 2 * part`; fuel = the chunk (`x` decreases by `ip ≥ 1`). -/
def expandLoop (ip : Nat) (cond : Nat → Bool) : Nat → Nat → List Nat
  | 0, x => if x ≠ 0 then [x] else []
  | fuel + 1, x =>
    if cond x then ip :: expandLoop ip cond fuel (x - ip)
    else (if x ≠ 0 then [x] else [])

/-- the body of `for c in chunks:`; `part = max(c / factor, 1)` is `c / factor` (a rational ≥ 1) when
`factor ≤ c`, else `1` -/
def expandOne (c factor : Nat) : List Nat :=
  if factor ≤ c then expandLoop (c / factor) (fun x => decide (2 * c ≤ x * factor)) c c
  else expandLoop 1 (fun x => decide (2 ≤ x)) c c

/-- `expand_tuple(chunks, factor)` (`x / 0` raises for the first chunk when `factor == 0`) -/
def expandTuple (chunks : Chunks) (factor : Nat) : Except Err Chunks :=
  if factor = 1 then .ok chunks
  else if factor = 0 ∧ chunks ≠ [] then .error .zeroDivision
  else .ok (chunks.flatMap (fun c => expandOne c factor))

/-! ## `contract_tuple` -/

/-- `for chunk in chunks: chunk += residual; div = chunk // factor; residual = chunk % factor;
good = factor * div; if good: out.append(good)` -/
def contractLoop (factor : Nat) : Nat → List Nat → List Nat
  | _, [] => []
  | residual, chunk :: rest =>
    if factor * ((chunk + residual) / factor) ≠ 0 then
      factor * ((chunk + residual) / factor) :: contractLoop factor ((chunk + residual) % factor) rest
    else contractLoop factor ((chunk + residual) % factor) rest

/-- `contract_tuple(chunks, factor)`; `assert sum(chunks) % factor == 0` -/
def contractTuple (chunks : Chunks) (factor : Nat) : Except Err Chunks :=
  if factor = 0 then .error .zeroDivision
  else if chunks.sum % factor ≠ 0 then .error .assertion
  else .ok (contractLoop factor 0 chunks)

/-! ## `_cal_max_chunk_size`, `_calc_lower_dimension_chunks` -/

/-- `int(reduce(mul, [max(chunks[axis]) for axis in range(start, stop + 1)]))` -/
def calMax (r : Slots) (start stop : Int) : Except Err Nat := do
  let ms ← mapE (fun a => do let c ← getC r a; maxOf c) (pyRange start (stop + 1))
  reduceMul ms

/-- `map(lambda x: reduce(mul, x), product(*cs))` for a non-empty `cs`: the row-major list of the products
of one entry per tuple (= the sizes of the blocks of the grid `cs`) -/
def crossProd : List Chunks → List Nat
  | [] => [1]
  | c :: rest => c.flatMap (fun x => (crossProd rest).map (fun y => x * y))

/-- `_calc_lower_dimension_chunks(chunks, start, stop)`; a `None` entry cannot be unpacked (`TypeError`);
an empty slice gives `product() = [()]` and `reduce(mul, ())` raises `TypeError` -/
def calcLower (r : Slots) (start stop : Int) : Except Err Chunks := do
  let cs ← mapE (fun (o : Option Chunks) => match o with
    | some c => Except.ok c
    | none => Except.error Err.typeError) (pySlice r start (stop + 1))
  if cs = [] then .error .typeError else pure (crossProd cs)

/-! ## `_smooth_chunks` -/

/-- `all(x == 1 for x in c)` -/
def allOnes (c : Chunks) : Bool := c.all (fun x => x == 1)

/-- `while all(x == 1 for x in result_inchunks[ileft]): ileft += 1`; fuel `2 * len + 2` (the index grows by
one per round and raises `IndexError` at `len`) -/
def skipOnes (r : Slots) : Nat → Int → Except Err Int
  | 0, _ => .error .fuel
  | fuel + 1, ileft => do
    let c ← getC r ileft
    if allOnes c then skipOnes r fuel (ileft + 1) else pure ileft

/-- `new = [ceil_elem] * factor; for i in range(ceil_elem * factor - elem): new[i] -= 1`
(`ceil_elem = math.ceil(elem / factor)`, `factor ≥ 1`; the loop bound is `< factor`) -/
def splitEven (elem factor : Nat) : Chunks :=
  List.replicate (ceilDivN elem factor * factor - elem) (ceilDivN elem factor - 1) ++
    List.replicate (factor - (ceilDivN elem factor * factor - elem)) (ceilDivN elem factor)

/-- the `for elem_in in result_in_chunk:` loop of the "more complicated case" -/
def splitBig (other maxIn : Nat) (c : Chunks) : Chunks :=
  c.flatMap (fun e => if e * other ≤ maxIn then [e] else splitEven e (ceilDivN (e * other) maxIn))

/-- `_smooth_chunks(ileft, ii, max_in_chunk, result_inchunks)`; fuel = number of slots + 1 (every recursive
call has just turned one more slot into an all-ones tuple). -/
def smooth : Nat → Int → Int → Nat → Slots → Except Err Slots
  | 0, _, _, _, _ => .error .fuel
  | fuel + 1, ileft0, ii, maxIn, r => do
    let maxRes ← calMax r ileft0 ii
    if maxIn = maxRes then pure r else
    let ileft ← skipOnes r (2 * r.length + 2) ileft0
    if ileft < ii + 1 then
      if maxIn = 0 then .error .zeroDivision else
      let c ← getC r ileft
      if c.length = 1 then
        let elem := c.headD 0
        let factor := min (ceilDivN maxRes maxIn) elem
        if factor = 0 then .error .zeroDivision else
        let r' ← pySet r ileft (some (splitEven elem factor))
        if allOnes (splitEven elem factor) ∧ ileft < ii then smooth fuel ileft0 ii maxIn r' else pure r'
      else
        let mx ← maxOf c
        if mx = 0 then .error .zeroDivision else
        pySet r ileft (some (splitBig (maxRes / mx) maxIn c))
    else pure r

/-! ## `reshape_rechunk` -/

/-- the loop state: `ii`, `oi`, `result_inchunks`, `result_outchunks` -/
structure St where
  ii : Int
  oi : Int
  rin : Slots
  rout : Slots
deriving DecidableEq, Repr

/-- `while ileft >= 0 and reduce(mul, shape[ileft : ii + 1]) < d: ileft -= 1` (both the merge branch, on
`inshape`, and the split branch, on `outshape`); fuel `len + 2` -/
def growLeft (shape : List Nat) (ii : Int) (d : Nat) : Nat → Int → Except Err Int
  | 0, _ => .error .fuel
  | fuel + 1, ileft =>
    if 0 ≤ ileft then do
      let p ← reduceMul (pySlice shape ileft (ii + 1))
      if p < d then growLeft shape ii d fuel (ileft - 1) else pure ileft
    else pure ileft

/-- `all(len(inchunks[i]) == inshape[i] for i in idxs)` (short-circuit) -/
def allFull (inshape : List Nat) (inchunks : List Chunks) : List Int → Except Err Bool
  | [] => .ok true
  | i :: is => do
    let c ← pyGet inchunks i
    let d ← pyGet inshape i
    if c.length = d then allFull inshape inchunks is else pure false

/-- the branch `elif din < dout:  # (4, 4, 4) -> (64,)` -/
def mergeStep (inshape : List Nat) (inchunks : List Chunks) (s : St) (dout : Nat) : Except Err St := do
  let ileft ← growLeft inshape s.ii dout (inshape.length + 2) (s.ii - 1)
  let p ← reduceMul (pySlice inshape ileft (s.ii + 1))
  if p ≠ dout then .error .notImplemented else
  if (← allFull inshape inchunks (pyRange 0 s.ii)) then
    -- "we're simply moving around blocks"
    let rin ← setMany (fun i => pyGet inchunks i) s.rin (pyRange 0 (s.ii + 1))
    let cii ← pyGet inchunks s.ii
    let rout ← pySet s.rout s.oi
      (some (repeatL cii (prodL ((pySlice inchunks ileft s.ii).map List.length))))
    pure ⟨ileft - 1, s.oi - 1, rin, rout⟩
  else
    let rin ← setMany (fun i => do let d ← pyGet inshape i; pure [d]) s.rin (pyRange (ileft + 1) (s.ii + 1))
    let cr ← reduceMul ((pySlice inchunks (ileft + 1) (s.ii + 1)).map List.length)
    let cl ← pyGet inchunks ileft
    let e ← expandTuple cl cr
    let rin ← pySet rin ileft (some e)
    let maxIn ← calMax (inchunks.map some) ileft s.ii
    let rin ← smooth (rin.length + 1) ileft s.ii maxIn rin
    let low ← calcLower rin ileft s.ii
    let rout ← pySet s.rout s.oi (some low)
    pure ⟨ileft - 1, s.oi - 1, rin, rout⟩

/-- the branch `elif din > dout:  # (64,) -> (4, 4, 4)` -/
def splitStep (outshape : List Nat) (inchunks : List Chunks) (noExpand : Bool) (s : St) (din : Nat) :
    Except Err St := do
  if noExpand then .error .notImplemented else
  let oleft ← growLeft outshape s.oi din (outshape.length + 2) (s.oi - 1)
  let p ← reduceMul (pySlice outshape oleft (s.oi + 1))
  if p ≠ din then .error .notImplemented else
  let cs ← reduceMul (pySlice outshape (oleft + 1) (s.oi + 1))
  let cii ← pyGet inchunks s.ii
  let ct ← contractTuple cii cs
  let rin ← pySet s.rin s.ii (some ct)
  let rout ← setMany (fun i => do let d ← pyGet outshape i; pure [d]) s.rout (pyRange (oleft + 1) (s.oi + 1))
  let rout ← pySet rout oleft (some (ct.map (fun c => c / cs)))
  let maxIn ← calMax (inchunks.map some) s.ii s.ii
  let rout ← smooth (rout.length + 1) oleft s.oi maxIn rout
  let low ← calcLower rout oleft s.oi
  let rin ← pySet rin s.ii (some low)
  pure ⟨s.ii - 1, oleft - 1, rin, rout⟩

/-- one round of `while ii >= 0 or oi >= 0:` -/
def step (inshape outshape : List Nat) (inchunks : List Chunks) (noExpand : Bool) (s : St) :
    Except Err St := do
  let din ← pyGet inshape s.ii
  let dout ← pyGet outshape s.oi
  if din = dout then
    let c ← pyGet inchunks s.ii
    let rin ← pySet s.rin s.ii (some c)
    let rout ← pySet s.rout s.oi (some c)
    pure ⟨s.ii - 1, s.oi - 1, rin, rout⟩
  else if din = 1 then
    let rin ← pySet s.rin s.ii (some [1])
    pure ⟨s.ii - 1, s.oi, rin, s.rout⟩
  else if dout = 1 then
    let rout ← pySet s.rout s.oi (some [1])
    pure ⟨s.ii, s.oi - 1, s.rin, rout⟩
  else if din < dout then mergeStep inshape inchunks s dout
  else splitStep outshape inchunks noExpand s din

/-- the `while` loop; every round lowers `ii` or `oi` and an index below `-len` raises, so
`2 * (len(inshape) + len(outshape)) + 4` rounds suffice -/
def loop (inshape outshape : List Nat) (inchunks : List Chunks) (noExpand : Bool) :
    Nat → St → Except Err St
  | 0, _ => .error .fuel
  | fuel + 1, s =>
    if 0 ≤ s.ii ∨ 0 ≤ s.oi then do
      let s' ← step inshape outshape inchunks noExpand s
      loop inshape outshape inchunks noExpand fuel s'
    else pure s

/-- `reshape_rechunk(...)[:2]` with `None` slots kept (what the function literally returns) -/
def planRaw (inshape outshape : List Nat) (inchunks : List Chunks) (noExpand : Bool := false) :
    Except Err (Slots × Slots) := do
  let s ← loop inshape outshape inchunks noExpand (2 * (inshape.length + outshape.length) + 4)
    ⟨(inshape.length : Int) - 1, (outshape.length : Int) - 1,
     List.replicate inshape.length none, List.replicate outshape.length none⟩
  pure (s.rin, s.rout)

/-- all slots filled -/
def unslot : Slots → Except Err (List Chunks)
  | [] => .ok []
  | some c :: r => do let cs ← unslot r; pure (c :: cs)
  | none :: _ => .error .noneLeft

/-- `reshape_rechunk(inshape, outshape, inchunks)[:2]` as two chunk tuples -/
def plan (inshape outshape : List Nat) (inchunks : List Chunks) : Except Err (List Chunks × List Chunks) := do
  let r ← planRaw inshape outshape inchunks
  let a ← unslot r.1
  let b ← unslot r.2
  pure (a, b)

/-! ## Spec vocabulary -/

/-- the multi-index with C-order flat position `k` in `shape` (`np.unravel_index`) -/
def unflat : List Nat → Nat → List Nat
  | [], _ => []
  | _ :: ns, k => (k / prodL ns) :: unflat ns (k % prodL ns)

/-- NumPy `a.reshape(shape)` (C order): the element at output multi-index `i` is the element of `a` with the
same flat position -/
def npReshape {α} (a : Arr α) (shape : List Nat) : Arr α :=
  ⟨shape, fun i => a.get (unflat a.shape (flatIndex shape i))⟩

/-- `chunks` is a chunking of `shape`: one non-empty tuple per axis, summing to the axis length -/
def IsLayout (chunks : List Chunks) (shape : List Nat) : Prop :=
  chunks.length = shape.length ∧ ∀ k, k < shape.length → chunks.getD k [] ≠ [] ∧ (chunks.getD k []).sum = shape.getD k 0

/-- a normalised chunk tuple: every chunk positive, or the single chunk `(0,)` of a zero-length axis -/
def NormAxis (c : Chunks) : Prop := c = [0] ∨ (c ≠ [] ∧ ∀ x ∈ c, 0 < x)

instance (c : Chunks) : Decidable (NormAxis c) := by unfold NormAxis; infer_instance

/-- well-formed planner input: `inchunks` is a chunking of `inshape` with normalised tuples (what
`normalize_chunks` produces for every array built through the public API, zero-width chunks inside a
non-empty axis excepted — those are a listed finding of their own) -/
def WFIn (inshape : List Nat) (inchunks : List Chunks) : Prop :=
  inchunks.length = inshape.length ∧
    ∀ k, k < inshape.length → NormAxis (inchunks.getD k []) ∧ (inchunks.getD k []).sum = inshape.getD k 0

instance (inshape : List Nat) (inchunks : List Chunks) : Decidable (WFIn inshape inchunks) := by
  unfold WFIn; infer_instance

instance (chunks : List Chunks) (shape : List Nat) : Decidable (IsLayout chunks shape) := by
  unfold IsLayout; infer_instance

/-- every axis has positive length -/
def Pos (shape : List Nat) : Prop := ∀ d ∈ shape, 0 < d

instance (shape : List Nat) : Decidable (Pos shape) := by unfold Pos; infer_instance

/-- number of elements of every block, grid in row-major order -/
def blockSizes (chunks : List Chunks) : List Nat := crossProd chunks

/-- what the task of output block `bid` computes from the rechunked input `a` (`ReshapeLowered._layer`):
`zip(out_keys, in_keys, shapes)` pairs the `k`-th output key with the `k`-th input key, both in
`itertools.product` order, and the task is `M.reshape(in_block, shape)` with `shape = product(*outchunks)[k]` -/
def planBlock {α} (a : Arr α) (ic oc : List Chunks) (bid : List Nat) : Arr α :=
  npReshape (blocksOf a ic (unflat (numblocks ic) (flatIndex (numblocks oc) bid))) (blockShape oc bid)

/-- the computed array: the blocks concatenated along the advertised chunks -/
def planArr {α} (a : Arr α) (ic oc : List Chunks) : Arr α := assemble oc (planBlock a ic oc)

end Dask.Reshape
