/-
Records keys at the STRING level (core Lean only) — extends L4 (Model/Graph.lean) for C21.

`dask_array/_frisky/graph_records.py`: a Frisky worker resolves every embedded `TaskRef` by the STRING
of its key, and `str(('x', np.int64(0))) != str(('x', 0))` although the two tuples are `==` (and hash
equal) in Python.  Model/Graph.lean treats keys as abstract (`cfg.render`), which hides that level.

* `Comp` / `PKey`      key components WITH their Python type: `int` of a kind (plain `int` or a NumPy
                       integer type, by name), `bool` / `np.bool_`, `str` / `np.str_`; a key is a bare
                       string or a tuple of components (the name is the first component).
* `PKey.val`, `pyEq`   Python equality of keys: ignores the integer kind, `True == 1`, `np.str_('a') == 'a'`.
* `keyChars`/`keyStr`  `str(key)`: `repr` of every tuple component (`np.int64(0)`, `np.True_`, `np.str_('a')`,
                       `0`, `True`, `'a'`), `(c,)` for 1-tuples; a bare string is itself.
* `normalize`          `_norm_key`: in a TUPLE every `numbers.Integral` component (int of any kind, and
                       Python `bool` — NOT `np.bool_`) becomes a plain int; everything else (np.str_,
                       np.bool_, non-tuple keys) is returned unchanged.
* `Term` / `OArg`      record arguments before / after `_Flattener.resolve` — the rewritten term holds KEY
                       OBJECTS (the worker takes `str()` of them), the deps are strings.
* `resolve` / `records`  `_Flattener.resolve` / `resolve_task_args` / `_records`, branch by branch; `emit`
                       is the key put into the rewritten `TaskRef` (the code: `normalize`; the seeded
                       regression `reuseIfEq`: "keep the original ref when the normalised key is == to it").
-/
import DaskArrayModel.Model.Graph
namespace Dask.RecordKeys
open Dask.Graph (Fn sortDedupBy)

/-! ## keys with Python types -/

inductive IKind where
  | py                       -- plain `int`
  | np (name : String)       -- `np.<name>`: int8 … int64, uint8 … uint64, intp, …
deriving DecidableEq, Repr

inductive Comp where
  | int (kind : IKind) (v : Int)
  | bool (np : Bool) (b : Bool)     -- `True` / `np.True_`
  | str (np : Bool) (s : String)    -- `'a'` / `np.str_('a')`
deriving DecidableEq, Repr

inductive PKey where
  | bare (np : Bool) (s : String)   -- a string key (`np = true`: an `np.str_`)
  | tup (cs : List Comp)            -- `(name, *coords)`
deriving DecidableEq, Repr

/-- the Python VALUE of a component: what `==` / `hash` see -/
def Comp.val : Comp → Int ⊕ String
  | .int _ v => .inl v
  | .bool _ b => .inl (if b then 1 else 0)
  | .str _ s => .inr s

def PKey.val : PKey → String ⊕ List (Int ⊕ String)
  | .bare _ s => .inl s
  | .tup cs => .inr (cs.map Comp.val)

/-- Python `k1 == k2` (then also `hash(k1) == hash(k2)`) -/
def pyEq (a b : PKey) : Bool := decide (a.val = b.val)

/-! ## `str(key)` -/

def natChars (n : Nat) : List Char := Nat.toDigits 10 n

def intChars : Int → List Char
  | .ofNat m => natChars m
  | .negSucc m => '-' :: natChars (m + 1)

/-- `repr(component)` (NumPy ≥ 2 scalar reprs) -/
def Comp.chars : Comp → List Char
  | .int .py v => intChars v
  | .int (.np nm) v => ['n', 'p', '.'] ++ nm.toList ++ ['('] ++ intChars v ++ [')']
  | .bool false b => if b then ['T', 'r', 'u', 'e'] else ['F', 'a', 'l', 's', 'e']
  | .bool true b => if b then ['n', 'p', '.', 'T', 'r', 'u', 'e', '_'] else ['n', 'p', '.', 'F', 'a', 'l', 's', 'e', '_']
  | .str false s => '\'' :: (s.toList ++ ['\''])
  | .str true s => ['n', 'p', '.', 's', 't', 'r', '_', '(', '\''] ++ s.toList ++ ['\'', ')']

/-- the components after the first one: `, c` each, then `)` -/
def tailChars : List Comp → List Char
  | [] => [')']
  | c :: cs => [',', ' '] ++ c.chars ++ tailChars cs

def keyChars : PKey → List Char
  | .bare _ s => s.toList
  | .tup [] => ['(', ')']
  | .tup [c] => '(' :: (c.chars ++ [',', ')'])
  | .tup (c :: d :: cs) => '(' :: (c.chars ++ tailChars (d :: cs))

/-- `str(key)` -/
def keyStr (k : PKey) : String := String.ofList (keyChars k)

/-! ## `_norm_key` -/

/-- `isinstance(c, numbers.Integral)`: `int`, `bool`, every `np.integer`; not `np.bool_`, not strings -/
def Comp.isIntegral : Comp → Bool
  | .int _ _ => true
  | .bool np _ => !np
  | .str _ _ => false

/-- `int(c)` -/
def Comp.toInt : Comp → Int
  | .int _ v => v
  | .bool _ b => if b then 1 else 0
  | .str _ _ => 0

def Comp.norm (c : Comp) : Comp := if c.isIntegral then .int .py c.toInt else c

/-- `_norm_key(key)` -/
def normalize : PKey → PKey
  | .tup cs => .tup (cs.map Comp.norm)
  | .bare np s => .bare np s

/-- plain `int` / plain `str` -/
def Comp.canon : Comp → Bool
  | .int .py _ => true
  | .str false _ => true
  | _ => false

/-- a key of canonical types: `str` names, plain `int` coordinates (what `ref_audit` of
harness/props_ext/c21_catalog.py demands of every embedded reference) -/
def PKey.canon : PKey → Bool
  | .bare np _ => !np
  | .tup cs => cs.all Comp.canon

/-- no `np.str_` / `np.bool_` inside (the components `_norm_key` leaves as they are) -/
def Comp.normalizable : Comp → Bool
  | .int _ _ => true
  | .bool np _ => !np
  | .str np _ => !np

def PKey.normalizable : PKey → Bool
  | .bare np _ => !np
  | .tup cs => cs.all Comp.normalizable

/-- characters of names: what `repr` renders without escapes and what cannot be confused with the tuple syntax -/
def isNameChar (c : Char) : Bool := c.isAlphanum || c = '_' || c = '.' || c = '-'

def Comp.plain : Comp → Bool
  | .str _ s => s.toList.all isNameChar
  | _ => true

/-- every string inside the key consists of name characters -/
def PKey.plain : PKey → Bool
  | .bare _ s => s.toList.all isNameChar
  | .tup cs => cs.all Comp.plain

/-! ## record arguments -/

mutual
/-- function symbols are strings, literals are numbered -/
inductive Term where
  | ref (k : PKey)                       -- TaskRef(k)
  | alias (k : PKey)                     -- Alias(_, target = k)
  | data (v : Nat)                       -- DataNode(value)
  | lit (v : Nat)                        -- anything else: passed through
  | nlist (xs : Terms)                   -- _task_spec.List
  | ntuple (xs : Terms)                  -- _task_spec.Tuple
  | plist (xs : Terms)                   -- a plain Python list
  | ptuple (xs : Terms)                  -- a plain Python tuple
  | pdict (ks : List Nat) (xs : Terms)   -- a plain dict: keys kept, values resolved
  | task (f : String) (kw : List String) (xs : Terms)   -- Task (also _task_spec.Dict / Set): the last
                                         -- `kw.length` entries of `xs` are the keyword values
  | fused (f : String) (d : List Nat) (kw : List String) (xs : Terms)  -- Task(_execute_subgraph, dsk,
                                         -- outkey, inkeys, *xs): `d` = the three pass-through arguments
  | other                                -- any other GraphNode: NotImplementedError
inductive Terms where
  | nil
  | cons (x : Term) (xs : Terms)
end

/-- what a record argument holds after `resolve`: references as KEY OBJECTS -/
inductive OArg where
  | ref (k : PKey)
  | lit (v : Nat)
  | list (xs : List OArg)
  | tuple (xs : List OArg)
  | dict (ks : List Nat) (xs : List OArg)

structure ORec where
  key : String
  func : Fn String
  kw : List String
  args : List OArg
  deps : List String

mutual
/-- the code raises NotImplementedError as soon as it meets an unhandled GraphNode, wherever it is -/
def Term.declines : Term → Bool
  | .other => true
  | .nlist xs => xs.declines
  | .ntuple xs => xs.declines
  | .plist xs => xs.declines
  | .ptuple xs => xs.declines
  | .pdict _ xs => xs.declines
  | .task _ _ xs => xs.declines
  | .fused _ _ _ xs => xs.declines
  | _ => false
def Terms.declines : Terms → Bool
  | .nil => false
  | .cons x xs => x.declines || xs.declines
end

mutual
/-- the keys referenced by a term (TaskRef keys and Alias targets), as written -/
def Term.refs : Term → List PKey
  | .ref k => [k]
  | .alias k => [k]
  | .nlist xs => xs.refs
  | .ntuple xs => xs.refs
  | .plist xs => xs.refs
  | .ptuple xs => xs.refs
  | .pdict _ xs => xs.refs
  | .task _ _ xs => xs.refs
  | .fused _ _ _ xs => xs.refs
  | _ => []
def Terms.refs : Terms → List PKey
  | .nil => []
  | .cons x xs => x.refs ++ xs.refs
end

mutual
/-- the key objects embedded in a rewritten argument, left to right -/
def OArg.keys : OArg → List PKey
  | .ref k => [k]
  | .lit _ => []
  | .list xs => keysL xs
  | .tuple xs => keysL xs
  | .dict _ xs => keysL xs
def keysL : List OArg → List PKey
  | [] => []
  | a :: as => a.keys ++ keysL as
end

/-- what the worker looks up: the string of every embedded key -/
def OArg.refStrs (a : OArg) : List String := a.keys.map keyStr
def refStrsL (as : List OArg) : List String := (keysL as).map keyStr

/-- `f"{parent}-sub{n}"` -/
def subKey (parent : String) (n : Nat) : String := parent ++ "-sub" ++ String.ofList (natChars n)

/-- `sorted(set(deps))` -/
def sortedSet (l : List String) : List String := sortDedupBy (fun a b => decide (a < b)) l

mutual
/-- `_Flattener(parent).resolve(arg, deps)` with counter `n`: the rewritten argument, the new counter,
the records appended to `extra`, the strings added to `deps`.  `emit k` is the key put in the
rewritten reference (`_norm_key` in the code). -/
def resolve (emit : PKey → PKey) (parent : String) : Term → Nat → OArg × Nat × List ORec × List String
  | .ref k, n => (.ref (emit k), n, [], [keyStr (normalize k)])
  | .alias k, n => (.ref (emit k), n, [], [keyStr (normalize k)])
  | .data v, n => (.lit v, n, [], [])
  | .lit v, n => (.lit v, n, [], [])
  | .other, n => (.lit 0, n, [], [])       -- raises: see `Term.declines`
  | .nlist xs, n => let r := resolveL emit parent xs n; (.list r.1, r.2.1, r.2.2.1, r.2.2.2)
  | .ntuple xs, n => let r := resolveL emit parent xs n; (.tuple r.1, r.2.1, r.2.2.1, r.2.2.2)
  | .plist xs, n => let r := resolveL emit parent xs n; (.list r.1, r.2.1, r.2.2.1, r.2.2.2)
  | .ptuple xs, n => let r := resolveL emit parent xs n; (.tuple r.1, r.2.1, r.2.2.1, r.2.2.2)
  | .pdict ks xs, n => let r := resolveL emit parent xs n; (.dict ks r.1, r.2.1, r.2.2.1, r.2.2.2)
  | .task f kw xs, n =>
    let sub := subKey parent (n + 1)
    let r := resolveL emit parent xs (n + 1)
    (.ref (.bare false sub), r.2.1, r.2.2.1 ++ [⟨sub, .fn f, kw, r.1, sortedSet r.2.2.2⟩], [sub])
  | .fused f d kw xs, n =>
    let sub := subKey parent (n + 1)
    let r := resolveL emit parent xs (n + 1)
    (.ref (.bare false sub), r.2.1,
      r.2.2.1 ++ [⟨sub, .fn f, kw, d.map OArg.lit ++ r.1, sortedSet r.2.2.2⟩], [sub])
def resolveL (emit : PKey → PKey) (parent : String) : Terms → Nat →
    List OArg × Nat × List ORec × List String
  | .nil, n => ([], n, [], [])
  | .cons x xs, n =>
    let r1 := resolve emit parent x n
    let r2 := resolveL emit parent xs r1.2.1
    (r1.1 :: r2.1, r2.2.1, r1.2.2.1 ++ r2.2.2.1, r1.2.2.2 ++ r2.2.2.2)
end

/-- `_records(key, node)` (no `frisky.Future` branches).  `none`: a top-level value that is not a graph
node (a bare list / dict / TaskRef is passed through as data, unresolved — `convert_legacy_graph`
never leaves one) is outside the model. -/
def records (emit : PKey → PKey) (key : PKey) : Term → Option (List ORec)
  | .alias k =>
    let out := keyStr (normalize key)
    let target := keyStr (normalize k)
    if target = out then some [] else some [⟨out, .ident, [], [.ref (normalize k)], [target]⟩]
  | .data v => some [⟨keyStr (normalize key), .ident, [], [.lit v], []⟩]
  | .lit v => some [⟨keyStr (normalize key), .ident, [], [.lit v], []⟩]
  | .nlist xs =>
    let r := resolveL emit (keyStr (normalize key)) xs 0
    some (⟨keyStr (normalize key), .ident, [], [.list r.1], sortedSet r.2.2.2⟩ :: r.2.2.1)
  | .ntuple xs =>
    let r := resolveL emit (keyStr (normalize key)) xs 0
    some (⟨keyStr (normalize key), .ident, [], [.tuple r.1], sortedSet r.2.2.2⟩ :: r.2.2.1)
  | .task f kw xs =>
    let r := resolveL emit (keyStr (normalize key)) xs 0
    some (⟨keyStr (normalize key), .fn f, kw, r.1, sortedSet r.2.2.2⟩ :: r.2.2.1)
  | .fused f d kw xs =>
    let r := resolveL emit (keyStr (normalize key)) xs 0
    some (⟨keyStr (normalize key), .fn f, kw, d.map OArg.lit ++ r.1, sortedSet r.2.2.2⟩ :: r.2.2.1)
  | _ => none

/-- THE SEEDED REGRESSION: "reuse the original reference when the normalised key equals it" — with
Python equality that is ALWAYS the case -/
def reuseIfEq (k : PKey) : PKey := if pyEq (normalize k) k then k else normalize k

/-! ## link to the abstract-key model of Model/Graph.lean -/

section link
open Dask.Graph (Node Args Arg Rec FlatCfg)

mutual
/-- the `_task_spec` mini-AST of Model/Graph.lean (keys := typed keys) inside `Term` -/
def ofNode : Node PKey String Nat → Term
  | .taskRef k => .ref k
  | .alias k => .alias k
  | .data v => .data v
  | .lit v => .lit v
  | .list xs => .nlist (ofArgs xs)
  | .tuple xs => .ntuple (ofArgs xs)
  | .plist xs => .plist (ofArgs xs)
  | .ptuple xs => .ptuple (ofArgs xs)
  | .task f kw xs => .task f kw (ofArgs xs)
def ofArgs : Args PKey String Nat → Terms
  | .nil => .nil
  | .cons x xs => .cons (ofNode x) (ofArgs xs)
end

mutual
/-- what the worker sees of a rewritten argument: every reference by the string of its key -/
def erase : OArg → Arg String Nat
  | .ref k => .ref (keyStr k)
  | .lit v => .lit v
  | .list xs => .list (eraseL xs)
  | .tuple xs => .tuple (eraseL xs)
  | .dict _ xs => .list (eraseL xs)
def eraseL : List OArg → List (Arg String Nat)
  | [] => []
  | a :: as => erase a :: eraseL as
end

def eraseRec (r : ORec) : Rec String String Nat := ⟨r.key, r.func, r.kw, eraseL r.args, r.deps⟩

/-- the abstract flattener configuration this module refines: a key is rendered by the string of its
NORMALISED form -/
def cfgK : FlatCfg PKey String :=
  { render := fun k => keyStr (normalize k), subKey := subKey, sortDedup := sortedSet }

end link

end Dask.RecordKeys
