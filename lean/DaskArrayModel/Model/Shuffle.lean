/-
Model of the take / shuffle pipeline on ONE axis (the other axes are carried along unchanged:
`Shuffle._layer` repeats the same per-axis plan for every block tuple of the other axes, so an element
`x p` of the model is the hyperplane of the real array at position `p` of the shuffle axis).

  * `Shuffle._layer` (_shuffle.py): per output chunk (`_new_chunks`, existing `Indexing.newChunks`):
    `np.argsort` of the chunk's positions, `np.searchsorted` against the inclusive block boundaries,
    `np.unique(..., return_index=True)` → one `_getitem` task per source block with the block-local
    offsets (`astype(min_scalar_type)`), `concatenate_arrays` = concatenate + `take(argsort(sorter))`;
    the one-source-block special case folds the un-sorting into the offsets.
  * `_shuffle` (identity test, existing `Indexing.shuffleIsIdentity`), `take` (slicing/_basic.py) behind
    `normalize_index` (`check_index` / `posify_index`, existing `Indexing.checkItem` / `posifyInt`) and the
    empty-list rewrite of `slice_wrap_lists`.

`np.argsort` is NOT stable (quicksort): everything is parameterised by an `argsort` function of which only
`IsArgsort` is assumed (a permutation of the positions that sorts); `argsortStable` is one such function
(used by the driver, and by `np.unique`, which does sort stably).
An input array is a function `x : Int → α` on `[0, sum cs)`; block `c` is its restriction to
`[blockStart cs c, blockStart cs c + cs[c])`, and reading a block outside its extent is `none`
(`readBlock`) — so "the result is `some …`" includes "no task reads outside its block".
Core Lean only.
-/
import DaskArrayModel.Model.Indexing
namespace Dask.Shuffle
open Dask.Py Dask.Slicing Dask.Indexing

/-! ### `np.argsort`, `np.unique`, `astype` -/

/-- insert index `j` before the first index whose key is not smaller. -/
def insertIdx (key : Nat → Int) (j : Nat) : List Nat → List Nat
  | [] => [j]
  | k :: ks => if key j ≤ key k then j :: k :: ks else k :: insertIdx key j ks

/-- a stable argsort (insertion sort, indices inserted from the last to the first). -/
def argsortStable (l : List Int) : List Nat :=
  (List.range l.length).foldr (insertIdx (fun j => l.getD j 0)) []

/-- all the code relies on from `np.argsort(l)`: a permutation of `range(len(l))` along which `l` is
non-decreasing.  (Ties may come in any order.) -/
def IsArgsort (l : List Int) (s : List Nat) : Prop :=
  s.Perm (List.range l.length) ∧ (s.map (fun j => l.getD j 0)).Pairwise (· ≤ ·)

def isArgsortB (l : List Int) (s : List Nat) : Bool :=
  s.isPerm (List.range l.length) &&
    (let v := s.map (fun j => l.getD j 0); (v.zip v.tail).all (fun p => decide (p.1 ≤ p.2)))

/-- `np.min_scalar_type(m)` for a non-negative integer: bit width of the unsigned type
(`none`: beyond `uint64`, NumPy falls back to `object`, nothing wraps). -/
def minScalarBits (m : Int) : Option Nat :=
  if m < 256 then some 8 else if m < 65536 then some 16 else if m < 4294967296 then some 32
  else if m < 18446744073709551616 then some 64 else none

/-- `.astype(dtype)` of an integer to that unsigned type (C wrap-around). -/
def wrapU (bits : Option Nat) (v : Int) : Int :=
  match bits with
  | some b => v % (2 ^ b : Int)
  | none => v

/-- run boundaries of a sequence: the positions that start a run (`mask[0] = True;
mask[1:] = aux[1:] != aux[:-1]`) followed by the length.  This is `flag.nonzero()` of
`VIndexArray._layer` and (without the final entry) the index part of `np.unique`. -/
def runStarts (aux : List Int) : List Nat :=
  (List.range aux.length).filter (fun j => j = 0 ∨ aux.getD j 0 ≠ aux.getD (j - 1) 0)

/-- `np.unique(ar, return_index=True)` as NumPy computes it: `perm = ar.argsort(kind="mergesort")`,
`aux = ar[perm]`, keep the entries that differ from their predecessor; returns `(aux[mask], perm[mask])`. -/
def npUnique (ar : List Int) : List (Int × Nat) :=
  let perm := argsortStable ar
  let aux := perm.map (fun j => ar.getD j 0)
  (runStarts aux).map (fun j => (aux.getD j 0, perm.getD j 0))

/-- `l[a:b]` for `0 ≤ a`, `0 ≤ b`. -/
def pySlice {α} (l : List α) (a b : Nat) : List α := (l.drop a).take (b - a)

def maxChunk (cs : List Int) : Int := cs.foldl max 0

/-! ### `Shuffle._layer` for one output chunk -/

/-- the tasks of one output chunk: the `shuffle-sorter` data node, the `_getitem` tasks
`(source block, block-local offsets)` in merge order, and whether they are merged by
`concatenate_arrays` (`len(merge_keys) > 1`) or the single task IS the output chunk. -/
structure Plan where
  sorter : List Int
  pieces : List (Nat × List Int)
  merged : Bool
deriving Repr, DecidableEq

/-- `np.argsort(sorter[1])` inside `concatenate_arrays` / the one-block special case. -/
def invOf (argsort : List Int → List Nat) (sorter : List Int) : List Nat := argsort sorter

/-- body of `for new_chunk_idx, new_chunk_taker in enumerate(self._new_chunks)`. -/
def planChunk (argsort : List Int → List Nat) (cs : List Int) (taker : List Int) : Except Err Plan :=
  let bounds := cumsum cs
  -- `dtype = np.min_scalar_type(max(*chunks[axis], self._chunk_size_limit))`
  let dt := minScalarBits (max (maxChunk cs) (maxChunk cs))
  let sorter := (argsort taker).map (fun (j : Nat) => wrapU dt (j : Int))
  let sorted := sorter.map (fun j => taker.getD j.toNat 0)
  let u := npUnique (sorted.map (fun p => ((bisectRight bounds p : Nat) : Int)))
  let tb := u.map (·.2) ++ [taker.length]
  let pieces := (zip3 (u.map (·.1)) tb tb.tail).map (fun (q : Int × Nat × Nat) =>
    let c := q.1.toNat
    let offs := (pySlice sorted q.2.1 q.2.2).map
      (fun p => wrapU dt (p - (if c > 0 then bounds.getD (c - 1) 0 else 0)))
    -- `if len(source_chunk_nr) == 1: this_slice[axis] = this_slice[axis][np.argsort(sorter)]`
    (c, if u.length = 1 then (invOf argsort sorter).map (fun i => offs.getD i 0) else offs))
  if pieces.isEmpty then .error .notImplemented   -- `else: raise NotImplementedError`
  else .ok ⟨sorter, pieces, decide (pieces.length > 1)⟩

/-! ### evaluation -/

/-- element `o` of block `c` (`getitem(block, offsets)` reads exactly these): `none` outside the block. -/
def readBlock {α} (cs : List Int) (x : Int → α) (c : Nat) (o : Int) : Option α :=
  if c < cs.length ∧ 0 ≤ o ∧ o < cs.getD c 0 then some (x (blockStart cs c + o)) else none

/-- `take(a, idx)`: positions outside `a` raise (`none`). -/
def takeList {α} (a : List α) (idx : List Nat) : Option (List α) := idx.mapM (fun i => a[i]?)

/-- one output chunk: the `_getitem` tasks, then (`merged`) `concatenate_arrays`. -/
def evalPlan {α} (argsort : List Int → List Nat) (cs : List Int) (x : Int → α) (p : Plan) :
    Option (List α) :=
  match p.pieces.mapM (fun q => q.2.mapM (readBlock cs x q.1)) with
  | none => none
  | some vals => if p.merged then takeList vals.flatten (invOf argsort p.sorter) else some vals.flatten

inductive Res (α : Type) | ok (chunks : List (List α)) | err (e : Err) | outside
deriving Repr

def evalChunks {α} (argsort : List Int → List Nat) (cs : List Int) (x : Int → α) :
    List (List Int) → Res α
  | [] => .ok []
  | taker :: rest =>
    match planChunk argsort cs taker with
    | .error e => .err e
    | .ok p =>
      match evalPlan argsort cs x p with
      | none => .outside
      | some v =>
        match evalChunks argsort cs x rest with
        | .ok vs => .ok (v :: vs)
        | r => r

/-- the blocks of the input as lists (`start`: global position of the first block). -/
def blocksFrom {α} (x : Int → α) : Int → List Int → List (List α)
  | _, [] => []
  | start, c :: cs => (List.range c.toNat).map (fun (o : Nat) => x (start + (o : Int))) :: blocksFrom x (start + c) cs

def blocksOf {α} (cs : List Int) (x : Int → α) : List (List α) := blocksFrom x 0 cs

/-- `_shuffle(x, indexer, axis, name)` evaluated: the output chunks in order.  `.outside`: some task
read outside its block / took outside the concatenation. -/
def shuffleEval {α} (argsort : List Int → List Nat) (cs : List Int) (indexer : List (List Int))
    (x : Int → α) : Res α :=
  if shuffleIsIdentity indexer cs then .ok (blocksOf cs x)
  else evalChunks argsort cs x (newChunks (maxChunk cs).toNat indexer)

/-- the chunks `_shuffle`'s result advertises on the axis. -/
def shuffleChunks (cs : List Int) (indexer : List (List Int)) : List Int :=
  if shuffleIsIdentity indexer cs then cs
  else (newChunks (maxChunk cs).toNat indexer).map (fun g => (g.length : Int))

/-! ### `x[..., list, ...]` / `da.take`: `normalize_index` → `slice_wrap_lists` → `take` -/

/-- chunks of `x[slice(0, 0, 1)]` on the axis are `(0,)`; otherwise `take`. -/
def takeEval {α} (argsort : List Int → List Nat) (cs : List Int) (index : List Int) (x : Int → α) : Res α :=
  let n := isum cs
  match checkItem (.lst index, some n) with          -- `check_index`
  | .error e => .err e
  | .ok _ =>
    let index := index.map (posifyInt n)              -- `posify_index`
    if index.isEmpty then .ok [[]]                    -- `slice_wrap_lists`: empty list → `slice(0, 0, 1)`
    else if index = rangeList 0 n 1 then .ok (blocksOf cs x)   -- `take`: identity over the full axis
    else shuffleEval argsort cs (computeIndexer index cs) x

def takeChunksS (cs : List Int) (index : List Int) : List Int :=
  let n := isum cs
  let index := index.map (posifyInt n)
  if index.isEmpty then [0]
  else if index = rangeList 0 n 1 then cs
  else shuffleChunks cs (computeIndexer index cs)

/-- SPEC vocabulary: well-formed chunking of an axis. -/
def ChunksOK (cs : List Int) : Prop := ∀ c ∈ cs, 0 ≤ c

/-- SPEC vocabulary: every position of the indexer is on the axis. -/
def InBounds (n : Int) (indexer : List (List Int)) : Prop := ∀ g ∈ indexer, ∀ p ∈ g, 0 ≤ p ∧ p < n

end Dask.Shuffle
