/-
L1 model of `to_npy_stack` (dask_array/io/_to_npy_stack.py) and `from_npy_stack` /
`FromNpyStack._layer` (dask_array/io/_from_npy_stack.py).

`to_npy_stack(dirname, x, axis)`: `chunks = tuple(c if i == axis else (sum(c),) …)` (`npyStackChunks`,
Model/SourceIO.lean; a negative / too large `axis` matches no position: every axis is collapsed),
`xx = rechunk(x, chunks)` (values unchanged: rechunk correctness is another property), the info record
`{chunks, dtype, axis}` and file `i.npy` = the `i`-th block of `xx` in `flatten(__dask_keys__())` order
(C order of the block multi-indices).
`from_npy_stack`: chunks = `info["chunks"]`; `_layer` zips the keys `product(range(len(c)) for c in chunks)`
with `np.load(i.npy) for i in range(len(chunks[axis]))` (`dict(zip(keys, values))`: the shorter side wins,
`chunks[axis]` with Python indexing, `IndexError` out of range).  The array a chunked graph denotes is the
concatenation of its blocks: position `q` lies in the block found by walking the chunks of every axis
(`locAxis`; zero-length blocks hold no position).
Arrays are shape + total function; dtype is carried through unchanged and not modelled.  Core Lean only.
-/
import DaskArrayModel.Model.StoreND
namespace Dask.NpyStack
open Dask.Py Dask.Slicing Dask.SourceIO Dask.StoreND

structure Arr where
  shape : List Int
  fn : Pos → Int

structure Info where
  chunks : List (List Int)
  axis : Int
deriving DecidableEq, Repr

/-- block `bid` of an array with the given chunks: shape from the chunk extents, values shifted -/
def blockArr (x : Pos → Int) (chunks : List (List Int)) (bid : List Nat) : Arr :=
  let idx := blockIndex chunks bid
  ⟨idx.map (fun p => p.2 - p.1), fun j => x (addPos (idx.map (·.1)) j)⟩

/-- `tuple((c if i == axis else (sum(c),)) for i, c in enumerate(x.chunks))`, `i` counted from `s`
(the same list as `npyStackChunks`, Model/SourceIO.lean, written as the recursion `enumerate` is) -/
def collapseFrom (s : Nat) (axis : Int) : List (List Int) → List (List Int)
  | [] => []
  | c :: cs => (if (s : Int) = axis then c else [isum c]) :: collapseFrom (s + 1) axis cs

/-- the files `0.npy, 1.npy, …` (in this order) and the info record -/
def toStack (axis : Int) (chunks : List (List Int)) (x : Pos → Int) : List Arr × Info :=
  let cc := collapseFrom 0 axis chunks
  ((blockIds cc).map (blockArr x cc), ⟨cc, axis⟩)

/-- Python `l[i]` -/
def pyGet? {α} (l : List α) (i : Int) : Option α :=
  if 0 ≤ i then l[i.toNat]?
  else if -(l.length : Int) ≤ i then l[(i + l.length).toNat]?
  else none

/-- block number and offset inside the block of position `g` on an axis with these chunks -/
def locAxis : List Int → Int → Option (Nat × Int)
  | [], _ => none
  | c :: cs, g =>
    if g < c then some (0, g)
    else (locAxis cs (g - c)).map (fun bo => (bo.1 + 1, bo.2))

/-- per axis (block number, offset) of a multi-index; `none` outside the array -/
def locAll : List (List Int) → Pos → Option (List Nat × List Int)
  | [], [] => some ([], [])
  | c :: cs, q :: qs =>
    if q < 0 then none else
    match locAxis c q, locAll cs qs with
    | some bo, some r => some (bo.1 :: r.1, bo.2 :: r.2)
    | _, _ => none
  | _, _ => none

/-- `from_npy_stack`: advertised chunks and the value at every position (`none`: outside the array,
or a block whose key got no file) -/
def fromStack (files : List Arr) (info : Info) : Except Err (List (List Int) × (Pos → Option Int)) :=
  match pyGet? info.chunks info.axis with
  | none => .error .indexError
  | some ca =>
    let table := (blockIds info.chunks).zip (List.range ca.length)
    .ok (info.chunks, fun q =>
      match locAll info.chunks q with
      | none => none
      | some (bs, os) =>
        match table.lookup bs with
        | none => none
        | some i => (files[i]?).map (fun a => a.fn os))

end Dask.NpyStack
