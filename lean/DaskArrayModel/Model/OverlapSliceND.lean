/-
n-D reading of Model/OverlapSlice.lean, by axis independence.

Arrays are functions of the multi-index (`List Nat → α`); the shape only matters through the ranges the theorems
quantify over.  `padSrc` is the boundary extension of one axis as an INDEX MAP (the list-level `padB` reads exactly
this map: `padAt_eq_src`, `padB_getElem?` in the lemma files); `padND` is the loop of `boundaries(x, depth, kind)`
(`for i in range(ndim): x = kind_i(x, i, d_i)`, so a later axis' fill wins in the corners) written by recursion on
the axes; `boxWin` collects the box `∏ [i_a, i_a + dl_a + dr_a]` in C order and `stencilND k` applies a kernel to it.
Core Lean only.
-/
import DaskArrayModel.Model.OverlapSlice
namespace Dask.OverlapSlice

variable {α β γ : Type}

/-- where position `p` of the extended axis reads from -/
inductive Src (α : Type)
  | idx (j : Nat)     -- element `j` of the axis
  | absent            -- no neighbour (kind `none`)
  | fill (c : α)      -- the constant
  | out               -- `p` is outside the extended axis

/-- index map of `padB b dl dr` on an axis of length `n` -/
def padSrc (b : Boundary α) (dl dr n p : Nat) : Src α :=
  if p < dl then
    match b with
    | .none => .absent
    | .constant c => .fill c
    | .nearest => .idx 0
    | .reflect => .idx (dl - 1 - p)
    | .periodic => .idx (n - dl + p)
  else if p < dl + n then .idx (p - dl)
  else if p < dl + n + dr then
    match b with
    | .none => .absent
    | .constant c => .fill c
    | .nearest => .idx (n - 1)
    | .reflect => .idx (n - 1 - (p - dl - n))
    | .periodic => .idx (p - dl - n)
  else .out

/-- one axis of a `map_overlap` node: length, depths, boundary -/
structure AxSpec (α : Type) where
  n : Nat
  dl : Nat
  dr : Nat
  b : Boundary α

/-- `boundaries(x, depth, kind)` over all axes; `G` reads the (already `some`-wrapped) array at SOURCE coordinates. -/
def padND : List (AxSpec α) → (List Nat → Option α) → List Nat → Option α
  | [], G, _ => G []
  | _ :: _, _, [] => none
  | sp :: sps, G, p :: ps =>
    padND sps (fun js =>
      match padSrc sp.b sp.dl sp.dr sp.n p with
      | .idx j => G (j :: js)
      | .absent => none
      | .fill c => some c
      | .out => none) ps

/-- the entries of the box of widths `ws` with corner `I`, C order -/
def boxWin : List Nat → (List Nat → γ) → List Nat → List γ
  | [], E, _ => [E []]
  | _ :: _, _, [] => []
  | w :: ws, E, i :: is => (List.range w).flatMap (fun o => boxWin ws (fun js => E ((i + o) :: js)) is)

def widths (specs : List (AxSpec α)) : List Nat := specs.map (fun sp => sp.dl + sp.dr + 1)

/-- `map_overlap(f, depth, boundary)` followed by the trim, for a block function that is the stencil of kernel `k`:
the output at `I` is `k` of the box of the extended array whose corner is `I`. -/
def mapOverlapND (k : List (Option α) → β) (specs : List (AxSpec α)) (A : List Nat → α) (I : List Nat) : β :=
  k (boxWin (widths specs) (padND specs (fun js => some (A js))) I)

/-- componentwise sum -/
def addv : List Nat → List Nat → List Nat
  | a :: as, b :: bs => (a + b) :: addv as bs
  | _, _ => []

/-- a unit-step basic slice with the given starts: `A[s_0:…, s_1:…, …]` -/
def sliceND (starts : List Nat) (A : List Nat → α) : List Nat → α := fun I => A (addv starts I)

end Dask.OverlapSlice
