/-
L1 model of the n-d behaviour of `store` (dask_array/io/_store.py): `store` maps
`load_store_chunk` over every block of every source (`map_blocks(load_store_chunk, s, t,
ArraySliceDep(s.chunks), region=r, …)`); each call fuses the block's index with the user's
region (`storeIndex`, Model/SourceIO.lean: `fuse_slice` walk, integers passed through, leftovers
appended), skips empty blocks (`x.size != 0`) and executes `out[index] = x`.

The environment (NumPy basic-index assignment) is modelled explicitly: `indexSel` = the target
positions a basic index names per target axis (integers with Python wrap-around, `IndexError`
out of range / too many indices), `bcastOk` = NumPy's broadcast check of the block against
the selection (`ValueError`), `locate` = which element of the selection a target position is.
Targets / sources are total functions multi-index → value (`Pos → Int`); only positions inside
the shapes are ever looked at.  A block write is a partial function `Pos → Option Int`
("this position receives this value"); `storeEvalOrder` applies the writes in ANY given order
of the blocks (the blocks run concurrently).  Lock handling, schedulers, `return_stored` are
not modelled (`load_stored` reads `out[index]` back through the same index).
Core Lean only.  Tied to the implementation by harness/props_ext/c25_storend.py (`stn.*`).
-/
import DaskArrayModel.Model.SourceIO
import DaskArrayModel.Model.SliceSpec
namespace Dask.StoreND
open Dask.Py Dask.Py.PySlice Dask.Slicing Dask.SourceIO

abbrev Pos := List Int

/-! ## blocks -/

/-- `itertools.product(*[range(len(c)) for c in chunks])`: every block multi-index, C order. -/
def blockIds : List (List Int) → List (List Nat)
  | [] => [[]]
  | c :: cs => (List.range c.length).flatMap (fun i => (blockIds cs).map (fun is => i :: is))

/-- `ArraySliceDep(chunks)[bid]`: per axis `slice(starts[i], starts[i + 1])` with
`starts = cached_cumsum(c, initial_zero=True)`, as `(start, stop)` pairs. -/
def blockIndex : List (List Int) → List Nat → List (Int × Int)
  | c :: cs, i :: is => (blockStart c i, blockStart c i + c.getD i 0) :: blockIndex cs is
  | _, _ => []

/-! ## NumPy basic-index assignment -/

/-- what a basic index names on one target axis: one position (integer entry: the axis is
dropped from the selection) or a list of positions (slice entry / untouched trailing axis). -/
inductive AxSel where
  | pt (i : Int)
  | many (ps : List Int)
deriving DecidableEq, Repr

/-- `out[index]` for a target of shape `tshape`: per target axis the positions named.
Integers wrap (`-n ≤ i < n`), otherwise `IndexError`; more entries than axes: `IndexError`;
axes without entry are taken whole. -/
def indexSel : List Int → List RIdx → Except Err (List AxSel)
  | [], [] => .ok []
  | [], _ :: _ => .error .indexError
  | n :: ns, [] =>
    match indexSel ns [] with
    | .error e => .error e
    | .ok r => .ok (AxSel.many (rangeList 0 n 1) :: r)
  | n :: ns, RIdx.int i :: rest =>
    if -n ≤ i ∧ i < n then
      match indexSel ns rest with
      | .error e => .error e
      | .ok r => .ok (AxSel.pt (if i < 0 then i + n else i) :: r)
    else .error .indexError
  | n :: ns, RIdx.slc s :: rest =>
    match indexSel ns rest with
    | .error e => .error e
    | .ok r => .ok (AxSel.many (sel s n) :: r)

/-- shape of `out[index]` -/
def selShape : List AxSel → List Int
  | [] => []
  | AxSel.pt _ :: r => selShape r
  | AxSel.many ps :: r => (ps.length : Int) :: selShape r

/-- first index of `q` in a list of positions -/
def findPos (q : Int) : List Int → Option Nat
  | [] => none
  | x :: xs => if q = x then some 0 else (findPos q xs).map (· + 1)

/-- the multi-index INSIDE the selection of target position `q` (`none`: not selected) -/
def locate : List AxSel → Pos → Option (List Int)
  | [], [] => some []
  | AxSel.pt i :: as, q :: qs => if q = i then locate as qs else none
  | AxSel.many ps :: as, q :: qs =>
    match findPos q ps, locate as qs with
    | some j, some js => some ((j : Int) :: js)
    | _, _ => none
  | _, _ => none

/-- aligned part of NumPy's broadcast check: every axis of `x` equals the selection's or is 1 -/
def okZip : List Int → List Int → Bool
  | x :: xs, s :: ss => (x == s || x == 1) && okZip xs ss
  | _, _ => true

/-- NumPy's broadcast check for `out[index] = x` (`xs` = shape of `x`, `ss` = shape of the selection):
trailing axes are aligned; surplus LEADING axes of `x` must be 1; missing leading axes are broadcast. -/
def bcastOk (xs ss : List Int) : Bool :=
  let k := xs.length - ss.length
  (xs.take k).all (· == 1) && okZip (xs.drop k) (ss.drop (ss.length - xs.length))

def idxZip : List Int → List Int → List Int
  | x :: xs, j :: js => (if x = 1 then 0 else j) :: idxZip xs js
  | _, _ => []

/-- the element of `x` (shape `xs`) that lands at selection multi-index `j` -/
def bcastIdx (xs : List Int) (j : List Int) : List Int :=
  let k := xs.length - j.length
  List.replicate k 0 ++ idxZip (xs.drop k) (j.drop (j.length - xs.length))

def addPos : List Int → List Int → List Int
  | a :: as, b :: bs => (a + b) :: addPos as bs
  | _, _ => []

/-! ## one `load_store_chunk` call, and the whole store -/

/-- a write: the positions it assigns and the values they receive -/
abbrev Write (α : Type) := α → Option Int

def applyWrite {α : Type} (t : α → Int) (w : Write α) : α → Int := fun q => (w q).getD (t q)

def applyAll {α : Type} (t : α → Int) (ws : List (Write α)) : α → Int := ws.foldl applyWrite t

/-- `load_store_chunk(x, out, index, region, …)` for block `bid` of a source with values `src`
(global multi-index → value): fuse first (`NotImplementedError`), then the `x.size != 0` guard,
then NumPy's `out[index] = x` (`IndexError` before the broadcast `ValueError`). -/
def blockWrite (tshape : List Int) (region : Option (List RIdx)) (chunks : List (List Int))
    (src : Pos → Int) (bid : List Nat) : Except Err (Write Pos) :=
  let index := blockIndex chunks bid
  match storeIndex region index with
  | .error e => .error e
  | .ok widx =>
    let xshape := index.map (fun p => p.2 - p.1)
    if iprod xshape = 0 then .ok (fun _ => none)
    else
      match indexSel tshape widx with
      | .error e => .error e
      | .ok asel =>
        if bcastOk xshape (selShape asel) then
          .ok (fun q => (locate asel q).map (fun j =>
            src (addPos (index.map (·.1)) (bcastIdx xshape j))))
        else .error .valueError

/-- the store of one (source, target, region) triple with the blocks executed in `order` -/
def storeEvalOrder (tshape : List Int) (region : Option (List RIdx)) (chunks : List (List Int))
    (src : Pos → Int) (order : List (List Nat)) (tgt : Pos → Int) : Except Err (Pos → Int) :=
  match mapE (blockWrite tshape region chunks src) order with
  | .error e => .error e
  | .ok ws => .ok (applyAll tgt ws)

def storeEval (tshape : List Int) (region : Option (List RIdx)) (chunks : List (List Int))
    (src : Pos → Int) (tgt : Pos → Int) : Except Err (Pos → Int) :=
  storeEvalOrder tshape region chunks src (blockIds chunks) tgt

/-! ## several triples -/

/-- one (source, target, region) triple; `tid` names the target object -/
structure Job where
  tid : Nat
  tshape : List Int
  region : Option (List RIdx)
  chunks : List (List Int)
  src : Pos → Int

/-- a write into target `tid` of a heap of targets -/
def liftW (tid : Nat) (w : Write Pos) : Write (Nat × Pos) :=
  fun p => if p.1 = tid then w p.2 else none

/-- the task `(k, bid)` of the store graph: block `bid` of the `k`-th triple -/
def taskWrite (jobs : List Job) (task : Nat × List Nat) : Except Err (Write (Nat × Pos)) :=
  match jobs[task.1]? with
  | none => .ok (fun _ => none)
  | some j =>
    match blockWrite j.tshape j.region j.chunks j.src task.2 with
    | .error e => .error e
    | .ok w => .ok (liftW j.tid w)

/-- all tasks of `store(sources, targets, regions=…)`, pair after pair -/
def allTasksFrom (k : Nat) : List Job → List (Nat × List Nat)
  | [] => []
  | j :: js => (blockIds j.chunks).map (fun b => (k, b)) ++ allTasksFrom (k + 1) js

def allTasks (jobs : List Job) : List (Nat × List Nat) := allTasksFrom 0 jobs

/-- the whole store with the tasks executed in `sched` (any interleaving of all pairs' blocks) -/
def storeMultiOrder (jobs : List Job) (sched : List (Nat × List Nat)) (heap : Nat × Pos → Int) :
    Except Err (Nat × Pos → Int) :=
  match mapE (taskWrite jobs) sched with
  | .error e => .error e
  | .ok ws => .ok (applyAll heap ws)

/-! ## spec vocabulary -/

/-- the region's own selection on the target (what `target[region]` names) -/
def regionSel (tshape : List Int) (region : Option (List RIdx)) : Except Err (List AxSel) :=
  indexSel tshape (region.getD [])

/-- source shape -/
def srcShape (chunks : List (List Int)) : List Int := chunks.map isum

/-- the accepted form of a region tuple for a target of shape `tshape` and a source with `chunks`
(the documented contract `target[region].shape == source.shape` for the forms `fuse_slice` accepts):
one entry per target axis; an integer entry is in range (Python wrap-around allowed); a slice entry has
non-negative start / stop, positive step, and selects exactly as many positions of its target axis as the
next source axis is long. -/
def regionOK : List Int → List RIdx → List (List Int) → Bool
  | [], [], [] => true
  | n :: ns, RIdx.int i :: r, cs => decide (-n ≤ i ∧ i < n) && regionOK ns r cs
  | n :: ns, RIdx.slc s :: r, c :: cs =>
    decide (0 ≤ n ∧ 0 ≤ s.start.getD 0 ∧ 0 < s.step.getD 1 ∧ 0 ≤ s.stop.getD 0 ∧
      isum c = ((sel s n).length : Int)) && regionOK ns r cs
  | _, _, _ => false

/-- accepted call: non-negative chunks; without region (`None` or `()`) the target has the source's
shape, otherwise the region is accepted. -/
def accepted (tshape : List Int) (region : Option (List RIdx)) (chunks : List (List Int)) : Bool :=
  chunks.all (fun c => c.all (fun x => decide (0 ≤ x))) &&
  match region with
  | none => decide (tshape = srcShape chunks)
  | some [] => decide (tshape = srcShape chunks)
  | some (x :: r) => regionOK tshape (x :: r) chunks

/-- what the store must leave in the target: position `q` of the region's selection `G` holds the source
value at `q`'s multi-index inside the selection, every other position keeps its old value -/
def specTarget (G : List AxSel) (src tgt : Pos → Int) : Pos → Int :=
  fun q => match locate G q with
    | some g => src g
    | none => tgt q

/-- all multi-indices of a shape, C order (for printing) -/
def allPos : List Int → List Pos
  | [] => [[]]
  | n :: ns => (rangeList 0 n 1).flatMap (fun i => (allPos ns).map (fun r => i :: r))

/-- C-order linear index -/
def ravel : List Int → Pos → Int
  | _ :: ns, q :: qs => q * iprod ns + ravel ns qs
  | _, _ => 0

/-- the first five positions of a 1-d result (`none`: the store raised); for the evaluations in Props -/
def show5 (r : Except Err (Pos → Int)) : Option (List Int) :=
  match r with
  | .ok t => some ([0, 1, 2, 3, 4].map (fun i => t [i]))
  | .error _ => none

end Dask.StoreND
