/-
L5 models (histories) for
  C23 — a random array is one fixed realization  (`dask_array/random/_expr.py`)
  C11 — in-place operations only change the array they are applied to
        (`dask_array/_collection.py`, `slicing/_setitem.py`, `slicing/_utils.py`)
Core Lean only (no Mathlib): the driver links these natively.
Every `def` that mirrors Python names the function / lines it mirrors.  Tied to the
implementation by harness/props/C23.py and harness/props/C11.py (families `hs.*`).
-/
import DaskArrayModel.Model.Slicing
namespace Dask.Hist
open Dask.Py Dask.Py.PySlice Dask.Slicing

/-! ## C23 part 1 — `Random._block_id_to_flat_index` -/

/-- the loop `for i in reversed(range(len(base_block_id)))` with its two running variables
`flat_idx`, `stride`; the list holds `(base_block_id[i], len(_base_chunks[i]))` already reversed. -/
def flatLoop : List (Nat × Nat) → Nat → Nat → Nat
  | [], flat, _ => flat
  | (b, n) :: rest, flat, stride => flatLoop rest (flat + b * stride) (stride * n)

/-- `_block_id_to_flat_index(block_id)`; `numblocks[i] = len(_base_chunks[i])`.
`block_id[: len(_base_chunks)]` drops the `extra_chunks` coordinates. -/
def flatIndex (numblocks blockId : List Nat) : Nat :=
  flatLoop ((blockId.take numblocks.length).zip numblocks).reverse 0 1

/-- number of blocks `len(list(product(*_base_chunks)))`. -/
def nblocks : List Nat → Nat
  | [] => 1
  | n :: ns => n * nblocks ns

/-- specification: row-major (C order) rank of a block id, as `itertools.product` enumerates. -/
def rowMajor : List Nat → List Nat → Nat
  | _ :: ns, b :: bs => b * nblocks ns + rowMajor ns bs
  | _, _ => 0

/-- inverse: the block id with a given flat index. -/
def unflatIndex : List Nat → Nat → List Nat
  | [], _ => []
  | _ :: ns, k => (k / nblocks ns) :: unflatIndex ns (k % nblocks ns)

/-- block id lies in the grid `Π range(numblocks[i])`. -/
def InGrid : List Nat → List Nat → Prop
  | [], [] => True
  | n :: ns, b :: bs => b < n ∧ InGrid ns bs
  | _, _ => False

/-- the grid in `itertools.product` order. -/
def grid : List Nat → List (List Nat)
  | [] => [[]]
  | n :: ns => (List.range n).flatMap (fun b => (grid ns).map (fun bs => b :: bs))

/-! ## C23 part 2 — generators, `Random` nodes, histories -/

/-- A seeded generator object (`Generator(bitgen)` / `RandomState(seed)`): the seed it was built
from and how much of it has been consumed (`SeedSequence.n_children_spawned`, resp. the number of
`_numpy_state.bytes(16)` draws).  This object is MUTABLE and shared by every array built from it. -/
structure Gen where
  seed : Nat
  spawned : Nat
deriving DecidableEq, Repr

inductive Kind | generator | randomState
deriving DecidableEq, Repr

/-- The per-block seed derivation of `Random._info`.  `spawn s k` is abstract (child `k` of seed
sequence `s`).
* Generator branch: `_spawn_bitgens(bitgen, n)` = `bitgen._seed_seq.spawn(n)`: children
  `spawned … spawned+n-1`; the counter advances by `n`.
* RandomState branch: `root_entropy = _numpy_state.bytes(16)` (one draw, counter advances by one),
  then `SeedSequence(root_entropy).generate_state(4n)` cut in `n` words. -/
def draw (spawn : Nat → Nat → Nat) (k : Kind) (g : Gen) (n : Nat) : List Nat × Gen :=
  match k with
  | .generator => ((List.range n).map (fun i => spawn g.seed (g.spawned + i)), { g with spawned := g.spawned + n })
  | .randomState =>
    let root := spawn g.seed g.spawned
    ((List.range n).map (fun i => spawn root i), { g with spawned := g.spawned + 1 })

/-- operands of a `Random` node other than the generator. -/
structure Params where
  dist : Nat             -- distribution name and scalar arguments (opaque)
  numblocks : List Nat   -- `len(bd) for bd in _base_chunks` (from `size`, `chunks`)
  deps : List Nat        -- names of array-valued parameters (`dependencies()`); `[]` for scalar parameters
deriving DecidableEq, Repr

/-- A `Random` expression VALUE.  `seeds` is `_info[0]`: `Expr.__new__` reads `_name`, `_name`
reads the `cached_property` `_info`, so the seeds are drawn when the node is constructed and live
in the instance `__dict__` from then on. -/
structure Node where
  params : Params
  seeds : List Nat
deriving DecidableEq, Repr

/-- `Random(rng, …)`: construct a node; draws from (and advances) the live generator. -/
def construct (spawn : Nat → Nat → Nat) (k : Kind) (g : Gen) (p : Params) : Node × Gen :=
  (⟨p, (draw spawn k g (nblocks p.numblocks)).1⟩, (draw spawn k g (nblocks p.numblocks)).2)

/-- `ArrayExpr.__reduce__`: operands (the generator is pickled by value: a COPY of its current
state), and the `cached_property` cache, which contains `_info` (`_pickle_functools_cache`). -/
structure Pickled where
  params : Params
  gen : Gen
  cache : Option (List Nat)
deriving DecidableEq, Repr

def reduce (g : Gen) (r : Node) : Pickled := ⟨r.params, g, some r.seeds⟩

/-- `Expr._reconstruct`: `inst = typ(*operands)` (draws FRESH seeds from the unpickled generator
copy), then `inst.__dict__[k] = v` for the carried cache (overwrites `_info`). -/
def reconstruct (spawn : Nat → Nat → Nat) (k : Kind) (p : Pickled) : Node :=
  match p.cache with
  | some s => { (construct spawn k p.gen p.params).1 with seeds := s }
  | none => (construct spawn k p.gen p.params).1

/-- What a rewrite (`Expr._substitute`, `_substitute_many.rebuild`, `FusedBlockwise._substitute`,
lowering) does at a node: `result = type(node)(*operands) if update else node`, where `update`
says that some operand EXPRESSION was replaced by one with a different name (`f` renames the
dependencies).  A node without array-valued parameters has no expression operands. -/
def rebuild (spawn : Nat → Nat → Nat) (k : Kind) (g : Gen) (r : Node) (f : Nat → Nat) : Node × Gen :=
  if r.params.deps.map f ≠ r.params.deps then
    construct spawn k g { r.params with deps := r.params.deps.map f }
  else (r, g)

/-- seed used by the task of block `bid`: `bitgens[flat_idx]`. -/
def observe (r : Node) (bid : List Nat) : List Nat × Option Nat :=
  (bid, r.seeds[flatIndex r.params.numblocks bid]?)

structure World where
  gen : Gen                               -- the live generator
  born : Gen                              -- its state when `node` was constructed
  node : Node                             -- the expression held by the collection `x`
  obs : List (List Nat × Option Nat)      -- every (block id, seed) pair used by a task so far
deriving Repr

inductive Op
  /-- `x.compute()`: every block. -/
  | compute
  /-- optimise + compute a program derived from `x`: operands of the node renamed by `f`
  (simplify / lower / fuse), then the blocks that survive culling are computed. -/
  | derive (f : Nat → Nat) (blocks : List (List Nat))
  /-- `x = pickle.loads(pickle.dumps(x))`. -/
  | pickle
  /-- build another random array from the same live generator. -/
  | other (p : Params)
  /-- a fresh generator with the same seed, brought to the same state, builds the array again and computes it. -/
  | rebuildSameSeed

def step (spawn : Nat → Nat → Nat) (k : Kind) (w : World) : Op → World
  | .compute => { w with obs := w.obs ++ (grid w.node.params.numblocks).map (observe w.node) }
  | .derive f blocks =>
    { w with gen := (rebuild spawn k w.gen w.node f).2,
             obs := w.obs ++ blocks.map (observe (rebuild spawn k w.gen w.node f).1) }
  | .pickle => { w with node := reconstruct spawn k (reduce w.gen w.node) }
  | .other p => { w with gen := (construct spawn k w.gen p).2 }
  | .rebuildSameSeed =>
    { w with obs := w.obs ++ (grid w.node.params.numblocks).map (observe (construct spawn k w.born w.node.params).1) }

def run (spawn : Nat → Nat → Nat) (k : Kind) : List Op → World → World
  | [], w => w
  | op :: ops, w => run spawn k ops (step spawn k w op)

/-- the node is what constructing it from `born` gives (true of every node built by the API). -/
def WF (spawn : Nat → Nat → Nat) (k : Kind) (w : World) : Prop :=
  w.node = (construct spawn k w.born w.node.params).1

/-! ## C11 part 1 — `parse_assignment_indices` (slice branch) -/

/-- lines `start, stop, step = index.indices(size); if step < 0 and stop == -1: stop = None;
index = slice(start, stop, step)`. -/
def parseIndex1 (index : PySlice) (size : Int) : PySlice :=
  ⟨some (index.istart size),
   if index.stp < 0 ∧ index.istop size = -1 then none else some (index.istop size),
   some index.stp⟩

/-- the `if step < 0:` block: recast a decreasing slice as an increasing one
(`divmod(start - stop - 1, step)` arithmetic). -/
def parseIndex2 (index : PySlice) (size : Int) : PySlice :=
  let i1 := parseIndex1 index size
  if index.stp < 0 then
    let start := i1.istart size
    let stop := i1.istop size
    let step := -i1.stp
    let div := pyDiv (start - stop - 1) step
    let divStep := div * step
    let start' := start - divStep
    let stop' := start' + divStep + 1
    ⟨some start', some stop', some step⟩
  else i1

/-- `i ∈ reverse`. -/
def parseReversed (index : PySlice) : Bool := decide (index.stp < 0)

/-- `div, mod = divmod(stop - start, step)` on `index.indices(size)` of the recast slice. -/
def parseDiv (index : PySlice) (size : Int) : Int :=
  let i2 := parseIndex2 index size
  pyDiv (i2.istop size - i2.istart size) i2.stp

def parseMod (index : PySlice) (size : Int) : Int :=
  let i2 := parseIndex2 index size
  pyMod (i2.istop size - i2.istart size) i2.stp

/-- the value appended to `implied_shape`. -/
def parseImplied (index : PySlice) (size : Int) : Int :=
  if parseDiv index size = 0 ∧ parseMod index size = 0 then 0
  else if parseMod index size ≠ 0 then parseDiv index size + 1 else parseDiv index size

/-- `i ∈ implied_shape_positions`. -/
def parsePositioned (index : PySlice) (size : Int) : Bool :=
  !(decide (parseDiv index size = 0 ∧ parseMod index size = 0))

/-- `parse_assignment_indices((s,), (size,))`: `normalize_index` (→ `normalize_slice`) first. -/
def parseAssign (s : PySlice) (size : Int) : PySlice := parseIndex2 (normalizeSlice s size) size
def parseAssignImplied (s : PySlice) (size : Int) : Int := parseImplied (normalizeSlice s size) size
def parseAssignReversed (s : PySlice) (size : Int) : Bool := parseReversed (normalizeSlice s size)
def parseAssignPositioned (s : PySlice) (size : Int) : Bool := parsePositioned (normalizeSlice s size) size

/-! ## C11 part 2 — per-block arithmetic of `setitem_array_expr` (slice / int keys) -/

/-- `block_index = slice(start, stop, step)` of the slice branch; `none` = `overlaps = False`.
`index` is a parsed (concrete, positive-step) slice; the block covers `[loc0, loc1)`. -/
def blkStop (index : PySlice) (loc0 loc1 : Int) : Int :=
  let stop := loc1 - loc0
  if index.stop.getD 0 < loc1 then stop - (loc1 - index.stop.getD 0) else stop

def blkStart (index : PySlice) (loc0 : Int) : Int :=
  let start := index.start.getD 0 - loc0
  if start < 0 then pyMod start (index.step.getD 1) else start

def blkOverlaps (index : PySlice) (loc0 loc1 : Int) : Bool :=
  !(decide (blkStart index loc0 ≥ blkStop index loc0 loc1))

/-- `block_index_size, rem = divmod(stop - start, step); if rem: block_index_size += 1`. -/
def blkSize (index : PySlice) (loc0 loc1 : Int) : Int :=
  let d := blkStop index loc0 loc1 - blkStart index loc0
  if pyMod d (index.step.getD 1) ≠ 0 then pyDiv d (index.step.getD 1) + 1 else pyDiv d (index.step.getD 1)

/-- `pre = index.indices(loc0); n_preceding, rem = divmod(pre[1] - pre[0], step); if rem: n_preceding += 1`. -/
def blkPreceding (index : PySlice) (loc0 : Int) : Int :=
  let d := index.istop loc0 - index.istart loc0
  if pyMod d (index.step.getD 1) ≠ 0 then pyDiv d (index.step.getD 1) + 1 else pyDiv d (index.step.getD 1)

/-- `value_indices[i] = slice(start, start + block_indices_shape[j])` for a non-broadcast
dimension, `slice(None)` for a broadcast one (`b == 1`). -/
def valueSlice (bcast : Bool) (npre size : Int) : PySlice :=
  if bcast then ⟨none, none, none⟩ else ⟨some npre, some (npre + size), none⟩

/-- the `for i in reverse:` block: read the value backwards.
`start, stop, step = value_indices[i].indices(size); size -= 1; start = size - start;
stop = size - stop; if stop < 0: stop = None; slice(start, stop, -1)`. -/
def reverseValueSlice (vs : PySlice) (vsize : Int) : PySlice :=
  let start := vs.istart vsize
  let stop := vs.istop vsize
  let size := vsize - 1
  let start := size - start
  let stop := size - stop
  ⟨some start, if stop < 0 then none else some stop, some (-1)⟩

/-- the value slice used for a block along one sliced axis. -/
def blockValueSlice (bcast reversed : Bool) (vsize npre size : Int) : PySlice :=
  if reversed then reverseValueSlice (valueSlice bcast npre size) vsize else valueSlice bcast npre size

/-! ### what one axis of one block assigns (index semantics) -/

/-- NumPy meaning of `x[s] = v` on an axis of length `n` (1-d): position `p` receives
`v[k]` where `k` is the rank of `p` in `sel s n`; `none` = `p` keeps its value. -/
def npSource (s : PySlice) (n : Int) (p : Int) : Option Nat :=
  (sel s n).findIdx? (· == p)

/-- … with a broadcast value (`len(v) == 1`, or a 0-d value): every selected position receives `v[0]`. -/
def npSourceB (s : PySlice) (n : Int) (bcast : Bool) (p : Int) : Option Nat :=
  (npSource s n p).map (fun k => if bcast then 0 else k)

/-- what the chunked algorithm does at local position `q` of the block `[loc0, loc1)`:
the block task runs `x_block[block_index] = v[value_slice]` (chunk function `setitem`, NumPy
semantics on the block), so `q` receives element `rank of q in sel block_index` of
`sel value_slice` of the value (element 0 when the value is broadcast). `index = parseAssign s n`. -/
def blockSource (s : PySlice) (n : Int) (bcast : Bool) (loc0 loc1 : Int) (q : Int) : Option Nat :=
  let index := parseAssign s n
  if blkOverlaps index loc0 loc1 then
    let bi : PySlice := ⟨some (blkStart index loc0), some (blkStop index loc0 loc1), index.step⟩
    match (sel bi (loc1 - loc0)).findIdx? (· == q) with
    | some j =>
      if bcast then some 0 else
        let vsize := parseAssignImplied s n
        let vs := blockValueSlice false (parseAssignReversed s n) vsize (blkPreceding index loc0) (blkSize index loc0 loc1)
        ((sel vs vsize)[j]?).map Int.toNat
    | none => none
  else none

/-- integer key: `if not loc0 <= index < loc1: overlaps = False; block_index = index - loc0`. -/
def blkInt (index loc0 loc1 : Int) : Option Int :=
  if loc0 ≤ index ∧ index < loc1 then some (index - loc0) else none

/-! ### assembling a 1-d chunked assignment -/

/-- blocks `(loc0, loc1)` of a chunking, from offset `off`. -/
def blockBounds : Int → List Int → List (Int × Int)
  | _, [] => []
  | off, c :: cs => (off, off + c) :: blockBounds (off + c) cs

/-- element written at a position: `v[k]` when the position is assigned from value index `k`, else the old element. -/
def pick {α} (o : Option Nat) (v : Nat → α) (d : α) : α :=
  match o with
  | some k => v k
  | none => d

/-- the result of the chunked `x[s] = v` (1-d, `v` not broadcast or a scalar): block by block,
local position by local position. -/
def setitemChunked {α} (chunks : List Int) (x : Int → α) (s : PySlice) (bcast : Bool) (v : Nat → α) : List α :=
  (blockBounds 0 chunks).flatMap (fun b =>
    (List.range (b.2 - b.1).toNat).map (fun (q : Nat) =>
      pick (blockSource s (isum chunks) bcast b.1 b.2 (q : Int)) v (x (b.1 + (q : Int)))))

/-- NumPy: `x[s] = v` (1-d). -/
def npAssign {α} (n : Int) (x : Int → α) (s : PySlice) (bcast : Bool) (v : Nat → α) : List α :=
  (List.range n.toNat).map (fun (p : Nat) => pick (npSourceB s n bcast (p : Int)) v (x (p : Int)))

/-! ### n-d, per axis: keys are slices or integers -/

inductive Key | slice (s : PySlice) | int (i : Int)
deriving DecidableEq, Repr

/-- per axis: `none` = not assigned on this axis; `some none` = assigned, integer key (no value
axis); `some (some k)` = assigned, value index `k` along the corresponding value axis. -/
def npSourceAxis (key : Key) (n : Int) (p : Int) : Option (Option Nat) :=
  match key with
  | .slice s => (npSource s n p).map some
  | .int i => if p = posifyInt n i then some none else none

def blockSourceAxis (key : Key) (n : Int) (loc0 loc1 q : Int) : Option (Option Nat) :=
  match key with
  | .slice s => (blockSource s n false loc0 loc1 q).map some
  | .int i => match blkInt (posifyInt n i) loc0 loc1 with
    | some b => if q = b then some none else none
    | none => none

/-- n-d: a position is assigned iff it is assigned on every axis; the value index is the list of
per-axis value indices of the sliced axes (NumPy meaning of `x[k0, k1, …] = v`). -/
def npSourceND : List Key → List Int → List Int → Option (List Nat)
  | k :: ks, n :: ns, p :: ps =>
    match npSourceAxis k n p, npSourceND ks ns ps with
    | some (some i), some rest => some (i :: rest)
    | some none, some rest => some rest
    | _, _ => none
  | _, _, _ => some []

/-- the same for the chunked algorithm on the block `Π [blk[i].1, blk[i].2)` at local position `q`. -/
def blockSourceND : List Key → List Int → List (Int × Int) → List Int → Option (List Nat)
  | k :: ks, n :: ns, b :: bs, q :: qs =>
    match blockSourceAxis k n b.1 b.2 q, blockSourceND ks ns bs qs with
    | some (some i), some rest => some (i :: rest)
    | some none, some rest => some rest
    | _, _ => none
  | _, _, _, _ => some []

/-- global position of local position `q` of block `blk`. -/
def globalPos : List (Int × Int) → List Int → List Int
  | b :: bs, q :: qs => (b.1 + q) :: globalPos bs qs
  | _, _ => []

/-- well-formed axes: valid keys, blocks inside the axis, local position inside the block. -/
def AxesOK : List Key → List Int → List (Int × Int) → List Int → Prop
  | k :: ks, n :: ns, b :: bs, q :: qs =>
    (match k with | .slice s => s.stp ≠ 0 | .int i => -n ≤ i ∧ i < n) ∧
    0 ≤ b.1 ∧ b.2 ≤ n ∧ 0 ≤ q ∧ q < b.2 - b.1 ∧ AxesOK ks ns bs qs
  | [], [], [], [] => True
  | _, _, _, _ => False

/-! ### the per-block plan of `setitem_array_expr` (n-d, slice / int keys) -/

inductive BlockIdx | slice (s : PySlice) | int (i : Int)
deriving DecidableEq, Repr

/-- one axis of one block: `none` = `overlaps = False`; else the block index and, for a slice,
`(block_index_size, n_preceding)`. -/
def axisPlan (key : Key) (size : Int) (loc : Int × Int) : Option (BlockIdx × Option (Int × Int)) :=
  match key with
  | .slice s =>
    let index := parseAssign s size
    if blkOverlaps index loc.1 loc.2 then
      some (.slice ⟨some (blkStart index loc.1), some (blkStop index loc.1 loc.2), index.step⟩,
            some (blkSize index loc.1 loc.2, blkPreceding index loc.1))
    else none
  | .int i => (blkInt (posifyInt size i) loc.1 loc.2).map (fun b => (.int b, none))

/-- cartesian product in `itertools.product` order. -/
def product {α} : List (List α) → List (List α)
  | [] => [[]]
  | l :: ls => l.flatMap (fun a => (product ls).map (fun as => a :: as))

/-- value kinds of the modelled cases: a 0-d value (no value indices at all: `offset = len(implied_shape)`),
or a value of the full implied rank whose dimension `i` has size 1 (`bcast[i]`) or the implied size. -/
inductive VKind | scalar | full (bcast : List Bool)
deriving DecidableEq, Repr

/-- the value slices of one block: one per positioned sliced axis (in axis order). -/
def valueSlices (keys : List Key) (shape : List Int) (axes : List (BlockIdx × Option (Int × Int))) (bcast : List Bool) : List PySlice :=
  let sliced := (keys.zip (shape.zip axes)).filterMap (fun a =>
    match a.1, a.2.2.2 with
    | .slice s, some (size, npre) =>
      if parseAssignPositioned s a.2.1 then some (s, a.2.1, size, npre) else none
    | _, _ => none)
  (sliced.zip bcast).map (fun a =>
    let s := a.1.1; let n := a.1.2.1; let size := a.1.2.2.1; let npre := a.1.2.2.2
    blockValueSlice a.2 (parseAssignReversed s n) (if a.2 then 1 else parseAssignImplied s n) npre size)

/-- `setitem_array_expr`: for every block in C order, `none` (= `Alias(out_key, in_key)`) or
`(block_indices, value_indices)`. -/
def setitemPlan (chunks : List (List Int)) (keys : List Key) (vk : VKind) : List (Option (List BlockIdx × List PySlice)) :=
  let shape := chunks.map isum
  (product (chunks.map (blockBounds 0))).map (fun blk =>
    match (keys.zip (shape.zip blk)).mapM (fun a => axisPlan a.1 a.2.1 a.2.2) with
    | none => none
    | some axes =>
      some (axes.map (·.1),
        match vk with
        | .scalar => []
        | .full bcast => valueSlices keys shape axes bcast))

/-! ## C11 part 3 — the collection store -/

/-- Expressions are immutable VALUES. `K` = assignment keys. -/
inductive Expr (K : Type) where
  | src (n : Nat)                                   -- `from_array(sources[n])`
  | op1 (f : Nat) (a : Expr K)                      -- any derivation (slice, transpose, rechunk, ufunc …)
  | op2 (f : Nat) (a b : Expr K)
  | setItem (a : Expr K) (key : K) (v : Expr K)     -- `SetItem(array, index, value)` / `where(key, value, array)`
  | chunksOverride (a : Expr K)                     -- `ChunksOverride(expr, chunks)` of `compute_chunk_sizes`
deriving Repr

/-- interpretation of the symbols: sources, functions, NumPy assignment. -/
structure Interp (K A : Type) where
  src : Nat → A
  f1 : Nat → A → A
  f2 : Nat → A → A → A
  assign : A → K → A → A     -- `npAssign x key v` : a COPY of `x` with `x[key] = v` applied

/-- NumPy meaning of an expression. -/
def den {K A} (I : Interp K A) : Expr K → A
  | .src n => I.src n
  | .op1 f a => I.f1 f (den I a)
  | .op2 f a b => I.f2 f (den I a) (den I b)
  | .setItem a key v => I.assign (den I a) key (den I v)
  | .chunksOverride a => den I a

/-- a collection: its expression and the `_lowered_expr` cache. `L` = lowered graphs. -/
structure Entry (K L : Type) where
  expr : Expr K
  cache : Option L

abbrev Store (K L : Type) := Nat → Option (Entry K L)

def Store.set {K L} (s : Store K L) (x : Nat) (e : Entry K L) : Store K L :=
  fun y => if y = x then some e else s y

/-- `Array._replace_expr(expr)`: swap the expression and DROP the cached derivations. -/
def replaceExpr {K L} (s : Store K L) (x : Nat) (e : Expr K) : Store K L :=
  match s x with
  | some _ => s.set x ⟨e, none⟩
  | none => s

inductive COp (K : Type) where
  | derive1 (y x : Nat) (f : Nat)              -- `y = f(x)` : a NEW collection
  | derive2 (y x z : Nat) (f : Nat)            -- `y = f(x, z)`
  | setitem (x : Nat) (key : K) (z : Nat)      -- `x[key] = z`   (`z` may be derived from `x`)
  | outUfunc (x a b : Nat) (f : Nat)           -- `np.f(a, b, out=x)` : `handle_out` → `_replace_expr`
  | computeChunkSizes (x : Nat)
  | compute (x : Nat)

/-- the collection an operation writes to. -/
def COp.target {K} : COp K → Nat
  | .derive1 y _ _ => y
  | .derive2 y _ _ _ => y
  | .setitem x _ _ => x
  | .outUfunc x _ _ _ => x
  | .computeChunkSizes x => x
  | .compute x => x

def cstep {K L} (mat : Expr K → L) (s : Store K L) : COp K → Store K L
  | .derive1 y x f => match s x with
    | some ex => s.set y ⟨.op1 f ex.expr, none⟩
    | none => s
  | .derive2 y x z f => match s x, s z with
    | some ex, some ez => s.set y ⟨.op2 f ex.expr ez.expr, none⟩
    | _, _ => s
  | .setitem x key z => match s x, s z with
    | some ex, some ez => replaceExpr s x (.setItem ex.expr key ez.expr)
    | _, _ => s
  | .outUfunc x a b f => match s a, s b with
    | some ea, some eb => replaceExpr s x (.op2 f ea.expr eb.expr)
    | _, _ => s
  | .computeChunkSizes x => match s x with
    | some ex => replaceExpr s x (.chunksOverride ex.expr)
    | none => s
  | .compute x => match s x with
    | some ex => s.set x ⟨ex.expr, some (match ex.cache with | some l => l | none => mat ex.expr)⟩
    | none => s

def crun {K L} (mat : Expr K → L) : List (COp K) → Store K L → Store K L
  | [], s => s
  | op :: ops, s => crun mat ops (cstep mat s op)

/-- the cache invariant: `cache = some l → l = materialize expr`. -/
def Inv {K L} (mat : Expr K → L) (s : Store K L) : Prop :=
  ∀ x e l, s x = some e → e.cache = some l → l = mat e.expr

/-- what `x.compute()` returns: the cached lowered graph if there is one, else a fresh one, evaluated. -/
def computed {K L A} (mat : Expr K → L) (eval : L → A) (s : Store K L) (x : Nat) : Option A :=
  (s x).map (fun e => eval (match e.cache with | some l => l | none => mat e.expr))

/-- the WRONG `_replace_expr` (keeps `_lowered_expr`) — used only to show the invariant is needed. -/
def replaceExprKeepCache {K L} (s : Store K L) (x : Nat) (e : Expr K) : Store K L :=
  match s x with
  | some old => s.set x ⟨e, old.cache⟩
  | none => s

end Dask.Hist
