/-
Model of `MapOverlap._accept_slice` (dask_array/_overlap.py): a unit-step slice is pushed through
`map_overlap`.  On an overlap axis the slice is EXPANDED by the depth and pushed to the input, and a trim
slice is left on top; on the other axes it is pushed as it is.

The file has three parts:

* `acceptAxis` / `accept`: the Python control flow, branch by branch (same running variables:
  `start, stop, step`, `max_depth`, `expanded_start`, `expanded_stop`, `trim_start`, `trim_stop`).
* `padB`: what `boundaries(x, depth, kind)` appends on the two sides of one axis (`periodic`, `reflect`,
  `nearest`, `constant` of `_overlap.py`; `none` appends nothing — here the missing neighbours are the
  marker `Option.none`, so that a block function's own edge behaviour is part of its kernel).
* `WinLocal dl dr g`: the class of whole-axis functions whose output at position `i` depends only on the
  extended input at `[i, i+dl+dr]` and not on `i` itself — the meaning of
  `map_overlap(f, depth=(dl,dr), boundary=b)` followed by the trim for a block function `f` that is a stencil.
  `stencil k` is the canonical member (`stencil_winLocal` in Lemmas/OverlapSlice.lean).

Core Lean only.
-/
import DaskArrayModel.Py.Basic
namespace Dask.OverlapSlice
open Dask.Py Dask.Py.PySlice

/-- `slice(None)` -/
def colon : PySlice := ⟨none, none, none⟩

/-- what `_accept_slice` reads of `self.boundary[0].get(axis, "none")`: only `== "periodic"` and
`== "none"` are tested; every other value (a number, an array value) is a constant fill. -/
inductive BKind
  | none | periodic | reflect | nearest | constant
deriving DecidableEq, Repr, Inhabited

/-! ### the rule, one axis -/

/-- outcome for one axis: `return None`, or the entry written to `full_index[axis]`, the entry appended
to `output_trim_index`, and whether `needs_trim` was set. -/
inductive AxisRes
  | decline
  | ok (inp : PySlice) (trim : PySlice) (needsTrim : Bool)
deriving DecidableEq, Repr, Inhabited

/-- body of `for axis in range(ndim):` in `MapOverlap._accept_slice`.
`n = self.shape[axis] = self.arrays[0].shape[axis]`; `dl, dr = left_depth, right_depth` (a scalar depth `d`
is `dl = dr = d`); `idx = full_index[axis]` (a slice). -/
def acceptAxis (n dl dr : Int) (bk : BKind) (allowRechunk : Bool) (idx : PySlice) : AxisRes :=
  let maxDepth := max dl dr
  -- if idx == slice(None): output_trim_index.append(slice(None)); continue
  if idx = colon then .ok colon colon false
  else
    -- start, stop, step = idx.indices(dim_size)
    let start := idx.istart n
    let stop := idx.istop n
    let step := idx.stp
    if step ≠ 1 then .decline
    else if maxDepth = 0 then .ok idx colon false
    else if !allowRechunk then .decline
    else
      let expandedStart := max 0 (start - dl)
      let expandedStop := min n (stop + dr)
      if bk = .periodic ∧ (expandedStart = 0 ∨ expandedStop = n) then .decline
      else if maxDepth > expandedStop - expandedStart then .decline
      else if bk = .none ∧ expandedStop - expandedStart ≤ dl + dr then .decline
      else
        let trimStart := start - expandedStart
        let trimStop := trimStart + (stop - start)
        .ok ⟨some expandedStart, some expandedStop, none⟩
            ⟨if trimStart = 0 then none else some trimStart, some trimStop, none⟩ true

/-- The seeded change: the periodic guard tests the REQUESTED slice (`start == 0 or stop == input_size`)
instead of the expanded one.  Used only by the witness theorem `C02o_periodic_guard_necessary`. -/
def acceptAxisRequestedGuard (n dl dr : Int) (bk : BKind) (allowRechunk : Bool) (idx : PySlice) : AxisRes :=
  let maxDepth := max dl dr
  if idx = colon then .ok colon colon false
  else
    let start := idx.istart n
    let stop := idx.istop n
    let step := idx.stp
    if step ≠ 1 then .decline
    else if maxDepth = 0 then .ok idx colon false
    else if !allowRechunk then .decline
    else
      let expandedStart := max 0 (start - dl)
      let expandedStop := min n (stop + dr)
      if bk = .periodic ∧ (start = 0 ∨ stop = n) then .decline
      else if maxDepth > expandedStop - expandedStart then .decline
      else if bk = .none ∧ expandedStop - expandedStart ≤ dl + dr then .decline
      else
        let trimStart := start - expandedStart
        let trimStop := trimStart + (stop - start)
        .ok ⟨some expandedStart, some expandedStop, none⟩
            ⟨if trimStart = 0 then none else some trimStart, some trimStop, none⟩ true

/-! ### the rule, whole node -/

/-- one entry of `slice_expr.index` -/
inductive Ix
  | newaxis
  | int (i : Int)
  | slc (s : PySlice)
deriving DecidableEq, Repr, Inhabited

/-- what `_accept_slice` reads of the `MapOverlap` node -/
structure Node where
  /-- `self.shape` (= shape of the only input) -/
  shape : List Int
  /-- `self.depth[0]`, per axis `(left_depth, right_depth)` (`depth.get(axis, 0)` beyond the list) -/
  depth : List (Int × Int)
  /-- `self.boundary[0]`, per axis (`"none"` beyond the list) -/
  bkind : List BKind
  allowRechunk : Bool
  /-- `len(self.arrays)` -/
  nArrays : Nat
  /-- `has_keyword(func, "block_id") or has_keyword(func, "block_info")` -/
  posAware : Bool
deriving Repr, Inhabited

inductive Res
  | decline
  /-- `inp` = `tuple(full_index)` applied to the input; `trim = some t`: `SliceSlicesIntegers(new_expr, t)`
  on top (`needs_trim`), `none`: the new `MapOverlap` is returned as it is. -/
  | ok (inp : List PySlice) (trim : Option (List PySlice))
deriving DecidableEq, Repr, Inhabited

def Ix.isNewaxis : Ix → Bool
  | .newaxis => true
  | _ => false

def Ix.isInt : Ix → Bool
  | .int _ => true
  | _ => false

def Ix.toSlice : Ix → PySlice
  | .slc s => s
  | _ => colon

/-- `for axis in range(ndim):` over the padded index; `none` = `return None`. -/
def acceptLoop (nd : Node) : Nat → List PySlice → Option (List PySlice × List PySlice × Bool)
  | _, [] => some ([], [], false)
  | axis, idx :: rest =>
    match acceptAxis (nd.shape.getD axis 0) (nd.depth.getD axis (0, 0)).1 (nd.depth.getD axis (0, 0)).2
        (nd.bkind.getD axis .none) nd.allowRechunk idx with
    | .decline => none
    | .ok inp trim t =>
      match acceptLoop nd (axis + 1) rest with
      | none => none
      | some (is, ts, b) => some (inp :: is, trim :: ts, t || b)

/-- `MapOverlap._accept_slice(slice_expr)` -/
def accept (nd : Node) (index : List Ix) : Res :=
  let ndim := nd.shape.length
  if index.any Ix.isNewaxis then .decline
  else if index.any Ix.isInt then .decline
  else if nd.nArrays ≠ 1 then .decline
  else if nd.posAware then .decline
  else
    -- full_index = list(index) + [slice(None)] * (ndim - len(index)); the loop reads axes 0 … ndim-1
    let fullIndex := (index.map Ix.toSlice ++ List.replicate (ndim - index.length) colon).take ndim
    match acceptLoop nd 0 fullIndex with
    | none => .decline
    | some (is, ts, needsTrim) => .ok is (if needsTrim then some ts else none)

/-! ### meaning: boundary extension, stencils, slices of lists -/

variable {α β γ : Type}

/-- a boundary kind with its fill value -/
inductive Boundary (α : Type)
  | none | periodic | reflect | nearest | constant (c : α)

def Boundary.kind : Boundary α → BKind
  | .none => .none
  | .periodic => .periodic
  | .reflect => .reflect
  | .nearest => .nearest
  | .constant _ => .constant

/-- `boundaries(x, depth, kind)` along one axis, as a list of `Option α` (`some v` = an element,
`Option.none` = "no neighbour", which only the kind `none` produces):
* `periodic`: `concatenate([x[-d:], x, x[:d]])`
* `reflect`:  `concatenate([x[d-1::-1], x, x[-1:-d-1:-1]])`
* `nearest`:  `concatenate([repeat(x[0:1], d), x, repeat(x[-1:-2:-1], d)])`
* `constant`: `concatenate([full(d, c), x, full(d, c)])`
The code only allows `dl = dr` for the kinds other than `none` (`NotImplementedError` for a tuple depth);
the definition reads `dl` on the left and `dr` on the right. -/
def padB (b : Boundary α) (dl dr : Nat) (x : List α) : List (Option α) :=
  match b with
  | .none => List.replicate dl Option.none ++ x.map some ++ List.replicate dr Option.none
  | .periodic => (x.drop (x.length - dl) ++ x ++ x.take dr).map some
  | .reflect => ((x.take dl).reverse ++ x ++ (x.drop (x.length - dr)).reverse).map some
  | .nearest =>
    (((x.take 1).flatMap (fun a => List.replicate dl a)) ++ x ++
      ((x.drop (x.length - 1)).flatMap (fun a => List.replicate dr a))).map some
  | .constant c => (List.replicate dl c ++ x ++ List.replicate dr c).map some

/-- the `w` consecutive entries from position `i` -/
def window (w : Nat) (e : List γ) (i : Nat) : List γ := (e.drop i).take w

/-- apply the kernel `k` to every full window of `dl + dr + 1` consecutive entries of the extended axis:
the result of the per-block function followed by the trim, for a block function whose output at a position
is `k` of the `dl` entries before, the entry, and the `dr` entries after. -/
def stencil (k : List γ → β) (dl dr : Nat) (e : List γ) : List β :=
  (List.range (e.length - (dl + dr))).map (fun i => k (window (dl + dr + 1) e i))

/-- window-local and translation-invariant: the output has one entry per full window and the entry at
position `i` depends only on the window starting at `i` (not on `i`: a function that is told its position —
`block_id` / `block_info` — is outside the class, and the rule declines for it). -/
def WinLocal (dl dr : Nat) (g : List γ → List β) : Prop :=
  (∀ e, (g e).length = e.length - (dl + dr)) ∧
  (∀ e e' i j, i + (dl + dr) < e.length → j + (dl + dr) < e'.length →
    window (dl + dr + 1) e i = window (dl + dr + 1) e' j → (g e)[i]? = (g e')[j]?)

/-- NumPy `x[s]` on one axis: the entries at `range(*s.indices(len(x)))`. -/
def getSl (s : PySlice) (x : List α) : List α :=
  (sel s x.length).filterMap (fun i => x[i.toNat]?)

/-- `map_overlap(f, depth=(dl,dr), boundary=b)` with the trim, on one axis, for a window-local `g`. -/
def mapOverlap1 (g : List (Option α) → List β) (b : Boundary α) (dl dr : Nat) (x : List α) : List β :=
  g (padB b dl dr x)

end Dask.OverlapSlice
