/-
L1 model of chunk unification:
  * `common_blockdim`   (dask_array/_core_utils.py)
  * `coarse_blockdim`   (dask_array/_expr.py)
  * the per-index part of `unify_chunks_expr` (dask_array/_expr.py): `broadcast_dimensions`
    grouping (dask/blockwise.py) with sentinel removal, the policy switch, the size guard
    (`array.unify-chunks-limit`) and the per-operand target chunks.
Each def mirrors the Python control flow (same branches, same running variables; the
`while i < total` loop is a fuel recursion).  Core Lean only.  Tied to the implementation by
harness/props/C17.py.

Modelling conventions used here
  * a layout (one axis' chunk tuple) is a `List Int`; the Python *set* of layouts is a list that
    is deduplicated first (`dedupe`); every place where Python depends on set iteration order is
    marked ORDER below together with the argument why the result does not depend on it.
  * unknown (`nan`) chunk sizes are OUT OF SCOPE of this model (entries are `Int`): the
    `np.isnan(...)` branches of both functions are not modelled, theorems and correspondence
    only range over known sizes.
  * Python exceptions are `Except Err`: `ValueError` ("Chunks do not add up to same value"),
    `StopIteration` (`first(())` inside `max(blockdims, key=first)`), `IndexError` (`c[-1]` of an
    exhausted list -- unreachable for non-negative entries, proved in Lemmas/Unify.lean).
    `Err.fuel` is not a Python outcome: it marks exhaustion of the model's loop fuel and is
    proved unreachable for non-negative entries.
  * the float byte-cost comparisons of the "auto" policy (`moved_fraction`, `_MERGE_COST_RATIO`,
    `refused`, the realignment `min(feasible)`) are an ORACLE: the model takes the layouts chosen
    before the size guard (`pre`) as an input and only checks the relation every oracle value
    must satisfy (`oracleOK`: per index it is the coarse choice, the refinement, or a layout one
    of the operands already has on that index).
-/
import DaskArrayModel.Py.Basic
namespace Dask.Unify
open Dask.Py

inductive Err | valueError | stopIteration | indexError | fuel
deriving DecidableEq, Repr

abbrev Layout := List Int

/-! ### spec vocabulary (kept minimal) -/

/-- boundary positions of a layout, including `0` and the total: `[0, c0, c0+c1, …]`. -/
def bnds : Layout → List Int
  | [] => [0]
  | x :: xs => 0 :: (bnds xs).map (x + ·)

/-- `max(c)` for a non-empty tuple of non-negative sizes (`max(())` raises in Python; chunk
tuples of arrays are never empty). -/
def imax : List Int → Int
  | [] => 0
  | x :: xs => max x (imax xs)

def iprod : List Int → Int
  | [] => 1
  | x :: xs => x * iprod xs

/-- `Splits f c`: layout `f` is obtained from layout `c` by only splitting blocks (never merging
across a boundary of `c`): read both left to right; the next piece `m` of `f` either completes
the current block of `c` (`full`) or is a proper non-negative part of it (`part`, the remainder
`x - m` stays current).  When `f` is used up only empty blocks may remain in `c` (`done`). -/
inductive Splits : Layout → Layout → Prop
  | done (c : Layout) : (∀ x ∈ c, x = 0) → Splits [] c
  | full (m : Int) (f c : Layout) : Splits f c → Splits (m :: f) (m :: c)
  | part (m x : Int) (f c : Layout) : 0 ≤ m → m < x → Splits f ((x - m) :: c) → Splits (m :: f) (x :: c)

/-! ### Python sets of layouts -/

/-- `set(...)`: keep one copy of every layout. -/
def dedupe : List Layout → List Layout
  | [] => []
  | x :: xs => if x ∈ xs then dedupe xs else x :: dedupe xs

/-- `any(blockdims)`: some tuple is non-empty. -/
def anyTruthy (bd : List Layout) : Bool := bd.any (fun d => !d.isEmpty)

/-- `{d for d in blockdims if len(d) > 1}` -/
def nonTrivial (bd : List Layout) : List Layout := dedupe (bd.filter (fun d => decide (d.length > 1)))

/-- `max(blockdims, key=first)` when every element has length ≤ 1.  `first(())` raises
`StopIteration` (max calls the key on every element).  ORDER: `max` returns the first maximal
element in iteration order; elements of length 1 with equal `first` are equal tuples, so the
value does not depend on the order. -/
def maxByFirst (bd : List Layout) : Except Err Layout :=
  if bd.any (fun d => d.isEmpty) then .error .stopIteration else
  match bd with
  | [] => .error .valueError
  | d :: ds => .ok (ds.foldl (fun best e => if e.headD 0 > best.headD 0 then e else best) d)

/-! ### `common_blockdim` -/

/-- `min(c[-1] for c in rchunks)` (the Python lists are reversed, so `c[-1]` is the head of the
model's list); `none` = `IndexError` on an exhausted list (or `ValueError` of `min(())`). -/
def minHead : List Layout → Option Int
  | [] => none
  | [c] => c.head?
  | c :: cs =>
    match c.head?, minHead cs with
    | some a, some b => some (min a b)
    | _, _ => none

/-- `c[-1] -= m; if c[-1] == 0: c.pop()` -/
def cbStep (m : Int) : Layout → Layout
  | [] => []
  | x :: xs => if x - m = 0 then xs else (x - m) :: xs

/-- the `while i < total` loop.  `out.append(m)` becomes `m :: rest`. -/
def cbLoop : Nat → Int → Int → List Layout → Except Err (List Int)
  | 0, total, i, _ => if i < total then .error .fuel else .ok []
  | fuel + 1, total, i, rch =>
    if i < total then
      match minHead rch with
      | none => .error .indexError
      | some m =>
        match cbLoop fuel total (i + m) (rch.map (cbStep m)) with
        | .ok rest => .ok (m :: rest)
        | .error e => .error e
    else .ok []

/-- total number of entries: every iteration pops at least the entry that attains the minimum,
so this many iterations (+1) suffice. -/
def fuelFor (rch : List Layout) : Nat := (rch.map List.length).sum + 1

/-- `common_blockdim(blockdims)` for known sizes.
ORDER: `non_trivial_dims` is a set.  `first(non_trivial_dims)` is only used when the set has one
element or for its sum (all sums are equal at that point).  The loop treats `rchunks`
symmetrically (`min` over all lists, the same update applied to every list), so the order of
`rchunks` is irrelevant. -/
def commonBlockdim (bd : List Layout) : Except Err Layout :=
  if !anyTruthy bd then .ok [] else
  let nt := nonTrivial bd
  match nt with
  | [d] => .ok d
  | [] => maxByFirst bd
  | d :: _ =>
    if !(nt.all (fun e => decide (isum e = isum d))) then .error .valueError else
    cbLoop (fuelFor nt) (isum d) 0 nt

/-! ### `coarse_blockdim` -/

/-- `np.cumsum(c[:-1])`: interior boundaries (for positive sizes). -/
def interior (c : Layout) : List Int := cumsum c.dropLast

/-- `min(non_trivial_dims, key=len)`: first element of minimal length. -/
def minByLen (d : Layout) (ds : List Layout) : Layout :=
  ds.foldl (fun best e => if e.length < best.length then e else best) d

/-- the `for chunks in non_trivial_dims` boundary-subset test. -/
def alignsAll (coarsest : Layout) (nt : List Layout) : Bool :=
  nt.all (fun ch => decide (ch = coarsest) || (interior coarsest).all (fun b => decide (b ∈ interior ch)))

/-- `coarse_blockdim(blockdims)` for known sizes.
ORDER: `min(non_trivial_dims, key=len)` returns the first minimal-length layout in set iteration
order.  For POSITIVE sizes the result does not depend on it: if two different layouts `A ≠ B`
both have minimal length, neither can pass the subset test (`interior A ⊆ interior B` with
`|interior A| = len A - 1 = len B - 1 = |interior B|` forces the strictly increasing lists to be
equal, hence `A = B` as they have the same total), so whichever is picked the function falls
through to `common_blockdim`, which is order independent.  With zero-length chunks the tie can
be observable (`{(0,1,0,1),(0,0,1,1)}` both pass) -- the two candidate answers then have the
same boundary set and differ only in where the empty blocks sit; theorems about
`coarseBlockdim` assume positive sizes and the harness permutes inputs to confirm. -/
def coarseBlockdim (bd : List Layout) : Except Err Layout :=
  if !anyTruthy bd then .ok [] else
  let nt := nonTrivial bd
  match nt with
  | [] => maxByFirst bd
  | [d] => .ok d
  | d :: ds =>
    if !(nt.all (fun e => decide (isum e = isum d))) then .error .valueError else
    let coarsest := minByLen d ds
    if alignsAll coarsest nt then .ok coarsest else commonBlockdim bd

/-! ### per-index model of `unify_chunks_expr` -/

/-- one axis of an operand: its index label and its own chunks on that axis -/
structure Ax where
  label : Nat
  chunks : Layout
deriving DecidableEq, Repr

/-- one array operand: `dtype.itemsize` and its axes (scalars, literals, `ArrayBlockwiseDep`
are skipped by the Python and not part of the model) -/
structure Opd where
  itemsize : Int
  axes : List Ax
deriving DecidableEq, Repr

/-- `a.shape[n]` -/
def Ax.shape (ax : Ax) : Int := isum ax.chunks

/-- `a.shape[n] > 1`: the axis takes part in the block-size products (not a broadcast axis) -/
def Ax.live (ax : Ax) : Bool := decide (ax.shape > 1)

/-- the set `g[j]` of `broadcast_dimensions`: every layout some operand has on index `j` -/
def layoutsAt (ops : List Opd) (j : Nat) : List Layout :=
  ops.flatMap (fun a => (a.axes.filter (fun ax => decide (ax.label = j))).map (·.chunks))

/-- `g2[j] = v - {(1,)} if len(v) > 1 else v` -/
def g2 (v : List Layout) : List Layout :=
  let d := dedupe v
  if d.length > 1 then d.filter (fun c => decide (c ≠ [1])) else d

inductive Policy | auto | coarse | refine
deriving DecidableEq, Repr

/-- `itemsize * prod(max(lay[j]) for n, j in enumerate(i) if a.shape[n] > 1)` -/
def targetBytes (lay : Nat → Layout) (a : Opd) : Int :=
  a.itemsize * iprod ((a.axes.filter Ax.live).map (fun ax => imax (lay ax.label)))

/-- `itemsize * prod(max(c) for n, c in enumerate(a.chunks) if a.shape[n] > 1)` -/
def currentBytes (a : Opd) : Int :=
  a.itemsize * iprod ((a.axes.filter Ax.live).map (fun ax => imax ax.chunks))

/-- the `for a, i in arginds` loop computing `worst` (running variable `worst`) -/
def worstLoop (lay : Nat → Layout) : List Opd → Int → Int
  | [], worst => worst
  | a :: rest, worst =>
    let target := targetBytes lay a
    let current := currentBytes a
    worstLoop lay rest (if target > current then max worst target else worst)

def worstOf (lay : Nat → Layout) (ops : List Opd) : Int := worstLoop lay ops 0

/-- `j ∈ coarsened`: `len(fine[j]) > len(chunkss[j])` -/
def coarsened (chunkss fine : Nat → Layout) (j : Nat) : Bool :=
  decide ((fine j).length > (chunkss j).length)

/-- the size guard of `unify_chunks_expr` (only reached when `consolidate is coarse_blockdim`):
`limit = none` is `None`; `some 0` is falsy as well. -/
def sizeGuard (limit : Option Int) (chunkss fine : Nat → Layout) (ops : List Opd) : Nat → Layout :=
  fun j =>
    match limit with
    | none => chunkss j
    | some lim =>
      if lim ≠ 0 ∧ worstOf chunkss ops > lim ∧ coarsened chunkss fine j = true then fine j else chunkss j

/-- target chunks of one operand axis:
`chunkss[j] if a.shape[n] > 1 or a.shape[n] == 0 else (a.shape[n],)` -/
def opdAxisChunks (final : Nat → Layout) (ax : Ax) : Layout :=
  if ax.shape > 1 ∨ ax.shape = 0 then final ax.label else [ax.shape]

/-- table lookup with default `[]` -/
def look (t : List Layout) (j : Nat) : Layout := t.getD j []

/-- relation every oracle value (layouts chosen by the cost-aware "auto" pass) satisfies -/
def oracleOK (pre coarse fine : Layout) (cands : List Layout) : Bool :=
  decide (pre = coarse) || decide (pre = fine) || decide (pre ∈ cands)

structure UnifyResult where
  final : List Layout
  worst : Int
  coarsenedSet : List Nat
  oracleOk : Bool
deriving Repr

/-- `[f 0, …, f (n-1)]`, failing with the error of the first failing index
(`toolz.valmap(consolidate, g2)`). -/
def tabE (f : Nat → Except Err Layout) : Nat → Except Err (List Layout)
  | 0 => .ok []
  | n + 1 =>
    match tabE f n with
    | .error e => .error e
    | .ok t =>
      match f n with
      | .error e => .error e
      | .ok v => .ok (t ++ [v])

/-- per-index model of `unify_chunks_expr` for labels `0 … nlabels-1` (every label used by some
operand).  `pre` is the ORACLE (only read under `Policy.auto`): the layouts in force after the
cost-aware pass and before the size guard. -/
def unifyModel (policy : Policy) (limit : Option Int) (pre : List Layout) (ops : List Opd)
    (nlabels : Nat) : Except Err UnifyResult :=
  let js := List.range nlabels
  match tabE (fun j => commonBlockdim (g2 (layoutsAt ops j))) nlabels with
  | .error e => .error e
  | .ok fineT =>
    if policy = .refine then .ok ⟨fineT, 0, [], true⟩ else
    match tabE (fun j => coarseBlockdim (g2 (layoutsAt ops j))) nlabels with
    | .error e => .error e
    | .ok coarseT =>
      let chosen : List Layout := if policy = .coarse then coarseT else pre
      let ok := js.all (fun j => oracleOK (look chosen j) (look coarseT j) (look fineT j) (g2 (layoutsAt ops j)))
      let fin := sizeGuard limit (look chosen) (look fineT) ops
      let guardOn : Bool := match limit with
        | none => false
        | some lim => decide (lim ≠ 0 ∧ worstOf (look chosen) ops > lim)
      .ok ⟨js.map fin, worstOf (look chosen) ops,
           if guardOn then js.filter (coarsened (look chosen) (look fineT)) else [], ok⟩

end Dask.Unify
