/-
L3: the expression mini-language `Expr`, its NumPy meaning `den`, its metadata
`shape` / `chunks` (no data environment: metadata cannot depend on data), and the value
`blockDen env e bid` that the task for output block `bid` computes, DEFINED BY THE OP'S
CHUNKED ALGORITHM over the children's blocks.  Core Lean only.

Python (dask_array)                                  Lean
---------------------------------------------------  -----------------------------------------
`da.from_array(data, chunks)` / `FromArray`          `Expr.src id shape chunks`   (data = `env.src id`)
`Elemwise` unary ufunc                               `Expr.map f e`               (`env.un f`)
`Elemwise` binary ufunc, same shape & chunks         `Expr.zip f a b`             (`env.bin f`)
`x[idx]` basic index (`normalize_index` →            `Expr.slice e idx`  (`idx` = RAW user index, one
   `SliceSlicesIntegers(x, normalized)`)                `Ix` per axis; normalisation happens inside
                                                        `chunks` / `blockDen` as in the real pipeline)
`Transpose(x, axes)`                                 `Expr.transpose e perm`
one `_compute_rechunk` step of `TasksRechunk`        `Expr.rechunk e layout`  (a multi-step plan is a
                                                        nest of `rechunk`s, each covered by the theorem)
`Concatenate([a, b], axis)`                          `Expr.concat a b axis`   (n-ary = `Expr.concatN`,
                                                        left-nested; same `.chunks`, same blocks)

`ExpandDims(x, (axis,))`                             `Expr.expandDims e axis`   (one axis; nest for more)
`Squeeze(x, (axis,))`                                `Expr.squeeze e axis`      (one axis, chunks `(1,)`)
`BroadcastTo(x, shape, chunks)`                      `Expr.broadcastTo e shape chunks`
`reduction(x, chunk, aggregate, axis=(axis,),        `Expr.reduce r e axis splitEvery`  (ONE axis, keepdims=True,
   keepdims=True, split_every=k)` →                     exact monoid `r` ∈ sum | max | min over Int; several axes =
   `_tree_reduce` / `PartialReduce`                     nested single-axis reductions (`Expr.reduceN`, same values,
                                                        same `.chunks`, same output blocks; the real simultaneous
                                                        n-d grouping is modelled in Model/Reduce.lean / C18);
                                                        keepdims=False = `squeeze` of the result
`flip(x, axis)` (= `x[..., ::-1, ...]`)              `Expr.flip e axis`  (derived: a `slice`)
`cumsum(x, axis)` (`CumReduction`, sequential)       `Expr.cumsum e axis`
`x.map_blocks(func)` (shape-preserving `func`)       `Expr.mapBlocks f e`  (`env.blk f`; meaning is per block)

`.chunks` of each node                               `chunks`
  `SliceSlicesIntegers.chunks` = `new_blockdim`        `sliceChunks` (per sliced axis)
  `Transpose.chunks`                                   permuted
  `Concatenate.chunks`                                 operand chunks appended on `axis`
`_layer()` of each node (one task per output block)  `blockDen`
  `SliceSlicesIntegers._layer`: per axis               `sliceAxis`: output block `j` on an axis reads
     `sorted(_slice_1d(...).items())`, reversed           input block `key_j` through local slice
     numbering for negative steps, `getitem`               `slc_j` (`orderedPlan`); an integer selects
                                                           one block and an offset (`slice1dInt`)
  `_compute_rechunk`: `concatenate3` of the            `rechunkAxis`: the new block is assembled from
     `old_to_new` pieces (cartesian product)              the crosswalk pieces (`oldToNew1d` per axis)
  `Transpose._task`: `_input_block_id`, `np.transpose` block id un-permuted, block transposed
  `Concatenate._layer`: `Alias` to one operand's       the block belongs to one operand, id shifted
     block with shifted id
  `Elemwise`: same block id of every operand           pointwise on the same block id

Notes for the rewrite-rule layer (C02 / C08) built on this file:
* `den env e = ⟨shape e, denGet env e⟩` (definitional); soundness of a rule `e ↦ e'` is
  `Arr.Equiv (den env e') (den env e)`; by `Lemmas/ExprCorrect.lean` (`compute_eq_den`) this
  transfers to the computed blocks of ANY well-formed `e'`, so a rule only has to preserve `den`
  (and `WF`); `chunks` may change (C03 is about each expression's own `.chunks`).
* `Expr` derives `DecidableEq`; functions are referenced by number (`env.un`, `env.bin`, `env.blk`),
  theorems quantify over every `env` (`EnvOK env` constrains `env.blk` only).
* `mapBlocks`' meaning is per block: a slice may be pushed through it only for block-local
  functions that commute with the slice (the real `Blockwise._accept_slice` has no such guard).

All ops whose block is "read, per axis, some positions of some child block" share ONE
n-d construction, `gatherBlock`, driven by a per-axis description `AxSpec`
(`AxisMap`: out block `j`, local `i` ↦ child block, child local position).  The n-d
lifting theorem (`Lemmas/ExprGather.lean`, `axisLift`) is proved once for it.
-/
import DaskArrayModel.Model.Arr
import DaskArrayModel.Model.SliceSpec
import DaskArrayModel.Model.RechunkSpec
import DaskArrayModel.Model.Reduce
namespace Dask.ND
open Dask.Py Dask.Py.PySlice Dask.Slicing Dask.Rechunk Dask.Reduce

/-- chunk sizes as Python ints (the L1 kernels work on `List Int`) -/
def toI (l : List Nat) : List Int := l.map Int.ofNat

/-! ### per-axis block maps and the n-d gather construction -/

/-- What an output axis reads from a child axis, block by block.
`len j`     length of output block `j` along the axis, as produced by the task;
`blk j i`   child block read by local position `i` of output block `j`;
`pos j i`   local position inside that child block;
`gmap g`    (spec side) global child position read by global output position `g`. -/
structure AxisMap where
  len : Nat → Nat
  blk : Nat → Nat → Nat
  pos : Nat → Nat → Nat
  gmap : Nat → Nat

/-- One entry per CHILD axis (`keep`, `fix`) or per NEW output axis (`new`), in axis order. -/
inductive AxSpec
  /-- child axis ↔ next output axis -/
  | keep (m : AxisMap)
  /-- child axis indexed by a constant (integer index): child block `b`, local position `p`,
      global position `g`; no output axis -/
  | fix (b p g : Nat)
  /-- output axis without child axis (`expand_dims`, broadcasting); block `j` has length `len j` -/
  | new (len : Nat → Nat)

/-- shape of output block `bid` as produced by the tasks -/
def gShape : List AxSpec → List Nat → List Nat
  | [], _ => []
  | .fix _ _ _ :: r, bid => gShape r bid
  | .keep m :: r, j :: bid => m.len j :: gShape r bid
  | .new len :: r, j :: bid => len j :: gShape r bid
  | .keep _ :: _, [] => []
  | .new _ :: _, [] => []

/-- child block index read by local index `i` of output block `bid` -/
def gBid : List AxSpec → List Nat → List Nat → List Nat
  | [], _, _ => []
  | .fix b _ _ :: r, bid, i => b :: gBid r bid i
  | .keep m :: r, j :: bid, x :: i => m.blk j x :: gBid r bid i
  | .new _ :: r, _ :: bid, _ :: i => gBid r bid i
  | .keep _ :: _, _, _ => []
  | .new _ :: _, _, _ => []

/-- child local index read by local index `i` of output block `bid` -/
def gPos : List AxSpec → List Nat → List Nat → List Nat
  | [], _, _ => []
  | .fix _ p _ :: r, bid, i => p :: gPos r bid i
  | .keep m :: r, j :: bid, x :: i => m.pos j x :: gPos r bid i
  | .new _ :: r, _ :: bid, _ :: i => gPos r bid i
  | .keep _ :: _, _, _ => []
  | .new _ :: _, _, _ => []

/-- (spec side) child global index read by output global index `g` -/
def gGlob : List AxSpec → List Nat → List Nat
  | [], _ => []
  | .fix _ _ g0 :: r, g => g0 :: gGlob r g
  | .keep m :: r, x :: g => m.gmap x :: gGlob r g
  | .new _ :: r, _ :: g => gGlob r g
  | .keep _ :: _, [] => []
  | .new _ :: _, [] => []

/-- the block computed by a per-axis gather over the child's blocks -/
def gatherBlock (specs : List AxSpec) (child : List Nat → Arr Int) (bid : List Nat) : Arr Int :=
  ⟨gShape specs bid, fun i => (child (gBid specs bid i)).get (gPos specs bid i)⟩

/-! ### basic indexing -/

/-- one index item per axis: integer (axis dropped) or slice (any sign / step) -/
inductive Ix
  | int (i : Int)
  | slc (s : PySlice)
deriving DecidableEq, Repr

/-- NumPy shape of `x[idx]` -/
def sliceShape : List Nat → List Ix → List Nat
  | n :: ns, .slc s :: r => (sel s n).length :: sliceShape ns r
  | _ :: ns, .int _ :: r => sliceShape ns r
  | _, _ => []

/-- NumPy meaning of `x[idx]`: the input index read by output index `i` -/
def sliceIdx : List Nat → List Ix → List Nat → List Nat
  | n :: ns, .int k :: r, i => (posifyInt n k).toNat :: sliceIdx ns r i
  | n :: ns, .slc s :: r, x :: i => ((sel s n).getD x 0).toNat :: sliceIdx ns r i
  | _, _, _ => []

def dfltEntry : Nat × PySlice := (0, ⟨some 0, some 0, some 1⟩)

/-- `sorted(_slice_1d(dim, chunks, normalize_slice(s, dim)).items())`, in OUTPUT-block order
(reversed when the normalized step is negative), as `SliceSlicesIntegers._layer` numbers them. -/
def slicePlan (n : Nat) (cs : List Nat) (s : PySlice) : List (Nat × PySlice) :=
  let idx := normalizeSlice s n
  orderedPlan idx.stp (slice1d n (toI cs) idx)

/-- a sliced axis: output block `j` = `getitem(block key_j, slc_j)` -/
def sliceAxis (n : Nat) (cs : List Nat) (s : PySlice) : AxisMap :=
  let plan := slicePlan n cs s
  { len := fun j =>
      let p := plan.getD j dfltEntry
      (sel p.2 ((toI cs).getD p.1 0)).length
    blk := fun j _ => (plan.getD j dfltEntry).1
    pos := fun j i =>
      let p := plan.getD j dfltEntry
      ((sel p.2 ((toI cs).getD p.1 0)).getD i 0).toNat
    gmap := fun g => ((sel s n).getD g 0).toNat }

/-- an integer-indexed axis: `_slice_1d(dim, chunks, posify(k))` = `{block: offset}` -/
def intAxis (n : Nat) (cs : List Nat) (k : Int) : AxSpec :=
  let p := posifyInt n k
  let r := slice1dInt (toI cs) p
  .fix r.1 r.2.toNat p.toNat

def sliceSpecs : List Nat → Layout → List Ix → List AxSpec
  | n :: ns, cs :: l, .int k :: r => intAxis n cs k :: sliceSpecs ns l r
  | n :: ns, cs :: l, .slc s :: r => .keep (sliceAxis n cs s) :: sliceSpecs ns l r
  | _, _, _ => []

/-- `new_blockdim(dim, chunks, normalize_slice(s, dim))` -/
def sliceChunks1 (n : Nat) (cs : List Nat) (s : PySlice) : List Nat :=
  (newBlockdim n (toI cs) (normalizeSlice s n)).map Int.toNat

/-- `SliceSlicesIntegers.chunks` -/
def sliceChunks : List Nat → Layout → List Ix → Layout
  | _ :: ns, _ :: l, .int _ :: r => sliceChunks ns l r
  | n :: ns, cs :: l, .slc s :: r => sliceChunks1 n cs s :: sliceChunks ns l r
  | _, _, _ => []

/-! ### rechunk (one crosswalk step) -/

/-- total length of a list of crosswalk pieces -/
def piecesLen : List Piece → Nat
  | [] => 0
  | p :: ps => (p.e - p.s).toNat + piecesLen ps

/-- the piece (old block, position inside it) holding position `i` of the concatenated pieces -/
def locatePiece : List Piece → Nat → Nat × Nat
  | [], i => (0, i)
  | p :: ps, i =>
    if i < (p.e - p.s).toNat then (p.idx.toNat, p.s.toNat + i)
    else locatePiece ps (i - (p.e - p.s).toNat)

/-- one axis of `_compute_rechunk`: new block `j` = concatenation of `old_to_new[j]` pieces -/
def rechunkAxis (old new : List Nat) : AxisMap :=
  let cw := oldToNew1d (toI old) (toI new)
  { len := fun j => piecesLen (cw.getD j [])
    blk := fun j i => (locatePiece (cw.getD j []) i).1
    pos := fun j i => (locatePiece (cw.getD j []) i).2
    gmap := fun g => g }

def rechunkSpecs (old new : Layout) : List AxSpec :=
  List.zipWith (fun o n => AxSpec.keep (rechunkAxis o n)) old new

/-! ### identity / broadcast axes, `expand_dims`, `squeeze`, `broadcast_to` -/

/-- an axis passed through unchanged (chunks `cs`) -/
def idAxis (cs : List Nat) : AxisMap :=
  { len := fun j => cs.getD j 0, blk := fun j _ => j, pos := fun _ i => i, gmap := fun g => g }

/-- an axis with the single chunk `(1,)` broadcast to chunks `oc`: every output block reads
block 0, position 0 (`old_index = 0 if bd == (1,)`, `np.broadcast_to(block, chunk_shape)`) -/
def bcastAxis (oc : List Nat) : AxisMap :=
  { len := fun j => oc.getD j 0, blk := fun _ _ => 0, pos := fun _ _ => 0, gmap := fun _ => 0 }

def idSpecs (cl : Layout) : List AxSpec := cl.map (fun cs => AxSpec.keep (idAxis cs))

/-- `ExpandDims._layer`: same block id without the new axis, `np.expand_dims` -/
def expandSpecs : Layout → Nat → List AxSpec
  | cl, 0 => .new (fun _ => 1) :: idSpecs cl
  | cs :: cl, ax + 1 => .keep (idAxis cs) :: expandSpecs cl ax
  | [], _ + 1 => []

/-- `Squeeze._layer`: input block id has 0 on the squeezed axis, `np.squeeze` -/
def squeezeSpecs : Layout → Nat → List AxSpec
  | _ :: cl, 0 => .fix 0 0 0 :: idSpecs cl
  | cs :: cl, ax + 1 => .keep (idAxis cs) :: squeezeSpecs cl ax
  | [], _ => []

/-- `BroadcastTo._layer`: new leading axes; an old axis with chunks `(1,)` reads block 0 -/
def broadcastSpecs (cl ol : Layout) : List AxSpec :=
  let k := ol.length - cl.length
  (ol.take k).map (fun oc => AxSpec.new (fun j => oc.getD j 0)) ++
    List.zipWith (fun cc oc => if cc = [1] then AxSpec.keep (bcastAxis oc) else AxSpec.keep (idAxis cc))
      cl (ol.drop k)

/-- NumPy broadcasting index: a length-1 axis is read at 0 -/
def bcIdx (sh : List Nat) (g : List Nat) : List Nat :=
  List.zipWith (fun n x => if n = 1 then 0 else x) sh g

/-- chunks may be broadcast: equal, or the old axis is the single chunk `(1,)` -/
def bcOK : Layout → Layout → Bool
  | [], [] => true
  | cc :: cl, oc :: ol => (decide (cc = [1]) || decide (cc = oc)) && bcOK cl ol
  | _, _ => false

/-! ### reductions (one axis, keepdims) -/

/-- exact associative-commutative reductions over `Int` -/
inductive Red | sum | max | min
deriving DecidableEq, Repr

def Red.op : Red → Int → Int → Int
  | .sum => (· + ·)
  | .max => fun a b => Max.max a b
  | .min => fun a b => Min.min a b

/-- value on the empty list (`sum` only; `max`/`min` of nothing is refused by `WF`) -/
def Red.d : Red → Int := fun _ => 0

/-- reduce a list (`np.sum` / `np.max` / `np.min` of a 1-d array) -/
def Red.list (r : Red) (xs : List Int) : Int := fold1 r.op r.d xs

/-! ### transpose -/

/-- input multi-index (or block id) for output multi-index `x` under `axes = perm`:
`in[a] = x[perm.index(a)]` (`Transpose._input_block_id`) -/
def unperm (perm : List Nat) (x : List Nat) : List Nat :=
  (List.range perm.length).map (fun a => x.getD (perm.idxOf a) 0)

/-! ### the language -/

inductive Expr
  /-- `da.from_array(env.src id reshaped to shape, chunks)` -/
  | src (id : Nat) (shape : List Nat) (chunks : Layout)
  /-- unary elementwise function number `f` (`env.un f`) -/
  | map (f : Nat) (e : Expr)
  /-- binary elementwise function number `f` (`env.bin f`), same shape, same chunks -/
  | zip (f : Nat) (a b : Expr)
  /-- `e[idx]`, one item per axis of `e` -/
  | slice (e : Expr) (idx : List Ix)
  /-- `e.transpose(perm)` -/
  | transpose (e : Expr) (perm : List Nat)
  /-- `e.rechunk(layout)`, one `_compute_rechunk` step -/
  | rechunk (e : Expr) (layout : Layout)
  /-- `concatenate([a, b], axis)` -/
  | concat (a b : Expr) (axis : Nat)
  /-- `expand_dims(e, axis)` -/
  | expandDims (e : Expr) (axis : Nat)
  /-- `squeeze(e, axis)` on an axis whose chunks are `(1,)` -/
  | squeeze (e : Expr) (axis : Nat)
  /-- `broadcast_to(e, shape, chunks)` -/
  | broadcastTo (e : Expr) (shape : List Nat) (chunks : Layout)
  /-- `r(e, axis=axis, keepdims=True, split_every=splitEvery)`: tree reduction along one axis -/
  | reduce (r : Red) (e : Expr) (axis : Nat) (splitEvery : Nat)
  /-- `cumsum(e, axis)`, sequential method (`CumReduction`) -/
  | cumsum (e : Expr) (axis : Nat)
  /-- `e.map_blocks(func)` with a shape-preserving block function number `f` (`env.blk f`);
      its meaning depends on the chunking BY DEFINITION (`func` is applied to each block) -/
  | mapBlocks (f : Nat) (e : Expr)
deriving DecidableEq, Repr

/-- n-ary concatenate, left-nested (`es` non-empty) -/
def Expr.concatN : List Expr → Nat → Option Expr
  | [], _ => none
  | e :: es, ax => some (es.foldl (fun acc x => Expr.concat acc x ax) e)

/-- full slice -/
def colonIx : Ix := .slc ⟨none, none, none⟩

/-- `flip(e, axis)` is the slice `e[:, …, ::-1, …, :]` (as in `dask_array.flip`) -/
def Expr.flip (e : Expr) (rank axis : Nat) : Expr :=
  .slice e ((List.range rank).map (fun a => if a = axis then Ix.slc ⟨none, none, some (-1)⟩ else colonIx))

/-- reduction over several axes = nested single-axis reductions (keepdims) -/
def Expr.reduceN (r : Red) (e : Expr) (axes : List Nat) (splitEvery : Nat) : Expr :=
  axes.foldl (fun acc ax => Expr.reduce r acc ax splitEvery) e

/-- squeeze several axes (given in any order): highest first -/
def Expr.squeezeN (e : Expr) (axesDesc : List Nat) : Expr :=
  axesDesc.foldl (fun acc ax => Expr.squeeze acc ax) e

/-- NumPy shape -/
def shape : Expr → List Nat
  | .src _ sh _ => sh
  | .map _ e => shape e
  | .zip _ a _ => shape a
  | .slice e idx => sliceShape (shape e) idx
  | .transpose e perm => perm.map (fun a => (shape e).getD a 0)
  | .rechunk e _ => shape e
  | .concat a b ax => (shape a).set ax ((shape a).getD ax 0 + (shape b).getD ax 0)
  | .expandDims e ax => (shape e).insertIdx ax 1
  | .squeeze e ax => (shape e).eraseIdx ax
  | .broadcastTo _ sh _ => sh
  | .reduce _ e ax _ => (shape e).set ax 1
  | .cumsum e _ => shape e
  | .mapBlocks _ e => shape e

/-- `.chunks` -/
def chunks : Expr → Layout
  | .src _ _ ch => ch
  | .map _ e => chunks e
  | .zip _ a _ => chunks a
  | .slice e idx => sliceChunks (shape e) (chunks e) idx
  | .transpose e perm => perm.map (fun a => (chunks e).getD a [])
  | .rechunk _ l => l
  | .concat a b ax => (chunks a).set ax ((chunks a).getD ax [] ++ (chunks b).getD ax [])
  | .expandDims e ax => (chunks e).insertIdx ax [1]
  | .squeeze e ax => (chunks e).eraseIdx ax
  | .broadcastTo _ _ l => l
  | .reduce _ e ax _ => (chunks e).set ax [1]
  | .cumsum e _ => chunks e
  | .mapBlocks _ e => chunks e

/-- index accepted by `normalize_index`: one item per axis; integers in `[-n, n)`, steps ≠ 0 -/
def wfIx : List Nat → List Ix → Bool
  | [], [] => true
  | n :: ns, .int k :: r => decide (-(n : Int) ≤ k ∧ k < (n : Int)) && wfIx ns r
  | _ :: ns, .slc s :: r => decide (s.stp ≠ 0) && wfIx ns r
  | _, _ => false

/-- chunks sum to the shape on every axis; at least one block per axis -/
def wfLayout (sh : List Nat) (l : Layout) : Bool :=
  decide (l.map List.sum = sh) && l.all (fun cs => !cs.isEmpty)

/-- `perm` is a permutation of `range n` -/
def isPerm (perm : List Nat) (n : Nat) : Bool :=
  decide (perm.length = n) && perm.all (fun a => decide (a < n)) &&
    (List.range n).all (fun a => perm.contains a) && decide perm.Nodup

/-- well-formed = what the real API accepts (explicit rechunks instead of implicit chunk unification) -/
def wf : Expr → Bool
  | .src _ sh ch => wfLayout sh ch
  | .map _ e => wf e
  | .zip _ a b => wf a && wf b && decide (shape a = shape b) && decide (chunks a = chunks b)
  | .slice e idx => wf e && wfIx (shape e) idx
  | .transpose e perm => wf e && isPerm perm (shape e).length
  | .rechunk e l => wf e && wfLayout (shape e) l
  | .concat a b ax =>
    wf a && wf b && decide (ax < (shape a).length) &&
      decide ((shape a).set ax 0 = (shape b).set ax 0) &&
      decide ((chunks a).set ax [] = (chunks b).set ax [])
  | .expandDims e ax => wf e && decide (ax ≤ (shape e).length)
  | .squeeze e ax => wf e && decide (ax < (shape e).length) && decide ((chunks e).getD ax [] = [1])
  | .broadcastTo e sh l =>
    wf e && wfLayout sh l && decide ((shape e).length ≤ sh.length) &&
      bcOK (chunks e) (l.drop (sh.length - (shape e).length))
  | .reduce r e ax k =>
    -- `max` / `min`: no zero-size block at all (`chunk_max` "ignores size 0 arrays" and the
    -- aggregate then raises for some layouts that NumPy accepts; the theorem only needs
    -- positive chunks on the reduced axis)
    wf e && decide (ax < (shape e).length) && decide (2 ≤ k) &&
      (decide (r = .sum) || (chunks e).all (fun cs => cs.all (fun c => decide (0 < c))))
  | .cumsum e ax => wf e && decide (ax < (shape e).length)
  | .mapBlocks _ e => wf e

def WF (e : Expr) : Prop := wf e = true

instance (e : Expr) : Decidable (WF e) := by unfold WF; infer_instance

/-- data and function environment: sources, unary and binary elementwise functions and
block functions (for `map_blocks`) by number -/
structure Env where
  src : Nat → Arr Int
  un : Nat → Int → Int
  bin : Nat → Int → Int → Int
  blk : Nat → Arr Int → Arr Int := fun _ a => a

/-- the block functions are functions of the block's VALUE (shape and in-bounds elements only)
and keep the shape -/
def EnvOK (env : Env) : Prop :=
  ∀ (f : Nat) (a b : Arr Int), Arr.Equiv a b →
    Arr.Equiv (env.blk f a) (env.blk f b) ∧ (env.blk f a).shape = a.shape

/-- element function of the NumPy meaning -/
def denGet (env : Env) : Expr → List Nat → Int
  | .src id _ _ => (env.src id).get
  | .map f e => fun i => env.un f (denGet env e i)
  | .zip f a b => fun i => env.bin f (denGet env a i) (denGet env b i)
  | .slice e idx => fun i => denGet env e (sliceIdx (shape e) idx i)
  | .transpose e perm => fun i => denGet env e (unperm perm i)
  | .rechunk e _ => denGet env e
  | .concat a b ax => fun i =>
    if i.getD ax 0 < (shape a).getD ax 0 then denGet env a i
    else denGet env b (i.set ax (i.getD ax 0 - (shape a).getD ax 0))
  | .expandDims e ax => fun i => denGet env e (i.eraseIdx ax)
  | .squeeze e ax => fun i => denGet env e (i.insertIdx ax 0)
  | .broadcastTo e sh _ => fun i => denGet env e (bcIdx (shape e) (i.drop (sh.length - (shape e).length)))
  | .reduce r e ax _ => fun i =>
    r.list ((List.range ((shape e).getD ax 0)).map (fun t => denGet env e (i.set ax t)))
  | .cumsum e ax => fun i =>
    Red.sum.list ((List.range (i.getD ax 0 + 1)).map (fun t => denGet env e (i.set ax t)))
  | .mapBlocks f e => fun i =>
    -- `func` applied to the block of `e` that holds `i`
    (env.blk f (restrict ⟨shape e, denGet env e⟩ (extent (chunks e) (bidOf (chunks e) i)))).get
      (localOf (chunks e) i)

/-- the NumPy meaning of an expression -/
def den (env : Env) (e : Expr) : Arr Int := ⟨shape e, denGet env e⟩

/-- the value the task for output block `bid` computes -/
def blockDen (env : Env) : Expr → List Nat → Arr Int
  | .src id sh ch, bid => restrict ⟨sh, (env.src id).get⟩ (extent ch bid)
  | .map f e, bid =>
    let b := blockDen env e bid
    ⟨b.shape, fun i => env.un f (b.get i)⟩
  | .zip f a b, bid =>
    let x := blockDen env a bid
    let y := blockDen env b bid
    ⟨x.shape, fun i => env.bin f (x.get i) (y.get i)⟩
  | .slice e idx, bid =>
    gatherBlock (sliceSpecs (shape e) (chunks e) idx) (fun b => blockDen env e b) bid
  | .transpose e perm, bid =>
    let b := blockDen env e (unperm perm bid)
    ⟨perm.map (fun a => b.shape.getD a 0), fun i => b.get (unperm perm i)⟩
  | .rechunk e l, bid =>
    gatherBlock (rechunkSpecs (chunks e) l) (fun b => blockDen env e b) bid
  | .concat a b ax, bid =>
    let na := ((chunks a).getD ax []).length
    if bid.getD ax 0 < na then blockDen env a bid
    else blockDen env b (bid.set ax (bid.getD ax 0 - na))
  | .expandDims e ax, bid =>
    gatherBlock (expandSpecs (chunks e) ax) (fun b => blockDen env e b) bid
  | .squeeze e ax, bid =>
    gatherBlock (squeezeSpecs (chunks e) ax) (fun b => blockDen env e b) bid
  | .broadcastTo e _ l, bid =>
    gatherBlock (broadcastSpecs (chunks e) l) (fun b => blockDen env e b) bid
  | .reduce r e ax k, bid =>
    -- chunk step: every input block along the axis is reduced (keepdims) to a partial;
    -- `PartialReduce` layers: groups of `k` partials (`partition_all`) are combined,
    -- `depth - 1` times, then aggregated; all of it pointwise in the other axes.
    let cs := (chunks e).getD ax []
    let nb := cs.length
    ⟨(blockDen env e (bid.set ax 0)).shape.set ax 1, fun i =>
      let partialOf (j : Nat) : Int :=
        r.list ((List.range (cs.getD j 0)).map (fun t => (blockDen env e (bid.set ax j)).get (i.set ax t)))
      (treeReduce k (depthOf nb k) r.list r.list ((List.range nb).map partialOf)).headD r.d⟩
  | .cumsum e ax, bid =>
    -- `CumReduction._layer`: per-block `np.cumsum`, plus `extra` = the running total of all
    -- previous blocks along the axis (their last hyperplanes, identity for empty blocks)
    let cs := (chunks e).getD ax []
    let b := blockDen env e bid
    ⟨b.shape, fun i =>
      let tailOf (j : Nat) : Int :=
        Red.sum.list ((List.range (cs.getD j 0)).map (fun t => (blockDen env e (bid.set ax j)).get (i.set ax t)))
      Red.sum.list ((List.range (bid.getD ax 0)).map tailOf)
        + Red.sum.list ((List.range (i.getD ax 0 + 1)).map (fun t => b.get (i.set ax t)))⟩
  | .mapBlocks f e, bid => env.blk f (blockDen env e bid)

/-- what `compute()` returns: the assembled block grid -/
def compute (env : Env) (e : Expr) : Arr Int := assemble (chunks e) (fun bid => blockDen env e bid)

end Dask.ND
