/-
L1 model of chunk normalisation, `dask_array/_core_utils.py`:
`blockdims_from_blockshape`, `_convert_int_chunk_to_tuple`, `round_to`, `auto_chunks`,
`normalize_chunks`.  Core Lean only (the driver links natively).  Tied to the implementation by
harness/props/C16.py (families `ck.*`).

WHAT IS MODELLED (integer logic, line by line, same branches / same order of raised errors):
* `blockdim d bd`            one axis of `blockdims_from_blockshape` (incl. `d = 0 ↦ (0,)`, `bd = 0 ↦
                             ZeroDivisionError`, negative `bd` with Python `//`, `%`, `(x,)*negative = ()`).
* `roundTo c s`              `round_to` on ints; `roundToF cf exact s` `round_to` on a non-negative FLOAT `c`
                             given only `cf = floor c` and `exact = (c == floor c)` (all the code needs).
* `normalizeChunks`          (= `prepare` → `checkBytes` → `resolveAuto` → `finalize`) `normalize_chunks` after the presentation layer (list→tuple, scalar→replicated,
                             dict→tuple with `None` for missing axes, ndarray→list, byte strings parsed by
                             `dask.utils.parse_bytes`): the all-zero-shape default, the rank-1 "missing outer
                             tuple" clean-up, the rank check, `-1`/`None` ↦ axis length, the byte-string / `limit`
                             consistency check, `auto_chunks`, `_convert_int_chunk_to_tuple`, the empty-tuple check,
                             the negative-size check (fix 9ea755b), the `allints` fast path and the "chunks do not add up to shape" check.
* `autoNoPrev`               `auto_chunks` WITHOUT `previous_chunks`: the recursion "auto axes shorter than the
                             ideal size take the whole axis, recompute", then `round_to(size, shape[i])`.
                             ORACLE: the float `size = (limit/itemsize/largest_block) ** (1/len(autos))` is NOT
                             modelled; each recursion level consumes one oracle entry `(isize, exact)` =
                             `(floor size, size == floor size)`.  The recursion is structural on the oracle list
                             (an exhausted list is the distinguished error `oracleExhausted`; `#autos + 1` entries
                             always suffice, since every level removes at least one auto axis).
* `mergePrev`, `idealAxis`   the two integer kernels of the `previous_chunks` branch: the greedy merge of
                             previous chunks up to `proposed` (given `floor proposed`) and the mode-based
                             `ideal_shape` entry.
WHAT IS LEFT TO THE SEARCH (harness/props/C16.py, brute-force validator on the real `normalize_chunks`):
* the float root itself (the oracle relation `isize^k * largest_block * itemsize ≤ limit` is checked at run
  time on every recovered oracle value), `parse_bytes`, the presentation layer, NaN (unknown) sizes,
  `dtype=None` / object dtype / `itemsize == 0` refusals, rank-0 shapes with `auto`;
* the `while multiplier_remaining` loop of the `previous_chunks` branch (np.median, the float multiplier,
  `**(1/len(autos))`, the tolerance comparison and the float fix-point test `multiplier != last_multiplier`
  are float state, not choices): only its integer kernels above are modelled; its outputs are validated
  end to end (well-formedness and the tolerance-widened byte bound).

Conventions: Python `int` = `Int`; tuples = `List Int`; raised exceptions = `Except Err`.
-/
import DaskArrayModel.Py.Basic
namespace Dask.Chunks
open Dask.Py

inductive Err | valueError | zeroDivisionError | oracleExhausted
deriving DecidableEq, Repr

/-- One axis of a chunk specification after the presentation layer. -/
inductive Spec
  | int (c : Int)            -- a Python int (uniform block size, or -1)
  | none                     -- `None`
  | tuple (l : List Int)     -- explicit block sizes
  | auto                     -- the string "auto"
  | bytes (b : Int)          -- a byte string such as "1KiB", already parsed to `b`
deriving DecidableEq, Repr

/-- `((bd,) * (d // bd) + ((d % bd,) if d % bd else ()) if d else (0,))`. -/
def blockdim (d bd : Int) : Except Err (List Int) :=
  if d = 0 then .ok [0]
  else if bd = 0 then .error .zeroDivisionError
  else .ok (List.replicate (pyDiv d bd).toNat bd ++ (if pyMod d bd ≠ 0 then [pyMod d bd] else []))

/-- `round_to(c, s)` for Python ints. -/
def roundTo (c s : Int) : Except Err Int :=
  if c ≤ s then .ok (max 1 c)
  else if s = 0 then .error .zeroDivisionError
  else .ok (pyDiv c s * s)

/-- `c <= s` for a non-negative float `c` known through `cf = floor c`, `exact = (c == cf)`. -/
def leF (cf : Nat) (exact : Bool) (s : Int) : Bool :=
  decide ((cf : Int) < s) || (decide ((cf : Int) = s) && exact)

/-- `round_to(c, s)` for a non-negative float `c` and an int `s` (result as an int; Python returns the
float `c // s * s = floor(floor(c)/s)*s` in the second branch, which `blockdims_from_blockshape` accepts
through `is_integer` and converts with `int`). -/
def roundToF (cf : Nat) (exact : Bool) (s : Int) : Except Err Int :=
  if leF cf exact s then .ok (max 1 (cf : Int))
  else if s = 0 then .error .zeroDivisionError
  else .ok (pyDiv (cf : Int) s * s)

/-- Python `max(t)` of a non-empty tuple (`0` for the empty one; callers guard). -/
def imax : List Int → Int
  | [] => 0
  | [x] => x
  | x :: y :: r => max x (imax (y :: r))

def isAuto : Spec → Bool
  | .auto => true
  | _ => false

def numAutos (chunks : List Spec) : Nat := (chunks.filter isAuto).length

/-- `cs if isinstance(cs, Number) else max(cs)` for a non-auto entry (`none`/`bytes` do not occur here). -/
def specMax : Spec → Int
  | .int c => c
  | .tuple t => imax t
  | _ => 1

/-- `math.prod(cs if isinstance(cs, Number) else max(cs) for cs in chunks if cs != "auto")`. -/
def largestBlock : List Spec → Int
  | [] => 1
  | c :: cs => if isAuto c then largestBlock cs else specMax c * largestBlock cs

/-- `max(())` raises ValueError inside `largest_block`. -/
def hasEmptyTuple (chunks : List Spec) : Bool :=
  chunks.any (fun c => match c with | .tuple [] => true | _ => false)

/-- `shape[i] < size`. -/
def ltSize (s : Int) (isize : Nat) (exact : Bool) : Bool := !(leF isize exact s)

/-- is auto axis `i` "small" (`shape[i] < size`)? -/
def isSmall (isize : Nat) (exact : Bool) (c : Spec) (s : Int) : Bool := isAuto c && ltSize s isize exact

/-- `for i in small: chunks[i] = (shape[i],)`. -/
def fillSmall (isize : Nat) (exact : Bool) : List Spec → List Int → List Spec
  | c :: cs, s :: ss => (if isSmall isize exact c s then Spec.tuple [s] else c) :: fillSmall isize exact cs ss
  | cs, _ => cs

def anySmall (isize : Nat) (exact : Bool) : List Spec → List Int → Bool
  | c :: cs, s :: ss => isSmall isize exact c s || anySmall isize exact cs ss
  | _, _ => false

/-- `for i in autos: chunks[i] = round_to(size, shape[i])`. -/
def fillRound (isize : Nat) (exact : Bool) : List Spec → List Int → Except Err (List Spec)
  | c :: cs, s :: ss => do
    let c' ← (if isAuto c then (roundToF isize exact s).map Spec.int else pure c)
    let r ← fillRound isize exact cs ss
    pure (c' :: r)
  | cs, _ => pure cs

/-- `auto_chunks(chunks, shape, limit, dtype)` without `previous_chunks`; `orc` = per-level
`(floor size, size == floor size)`. -/
def autoNoPrev : List (Nat × Bool) → List Spec → List Int → Except Err (List Spec)
  | orc, chunks, shape =>
    if numAutos chunks = 0 then .ok chunks
    else if hasEmptyTuple chunks then .error .valueError
    else if largestBlock chunks = 0 then .error .zeroDivisionError
    else match orc with
      | [] => .error .oracleExhausted
      | (isize, exact) :: rest =>
        if anySmall isize exact chunks shape then
          autoNoPrev rest (fillSmall isize exact chunks shape) shape
        else fillRound isize exact chunks shape

/-! ### `normalize_chunks` -/

def isIntSpec : Spec → Bool
  | .int _ => true
  | _ => false

def isNumOrStr : Spec → Bool
  | .int _ => true
  | .auto => true
  | .bytes _ => true
  | _ => false

def isStr : Spec → Bool
  | .auto => true
  | .bytes _ => true
  | _ => false

def specInts : List Spec → List Int
  | [] => []
  | .int c :: r => c :: specInts r
  | _ :: r => specInts r

/-- `s if c == -1 or c is None else c`. -/
def fillFull (c : Spec) (s : Int) : Spec :=
  match c with
  | .int (-1) => .int s
  | .none => .int s
  | c => c

/-- the byte-string loop: every `bytes p` must be `≥ 0` and equal to the running `limit`. -/
def checkBytes : Option Int → List Spec → Except Err (Option Int)
  | lim, [] => .ok lim
  | lim, .bytes p :: r =>
    if p < 0 then .error .valueError
    else match lim with
      | Option.none => checkBytes (some p) r
      | some l => if p ≠ l then .error .valueError else checkBytes (some l) r
  | lim, _ :: r => checkBytes lim r

def bytesToAuto : Spec → Spec
  | .bytes _ => .auto
  | c => c

/-- one axis of `_convert_int_chunk_to_tuple` (ints go through `blockdims_from_blockshape`). -/
def convertAxis (c : Spec) (s : Int) : Except Err (List Int) :=
  match c with
  | .tuple t => .ok t
  | .int c => blockdim s c
  | _ => .error .valueError   -- not reachable after `fillFull` / auto resolution

def convertAll : List Spec → List Int → Except Err (List (List Int))
  | c :: cs, s :: ss => do
    let a ← convertAxis c s
    let r ← convertAll cs ss
    pure (a :: r)
  | _, _ => pure []

def sumsMatch : List (List Int) → List Int → Bool
  | c :: cs, s :: ss => decide (isum c = s) && sumsMatch cs ss
  | _, _ => true

/-- first stage of `normalize_chunks` (`shape ≠ ()`): all-zero-shape default, rank-1 clean-up of a missing
outer tuple, rank check, `-1`/`None` ↦ axis length. -/
def prepare (chunks : List Spec) (shape : List Int) : Except Err (List Spec) :=
  -- `if not chunks and shape and all(s == 0 for s in shape): chunks = ((0,),) * len(shape)`
  let chunks := if chunks = [] ∧ shape.all (· == 0) then List.replicate shape.length (Spec.tuple [0]) else chunks
  -- `len(shape) == 1 and len(chunks) > 1 and all(isinstance(c, (Number, str)) for c in chunks)`
  let wrap := decide (shape.length = 1) && decide (chunks.length > 1) && chunks.all isNumOrStr
  if wrap && chunks.any isStr then .error .valueError else
  let chunks := if wrap then [Spec.tuple (specInts chunks)] else chunks
  if chunks.length ≠ shape.length then .error .valueError else
  .ok (List.zipWith fillFull chunks shape)

/-- last stage: `_convert_int_chunk_to_tuple`, empty-tuple check, negative-size check, and the sum check
unless `allints`. -/
def finalize (chunks : List Spec) (shape : List Int) : Except Err (List (List Int)) :=
  let allints := chunks.all isIntSpec
  match convertAll chunks shape with
  | .error e => .error e
  | .ok out =>
    if out.any (· == []) then .error .valueError
    else if out.any (fun c => c.any (· < 0)) then .error .valueError   -- "Chunk sizes must not be negative"
    else if !allints && !sumsMatch out shape then .error .valueError
    else .ok out

/-- `if any(c == "auto" for c in chunks): chunks = auto_chunks(...)`. -/
def resolveAuto (orc : List (Nat × Bool)) (chunks : List Spec) (shape : List Int) : Except Err (List Spec) :=
  if chunks.any isAuto then autoNoPrev orc chunks shape else .ok chunks

/-- `normalize_chunks(chunks, shape, limit, previous_chunks=None)` for `shape ≠ ()`. -/
def normalizeChunks (orc : List (Nat × Bool)) (limit : Option Int) (chunks : List Spec) (shape : List Int) :
    Except Err (List (List Int)) :=
  if shape = [] then .ok [] else
  match prepare chunks shape with
  | .error e => .error e
  | .ok chunks =>
    match checkBytes limit chunks with
    | .error e => .error e
    | .ok _ =>
      match resolveAuto orc (chunks.map bytesToAuto) shape with
      | .error e => .error e
      | .ok chunks => finalize chunks shape

/-- per-axis view used by the theorems: what one axis of `normalize_chunks` returns for a non-auto
spec, given the global `allints` flag (all axes are plain ints ⇒ the sum check is skipped). -/
def normAxis (allints : Bool) (c : Spec) (s : Int) : Except Err (List Int) :=
  match convertAxis (fillFull c s) s with
  | .error e => .error e
  | .ok out =>
    if out = [] then .error .valueError
    else if out.any (· < 0) then .error .valueError
    else if !allints && decide (isum out ≠ s) then .error .valueError
    else .ok out

/-! ### integer kernels of the `previous_chunks` branch -/

/-- the greedy merge loop: `for c in previous_chunks[a]: if c + new_chunk <= proposed: …`
with `pf = floor proposed` (`c + new_chunk` is an int, so `≤ proposed ⇔ ≤ floor proposed`). -/
def mergeLoop (pf : Int) : Int → List Int → List Int
  | new, [] => if new > 0 then [new] else []
  | new, c :: cs =>
    if c + new ≤ pf then mergeLoop pf (new + c) cs
    else (if new > 0 then [new] else []) ++ mergeLoop pf c cs

def mergePrev (pf : Int) (prev : List Int) : List Int := mergeLoop pf 0 prev

/-- number of occurrences. -/
def countOcc (x : Int) (l : List Int) : Nat := (l.filter (· == x)).length

/-- `max(frequencies(prev).items(), key=count)`: first-seen value with the maximal count. -/
def modeOf : List Int → List Int → Option (Int × Nat)
  | _, [] => Option.none
  | all, x :: xs =>
    match modeOf all xs with
    | Option.none => some (x, countOcc x all)
    | some (m, k) => if countOcc x all ≥ k then some (x, countOcc x all) else some (m, k)

/-- `ideal_shape[i]`: the mode if it is `> 1` and covers at least half the chunks, else the axis length. -/
def idealAxis (prev : List Int) (s : Int) : Int :=
  match modeOf prev prev with
  | Option.none => s
  | some (m, k) => if m > 1 ∧ 2 * k ≥ prev.length then m else s

end Dask.Chunks
