/-
L3 rewrite rules: the optimizer's rewrites on the modelled node kinds, as functions
`Expr → Option Expr` (`none` = the rule declines), a one-step `step`, and the fixpoint `optimize`
defined by WELL-FOUNDED recursion on the explicit measure `mu` (Lean accepts the definition only
with the proof that every step decreases `mu`).  Core Lean only.

Python (dask_array)                                              Lean
---------------------------------------------------------------  ---------------------------------
`SliceSlicesIntegers._simplify_down`, identity slice             `sliceIdentityDrop`
`SliceSlicesIntegers._simplify_down`, slice∘slice:               `sliceSliceFuse` (`fuseIx`: the tuple walk of
   `fuse_slice(inner.index, outer.index)` then                      `fuse_slice` — an integer of the inner index
   `normalize_slice` per axis; `NotImplementedError`                 is kept and consumes nothing of the outer one;
   (negative start/stop/step, negative integer) ⇒ no fusion          slice∘int = `fuseSliceInt`; slice∘slice =
                                                                     `fuseSliceSlice` then `normalizeSlice`)
`Elemwise._accept_slice` (one array operand)                     `sliceThroughMap`
`Elemwise._accept_slice` (two operands of the same shape;        `sliceThroughZip`
   broadcasting operands are explicit `broadcastTo` nodes)
`Transpose._accept_slice` (index permuted: output axis `i`       `sliceThroughTranspose` (all-slice indices)
   goes to input axis `axes[i]`)
`ExpandDims._accept_slice` (the new axis keeps a non-empty       `sliceThroughExpandDims` (all-slice indices)
   slice of its single element)
`Squeeze`: slice above a squeezed reduction                      `sliceThroughSqueeze` (all-slice indices)
`_accept_slice_impl` (reductions, keepdims: kept axes only;      `sliceThroughReduce` (all-slice indices, the
   the index of a reduced axis never reaches the input)             reduced axis must carry the full slice)
`Concatenate._accept_slice` (unit step on the concat axis;       `sliceThroughConcat` (binary; the operand the
   per-operand sub-slices with offsets, missed operands dropped)    slice misses is dropped)
`FromArray._accept_slice` (region = deferred slice)              the region IS the node `slice (src …) region`: a
                                                                 slice over a source is KEPT (`sliceIntoSrcKeep`
                                                                 is the identity on it); composing a region with a
                                                                 new slice is `sliceSliceFuse` over the source
integers turned into size-1 slices + outer `[0]`                 `sliceSplitInts` (sound, NOT in `optimize`:
   (`Blockwise._accept_slice`, `_accept_slice_impl`,                it increases the measure; used by the driver to
   `FromArray._accept_slice`)                                       recognise those products)
`Rechunk._simplify_down` (no-op rechunk; also `Rechunk._lower`)  `rechunkNoop`
`Rechunk._pushdown`, rechunk∘rechunk                             `rechunkRechunk`
`Rechunk._pushdown_through_elemwise`                             `rechunkThroughMap`, `rechunkThroughZip`
`Rechunk._pushdown_through_transpose`                            `rechunkThroughTranspose`
`Rechunk._pushdown_through_expand_dims`                          `rechunkThroughExpandDims`
`FromArray._accept_rechunk` (NumPy source)                       `rechunkIntoSrc`; with a `_region`: `rechunkIntoRegion`
`Expr.simplify` fixpoint (`_simplify_down` of a node, then the   `step` (first applicable rule at the root, else
   children's `_simplify_up`, then the children, top-down)          the children left to right), `optimize`
`ArrayExpr._preserve_grid_contract` (decline a rewrite under a   `keepGrid`: under a grid-sensitive parent (`zip`,
   grid-sensitive parent when `.chunks` would change)               `concat`, `squeeze`, `broadcastTo`, `reduce`,
                                                                    `mapBlocks`) a rewritten child is accepted only
                                                                    if its `.chunks` are unchanged
sharing gates (`_other_dependents`, culling gates)               not modelled: they only DECLINE rewrites, and the
                                                                 theorems hold for every sequence of steps

Rules restricted to all-slice indices decline when the index contains an integer (the real code
pushes integers too; those instances are recognised through `sliceSplitInts` or counted as
uncovered by the harness).
-/
import DaskArrayModel.Model.Expr
namespace Dask.ND
open Dask.Py Dask.Py.PySlice Dask.Slicing

/-! ### the termination measure -/

/-- Polynomial interpretation: a `slice` / `rechunk` doubles the weight of what is below it, every
other node adds one.  Pushing a slice / rechunk towards the leaves, fusing two of them or
dropping one strictly decreases it; it is strictly monotone in every argument. -/
def mu : Expr → Nat
  | .src _ _ _ => 1
  | .map _ e => mu e + 1
  | .zip _ a b => mu a + mu b + 1
  | .slice e _ => 2 * mu e
  | .transpose e _ => mu e + 1
  | .rechunk e _ => 2 * mu e
  | .concat a b _ => mu a + mu b + 1
  | .expandDims e _ => mu e + 1
  | .squeeze e _ => mu e + 1
  | .broadcastTo e _ _ => mu e + 1
  | .reduce _ e _ _ => mu e + 1
  | .cumsum e _ => mu e + 1
  | .mapBlocks _ e => mu e + 1

/-! ### index helpers -/

/-- the slices of an index without integers -/
def allSlc? : List Ix → Option (List PySlice)
  | [] => some []
  | .slc s :: r => (allSlc? r).map (s :: ·)
  | .int _ :: _ => none

/-- `fuse_slice(a, b)` for index tuples, then `normalize_slice` of every fused slice against the
axis length (`SliceSlicesIntegers._simplify_down`).  `sh` = shape of the array `a` indexes. -/
def fuseIx : List Nat → List Ix → List Ix → Option (List Ix)
  | [], [], [] => some []
  | _ :: ns, .int k :: ra, b => (fuseIx ns ra b).map (.int k :: ·)
  | _ :: ns, .slc s :: ra, .int j :: rb =>
    match fuseSliceInt s j with
    | .ok r => (fuseIx ns ra rb).map (.int r :: ·)
    | .error _ => none
  | n :: ns, .slc s :: ra, .slc t :: rb =>
    match fuseSliceSlice s t with
    | .ok f => (fuseIx ns ra rb).map (.slc (normalizeSlice f n) :: ·)
    | .error _ => none
  | _, _, _ => none

/-- un-permute a per-axis list: entry of input axis `a` is the entry of output axis `perm.index(a)` -/
def unpermL {α} (perm : List Nat) (x : List α) (d : α) : List α :=
  (List.range perm.length).map (fun a => x.getD (perm.idxOf a) d)

/-- integers → size-1 slices (`slice(idx, idx + 1)` of the posified integer) -/
def intsToSlices : List Nat → List Ix → List Ix
  | n :: ns, .int k :: r =>
    .slc ⟨some (posifyInt n k), some (posifyInt n k + 1), none⟩ :: intsToSlices ns r
  | _ :: ns, .slc s :: r => .slc s :: intsToSlices ns r
  | _, _ => []

/-- the extraction index: `0` where there was an integer, `:` elsewhere -/
def extractIx : List Ix → List Ix
  | .int _ :: r => .int 0 :: extractIx r
  | .slc _ :: r => colonIx :: extractIx r
  | [] => []

def hasInt : List Ix → Bool
  | [] => false
  | .int _ :: _ => true
  | .slc _ :: r => hasInt r

/-! ### slice rules -/

/-- identity slice: every axis a full slice ⇒ the child -/
def sliceIdentityDrop : Expr → Option Expr
  | .slice e idx => if idx = List.replicate (shape e).length colonIx then some e else none
  | _ => none

/-- slice∘slice ⇒ one slice with the fused, normalized index -/
def sliceSliceFuse : Expr → Option Expr
  | .slice (.slice e a) b => (fuseIx (shape e) a b).map (.slice e ·)
  | _ => none

def sliceThroughMap : Expr → Option Expr
  | .slice (.map f e) idx => some (.map f (.slice e idx))
  | _ => none

def sliceThroughZip : Expr → Option Expr
  | .slice (.zip f a b) idx => some (.zip f (.slice a idx) (.slice b idx))
  | _ => none

/-- the slice of output axis `i` goes to input axis `perm[i]` -/
def sliceThroughTranspose : Expr → Option Expr
  | .slice (.transpose e perm) idx =>
    match allSlc? idx with
    | some ss => some (.transpose (.slice e ((unpermL perm ss colon).map Ix.slc)) perm)
    | none => none
  | _ => none

/-- the new axis keeps a slice that selects its single element; the other items go to the input -/
def sliceThroughExpandDims : Expr → Option Expr
  | .slice (.expandDims e ax) idx =>
    match allSlc? idx with
    | some ss =>
      if (sel (ss.getD ax colon) 1).length = 1 then
        some (.expandDims (.slice e ((ss.eraseIdx ax).map Ix.slc)) ax)
      else none
    | none => none
  | _ => none

/-- the squeezed axis gets a full slice -/
def sliceThroughSqueeze : Expr → Option Expr
  | .slice (.squeeze e ax) idx =>
    match allSlc? idx with
    | some ss => some (.squeeze (.slice e ((ss.insertIdx ax colon).map Ix.slc)) ax)
    | none => none
  | _ => none

/-- kept axes only: the reduced axis must carry the full slice (its index never reaches the
input); `max` / `min` need positive chunks after slicing (as `WF` demands of every `max` / `min`) -/
def sliceThroughReduce : Expr → Option Expr
  | .slice (.reduce r e ax k) idx =>
    match allSlc? idx with
    | some ss =>
      if ss.getD ax ⟨some 0, some 0, none⟩ = colon ∧
          (r = .sum ∨ (chunks (.slice e idx)).all (fun cs => cs.all (fun c => decide (0 < c))) = true) then
        some (.reduce r (.slice e idx) ax k)
      else none
    | none => none
  | _ => none

/-- unit-step slice on the concat axis: each operand gets its own sub-slice (offsets removed), an
operand the slice misses is dropped; declines when the slice misses both -/
def sliceThroughConcat : Expr → Option Expr
  | .slice (.concat a b ax) idx =>
    match allSlc? idx with
    | some ss =>
      let s := ss.getD ax colon
      let na : Int := (shape a).getD ax 0
      let n : Int := na + ((shape b).getD ax 0 : Nat)
      let start := s.istart n
      let stop := s.istop n
      if s.stp = 1 ∧ ax < ss.length then
        let ia := (ss.set ax ⟨some start, some (min stop na), none⟩).map Ix.slc
        let ib := (ss.set ax ⟨some (max start na - na), some (stop - na), none⟩).map Ix.slc
        if start < min stop na then
          if max start na < stop then some (.concat (.slice a ia) (.slice b ib) ax)
          else some (.slice a ia)
        else if max start na < stop then some (.slice b ib)
        else none
      else none
    | none => none
  | _ => none

/-- the region of a source IS the node `slice (src …) region`: kept (identity) -/
def sliceIntoSrcKeep : Expr → Option Expr
  | .slice (.src id sh ch) idx => some (.slice (.src id sh ch) idx)
  | _ => none

/-- `x[idx]` = `x[idx with k ↦ k:k+1][0 at the integers]` -/
def sliceSplitInts : Expr → Option Expr
  | .slice e idx =>
    if hasInt idx then some (.slice (.slice e (intsToSlices (shape e) idx)) (extractIx idx)) else none
  | _ => none

/-! ### rechunk rules -/

def rechunkNoop : Expr → Option Expr
  | .rechunk e l => if l = chunks e then some e else none
  | _ => none

def rechunkRechunk : Expr → Option Expr
  | .rechunk (.rechunk e _) b => some (.rechunk e b)
  | _ => none

def rechunkThroughMap : Expr → Option Expr
  | .rechunk (.map f e) l => some (.map f (.rechunk e l))
  | _ => none

def rechunkThroughZip : Expr → Option Expr
  | .rechunk (.zip f a b) l => some (.zip f (.rechunk a l) (.rechunk b l))
  | _ => none

/-- the chunks of output axis `i` go to input axis `perm[i]` -/
def rechunkThroughTranspose : Expr → Option Expr
  | .rechunk (.transpose e perm) l => some (.transpose (.rechunk e (unpermL perm l [])) perm)
  | _ => none

/-- the new axis can only be chunked `(1,)`; the other axes are rechunked underneath -/
def rechunkThroughExpandDims : Expr → Option Expr
  | .rechunk (.expandDims e ax) l =>
    if l.getD ax [] = [1] ∧ ax < l.length then some (.expandDims (.rechunk e (l.eraseIdx ax)) ax) else none
  | _ => none

/-- a rechunk of a NumPy source becomes the read itself -/
def rechunkIntoSrc : Expr → Option Expr
  | .rechunk (.src id sh _) l => some (.src id sh l)
  | _ => none

/-- source chunks that make the unit-step region `lo:hi` of an axis of length `n` read in chunks `tgt`:
the part before the region, the target chunks, the part after it -/
def regionAxisChunks (n : Nat) (s : PySlice) (tgt : List Nat) : List Nat :=
  let lo := (s.istart n).toNat
  let hi := (s.istop n).toNat
  (if 0 < lo then [lo] else []) ++ tgt ++ (if hi < n then [n - hi] else [])

def regionChunks : List Nat → List PySlice → Layout → Layout
  | n :: ns, s :: ss, t :: l => regionAxisChunks n s t :: regionChunks ns ss l
  | _, _, _ => []

/-- a rechunk of a region read (`FromArray` with `_region`, here `slice (src …) region`) becomes the
read itself: the source is chunked so that the region falls into the target chunks
(`FromArray._accept_rechunk` → `_with_chunks`, region kept).  The rule checks that the new source
chunks are a layout of the source and that slicing them yields exactly the target; else it declines. -/
def rechunkIntoRegion : Expr → Option Expr
  | .rechunk (.slice (.src id sh ch) idx) l =>
    match allSlc? idx with
    | some ss =>
      let ch' := regionChunks sh ss l
      if wfLayout sh ch' = true ∧ sliceChunks sh ch' idx = l then some (.slice (.src id sh ch') idx) else none
    | none => none
  | _ => none

/-! ### one step, fixpoint -/

/-- the rules `optimize` uses, in the order they are tried at a node -/
def rules : List (String × (Expr → Option Expr)) :=
  [("sliceIdentityDrop", sliceIdentityDrop),
   ("sliceSliceFuse", sliceSliceFuse),
   ("sliceThroughMap", sliceThroughMap),
   ("sliceThroughZip", sliceThroughZip),
   ("sliceThroughTranspose", sliceThroughTranspose),
   ("sliceThroughExpandDims", sliceThroughExpandDims),
   ("sliceThroughSqueeze", sliceThroughSqueeze),
   ("sliceThroughReduce", sliceThroughReduce),
   ("sliceThroughConcat", sliceThroughConcat),
   ("rechunkNoop", rechunkNoop),
   ("rechunkRechunk", rechunkRechunk),
   ("rechunkThroughMap", rechunkThroughMap),
   ("rechunkThroughZip", rechunkThroughZip),
   ("rechunkThroughTranspose", rechunkThroughTranspose),
   ("rechunkThroughExpandDims", rechunkThroughExpandDims),
   ("rechunkIntoSrc", rechunkIntoSrc),
   ("rechunkIntoRegion", rechunkIntoRegion)]

/-- sound rules that are NOT part of `optimize` (no measure decrease) -/
def extraRules : List (String × (Expr → Option Expr)) :=
  [("sliceIntoSrcKeep", sliceIntoSrcKeep), ("sliceSplitInts", sliceSplitInts)]

/-- first rule of the list that applies at the root -/
def firstRule : List (String × (Expr → Option Expr)) → Expr → Option (String × Expr)
  | [], _ => none
  | (n, r) :: rs, e =>
    match r e with
    | some e' => some (n, e')
    | none => firstRule rs e

/-- accept a rewritten child under a grid-sensitive parent only if `.chunks` is unchanged -/
def keepGrid (a : Expr) : Option (String × Expr) → Option (String × Expr)
  | some (n, a') => if chunks a' = chunks a then some (n, a') else none
  | none => none

/-- first of two options -/
def orElse2 {α} : Option α → Option α → Option α
  | some x, _ => some x
  | none, y => y

/-- one step with the list `rs` of root rules: the first applicable rule at the root, else the
first step in a child (left to right); the name of the rule that fired is returned -/
def stepWith (rs : List (String × (Expr → Option Expr))) : Expr → Option (String × Expr)
  | .src id sh ch => firstRule rs (.src id sh ch)
  | .map f a =>
    orElse2 (firstRule rs (.map f a)) ((stepWith rs a).map fun p => (p.1, .map f p.2))
  | .zip f a b =>
    orElse2 (firstRule rs (.zip f a b))
      (orElse2 ((keepGrid a (stepWith rs a)).map fun p => (p.1, .zip f p.2 b))
        ((keepGrid b (stepWith rs b)).map fun p => (p.1, .zip f a p.2)))
  | .slice a idx =>
    orElse2 (firstRule rs (.slice a idx)) ((stepWith rs a).map fun p => (p.1, .slice p.2 idx))
  | .transpose a perm =>
    orElse2 (firstRule rs (.transpose a perm)) ((stepWith rs a).map fun p => (p.1, .transpose p.2 perm))
  | .rechunk a l =>
    orElse2 (firstRule rs (.rechunk a l)) ((stepWith rs a).map fun p => (p.1, .rechunk p.2 l))
  | .concat a b ax =>
    orElse2 (firstRule rs (.concat a b ax))
      (orElse2 ((keepGrid a (stepWith rs a)).map fun p => (p.1, .concat p.2 b ax))
        ((keepGrid b (stepWith rs b)).map fun p => (p.1, .concat a p.2 ax)))
  | .expandDims a ax =>
    orElse2 (firstRule rs (.expandDims a ax)) ((stepWith rs a).map fun p => (p.1, .expandDims p.2 ax))
  | .squeeze a ax =>
    orElse2 (firstRule rs (.squeeze a ax))
      ((keepGrid a (stepWith rs a)).map fun p => (p.1, .squeeze p.2 ax))
  | .broadcastTo a sh l =>
    orElse2 (firstRule rs (.broadcastTo a sh l))
      ((keepGrid a (stepWith rs a)).map fun p => (p.1, .broadcastTo p.2 sh l))
  | .reduce r a ax k =>
    orElse2 (firstRule rs (.reduce r a ax k))
      ((keepGrid a (stepWith rs a)).map fun p => (p.1, .reduce r p.2 ax k))
  | .cumsum a ax =>
    orElse2 (firstRule rs (.cumsum a ax)) ((stepWith rs a).map fun p => (p.1, .cumsum p.2 ax))
  | .mapBlocks f a =>
    orElse2 (firstRule rs (.mapBlocks f a))
      ((keepGrid a (stepWith rs a)).map fun p => (p.1, .mapBlocks f p.2))

/-- one optimizer step, with the name of the rule -/
def stepNamed (e : Expr) : Option (String × Expr) := stepWith rules e

/-- one optimizer step -/
def step (e : Expr) : Option Expr := (stepNamed e).map (·.2)

/-! ### every step decreases the measure; the fixpoint -/

theorem mu_pos : ∀ e : Expr, 0 < mu e
  | .src _ _ _ => by simp [mu]
  | .map _ e => by simp [mu]
  | .zip _ a b => by simp [mu]
  | .slice e _ => by have := mu_pos e; simp [mu]; omega
  | .transpose e _ => by simp [mu]
  | .rechunk e _ => by have := mu_pos e; simp [mu]; omega
  | .concat a b _ => by simp [mu]
  | .expandDims e _ => by simp [mu]
  | .squeeze e _ => by simp [mu]
  | .broadcastTo e _ _ => by simp [mu]
  | .reduce _ e _ _ => by simp [mu]
  | .cumsum e _ => by simp [mu]
  | .mapBlocks _ e => by simp [mu]

/-- a rule decreases the measure -/
def Decreasing (r : Expr → Option Expr) : Prop := ∀ e e', r e = some e' → mu e' < mu e

theorem sliceIdentityDrop_dec : Decreasing sliceIdentityDrop := by
  intro e e' h
  unfold sliceIdentityDrop at h
  split at h
  · rename_i e0 idx0
    split at h
    · injection h with h; subst h; have := mu_pos e0; simp only [mu]; omega
    · exact absurd h (by simp)
  · exact absurd h (by simp)

theorem sliceSliceFuse_dec : Decreasing sliceSliceFuse := by
  intro e e' h
  unfold sliceSliceFuse at h
  split at h
  · rename_i e0 a b
    cases hf : fuseIx (shape e0) a b with
    | none => simp [hf] at h
    | some f =>
      simp [hf] at h; subst h; have := mu_pos e0; simp only [mu]; omega
  · exact absurd h (by simp)

theorem sliceThroughMap_dec : Decreasing sliceThroughMap := by
  intro e e' h
  unfold sliceThroughMap at h
  split at h
  · injection h with h; subst h; simp only [mu]; omega
  · exact absurd h (by simp)

theorem sliceThroughZip_dec : Decreasing sliceThroughZip := by
  intro e e' h
  unfold sliceThroughZip at h
  split at h
  · injection h with h; subst h; simp only [mu]; omega
  · exact absurd h (by simp)

theorem sliceThroughTranspose_dec : Decreasing sliceThroughTranspose := by
  intro e e' h
  unfold sliceThroughTranspose at h
  split at h
  · split at h
    · injection h with h; subst h; simp only [mu]; omega
    · exact absurd h (by simp)
  · exact absurd h (by simp)

theorem sliceThroughExpandDims_dec : Decreasing sliceThroughExpandDims := by
  intro e e' h
  unfold sliceThroughExpandDims at h
  split at h
  · split at h
    · split at h
      · injection h with h; subst h; simp only [mu]; omega
      · exact absurd h (by simp)
    · exact absurd h (by simp)
  · exact absurd h (by simp)

theorem sliceThroughSqueeze_dec : Decreasing sliceThroughSqueeze := by
  intro e e' h
  unfold sliceThroughSqueeze at h
  split at h
  · split at h
    · injection h with h; subst h; simp only [mu]; omega
    · exact absurd h (by simp)
  · exact absurd h (by simp)

theorem sliceThroughReduce_dec : Decreasing sliceThroughReduce := by
  intro e e' h
  unfold sliceThroughReduce at h
  split at h
  · split at h
    · split at h
      · injection h with h; subst h; simp only [mu]; omega
      · exact absurd h (by simp)
    · exact absurd h (by simp)
  · exact absurd h (by simp)

theorem sliceThroughConcat_dec : Decreasing sliceThroughConcat := by
  intro e e' h
  unfold sliceThroughConcat at h
  split at h
  · rename_i a b ax idx
    have ha := mu_pos a
    have hb := mu_pos b
    split at h
    · dsimp only at h
      repeat' split at h
      all_goals first
        | (injection h with h; subst h; simp only [mu]; omega)
        | (injection h)
    · exact absurd h (by simp)
  · exact absurd h (by simp)

theorem rechunkNoop_dec : Decreasing rechunkNoop := by
  intro e e' h
  unfold rechunkNoop at h
  split at h
  · rename_i e0 l0
    split at h
    · injection h with h; subst h; have := mu_pos e0; simp only [mu]; omega
    · exact absurd h (by simp)
  · exact absurd h (by simp)

theorem rechunkRechunk_dec : Decreasing rechunkRechunk := by
  intro e e' h
  unfold rechunkRechunk at h
  split at h
  · rename_i e0 _ _; injection h with h; subst h; have := mu_pos e0; simp only [mu]; omega
  · exact absurd h (by simp)

theorem rechunkThroughMap_dec : Decreasing rechunkThroughMap := by
  intro e e' h
  unfold rechunkThroughMap at h
  split at h
  · injection h with h; subst h; simp only [mu]; omega
  · exact absurd h (by simp)

theorem rechunkThroughZip_dec : Decreasing rechunkThroughZip := by
  intro e e' h
  unfold rechunkThroughZip at h
  split at h
  · injection h with h; subst h; simp only [mu]; omega
  · exact absurd h (by simp)

theorem rechunkThroughTranspose_dec : Decreasing rechunkThroughTranspose := by
  intro e e' h
  unfold rechunkThroughTranspose at h
  split at h
  · injection h with h; subst h; simp only [mu]; omega
  · exact absurd h (by simp)

theorem rechunkThroughExpandDims_dec : Decreasing rechunkThroughExpandDims := by
  intro e e' h
  unfold rechunkThroughExpandDims at h
  split at h
  · split at h
    · injection h with h; subst h; simp only [mu]; omega
    · exact absurd h (by simp)
  · exact absurd h (by simp)

theorem rechunkIntoSrc_dec : Decreasing rechunkIntoSrc := by
  intro e e' h
  unfold rechunkIntoSrc at h
  split at h
  · injection h with h; subst h; simp only [mu]; omega
  · exact absurd h (by simp)

theorem rechunkIntoRegion_dec : Decreasing rechunkIntoRegion := by
  intro e e' h
  unfold rechunkIntoRegion at h
  split at h
  · split at h
    · dsimp only at h
      split at h
      · injection h with h; subst h; simp only [mu]; omega
      · exact absurd h (by simp)
    · exact absurd h (by simp)
  · exact absurd h (by simp)

theorem rules_dec : ∀ r ∈ rules, Decreasing r.2 := by
  intro r hr
  simp only [rules, List.mem_cons, List.mem_nil_iff, or_false] at hr
  rcases hr with h | h | h | h | h | h | h | h | h | h | h | h | h | h | h | h | h <;> subst h
  · exact sliceIdentityDrop_dec
  · exact sliceSliceFuse_dec
  · exact sliceThroughMap_dec
  · exact sliceThroughZip_dec
  · exact sliceThroughTranspose_dec
  · exact sliceThroughExpandDims_dec
  · exact sliceThroughSqueeze_dec
  · exact sliceThroughReduce_dec
  · exact sliceThroughConcat_dec
  · exact rechunkNoop_dec
  · exact rechunkRechunk_dec
  · exact rechunkThroughMap_dec
  · exact rechunkThroughZip_dec
  · exact rechunkThroughTranspose_dec
  · exact rechunkThroughExpandDims_dec
  · exact rechunkIntoSrc_dec
  · exact rechunkIntoRegion_dec

theorem firstRule_dec (rs : List (String × (Expr → Option Expr))) (h : ∀ r ∈ rs, Decreasing r.2) :
    ∀ e p, firstRule rs e = some p → mu p.2 < mu e := by
  induction rs with
  | nil => intro e p hp; simp [firstRule] at hp
  | cons r rs ih =>
    intro e p hp
    obtain ⟨n, f⟩ := r
    simp only [firstRule] at hp
    split at hp
    · rename_i e' he
      injection hp with hp; subst hp
      exact h (n, f) (by simp) e e' he
    · exact ih (fun r hr => h r (List.mem_cons_of_mem _ hr)) e p hp

theorem orElse2_some {α} {a b : Option α} {x : α} (h : orElse2 a b = some x) :
    a = some x ∨ (a = none ∧ b = some x) := by
  cases a with
  | some y => left; simpa [orElse2] using h
  | none => right; exact ⟨rfl, by simpa [orElse2] using h⟩

theorem keepGrid_some {a : Expr} {r : Option (String × Expr)} {p : String × Expr}
    (h : keepGrid a r = some p) : r = some p ∧ chunks p.2 = chunks a := by
  cases r with
  | none => simp [keepGrid] at h
  | some q =>
    obtain ⟨n, a'⟩ := q
    simp only [keepGrid] at h
    split at h
    · rename_i hc; injection h with h; subst h; exact ⟨rfl, hc⟩
    · exact absurd h (by simp)

theorem stepWith_dec (rs : List (String × (Expr → Option Expr))) (h : ∀ r ∈ rs, Decreasing r.2) :
    ∀ e p, stepWith rs e = some p → mu p.2 < mu e := by
  intro e
  induction e with
  | src id sh ch => intro p hp; exact firstRule_dec rs h _ p hp
  | map f a ih =>
    intro p hp
    simp only [stepWith] at hp
    rcases orElse2_some hp with h1 | ⟨_, h2⟩
    · exact firstRule_dec rs h _ p h1
    · obtain ⟨q, hq, rfl⟩ := Option.map_eq_some_iff.mp h2
      have := ih q hq; simp only [mu]; omega
  | zip f a b iha ihb =>
    intro p hp
    simp only [stepWith] at hp
    rcases orElse2_some hp with h1 | ⟨_, h2⟩
    · exact firstRule_dec rs h _ p h1
    · rcases orElse2_some h2 with h3 | ⟨_, h3⟩
      · obtain ⟨q, hq, rfl⟩ := Option.map_eq_some_iff.mp h3
        have := iha q (keepGrid_some hq).1; simp only [mu]; omega
      · obtain ⟨q, hq, rfl⟩ := Option.map_eq_some_iff.mp h3
        have := ihb q (keepGrid_some hq).1; simp only [mu]; omega
  | slice a idx ih =>
    intro p hp
    simp only [stepWith] at hp
    rcases orElse2_some hp with h1 | ⟨_, h2⟩
    · exact firstRule_dec rs h _ p h1
    · obtain ⟨q, hq, rfl⟩ := Option.map_eq_some_iff.mp h2
      have := ih q hq; simp only [mu]; omega
  | transpose a perm ih =>
    intro p hp
    simp only [stepWith] at hp
    rcases orElse2_some hp with h1 | ⟨_, h2⟩
    · exact firstRule_dec rs h _ p h1
    · obtain ⟨q, hq, rfl⟩ := Option.map_eq_some_iff.mp h2
      have := ih q hq; simp only [mu]; omega
  | rechunk a l ih =>
    intro p hp
    simp only [stepWith] at hp
    rcases orElse2_some hp with h1 | ⟨_, h2⟩
    · exact firstRule_dec rs h _ p h1
    · obtain ⟨q, hq, rfl⟩ := Option.map_eq_some_iff.mp h2
      have := ih q hq; simp only [mu]; omega
  | concat a b ax iha ihb =>
    intro p hp
    simp only [stepWith] at hp
    rcases orElse2_some hp with h1 | ⟨_, h2⟩
    · exact firstRule_dec rs h _ p h1
    · rcases orElse2_some h2 with h3 | ⟨_, h3⟩
      · obtain ⟨q, hq, rfl⟩ := Option.map_eq_some_iff.mp h3
        have := iha q (keepGrid_some hq).1; simp only [mu]; omega
      · obtain ⟨q, hq, rfl⟩ := Option.map_eq_some_iff.mp h3
        have := ihb q (keepGrid_some hq).1; simp only [mu]; omega
  | expandDims a ax ih =>
    intro p hp
    simp only [stepWith] at hp
    rcases orElse2_some hp with h1 | ⟨_, h2⟩
    · exact firstRule_dec rs h _ p h1
    · obtain ⟨q, hq, rfl⟩ := Option.map_eq_some_iff.mp h2
      have := ih q hq; simp only [mu]; omega
  | squeeze a ax ih =>
    intro p hp
    simp only [stepWith] at hp
    rcases orElse2_some hp with h1 | ⟨_, h2⟩
    · exact firstRule_dec rs h _ p h1
    · obtain ⟨q, hq, rfl⟩ := Option.map_eq_some_iff.mp h2
      have := ih q (keepGrid_some hq).1; simp only [mu]; omega
  | broadcastTo a sh l ih =>
    intro p hp
    simp only [stepWith] at hp
    rcases orElse2_some hp with h1 | ⟨_, h2⟩
    · exact firstRule_dec rs h _ p h1
    · obtain ⟨q, hq, rfl⟩ := Option.map_eq_some_iff.mp h2
      have := ih q (keepGrid_some hq).1; simp only [mu]; omega
  | reduce r a ax k ih =>
    intro p hp
    simp only [stepWith] at hp
    rcases orElse2_some hp with h1 | ⟨_, h2⟩
    · exact firstRule_dec rs h _ p h1
    · obtain ⟨q, hq, rfl⟩ := Option.map_eq_some_iff.mp h2
      have := ih q (keepGrid_some hq).1; simp only [mu]; omega
  | cumsum a ax ih =>
    intro p hp
    simp only [stepWith] at hp
    rcases orElse2_some hp with h1 | ⟨_, h2⟩
    · exact firstRule_dec rs h _ p h1
    · obtain ⟨q, hq, rfl⟩ := Option.map_eq_some_iff.mp h2
      have := ih q hq; simp only [mu]; omega
  | mapBlocks f a ih =>
    intro p hp
    simp only [stepWith] at hp
    rcases orElse2_some hp with h1 | ⟨_, h2⟩
    · exact firstRule_dec rs h _ p h1
    · obtain ⟨q, hq, rfl⟩ := Option.map_eq_some_iff.mp h2
      have := ih q (keepGrid_some hq).1; simp only [mu]; omega

theorem stepNamed_dec (e : Expr) (p : String × Expr) (h : stepNamed e = some p) : mu p.2 < mu e :=
  stepWith_dec rules rules_dec e p h

theorem step_dec (e e' : Expr) (h : step e = some e') : mu e' < mu e := by
  unfold step at h
  obtain ⟨q, hq, rfl⟩ := Option.map_eq_some_iff.mp h
  exact stepNamed_dec e q hq

/-- the optimizer: apply `step` until no rule applies -/
def optimize (e : Expr) : Expr :=
  match h : step e with
  | none => e
  | some e' => optimize e'
termination_by mu e
decreasing_by exact step_dec e e' h

end Dask.ND
