/-
L3, phase 3: the SECOND-LAYER expression language `Expr2`.  It embeds the phase-1 language `Expr`
(Model/Expr.lean, untouched) and adds primitive behaviour that `Expr` has no constructor for:

Python (dask_array)                                              Lean
---------------------------------------------------------------  ---------------------------------
any phase-1 expression                                           `Expr2.base e`
a phase-1 op / subtree APPLIED TO results of `Expr2` ops          `Expr2.node e a b`: `e : Expr` is a phase-1
                                                                  context in which the sources numbered `holeA` /
                                                                  `holeB` stand for the sub-expressions `a` / `b`
                                                                  (declared with their shape and chunks); the tasks
                                                                  of `e` read the COMPUTED blocks of `a` / `b`
`Elemwise(op, x, y)` with NumPy BROADCASTING of the operands      `Expr2.zipB f a b`
   (lower rank, length-1 axes; after `unify_chunks` every
   non-broadcast axis has equal chunks): output block `bid`
   reads block `_broadcast_block_id(arr.numblocks, bid)` of each
   operand (`Blockwise._dep_block_id`: `coord % numblocks`, the
   trailing coordinates for a lower-rank operand) and applies
   `op` with NumPy broadcasting of the two BLOCKS
`x[:, …, [i0, i1, …], …, :]` → `take(x, index, axis)`             `Expr2.take e axis idx`
   (slicing/_basic.py) → `_compute_indexer` (runs of consecutive
   indices inside one input chunk), `_shuffle` / `Shuffle`:
   `.chunks` = lengths of `Shuffle._new_chunks` (groups merged /
   split against the largest input chunk), output block `k` =
   the listed positions of group `k` gathered from the input
   blocks that hold them; `take(x, arange(n))` and an identity
   grouping return `x` itself
`sliding_window_view(x, W, axis).<sum|max|min>(axis=-1)`,         `Expr2.swvReduce r e W axis`
   OVERLAP plan (`_overlap.sliding_window_view`: `map_overlap`
   with depth `(0, W-1)`, boundary "none", then the reduction of
   the window axis inside each block).  The rechunk that
   `sliding_window_view` inserts first (`ensure_minimum_chunksize`
   on the axis, `_calculate_new_chunksizes` on the others) is an
   explicit phase-1 `rechunk` below this node; the node itself
   requires what that rechunk establishes: every chunk on the
   axis ≥ W.  `.chunks`: `c[:-1] + (c[-1] - (W-1),)` on the axis.
   Output block `j`, position `t`: the reduction of the `W`
   positions `t … t+W-1` of (block `j` ++ the first `W-1`
   positions of block `j+1`).  NOT the native plan
   (`SlidingWindowReduction`, chosen by the optimizer when
   `supports_native_sliding_window`; its block plan is C19's).

`shape2` / `chunks2` / `wf2` / `den2` / `blockDen2` delegate to phase 1 on `base` (and on the
context of `node`).  Core Lean only.
-/
import DaskArrayModel.Model.Expr
import DaskArrayModel.Model.Indexing
namespace Dask.ND
open Dask.Py Dask.Py.PySlice Dask.Slicing Dask.Reduce

/-! ### holes: sources of a phase-1 context that stand for `Expr2` sub-expressions -/

def holeA : Nat := 1000000
def holeB : Nat := 1000001

/-- the sources of a phase-1 expression: number, declared shape, declared chunks -/
def srcsOf : Expr → List (Nat × List Nat × Layout)
  | .src id sh ch => [(id, sh, ch)]
  | .map _ e => srcsOf e
  | .zip _ a b => srcsOf a ++ srcsOf b
  | .slice e _ => srcsOf e
  | .transpose e _ => srcsOf e
  | .rechunk e _ => srcsOf e
  | .concat a b _ => srcsOf a ++ srcsOf b
  | .expandDims e _ => srcsOf e
  | .squeeze e _ => srcsOf e
  | .broadcastTo e _ _ => srcsOf e
  | .reduce _ e _ _ => srcsOf e
  | .cumsum e _ => srcsOf e
  | .mapBlocks _ e => srcsOf e

/-- the environment in which the hole sources carry the given arrays -/
def Env.withHoles (env : Env) (x y : Arr Int) : Env :=
  { src := fun id => if id = holeA then x else if id = holeB then y else env.src id
    un := env.un, bin := env.bin, blk := env.blk }

/-! ### broadcasting binary -/

/-- pad a layout on the left with `(1,)` axes up to rank `r` -/
def padLay (r : Nat) (c : Layout) : Layout := List.replicate (r - c.length) [1] ++ c

/-- pad a shape on the left with length-1 axes up to rank `r` -/
def padSh (r : Nat) (s : List Nat) : List Nat := List.replicate (r - s.length) 1 ++ s

/-- chunks of the broadcast result (operands aligned at the right): the chunks of the operand that
is not broadcast on the axis -/
def zipBLayout (ca cb : Layout) : Layout :=
  let r := max ca.length cb.length
  List.zipWith (fun c d => if c = [1] then d else c) (padLay r ca) (padLay r cb)

/-- `_broadcast_block_id(numblocks, block_id)` / `_compute_block_id`: the trailing coordinates of the
output block id, each taken `% numblocks` (0 on an axis with one block) -/
def bcBid (nbs : List Nat) (bid : List Nat) : List Nat :=
  List.zipWith (fun nb j => j % nb) nbs (bid.drop (bid.length - nbs.length))

/-- NumPy broadcast of two block shapes inside an output block of rank `r` -/
def npBcShape (r : Nat) (s t : List Nat) : List Nat :=
  List.zipWith (fun p q => if p = 1 then q else p) (padSh r s) (padSh r t)

/-! ### take along one axis -/

/-- split a list into consecutive pieces of the given lengths -/
def splitLens {α} : List Nat → List α → List (List α)
  | [], _ => []
  | c :: cs, l => l.take c :: splitLens cs (l.drop c)

/-- the groups of (posified) positions that make the output blocks of `take(x, idx, axis)` on an axis
of length `n` chunked `cs`: `take`'s `arange` no-op, `_compute_indexer`, `_shuffle`'s identity
test, `Shuffle._new_chunks` with `limit = max(chunks[axis])`; an empty list is the slice `0:0` -/
def takeGroups (n : Nat) (cs : List Nat) (idx : List Int) : List (List Int) :=
  let ip := idx.map (posifyInt n)
  if ip = [] then [[]]
  else if ip = rangeList 0 n 1 then splitLens cs ip
  else
    let indexer := Dask.Indexing.computeIndexer ip (toI cs)
    if Dask.Indexing.shuffleIsIdentity indexer (toI cs) then indexer
    else Dask.Indexing.newChunks ((toI cs).foldl max 0).toNat indexer

/-- the take axis: output block `j` holds the positions of group `j`; position `p` lives in input
block `findBlock cs p` (`np.searchsorted(chunk_boundaries, ·, side="right")`) -/
def takeAxis (n : Nat) (cs : List Nat) (idx : List Int) : AxisMap :=
  let groups := takeGroups n cs idx
  { len := fun j => (groups.getD j []).length
    blk := fun j i => (findBlock cs ((groups.getD j []).getD i 0).toNat).1
    pos := fun j i => (findBlock cs ((groups.getD j []).getD i 0).toNat).2
    gmap := fun g => (posifyInt n (idx.getD g 0)).toNat }

/-- gather specs of an op that acts on ONE axis (`m`) and passes the others through -/
def axisSpecs : Layout → Nat → AxisMap → List AxSpec
  | [], _, _ => []
  | _ :: cl, 0, m => .keep m :: idSpecs cl
  | cs :: cl, ax + 1, m => .keep (idAxis cs) :: axisSpecs cl ax m

/-! ### sliding-window reduction, overlap plan -/

/-- `c[:-1] + (c[-1] - (W - 1),)` -/
def swvChunks (cs : List Nat) (w : Nat) : List Nat := cs.dropLast ++ [cs.getLastD 0 - (w - 1)]

/-! ### the language -/

inductive Expr2
  /-- a phase-1 expression -/
  | base (e : Expr)
  /-- the phase-1 context `e` over the sub-expressions `a` (sources numbered `holeA`) and `b` (`holeB`) -/
  | node (e : Expr) (a b : Expr2)
  /-- binary elementwise function number `f` with NumPy broadcasting -/
  | zipB (f : Nat) (a b : Expr2)
  /-- `e[:, …, idx, …, :]` with the integer list `idx` on `axis` -/
  | take (e : Expr2) (axis : Nat) (idx : List Int)
  /-- `r(sliding_window_view(e, window, axis), axis=-1)`, overlap plan -/
  | swvReduce (r : Red) (e : Expr2) (window axis : Nat)
deriving DecidableEq, Repr

/-- `.chunks` -/
def chunks2 : Expr2 → Layout
  | .base e => chunks e
  | .node e _ _ => chunks e
  | .zipB _ a b => zipBLayout (chunks2 a) (chunks2 b)
  | .take e ax idx =>
    let cl := chunks2 e
    cl.set ax ((takeGroups (cl.getD ax []).sum (cl.getD ax []) idx).map List.length)
  | .swvReduce _ e w ax =>
    let cl := chunks2 e
    cl.set ax (swvChunks (cl.getD ax []) w)

/-- NumPy shape -/
def shape2 : Expr2 → List Nat
  | .base e => shape e
  | .node e _ _ => shape e
  | .zipB _ a b => (zipBLayout (chunks2 a) (chunks2 b)).map List.sum
  | .take e ax idx => (shape2 e).set ax idx.length
  | .swvReduce _ e w ax => (shape2 e).set ax ((shape2 e).getD ax 0 + 1 - w)

/-- every hole source of the context is declared with the shape and chunks of its sub-expression -/
def holesOK (a b : Expr2) (e : Expr) : Bool :=
  (srcsOf e).all (fun p =>
    (p.1 != holeA || (decide (p.2.1 = shape2 a) && decide (p.2.2 = chunks2 a))) &&
    (p.1 != holeB || (decide (p.2.1 = shape2 b) && decide (p.2.2 = chunks2 b))))

/-- well-formed = what the real API accepts (with the explicit rechunks that it inserts itself) -/
def wf2 : Expr2 → Bool
  | .base e => wf e
  | .node e a b => wf2 a && wf2 b && wf e && holesOK a b e
  | .zipB _ a b =>
    let l := zipBLayout (chunks2 a) (chunks2 b)
    wf2 a && wf2 b &&
      bcOK (chunks2 a) (l.drop (l.length - (chunks2 a).length)) &&
      bcOK (chunks2 b) (l.drop (l.length - (chunks2 b).length))
  | .take e ax idx =>
    let n := (shape2 e).getD ax 0
    wf2 e && decide (ax < (shape2 e).length) &&
      idx.all (fun k => decide (-(n : Int) ≤ k ∧ k < (n : Int)))
  | .swvReduce _ e w ax =>
    wf2 e && decide (ax < (shape2 e).length) && decide (1 ≤ w) &&
      ((chunks2 e).getD ax []).all (fun c => decide (w ≤ c))

def WF2 (e : Expr2) : Prop := wf2 e = true

instance (e : Expr2) : Decidable (WF2 e) := by unfold WF2; infer_instance

/-- the NumPy meaning -/
def den2 (env : Env) : Expr2 → Arr Int
  | .base e => den env e
  | .node e a b => den (env.withHoles (den2 env a) (den2 env b)) e
  | .zipB f a b =>
    let x := den2 env a
    let y := den2 env b
    let sh := (zipBLayout (chunks2 a) (chunks2 b)).map List.sum
    ⟨sh, fun i =>
      env.bin f (x.get (bcIdx (shape2 a) (i.drop (sh.length - (shape2 a).length))))
        (y.get (bcIdx (shape2 b) (i.drop (sh.length - (shape2 b).length))))⟩
  | .take e ax idx =>
    let x := den2 env e
    let n := (shape2 e).getD ax 0
    ⟨(shape2 e).set ax idx.length, fun i =>
      x.get (i.set ax (posifyInt n (idx.getD (i.getD ax 0) 0)).toNat)⟩
  | .swvReduce r e w ax =>
    let x := den2 env e
    ⟨(shape2 e).set ax ((shape2 e).getD ax 0 + 1 - w), fun i =>
      r.list ((List.range w).map (fun s => x.get (i.set ax (i.getD ax 0 + s))))⟩

/-- the value the task for output block `bid` computes -/
def blockDen2 (env : Env) : Expr2 → List Nat → Arr Int
  | .base e, bid => blockDen env e bid
  | .node e a b, bid =>
    -- the tasks of the context read the COMPUTED blocks of the sub-expressions
    blockDen (env.withHoles (assemble (chunks2 a) (fun k => blockDen2 env a k))
      (assemble (chunks2 b) (fun k => blockDen2 env b k))) e bid
  | .zipB f a b, bid =>
    let x := blockDen2 env a (bcBid (numblocks (chunks2 a)) bid)
    let y := blockDen2 env b (bcBid (numblocks (chunks2 b)) bid)
    let r := bid.length
    ⟨npBcShape r x.shape y.shape, fun i =>
      env.bin f (x.get (bcIdx x.shape (i.drop (r - x.shape.length))))
        (y.get (bcIdx y.shape (i.drop (r - y.shape.length))))⟩
  | .take e ax idx, bid =>
    let cl := chunks2 e
    gatherBlock (axisSpecs cl ax (takeAxis (cl.getD ax []).sum (cl.getD ax []) idx))
      (fun k => blockDen2 env e k) bid
  | .swvReduce r e w ax, bid =>
    let cs := (chunks2 e).getD ax []
    let j := bid.getD ax 0
    let cj := cs.getD j 0
    let b0 := blockDen2 env e bid
    let b1 := blockDen2 env e (bid.set ax (j + 1))
    let outLen := if j + 1 = cs.length then cj - (w - 1) else cj
    ⟨b0.shape.set ax outLen, fun i =>
      r.list ((List.range w).map (fun s =>
        if i.getD ax 0 + s < cj then b0.get (i.set ax (i.getD ax 0 + s))
        else b1.get (i.set ax (i.getD ax 0 + s - cj))))⟩

/-- what `compute()` returns: the assembled block grid -/
def compute2 (env : Env) (e : Expr2) : Arr Int := assemble (chunks2 e) (fun bid => blockDen2 env e bid)

end Dask.ND
