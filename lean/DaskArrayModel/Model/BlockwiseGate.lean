/-
The generic `Blockwise` node and the gates of its slice / take pushdowns
(dask_array/_blockwise.py: `Blockwise.chunks`, `_lower`, `_idx_to_block`, `_compute_block_id`,
`_contracts_by_concatenation`, `_accept_slice` — exact multi-operand path —, `_accept_shuffle`).
Core Lean only.

Python                                                      Lean
----------------------------------------------------------  ------------------------------------------
one `(arg, ind)` pair of `Blockwise.args`                     `Opd`   (`ind = none`: literal argument;
   `hasattr(arg, "_meta")`                                       `isArr`; `ArraySliceDep` & co.: `isArr = false`)
`Blockwise(func, out_ind, …, adjust_chunks, new_axes,         `BW`    (`f` = the MEANING of `func` on one tuple of
   align_arrays, concatenate, …, *args)`                         blocks; `adjust` = `adjust_chunks` already applied
                                                                 to the label's chunks; `concat` = `bool(concatenate)`)
`unify_chunks_expr(*args)[0]` (`chunkss`, align_arrays=True)   the oracle `U : label → chunks` (C17 decides it; every
                                                                 theorem quantifies over ALL `U` that pass `layoutOK`)
`Blockwise.chunks` (`chunkss` loop "most blocks wins",         `chunkssOwn` / `chunkss` / `outChunks`
   `new_axes` override, `adjust_chunks`)
`Blockwise._lower` (rechunk every operand to `chunkss`,        `lowered`  (`Contract.alignChunks`)
   length-1 axes keep `(1,)`)
`_idx_to_block` + `_compute_block_id` (`% numblocks`)          `blockCoord`, `axisStart`, `axisLen`, `opExtent`
the operand block a task reads                                `opBlock`  (labels not in `out_ind`: the task gets ALL
                                                                 blocks along them — modelled as their concatenation)
`ArraySliceDep(chunks)[block_id]`                             `sliceDepValue`
the task of output block `bid` / `compute()`                  `blockOf` / `den`
`_contracts_by_concatenation`                                 `contractsByConcat`
`_accept_slice(SliceSlicesIntegers(self, index))`             `acceptSlice`  (`Route.decline` = `return None`,
                                                                 `Route.coarse` = handed to `_accept_slice_coarse`,
                                                                 which is NOT modelled; `Route.exact` = the new args
                                                                 and the `[0]`-extraction index)
`_accept_shuffle(Shuffle(self, indexer, axis))`               `acceptShuffle`
`new_collection(arg)[tuple(arg_slices)]`                      `sliceOpd`  (`sliceShape` / `sliceIdx` / `sliceChunks`
                                                                 of Model/Expr.lean = C12 / C03's meaning of getitem)
`Shuffle(arr, indexer, input_axis)`                           `takeOpd`   (`Indexing.newChunks` = `Shuffle._new_chunks`)
the rewritten expression                                      `push` (`Pushed.bw` + `Pushed.extract`), `denPushed`
NumPy `y[index]` / `np.take(y, flat(indexer), axis)`          `applyIndex`

`gate U bw idx` is `true` exactly when the pushdown fires (exact path).

THE CLASS OF BLOCK FUNCTIONS.  dask never inspects `func`; the pushdown is meaning-preserving only for
functions that are *local in the sliced labels*.  `LabelLocal s f` states it without reference to chunks:
`f` commutes with every re-indexing (`Reix`: gather along a label by an arbitrary position map) of the
labels that occur in `out_ind` and are neither new axes nor `adjust_chunks` labels (`Sig.point`), where an
operand axis that is broadcast along the label (length 1 against a longer label) is left alone.  Elementwise
functions with NumPy broadcasting, outer products, and every "einsum-like" function that folds the
contracted labels by a fixed rule are in the class; anything that looks at positions inside its block along
an output label (per-block `cumsum`, `block_info`, …) is not.  Cutting an array into blocks and slicing /
taking it are both re-indexings, which is why the one predicate gives both "blocks assemble to `f` of the
whole arrays" and "the pushed form denotes the index of the result".
-/
import DaskArrayModel.Model.Expr
import DaskArrayModel.Model.Indexing
import DaskArrayModel.Model.Contract
namespace Dask.BWG
open Dask.Py Dask.Py.PySlice Dask.ND

/-! ### the node -/

/-- one `(arg, ind)` pair -/
structure Opd where
  /-- the operand's NumPy value (`arr.shape` = `arg.shape`); a literal is a 0-d value -/
  arr : Arr Int
  /-- `arg.chunks` -/
  chunks : Layout
  /-- index labels, `none` for a literal argument -/
  ind : Option (List Nat)
  /-- `hasattr(arg, "_meta")` -/
  isArr : Bool := true
  /-- rank of the operand's actual blocks when it is NOT the advertised rank `len(ind)`: only the per-chunk
  pieces of `x[dask_int_array]` (`slice_with_int_dask_array_on_axis`), which advertise an extent along the
  index that is later contracted with `concatenate=True` but have no such axis -/
  pieceRank : Option Nat := none

/-- labels of an operand (none for a literal) -/
def Opd.labels (o : Opd) : List Nat := o.ind.getD []

structure BW where
  /-- meaning of `func` on the tuple of blocks of one task (one entry per `(arg, ind)` pair) -/
  f : List (Arr Int) → Arr Int
  outInd : List Nat
  ops : List Opd
  /-- `new_axes`: label ↦ chunks (`v if isinstance(v, tuple) else (v,)`) -/
  newAxes : List (Nat × List Nat) := []
  /-- `adjust_chunks`: label ↦ the adjusted chunks of that label -/
  adjust : List (Nat × List Nat) := []
  align : Bool := true
  /-- `bool(concatenate)` -/
  concat : Bool := false

/-! ### `Blockwise.chunks` -/

/-- `(label, chunks)` of every operand axis, in the order the `chunkss` loop visits them -/
def chunkPairs (ops : List Opd) : List (Nat × List Nat) :=
  ops.flatMap (fun o => match o.ind with | none => [] | some ind => ind.zip o.chunks)

/-- `if i not in chunkss or len(c) > len(chunkss[i]): chunkss[i] = c` -/
def mostBlocks (best : Option (List Nat)) (c : List Nat) : Option (List Nat) :=
  match best with
  | none => some c
  | some b => if c.length > b.length then some c else some b

/-- the `align_arrays=False` loop: the first chunking with the most blocks -/
def chunkssOwn (ops : List Opd) (l : Nat) : Option (List Nat) :=
  ((chunkPairs ops).filter (fun q => q.1 == l)).foldl (fun best q => mostBlocks best q.2) none

/-- `chunkss[l]` (`none` = `KeyError`) -/
def chunkss (U : Nat → List Nat) (bw : BW) (l : Nat) : Option (List Nat) :=
  match bw.newAxes.lookup l with
  | some v => some v
  | none =>
    if bw.align then (if (chunkPairs bw.ops).any (fun q => q.1 == l) then some (U l) else none)
    else chunkssOwn bw.ops l

/-- `Blockwise.chunks` -/
def outChunks (U : Nat → List Nat) (bw : BW) : Layout :=
  bw.outInd.map (fun l => (bw.adjust.lookup l).getD ((chunkss U bw l).getD []))

/-- `Blockwise.shape` -/
def outShape (U : Nat → List Nat) (bw : BW) : List Nat := (outChunks U bw).map List.sum

/-! ### `_lower`, the tasks, `compute()` -/

/-- `Blockwise._lower`: with `align_arrays` every array operand is rechunked to the unified chunks
of its labels (length-1 axes keep `(1,)`) -/
def alignOpd (U : Nat → List Nat) (o : Opd) : Opd :=
  match o.ind with
  | none => o
  | some ind =>
    if o.isArr then
      { o with chunks := (List.range ind.length).map (fun k =>
          Dask.Contract.alignChunks (o.arr.shape.getD k 0) (U (ind.getD k 0))) }
    else o

def lowered (U : Nat → List Nat) (bw : BW) : BW :=
  if bw.align then { bw with ops := bw.ops.map (alignOpd U) } else bw

/-- `_idx_to_block(block_id)[l]` (`none`: the label is contracted) -/
def blockCoord (bw : BW) (bid : List Nat) (l : Nat) : Option Nat :=
  if (bw.newAxes.lookup l).isSome then some 0
  else if bw.outInd.contains l then some (bid.getD (bw.outInd.idxOf l) 0)
  else none

/-- first position of the piece of an operand axis (label `l`, chunks `cs`) the task reads:
`_compute_block_id`: block `idx_to_block[l] % numblocks`; a contracted label: everything -/
def axisStart (bw : BW) (bid : List Nat) (l : Nat) (cs : List Nat) : Nat :=
  match blockCoord bw bid l with
  | some b => (cs.take (b % cs.length)).sum
  | none => 0

def axisLen (bw : BW) (bid : List Nat) (l : Nat) (cs : List Nat) : Nat :=
  match blockCoord bw bid l with
  | some b => cs.getD (b % cs.length) 0
  | none => cs.sum

def opExtent (bw : BW) (bid : List Nat) (o : Opd) : Extent :=
  ⟨(List.range o.labels.length).map (fun k => axisStart bw bid (o.labels.getD k 0) (o.chunks.getD k [])),
   (List.range o.labels.length).map (fun k => axisLen bw bid (o.labels.getD k 0) (o.chunks.getD k []))⟩

/-- `ArraySliceDep(chunks)[block_id]`: the `(start, stop)` of the block on every axis, as a `[rank, 2]` array -/
def sliceDepValue (ext : Extent) : Arr Int :=
  ⟨[ext.start.length, 2], fun i =>
    if i.getD 1 0 = 0 then (ext.start.getD (i.getD 0 0) 0 : Nat)
    else ((ext.start.getD (i.getD 0 0) 0 + ext.shape.getD (i.getD 0 0) 0 : Nat) : Int)⟩

/-- what the task of output block `bid` passes for one `(arg, ind)` pair -/
def opBlock (bw : BW) (bid : List Nat) (o : Opd) : Arr Int :=
  if o.isArr || o.ind.isNone then restrict o.arr (opExtent bw bid o) else sliceDepValue (opExtent bw bid o)

/-- the value the task of output block `bid` computes (after `_lower`) -/
def blockOf (U : Nat → List Nat) (bw : BW) (bid : List Nat) : Arr Int :=
  bw.f ((lowered U bw).ops.map (opBlock (lowered U bw) bid))

/-- what `compute()` returns -/
def den (U : Nat → List Nat) (bw : BW) : Arr Int := assemble (outChunks U bw) (blockOf U bw)

/-! ### the gates -/

/-- the declining conditions added by the `fix:` commits, individually switchable so that their
necessity can be stated; `{}` (all on) is the code as it is -/
structure Gates where
  /-- `_contracts_by_concatenation()` (de6ba02) -/
  concat : Bool := true
  /-- `not hasattr(arg, "_meta")` (3422420) -/
  nonArray : Bool := true
  /-- `arg.shape[pos] != self.shape[out_pos]` (5146f35, eb4658a) -/
  broadcast : Bool := true
  /-- `not self.align_arrays and arg.chunks[pos] != self.chunks[out_pos]` (45dd3ba) -/
  unaligned : Bool := true
  /-- `ind.count(shuffle_ind) > 1` (1a99595) -/
  repeated : Bool := true

/-- `_contracts_by_concatenation` -/
def contractsByConcat (bw : BW) : Bool :=
  bw.concat && bw.ops.any (fun o => match o.ind with
    | none => false
    | some ind => ind.any (fun i => !bw.outInd.contains i))

/-- `idx == slice(None)` -/
def isColon : Ix → Bool
  | .slc s => decide (s = ⟨none, none, none⟩)
  | .int _ => false

def isInt : Ix → Bool
  | .int _ => true
  | .slc _ => false

/-- `slice(idx, idx + 1) if isinstance(idx, Integral) else idx` -/
def intToSlice : Ix → Ix
  | .int k => .slc ⟨some k, some (k + 1), none⟩
  | .slc s => .slc s

/-- `0 if isinstance(idx, Integral) else slice(None)` -/
def extractIx : Ix → Ix
  | .int _ => .int 0
  | .slc _ => colonIx

/-- `index + (slice(None),) * (len(out_ind) - len(index))` -/
def fullIndex (bw : BW) (index : List Ix) : List Ix :=
  index ++ List.replicate (bw.outInd.length - index.length) colonIx

/-- `sliced_axes` -/
def slicedAxes (full : List Ix) : List Nat :=
  (List.range full.length).filter (fun i => !isColon (full.getD i colonIx))

/-- `sliced_indices` -/
def slicedLabels (bw : BW) (full : List Ix) : List Nat :=
  ((slicedAxes full).filter (fun a => decide (a < bw.outInd.length))).map (fun a => bw.outInd.getD a 0)

/-- the checks of one operand axis (`pos`, label `l`) in the exact path; `true` = no `return None` -/
def sliceAxisOK (G : Gates) (U : Nat → List Nat) (bw : BW) (full : List Ix) (o : Opd) (pos : Nat) (l : Nat) : Bool :=
  if bw.outInd.contains l then
    let outPos := bw.outInd.idxOf l
    let sliced := (slicedAxes full).contains outPos
    -- `out_pos in sliced_axes and arg.shape[pos] != self.shape[out_pos]`
    !(G.broadcast && sliced && decide (o.arr.shape.getD pos 0 ≠ (outShape U bw).getD outPos 0)) &&
    -- `out_pos in sliced_axes and not self.align_arrays and arg.chunks[pos] != self.chunks[out_pos]`
    !(G.unaligned && sliced && !bw.align && decide (o.chunks.getD pos [] ≠ (outChunks U bw).getD outPos []))
  else true  -- `except ValueError: arg_slices.append(slice(None)); continue`

/-- `arg_slices` of one operand -/
def argSlices (bw : BW) (full : List Ix) (ind : List Nat) : List Ix :=
  ind.map (fun l => if bw.outInd.contains l then intToSlice (full.getD (bw.outInd.idxOf l) colonIx) else colonIx)

/-- one `(arg, ind)` pair of the exact path: `none` = `return None`, `some none` = passed through
(literal), `some (some ixs)` = `new_collection(arg)[ixs]` -/
def sliceArg (G : Gates) (U : Nat → List Nat) (bw : BW) (full : List Ix) (o : Opd) : Option (Option (List Ix)) :=
  match o.ind with
  | none => some none
  | some ind =>
    if G.nonArray && !o.isArr then none
    else if (List.range ind.length).all (fun pos => sliceAxisOK G U bw full o pos (ind.getD pos 0)) then
      some (some (argSlices bw full ind))
    else none

inductive Route
  /-- `return None` -/
  | decline
  /-- `return self._accept_slice_coarse(...)` (not modelled) -/
  | coarse
  /-- the exact pushdown: per `(arg, ind)` pair the index applied to it (`none`: untouched), and the
  `extract_index` of the wrapping `SliceSlicesIntegers` when the index had integers -/
  | exact (args : List (Option (List Ix))) (extract : Option (List Ix))
deriving DecidableEq, Repr

/-- `Blockwise._accept_slice` for a node whose class has no `array` parameter -/
def acceptSliceG (G : Gates) (U : Nat → List Nat) (bw : BW) (index : List (Option Ix)) : Route :=
  if index.any Option.isNone then .decline
  else if G.concat && contractsByConcat bw then .decline
  else
    let full := fullIndex bw (index.filterMap id)
    let labels := slicedLabels bw full
    let needsCoarse := !bw.adjust.isEmpty && labels.any (fun l => (bw.adjust.lookup l).isSome)
    if !bw.newAxes.isEmpty && labels.any (fun l => (bw.newAxes.lookup l).isSome) then .decline
    else if needsCoarse then .coarse
    else
      -- the loop over the `(arg, ind)` pairs: the first `return None` wins, nothing else can happen
      if bw.ops.all (fun o => (sliceArg G U bw full o).isSome) then
        .exact (bw.ops.map (fun o => (sliceArg G U bw full o).getD none))
          (if full.any isInt then some (full.map extractIx) else none)
      else .decline

def acceptSlice (U : Nat → List Nat) (bw : BW) (index : List (Option Ix)) : Route := acceptSliceG {} U bw index

/-- one `(arg, ind)` pair of `_accept_shuffle`: `some (some a)` = `Shuffle(arr, indexer, a)` -/
def shuffleArg (G : Gates) (U : Nat → List Nat) (bw : BW) (axis : Nat) (o : Opd) : Option (Option Nat) :=
  let l := bw.outInd.getD axis 0
  match o.ind with
  | none => some none
  | some ind =>
    if ind.contains l then
      if G.nonArray && !o.isArr then none
      else if G.repeated && decide (ind.count l > 1) then none
      else
        let a := ind.idxOf l
        if G.broadcast && decide (o.arr.shape.getD a 0 ≠ (outShape U bw).getD axis 0) then none
        else if G.unaligned && !bw.align && decide (o.chunks.getD a [] ≠ (outChunks U bw).getD axis []) then none
        else some (some a)
    else some none

/-- `Blockwise._accept_shuffle`: `none` = `return None`, else per pair the shuffled axis -/
def acceptShuffleG (G : Gates) (U : Nat → List Nat) (bw : BW) (axis : Nat) : Option (List (Option Nat)) :=
  if G.concat && contractsByConcat bw then none
  else
    let l := bw.outInd.getD axis 0
    if !bw.newAxes.isEmpty && (bw.newAxes.lookup l).isSome then none
    else if !bw.adjust.isEmpty && (bw.adjust.lookup l).isSome then none
    else if bw.ops.all (fun o => (shuffleArg G U bw axis o).isSome) then
      some (bw.ops.map (fun o => (shuffleArg G U bw axis o).getD none))
    else none

def acceptShuffle (U : Nat → List Nat) (bw : BW) (axis : Nat) : Option (List (Option Nat)) :=
  acceptShuffleG {} U bw axis

/-! ### the rewritten node -/

/-- NumPy `a[ixs]` (one item per axis) -/
def sliceArr (a : Arr Int) (ixs : List Ix) : Arr Int :=
  ⟨sliceShape a.shape ixs, fun i => a.get (sliceIdx a.shape ixs i)⟩

/-- `np.take(a, flat, axis)` -/
def takeArr (a : Arr Int) (axis : Nat) (flat : List Nat) : Arr Int :=
  ⟨a.shape.set axis flat.length, fun i => a.get (i.set axis (flat.getD (i.getD axis 0) 0))⟩

/-- `new_collection(arg)[ixs]` -/
def sliceOpd (o : Opd) : Option (List Ix) → Opd
  | none => o
  | some ixs => { o with arr := sliceArr o.arr ixs, chunks := sliceChunks o.arr.shape o.chunks ixs }

/-- `Shuffle.chunks` on the shuffled axis: `tuple(map(len, self._new_chunks))`, `limit = max(chunks[axis])` -/
def shuffleChunks (cs : List Nat) (indexer : List (List Nat)) : List Nat :=
  (Dask.Indexing.newChunks (cs.foldl max 0) (indexer.map (fun g => g.map Int.ofNat))).map List.length

/-- `Shuffle(arr, indexer, a)` -/
def takeOpd (indexer : List (List Nat)) (o : Opd) : Option Nat → Opd
  | none => o
  | some a =>
    { o with arr := takeArr o.arr a indexer.flatten
             chunks := o.chunks.set a (shuffleChunks (o.chunks.getD a []) indexer) }

/-- the index pushed into the node -/
inductive Index
  /-- `SliceSlicesIntegers.index` (`none` = `np.newaxis`) -/
  | basic (index : List (Option Ix))
  /-- `Shuffle(·, indexer, axis)` -/
  | take (axis : Nat) (indexer : List (List Nat))

/-- the output labels an index acts on -/
def indexedLabels (bw : BW) : Index → List Nat
  | .basic index => slicedLabels bw (fullIndex bw (index.filterMap id))
  | .take axis _ => [bw.outInd.getD axis 0]

/-- the rewritten node -/
structure Pushed where
  bw : BW
  /-- `SliceSlicesIntegers(result, extract_index)` around the new node -/
  extract : Option (List Ix)

def pushG (G : Gates) (U : Nat → List Nat) (bw : BW) : Index → Option Pushed
  | .basic index =>
    match acceptSliceG G U bw index with
    | .exact args ex => some ⟨{ bw with ops := List.zipWith sliceOpd bw.ops args }, ex⟩
    | _ => none
  | .take axis indexer =>
    match acceptShuffleG G U bw axis with
    | some axes => some ⟨{ bw with ops := List.zipWith (takeOpd indexer) bw.ops axes }, none⟩
    | none => none

/-- the rewrite as it is (all gates on) -/
def push (U : Nat → List Nat) (bw : BW) (idx : Index) : Option Pushed := pushG {} U bw idx

/-- the pushdown fires (exact path) -/
def gate (U : Nat → List Nat) (bw : BW) (idx : Index) : Bool := (push U bw idx).isSome

/-- what the rewritten expression computes; `U'` = the chunks `unify_chunks` picks for the NEW operands -/
def denPushed (U' : Nat → List Nat) (p : Pushed) : Arr Int :=
  match p.extract with
  | none => den U' p.bw
  | some ex => sliceArr (den U' p.bw) ex

/-- NumPy meaning of the index on the result `y` of the node (`rank` = `len(out_ind)`) -/
def applyIndex (rank : Nat) (y : Arr Int) : Index → Arr Int
  | .basic index =>
    let ix := index.filterMap id
    sliceArr y (ix ++ List.replicate (rank - ix.length) colonIx)
  | .take axis indexer => takeArr y axis indexer.flatten

/-! ### label-local block functions -/

/-- what `LabelLocal` needs to know about a node -/
structure Sig where
  outInd : List Nat
  /-- labels per `(arg, ind)` pair (`[]` for a literal) -/
  inds : List (List Nat)
  /-- new-axis label ↦ its length -/
  newLen : List (Nat × Nat)
  /-- `adjust_chunks` labels -/
  adj : List Nat

def BW.sig (bw : BW) : Sig :=
  ⟨bw.outInd, bw.ops.map Opd.labels, bw.newAxes.map (fun q => (q.1, q.2.sum)), bw.adjust.map (·.1)⟩

/-- the labels along which the function has to be local: output labels that are neither new axes nor
`adjust_chunks` labels -/
def Sig.point (s : Sig) (l : Nat) : Bool :=
  s.outInd.contains l && (s.newLen.lookup l).isNone && !s.adj.contains l

/-- a re-indexing of labels: label `l` (when `act l`) gets length `len l`, new position `x` reads old
position `map l x` -/
structure Reix where
  act : Nat → Bool
  len : Nat → Nat
  map : Nat → Nat → Nat

/-- the re-indexing touches an axis with label `l` and length `n` iff it acts on `l` and the axis is not
broadcast along `l` (`N l` = the label's length) -/
def Reix.on (R : Reix) (N : Nat → Nat) (l n : Nat) : Bool := R.act l && n == N l

/-- `a` (axes labelled `ind`) gathered along the labels `R` acts on -/
def reix (R : Reix) (N : Nat → Nat) (ind : List Nat) (a : Arr Int) : Arr Int :=
  ⟨(List.range ind.length).map (fun k =>
      if R.on N (ind.getD k 0) (a.shape.getD k 0) then R.len (ind.getD k 0) else a.shape.getD k 0),
   fun j => a.get ((List.range ind.length).map (fun k =>
      if R.on N (ind.getD k 0) (a.shape.getD k 0) then R.map (ind.getD k 0) (j.getD k 0) else j.getD k 0))⟩

/-- `N` gives the lengths of the point labels in the tuple `bs`: every axis carrying a point label has
that length or is broadcast (length 1), and some axis has that length -/
def IsLen (s : Sig) (bs : List (Arr Int)) (N : Nat → Nat) : Prop :=
  bs.length = s.inds.length ∧
  (∀ t, t < s.inds.length → (s.inds.getD t []).length = (bs.getD t ⟨[], fun _ => 0⟩).shape.length) ∧
  (∀ t k, t < s.inds.length → k < (s.inds.getD t []).length → s.point ((s.inds.getD t []).getD k 0) = true →
    (bs.getD t ⟨[], fun _ => 0⟩).shape.getD k 0 = N ((s.inds.getD t []).getD k 0) ∨
    (bs.getD t ⟨[], fun _ => 0⟩).shape.getD k 0 = 1) ∧
  (∀ l, s.point l = true → ∃ t k, t < s.inds.length ∧ k < (s.inds.getD t []).length ∧
    (s.inds.getD t []).getD k 0 = l ∧ (bs.getD t ⟨[], fun _ => 0⟩).shape.getD k 0 = N l)

/-- the shape of the result for label lengths `N` -/
def Sig.outShape (s : Sig) (N : Nat → Nat) : List Nat :=
  s.outInd.map (fun l => (s.newLen.lookup l).getD (N l))

/-- `f` is a function of the VALUES of its blocks, its result has the label shape, and it commutes with
every re-indexing of point labels -/
structure LabelLocal (s : Sig) (f : List (Arr Int) → Arr Int) : Prop where
  congr : ∀ bs bs', bs.length = bs'.length →
    (∀ t, t < bs.length → Arr.Equiv (bs.getD t ⟨[], fun _ => 0⟩) (bs'.getD t ⟨[], fun _ => 0⟩)) →
    Arr.Equiv (f bs) (f bs')
  shape : ∀ bs N, IsLen s bs N → (f bs).shape = s.outShape N
  natural : ∀ (R : Reix) bs N, IsLen s bs N →
    (∀ l, R.act l = true → s.point l = true) →
    (∀ l, R.act l = true → ∀ x, x < R.len l → R.map l x < N l) →
    Arr.Equiv (f ((List.range s.inds.length).map (fun t =>
        reix R N (s.inds.getD t []) (bs.getD t ⟨[], fun _ => 0⟩))))
      (reix R N s.outInd (f bs))

/-! ### well-formedness (decidable) -/

/-- the whole operand values -/
def BW.wholes (bw : BW) : List (Arr Int) := bw.ops.map (·.arr)

/-- `(label, axis length)` of every operand axis -/
def lenPairs (ops : List Opd) : List (Nat × Nat) :=
  ops.flatMap (fun o => o.labels.zip o.arr.shape)

/-- the length of label `l`: the first axis length ≠ 1 among the axes that carry it, else 1 (NumPy) -/
def labLen (bw : BW) (l : Nat) : Nat :=
  Dask.Contract.bdim (((lenPairs bw.ops).filter (fun q => q.1 == l)).map (·.2))

/-- structure: distinct output labels; ranks agree; every non-literal operand is an array whose blocks have the
advertised rank; new axes are single-chunk output labels that no operand carries; every other output label is
carried by an operand; every axis carrying an output label has the label's length or length 1; no
`adjust_chunks` -/
def BW.wfS (bw : BW) : Bool :=
  decide bw.outInd.Nodup &&
  bw.ops.all (fun o => decide (o.labels.length = o.arr.shape.length) && decide (o.chunks.length = o.arr.shape.length) &&
    ((o.isArr && o.pieceRank.isNone) || o.ind.isNone)) &&
  bw.newAxes.all (fun q => bw.outInd.contains q.1 && decide (q.2.length = 1) &&
    !(lenPairs bw.ops).any (fun p => p.1 == q.1)) &&
  decide (bw.newAxes.map (·.1)).Nodup &&
  bw.outInd.all (fun l => (bw.newAxes.lookup l).isSome || (lenPairs bw.ops).any (fun p => p.1 == l && p.2 == labLen bw l)) &&
  (lenPairs bw.ops).all (fun p => !bw.outInd.contains p.1 || p.2 == labLen bw p.1 || p.2 == 1) &&
  bw.adjust.isEmpty

/-- the chunk layout in force (after `_lower`): every output label has non-empty chunks summing to its
length; every operand axis has chunks summing to its length; an axis carrying an output label has the
label's chunks, or is a broadcast axis `(1,)` -/
def layoutOK (U : Nat → List Nat) (bw : BW) : Bool :=
  bw.outInd.all (fun l => (bw.newAxes.lookup l).isSome ||
    (decide (((chunkss U bw l).getD []).sum = labLen bw l) && !((chunkss U bw l).getD []).isEmpty)) &&
  (lowered U bw).ops.all (fun o =>
    decide (o.chunks.length = o.arr.shape.length) &&
    (List.range o.labels.length).all (fun k =>
      decide ((o.chunks.getD k []).sum = o.arr.shape.getD k 0) &&
      (!bw.outInd.contains (o.labels.getD k 0) ||
        decide (o.chunks.getD k [] = (chunkss U bw (o.labels.getD k 0)).getD []) ||
        (o.arr.shape.getD k 0 == 1 && labLen bw (o.labels.getD k 0) != 1 && decide (o.chunks.getD k [] = [1])))))

/-- the index is what `normalize_index` / `take` produce for the node's shape `sh`: no `None`, at most one
item per axis, integers in `[0, n)`, steps ≠ 0; a take has its axis in range and positions in `[0, n)` -/
def indexOK (sh : List Nat) : Index → Bool
  | .basic index =>
    let ix := index.filterMap id
    !index.any Option.isNone && decide (ix.length ≤ sh.length) &&
    (List.range ix.length).all (fun k =>
      match ix.getD k colonIx with
      | .int v => decide (0 ≤ v ∧ v < (sh.getD k 0 : Int))
      | .slc s => decide (s.stp ≠ 0))
  | .take axis indexer =>
    decide (axis < sh.length) && indexer.flatten.all (fun p => decide (p < sh.getD axis 0))

/-! ### members of the class: elementwise functions with NumPy broadcasting over labels -/

/-- read with the out-of-bounds case pinned (a NumPy function never reads there) -/
def getS (a : Arr Int) (i : List Nat) : Int := if InB i a.shape then a.get i else 0

/-- the position an operand (axes labelled `ind`, shape `shape`) is read at for the output index `i`:
axis `k` reads coordinate `i[out_ind.index(ind[k])]`, a length-1 axis reads 0 -/
def rdL (outInd ind shape : List Nat) (i : List Nat) : List Nat :=
  (List.range ind.length).map (fun k =>
    Dask.Contract.bc (shape.getD k 0) (i.getD (outInd.idxOf (ind.getD k 0)) 0))

/-- the lengths of all axes of the tuple `bs` that carry label `l` -/
def lensOf (inds : List (List Nat)) (bs : List (Arr Int)) (l : Nat) : List Nat :=
  (List.range inds.length).flatMap (fun t =>
    (((inds.getD t []).zip (bs.getD t ⟨[], fun _ => 0⟩).shape).filter (fun q => q.1 == l)).map (·.2))

/-- `out[i] = g(x_0[i restricted to the labels of x_0], x_1[…], …)` with NumPy broadcasting: ufuncs of any
arity, outer products, `x + y.T`, … (every operand label occurs in `out_ind`) -/
def pwFn (outInd : List Nat) (inds : List (List Nat)) (g : List Int → Int) (bs : List (Arr Int)) : Arr Int :=
  ⟨outInd.map (fun l => Dask.Contract.bdim (lensOf inds bs l)),
   fun i => g ((List.range inds.length).map (fun t =>
     getS (bs.getD t ⟨[], fun _ => 0⟩)
       (rdL outInd (inds.getD t []) (bs.getD t ⟨[], fun _ => 0⟩).shape i)))⟩

/-- a member with a CONTRACTED label: `out[i] = Σ_k x[i, k]` (`blockwise(lambda bs: sum(b.sum(axis=1) for b in bs), 'i', x, 'ik')`;
the task receives all blocks along `k`) -/
def rowSumFn (bs : List (Arr Int)) : Arr Int :=
  let b := bs.getD 0 ⟨[], fun _ => 0⟩
  ⟨[b.shape.getD 0 0], fun i => isum ((List.range (b.shape.getD 1 0)).map (fun k => getS b [i.getD 0 0, k]))⟩

end Dask.BWG
