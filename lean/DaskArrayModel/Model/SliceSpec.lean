/-
Specification vocabulary for the per-block slice plan (`_slice_1d`): what the plan
reads, in global coordinates.  Short enough to read in a minute.
-/
import DaskArrayModel.Model.Slicing
namespace Dask.Slicing
open Dask.Py Dask.Py.PySlice

/-- global position of the first element of block `k`. -/
def blockStart (lengths : List Int) (k : Nat) : Int := isum (lengths.take k)

/-- Global positions read by a plan, block by block in the order given: block `k` of
length `lengths[k]` is indexed (NumPy semantics, `sel`) with its local slice and the
local positions are shifted by the block's start. -/
def planPositions (lengths : List Int) (plan : List (Nat × PySlice)) : List Int :=
  plan.flatMap (fun p => (sel p.2 (lengths.getD p.1 0)).map (· + blockStart lengths p.1))

/-- per-block piece lengths of a plan, in the order given. -/
def planLengths (lengths : List Int) (plan : List (Nat × PySlice)) : List Int :=
  plan.map (fun p => ((sel p.2 (lengths.getD p.1 0)).length : Int))

/-- the plan in output-block order: ascending block number for positive steps,
descending for negative steps (as `SliceSlicesIntegers._layer` / `new_blockdim` do). -/
def orderedPlan (step : Int) (plan : List (Nat × PySlice)) : List (Nat × PySlice) :=
  if step < 0 then (sortByKey plan).reverse else sortByKey plan

end Dask.Slicing
