/-
Model of `gradient` (dask_array/routines/_gradient.py) along ONE axis.

For every requested axis the code
  1. raises `ValueError` when a chunk of the axis is smaller than `edge_order + 1` (`chunkGuard`);
  2. for a NON-SCALAR spacing computes, from the chunk sizes alone, the coordinate slice of every block
     "taking overlap into account" (`arrayLocs`):
         chunk = np.array(f.chunks[ax])
         array_loc_stop  = np.cumsum(chunk) + 1
         array_loc_start = array_loc_stop - chunk - 2
         array_loc_stop[-1] -= 1
         array_loc_start[0] = 0
  3. calls `map_overlap(_gradient_kernel, f, depth={ax: 1}, boundary="none", …)`; the kernel of block `block_id`
     slices `coord[array_locs[0][b] : array_locs[1][b]]` (Python slice semantics, `coordSlice`) and returns
     `np.gradient(x, coord, axis, edge_order)` of the EXTENDED block, which `map_overlap` trims.

The model works on one axis: `f : List V`, `coords : List C`, the blocks `cut cs f` of Model/OverlapPipe.lean, the
extended blocks `extBlock 1 1`, and the trim `trimInternal .none 1 1` — `map_overlap` with depth 1 and boundary `none`
is `pipelineBlocks .none 1 1` of that file (package `ovp`, proved equal to the global stencil for window-local
functions in Props/C19Overlap.lean).  `np.gradient` itself is a parameter `K : List γ → List β` on the list of
samples (`γ = V` for a scalar spacing, `γ = V × C` for a coordinate array) of the class `EdgeLocal m K`:
  * the output has one entry per sample (for at least `m` samples; NumPy raises for fewer);
  * an entry strictly inside depends only on the sample and its two neighbours (central difference);
  * the first entry depends only on the first `m` samples, the last one only on the last `m`
    (`m = edge_order + 1`: 2 points for `edge_order=1`, 3 for `edge_order=2`).
`edgeKernel m c L R` is the canonical member and `npGradient edgeOrder` (values and coordinates in `Rat`, NumPy's
formulas for non-uniform spacing — over ℚ they coincide with the uniform-spacing branch NumPy switches to when all
differences of the coordinates IT IS GIVEN are equal) is an instance.  Core Lean only.
-/
import DaskArrayModel.Model.OverlapPipe
namespace Dask.Gradient
open Dask.Py Dask.OverlapSlice Dask.OverlapPipe

variable {α β γ V C : Type}

/-! ### the chunk guard -/

/-- `for c in f.chunks[ax]: if np.min(c) < kwargs["edge_order"] + 1: raise ValueError(...)`; `true` = no raise -/
def chunkGuard (edgeOrder : Int) (chunks : List Int) : Bool :=
  chunks.all (fun c => !(c < edgeOrder + 1))

/-! ### `array_locs` -/

/-- `a[-1] -= 1` on a non-empty list (NumPy raises `IndexError` on an empty one: `none`) -/
def decLast : List Int → Option (List Int)
  | [] => none
  | [a] => some [a - 1]
  | a :: b :: r => (decLast (b :: r)).map (a :: ·)

/-- `a[0] = 0` -/
def setFirstZero : List Int → Option (List Int)
  | [] => none
  | _ :: r => some (0 :: r)

/-- `(array_loc_start, array_loc_stop)`; `none` = `IndexError` (an axis without chunks; cannot happen) -/
def arrayLocs (chunk : List Int) : Option (List Int × List Int) :=
  -- array_loc_stop = np.cumsum(chunk) + 1
  let stop0 := (cumsum chunk).map (· + 1)
  -- array_loc_start = array_loc_stop - chunk - 2
  let start0 := List.zipWith (fun s c => s - c - 2) stop0 chunk
  -- array_loc_stop[-1] -= 1
  match decLast stop0 with
  | none => none
  | some stop =>
    -- array_loc_start[0] = 0
    match setFirstZero start0 with
    | none => none
    | some start => some (start, stop)

/-- the seeded regression: the start of block `b` computed as `b * first_chunk - 1` (right only for uniform
chunks); used only by the witness theorem -/
def arrayLocsUniformBug (chunk : List Int) : Option (List Int × List Int) :=
  let first := chunk.headD 0
  let start0 := (List.range chunk.length).map (fun (b : Nat) => (b : Int) * first - 1)
  let stop0 := List.zipWith (fun s c => s + c + 2) start0 chunk
  match decLast stop0 with
  | none => none
  | some stop =>
    match setFirstZero start0 with
    | none => none
    | some start => some (start, stop)

/-- `coord[array_locs[0][block_loc] : array_locs[1][block_loc]]`, Python slice semantics (negative bounds wrap,
everything clamps); `none` = `IndexError` from `array_locs[…][block_loc]` -/
def coordSliceWith (locs : Option (List Int × List Int)) (coords : List C) (b : Nat) : Option (List C) :=
  match locs with
  | none => none
  | some (start, stop) =>
    match start[b]?, stop[b]? with
    | some s, some e => some (getSl ⟨some s, some e, none⟩ coords)
    | _, _ => none

def coordSlice (cs : List Nat) (coords : List C) (b : Nat) : Option (List C) :=
  coordSliceWith (arrayLocs (cs.map Int.ofNat)) coords b

/-! ### what one block's `np.gradient` call receives -/

/-- SPEC: positions `[lo_k - (k>0), lo_k + c_k + (k<last))` of the axis -/
def slab (cs : List Nat) (x : List α) (k : Nat) : List α :=
  (x.drop (lo cs k - (if 0 < k then 1 else 0))).take
    ((if 0 < k then 1 else 0) + cs.getD k 0 + (if k + 1 < cs.length then 1 else 0))


/-- the values: block `b` of `overlap(f, depth=1, boundary="none")` -/
def blockValues (cs : List Nat) (f : List V) (b : Nat) : List V := extBlock 1 1 (cut cs f) b

/-- values zipped with the coordinate slice; `none` = the kernel raises (`IndexError` from `array_locs`, or
NumPy's `ValueError` "when 1d, distances must match the length of the corresponding dimension") -/
def blockInput (cs : List Nat) (f : List V) (coords : List C) (b : Nat) : Option (List (V × C)) :=
  match coordSlice cs coords b with
  | none => none
  | some c =>
    let v := blockValues cs f b
    if c.length = v.length then some (v.zip c) else none

/-! ### the chunked gradient along the axis -/

/-- scalar spacing: `map_overlap(np.gradient(·, h), f, depth=1, boundary="none")`, blocks after the trim -/
def gradientBlocks (cs : List Nat) (K : List γ → List β) (x : List γ) : List (List β) :=
  pipelineBlocks .none 1 1 cs K x

def gradientAxis (cs : List Nat) (K : List γ → List β) (x : List γ) : List β :=
  (gradientBlocks cs K x).flatten

/-- coordinate-array spacing: every block's kernel call on `blockInput`, then `trim_internal` -/
def gradientCoordBlocks (cs : List Nat) (K : List (V × C) → List β) (f : List V) (coords : List C) :
    Option (List (List β)) :=
  ((List.range cs.length).mapM (blockInput cs f coords)).map (fun ins => trimInternal .none 1 1 (ins.map K))

def gradientCoordAxis (cs : List Nat) (K : List (V × C) → List β) (f : List V) (coords : List C) :
    Option (List β) :=
  (gradientCoordBlocks cs K f coords).map List.flatten

/-! ### the kernel class -/

/-- the class of `np.gradient(·, edge_order = m - 1)` along one axis -/
def EdgeLocal (m : Nat) (K : List γ → List β) : Prop :=
  (∀ e, m ≤ e.length → (K e).length = e.length) ∧
  (∀ e e' i j, m ≤ e.length → m ≤ e'.length → i + 2 < e.length → j + 2 < e'.length →
    window 3 e i = window 3 e' j → (K e)[i + 1]? = (K e')[j + 1]?) ∧
  (∀ e e', m ≤ e.length → m ≤ e'.length → e.take m = e'.take m → (K e)[0]? = (K e')[0]?) ∧
  (∀ e e', m ≤ e.length → m ≤ e'.length → lastN m e = lastN m e' →
    (K e)[e.length - 1]? = (K e')[e'.length - 1]?)

/-- the canonical member: `L` of the first `m` samples, the central formula `c` inside, `R` of the last `m`;
nothing (NumPy raises) below `max m 2` samples -/
def edgeKernel (m : Nat) (c : γ → γ → γ → β) (L R : List γ → β) (e : List γ) : List β :=
  if e.length < max m 2 then []
  else
    [L (e.take m)] ++
    (List.zipWith (fun (pq : γ × γ) r => c pq.1 pq.2 r) (e.zip (e.drop 1)) (e.drop 2)) ++
    [R (lastN m e)]

/-! ### NumPy's formulas over ℚ -/

/-- interior: `a f[i-1] + b f[i] + c f[i+1]`, `dx1 = x[i]-x[i-1]`, `dx2 = x[i+1]-x[i]`,
`a = -dx2/(dx1 (dx1+dx2))`, `b = (dx2-dx1)/(dx1 dx2)`, `c = dx1/(dx2 (dx1+dx2))` -/
def npCentral (p q r : Rat × Rat) : Rat :=
  let dx1 := q.2 - p.2
  let dx2 := r.2 - q.2
  (-dx2 / (dx1 * (dx1 + dx2))) * p.1 + ((dx2 - dx1) / (dx1 * dx2)) * q.1 + (dx1 / (dx2 * (dx1 + dx2))) * r.1

/-- first entry. `edge_order = 1`: `(f[1]-f[0])/dx[0]`; `edge_order = 2`: `a f[0] + b f[1] + c f[2]` with
`a = -(2dx1+dx2)/(dx1(dx1+dx2))`, `b = (dx1+dx2)/(dx1 dx2)`, `c = -dx1/(dx2(dx1+dx2))` -/
def npLeft (edgeOrder : Nat) (e : List (Rat × Rat)) : Rat :=
  match edgeOrder, e with
  | 1, p :: q :: _ => (q.1 - p.1) / (q.2 - p.2)
  | 2, p :: q :: r :: _ =>
    let dx1 := q.2 - p.2
    let dx2 := r.2 - q.2
    (-(2 * dx1 + dx2) / (dx1 * (dx1 + dx2))) * p.1 + ((dx1 + dx2) / (dx1 * dx2)) * q.1 +
      (-dx1 / (dx2 * (dx1 + dx2))) * r.1
  | _, _ => 0

/-- last entry, given the last `edge_order + 1` samples. `edge_order = 1`: `(f[-1]-f[-2])/dx[-1]`;
`edge_order = 2`: `a = dx2/(dx1(dx1+dx2))`, `b = -(dx2+dx1)/(dx1 dx2)`, `c = (2dx2+dx1)/(dx2(dx1+dx2))` -/
def npRight (edgeOrder : Nat) (e : List (Rat × Rat)) : Rat :=
  match edgeOrder, e with
  | 1, [p, q] => (q.1 - p.1) / (q.2 - p.2)
  | 2, [p, q, r] =>
    let dx1 := q.2 - p.2
    let dx2 := r.2 - q.2
    (dx2 / (dx1 * (dx1 + dx2))) * p.1 + (-(dx2 + dx1) / (dx1 * dx2)) * q.1 +
      ((2 * dx2 + dx1) / (dx2 * (dx1 + dx2))) * r.1
  | _, _ => 0

/-- `np.gradient(f, x, edge_order=edgeOrder)` on samples `(f_i, x_i)` -/
def npGradient (edgeOrder : Nat) : List (Rat × Rat) → List Rat :=
  edgeKernel (edgeOrder + 1) npCentral (npLeft edgeOrder) (npRight edgeOrder)

end Dask.Gradient
