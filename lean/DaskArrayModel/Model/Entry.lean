/-
L5 models for
  C05 — every compute / persist / optimize entry point agrees
        (`dask_array/_collection.py` Array.compute / persist / _pinned / __dask_postpersist__ / to_delayed,
         `dask_array/io/_from_graph.py` FromGraph._find_layer_key / _keys_by_block_id / _inferred_layer_name / _layer,
         `dask_array/_materialize.py` _materialize (the RootAlias pin), `dask_array/_expr.py` ArrayExpr.__dask_graph__)
  C09 — results do not depend on materialization history or planner configuration
        (`dask_array/_materialize.py` _LOWER_CACHE / _lower / _materialize, `dask/_expr.py` Expr.lower_once,
         the `lower_once` overrides of RootAlias / FromGraph / exact-name FromArray)
Core Lean only (no Mathlib): the driver links `Dask.Entry` natively (family `en.*`, Drv/Entry.lean).
Every `def` that mirrors Python names the function it mirrors.
-/
namespace Dask.Entry

/-! ## keys, layers (Python dicts), evaluation -/

abbrev BlockId := List Nat

/-- a block key `(name, *block_id)` -/
structure Key where
  name : String
  bid : BlockId
deriving DecidableEq, Repr

/-- the block grid `product(*(range(len(c)) for c in chunks))`, in `itertools.product` order;
`nb = [len(c) for c in chunks]` -/
def grid : List Nat → List BlockId
  | [] => [[]]
  | n :: ns => (List.range n).flatMap (fun b => (grid ns).map (fun bs => b :: bs))

/-- what a graph holds under a key.  A task is abstracted by the value it evaluates to in its graph
(closure / order-independence of that evaluation are C04 / C10); `alias t` is `Alias(key, t)`. -/
inductive Node (V : Type) where
  | data (v : V)
  | task (v : V)
  | alias (t : Key)
deriving Repr

/-- `isinstance(value, GraphNode) or istask(value)` -/
def Node.isTask {V : Type} : Node V → Bool
  | .data _ => false
  | _ => true

/-- a Python dict from block keys to graph entries (association list; the first binding of a key is
the binding — `set` keeps keys unique) -/
abbrev Layer (V : Type) := List (Key × Node V)

/-- `dsk.get(k)` -/
def get? {V : Type} : Layer V → Key → Option (Node V)
  | [], _ => none
  | (k', v) :: r, k => if k' = k then some v else get? r k

/-- `k in dsk` -/
def has {V : Type} (l : Layer V) (k : Key) : Bool := (get? l k).isSome

/-- `del dsk[k]` -/
def erase {V : Type} (l : Layer V) (k : Key) : Layer V := l.filter (fun p => !decide (p.1 = k))

/-- `dsk[k] = v` -/
def assign {V : Type} (l : Layer V) (k : Key) (v : Node V) : Layer V := (k, v) :: erase l k

/-- the value the scheduler returns for key `k` of graph `l` (`fuel` bounds alias chains) -/
def evalKey {V : Type} : Nat → Layer V → Key → Option V
  | 0, _, _ => none
  | fuel + 1, l, k =>
    match get? l k with
    | none => none
    | some (.data v) => some v
    | some (.task v) => some v
    | some (.alias t) => evalKey fuel l t

/-- scheduler result for one key; two hops suffice for every graph built here (an alias to a non-alias) -/
def eval {V : Type} (l : Layer V) (k : Key) : Option V := evalKey (l.length + 1) l k

/-! ## `FromGraph` (io/_from_graph.py) -/

inductive Err where
  | valueError    -- "from_graph cannot find output block …" / "two output keys for block"
  | keyError
  | runtimeError  -- `_materialize`: "optimization embedded the original root … cannot pin output keys"
deriving DecidableEq, Repr

/-- operands of a `FromGraph` node that the key bookkeeping reads:
`layer`, `[len(c) for c in chunks]`, `keys`, `name` -/
structure FromGraph (V : Type) where
  layer : Layer V
  numblocks : List Nat
  keys : List Key
  name : String

/-- `FromGraph._keys_by_block_id`: `by_block_id.setdefault(key[1:], key)`; two different keys for one
block id raise ValueError.  `acc` is the dict built so far. -/
def keysByBlockId : List Key → List (BlockId × Key) → Except Err (List (BlockId × Key))
  | [], acc => .ok acc
  | k :: ks, acc =>
    match acc.lookup k.bid with
    | none => keysByBlockId ks (acc ++ [(k.bid, k)])
    | some other => if other = k then keysByBlockId ks acc else .error .valueError

/-- `block_ids[name]` as a list -/
def bidsOf {V : Type} (l : Layer V) (ndim : Nat) (n : String) : List BlockId :=
  (l.filter (fun p => p.1.bid.length == ndim && p.1.name == n)).map (fun p => p.1.bid)

/-- set equality of two lists of block ids (`bids == grid`) -/
def sameSet (a b : List BlockId) : Bool := a.all (fun x => b.contains x) && b.all (fun x => a.contains x)

/-- `FromGraph._inferred_layer_name`: the single name whose keys cover exactly our block grid, if any.
`names` lists the name of every key of rank `ndim` (with repetitions); "exactly one distinct candidate"
is "the candidate occurrences are non-empty and all equal". -/
def inferredLayerName {V : Type} (fg : FromGraph V) : Option String :=
  let ndim := fg.numblocks.length
  let names := (fg.layer.filter (fun p => p.1.bid.length == ndim)).map (fun p => p.1.name)
  match names.filter (fun n => sameSet (bidsOf fg.layer ndim n) (grid fg.numblocks)) with
  | [] => none
  | n :: rest => if rest.all (fun m => m == n) then some n else none

/-- `FromGraph._find_layer_key(dsk, block_id)`: (1) the expected key from `keys` when it is in `dsk`,
(2) our own key `(name, *block_id)` when it is in `dsk`, (3) `(inferred name, *block_id)`, else ValueError. -/
def findLayerKey {V : Type} (name : String) (kb : List (BlockId × Key)) (inferred : Option String)
    (dsk : Layer V) (b : BlockId) : Except Err Key :=
  let rest : Except Err Key :=
    if has dsk ⟨name, b⟩ then .ok ⟨name, b⟩
    else match inferred with
      | some n => .ok ⟨n, b⟩
      | none => .error .valueError
  match kb.lookup b with
  | some e => if has dsk e then .ok e else rest
  | none => rest

/-- one iteration of the loop of `FromGraph._layer` -/
def step {V : Type} (fg : FromGraph V) (dsk : Layer V) (b : BlockId) : Except Err (Layer V) :=
  match keysByBlockId fg.keys [] with
  | .error e => .error e
  | .ok kb =>
    match findLayerKey fg.name kb (inferredLayerName fg) dsk b with
    | .error e => .error e
    | .ok lk =>
      if (⟨fg.name, b⟩ : Key) = lk then .ok dsk
      else match get? dsk lk with
        | none => .error .keyError
        | some (.data v) => .ok (erase (assign dsk ⟨fg.name, b⟩ (.data v)) lk)
        | some _ => .ok (assign dsk ⟨fg.name, b⟩ (.alias lk))

/-- the loop `for block_id in product(...)` with its running dict `dsk` -/
def run {V : Type} (fg : FromGraph V) : List BlockId → Layer V → Except Err (Layer V)
  | [], dsk => .ok dsk
  | b :: bs, dsk =>
    match step fg dsk b with
    | .error e => .error e
    | .ok d => run fg bs d

/-- `FromGraph._layer()` -/
def layerOf {V : Type} (fg : FromGraph V) : Except Err (Layer V) := run fg (grid fg.numblocks) fg.layer

/-- the lookup of `_find_layer_key` against the ORIGINAL layer (what `layerOf` is proved to use) -/
def find0 {V : Type} (fg : FromGraph V) (b : BlockId) : Except Err Key :=
  match keysByBlockId fg.keys [] with
  | .error e => .error e
  | .ok kb => findLayerKey fg.name kb (inferredLayerName fg) fg.layer b

/-! ## collections, materialization (the RootAlias pin), entry points -/

/-- what the entry points read of a collection: raw root name, chunks, dtype (and its expression) -/
structure Coll (E : Type) where
  rawName : String
  chunks : List (List Nat)
  dtype : String
  expr : E

def Coll.numblocks {E : Type} (c : Coll E) : List Nat := c.chunks.map List.length

/-- the advertised keys `Array.__dask_keys__()` (flattened): `rawName × grid(chunks)` -/
def Coll.keys {E : Type} (c : Coll E) : List Key := (grid c.numblocks).map (fun b => ⟨c.rawName, b⟩)

/-- an optimized (simplified, lowered, fused) expression: its root name and the union of its layers -/
structure Lowered (V : Type) where
  name : String
  graph : Layer V

/-- `_materialize`: when optimization renamed the root, wrap it in `RootAlias(expr, name)` whose layer
aliases `(raw, *b)` to `(optimized root, *b)`; the embedded-root guard raises RuntimeError.
(The chunk bridge `expr.rechunk(chunks)` is part of `lo`: `lo` already has the advertised grid.) -/
def pin {V : Type} (raw : String) (nb : List Nat) (lo : Lowered V) : Except Err (Layer V) :=
  if lo.name = raw then .ok lo.graph
  else if lo.graph.any (fun p => p.1.name == raw) then .error .runtimeError
  else .ok (lo.graph ++ (grid nb).map (fun b => ((⟨raw, b⟩ : Key), Node.alias ⟨lo.name, b⟩)))

/-- `finalize` over the scheduler's results for the keys `(name, *b)`, `b` in grid order -/
def computeKeys {V : Type} (g : Layer V) (name : String) (nb : List Nat) : Option (List V) :=
  (grid nb).mapM (fun b => eval g ⟨name, b⟩)

/-- the scheduler handing back `{k: value}` for the requested keys (persist) -/
def schedule {V : Type} (g : Layer V) (ks : List Key) : Option (Layer V) :=
  ks.mapM (fun k => (eval g k).map (fun v => (k, Node.data v)))

/-- `rebuild, state = x.__dask_postpersist__()`: `from_graph(layer, meta, self.chunks, [], self._name)` -/
def rebuild {V E : Type} (c : Coll E) (layer : Layer V) : Coll (FromGraph V) :=
  { rawName := c.rawName, chunks := c.chunks, dtype := c.dtype,
    expr := ⟨layer, c.numblocks, [], c.rawName⟩ }

/-- computing a rebuilt collection: its graph is `FromGraph._layer()` -/
def computeFG {V : Type} (p : Coll (FromGraph V)) : Except Err (Option (List V)) :=
  match layerOf p.expr with
  | .error e => .error e
  | .ok l => .ok (computeKeys l p.rawName p.numblocks)

/-- `x.compute()` = schedule the pinned graph `g` for `x.__dask_keys__()` and finalize -/
def epCompute {V E : Type} (c : Coll E) (g : Layer V) : Option (List V) := computeKeys g c.rawName c.numblocks

/-- `x.to_delayed()`: one `Delayed(k, graph)` per advertised key, each computed on its own, then assembled -/
def epToDelayed {V E : Type} (c : Coll E) (g : Layer V) : Option (List V) :=
  (c.keys.map (fun k => eval g k)).mapM id

/-- `x.persist()` = `DaskMethodsMixin.persist(x._pinned())`: the pinned graph produced our keys -/
def epPersist {V E : Type} (c : Coll E) (g : Layer V) : Option (Coll (FromGraph V)) :=
  (schedule g c.keys).map (rebuild c)

/-- `dask.persist(x)`: dask optimizes the RAW expression itself; the scheduler hands back the blocks under
the LOWERED root name `lo.name` over the lowered grid `nbLow`; the rebuild locates them by block id -/
def epDaskPersist {V E : Type} (c : Coll E) (lo : Lowered V) (nbLow : List Nat) : Option (Coll (FromGraph V)) :=
  (schedule lo.graph ((grid nbLow).map (fun b => (⟨lo.name, b⟩ : Key)))).map (rebuild c)

/-- `dask.optimize(x)`: the rebuild runs over the whole (pinned) graph of tasks -/
def epDaskOptimize {V E : Type} (c : Coll E) (g : Layer V) : Coll (FromGraph V) := rebuild c g

end Dask.Entry

/-! # C09 — the shared, name-keyed lowering cache -/
namespace Dask.Memo

/-- the abstract system: expressions `E`, names `N`, meanings `D`, configurations `Cfg`.
Everything the planner decides (which rechunk plan / method, which unified layout, which tree depth /
`split_every`, simplify + fuse on or off) is an ORACLE of the configuration in force when it runs. -/
structure Sys (E N D Cfg : Type) where
  name : E → N
  den : E → D
  children : E → List E
  withChildren : E → List E → E        -- `type(out)(*new_operands)`
  /-- `lower_once` returns `self` without touching the cache: RootAlias, FromGraph, exact-name FromArray -/
  optsOut : E → Bool
  rule : Cfg → E → Option E             -- `_lower()` under the configuration in force
  simplify : Cfg → E → E                -- `expr.simplify()`
  fuse : Cfg → E → E                    -- `expr.fuse()`
  optimizeOn : Cfg → Bool               -- `array.optimize-graph`
  pinned : E → N → E                    -- `RootAlias(expr, name)`

variable {E N D Cfg : Type} [DecidableEq N]

/-- `_LOWER_CACHE` (name-keyed; weak values are modelled by the `evict` history step) -/
abbrev Cache (E N : Type) := List (N × E)

def Cache.get? (c : Cache E N) (n : N) : Option E := c.lookup n

/-- thread the cache through the children, left to right (`for operand in out.operands`) -/
def mapAccum (f : Cache E N → E → E × Cache E N) : Cache E N → List E → List E × Cache E N
  | c, [] => ([], c)
  | c, k :: ks =>
    let r := f c k
    let rs := mapAccum f r.2 ks
    (r.1 :: rs.1, rs.2)

/-- `Expr.lower_once(lowered)` (dask/_expr.py) with the opt-out overrides; `fuel` bounds the tree depth -/
def lowerOnce (S : Sys E N D Cfg) (cfg : Cfg) : Nat → Cache E N → E → E × Cache E N
  | 0, c, e => (e, c)
  | fuel + 1, c, e =>
    if S.optsOut e then (e, c)                       -- `return self`
    else match c.get? (S.name e) with
      | some hit => (hit, c)                         -- `return lowered[self._name]`
      | none =>
        let out := (S.rule cfg e).getD e             -- `out = expr._lower()`; `if out is None: out = expr`
        let r := mapAccum (lowerOnce S cfg fuel) c (S.children out)
        let changed := ((r.1.map S.name) != ((S.children out).map S.name))
        let out' := if changed then S.withChildren out r.1 else out
        match r.2.get? (S.name e) with               -- `lowered.setdefault(self._name, out)`
        | some old => (old, r.2)
        | none => (out', (S.name e, out') :: r.2)

/-- the loop of `_lower`: `new = expr.lower_once(_LOWER_CACHE)` until the name is a fixpoint -/
def lowerLoop (S : Sys E N D Cfg) (cfg : Cfg) (depth : Nat) : Nat → Cache E N → E → E × Cache E N
  | 0, c, e => (e, c)
  | rounds + 1, c, e =>
    let r := lowerOnce S cfg depth c e
    if S.name r.1 = S.name e then (e, r.2) else lowerLoop S cfg depth rounds r.2 r.1

/-- `_materialize(expr)`: simplify (when optimizing), lower through the shared cache, fuse, pin -/
def materialize (S : Sys E N D Cfg) (cfg : Cfg) (depth rounds : Nat) (c : Cache E N) (e : E) : E × Cache E N :=
  if S.optsOut e then (e, c) else                    -- `isinstance(expr, RootAlias)`: return expr
  let e0 := if S.optimizeOn cfg then S.simplify cfg e else e
  let r := lowerLoop S cfg depth rounds c e0
  let e1 := if S.optimizeOn cfg then S.fuse cfg r.1 else r.1
  (if S.name e1 = S.name e then e1 else S.pinned e1 (S.name e), r.2)

/-- a process history -/
inductive Step (E N Cfg : Type) where
  | setCfg (cfg : Cfg)          -- `dask.config.set(...)`
  | build (e : E)               -- constructing a collection (reads config; never touches the cache)
  | lower (e : E)               -- `x.__dask_graph__()` / `x._lowered_expr`
  | compute (e : E)             -- any compute entry point
  | evict (n : N)               -- a weak value died

structure State (E N Cfg : Type) where
  cfg : Cfg
  cache : Cache E N

def exec (S : Sys E N D Cfg) (depth rounds : Nat) (st : State E N Cfg) : Step E N Cfg → State E N Cfg
  | .setCfg cfg => { st with cfg := cfg }
  | .build _ => st
  | .lower e => { st with cache := (materialize S st.cfg depth rounds st.cache e).2 }
  | .compute e => { st with cache := (materialize S st.cfg depth rounds st.cache e).2 }
  | .evict n => { st with cache := st.cache.filter (fun p => !decide (p.1 = n)) }

def runHist (S : Sys E N D Cfg) (depth rounds : Nat) (st : State E N Cfg) (h : List (Step E N Cfg)) : State E N Cfg :=
  h.foldl (exec S depth rounds) st

/-- pointwise "same meaning" of two lists of expressions -/
inductive SameDen (S : Sys E N D Cfg) : List E → List E → Prop
  | nil : SameDen S [] []
  | cons {a b : E} {as bs : List E} : S.den a = S.den b → SameDen S as bs → SameDen S (a :: as) (b :: bs)

/-- per-rule soundness for EVERY configuration value (every oracle answer) -/
structure RuleSound (S : Sys E N D Cfg) : Prop where
  rule : ∀ cfg e e', S.rule cfg e = some e' → S.den e' = S.den e
  simplify : ∀ cfg e, S.den (S.simplify cfg e) = S.den e
  fuse : ∀ cfg e, S.den (S.fuse cfg e) = S.den e
  /-- the meaning is compositional: replacing children by same-meaning children keeps the meaning -/
  congr : ∀ e ks, SameDen S ks (S.children e) → S.den (S.withChildren e ks) = S.den e
  pinned : ∀ e n, S.den (S.pinned e n) = S.den e

/-- C06 for the nodes that use content-derived names (opt-out nodes carry a caller-chosen name) -/
def NameInj (S : Sys E N D Cfg) : Prop :=
  ∀ e₁ e₂, S.optsOut e₁ = false → S.optsOut e₂ = false → S.name e₁ = S.name e₂ → S.den e₁ = S.den e₂

/-- the cache invariant: every entry `n ↦ e'` was stored on behalf of a node that does NOT opt out,
is named `n`, and means what `e'` means -/
def Inv (S : Sys E N D Cfg) (c : Cache E N) : Prop :=
  ∀ n e', c.get? n = some e' → ∃ e, S.optsOut e = false ∧ S.name e = n ∧ S.den e' = S.den e

/-- the invariant in the form of the property text -/
def EveryEntrySound (S : Sys E N D Cfg) (c : Cache E N) : Prop :=
  ∀ n e', c.get? n = some e' → ∀ e, S.optsOut e = false → S.name e = n → S.den e' = S.den e

end Dask.Memo
