/-
Model of point-wise indexing `x.vindex[i0, i1, …]` (slicing/_vindex.py) on the INDEXED axes (integers and
slices of the key are applied first by ordinary `x[nonfancy]`; the non-indexed axes are carried along
unchanged, one `other_blocks` tuple at a time, so an element `x t` of the model is the sub-array of the real
array at the multi-position `t` of the indexed axes).  The index arrays are already broadcast against each
other and flattened (`k` lists of the same length `P`).

  * `_vindex`: per indexed axis the bounds test `(ind >= size) | (ind < -size)` → `IndexError`, `ind %= size`;
  * `_vindex_array`: `P = 0` → an empty array; one indexed axis → `_compute_indexer` + `_shuffle`
    (Model/Shuffle.lean); otherwise `VIndexArray`;
  * `VIndexArray._layer`: block / in-block offset of every point per axis (`np.searchsorted(bounds2, ind,
    side="right") - 1`), output block and location `divmod(arange(P), max_chunk_point_dimensions)`,
    `np.ravel_multi_index` keys, `np.argsort` (unstable: parameter `argsort`), runs of equal keys
    (`flag.nonzero()`), one `_vindex_slice_and_transpose` task per run, one `_vindex_merge` per output block
    (writes into `np.empty`: an unwritten cell is `none`).
Core Lean only.
-/
import DaskArrayModel.Model.Shuffle
namespace Dask.Vindex
open Dask.Py Dask.Slicing Dask.Indexing Dask.Shuffle

/-! ### `_vindex`: bounds, negatives -/

def normAxis (size : Int) (ind : List Int) : Except Err (List Int) :=
  if ind.any (fun i => decide (i ≥ size ∨ i < -size)) then .error .indexError
  else .ok (ind.map (fun i => pyMod i size))

/-- the loop `for i, (ind, size) in enumerate(zip(reduced_indexes, x.shape))` (first failing axis raises). -/
def normAll : List Int → List (List Int) → Except Err (List (List Int))
  | size :: ss, ind :: is =>
    match normAxis size ind with
    | .error e => .error e
    | .ok r =>
      match normAll ss is with
      | .ok rs => .ok (r :: rs)
      | .error e => .error e
  | _, _ => .ok []

/-! ### `VIndexArray._layer` -/

/-- `cached_cumsum(c, initial_zero=True)`. -/
def cum0 (cs : List Int) : List Int := 0 :: cumsum cs

/-- `np.searchsorted(bounds2, p, side="right") - 1`. -/
def blockIdx (cs : List Int) (p : Int) : Nat := bisectRight (cum0 cs) p - 1

/-- `p - bounds2[block]`. -/
def inblockOff (cs : List Int) (p : Int) : Int := p - (cum0 cs).getD (blockIdx cs p) 0

/-- `reduce(mul, map(max, chunks of the indexed axes))`. -/
def mcpd (css : List (List Int)) : Int := (css.map maxChunk).foldl (· * ·) 1

def prod : List Nat → Nat
  | [] => 1
  | d :: ds => d * prod ds

/-- `np.ravel_multi_index(idx, shape)` (C order: index times the stride of its axis). -/
def ravel : List Nat → List Nat → Nat
  | _ :: ds, i :: is => i * prod ds + ravel ds is
  | _, _ => 0

/-- `np.unravel_index(key, shape)` (C order). -/
def unravel : List Nat → Nat → List Nat
  | [], _ => []
  | _ :: ds, key => (key / prod ds) :: unravel ds (key % prod ds)

/-- `a[j]` of every per-axis list: the `j`-th point. -/
def pointAt (cols : List (List Int)) (j : Nat) : List Int := cols.map (fun c => c.getD j 0)

/-- one `vindex-slice` task and its share of the merge: output block, input block per indexed axis,
the in-block offsets per axis (`inblock`), the locations in the output block (`merge_indexer`). -/
structure Group where
  outblock : Nat
  inBlocks : List Nat
  points : List (List Int)
  locs : List Int
deriving Repr, DecidableEq

def layer (argsort : List Int → List Nat) (css : List (List Int)) (inds : List (List Int)) : List Group :=
  let P := (inds.headD []).length
  let blockIdxs := List.zipWith (fun cs ind => ind.map (blockIdx cs)) css inds
  let inblockIdxs := List.zipWith (fun cs ind => ind.map (inblockOff cs)) css inds
  let m := (mcpd css).toNat
  let nChunks := P / m
  let ravelShape := (nChunks + 1) :: css.map List.length
  let keys := (List.range P).map (fun j => ((ravel ravelShape ((j / m) :: blockIdxs.map (fun b => b.getD j 0)) : Nat) : Int))
  let sortidx := argsort keys
  let sortedKeys := sortidx.map (fun j => keys.getD j 0)
  let sortedInblock := inblockIdxs.map (fun a => sortidx.map (fun j => a.getD j 0))
  let dt := minScalarBits (mcpd css)
  let sortedOutIdx := sortidx.map (fun (j : Nat) => wrapU dt ((j % m : Nat) : Int))
  let keyBounds := runStarts sortedKeys ++ [sortedKeys.length]
  (keyBounds.zip keyBounds.tail).map (fun (se : Nat × Nat) =>
    let u := unravel ravelShape (sortedKeys.getD se.1 0).toNat
    ⟨u.headD 0, u.tail, sortedInblock.map (fun a => pySlice a se.1 se.2), pySlice sortedOutIdx se.1 se.2⟩)

/-- the block of the real array a slice task reads at one point: `none` outside the block on any axis. -/
def readBlockN {α} : List (List Int) → (List Int → α) → List Nat → List Int → Option α
  | [], x, [], [] => some (x [])
  | cs :: css, x, b :: bs, o :: os =>
    if b < cs.length ∧ 0 ≤ o ∧ o < cs.getD b 0 then
      readBlockN css (fun t => x ((blockStart cs b + o) :: t)) bs os
    else none
  | _, _, _, _ => none

/-- `_vindex_slice_and_transpose`: the block read point-wise at `zip(*points)`. -/
def evalGroup {α} (css : List (List Int)) (x : List Int → α) (g : Group) : Option (List α) :=
  (List.range g.locs.length).mapM (fun s => readBlockN css x g.inBlocks (pointAt g.points s))

/-- `x[loc] = val` for one `(locations, values)` pair of `_vindex_merge`. -/
def writeAll {α} (buf : List (Option α)) : List Int → List α → List (Option α)
  | l :: ls, v :: vs => writeAll (buf.set l.toNat (some v)) ls vs
  | _, _ => buf

/-- `_vindex_merge(locations, values)`: `np.empty` of the total length, then the writes in order. -/
def vmerge {α} (parts : List (List Int × List α)) : List (Option α) :=
  parts.foldl (fun buf p => writeAll buf p.1 p.2)
    (List.replicate ((parts.map (fun p => p.1.length)).foldl (· + ·) 0) none)

/-- output blocks in order of first appearance (`merge_inputs.keys()`). -/
def outblocksOf (gs : List Group) : List Nat := (gs.map (·.outblock)).eraseDups

inductive VRes (α : Type) | ok (chunks : List (List (Option α))) | err (e : Err) | outside | missing
deriving Repr

/-- `VIndexArray.chunks` on the new leading axis. -/
def vChunks (css : List (List Int)) (P : Nat) : List Int :=
  let m := (mcpd css).toNat
  if P > 0 then List.replicate (P / m) (m : Int) ++ (if P % m > 0 then [((P % m : Nat) : Int)] else [])
  else [0]

/-- all output chunks of the `VIndexArray` layer (`none` inside a chunk: a cell `_vindex_merge` never wrote).
The graph is a dict: `table` maps an output block number to its `_vindex_merge` task (one entry per slice
task here; entries with the same key are identical), and the result is read through the advertised keys
`(name, i)`, `i < len(chunks[0])` (`.missing`: an advertised key without a task). -/
def evalLayer {α} (argsort : List Int → List Nat) (css : List (List Int)) (inds : List (List Int))
    (x : List Int → α) : VRes α :=
  let gs := layer argsort css inds
  match gs.mapM (fun g => (evalGroup css x g).map (fun v => (g, v))) with
  | none => .outside
  | some gv =>
    let table := gs.map (fun g =>
      (g.outblock, vmerge ((gv.filter (fun p => p.1.outblock = g.outblock)).map (fun p => (p.1.locs, p.2)))))
    match (List.range (vChunks css (inds.headD []).length).length).mapM (fun i => table.lookup i) with
    | none => .missing
    | some chunks => .ok chunks

/-- `_vindex` + `_vindex_array` for `k ≥ 1` index arrays of common length. -/
def vindexEval {α} (argsort : List Int → List Nat) (css : List (List Int)) (inds : List (List Int))
    (x : List Int → α) : VRes α :=
  match normAll (css.map isum) inds with
  | .error e => .err e
  | .ok inds' =>
    let P := (inds'.headD []).length
    if P = 0 then .ok [[]]                                        -- `empty(...)` with chunks `(0,)`
    else
      match css, inds' with
      | [cs], [ind] =>                                            -- single axis: `_shuffle`
        match shuffleEval argsort cs (computeIndexer ind cs) (fun p => x [p]) with
        | .ok r => .ok (r.map (fun c => c.map some))
        | .err e => .err e
        | .outside => .outside
      | _, _ => evalLayer argsort css inds' x

/-- the points (in the original order) of normalised index arrays. -/
def pointsOf (inds : List (List Int)) : List (List Int) :=
  (List.range (inds.headD []).length).map (pointAt inds)

/-! ### SPEC vocabulary -/

/-- well-formed input: one index list of length `P` per indexed axis, chunks `≥ 0`. -/
def WF : List (List Int) → List (List Int) → Nat → Prop
  | [], [], _ => True
  | cs :: css, ind :: inds, P => ChunksOK cs ∧ ind.length = P ∧ WF css inds P
  | _, _, _ => False

/-- NumPy's bounds rule: every entry of every index array is in `[-size, size)` of its axis. -/
def InRangeAll : List Int → List (List Int) → Prop
  | size :: ss, ind :: is => (∀ i ∈ ind, -size ≤ i ∧ i < size) ∧ InRangeAll ss is
  | _, _ => True

/-- the `j`-th point with negatives counted from the end (NumPy's meaning of the raw index arrays). -/
def normPoint (css inds : List (List Int)) (j : Nat) : List Int :=
  List.zipWith (fun cs ind => posifyInt (isum cs) (ind.getD j 0)) css inds

end Dask.Vindex
