/-
L1 model of the windowed-operation planners (one axis):

* dask_array/reductions/_sliding_window.py: `supports_native_sliding_window`,
  `SlidingWindowReduction.chunks` (trim arithmetic) and `._block_plan`,
  `supports_native_moving_window`, `MovingWindowReduction._block_plan` and the `n_trunc`
  computed in its `_layer`;
* dask_array/_overlap.py: `ensure_minimum_chunksize`, the edge-merge rule of
  `_get_overlap_rechunked_chunks`, `_overlap_internal_chunks`, the chunk arithmetic of
  `trim_internal`, and the boundary kinds (`periodic` / `reflect` / `nearest` / `constant`)
  as index maps padded position → source position or the constant.

Mirrors the Python control flow (same running variables).  Chunk sizes are Python ints
(`Int`); unknown (`nan`) sizes are not modelled (the guards refuse them).  Core Lean only.
-/
import DaskArrayModel.Py.Basic
namespace Dask.Window
open Dask.Py

/-- `min(chunks)` (non-empty) -/
def lmin : List Int → Int
  | [] => 0
  | x :: xs => xs.foldl min x

/-- `max(chunks)` (non-empty) -/
def lmax : List Int → Int
  | [] => 0
  | x :: xs => xs.foldl max x

/-- `starts = [0]; for c in chunks: starts.append(starts[-1] + c)` -/
def starts (chunks : List Int) : List Int := 0 :: cumsum chunks

/-- Python `l[i]` for a possibly negative `i` (no bounds error modelled: `0` out of range). -/
def pyGet (l : List Int) (i : Int) : Int :=
  if i < 0 then l.getD (l.length - i.natAbs) 0 else l.getD i.toNat 0

/-! ### `supports_native_sliding_window` -/

/-- `for c in chunks: if start >= out_len: break; if c > depth: return False; start += c` -/
def nativeLoop (depth outLen : Int) : Int → List Int → Bool
  | _, [] => true
  | start, c :: cs =>
    if start ≥ outLen then true
    else if c > depth then false
    else nativeLoop depth outLen (start + c) cs

def supportsNativeSliding (chunks : List Int) (window : Int) : Bool :=
  let depth := window - 1
  if depth ≤ 0 then false
  else if lmin chunks ≤ 0 then false
  else if isum chunks < window then false
  else if lmin chunks ≥ depth ∧ chunks.getLastD 0 > depth then false
  else nativeLoop depth (isum chunks - depth) 0 chunks

/-! ### `SlidingWindowReduction.chunks` (sliding axis) -/

/-- `for c in chunks: if remaining <= 0: break; take = min(c, remaining); …` -/
def trimLoop : Int → List Int → List Int
  | _, [] => []
  | remaining, c :: cs =>
    if remaining ≤ 0 then []
    else (min c remaining) :: trimLoop (remaining - min c remaining) cs

def slidingOutChunks (chunks : List Int) (window : Int) : List Int :=
  trimLoop (isum chunks - window + 1) chunks

/-! ### `SlidingWindowReduction._block_plan` -/

/-- `(out_len, band_offset, b, e)` -/
structure SPlan where
  outLen : Int
  bandOffset : Int
  b : Int
  e : Int
deriving DecidableEq, Repr, Inhabited

/-- `out_len = max(0, min(c, remaining))` -/
def outLenOf (c remaining : Int) : Int := max 0 (min c remaining)

/-- loop body for block `i` of size `c` with the current `remaining`. -/
def slidingEntry (sts : List Int) (window : Int) (i : Nat) (c remaining : Int) : SPlan :=
  let outLen := outLenOf c remaining
  if outLen ≤ 0 then ⟨0, 0, i, i⟩
  else
    let edge := pyGet sts i + window - 1
    let b : Int := (bisectRight sts edge : Int) - 1
    let e : Int := (bisectRight sts (edge + outLen - 1) : Int) - 1
    ⟨outLen, edge - pyGet sts b, b, e⟩

def slidingPlanLoop (sts : List Int) (window : Int) : Nat → Int → List Int → List SPlan
  | _, _, [] => []
  | i, remaining, c :: cs =>
    slidingEntry sts window i c remaining ::
      slidingPlanLoop sts window (i + 1) (remaining - outLenOf c remaining) cs

def slidingBlockPlan (chunks : List Int) (window : Int) : List SPlan :=
  slidingPlanLoop (starts chunks) window 0 (isum chunks - window + 1) chunks

/-- `SlidingWindowReduction._layer`: one task per block `i` with its plan row, until the
first block with `out_len <= 0` (`break`).  The task reads block `i`, the totals of the
middle blocks `range(i+1, b)` and the band blocks `range(b, e+1)`. -/
def slidingLayerLoop : Nat → List SPlan → List (Nat × SPlan)
  | _, [] => []
  | i, p :: ps => if p.outLen ≤ 0 then [] else (i, p) :: slidingLayerLoop (i + 1) ps

def slidingLayer (chunks : List Int) (window : Int) : List (Nat × SPlan) :=
  slidingLayerLoop 0 (slidingBlockPlan chunks window)

/-! ### moving window (`bottleneck.move_*`) -/

def supportsNativeMoving (chunks : List Int) (window : Int) : Bool :=
  if window ≤ 1 then false
  else if lmin chunks ≤ 0 then false
  else if chunks.length < 2 ∨ isum chunks < window then false
  else lmax chunks ≤ window - 1

/-- `(start, c, band_offset, g, h, range(h+1, i))` plus the `n_trunc` of `_layer` -/
structure MPlan where
  start : Int
  c : Int
  bandOffset : Int
  g : Option Int
  h : Option Int
  midLo : Int
  midHi : Int
  nTrunc : Int
deriving DecidableEq, Repr, Inhabited

def movingEntry (sts : List Int) (window : Int) (i : Nat) (c : Int) : MPlan :=
  let start := pyGet sts i
  let nTrunc := max 0 (min c (window - 1 - start))
  if start = 0 then ⟨start, c, 0, none, none, 0, 0, nTrunc⟩
  else
    let bandFirst := max 0 (start - window + 1)
    let bandLast := max bandFirst (start + c - window)
    let g : Int := (bisectRight sts bandFirst : Int) - 1
    let h : Int := (bisectRight sts bandLast : Int) - 1
    ⟨start, c, bandFirst - pyGet sts g, some g, some h, h + 1, i, nTrunc⟩

def movingPlanLoop (sts : List Int) (window : Int) : Nat → List Int → List MPlan
  | _, [] => []
  | i, c :: cs => movingEntry sts window i c :: movingPlanLoop sts window (i + 1) cs

def movingBlockPlan (chunks : List Int) (window : Int) : List MPlan :=
  movingPlanLoop (starts chunks) window 0 chunks

/-! ### `ensure_minimum_chunksize` -/

structure EState where
  output : List Int
  new : Int
deriving Repr

/-- one iteration of `for c in chunks:` -/
def emcStep (size : Int) (st : EState) (c : Int) : EState :=
  let st1 : EState :=
    if c < size then
      (if st.new > size + (size - c) then ⟨st.output ++ [st.new - (size - c)], size⟩
       else ⟨st.output, st.new + c⟩)
    else st
  let st2 : EState := if st1.new ≥ size then ⟨st1.output ++ [st1.new], 0⟩ else st1
  if c ≥ size then ⟨st2.output, st2.new + c⟩ else st2

/-- `none` = `raise ValueError` (depth larger than the array). -/
def ensureMinimumChunksize (size : Int) (chunks : List Int) : Option (List Int) :=
  if size ≤ lmin chunks then some chunks
  else
    let st := chunks.foldl (emcStep size) ⟨[], 0⟩
    if st.new ≥ size then some (st.output ++ [st.new])
    else if st.output.length ≥ 1 then some (st.output.dropLast ++ [st.output.getLastD 0 + st.new])
    else none

/-- `_get_overlap_rechunked_chunks` for one axis (`before`, `after` depths, `none`-boundary flag). -/
def overlapRechunkedChunks (chunks : List Int) (before after : Int) (boundaryNone : Bool) :
    Option (List Int) :=
  match ensureMinimumChunksize (max before after) chunks with
  | none => none
  | some c =>
    if boundaryNone then
      let c1 := match c with
        | c0 :: c1 :: rest => if c0 ≤ before then (c0 + c1) :: rest else c
        | _ => c
      let c2 :=
        if c1.length > 1 ∧ c1.getLastD 0 ≤ after then
          (c1.dropLast.dropLast) ++ [c1.dropLast.getLastD 0 + c1.getLastD 0]
        else c1
      some c2
    else some c

/-! ### overlap chunk arithmetic -/

/-- `_overlap_internal_chunks` for one axis with depths `(left, right)`. -/
def overlapInternalChunks (bds : List Int) (left right : Int) : List Int :=
  match bds with
  | [] => []
  | [b] => [b]
  | b0 :: rest => (b0 + right) :: (rest.dropLast.map (· + left + right)) ++ [rest.getLastD 0 + left]

/-- chunk arithmetic of `trim_internal` for one axis. -/
def trimInternalChunks (bd : List Int) (left right : Int) (boundaryNone : Bool) : List Int :=
  let n := bd.length
  (List.range n).map (fun j =>
    let d := bd.getD j 0
    if ¬ boundaryNone then d - (left + right)
    else
      let d1 := if j ≠ 0 then d - left else d
      if j ≠ n - 1 then d1 - right else d1)

/-! ### boundary kinds as index maps -/

inductive Boundary
  | periodic | reflect | nearest | constant
deriving DecidableEq, Repr

/-- For an axis of length `n` padded by `depth` on both sides (`boundaries(x, depth, kind)`),
the source position that padded position `p ∈ [0, n + 2·depth)` reads, or `none` for the
constant fill.  Mirrors `periodic` (`concatenate([x[-depth:], x, x[:depth]])`), `reflect`
(`x[depth-1::-1]`, `x[-1:-depth-1:-1]`), `nearest` (repeat of the edge element). -/
def boundarySrc (kind : Boundary) (n depth p : Int) : Option Int :=
  if depth ≤ p ∧ p < depth + n then some (p - depth)
  else if p < depth then
    match kind with
    | .periodic => some (n - depth + p)
    | .reflect => some (depth - 1 - p)
    | .nearest => some 0
    | .constant => none
  else
    let q := p - depth - n
    match kind with
    | .periodic => some q
    | .reflect => some (n - 1 - q)
    | .nearest => some (n - 1)
    | .constant => none

end Dask.Window
