/-
L3 link between chunk unification (C17, Model/Unify.lean) and the expression languages
(Model/Expr.lean, Model/Expr2.lean): the LOWERING step of `Elemwise` (`Elemwise._lower`,
dask_array/_blockwise.py) that calls `unify_chunks_expr(*self.args)` (dask_array/_expr.py) and, when
an operand's chunks differ from its target, replaces that operand by `a.rechunk(target)`.

Python (dask_array)                                              Lean
---------------------------------------------------------------  ---------------------------------
`Elemwise.args`: `(a, tuple(range(a.ndim)[::-1]))` per array      `opdOf`: axis `n` of a rank-`k` operand carries
   operand (labels count from the RIGHT: NumPy broadcasting)        index label `k-1-n`
`unify_chunks_expr(*args)`                                       `unifyTargets`
   * early exit: all index tuples equal and all `.chunks` equal     first `if` (nothing changes)
     -> arrays returned unchanged
   * `broadcast_dimensions` / policy switch / size guard            `Unify.unifyModel` (the EXISTING model of C17; the
                                                                     float cost pass of policy "auto" enters as the
                                                                     oracle `pre`, checked by `oracleOk`)
   * per operand: `chunks = tuple(chunkss[j] if shape[n] > 1        `targetOf` (`Unify.opdAxisChunks`): a length-1 axis
       or shape[n] == 0 else (shape[n],) …)`                         gets `(1,)`, every other axis the common layout
   * `if chunks != a.chunks and all(a.chunks): a = a.rechunk(..)`   `arrangeOne` / `arrangeAll`: an operand that already has
     (`ArrayExpr.rechunk` validates through `normalize_chunks`:      its target is returned unchanged; a target that is not a
      "Chunks do not add up to shape" -> ValueError)                 layout of the operand's shape is refused (`LErr.rechunk`)
                                                                   `rechunkTo` / `rechunkTo2`: NO `Rechunk` node is created
                                                                     for an operand already in its layout
`Elemwise._lower`: `Elemwise(op, …, *arrays)` when `changed`,     `lowerZip`   (operands of EQUAL shape: `Expr.zip`)
   else `None` (the node stays)                                    `lowerZipB`  (NumPy broadcasting: `Expr2.zipB`;
                                                                     lower-rank operands and length-1 axes are left alone)
a tree in which elemwise nodes have operands chunked differently  `ExprU` (`zipU`), `lowerAll : ExprU → Expr2`

Unknown (nan) chunk sizes, scalar / literal / `ArrayBlockwiseDep` arguments and `where=` / `out=` arrays are
outside this model (C17's and C28's checks cover them end to end).  Core Lean only.
-/
import DaskArrayModel.Model.Unify
import DaskArrayModel.Model.Expr2
namespace Dask.LowerUnify
open Dask.Py Dask.ND

/-- one axis' chunk tuple in the vocabulary of the Unify model (`List Int`) -/
abbrev ULayout := Dask.Unify.Layout

/-- the configuration `unify_chunks_expr` reads: `array.unify-chunks-policy`, `array.unify-chunks-limit` -/
structure Params where
  policy : Dask.Unify.Policy
  limit : Option Int
deriving Repr

/-- an array operand of an elemwise node as unification sees it: `dtype.itemsize` and `.chunks` -/
structure Opnd where
  itemsize : Int
  chunks : Layout
deriving Repr

/-- outcomes that are not a lowered expression -/
inductive LErr
  /-- an exception of `unify_chunks_expr` itself (`common_blockdim`: "Chunks do not add up to same value") -/
  | unify (e : Dask.Unify.Err)
  /-- not a Python outcome: the oracle value `pre` handed to the model (policy "auto") is outside the
      relation every value of the cost-aware pass satisfies; the model refuses it -/
  | oracle
  /-- `a.rechunk(target)` raises ValueError: the target is not a layout of the operand's shape -/
  | rechunk
deriving DecidableEq, Repr

/-- `(a, tuple(range(a.ndim)[::-1]))`: the operand with its index labels -/
def opdOf (o : Opnd) : Dask.Unify.Opd :=
  ⟨o.itemsize, (List.range o.chunks.length).map (fun n =>
    (⟨o.chunks.length - 1 - n, toI (o.chunks.getD n [])⟩ : Dask.Unify.Ax))⟩

/-- the per-operand `chunks = tuple(…)` of `unify_chunks_expr` -/
def targetOf (final : Nat → ULayout) (o : Opnd) : Layout :=
  (opdOf o).axes.map (fun ax => (Dask.Unify.opdAxisChunks final ax).map Int.toNat)

/-- number of index labels: the largest operand rank -/
def nlabelsOf : List Opnd → Nat
  | [] => 0
  | o :: os => max o.chunks.length (nlabelsOf os)

/-- `all(a.chunks)`: every axis has a non-empty chunk tuple -/
def allTruthy (l : Layout) : Bool := l.all (fun c => !c.isEmpty)

/-- the body of the final `for a, i in arginds` loop for one operand: the chunks of the array that
`unify_chunks_expr` returns in its place.
`if chunks != a.chunks and all(a.chunks): a = a.rechunk(chunks)`; `ArrayExpr.rechunk` validates the target
through `normalize_chunks` ("Chunks do not add up to shape" -> ValueError). -/
def arrangeOne (final : Nat → ULayout) (o : Opnd) : Except LErr Layout :=
  let u := targetOf final o
  if u = o.chunks ∨ allTruthy o.chunks = false then .ok o.chunks
  else if decide (u.map List.sum = o.chunks.map List.sum) && allTruthy u then .ok u
  else .error .rechunk

/-- the loop over all operands (the first failing `rechunk` raises) -/
def arrangeAll (final : Nat → ULayout) : List Opnd → Except LErr (List Layout)
  | [] => .ok []
  | o :: os =>
    match arrangeOne final o with
    | .error e => .error e
    | .ok u =>
      match arrangeAll final os with
      | .error e => .error e
      | .ok us => .ok (u :: us)

/-- `unify_chunks_expr(*args)[1]`, as the list of the `.chunks` of the returned arrays (an operand whose
target equals its chunks is returned unchanged by the Python). -/
def unifyTargets (p : Params) (pre : List ULayout) (os : List Opnd) : Except LErr (List Layout) :=
  match os with
  | [] => .ok []
  | o0 :: rest =>
    -- `all(ind == inds[0] …) and all(a.chunks == arrays[0].chunks …)`: equal chunks imply equal rank
    if rest.all (fun o => decide (o.chunks = o0.chunks)) then .ok (os.map (·.chunks)) else
    match Dask.Unify.unifyModel p.policy p.limit pre (os.map opdOf) (nlabelsOf os) with
    | .error e => .error (.unify e)
    | .ok res =>
      if res.oracleOk then arrangeAll (Dask.Unify.look res.final) os else .error .oracle

/-- the operand of the lowered node: the array itself when it already has the layout (no no-op `Rechunk`
node is created: `ArrayExpr.rechunk` returns `self`), else `Rechunk(a, u)` -/
def rechunkTo (a : Expr) (u : Layout) : Expr := if u = chunks a then a else .rechunk a u

/-- `Elemwise._lower` for two operands of EQUAL shape (`Expr.zip`): itemsizes `ia`, `ib` -/
def lowerZip (p : Params) (pre : List ULayout) (ia ib : Int) (f : Nat) (a b : Expr) : Except LErr Expr :=
  match unifyTargets p pre [⟨ia, chunks a⟩, ⟨ib, chunks b⟩] with
  | .error e => .error e
  | .ok [ua, ub] => .ok (.zip f (rechunkTo a ua) (rechunkTo b ub))
  | .ok _ => .error .rechunk

/-! ### the broadcasting case, on the second-layer language -/

/-- `x.rechunk(u)` above a second-layer expression: a phase-1 `rechunk` when `x` is phase 1, otherwise the
one-step context `rechunk (hole)` over `x` -/
def rechunk2 : Expr2 → Layout → Expr2
  | .base e, u => .base (.rechunk e u)
  | x, u => .node (.rechunk (.src holeA (shape2 x) (chunks2 x)) u) x x

def rechunkTo2 (a : Expr2) (u : Layout) : Expr2 := if u = chunks2 a then a else rechunk2 a u

/-- `Elemwise._lower` for two operands under NumPy broadcasting (`Expr2.zipB`) -/
def lowerZipB (p : Params) (pre : List ULayout) (ia ib : Int) (f : Nat) (a b : Expr2) : Except LErr Expr2 :=
  match unifyTargets p pre [⟨ia, chunks2 a⟩, ⟨ib, chunks2 b⟩] with
  | .error e => .error e
  | .ok [ua, ub] => .ok (.zipB f (rechunkTo2 a ua) (rechunkTo2 b ub))
  | .ok _ => .error .rechunk

/-! ### trees with un-unified elemwise nodes -/

/-- Expressions BEFORE lowering: `zipU` is an `Elemwise` whose operands may be chunked differently (and may
broadcast); `ia`, `ib` are the operands' itemsizes and `pre` the oracle value of the cost-aware pass at this
node (read under policy "auto" only).  `node` is a phase-1 context over two sub-expressions, as in `Expr2`. -/
inductive ExprU
  | base (e : Expr)
  | zipU (f : Nat) (ia ib : Int) (pre : List ULayout) (a b : ExprU)
  | node (e : Expr) (a b : ExprU)
deriving Repr

/-- NumPy broadcast of two shapes (aligned at the right) -/
def bcShape (s t : List Nat) : List Nat := npBcShape (max s.length t.length) s t

/-- NumPy shape -/
def shapeU : ExprU → List Nat
  | .base e => shape e
  | .zipU _ _ _ _ a b => bcShape (shapeU a) (shapeU b)
  | .node e _ _ => shape e

/-- NumPy's binary elementwise function on two arrays with broadcasting (shapes aligned at the right, a
length-1 or missing axis is read at position 0): the meaning of `x + y`, whatever the chunks -/
def bcDen (g : Int → Int → Int) (x y : Arr Int) : Arr Int :=
  let sh := bcShape x.shape y.shape
  ⟨sh, fun i =>
    g (x.get (bcIdx x.shape (i.drop (sh.length - x.shape.length))))
      (y.get (bcIdx y.shape (i.drop (sh.length - y.shape.length))))⟩

/-- the NumPy meaning: `zipU` is the broadcasting elementwise function, whatever the chunks -/
def denU (env : Env) : ExprU → Arr Int
  | .base e => den env e
  | .zipU f _ _ _ a b => bcDen (env.bin f) (denU env a) (denU env b)
  | .node e a b => den (env.withHoles (denU env a) (denU env b)) e

/-- `lower_completely` restricted to the elemwise lowering: every `zipU` becomes a `zipB` over operands
rechunked to the unified layout -/
def lowerAll (p : Params) : ExprU → Except LErr Expr2
  | .base e => .ok (.base e)
  | .zipU f ia ib pre a b =>
    match lowerAll p a, lowerAll p b with
    | .ok a', .ok b' => lowerZipB p pre ia ib f a' b'
    | .error e, _ => .error e
    | _, .error e => .error e
  | .node e a b =>
    match lowerAll p a, lowerAll p b with
    | .ok a', .ok b' => .ok (.node e a' b')
    | .error e, _ => .error e
    | _, .error e => .error e

/-! ### decidable well-formedness of the inputs -/

/-- every chunk is positive (no zero-length chunk; in particular no zero-length axis) -/
def posLayout (l : Layout) : Bool := l.all (fun c => c.all (fun x => decide (0 < x)))

/-- NumPy broadcast compatibility of two shapes aligned at the right: equal, or one of them is 1 -/
def bcCompat (s t : List Nat) : Bool :=
  let r := max s.length t.length
  (List.range r).all (fun k =>
    let x := (padSh r s).getD k 0
    let y := (padSh r t).getD k 0
    decide (x = y ∨ x = 1 ∨ y = 1))

def isOk {ε α} : Except ε α → Bool
  | .ok _ => true
  | .error _ => false

/-- what the real API accepts: phase-1 leaves and contexts are well-formed, the holes of a context are
declared with the shape and chunks of the LOWERED sub-expressions, the operands of an elemwise node have
positive chunks, non-negative itemsizes and broadcast-compatible shapes, and the lowering of the node is not
refused (no exception; under policy "auto" the oracle value is admissible) -/
def wfU (p : Params) : ExprU → Bool
  | .base e => wf e
  | .zipU f ia ib pre a b =>
    wfU p a && wfU p b &&
      match lowerAll p a, lowerAll p b with
      | .ok a', .ok b' =>
        posLayout (chunks2 a') && posLayout (chunks2 b') && bcCompat (shape2 a') (shape2 b') &&
          decide (0 ≤ ia) && decide (0 ≤ ib) && isOk (lowerZipB p pre ia ib f a' b')
      | _, _ => false
  | .node e a b =>
    wfU p a && wfU p b &&
      match lowerAll p a, lowerAll p b with
      | .ok a', .ok b' => wf e && holesOK a' b' e
      | _, _ => false

/-- `wfU` without the clause "the lowering of the node is not refused": the plain input conditions.  Under the
policies `coarse` and `refine` they imply `wfU` (Lemmas/LowerUnify.lean, `wfU_of_regular`): lowering cannot fail. -/
def regularU (p : Params) : ExprU → Bool
  | .base e => wf e
  | .zipU _ ia ib _ a b =>
    regularU p a && regularU p b &&
      match lowerAll p a, lowerAll p b with
      | .ok a', .ok b' =>
        posLayout (chunks2 a') && posLayout (chunks2 b') && bcCompat (shape2 a') (shape2 b') &&
          decide (0 ≤ ia) && decide (0 ≤ ib)
      | _, _ => false
  | .node e a b =>
    regularU p a && regularU p b &&
      match lowerAll p a, lowerAll p b with
      | .ok a', .ok b' => wf e && holesOK a' b' e
      | _, _ => false

end Dask.LowerUnify
