/-
Contractions: `matmul` / `@`, `tensordot`, `dot`, `einsum` (dask_array/linalg/_tensordot.py,
dask_array/_einsum.py).  Core Lean only.

All four build the SAME two-stage graph (concatenate=False):

  1. one `Blockwise` over an index tuple `out_ind` that still CONTAINS the contracted index labels
     (`adjust_chunks = {label: 1}`): the task for block `bid` applies the NumPy contraction
     (`np.tensordot` + `x[..., None, ...]`, `np.matmul` + `chunk[..., None, :]`, `np.einsum` +
     `reshape(shape + (1,)*ncontract)`) to ONE block of every operand and keeps every contracted axis
     with length 1;
  2. a sum over the contracted block axes: `intermediate.sum(axis=left_axes)` /
     `result.sum(axis=…)` (`Reduction._lower`: per-block `np.sum(keepdims=True)`, then
     `_build_tree_reduce_expr`: `depth-1` `PartialReduce(keepdims=True)` layers and one aggregate
     layer without keepdims), or `_sum_wo_cat` for matmul (the same tree with
     `reduce(np.add, blocks)` instead of concatenate+sum, or a bare `squeeze` when the contracted
     axis has ONE block).

Python                                                   Lean
-------------------------------------------------------  ----------------------------------------
index labels of one operand, as POSITIONS in `out_ind`   `Opd.pos`   (`posOf outInd ind`)
operand value / chunks AFTER `unify_chunks_expr`          `Opd.arr` / `Opd.chunks`
   (`chunkss[j] if shape > 1 or shape == 0 else (shape,)`)   (`alignChunks`)
`chunkss[label]` for every label of `out_ind`             `Plan.full`
`split_every` of the reduction per `out_ind` position     `Plan.split`   (0 = position not contracted)
   (the contracted positions)                                `Plan.mask`
number of `PartialReduce` layers                          `Plan.depth`   (`planDepth` = `treeDepth`)
`_sum_wo_cat`: `if a.shape[axis] == 1: squeeze`           `Plan.direct`
`_compute_block_id`: `idx_to_block[i] % numblocks[dim]`   `depBid`
the operand block read by the task                        `opBlock`
`np.tensordot` / `np.matmul` / `np.einsum` of arrays      `npContract` (meaning) / `npContractKeep`
   (size-1 axes broadcast, output length of an index =      (contracted axes kept with length 1);
   the first length ≠ 1 among its axes)                      `bdim`, `npShape`, `rd`
the Blockwise task for block `bid`                        `blockProd P bid`
`chunk.sum(block, axis, keepdims=True)`                   `chunkSum`
`sum(_concatenate2(blocks, axes), axis, keepdims=True)`   `addBlocks`  (blocks whose reduced axes have
   / `reduce(np.add, blocks)`                                length 1: the pointwise sum)
one `PartialReduce` layer (`partition_all` per axis,      `layer`  (on `Dask.Reduce.layerParts`, `cart`)
   `product(*parts)`)
the cascade                                               `tree`
final key without the reduced axes, `keepdims=False`      `outBlock` (`dropMasked`)
`.chunks` of the result                                   `outChunks`
`tensordot()`'s index loop (`out_index.remove`, …)         `tensordotInds`
`matmul()`'s `newaxis` padding, index tuples, squeezes    `matmulInds`
`einsum()` (labels given; contracted = not in output)      `einsumInds`

The NumPy meaning `contractDen P` does not mention chunks.  `blockProd` is the SAME NumPy function
(`npContractKeep`) applied to blocks: the theorems (Props/C01Contract.lean) say that the chunked
algorithm computes the blocks of the whole-array function.

Not modelled here (taken from the implementation by the harness, checked against C17's relation):
which layout `unify_chunks_expr` chooses for a label (cost-aware float policy, C17), and the extra
`rechunk` `einsum` inserts to bound the output chunk size; `Plan.full` / `Opd.chunks` are the
layouts in force AFTER both.  That the blocks of a rechunked operand are the blocks of its value
under the new layout is C01/C14's theorem (`Expr.rechunk`).  sparse operands (`concatenate=True`)
are out of scope.
-/
import DaskArrayModel.Model.Arr
import DaskArrayModel.Model.Reduce
namespace Dask.Contract
open Dask.Py Dask.ND Dask.Reduce

/-! ### masks over the positions of `out_ind` (`true` = contracted) -/

/-- the entries at contracted positions -/
def pick {α} : List Bool → List α → List α
  | true :: m, x :: l => x :: pick m l
  | false :: m, _ :: l => pick m l
  | _, _ => []

/-- the entries at the other positions -/
def keep {α} : List Bool → List α → List α
  | true :: m, _ :: l => keep m l
  | false :: m, x :: l => x :: keep m l
  | _, _ => []

/-- interleave: `free` at the non-contracted positions, `con` at the contracted ones -/
def merge {α} : List Bool → List α → List α → List α
  | true :: m, f, c :: cs => c :: merge m f cs
  | false :: m, x :: f, c => x :: merge m f c
  | _, _, _ => []

/-- `v` at the contracted positions (`adjust_chunks`, `keepdims=True`) -/
def setMasked (m : List Bool) (l : List Nat) (v : Nat) : List Nat :=
  List.zipWith (fun b x => if b then v else x) m l

/-- zeros, one per contracted position -/
def zerosOf (m : List Bool) : List Nat := (pick m m).map (fun _ => 0)

/-! ### NumPy's contraction of whole arrays -/

/-- NumPy broadcasting read: an axis of length 1 is read at 0 -/
def bc (n x : Nat) : Nat := if n = 1 then 0 else x

/-- the operand index read at the full index `x` (one entry per position of `out_ind`):
axis `t` carries the label at position `pos[t]` -/
def rd (pos shape : List Nat) (x : List Nat) : List Nat :=
  List.zipWith (fun p n => bc n (x.getD p 0)) pos shape

def iprod : List Int → Int
  | [] => 1
  | x :: xs => x * iprod xs

/-- NumPy's length of one index: the first length ≠ 1 among the axes that carry it, else 1 -/
def bdim (lens : List Nat) : Nat := (lens.find? (fun n => n != 1)).getD 1

/-- the lengths of all operand axes that carry position `p` -/
def lensAt (obs : List (List Nat × Arr Int)) (p : Nat) : List Nat :=
  obs.flatMap (fun ob => ((ob.1.zip ob.2.shape).filter (fun q => q.1 == p)).map (·.2))

/-- lengths of all indices -/
def npShape (obs : List (List Nat × Arr Int)) (rank : Nat) : List Nat :=
  (List.range rank).map (fun p => bdim (lensAt obs p))

/-- the product of the operands' entries at the full index `x` -/
def npTerm (obs : List (List Nat × Arr Int)) (x : List Nat) : Int :=
  iprod (obs.map (fun ob => ob.2.get (rd ob.1 ob.2.shape x)))

/-- NumPy meaning: `out[j] = Σ_c Π_operands operand[labels(j, c)]` (einsum / tensordot / matmul) -/
def npContract (mask : List Bool) (obs : List (List Nat × Arr Int)) : Arr Int :=
  let fsh := npShape obs mask.length
  ⟨keep mask fsh, fun j => isum ((allIdx (pick mask fsh)).map (fun c => npTerm obs (merge mask j c)))⟩

/-- the same with every contracted axis KEPT with length 1 (what the chunk functions return:
`x[..., None, ...]`, `chunk[..., None, :]`, `reshape(shape + (1,)*n)` up to the axis order of `out_ind`) -/
def npContractKeep (mask : List Bool) (obs : List (List Nat × Arr Int)) : Arr Int :=
  let fsh := npShape obs mask.length
  ⟨setMasked mask fsh 1, fun i =>
    isum ((allIdx (pick mask fsh)).map (fun c => npTerm obs (merge mask (keep mask i) c)))⟩

/-! ### the plan -/

/-- one operand of the blockwise product, after chunk alignment -/
structure Opd where
  arr : Arr Int
  chunks : Layout
  pos : List Nat

structure Plan where
  ops : List Opd
  /-- `chunkss[label]` per position of `out_ind` (before `adjust_chunks`) -/
  full : Layout
  /-- `split_every` per position of `out_ind`; `0` = the position is not contracted -/
  split : List Nat
  /-- number of `PartialReduce` layers -/
  depth : Nat
  /-- matmul only: the contracted axis has one block, `_sum_wo_cat` squeezes it -/
  direct : Bool := false

def Plan.mask (P : Plan) : List Bool := P.split.map (fun s => s != 0)

/-- the depth `_build_tree_reduce_expr` computes (exact integer version of `ceil(log(n, k))`) -/
def planDepth (full : Layout) (split : List Nat) : Nat := treeDepth (numblocks full) split

/-- NumPy meaning of the whole operation -/
def contractDen (P : Plan) : Arr Int := npContract P.mask (P.ops.map (fun o => (o.pos, o.arr)))

/-- `.chunks` of the blockwise product (`adjust_chunks`: every contracted chunk becomes 1) -/
def prodChunks (P : Plan) : Layout :=
  List.zipWith (fun b cs => if b then cs.map (fun _ => 1) else cs) P.mask P.full

/-- `.chunks` of the result -/
def outChunks (P : Plan) : Layout := keep P.mask P.full

/-! ### stage 1: the blockwise product -/

/-- `_compute_block_id` -/
def depBid (o : Opd) (bid : List Nat) : List Nat :=
  List.zipWith (fun p cs => bid.getD p 0 % cs.length) o.pos o.chunks

/-- the operand block the task reads -/
def opBlock (o : Opd) (bid : List Nat) : Arr Int := restrict o.arr (extent o.chunks (depBid o bid))

/-- the task of the blockwise product for block `bid` of the `out_ind` grid -/
def blockProd (P : Plan) (bid : List Nat) : Arr Int :=
  npContractKeep P.mask (P.ops.map (fun o => (o.pos, opBlock o bid)))

/-! ### stage 2: the sum over the contracted block axes -/

/-- `np.sum(block, axis=contracted, keepdims=True)` -/
def chunkSum (mask : List Bool) (blk : Arr Int) : Arr Int :=
  ⟨setMasked mask blk.shape 1, fun i =>
    isum ((allIdx (pick mask blk.shape)).map (fun c => blk.get (merge mask (keep mask i) c)))⟩

/-- combine / aggregate on a group of blocks whose reduced axes have length 1: the pointwise sum
(`reduce(np.add, blocks)`; `np.sum(_concatenate2(blocks, axes), axis, keepdims=True)`) -/
def addBlocks (bs : List (Arr Int)) : Arr Int :=
  ⟨(bs.headD ⟨[], fun _ => 0⟩).shape, fun i => isum (bs.map (fun b => b.get i))⟩

/-- `keepdims=False` / `squeeze`: drop the contracted axes (length 1) -/
def dropMasked (mask : List Bool) (blk : Arr Int) : Arr Int :=
  ⟨keep mask blk.shape, fun j => blk.get (merge mask j (zerosOf mask))⟩

/-- the input groups of output key `out` of one layer: `p[i] = parts[i][out[i]]` -/
def groupsAt (nb split out : List Nat) : List (List Nat) :=
  List.zipWith (fun ps j => ps.getD j []) (layerParts nb split) out

/-- one `PartialReduce` layer on a block grid: `func(lol_tuples(product(*p)))` -/
def layer {β} (f : List β → β) (nb split : List Nat) (G : List Nat → β) : List Nat → β :=
  fun out => f ((cart (groupsAt nb split out)).map G)

/-- `r` layers -/
def tree {β} (f : List β → β) (split : List Nat) : Nat → List Nat → (List Nat → β) → (List Nat → β)
  | 0, _, G => G
  | r + 1, nb, G => tree f split r (numBlocksAfterND nb split) (layer f nb split G)

/-- numblocks after `r` layers -/
def nbAfter (split : List Nat) : Nat → List Nat → List Nat
  | 0, nb => nb
  | r + 1, nb => nbAfter split r (numBlocksAfterND nb split)

/-- the blocks entering the tree: per-block `sum(keepdims=True)` of the product blocks -/
def level0 (P : Plan) : List Nat → Arr Int := fun bid => chunkSum P.mask (blockProd P bid)

/-- the block grid after `r` layers (all with `keepdims=True`) -/
def levelBlocks (P : Plan) (r : Nat) : List Nat → Arr Int :=
  tree addBlocks P.split r (numblocks P.full) (level0 P)

/-- the task for output block `ob` (block index over the NON-contracted positions) -/
def outBlock (P : Plan) (ob : List Nat) : Arr Int :=
  let key := merge P.mask ob (zerosOf P.mask)
  if P.direct then dropMasked P.mask (blockProd P key)
  else dropMasked P.mask (levelBlocks P P.depth key)

/-- what `compute()` returns -/
def computeOut (P : Plan) : Arr Int := assemble (outChunks P) (outBlock P)

/-! ### well-formedness -/

/-- an operand axis either has the label's chunks or is a broadcast axis `(1,)` -/
def Opd.wf (full : Layout) (o : Opd) : Bool :=
  decide (o.pos.length = o.chunks.length) && decide (o.chunks.map List.sum = o.arr.shape) &&
    (o.pos.zip o.chunks).all (fun q =>
      decide (q.1 < full.length) && (decide (q.2 = full.getD q.1 []) || decide (q.2 = [1])))

/-- some operand axis carries position `p` with the label's own chunks -/
def covered (ops : List Opd) (full : Layout) (p : Nat) : Bool :=
  ops.any (fun o => (o.pos.zip o.chunks).any (fun q => q.1 == p && decide (q.2 = full.getD p [])))

def Plan.wf (P : Plan) : Bool :=
  decide (P.split.length = P.full.length) &&
    P.full.all (fun cs => !cs.isEmpty) &&
    P.ops.all (Opd.wf P.full) &&
    (List.range P.full.length).all (covered P.ops P.full) &&
    decide (1 ≤ P.depth) &&
    (P.split.zip P.full).all (fun q =>
      decide (q.1 = 0) || (decide (2 ≤ q.1) && decide (q.2.length ≤ q.1 ^ P.depth))) &&
    (!P.direct || (P.split.zip P.full).all (fun q => decide (q.1 = 0) || decide (q.2.length = 1)))

def Plan.WF (P : Plan) : Prop := P.wf = true

instance (P : Plan) : Decidable P.WF := by unfold Plan.WF; infer_instance

/-! ### chunk alignment and the index bookkeeping of the three front ends -/

/-- target chunks of one operand axis in `unify_chunks_expr`:
`chunkss[j] if a.shape[n] > 1 or a.shape[n] == 0 else (a.shape[n],)` -/
def alignChunks (shapeN : Nat) (labelChunks : List Nat) : List Nat :=
  if shapeN > 1 ∨ shapeN = 0 then labelChunks else [shapeN]

/-- positions of an operand's labels in `out_ind` -/
def posOf (outInd ind : List Nat) : List Nat := ind.map (fun l => outInd.idxOf l)

inductive Err | indexError | valueError
deriving DecidableEq, Repr

/-- Python list indexing with a possibly negative index -/
def pyIdx (n : Nat) (i : Int) : Except Err Nat :=
  if 0 ≤ i ∧ i < (n : Int) then .ok i.toNat
  else if -(n : Int) ≤ i ∧ i < 0 then .ok (i + n).toNat
  else .error .indexError

structure Inds where
  aInd : List Nat
  bInd : List Nat
  outInd : List Nat
  /-- positions of `out_ind` summed afterwards -/
  axes : List Nat
deriving DecidableEq, Repr

/-- the loop of `tensordot()`:
`out_index.remove(right_index[r]); right_index[r] = left_index[l]; adjust_chunks[left_index[l]] = …` -/
def tensordotLoop (left : List Nat) : List (Int × Int) → List Nat → List Nat → Except Err (List Nat × List Nat)
  | [], right, out => .ok (right, out)
  | (l, r) :: rest, right, out =>
    match pyIdx right.length r, pyIdx left.length l with
    | .error e, _ => .error e
    | _, .error e => .error e
    | .ok ri, .ok li =>
      let lab := right.getD ri 0
      if lab ∈ out then tensordotLoop left rest (right.set ri (left.getD li 0)) (out.erase lab)
      else .error .valueError

/-- `tensordot(lhs, rhs, axes=(left_axes, right_axes))` for ranks `na`, `nb`: index tuples and
`left_axes = [ax if ax >= 0 else lhs.ndim + ax …]` (`zip` stops at the shorter list) -/
def tensordotInds (na nb : Nat) (la ra : List Int) : Except Err Inds :=
  let left := List.range na
  let right := (List.range nb).map (· + na)
  match tensordotLoop left (la.zip ra) right (left ++ right) with
  | .error e => .error e
  | .ok (right', out) =>
    .ok ⟨left, right', out, la.map (fun ax => if ax ≥ 0 then ax.toNat else ((na : Int) + ax).toNat)⟩

/-- integer `axes=n`: the last `n` axes of `lhs` with the first `n` of `rhs` -/
def tensordotIntAxes (na n : Nat) : List Int × List Int :=
  (((List.range n).map (fun t => Int.ofNat (na - n + t))), (List.range n).map (fun t => Int.ofNat t))

/-- `dot(a, b) = tensordot(a, b, axes=((a.ndim - 1,), (b.ndim - 2,)))` -/
def dotAxes (na nb : Nat) : List Int × List Int := ([(na : Int) - 1], [(nb : Int) - 2])

structure MatmulInds where
  /-- leading `newaxis` added to a / b (rank padding), and the 1-d promotions -/
  padA : Nat
  padB : Nat
  a1d : Bool
  b1d : Bool
  inds : Inds
deriving DecidableEq, Repr

/-- `matmul(a, b)` for ranks `na`, `nb ≥ 1`: 1-d promotion (`a[newaxis, :]`, `b[:, newaxis]`), rank
padding, `out_ind = range(n+1)`, `lhs_ind = range(n)`, `rhs_ind = range(n-2) + (n-1, n)`,
contracted position `n-1` (`axis=-2` of the product) -/
def matmulInds (na nb : Nat) : Except Err MatmulInds :=
  if na = 0 ∨ nb = 0 then .error .valueError else
  let a1d := decide (na = 1)
  let b1d := decide (nb = 1)
  let na' := if a1d then 2 else na
  let nb' := if b1d then 2 else nb
  let n := max na' nb'
  .ok ⟨n - na', n - nb', a1d, b1d,
    ⟨List.range n, List.range (n - 2) ++ [n - 1, n], List.range (n + 1), [n - 1]⟩⟩

/-- `einsum`: `out_ind = outputs + contract_inds` (the order of the contracted labels is the
iteration order of a Python set: an input here), summed positions `len(outputs) …` -/
def einsumInds (a b outputs contract : List Nat) : Inds :=
  ⟨a, b, outputs ++ contract, (List.range contract.length).map (· + outputs.length)⟩

/-- `split_every` per position of `out_ind` from the summed positions and the fan-in `k` -/
def splitOf (rank : Nat) (axes : List Nat) (k : Nat) : List Nat :=
  (List.range rank).map (fun p => if p ∈ axes then k else 0)

/-! ### the 2-d reading -/

/-- `a @ b` for matrices: `out[i, j] = Σ_k a[i, k] * b[k, j]` -/
def matmulDen (a b : Arr Int) : Arr Int :=
  ⟨[a.shape.getD 0 0, b.shape.getD 1 0], fun ij =>
    isum ((List.range (a.shape.getD 1 0)).map (fun k =>
      a.get [ij.getD 0 0, k] * b.get [k, ij.getD 1 0]))⟩

/-- the plan of `a @ b` for matrices with row chunks `ri`, contracted chunks `ck` (the same on both
operands after unification), column chunks `cj`, fan-in `k` -/
def matmulPlan (a b : Arr Int) (ri ck cj : List Nat) (k : Nat) : Plan :=
  let full := [ri, ck, cj]
  let split := [0, k, 0]
  { ops := [⟨a, [ri, ck], [0, 1]⟩, ⟨b, [ck, cj], [1, 2]⟩]
    full := full, split := split, depth := planDepth full split
    direct := decide (ck.length = 1) }

/-- `dot` of two vectors (`tensordot(a, b, axes=((0,), (-1,)))`): `Σ_k a[k] * b[k]`, a 0-d result -/
def vdotDen (a b : Arr Int) : Arr Int :=
  ⟨[], fun _ => isum ((List.range (a.shape.getD 0 0)).map (fun k => a.get [k] * b.get [k]))⟩

def vdotPlan (a b : Arr Int) (ck : List Nat) (k : Nat) : Plan :=
  { ops := [⟨a, [ck], [0]⟩, ⟨b, [ck], [0]⟩], full := [ck], split := [k], depth := planDepth [ck] [k] }

/-- matrix · vector (`dot(a, v)` = `tensordot(a, v, axes=((1,), (-1,)))`): `out[i] = Σ_k a[i,k] v[k]` -/
def matvecDen (a v : Arr Int) : Arr Int :=
  ⟨[a.shape.getD 0 0], fun i =>
    isum ((List.range (a.shape.getD 1 0)).map (fun k => a.get [i.getD 0 0, k] * v.get [k]))⟩

def matvecPlan (a v : Arr Int) (ri ck : List Nat) (k : Nat) : Plan :=
  { ops := [⟨a, [ri, ck], [0, 1]⟩, ⟨v, [ck], [1]⟩], full := [ri, ck], split := [0, k]
    depth := planDepth [ri, ck] [0, k] }

/-- `expand_dims` at the front / back, as `matmul` does for 1-d operands -/
def expandFront (a : Arr Int) : Arr Int := ⟨1 :: a.shape, fun i => a.get i.tail⟩
def expandBack (a : Arr Int) : Arr Int := ⟨a.shape ++ [1], fun i => a.get i.dropLast⟩

/-- `squeeze(x, axis)` of a block / array on an axis of length 1 -/
def squeezeAt (ax : Nat) (a : Arr Int) : Arr Int := ⟨a.shape.eraseIdx ax, fun i => a.get (i.insertIdx ax 0)⟩

end Dask.Contract
